---------------------------- MODULE LayerOverlay ----------------------------
(***************************************************************************)
(* C04 - each image-up-to-layer view equals the OCI overlay of its layers. *)
(*                                                                         *)
(* Declarative part: Apply / Overlay - the OCI image-spec layer rules      *)
(* (later entries replace earlier ones; a whiteout removes the entry and   *)
(* its subtree from lower layers; an opaque whiteout hides all lower       *)
(* children; a non-directory replacing a directory removes its subtree;    *)
(* parents of any entry are implicit directories).                         *)
(*                                                                         *)
(* Operational part: the newest-layer-first fill of                        *)
(* artifact/image/layerscanning/image/image.go, one step per tar entry     *)
(* (ProcessEntry = the loop body of fillChainLayersWithFilesFromTar:       *)
(* whiteout detection, "already in current chain layer" skip,              *)
(* populateEmptyDirectoryNodes, fillChainLayersWithFileNode with the       *)
(* hidden-by-ancestor test), then the read API over the resulting path     *)
(* trees (direct lookup vs. walk through directory listings).              *)
(*                                                                         *)
(* An image is built by the actions AddEntry / CloseLayer; every state     *)
(* with no open layer is a complete image and is emitted as a replay case. *)
(***************************************************************************)
EXTENDS Integers, FiniteSets, Sequences, TLC, SequencesExt, Json

CONSTANTS MaxLayers,    \* layers per image
          MaxEntries,   \* entries per layer: a sequence indexed by layer number (cfg: <- operator)
          Kinds,        \* entry kinds offered: subset of {"f1","f2","dir","link","wh","opq"}
          Limit,        \* per-file byte limit of the image loader (0: default, far above every file); f1 has 1 byte, f2 has 2
          FixResurrect, \* TRUE: an older whiteout / non-directory at a path that a newer layer re-created as a directory marks
                        \* that directory "hidesOlder", so even older contents below it do not reappear (as repaired)
          FixHidden     \* TRUE: the code hides entries under a whited-out or non-directory ancestor at any depth
                        \* (as repaired); FALSE: the original inWhiteoutDir that stops at the first missing node

ME1 == <<3>>            \* values for MaxEntries
ME21 == <<2, 1>>
ME12 == <<1, 2>>
ME22 == <<2, 2>>
ME111 == <<1, 1, 1>>
ME211 == <<2, 1, 1>>
ME1111 == <<1, 1, 1, 1>>
ME2111 == <<2, 1, 1, 1>>
ME11111 == <<1, 1, 1, 1, 1>>
SmallPaths == {"/a", "/a/b", "/e"}     \* cfg: Paths <- SmallPaths for the deep (4-5 layer) families

Root == "/"
Paths == {"/a", "/a/b", "/a/b/c", "/a/d", "/e"}
POrder == <<"/a", "/a/b", "/a/b/c", "/a/d", "/e">>
Parent == [p \in Paths |-> CASE p = "/a" -> Root [] p = "/a/b" -> "/a" [] p = "/a/b/c" -> "/a/b"
                              [] p = "/a/d" -> "/a" [] p = "/e" -> Root]
Depth == [p \in Paths |-> CASE p = "/a" -> 1 [] p = "/a/b" -> 2 [] p = "/a/b/c" -> 3 [] p = "/a/d" -> 2 [] p = "/e" -> 1]
IsDirSlot(p) == \E q \in Paths : Parent[q] = p
LinkTarget == "/e"                      \* every symlink entry points (absolutely) to /e

RECURSIVE Ancestors(_)
Ancestors(p) == IF p = Root THEN {} ELSE LET q == Parent[p] IN IF q = Root THEN {} ELSE {q} \cup Ancestors(q)
Under(p, a) == a \in Ancestors(p)

Entry == [path : Paths, kind : Kinds]
LegalEntry(e) == /\ (e.kind = "opq" => IsDirSlot(e.path))
                 /\ (e.kind \in {"link", "hl"} => e.path # LinkTarget /\ ~Under(e.path, LinkTarget))
Entries == {e \in Entry : LegalEntry(e)}
IsAdd(k) == k \in {"f1", "f2", "dir", "link", "hl"}
\* "hl" is a hard link entry (tar TypeLink) naming /e: the path becomes another name of the regular file that /e
\* is at that moment, and keeps that content whatever later layers do to /e
NonDirKinds == {"f1", "f2", "link", "hl"}

-----------------------------------------------------------------------------
(* ---------------- declarative: OCI layer application ---------------- *)
None == "-"
EmptyView == [p \in Paths |-> None]
Whiteouts(layer) == {layer[i].path : i \in {j \in DOMAIN layer : layer[j].kind = "wh"}}
Opaques(layer)   == {layer[i].path : i \in {j \in DOMAIN layer : layer[j].kind = "opq"}}
Hidden(layer, p) == \/ p \in Whiteouts(layer)
                    \/ \E w \in Whiteouts(layer) : Under(p, w)
                    \/ \E o \in Opaques(layer) : Under(p, o)
EnsureParents(view, p) == [q \in Paths |-> IF q \in Ancestors(p) /\ view[q] # "dir" THEN "dir" ELSE view[q]]
\* an ancestor that was not a directory and becomes one had no children: nothing else to drop
AddOne(view, e) ==
  LET v1 == EnsureParents(view, e.path)
      k == IF e.kind = "hl" THEN view[LinkTarget] ELSE e.kind
  IN [q \in Paths |-> IF q = e.path THEN k
                       ELSE IF Under(q, e.path) /\ e.kind # "dir" THEN None
                       ELSE v1[q]]
RECURSIVE ApplyEntries(_, _)
ApplyEntries(view, es) ==
  IF es = <<>> THEN view
  ELSE LET e == Head(es)
           v == IF e.kind = "wh" THEN EnsureParents(view, e.path)
                ELSE IF e.kind = "opq" THEN [EnsureParents(view, e.path) EXCEPT ![e.path] = "dir"]
                ELSE AddOne(view, e)
       IN ApplyEntries(v, Tail(es))
Apply(view, layer) == ApplyEntries([p \in Paths |-> IF Hidden(layer, p) THEN None ELSE view[p]], layer)
RECURSIVE Overlay(_, _)
Overlay(im, i) == IF i = 0 THEN EmptyView ELSE Apply(Overlay(im, i - 1), im[i])

WellFormedView(v) == \A p \in Paths : (v[p] # None /\ Parent[p] # Root) => v[Parent[p]] = "dir"

-----------------------------------------------------------------------------
(* -------- operational: transcription of fillChainLayersWithFilesFromTar -------- *)
\* a path-tree value: [k: "-" (no value) | kind, wh: BOOLEAN]
TNone == [k |-> None, wh |-> FALSE, ho |-> FALSE]
EmptyTree == [p \in Paths |-> TNone]
Has(t, p) == t[p].k # None

RECURSIVE HiddenByAncestor(_, _)
HiddenByAncestor(t, p) ==
  IF Parent[p] = Root THEN FALSE
  ELSE LET d == Parent[p] IN
       IF ~Has(t, d) THEN (IF FixHidden THEN HiddenByAncestor(t, d) ELSE FALSE)
       ELSE IF t[d].wh THEN TRUE
       ELSE IF FixHidden /\ t[d].k # "dir" THEN TRUE
       ELSE IF FixResurrect /\ t[d].ho THEN TRUE
       ELSE HiddenByAncestor(t, d)
FillOne(t, p, node) == IF Has(t, p) THEN (IF node.wh \/ node.k # "dir" THEN [t EXCEPT ![p].ho = TRUE] ELSE t)
                       ELSE IF HiddenByAncestor(t, p) THEN t ELSE [t EXCEPT ![p] = node]
FillFrom(trees, i, n, p, node) == [j \in 1..n |-> IF j >= i THEN FillOne(trees[j], p, node) ELSE trees[j]]
AncSeq(p) == SortSeq(SetToSeq(Ancestors(p)), LAMBDA x, y : Depth[x] < Depth[y])
RECURSIVE PopulateDirs(_, _, _, _)
PopulateDirs(trees, i, n, ds) ==
  IF ds = <<>> THEN trees
  ELSE LET d == Head(ds) IN
       IF Has(trees[i], d) THEN PopulateDirs(trees, i, n, Tail(ds))
       ELSE PopulateDirs(FillFrom(trees, i, n, d, [k |-> "dir", wh |-> FALSE, ho |-> FALSE]), i, n, Tail(ds))
\* one tar entry of layer i (n chain layers in total)
ProcessEntry(trees, i, n, e) ==
  IF e.kind = "opq" THEN PopulateDirs(trees, i, n, AncSeq(e.path) \o <<e.path>>)   \* an inert node named ".wh..opq" in the directory
  ELSE IF Has(trees[i], e.path) THEN trees                                           \* "already exists in the current chain layer"
  ELSE LET node == IF e.kind = "wh" THEN [k |-> "f1", wh |-> TRUE, ho |-> FALSE] ELSE [k |-> IF e.kind = "hl" THEN "link" ELSE e.kind, wh |-> FALSE, ho |-> FALSE]
       IN FillFrom(PopulateDirs(trees, i, n, AncSeq(e.path)), i, n, e.path, node)
RECURSIVE ProcessLayer(_, _, _, _)
ProcessLayer(trees, i, n, es) == IF es = <<>> THEN trees ELSE ProcessLayer(ProcessEntry(trees, i, n, Head(es)), i, n, Tail(es))
RECURSIVE FillAll(_, _, _, _)
FillAll(trees, im, i, n) == IF i = 0 THEN trees ELSE FillAll(ProcessLayer(trees, i, n, im[i]), im, i - 1, n)
Trees(im) == LET n == Len(im) IN FillAll([j \in 1..n |-> EmptyTree], im, n, n)

\* the read API over one chain layer's tree
StatOK(t, p) == Has(t, p) /\ ~t[p].wh
RECURSIVE Walkable(_, _)
Walkable(t, p) == /\ StatOK(t, p)
                  /\ (IF Parent[p] = Root THEN TRUE ELSE (Walkable(t, Parent[p]) /\ t[Parent[p]].k = "dir"))
LookupView(t) == [p \in Paths |-> IF StatOK(t, p) THEN t[p].k ELSE None]
WalkView(t)   == [p \in Paths |-> IF Walkable(t, p) THEN t[p].k ELSE None]

-----------------------------------------------------------------------------
(* ---------------- scenario construction ---------------- *)
VARIABLES img, cur
vars == <<img, cur>>

\* a file entry at or above the byte limit is skipped by the loader: it is not part of the layer (C10)
Keep(e) == ~(Limit > 0 /\ ((e.kind = "f1" /\ 1 >= Limit) \/ (e.kind = "f2" /\ 2 >= Limit)))
\* a layer is a consistent snapshot diff, as every image builder produces them; under a byte limit a path may
\* additionally occur twice when exactly one of the two entries is below the limit (the oversize one does not count)
NoDupPaths(layer) == \A i, j \in DOMAIN layer : i # j =>
                        /\ ~(layer[i].path = layer[j].path /\ IsAdd(layer[i].kind) /\ IsAdd(layer[j].kind)
                             /\ ~(Limit > 0 /\ Keep(layer[i]) # Keep(layer[j])))
                        /\ layer[i] # layer[j]
NoMarkerUnderWhiteout(layer) == \A i, j \in DOMAIN layer :
     (layer[i].kind = "wh" /\ layer[j].kind \in {"wh", "opq"} /\ i # j) =>
        ~(Under(layer[j].path, layer[i].path) \/ (layer[j].kind = "opq" /\ layer[j].path = layer[i].path))
NothingUnderNonDir(layer) == \A i, j \in DOMAIN layer :
     (i # j /\ layer[i].kind \in NonDirKinds) => ~Under(layer[j].path, layer[i].path)
OpaqueOnlyOnDir(layer) == \A i, j \in DOMAIN layer :
     (layer[i].kind = "opq" /\ i # j /\ layer[j].path = layer[i].path) => layer[j].kind = "dir"
GoodLayer(l) == NoDupPaths(l) /\ NoMarkerUnderWhiteout(l) /\ NothingUnderNonDir(l) /\ OpaqueOnlyOnDir(l)

Eff(im) == [i \in 1..Len(im) |-> SelectSeq(im[i], Keep)]

Init == img = <<>> /\ cur = <<>>
\* a deletion marker sits in a directory: its ancestors are directories (or absent) in the image below
MarkerInDirs(e) == e.kind \in {"wh", "opq"} => \A q \in Ancestors(e.path) : Overlay(img, Len(img))[q] \in {"dir", None}
\* a hard link names an existing regular file (of the image below or earlier in the same tar), and nothing later in
\* the same layer touches that file
HardLinkOK(e) == /\ (e.kind = "hl" => Apply(Overlay(img, Len(img)), cur)[LinkTarget] \in {"f1", "f2"})
                 /\ ((\E i \in DOMAIN cur : cur[i].kind = "hl") => (e.path # LinkTarget /\ ~Under(LinkTarget, e.path)))
AddEntry(e) == /\ Len(img) < MaxLayers /\ Len(cur) < MaxEntries[Len(img) + 1]
               /\ GoodLayer(Append(cur, e)) /\ MarkerInDirs(e) /\ HardLinkOK(e)
               /\ cur' = Append(cur, e) /\ UNCHANGED img
\* a diff that puts something below a path which is a non-directory in the image below carries the directory entry for it
ParentsAnnounced == \A i \in DOMAIN cur : \A q \in Ancestors(cur[i].path) :
                       \/ Overlay(img, Len(img))[q] \in {"dir", None}
                       \/ \E j \in DOMAIN cur : cur[j].path = q /\ cur[j].kind = "dir"
CloseLayer == /\ cur # <<>> /\ ParentsAnnounced /\ img' = Append(img, cur) /\ cur' = <<>>
Next == (\E e \in Entries : AddEntry(e)) \/ CloseLayer
Spec == Init /\ [][Next]_vars
Complete == cur = <<>> /\ img # <<>>

(* ---- open finding classes: scenario predicates ---- *)
HasOpaque(im) == \E i \in DOMAIN im : Opaques(im[i]) # {}
HasSameLayerWhRecreate(im) == \E i \in DOMAIN im : \E w \in Whiteouts(im[i]) :
                                 \E k \in DOMAIN im[i] : IsAdd(im[i][k].kind) /\ (im[i][k].path = w \/ Under(im[i][k].path, w))
\* classes of the original (unrepaired) code, FixHidden = FALSE
HasDeepWhiteout(im) == \E i \in DOMAIN im : i > 1 /\ \E w \in Whiteouts(im[i]) : \E p \in Paths :
                          p # w /\ Under(p, w) /\ Parent[p] # w /\ Overlay(im, i - 1)[p] # None
HasNonDirOverDir(im) == \E i \in DOMAIN im : i > 1 /\ \E k \in DOMAIN im[i] : im[i][k].kind \in NonDirKinds
                          /\ Overlay(im, i - 1)[im[i][k].path] = "dir"
\* hard links are stored as symlink nodes naming the target path: listings show a symlink, and the name follows
\* whatever later layers do to the target
HasHardLink(im) == \E i \in DOMAIN im : \E k \in DOMAIN im[i] : im[i][k].kind = "hl"
Devs(im) == (IF HasOpaque(im) THEN {"C04-opaque-ignored"} ELSE {})
       \cup (IF HasHardLink(im) THEN {"C04-hardlink-as-symlink"} ELSE {})
       \cup (IF HasSameLayerWhRecreate(im) THEN {"C04-same-layer-whiteout-recreate"} ELSE {})
       \cup (IF ~FixHidden /\ HasDeepWhiteout(im) THEN {"C04-deep-whiteout-lookup"} ELSE {})
       \cup (IF ~FixHidden /\ HasNonDirOverDir(im) THEN {"C04-nondir-over-dir-lookup"} ELSE {})

\* finding classes of the squashed unpacker (it flattens with go-containerregistry's mutate.Extract)
\* a path deleted / made a non-directory by layer i, made a directory again by a later layer j, with older contents below it
HasRecreatedDirOverDeletion(im) ==
  \E i, j \in DOMAIN im : i > 1 /\ i < j /\ \E a \in DOMAIN im[i] :
     /\ im[i][a].kind \in ({"wh"} \cup NonDirKinds)
     /\ \E p \in Paths : Under(p, im[i][a].path) /\ Overlay(im, i - 1)[p] # None
     /\ \E b \in DOMAIN im[j] : im[j][b].path = im[i][a].path \/ Under(im[j][b].path, im[i][a].path)
\* a hard link made by layer i whose target a later layer replaces or deletes
HlTargetTouchedLater(im) == \E i, j \in DOMAIN im : i < j /\ (\E a \in DOMAIN im[i] : im[i][a].kind = "hl")
                               /\ \E b \in DOMAIN im[j] : im[j][b].path = LinkTarget \/ Under(LinkTarget, im[j][b].path)
SqDevs(im) == (IF HasOpaque(im) THEN {"C04-unpack-opaque-ignored"} ELSE {})
         \cup (IF HlTargetTouchedLater(im) THEN {"C04-unpack-hardlink-follows-target"} ELSE {})
         \cup (IF HasSameLayerWhRecreate(im) THEN {"C04-unpack-same-layer-whiteout-recreate"} ELSE {})
         \cup (IF HasRecreatedDirOverDeletion(im) THEN {"C04-unpack-resurrected-under-recreated-dir"} ELSE {})

(* ---- properties ---- *)
AllViewsWellFormed == Complete => \A i \in 1..Len(img) : WellFormedView(Overlay(Eff(img), i))
\* completeness of the finding classes: wherever the transcription of the code disagrees with the OCI overlay,
\* one of the listed classes holds
LookupAgreesOrKnown == Complete => (\A i \in 1..Len(img) : LookupView(Trees(Eff(img))[i]) = Overlay(Eff(img), i)) \/ Devs(Eff(img)) # {}
WalkAgreesOrKnown   == Complete => (\A i \in 1..Len(img) : WalkView(Trees(Eff(img))[i]) = Overlay(Eff(img), i)) \/ Devs(Eff(img)) # {}
\* sanity (must be violated): the transcription and the overlay do disagree somewhere, and agree somewhere non-trivial
SanityDisagree == ~(Complete /\ \E i \in 1..Len(img) : LookupView(Trees(Eff(img))[i]) # Overlay(Eff(img), i))
SanityWhiteout == ~(Complete /\ Len(img) = 2 /\ Devs(Eff(img)) = {} /\ Overlay(Eff(img), 2) # Overlay(Eff(img), 1) /\ \E p \in Paths : Overlay(Eff(img), 1)[p] # None /\ Overlay(Eff(img), 2)[p] = None)

ViewSeq(v) == [k \in 1..Len(POrder) |-> IF POrder[k] \in Paths THEN v[POrder[k]] ELSE None]
NoOversizeVisible == Complete => \A i \in 1..Len(img), p \in Paths :
                        LET k == LookupView(Trees(Eff(img))[i])[p] IN ~(Limit > 0 /\ ((k = "f1" /\ 1 >= Limit) \/ (k = "f2" /\ 2 >= Limit)))
Case == [layers |-> img, limit |-> Limit,
         expect |-> [i \in 1..Len(img) |-> ViewSeq(Overlay(Eff(img), i))],
         asbuilt_lookup |-> [i \in 1..Len(img) |-> ViewSeq(LookupView(Trees(Eff(img))[i]))],
         asbuilt_walk |-> [i \in 1..Len(img) |-> ViewSeq(WalkView(Trees(Eff(img))[i]))],
         devs |-> Devs(Eff(img)), sqdevs |-> SqDevs(Eff(img))]
Emit == Complete => PrintT(ToJson(Case))
=============================================================================
