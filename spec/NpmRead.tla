------------------------------ MODULE NpmRead ------------------------------
(***************************************************************************)
(* guidedremediation/internal/manifest/npm: which direct requirements the  *)
(* package.json reader hands to resolution (first step of every relax      *)
(* remediation, C11/C12/C16: what is analysed, patched and re-analysed).   *)
(*                                                                         *)
(* A scenario says which dependency keys are declared in which of the      *)
(* sections dependencies / optionalDependencies / devDependencies.  A key  *)
(* is a package name or an alias ("b-legacy": "npm:b@...").  The version   *)
(* requirement a declaration carries is a function of its section, so the  *)
(* section that won is visible in the result.                              *)
(*                                                                         *)
(* Operational part (Visit): the three loops of readWriter.Read - the      *)
(* sections in the order dep, opt, dev; inside a section the keys in ANY   *)
(* order (Go map iteration); a requirement of the same requirement key     *)
(* (package, alias) that is already there is replaced, else appended;      *)
(* groups[key] is overwritten by opt and dev.  Declarative part (Want):    *)
(* one requirement per declared (package, alias); its version and group    *)
(* come from the strongest section that declares it (dev > opt > dep).     *)
(* TLC checks that the transcription ends in Want under every iteration    *)
(* order, and - sanity - that the deviation MatchByPackage (an earlier     *)
(* requirement is looked up by package alone: the code before c419abf5)    *)
(* does not.  Every terminal scenario is emitted and replayed into the     *)
(* real reader, several times because of the map order.                    *)
(***************************************************************************)
EXTENDS Integers, Sequences, FiniteSets, TLC, Json

CONSTANTS Keys,            \* declared dependency keys
          MatchByPackage   \* deviation: IndexFunc compares PackageKey only

Sections == <<"dep", "opt", "dev">>
AliasOf == [k \in {"b-legacy", "b-old", "c-legacy"} |-> CASE k = "b-legacy" -> "b" [] k = "b-old" -> "b" [] k = "c-legacy" -> "c"]
IsAlias(k) == k \in DOMAIN AliasOf
Pkg(k) == IF IsAlias(k) THEN AliasOf[k] ELSE k
KnownAs(k) == IF IsAlias(k) THEN k ELSE ""
VerOf == [s \in {"dep", "opt", "dev"} |-> CASE s = "dep" -> "^1.0.0" [] s = "opt" -> "^2.0.0" [] s = "dev" -> "^3.0.0"]
GroupOf == [s \in {"dep", "opt", "dev"} |-> CASE s = "dep" -> "" [] s = "opt" -> "optional" [] s = "dev" -> "dev"]

VARIABLES decl,    \* [Keys -> SUBSET {"dep","opt","dev"}]: the sections that declare the key
          sect,    \* 1..4: the loop that is running (4 = after SortDependencies)
          todo,    \* keys of the running loop not visited yet
          reqs,    \* the requirement list built so far
          groups   \* requirement key -> group
vars == <<decl, sect, todo, reqs, groups>>

Req(k, s) == [pkg |-> Pkg(k), as |-> KnownAs(k), ver |-> VerOf[s], opt |-> s = "opt"]
RKey(r) == <<r.pkg, r.as>>
KeysIn(d, s) == {k \in Keys : s \in d[k]}

Init == /\ decl \in [Keys -> SUBSET {"dep", "opt", "dev"}]
        /\ sect = 1 /\ todo = KeysIn(decl, "dep") /\ reqs = <<>> /\ groups = <<>>

SetToSeq(S) == CHOOSE q \in [1..Cardinality(S) -> S] : \A i, j \in 1..Cardinality(S) : i # j => q[i] # q[j]
Same(a, r) == IF MatchByPackage THEN a.pkg = r.pkg ELSE RKey(a) = RKey(r)
FirstIdx(rs, r) == LET I == {i \in 1..Len(rs) : Same(rs[i], r)} IN IF I = {} THEN 0 ELSE CHOOSE i \in I : \A j \in I : i <= j
SetGroup(g, key, v) == [x \in DOMAIN g \cup {key} |-> IF x = key THEN v ELSE g[x]]

Visit(k) ==
  /\ sect <= 3 /\ k \in todo
  /\ LET s == Sections[sect]
         r == Req(k, s)
         i == IF s = "dep" THEN 0 ELSE FirstIdx(reqs, r)     \* the first loop appends without looking
     IN /\ reqs' = IF i = 0 THEN Append(reqs, r) ELSE [reqs EXCEPT ![i] = r]
        /\ groups' = IF s = "dep" THEN groups ELSE SetGroup(groups, RKey(r), GroupOf[s])
  /\ todo' = todo \ {k}
  /\ UNCHANGED <<decl, sect>>
NextLoop ==
  /\ sect <= 3 /\ todo = {}
  /\ sect' = sect + 1
  /\ todo' = IF sect < 3 THEN KeysIn(decl, Sections[sect + 1]) ELSE {}
  \* resolve.SortDependencies: from here on the order of visits is forgotten
  /\ reqs' = IF sect < 3 THEN reqs ELSE SetToSeq({reqs[i] : i \in 1..Len(reqs)})
  /\ UNCHANGED <<decl, groups>>
Next == (\E k \in Keys : Visit(k)) \/ NextLoop
Spec == Init /\ [][Next]_vars

Terminal == sect = 4

(* ---- declarative ---- *)
Strongest(S) == IF "dev" \in S THEN "dev" ELSE IF "opt" \in S THEN "opt" ELSE "dep"
Want(d) == {[pkg |-> Pkg(k), as |-> KnownAs(k), ver |-> VerOf[Strongest(d[k])], opt |-> Strongest(d[k]) = "opt",
             group |-> GroupOf[Strongest(d[k])]] : k \in {x \in Keys : d[x] # {}}}
Got == {[pkg |-> reqs[i].pkg, as |-> reqs[i].as, ver |-> reqs[i].ver, opt |-> reqs[i].opt,
         group |-> IF RKey(reqs[i]) \in DOMAIN groups THEN groups[RKey(reqs[i])] ELSE ""] : i \in 1..Len(reqs)}

ReadIsWant == Terminal => Got = Want(decl)
NoDuplicateKeys == \A i, j \in 1..Len(reqs) : i # j => RKey(reqs[i]) # RKey(reqs[j])
\* at most one requirement per key and never more requirements than declared keys
Bounded == Len(reqs) <= Cardinality({k \in Keys : decl[k] # {}})
TypeOK == sect \in 1..4 /\ todo \subseteq Keys

\* sanity (must be violated): some scenario declares a package plainly and through an alias in a later section
Sanity == ~(Terminal /\ \E k1, k2 \in Keys : k1 # k2 /\ Pkg(k1) = Pkg(k2) /\ "dev" \in decl[k1] /\ "dev" \in decl[k2])

Emit == Terminal => PrintT(ToJson([decl |-> [k \in Keys |-> SetToSeq(decl[k])],
                                   keys |-> SetToSeq(Keys),
                                   want |-> SetToSeq(Want(decl))]))
=============================================================================
