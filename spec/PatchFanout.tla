----------------------------- MODULE PatchFanout -----------------------------
(***************************************************************************)
(* C16(a) - common.ComputePatches: one goroutine per patch attempt sends   *)
(* its result over an unbuffered channel; the main loop receives, appends  *)
(* the patch, spawns further attempts for newly introduced vulnerabilities,*)
(* and finally sorts and compacts.                                         *)
(*                                                                         *)
(* The patch function F is environment: for every attempted set of         *)
(* vulnerability ids it either fails or yields a patch [key, intro] where  *)
(* key is what Patch.Compare orders by and intro the vulnerabilities the   *)
(* patch introduces.  F is chosen in the initial state.                    *)
(* Property: for every interleaving (every arrival order at the channel)   *)
(* the returned list is the same sorted, de-duplicated list, and the loop  *)
(* terminates.                                                             *)
(***************************************************************************)
EXTENDS Integers, FiniteSets, Sequences, TLC, SequencesExt

CONSTANTS V0,        \* initial vulnerability ids (small integers)
          VNew,      \* ids that patches may introduce
          Keys,      \* patch comparison keys (integers); two different attempts may yield the same key
          GroupIntroduced

Vuln == V0 \cup VNew
Attempts == (SUBSET Vuln) \ {{}}
NoPatch == [ok |-> FALSE, key |-> 0, intro |-> {}]

VARIABLES F,        \* Attempts -> result
          running,  \* attempts whose goroutine has been started and has not yet delivered
          toProcess,
          results,  \* sequence of patches in arrival order
          done, out,
          arrivals  \* history: order of arrival
vars == <<F, running, toProcess, results, done, out, arrivals>>

\* only attempts reachable from V0 matter; keep F small: results depend on the attempted set only
Init == /\ F \in [Attempts -> {NoPatch} \cup [ok : {TRUE}, key : Keys, intro : SUBSET VNew]]
        /\ running = {{v} : v \in V0}
        /\ toProcess = Cardinality(V0)
        /\ results = <<>> /\ done = FALSE /\ out = <<>> /\ arrivals = <<>>

\* the main loop receives the result of attempt a (any running attempt may arrive next)
Recv(a) ==
  /\ ~done /\ a \in running
  /\ arrivals' = Append(arrivals, a)
  /\ LET r == F[a] IN
     IF ~r.ok
     THEN /\ running' = running \ {a} /\ toProcess' = toProcess - 1 /\ UNCHANGED results
     ELSE LET newly == r.intro \ a
              spawned == IF newly = {} THEN {}
                         ELSE IF GroupIntroduced THEN {a \cup newly}
                         ELSE {a \cup {v} : v \in newly}
          IN /\ results' = Append(results, [key |-> r.key, intro |-> r.intro])
             /\ running' = (running \ {a}) \cup spawned
             /\ toProcess' = toProcess - 1 + Cardinality(spawned)
  /\ UNCHANGED <<F, done, out>>

\* sort by key and compact equal keys (slices.SortFunc + slices.CompactFunc with the same comparison)
SortedKeys(rs) == SortSeq(SetToSeq({rs[i].key : i \in DOMAIN rs}), LAMBDA x, y : x < y)
Finish == /\ ~done /\ toProcess = 0
          /\ done' = TRUE
          /\ out' = SortedKeys(results)
          /\ UNCHANGED <<F, running, toProcess, results, arrivals>>
Next == (\E a \in Attempts : Recv(a)) \/ Finish
Spec == Init /\ [][Next]_vars /\ WF_vars(Next)

\* a spawned attempt set equal to one already running would merge in the set `running`: the code starts a goroutine
\* per spawn, so the model forbids F from creating such collisions (checked, not assumed)
Counter == toProcess = Cardinality(running)

\* ---- declarative: the set of attempts ever made is the least fixed point, independent of order ----
RECURSIVE Closure(_, _)
Closure(f, S) ==
  LET nxt == S \cup UNION {IF ~f[a].ok \/ (f[a].intro \ a) = {} THEN {}
                          ELSE IF GroupIntroduced THEN {a \cup (f[a].intro \ a)}
                          ELSE {a \cup {v} : v \in (f[a].intro \ a)} : a \in S}
  IN IF nxt = S THEN S ELSE Closure(f, nxt)
Canonical == LET A == Closure(F, {{v} : v \in V0}) IN
             SortSeq(SetToSeq({F[a].key : a \in {x \in A : F[x].ok}}), LAMBDA x, y : x < y)

ScheduleIndependent == done => out = Canonical
Terminates == <>done
\* sanity (must be violated): two different arrival orders exist for one F
SanityOrders == ~(done /\ Len(arrivals) >= 2 /\ arrivals[1] # {CHOOSE v \in V0 : \A w \in V0 : v <= w})
=============================================================================
