---------------------------- MODULE ScanPipeline ----------------------------
(***************************************************************************)
(* C20 - detectors see all extracted packages and their findings are       *)
(* reported intact.                                                        *)
(*                                                                         *)
(* State: a scenario (an inventory of packages, each produced by one of    *)
(* the enabled extractors, with or without a package URL; a list of        *)
(* detectors, each returning an error flag and a list of findings) and the *)
(* second half of scalibr.Scan() running on it, in the shape of the code:  *)
(*   ExtractFS          filesystem.Run           -> sro.Inventory          *)
(*   ExtractStandalone  standalone.Run + Append  -> sro.Inventory          *)
(*   BuildIndex         packageindex.New(sro.Inventory.Packages)           *)
(*   RunDetector        one iteration of the loop of detector.Run          *)
(*                      (Scan call, tagging, append, StatusFromErr)        *)
(*   ValidateAdvisories detector.validateAdvisories (ids map, first error) *)
(*   Assemble           findings / status / newScanResult                  *)
(*                                                                         *)
(* Declarative part: what the index must answer (Specific, OfType, AllPk), *)
(* which findings the result must carry (Returned / ExpectFindings), when  *)
(* the scan must fail (Inconsistent).  The property is the conjunction of  *)
(* the invariants below, relating the operational result to these.         *)
(*                                                                         *)
(* Packages are identified by their position in the scenario (1..Len).     *)
(* A finding kind is one of "Ax" "Ay" "Bx" "By" (advisory id A/B with      *)
(* advisory content x/y), "noadv" (Finding.Adv = nil), "noid" (Adv.ID=nil).*)
(***************************************************************************)
EXTENDS Integers, Sequences, FiniteSets, TLC, Json

CONSTANTS MaxPkgs,   \* packages in the inventory (at most)
          MinPkgs,   \* packages in the inventory (at least)
          PurlLess,  \* BOOLEAN: may packages lack a purl (extractor's ToPURL returns nil)
          Srcs,      \* extractors that may produce a package: subset of {"fs1","fs2","sa"}
          Types,     \* purl types used by packages: subset of {"t1","t2"}
          Names,     \* purl names used by packages: subset of {"n1","n2"}
          MaxDet,    \* detectors d1..dMaxDet
          MaxPerDet, \* findings per detector
          MaxTotal,  \* findings over all detectors
          Kinds,     \* finding kinds explored
          Errs       \* subset of BOOLEAN: may a detector return an error

NoPurl == "-"
DName  == <<"d1", "d2", "d3", "d4">>
\* the index is queried for every type/name packages may have plus one that no package has
QTypes == {"t1", "t2", "t0"}
QNames == {"n1", "n2", "n0"}
ASSUME Types \subseteq {"t1", "t2"} /\ Names \subseteq {"n1", "n2"} /\ Srcs \subseteq {"fs1", "fs2", "sa"}

VARIABLES pkgs,     \* scenario: seq of [src, type, name]; type = name = "-" when ToPURL gives nil
          dets,     \* scenario: seq of [err : BOOLEAN, out : Seq(Kinds)]
          phase,    \* "setup" "fs" "standalone" "index" "detect" "validate" "assemble" "done"
          inv,      \* sro.Inventory.Packages: seq of package ids
          index,    \* PackageIndex.pkgMap: type -> (name -> seq of package ids); <<>> before BuildIndex
          next,     \* loop variable of detector.Run (1-based)
          calls,    \* calls[i] = number of times detector i's Scan was invoked
          seen,     \* seen[i] = the index detector i was handed
          findings, \* detector.Run's findings slice: seq of [k, det, pos, tag]
          status,   \* detector.Run's status slice: seq of [name, failed]
          verr,     \* did validateAdvisories return an error
          result    \* the ScanResult projection: [scan, findings, status]
vars == <<pkgs, dets, phase, inv, index, next, calls, seen, findings, status, verr, result>>

-----------------------------------------------------------------------------
(* ---- helpers ---- *)
Range(s) == {s[i] : i \in DOMAIN s}
Order == <<"-", "fs1", "fs2", "sa", "t1", "t2", "n1", "n2">>
Pos(x) == CHOOSE i \in 1..Len(Order) : Order[i] = x
KRank(k) == Pos(k.src) * 100 + Pos(k.type) * 10 + Pos(k.name)

RECURSIVE SortedSeq(_)
SortedSeq(S) == IF S = {} THEN <<>>
                ELSE LET m == CHOOSE x \in S : \A y \in S : x <= y IN <<m>> \o SortedSeq(S \ {m})
RECURSIVE ConcatOver(_, _)      \* f[x] for all x in S, concatenated in some order
ConcatOver(S, f) == IF S = {} THEN <<>>
                    ELSE LET x == CHOOSE y \in S : TRUE IN f[x] \o ConcatOver(S \ {x}, f)
RECURSIVE TotalOut(_)
TotalOut(ds) == IF ds = <<>> THEN 0 ELSE Len(Head(ds).out) + TotalOut(Tail(ds))
\* a sequence lists exactly the elements of S, each once
ListsExactly(s, S) == Len(s) = Cardinality(S) /\ Range(s) = S

IdOf(k)   == IF k \in {"Ax", "Ay"} THEN "A" ELSE IF k \in {"Bx", "By"} THEN "B" ELSE "-"
BodyOf(k) == IF k \in {"Ax", "Bx"} THEN "x" ELSE IF k \in {"Ay", "By"} THEN "y" ELSE "-"

PkgKinds == {[src |-> s, type |-> NoPurl, name |-> NoPurl] : s \in (IF PurlLess THEN Srcs ELSE {})}
            \cup {[src |-> s, type |-> t, name |-> n] : s \in Srcs, t \in Types, n \in Names}

-----------------------------------------------------------------------------
(* ---- declarative: what the property demands ---- *)
Extracted    == 1..Len(pkgs)                 \* every package some enabled extractor emitted in this scan
WithPurl     == {p \in Extracted : pkgs[p].type # NoPurl}
Specific(n, t) == {p \in WithPurl : pkgs[p].type = t /\ pkgs[p].name = n}
OfType(t)    == {p \in WithPurl : pkgs[p].type = t}
AllPk        == WithPurl

\* everything the detectors return, in detector order
RECURSIVE ReturnedFrom(_)
ReturnedFrom(i) == IF i > Len(dets) THEN <<>>
                   ELSE [j \in 1..Len(dets[i].out) |-> [k |-> dets[i].out[j], det |-> DName[i], pos |-> j, tag |-> <<DName[i]>>]]
                        \o ReturnedFrom(i + 1)
Returned == ReturnedFrom(1)
Inconsistent == \/ \E i \in 1..Len(Returned) : Returned[i].k \in {"noadv", "noid"}
                \/ \E i, j \in 1..Len(Returned) : /\ IdOf(Returned[i].k) = IdOf(Returned[j].k)
                                                  /\ BodyOf(Returned[i].k) # BodyOf(Returned[j].k)
ExpectScan     == IF Inconsistent THEN "failed" ELSE "succeeded"
ExpectFindings == IF Inconsistent THEN <<>> ELSE Returned
ExpectStatus   == [i \in 1..Len(dets) |-> [name |-> DName[i], st |-> IF dets[i].err THEN "failed" ELSE "succeeded"]]

-----------------------------------------------------------------------------
(* ---- operational: transcription of the code ---- *)
\* packageindex.New: the loop over pkgs; toPURL(pkg) = nil => continue
RECURSIVE IndexLoop(_, _)
IndexLoop(ps, m) ==
  IF ps = <<>> THEN m
  ELSE LET p == Head(ps)
           k == pkgs[p]
       IN IF k.type = NoPurl THEN IndexLoop(Tail(ps), m)
          ELSE LET inner  == IF k.type \in DOMAIN m THEN m[k.type] ELSE <<>>
                   cur    == IF k.name \in DOMAIN inner THEN inner[k.name] ELSE <<>>
                   inner2 == [n \in DOMAIN inner \cup {k.name} |-> IF n = k.name THEN Append(cur, p) ELSE inner[n]]
               IN IndexLoop(Tail(ps), [t \in DOMAIN m \cup {k.type} |-> IF t = k.type THEN inner2 ELSE m[t]])
OpGetSpecific(m, n, t) == IF t \notin DOMAIN m THEN <<>> ELSE IF n \notin DOMAIN m[t] THEN <<>> ELSE m[t][n]
OpGetAllOfType(m, t)   == IF t \notin DOMAIN m THEN <<>> ELSE ConcatOver(DOMAIN m[t], m[t])
OpGetAll(m)            == ConcatOver(DOMAIN m, [t \in DOMAIN m |-> ConcatOver(DOMAIN m[t], m[t])])

\* detector.validateAdvisories: ids map, first offending finding ends the loop
RECURSIVE VLoop(_, _)
VLoop(fs, ids) ==
  IF fs = <<>> THEN FALSE
  ELSE LET f == Head(fs) IN
       IF f.k = "noadv" THEN TRUE
       ELSE IF f.k = "noid" THEN TRUE
       ELSE IF IdOf(f.k) \in DOMAIN ids /\ ids[IdOf(f.k)] # BodyOf(f.k) THEN TRUE
       ELSE VLoop(Tail(fs), [a \in DOMAIN ids \cup {IdOf(f.k)} |-> IF a = IdOf(f.k) THEN BodyOf(f.k) ELSE ids[a]])

Init == /\ pkgs = <<>> /\ dets = <<>> /\ phase = "setup" /\ inv = <<>> /\ index = <<>> /\ next = 1
        /\ calls = <<>> /\ seen = <<>> /\ findings = <<>> /\ status = <<>> /\ verr = FALSE
        /\ result = [scan |-> "none", findings |-> <<>>, status |-> <<>>]

(* scenario construction (packages in canonical order: the inventory is a multiset) *)
AddPkg(k) == /\ phase = "setup" /\ dets = <<>> /\ Len(pkgs) < MaxPkgs
             /\ IF pkgs = <<>> THEN TRUE ELSE KRank(pkgs[Len(pkgs)]) <= KRank(k)
             /\ pkgs' = Append(pkgs, k)
             /\ UNCHANGED <<dets, phase, inv, index, next, calls, seen, findings, status, verr, result>>
AddDet(e) == /\ phase = "setup" /\ Len(dets) < MaxDet
             /\ dets' = Append(dets, [err |-> e, out |-> <<>>])
             /\ UNCHANGED <<pkgs, phase, inv, index, next, calls, seen, findings, status, verr, result>>
AddFinding(f) == /\ phase = "setup" /\ dets # <<>>
                 /\ Len(dets[Len(dets)].out) < MaxPerDet /\ TotalOut(dets) < MaxTotal
                 /\ dets' = [dets EXCEPT ![Len(dets)].out = Append(@, f)]
                 /\ UNCHANGED <<pkgs, phase, inv, index, next, calls, seen, findings, status, verr, result>>
Start == /\ phase = "setup" /\ phase' = "fs" /\ Len(pkgs) >= MinPkgs
         /\ calls' = [i \in 1..Len(dets) |-> 0] /\ seen' = [i \in 1..Len(dets) |-> <<>>]
         /\ UNCHANGED <<pkgs, dets, inv, index, next, findings, status, verr, result>>

(* Scan() *)
ExtractFS == /\ phase = "fs" /\ phase' = "standalone"
             /\ inv' = SelectSeq([i \in 1..Len(pkgs) |-> i], LAMBDA p : pkgs[p].src \in {"fs1", "fs2"})
             /\ UNCHANGED <<pkgs, dets, index, next, calls, seen, findings, status, verr, result>>
ExtractStandalone == /\ phase = "standalone" /\ phase' = "index"
                     /\ inv' = inv \o SelectSeq([i \in 1..Len(pkgs) |-> i], LAMBDA p : pkgs[p].src = "sa")
                     /\ UNCHANGED <<pkgs, dets, index, next, calls, seen, findings, status, verr, result>>
BuildIndex == /\ phase = "index" /\ phase' = "detect"
              /\ index' = IndexLoop(inv, <<>>)
              /\ UNCHANGED <<pkgs, dets, inv, next, calls, seen, findings, status, verr, result>>
RunDetector == /\ phase = "detect" /\ next <= Len(dets)
               /\ LET d == dets[next]
                      results == [j \in 1..Len(d.out) |-> [k |-> d.out[j], det |-> DName[next], pos |-> j, tag |-> <<DName[next]>>]]
                  IN /\ calls' = [calls EXCEPT ![next] = @ + 1]
                     /\ seen' = [seen EXCEPT ![next] = index]
                     /\ findings' = findings \o results
                     /\ status' = Append(status, [name |-> DName[next], st |-> IF d.err THEN "failed" ELSE "succeeded"])
               /\ next' = next + 1
               /\ UNCHANGED <<pkgs, dets, phase, inv, index, verr, result>>
DetectorsDone == /\ phase = "detect" /\ next > Len(dets) /\ phase' = "validate"
                 /\ UNCHANGED <<pkgs, dets, inv, index, next, calls, seen, findings, status, verr, result>>
ValidateAdvisories == /\ phase = "validate" /\ phase' = "assemble"
                      /\ verr' = VLoop(findings, <<>>)
                      /\ UNCHANGED <<pkgs, dets, inv, index, next, calls, seen, findings, status, result>>
Assemble == /\ phase = "assemble" /\ phase' = "done"
            /\ result' = [scan |-> IF verr THEN "failed" ELSE "succeeded",
                          findings |-> IF verr THEN <<>> ELSE findings,
                          status |-> status]
            /\ UNCHANGED <<pkgs, dets, inv, index, next, calls, seen, findings, status, verr>>

Next == \/ \E k \in PkgKinds : AddPkg(k)
        \/ \E e \in Errs : AddDet(e)
        \/ \E f \in Kinds : AddFinding(f)
        \/ Start \/ ExtractFS \/ ExtractStandalone \/ BuildIndex \/ RunDetector \/ DetectorsDone
        \/ ValidateAdvisories \/ Assemble
Spec == Init /\ [][Next]_vars

Done == phase = "done"

-----------------------------------------------------------------------------
(* ---- the property, as invariants ---- *)
\* the index answers exactly the extracted packages that have a purl, by that purl's type and name
IndexAnswers(m) ==
  /\ ListsExactly(OpGetAll(m), AllPk)
  /\ \A t \in QTypes : ListsExactly(OpGetAllOfType(m, t), OfType(t))
  /\ \A t \in QTypes, n \in QNames : ListsExactly(OpGetSpecific(m, n, t), Specific(n, t))
IndexCorrect == (phase = "detect" /\ next = 1) => IndexAnswers(index)   \* right after BuildIndex; nothing writes index later
\* every detector runs exactly once, against that index
RunOnce == /\ phase = "detect" => \A i \in 1..Len(dets) : calls[i] = (IF i < next THEN 1 ELSE 0)
           /\ phase \in {"validate", "assemble", "done"} => \A i \in 1..Len(dets) : calls[i] = 1
SeenCorrect == Done => \A i \in 1..Len(dets) : IndexAnswers(seen[i])
\* findings intact and tagged; failure iff inconsistent; nothing emitted on failure
FindingsIntact == Done => /\ Len(result.findings) = Len(ExpectFindings)
                          /\ Range(result.findings) = Range(ExpectFindings)
FailureIffInconsistent == Done => /\ (result.scan = "failed") = Inconsistent
                                  /\ result.scan = ExpectScan
                                  /\ (result.scan = "failed" => result.findings = <<>>)
\* one status per detector reflecting its error
StatusPerDetector == Done => /\ Len(result.status) = Len(dets)
                             /\ \A i \in 1..Len(dets) :
                                  Cardinality({j \in 1..Len(result.status) : result.status[j] = ExpectStatus[i]}) = 1

-----------------------------------------------------------------------------
(* ---- case emission for replay (binding A): one case per terminal scenario ---- *)
Case == [pkgs |-> pkgs,
         dets |-> [i \in 1..Len(dets) |-> [name |-> DName[i], err |-> dets[i].err, out |-> dets[i].out]],
         expect |-> [calls |-> [i \in 1..Len(dets) |-> 1],
                     all |-> SortedSeq(AllPk),
                     oftype |-> [t \in QTypes |-> SortedSeq(OfType(t))],
                     specific |-> [t \in QTypes |-> [n \in QNames |-> SortedSeq(Specific(n, t))]],
                     findings |-> ExpectFindings,
                     status |-> ExpectStatus,
                     scan |-> ExpectScan]]
Emit == Done => PrintT(ToJson(Case))

(* ---- sanity (each must be violated): the antecedents are reachable ---- *)
\* a scan that must fail although no finding lacks an advisory: two detectors disagree on one id
SanityFail == ~(Done /\ Inconsistent /\ (\A i \in 1..Len(Returned) : Returned[i].k \notin {"noadv", "noid"})
                /\ Len(dets) >= 2 /\ WithPurl # {} /\ WithPurl # Extracted)
\* a scan that must succeed with two detectors sharing an advisory id, one of them failing
SanityShare == ~(Done /\ ~Inconsistent /\ Len(dets) >= 2
                 /\ (\E i, j \in 1..Len(Returned) : Returned[i].det # Returned[j].det /\ Returned[i].k = Returned[j].k)
                 /\ (\E i \in 1..Len(dets) : dets[i].err))
=============================================================================
