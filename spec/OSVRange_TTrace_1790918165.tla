---- MODULE OSVRange_TTrace_1790918165 ----
EXTENDS Sequences, TLCExt, Toolbox, Naturals, TLC, OSVRange

_expression ==
    LET OSVRange_TEExpression == INSTANCE OSVRange_TEExpression
    IN OSVRange_TEExpression!expression
----

_trace ==
    LET OSVRange_TETrace == INSTANCE OSVRange_TETrace
    IN OSVRange_TETrace!trace
----

_inv ==
    ~(
        TLCGet("level") = Len(_TETrace)
        /\
        eco = ("npm")
        /\
        cur = (<<>>)
        /\
        ranges = (<<>>)
        /\
        affected = (<<[ranges |-> <<[events |-> <<[k |-> "introduced", v |-> 4]>>, type |-> "ECOSYSTEM"]>>, pkg |-> "same", versions |-> {}]>>)
    )
----

_init ==
    /\ ranges = _TETrace[1].ranges
    /\ cur = _TETrace[1].cur
    /\ affected = _TETrace[1].affected
    /\ eco = _TETrace[1].eco
----

_next ==
    /\ \E i,j \in DOMAIN _TETrace:
        /\ \/ /\ j = i + 1
              /\ i = TLCGet("level")
        /\ ranges  = _TETrace[i].ranges
        /\ ranges' = _TETrace[j].ranges
        /\ cur  = _TETrace[i].cur
        /\ cur' = _TETrace[j].cur
        /\ affected  = _TETrace[i].affected
        /\ affected' = _TETrace[j].affected
        /\ eco  = _TETrace[i].eco
        /\ eco' = _TETrace[j].eco

\* Uncomment the ASSUME below to write the states of the error trace
\* to the given file in Json format. Note that you can pass any tuple
\* to `JsonSerialize`. For example, a sub-sequence of _TETrace.
    \* ASSUME
    \*     LET J == INSTANCE Json
    \*         IN J!JsonSerialize("OSVRange_TTrace_1790918165.json", _TETrace)

=============================================================================

 Note that you can extract this module `OSVRange_TEExpression`
  to a dedicated file to reuse `expression` (the module in the 
  dedicated `OSVRange_TEExpression.tla` file takes precedence 
  over the module `OSVRange_TEExpression` below).

---- MODULE OSVRange_TEExpression ----
EXTENDS Sequences, TLCExt, Toolbox, Naturals, TLC, OSVRange

expression == 
    [
        \* To hide variables of the `OSVRange` spec from the error trace,
        \* remove the variables below.  The trace will be written in the order
        \* of the fields of this record.
        ranges |-> ranges
        ,cur |-> cur
        ,affected |-> affected
        ,eco |-> eco
        
        \* Put additional constant-, state-, and action-level expressions here:
        \* ,_stateNumber |-> _TEPosition
        \* ,_rangesUnchanged |-> ranges = ranges'
        
        \* Format the `ranges` variable as Json value.
        \* ,_rangesJson |->
        \*     LET J == INSTANCE Json
        \*     IN J!ToJson(ranges)
        
        \* Lastly, you may build expressions over arbitrary sets of states by
        \* leveraging the _TETrace operator.  For example, this is how to
        \* count the number of times a spec variable changed up to the current
        \* state in the trace.
        \* ,_rangesModCount |->
        \*     LET F[s \in DOMAIN _TETrace] ==
        \*         IF s = 1 THEN 0
        \*         ELSE IF _TETrace[s].ranges # _TETrace[s-1].ranges
        \*             THEN 1 + F[s-1] ELSE F[s-1]
        \*     IN F[_TEPosition - 1]
    ]

=============================================================================



Parsing and semantic processing can take forever if the trace below is long.
 In this case, it is advised to uncomment the module below to deserialize the
 trace from a generated binary file.

\*
\*---- MODULE OSVRange_TETrace ----
\*EXTENDS IOUtils, TLC, OSVRange
\*
\*trace == IODeserialize("OSVRange_TTrace_1790918165.bin", TRUE)
\*
\*=============================================================================
\*

---- MODULE OSVRange_TETrace ----
EXTENDS TLC, OSVRange

trace == 
    <<
    ([eco |-> "npm",cur |-> <<>>,ranges |-> <<>>,affected |-> <<>>]),
    ([eco |-> "npm",cur |-> <<[k |-> "introduced", v |-> 4]>>,ranges |-> <<>>,affected |-> <<>>]),
    ([eco |-> "npm",cur |-> <<>>,ranges |-> <<[events |-> <<[k |-> "introduced", v |-> 4]>>, type |-> "ECOSYSTEM"]>>,affected |-> <<>>]),
    ([eco |-> "npm",cur |-> <<>>,ranges |-> <<>>,affected |-> <<[ranges |-> <<[events |-> <<[k |-> "introduced", v |-> 4]>>, type |-> "ECOSYSTEM"]>>, pkg |-> "same", versions |-> {}]>>])
    >>
----


=============================================================================

---- CONFIG OSVRange_TTrace_1790918165 ----
CONSTANTS
    NV = 2
    MaxEvents = 2
    MaxRanges = 1
    MaxAffected = 1
    Ecos = { "npm" }
    RangeTypes = { "ECOSYSTEM" }
    PkgKinds = { "same" }
    WithVersions = FALSE
    Ordered = FALSE

INVARIANT
    _inv

CHECK_DEADLOCK
    \* CHECK_DEADLOCK off because of PROPERTY or INVARIANT above.
    FALSE

INIT
    _init

NEXT
    _next

CONSTANT
    _TETrace <- _trace

ALIAS
    _expression
=============================================================================
\* Generated on Fri Oct 02 05:16:06 UTC 2026