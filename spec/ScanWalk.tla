------------------------------ MODULE ScanWalk ------------------------------
(***************************************************************************)
(* The directory-walk engine of extractor/filesystem/filesystem.go         *)
(* (Run, RunFS, walkIndividualPaths, handleFile, postHandleFile,           *)
(* shouldSkipDir, runExtractor) over internal.WalkDirUnsorted, as one       *)
(* action per handleFile call.  Serves C01 C08 C09 C10 and the containment  *)
(* half of C02.                                                             *)
(*                                                                         *)
(* Operational part: variables mirror walkContext (frame stack, gitignore  *)
(* stack, inode counters, per-extractor error/found maps, inventory).      *)
(* Declarative part: Eligible / ExpectedCalls / ExpectedPkgs state what    *)
(* must have been extracted without reference to the walk or its order.    *)
(*                                                                         *)
(* A scenario (tree, .gitignore contents, configuration, listing order,    *)
(* fault sites, limits, cancellation point, extractor outcomes) is built   *)
(* by the setup actions; the walk then runs to "done".                      *)
(***************************************************************************)
EXTENDS Integers, FiniteSets, Sequences, TLC, Json

CONSTANTS
  ExSeq,        \* sequence of extractor names in dispatch order, e.g. <<"e1","e2">>
  MaxNodes,     \* max number of present tree nodes
  FileKinds,    \* kinds offered to non-.gitignore file slots: subset of {"file","big","at","link","linkbig","linkdir","special"} ("linkdir": a symlink to a directory; never descended into, never required by an extractor)
  UseList, UseRe, UseGlob,  \* BOOLEAN: the skip-list / skip-regex / skip-glob options may be set
  UseGit,       \* BOOLEAN: .gitignore files may exist and UseGitignore may be on
  MaxPaths,     \* 0: whole-tree scans only; n: up to n explicitly requested paths
  UseLimit,     \* BOOLEAN: the file-size limit may be on
  Perms,        \* listing orders: 0 = any order (nondeterministic), 1..6 = fixed permutation code
  MaxFaults, FaultOps,      \* number of injected faults and the operations that may fail
  InodeLimits,  \* choices for MaxInodes (0 = unlimited)
  CancelKinds,  \* subset of {"none","pre","extract","inode"}
  Outcomes,     \* extractor outcomes: subset of {"ok","err","errpkg","empty"}
  Fatal,        \* choices for ErrorOnFSErrors: subset of BOOLEAN
  Roots         \* choices for the number of scan roots (each root holds the same tree)

Ex == {ExSeq[i] : i \in 1..Len(ExSeq)}
E1 == <<"e1">>           \* values for ExSeq (a cfg file cannot spell a sequence)
E2 == <<"e1", "e2">>

(* ---- path universe: 10 slots, depth <= 3, with .gitignore files at every directory level ---- *)
NSlots == 10              \* the deep family substitutes DeepSlots (cfg: NSlots <- DeepSlots)
DeepSlots == 12
Slot == 1..NSlots
Root == 0
Path   == <<".gitignore", "a", "a/.gitignore", "a/f", "a/b", "a/b/.gitignore", "a/b/f", "a/b/g", "f", "b", "a/b/c", "a/b/c/f">>
Par    == <<0, 0, 2, 2, 2, 5, 5, 5, 0, 0, 5, 11>>
Name   == <<".gitignore", "a", ".gitignore", "f", "b", ".gitignore", "f", "g", "f", "b", "c", "f">>
IsGiSlot(s) == s \in {1, 3, 6}
CanDir(s)   == s \in {2, 5, 10, 11}
GiOf(d) == IF d = 0 THEN 1 ELSE IF d = 2 THEN 3 ELSE IF d = 5 THEN 6 ELSE 0   \* the .gitignore slot of directory d (0: none)
PathOf(s) == IF s = 0 THEN "." ELSE Path[s]

RECURSIVE Anc(_)
Anc(s) == IF Par[s] = 0 THEN {} ELSE {Par[s]} \cup Anc(Par[s])        \* proper ancestors below the root
RECURSIVE RelNames(_, _)
RelNames(s, d) == IF Par[s] = d THEN <<Name[s]>> ELSE RelNames(Par[s], d) \o <<Name[s]>>   \* names of s below directory d
Under(s, d) == d = 0 \/ d \in Anc(s)

Atoms == [t : {"name", "anch", "dironly"}, n : {"f", "b"}]
SizeLimit == 5
SizeOf(k) == CASE k \in {"big", "linkbig"} -> 6 [] k = "at" -> 5 [] OTHER -> 2     \* a symlink has the size of its target
\* scan roots hold the same tree, except that in even-numbered roots small and oversize regular files swap sizes
\* (so that state leaking from one root into the next is observable)
SizeIn(rt, k) == IF rt % 2 = 0 /\ k = "big" THEN 2 ELSE IF rt % 2 = 0 /\ k = "file" THEN 6 ELSE SizeOf(k)

FaultSites == {[op |-> "statroot", s |-> 0, k |-> 0]}
         \cup {[op |-> "opendir", s |-> d, k |-> 0] : d \in {0, 2, 5, 10}}
         \cup {[op |-> "readent", s |-> d, k |-> k] : d \in {0, 2, 5}, k \in 1..2}
         \cup {[op |-> o, s |-> f, k |-> 0] : o \in {"open", "fstat", "lazystat", "read"}, f \in {4, 7, 8, 9, 10}}
         \cup {[op |-> "opengi", s |-> g, k |-> 0] : g \in {1, 3, 6}}

VARIABLES
  phase,    \* "tree" | "cfg" | "walk" | "done"
  idx,      \* next slot to decide in phase "tree"
  tree,     \* Slot -> "none" | "dir" | kind
  gic,      \* .gitignore slot -> set of atoms
  cfg,      \* the scan configuration and the environment's choices (see ChooseCfg)
  req,      \* extractor -> set of slots it declares required
  out,      \* <<extractor, slot>> -> outcome of Extract
  (* walk state (walkContext) *)
  root,     \* current scan root, 1..cfg.roots
  ri,       \* index of the requested path being processed (paths mode)
  stack,    \* frames [d, todo, second]: directory, entries still to list, pending second (error) call
  gis,      \* gitignore stack: sequence of [d, atoms]
  inodes,   \* wc.inodesVisited
  visited,  \* number of AfterInodeVisited callbacks
  ncalls,   \* number of Extract calls so far
  calls,    \* bag: <<root, extractor, slot>> -> number of Extract calls
  late,     \* set of calls started after cancellation (only the same file's remaining extractors)
  pkgs,     \* bag of reported packages <<root, extractor, slot>>
  errs, found,  \* extractor -> BOOLEAN
  cancelled, status, travfault
vars == <<phase, idx, tree, gic, cfg, req, out, root, ri, stack, gis, inodes, visited, ncalls, calls, late,
          pkgs, errs, found, cancelled, status, travfault>>

Present(s) == tree[s] # "none"
IsDir(s) == tree[s] = "dir"
Dirs == {s \in Slot : IsDir(s)}
FileSlots == {s \in Slot : Present(s) /\ ~IsDir(s)}
NPresent == Cardinality({s \in Slot : Present(s)})
Children(d) == {s \in Slot : Par[s] = d /\ Present(s)}
Faulty(o, s, k) == [op |-> o, s |-> s, k |-> k] \in cfg.faults

-----------------------------------------------------------------------------
(* ---------------------------- declarative part --------------------------- *)
\* git's meaning of the three positive pattern forms; rel = component names below the .gitignore's directory
AtomMatch(at, rel, isDir) ==
  LET n == Len(rel) IN
  CASE at.t = "name"    -> \E i \in 1..n : rel[i] = at.n
    [] at.t = "dironly" -> \E i \in 1..n : rel[i] = at.n /\ (i < n \/ isDir)
    [] at.t = "anch"    -> rel[1] = at.n
GiAtoms(d) == IF GiOf(d) # 0 /\ tree[GiOf(d)] = "file" THEN gic[GiOf(d)] ELSE {}
GitIgnored(s, isDir) == cfg.useGit /\ \E d \in ({0} \cup Anc(s)) : \E at \in GiAtoms(d) : AtomMatch(at, RelNames(s, d), isDir)
RuleSkipped(d) == d \in cfg.skipList \/ d \in cfg.reSkip \/ d \in cfg.globSkip \/ GitIgnored(d, TRUE)
Wanted(s) == tree[s] \in {"file", "big", "at"} \/ (tree[s] \in {"link", "linkbig"} /\ cfg.readLinks)
InSize(rt, s) == ~cfg.limit \/ SizeIn(rt, tree[s]) <= SizeLimit
\* s is reached by a walk that starts at directory r (0 = the scan root) and is a file some extractor may get
ReachedFrom(s, r) == /\ Under(s, r)
                     /\ \A d \in Anc(s) : (d # r /\ Under(d, r)) => (IsDir(d) /\ ~RuleSkipped(d))
                     /\ cfg.ignoreSub => Par[s] = r
EligibleFrom(rt, s, r) == Present(s) /\ ~IsDir(s) /\ ReachedFrom(s, r) /\ Wanted(s) /\ InSize(rt, s) /\ ~GitIgnored(s, FALSE)
\* number of scan roots / requested paths that reach file s
Reaches(rt, s) == IF cfg.paths = <<>> THEN IF EligibleFrom(rt, s, 0) THEN 1 ELSE 0
              ELSE Cardinality({i \in 1..Len(cfg.paths) :
                     LET r == cfg.paths[i] IN IF IsDir(r) THEN EligibleFrom(rt, s, r)
                                              ELSE r = s /\ Wanted(s) /\ InSize(rt, s)})
ExpectedCount(rt, e, s) == IF s \in req[e] THEN Reaches(rt, s) ELSE 0

-----------------------------------------------------------------------------
(* ------------------------- scenario construction ------------------------- *)
Init == /\ phase = "tree" /\ idx = 1
        /\ tree = [s \in Slot |-> "none"] /\ gic = [s \in {1, 3, 6} |-> {}]
        /\ cfg = [skipList |-> {}, reSkip |-> {}, globSkip |-> {}, useGit |-> FALSE, paths |-> <<>>, ignoreSub |-> FALSE,
                  limit |-> FALSE, readLinks |-> FALSE, perm |-> 1, maxInodes |-> 0, fatal |-> FALSE, faults |-> {},
                  cancel |-> [kind |-> "none", n |-> 0], roots |-> 1]
        /\ req = [e \in Ex |-> {}] /\ out = [x \in Ex \X Slot |-> "ok"]
        /\ root = 1 /\ ri = 0 /\ stack = <<>> /\ gis = <<>> /\ inodes = 0 /\ visited = 0 /\ ncalls = 0
        /\ calls = [x \in (1..3) \X Ex \X Slot |-> 0] /\ late = {} /\ pkgs = [x \in (1..3) \X Ex \X Slot |-> 0]
        /\ errs = [e \in Ex |-> FALSE] /\ found = [e \in Ex |-> FALSE]
        /\ cancelled = FALSE /\ status = "run" /\ travfault = FALSE

ChooseNode ==
  /\ phase = "tree" /\ idx <= NSlots
  /\ \E k \in {"none", "dir", "file"} \cup FileKinds :
       /\ k # "none" => (NPresent < MaxNodes /\ (IF Par[idx] = 0 THEN TRUE ELSE IsDir(Par[idx])))
       /\ k = "dir" => CanDir(idx)
       /\ IsGiSlot(idx) => (k \in {"none", "file"} /\ (k = "file" => UseGit))
       /\ (k \notin {"none", "dir", "file"}) => ~IsGiSlot(idx)
       /\ tree' = [tree EXCEPT ![idx] = k]
       /\ IF IsGiSlot(idx) /\ k = "file"
          THEN \E at \in Atoms : gic' = [gic EXCEPT ![idx] = {at}]
          ELSE gic' = gic
  /\ idx' = idx + 1
  /\ phase' = IF idx = NSlots THEN "cfg" ELSE "tree"
  /\ UNCHANGED <<cfg, req, out, root, ri, stack, gis, inodes, visited, ncalls, calls, late, pkgs, errs, found,
                 cancelled, status, travfault>>

AtMostOne(S) == {{}} \cup {{x} : x \in S}
UpTo(S, n) == {{}} \cup (IF n >= 1 THEN {{x} : x \in S} ELSE {}) \cup (IF n >= 2 THEN {{x, y} : x \in S, y \in S} ELSE {})
Requestable == {x \in Slot : tree[x] \in {"dir", "file", "big", "at"}}   \* requested symlinks / special files: unspecified
\* a requested path that does not exist (its Stat fails): only in the families that substitute AllowMissing (cfg: AllowMissing <- Yes)
AllowMissing == FALSE
Yes == TRUE
MissingSlots == IF AllowMissing THEN {x \in Slot : tree[x] = "none" /\ ~IsGiSlot(x) /\ (Par[x] = 0 \/ IsDir(Par[x]))} ELSE {}
PathChoices == IF MaxPaths = 0 THEN {<<>>}
               ELSE {<<>>} \cup {<<s>> : s \in Requestable \cup MissingSlots}
                    \cup (IF MaxPaths >= 2 THEN {<<s, t>> : s \in Dirs \cup MissingSlots, t \in Requestable} \cup {<<s, t>> : s \in Requestable, t \in MissingSlots} ELSE {})
\* number of inodes a fault-free unlimited whole-tree walk of one root visits (used to centre the inode limits)
ListSeq(d, perm) ==   \* children of d in the listing order encoded by perm (1..6); perm 0 uses ascending as the base
  LET S == Children(d)
      n == Cardinality(S)
      asc == CHOOSE q \in [1..n -> S] : \A i, j \in 1..n : i < j => q[i] < q[j]
      rot == IF perm \in {3, 4} THEN 1 ELSE IF perm \in {5, 6} THEN 2 ELSE 0
      r == [i \in 1..n |-> asc[((i - 1 + rot) % n) + 1]]
  IN IF n = 0 THEN <<>> ELSE IF perm \in {2, 4, 6} THEN [i \in 1..n |-> r[n + 1 - i]] ELSE r

ChooseCfg ==
  /\ phase = "cfg"
  /\ \E sl \in (IF UseList THEN AtMostOne(Dirs) ELSE {{}}),
        rs \in (IF UseRe THEN AtMostOne(Dirs) ELSE {{}}),
        gs \in (IF UseGlob THEN AtMostOne(Dirs) ELSE {{}}),
        ug \in (IF UseGit THEN BOOLEAN ELSE {FALSE}),
        ps \in PathChoices,
        isub \in BOOLEAN,
        lim \in (IF UseLimit THEN BOOLEAN ELSE {FALSE}),
        rl \in (IF FileKinds \cap {"link", "linkbig", "linkdir"} # {} THEN BOOLEAN ELSE {FALSE}),
        pm \in Perms, mi \in InodeLimits, ft \in Fatal, nr \in Roots,
        fs \in UpTo({x \in FaultSites : x.op \in FaultOps}, MaxFaults),
        ck \in CancelKinds, cn \in 1..3 :
      LET c == [skipList |-> sl, reSkip |-> rs, globSkip |-> gs, useGit |-> ug, paths |-> ps, ignoreSub |-> isub,
                limit |-> lim, readLinks |-> rl, perm |-> pm, maxInodes |-> mi, fatal |-> ft, faults |-> fs,
                cancel |-> [kind |-> ck, n |-> IF ck \in {"extract", "inode"} THEN cn ELSE 0], roots |-> nr]
      IN /\ cfg' = c
         \* ---- domain exclusions (DESIGN.md C01 "Domain") ----
         /\ isub => ps # <<>>                                      \* cut-off is only defined with requested paths
         /\ isub => \A i, j \in 1..Len(ps) : i # j => ~Under(ps[j], ps[i]) /\ ps[i] # ps[j]   \* ... not nested in each other
         /\ ps # <<>> => nr = 1                                    \* the API rejects requested paths with several roots
         /\ (IF ck \in {"extract", "inode"} THEN TRUE ELSE cn = 1)
         /\ \A i \in 1..Len(ps) :                                  \* no requested path inside an excluded directory,
              /\ \A d \in Anc(ps[i]) \cup (IF IsDir(ps[i]) THEN {ps[i]} ELSE {}) :
                     d \notin sl \cup rs \cup gs
         /\ \A f \in fs :                                          \* faults sit on nodes of the matching kind
              CASE f.op = "statroot" -> ps = <<>>
                [] f.op \in {"opendir", "readent"} -> (IF f.s = 0 THEN TRUE ELSE IsDir(f.s))
                [] f.op = "opengi" -> tree[f.s] = "file" /\ ug /\ ~ft
                [] f.op = "lazystat" -> f.s \in FileSlots /\ lim /\ ~ft /\ \A i \in 1..Len(ps) : ps[i] # f.s
                [] OTHER -> f.s \in FileSlots
  /\ \E r \in [Ex -> SUBSET FileSlots] :
       /\ req' = r
       /\ \A e \in Ex : \A s \in r[e] : tree[s] # "linkdir"          \* what extracting a symlink to a directory means is not specified
       /\ \A f \in cfg'.faults : f.op = "opengi" => \A e \in Ex : f.s \notin r[e]   \* a .gitignore that cannot be opened is not also an extraction target
       /\ LET pairs == {x \in Ex \X Slot : x[2] \in r[x[1]]} IN
          \E o \in [pairs -> Outcomes] : out' = [x \in Ex \X Slot |-> IF x \in pairs THEN o[x] ELSE "ok"]
  /\ phase' = "walk"
  /\ UNCHANGED <<idx, tree, gic, root, ri, stack, gis, inodes, visited, ncalls, calls, late, pkgs, errs, found,
                 cancelled, status, travfault>>

\* gitignore-related domain exclusions need cfg and tree together (evaluated once the walk starts)
InDomain == /\ \A i \in 1..Len(cfg.paths) :
                 LET s == cfg.paths[i] IN
                 /\ ~GitIgnored(s, IsDir(s))                          \* a requested path a parent .gitignore matches
                 /\ \A d \in Anc(s) : ~GitIgnored(d, TRUE)

\* the swap family (cfg: InDomain <- InDomainSwap) admits an explicitly requested FILE that a parent .gitignore matches.
\* Whether such a file is to be extracted is left open (DESIGN, C01 Domain); what is required is that the answer does not
\* depend on the position of the request: the harness replays <<s, t>> and <<t, s>> and compares the calls on FreeFiles.
InDomainSwap == \A i \in 1..Len(cfg.paths) :
                  LET s == cfg.paths[i] IN
                  /\ IsDir(s) => ~GitIgnored(s, TRUE)
                  /\ \A d \in Anc(s) : ~GitIgnored(d, TRUE)
FreeFiles == {s \in Slot : /\ \E i \in 1..Len(cfg.paths) : cfg.paths[i] = s
                           /\ Present(s) /\ ~IsDir(s) /\ GitIgnored(s, FALSE)}

-----------------------------------------------------------------------------
(* ------------------------------- the walk -------------------------------- *)
Top == stack[Len(stack)]
Pop(s) == SubSeq(s, 1, Len(s) - 1)
GitStackMatch(g, s, isDir) ==     \* internal.GitignoreMatch over the gitignore stack g
  \E i \in 1..Len(g) : \E at \in g[i].atoms : Under(s, g[i].d) /\ AtomMatch(at, RelNames(s, g[i].d), isDir)
ShouldSkipDir(g, d) ==            \* shouldSkipDir, ideal: every configured rule is consulted
  \/ d \in cfg.skipList
  \/ (cfg.ignoreSub /\ \A i \in 1..Len(cfg.paths) : cfg.paths[i] # d)
  \/ (cfg.useGit /\ d # 0 /\ GitStackMatch(g, d, TRUE))
  \/ d \in cfg.reSkip \/ d \in cfg.globSkip

Abort == /\ status' = "failed" /\ phase' = "done"
Count(bag, x) == [bag EXCEPT ![x] = @ + 1]

\* the bookkeeping at the top of handleFile; yields "limit", "cancel" or "go"
Entry == IF cfg.maxInodes > 0 /\ inodes + 1 > cfg.maxInodes THEN "limit"
         ELSE IF cancelled \/ (cfg.cancel.kind = "inode" /\ visited + 1 = cfg.cancel.n) THEN "cancel"
         ELSE "go"
EntryUpdate == /\ inodes' = inodes + 1
               /\ visited' = IF Entry = "limit" THEN visited ELSE visited + 1
EntryCancelled == cancelled \/ Entry = "cancel"
NoExtract == UNCHANGED <<ncalls, calls, late, pkgs, errs, found>>

\* dispatch of one file to the extractors, in list order (the for-loop of handleFile + runExtractor)
RECURSIVE Dispatch(_, _, _)
Dispatch(i, s, st) ==   \* st = [ncalls, calls, late, pkgs, errs, found, cancelled]
  IF i > Len(ExSeq) THEN st
  ELSE LET e == ExSeq[i] IN
       IF s \notin req[e] THEN Dispatch(i + 1, s, st)
       ELSE IF cfg.limit /\ Faulty("lazystat", s, 0)
            THEN Dispatch(i + 1, s, [st EXCEPT !.errs[e] = TRUE])               \* size unknown: surfaced, not extracted
       ELSE IF Faulty("open", s, 0) \/ Faulty("fstat", s, 0)
            THEN Dispatch(i + 1, s, [st EXCEPT !.errs[e] = TRUE])
       ELSE LET n == st.ncalls + 1
                o == IF Faulty("read", s, 0) THEN "err" ELSE out[<<e, s>>]
                x == <<root, e, s>>
            IN Dispatch(i + 1, s,
                 [st EXCEPT !.ncalls = n,
                            !.calls = Count(st.calls, x),
                            !.late = IF st.cancelled THEN @ \cup {x} ELSE @,
                            !.pkgs = IF o \in {"ok", "errpkg"} THEN Count(st.pkgs, x) ELSE @,
                            !.errs[e] = @ \/ o \in {"err", "errpkg"},
                            !.found[e] = @ \/ o \in {"ok", "errpkg"},
                            !.cancelled = @ \/ (cfg.cancel.kind = "extract" /\ n = cfg.cancel.n)])
\* the part of handleFile after the bookkeeping, for a non-directory s, with gitignore stack g
VisitFile(g, s) ==
  LET go == /\ Wanted(s) /\ ~(cfg.useGit /\ GitStackMatch(g, s, FALSE))
            /\ (cfg.limit /\ ~Faulty("lazystat", s, 0)) => SizeIn(root, tree[s]) <= SizeLimit
      st0 == [ncalls |-> ncalls, calls |-> calls, late |-> late, pkgs |-> pkgs, errs |-> errs, found |-> found, cancelled |-> cancelled]
      st == IF go THEN Dispatch(1, s, st0) ELSE st0
  IN /\ ncalls' = st.ncalls /\ calls' = st.calls /\ late' = st.late /\ pkgs' = st.pkgs
     /\ errs' = st.errs /\ found' = st.found /\ cancelled' = st.cancelled

\* first handleFile call on directory d (0: the walk root) with the frames `rest` and gitignore stack g below it:
\* push its .gitignore, decide whether to skip it, list it
EnterDir(d, rest, g) ==
  LET skip == ShouldSkipDir(g, d)     \* parents' patterns only: a directory's own .gitignore never matches the directory
      newg == IF cfg.useGit
              THEN Append(g, [d |-> d, atoms |-> IF skip \/ Faulty("opengi", GiOf(d), 0) THEN {} ELSE GiAtoms(d)])
              ELSE g
      lst == ListSeq(d, cfg.perm)
      ks == {k \in 1..2 : Faulty("readent", d, k) /\ k <= Len(lst) + 1}
      cut == IF ks = {} THEN -1 ELSE (CHOOSE k \in ks : \A j \in ks : k <= j) - 1
  IN IF skip THEN /\ stack' = rest /\ gis' = g
     ELSE IF Faulty("opendir", d, 0)
          THEN /\ stack' = Append(rest, [d |-> d, todo |-> <<>>, second |-> TRUE]) /\ gis' = newg
     ELSE /\ stack' = Append(rest, [d |-> d, todo |-> IF cut >= 0 THEN SubSeq(lst, 1, cut) ELSE lst, second |-> cut >= 0])
          /\ gis' = newg

RECURSIVE ParentChain(_)
ParentChain(s) == IF Par[s] = 0 THEN <<0>> ELSE Append(ParentChain(Par[s]), Par[s])      \* directories above a requested directory, outermost first

\* the walk of one root / of the next requested path starts
StartWalk ==
  /\ phase = "walk" /\ stack = <<>> /\ status = "run" /\ InDomain
  /\ IF cfg.paths = <<>>
     THEN /\ ri = 0 /\ ri' = 1                                 \* WalkDirUnsorted(".")
          /\ EntryUpdate /\ NoExtract /\ cancelled' = EntryCancelled
          /\ IF Entry # "go" THEN Abort /\ UNCHANGED <<stack, gis, travfault>>
             ELSE IF Faulty("statroot", 0, 0)
                  THEN /\ travfault' = TRUE /\ UNCHANGED <<stack, gis>>
                       /\ IF cfg.fatal THEN Abort ELSE UNCHANGED <<phase, status>>
                  ELSE /\ EnterDir(0, <<>>, <<>>) /\ UNCHANGED <<phase, status, travfault>>
     ELSE /\ ri < Len(cfg.paths) /\ ri' = ri + 1               \* walkIndividualPaths
          /\ LET s == cfg.paths[ri + 1] IN
             /\ EntryUpdate
             /\ IF Entry # "go"
                THEN Abort /\ NoExtract /\ cancelled' = EntryCancelled /\ UNCHANGED <<stack, gis, travfault>>
                ELSE IF ~Present(s)
                     THEN \* Stat of the requested path fails: handleFile(p, nil, err) - fatal on request, otherwise the next path
                          /\ travfault' = TRUE /\ NoExtract /\ UNCHANGED <<stack, gis, cancelled>>
                          /\ IF cfg.fatal THEN Abort ELSE UNCHANGED <<phase, status>>
                ELSE IF IsDir(s)
                     THEN \* the parents' .gitignore files (the root's included) apply to a requested directory
                          /\ LET pc == ParentChain(s)
                                 parents == IF cfg.useGit THEN [i \in 1..Len(pc) |-> [d |-> pc[i], atoms |-> IF Faulty("opengi", GiOf(pc[i]), 0) THEN {} ELSE GiAtoms(pc[i])]] ELSE <<>>
                             IN EnterDir(s, <<>>, parents)
                          /\ NoExtract /\ UNCHANGED <<phase, status, cancelled, travfault>>
                     ELSE /\ VisitFile(<<>>, s) /\ UNCHANGED <<stack, gis, phase, status, travfault>>
  /\ UNCHANGED <<idx, tree, gic, cfg, req, out, root>>

\* one handleFile call on the next listed entry of the directory on top of the stack
Visit ==
  /\ phase = "walk" /\ stack # <<>> /\ Top.todo # <<>>
  /\ \E i \in (IF cfg.perm = 0 THEN 1..Len(Top.todo) ELSE {1}) :
       LET s == Top.todo[i]
           rest == [stack EXCEPT ![Len(stack)].todo = [j \in 1..(Len(Top.todo) - 1) |-> IF j < i THEN Top.todo[j] ELSE Top.todo[j + 1]]]
       IN /\ EntryUpdate
          /\ IF Entry # "go"
             THEN Abort /\ NoExtract /\ cancelled' = EntryCancelled /\ UNCHANGED <<stack, gis>>
             ELSE IF IsDir(s)
                  THEN EnterDir(s, rest, gis) /\ NoExtract /\ UNCHANGED <<phase, status, cancelled>>
                  ELSE VisitFile(gis, s) /\ stack' = rest /\ UNCHANGED <<gis, phase, status>>
  /\ UNCHANGED <<idx, tree, gic, cfg, req, out, root, ri, travfault>>

\* the second, error-reporting handleFile call after a failed open / partial listing of the top directory
SecondCall ==
  /\ phase = "walk" /\ stack # <<>> /\ Top.todo = <<>> /\ Top.second
  /\ EntryUpdate /\ NoExtract /\ cancelled' = EntryCancelled
  /\ travfault' = (travfault \/ Entry = "go")
  /\ IF Entry # "go" \/ cfg.fatal
     THEN Abort /\ UNCHANGED <<stack>>
     ELSE stack' = [stack EXCEPT ![Len(stack)].second = FALSE] /\ UNCHANGED <<phase, status>>
  /\ UNCHANGED <<idx, tree, gic, cfg, req, out, root, ri, gis>>

\* postHandleFile: leave the directory on top of the stack
PostDir ==
  /\ phase = "walk" /\ stack # <<>> /\ Top.todo = <<>> /\ ~Top.second
  /\ stack' = Pop(stack)
  /\ gis' = IF cfg.useGit THEN (IF Len(stack) = 1 THEN <<>> ELSE Pop(gis)) ELSE gis
  /\ UNCHANGED <<idx, tree, gic, cfg, req, out, root, ri, inodes, visited, ncalls, calls, late, pkgs, errs, found,
                 cancelled, status, phase, travfault>>

\* the walk of this root is over: next root, or finish
EndRoot ==
  /\ phase = "walk" /\ stack = <<>> /\ status = "run"
  /\ IF cfg.paths = <<>> THEN ri = 1 ELSE ri = Len(cfg.paths)
  /\ IF root < cfg.roots
     THEN /\ root' = root + 1 /\ ri' = 0 /\ UNCHANGED <<phase, status>>
     ELSE /\ phase' = "done" /\ status' = "ok" /\ UNCHANGED <<root, ri>>
  /\ UNCHANGED <<idx, tree, gic, cfg, req, out, stack, gis, inodes, visited, ncalls, calls, late, pkgs, errs, found,
                 cancelled, travfault>>

\* a cancellation before the scan starts
PreCancel == /\ phase = "walk" /\ stack = <<>> /\ ri = 0 /\ root = 1 /\ inodes = 0 /\ cfg.cancel.kind = "pre" /\ ~cancelled
             /\ cancelled' = TRUE
             /\ UNCHANGED <<phase, idx, tree, gic, cfg, req, out, root, ri, stack, gis, inodes, visited, ncalls, calls, late,
                            pkgs, errs, found, status, travfault>>

Next == ChooseNode \/ ChooseCfg \/ PreCancel
        \/ ((cfg.cancel.kind = "pre" => cancelled) /\ StartWalk)
        \/ Visit \/ SecondCall \/ PostDir \/ EndRoot
Spec == Init /\ [][Next]_vars

-----------------------------------------------------------------------------
(* ------------------------------ properties ------------------------------- *)
Done == phase = "done"
MissingRequested == \E i \in 1..Len(cfg.paths) : ~Present(cfg.paths[i])
Clean == cfg.faults = {} /\ cfg.maxInodes = 0 /\ cfg.cancel.kind = "none" /\ ~(cfg.fatal /\ MissingRequested)    \* fault-free, unlimited, uncancelled, no fatal failure
NoFailOutcome == \A x \in Ex \X Slot : out[x] \in {"ok", "empty"}

\* C01: every required, non-excluded file is extracted exactly once per root / requested path that reaches it,
\* and nothing else is; the inventory is exactly what those invocations returned
ExactlyTheRequired ==
  (Done /\ Clean) => /\ status = "ok"
                     /\ \A r \in 1..3, e \in Ex, s \in Slot :
                          calls[<<r, e, s>>] = IF r <= cfg.roots THEN ExpectedCount(r, e, s) ELSE 0
InventoryIsUnion ==
  (Done /\ Clean) => \A r \in 1..3, e \in Ex, s \in Slot :
                          pkgs[<<r, e, s>>] = IF out[<<e, s>>] \in {"ok", "errpkg"} THEN calls[<<r, e, s>>] ELSE 0
NeverExtra == (\A f \in cfg.faults : f.op # "opengi") =>     \* an unreadable .gitignore contributes no patterns
              \A r \in 1..3, e \in Ex, s \in Slot : calls[<<r, e, s>>] <= (IF r <= cfg.roots THEN ExpectedCount(r, e, s) ELSE 0)
\* C10: the limits are hard bounds
InodeBound == cfg.maxInodes > 0 => visited <= cfg.maxInodes
SizeBound == \A r \in 1..3, e \in Ex, s \in Slot : (calls[<<r, e, s>>] > 0 /\ cfg.limit) => SizeIn(r, tree[s]) <= SizeLimit
NothingAfterCancel == \A x \in late : \E e \in Ex : calls[<<x[1], e, x[3]>>] > 0 /\ <<x[1], e, x[3]>> \notin late
\* C09: plugin statuses surface failures; the scan fails only on request
StatusOf(e) == IF ~errs[e] THEN "ok" ELSE IF found[e] THEN "partial" ELSE "failed"
FatalOnlyOnRequest ==
  (Done /\ cfg.maxInodes = 0 /\ cfg.cancel.kind = "none") => (status = "failed" <=> (cfg.fatal /\ travfault))
\* C02(b)/C09: a failing extraction or file leaves every other <<extractor, file>> pair untouched
Containment ==
  (Done /\ status = "ok" /\ cfg.maxInodes = 0 /\ cfg.cancel.kind = "none"
        /\ \A f \in cfg.faults : f.op \in {"open", "fstat", "lazystat", "read"}) =>
     \A r \in 1..cfg.roots, e \in Ex, s \in Slot :
        LET hit == \E f \in cfg.faults : f.s = s /\ (f.op \in {"open", "fstat", "lazystat"})
        IN calls[<<r, e, s>>] = IF hit THEN 0 ELSE ExpectedCount(r, e, s)

TypeOK == /\ status \in {"run", "ok", "failed"} /\ inodes >= visited /\ Len(gis) <= 5 /\ Len(stack) <= 4

(* ---- emission of replay cases (binding A) ---- *)
NodesJson == {[p |-> Path[s], k |-> tree[s], size |-> SizeOf(tree[s]),
               gi |-> IF IsGiSlot(s) THEN gic[s] ELSE {}] : s \in {x \in Slot : Present(x)}}
P(S) == {Path[s] : s \in S}
CfgJson == [skipList |-> P(cfg.skipList), reSkip |-> P(cfg.reSkip), globSkip |-> P(cfg.globSkip), useGit |-> cfg.useGit,
            paths |-> [i \in 1..Len(cfg.paths) |-> Path[cfg.paths[i]]], ignoreSub |-> cfg.ignoreSub,
            maxFileSize |-> IF cfg.limit THEN SizeLimit ELSE 0, readLinks |-> cfg.readLinks, perm |-> cfg.perm,
            maxInodes |-> cfg.maxInodes, fatal |-> cfg.fatal, roots |-> cfg.roots, cancel |-> cfg.cancel,
            faults |-> {[op |-> f.op, p |-> PathOf(f.s), k |-> f.k] : f \in cfg.faults}]
Triples(bag) == {<<x[1], x[2], Path[x[3]], bag[x]>> : x \in {y \in DOMAIN bag : bag[y] > 0}}
Case == [nodes |-> NodesJson, cfg |-> CfgJson, ex |-> ExSeq,
         req |-> [e \in Ex |-> P(req[e])],
         out |-> {<<x[1], Path[x[2]], out[x]>> : x \in {y \in Ex \X Slot : y[2] \in req[y[1]] /\ out[y] # "ok"}},
         expect |-> [status |-> status, calls |-> Triples(calls),
                     optional |-> {<<x[1], x[2], Path[x[3]]>> : x \in late},
                     pkgs |-> Triples(pkgs), visited |-> visited,
                     plugins |-> [e \in Ex |-> StatusOf(e)], cancelled |-> cancelled,
                     work_remained |-> \E r \in 1..cfg.roots, e \in Ex, sl \in Slot : calls[<<r, e, sl>>] < ExpectedCount(r, e, sl)]]
Emit == Done => PrintT(ToJson(Case))
EmitSwap == (Done /\ Len(cfg.paths) = 2 /\ FreeFiles # {}) => PrintT(ToJson([c |-> Case, free |-> P(FreeFiles)]))
\* the deep family replays only the trees that reach depth 4 (a/b/c/f)
EmitDeep == (Done /\ NSlots >= 12 /\ tree[12] # "none") => PrintT(ToJson(Case))
\* sanity (TLC must violate these): the interesting cases are reachable
SanityExtract == ~(Done /\ Clean /\ \E x \in DOMAIN calls : calls[x] > 0)
SanityFailed == ~(Done /\ status = "failed")
=============================================================================
