----------------------------- MODULE LazyClient -----------------------------
(***************************************************************************)
(* C16, the lazily created registry clients of CombinedNativeClient: the   *)
(* first lookups of several goroutines share ONE client, hence one request *)
(* cache, hence "at most one fetch per key and success" (ReqCache.tla)     *)
(* holds across them.                                                      *)
(*                                                                         *)
(* clientForSystem in the shape of the code: Lock; if the field is nil,    *)
(* construct and store; Unlock; return the field.  Hold = TRUE is the code *)
(* (construction under the mutex); Hold = FALSE is the deviation "release  *)
(* the mutex around the construction and store without looking again".     *)
(* A client stands for its cache: a goroutine that gets client c fetches   *)
(* the key through c unless c has fetched it already.                      *)
(***************************************************************************)
EXTENDS Integers, FiniteSets, TLC

CONSTANTS G, Hold

VARIABLES pc,       \* goroutine -> "start" | "locked" | "building" | "store" | "use" | "done"
          mu,       \* holder of the mutex (0 = free)
          field,    \* the client stored in the struct (0 = nil)
          made,     \* number of clients constructed so far
          mine,     \* goroutine -> the client it works with / has just built
          fetched   \* set of clients that have fetched the key
vars == <<pc, mu, field, made, mine, fetched>>
Gs == 1..G

Init == pc = [g \in Gs |-> "start"] /\ mu = 0 /\ field = 0 /\ made = 0 /\ mine = [g \in Gs |-> 0] /\ fetched = {}

Lock(g) == /\ pc[g] = "start" /\ mu = 0 /\ mu' = g /\ pc' = [pc EXCEPT ![g] = "locked"]
           /\ UNCHANGED <<field, made, mine, fetched>>
\* the nil test; with Hold the construction happens right here, under the mutex
Test(g) == /\ pc[g] = "locked"
           /\ IF field # 0
                THEN /\ mine' = [mine EXCEPT ![g] = field] /\ mu' = 0 /\ pc' = [pc EXCEPT ![g] = "use"]
                     /\ UNCHANGED <<field, made>>
                ELSE IF Hold
                       THEN /\ made' = made + 1 /\ field' = made + 1 /\ mine' = [mine EXCEPT ![g] = made + 1]
                            /\ mu' = 0 /\ pc' = [pc EXCEPT ![g] = "use"]
                       ELSE /\ mu' = 0 /\ pc' = [pc EXCEPT ![g] = "building"] /\ UNCHANGED <<field, made, mine>>
           /\ UNCHANGED fetched
\* the deviation: construct without the mutex, take it again, store blindly
Build(g) == /\ pc[g] = "building" /\ made' = made + 1 /\ mine' = [mine EXCEPT ![g] = made + 1]
            /\ pc' = [pc EXCEPT ![g] = "store"] /\ UNCHANGED <<mu, field, fetched>>
Store(g) == /\ pc[g] = "store" /\ mu = 0
            /\ field' = mine[g] /\ pc' = [pc EXCEPT ![g] = "use"] /\ UNCHANGED <<mu, made, mine, fetched>>
\* the lookup through the client's single-flight cache
Use(g) == /\ pc[g] = "use" /\ fetched' = fetched \cup {mine[g]} /\ pc' = [pc EXCEPT ![g] = "done"]
          /\ UNCHANGED <<mu, field, made, mine>>

Next == \E g \in Gs : Lock(g) \/ Test(g) \/ Build(g) \/ Store(g) \/ Use(g)
Spec == Init /\ [][Next]_vars /\ WF_vars(Next)

OneClient == made <= 1
OneFetchPerKey == Cardinality(fetched) <= 1
Terminates == <>(\A g \in Gs : pc[g] = "done")
=============================================================================
