---------------------------- MODULE ConvertTrace ----------------------------
(* Binding (M) for C14: the fact records the harness computed on the real code (one ndjson line per       *)
(* harvested package, preceded by the registry dump: which package URL types every built-in extractor     *)
(* emitted and which types purl.FromString accepts) are judged by the specification: Convert!Clauses      *)
(* on every package record, Convert!TypeTableOK (EmittedTypes \subseteq ValidTypes) on the registry.      *)
(* A record that fails is printed (its index and the failed clauses); the orchestrator turns it into a    *)
(* violation that carries the concrete package. The trace is accepted when every line was judged.         *)
EXTENDS Convert, IOUtils, TLCExt
Log == ndJsonDeserialize(IOEnv.VERIF_TRACE)
VARIABLE l
tvars == <<vars, l>>
TInit == Init /\ l = 1
TNext == l <= Len(Log) /\ l' = l + 1 /\ UNCHANGED vars
TSpec == TInit /\ [][TNext]_tvars

Judge == l <= Len(Log) =>
           LET r == Log[l] IN
           IF r.kind = "registry"
           THEN TypeTableOK(r) \/ PrintT(ToJson([bad_types |-> BadTypes(r)]))
           ELSE PkgOK(r) \/ PrintT(ToJson([bad |-> r.i, failed |-> Failed(r)]))
TraceAccepted == LET d == TLCGet("stats").diameter IN
                 IF d - 1 = Len(Log) THEN TRUE
                 ELSE Print(<<"TRACE-REJECTED-AT", d>>, FALSE)
=============================================================================
