---------------------------- MODULE ArchiveBudget ----------------------------
(***************************************************************************)
(* C02, bounded memory of the java/archive extractor: the bytes it may     *)
(* inflate from one top-level archive are bounded by MaxOpenedBytes,       *)
(* whatever the nested archives turn out to be.                            *)
(*                                                                         *)
(* A scenario: a top-level archive of T bytes holding a sequence of nested *)
(* archive entries, each with an uncompressed size and a flag "is a valid  *)
(* archive", and a budget B.  Operational part: Step - one iteration of    *)
(* the entry loop of extractWithMax (the early size test on               *)
(* openedBytes + Info.Size(), io.ReadAll of the entry, the count taken    *)
(* whether or not the entry then opens as an archive).  Declarative part:  *)
(* the bytes actually inflated never exceed the budget, and a memory-limit *)
(* error is reported exactly when the entries together exceed it.          *)
(*                                                                         *)
(* Two uses: (1) Gen - TLC enumerates every scenario with small sizes and  *)
(* checks the declarative part on the transcription; (2) Facts - records   *)
(* of real Extract calls on real jars (ndjson in VERIF_FACTS: sizes as     *)
(* measured, budget, reported error class, UncompressedBytes statistic,    *)
(* packages found) are judged against the transcription.                   *)
(***************************************************************************)
EXTENDS Integers, Sequences, FiniteSets, TLC, Json, IOUtils

CONSTANTS MaxEntries, Sizes, Budgets, Tops     \* Gen only

(* ---- operational: extractWithMax over the nested entries ---- *)
\* st = [opened, read, memlim, pkgs]
RECURSIVE Run(_, _, _, _)
Run(es, B, i, st) ==
  IF i > Len(es) THEN st
  ELSE LET e == es[i] IN
       IF st.opened + e.size > B
         THEN \* "reached max opened bytes": nothing is read, the count returned is openedBytes + size
              Run(es, B, i + 1, [st EXCEPT !.opened = @ + e.size, !.memlim = TRUE])
         ELSE \* io.ReadAll of the entry; counted before zip.NewReader can reject it
              Run(es, B, i + 1, [st EXCEPT !.opened = @ + e.size, !.read = @ + e.size,
                                           !.pkgs = @ + (IF e.valid THEN 1 ELSE 0)])
\* the top-level file implements ReaderAt: it is tested against the budget but not counted
Extract(T, es, B) ==
  IF T > B THEN [opened |-> T, read |-> 0, memlim |-> TRUE, pkgs |-> 0]
  ELSE Run(es, B, 1, [opened |-> 0, read |-> 0, memlim |-> FALSE, pkgs |-> 0])

(* ---- declarative ---- *)
RECURSIVE Sum(_)
Sum(es) == IF es = <<>> THEN 0 ELSE Head(es).size + Sum(Tail(es))
Bounded(T, es, B) == Extract(T, es, B).read <= B
LimitReportedIffOver(T, es, B) == Extract(T, es, B).memlim <=> (T > B \/ Sum(es) > B)

-----------------------------------------------------------------------------
(* ---- (1) Gen ---- *)
VARIABLES top, ents, budget, l
vars == <<top, ents, budget, l>>
Entry == [size : Sizes, valid : BOOLEAN]
GInit == top \in Tops /\ budget \in Budgets /\ ents = <<>> /\ l = 0
GAdd == \E e \in Entry : Len(ents) < MaxEntries /\ ents' = Append(ents, e) /\ UNCHANGED <<top, budget, l>>
GSpec == GInit /\ [][GAdd]_vars
GBounded == Bounded(top, ents, budget)
GLimit == LimitReportedIffOver(top, ents, budget)
\* must be violated: some scenario is cut off by the budget after it has read something
GSanity == ~(Extract(top, ents, budget).memlim /\ Extract(top, ents, budget).read > 0)
\* the deviation "a nested archive that fails to open is not counted" breaks the bound (must be violated)
RECURSIVE RunDev(_, _, _, _)
RunDev(es, B, i, st) ==
  IF i > Len(es) THEN st
  ELSE LET e == es[i] IN
       IF st.opened + e.size > B
         THEN RunDev(es, B, i + 1, [st EXCEPT !.memlim = TRUE])
         ELSE RunDev(es, B, i + 1, [st EXCEPT !.opened = IF e.valid THEN @ + e.size ELSE @, !.read = @ + e.size])
GDevBounded == RunDev(ents, budget, 1, [opened |-> 0, read |-> 0, memlim |-> FALSE, pkgs |-> 0]).read <= budget

-----------------------------------------------------------------------------
(* ---- (2) Facts ---- *)
Facts == ndJsonDeserialize(IOEnv.VERIF_FACTS)
FInit == l = 1 /\ top = 0 /\ ents = <<>> /\ budget = 0
FNext == l < Len(Facts) /\ l' = l + 1 /\ UNCHANGED <<top, ents, budget>>
FSpec == FInit /\ [][FNext]_vars
F == Facts[l]
FEntries == [i \in 1..Len(F.sizes) |-> [size |-> F.sizes[i], valid |-> F.valid[i]]]
Want == Extract(F.top, FEntries, F.budget)
\* the real extractor reports the memory limit exactly when the transcription does and found the packages of
\* exactly the nested archives it was allowed to read (the UncompressedBytes statistic is recorded, not judged:
\* what it counts on the rejection path is an accounting choice the property does not fix)
FactConforms == /\ F.memlim = Want.memlim
                /\ F.nested_pkgs = Want.pkgs
                /\ ~F.panicked
FactBounded == Bounded(F.top, FEntries, F.budget) /\ LimitReportedIffOver(F.top, FEntries, F.budget)
Report == (FactConforms /\ FactBounded) \/ PrintT(ToJson([n |-> l, want |-> Want]))
=============================================================================
