------------------------------ MODULE Registry ------------------------------
(***************************************************************************)
(* C19 - capability filtering and plugin name resolution are consistent.   *)
(*                                                                         *)
(* Binding (M): the registry of the real code is finite.  The harness      *)
(* (vscanpipe registry-dump) dumps it as ndjson facts; this module states  *)
(* the semantics the facts are judged against and TLC walks the facts, one *)
(* per step, evaluating every invariant at every fact.                     *)
(*                                                                         *)
(* Declarative part: Satisfies(req, cap), transcribed from the doc         *)
(* comments of plugin.OS / plugin.Network / plugin.Capabilities (NOT from  *)
(* the code of ValidateRequirements):                                      *)
(*   OS       "a specific OS type a Plugin needs to be run on"; OSUnix =   *)
(*            "needs to be run either on Linux or Mac"; OSAny = no demand  *)
(*   Network  NetworkAny = "the plugin doesn't care whether the scanner    *)
(*            has network access or not"; otherwise the plugin cares: the  *)
(*            environment must be in the stated mode (pomxml is the        *)
(*            offline-only twin of pomxmlnet)                              *)
(*   DirectFS, RunningSystem  "a plugin can't be enabled if it has more    *)
(*            requirements than what the scanning environment provides":   *)
(*            booleans are lower bounds                                    *)
(*                                                                         *)
(* Facts (field "fact"):                                                   *)
(*   plugin            one per registered plugin instance (kind fs |       *)
(*                     standalone | detector, key in the exported All,     *)
(*                     Name(), Version(), Requirements(), RequiredExtr.)   *)
(*   filter            per (capability tuple, kind): names kept by         *)
(*                     FromCapabilities / FilterByCapabilities; a second   *)
(*                     fact per pair (round = 2) holds the answer of a     *)
(*                     repeated call after the caller overwrote the first  *)
(*                     answer in place ("<nil>" / "<panic>" entries then   *)
(*                     fail FilterExact): the clause holds on every call   *)
(*   validate          per (plugin, capability tuple): did                 *)
(*                     plugin.ValidateRequirements accept                  *)
(*   registry          per kind: plugin names and group names advertised   *)
(*                     by the definition file                              *)
(*   resolve           per advertised name: what ExtractorsFromNames /     *)
(*                     DetectorsFromNames / ExtractorFromName returned     *)
(*   group             per group name that denotes exported collection(s): *)
(*                     the members of those collections                    *)
(*   enable_required   per detector: outcome of EnableRequiredExtractors   *)
(*                     on a config holding only that detector              *)
(*   validate_filtered per capability tuple: ValidatePluginRequirements on *)
(*                     a ScanConfig built from the filtered sets, before   *)
(*                     and after Scan()'s automatic enabling               *)
(***************************************************************************)
EXTENDS Integers, Sequences, FiniteSets, TLC, Json, IOUtils

Facts == ndJsonDeserialize(IOEnv.VERIF_FACTS)

VARIABLE l                    \* the fact under examination
Init == l = 1
Next == l < Len(Facts) /\ l' = l + 1
Spec == Init /\ [][Next]_l
F == Facts[l]

Range(s) == {s[i] : i \in DOMAIN s}
NoDup(s) == \A i, j \in DOMAIN s : i # j => s[i] # s[j]

-----------------------------------------------------------------------------
(* ---- declarative: when does an environment satisfy a plugin's requirements ---- *)
OSs   == {"any", "linux", "windows", "mac", "unix"}
Nets  == {"any", "offline", "online"}
Caps  == [os : OSs, net : Nets, dfs : BOOLEAN, run : BOOLEAN]     \* incl. the requirement-only values
OSOK(r, c)  == \/ r = "any"
               \/ r = "unix" /\ c \in {"linux", "mac"}
               \/ r \in {"linux", "windows", "mac"} /\ c = r
NetOK(r, c) == r = "any" \/ r = c
Satisfies(req, cap) == /\ OSOK(req.os, cap.os)
                       /\ NetOK(req.net, cap.net)
                       /\ (req.dfs => cap.dfs)
                       /\ (req.run => cap.run)

-----------------------------------------------------------------------------
(* ---- tables built once from the facts ---- *)
Kinds == {"fs", "standalone", "detector"}
Idx(what)   == {i \in DOMAIN Facts : Facts[i].fact = what}
PluginIdx   == Idx("plugin")
ResolveIdx  == Idx("resolve")
RegistryIdx == Idx("registry")
Plugins(k)  == {Facts[i] : i \in {j \in PluginIdx : Facts[j].kind = k}}
PluginById  == [id \in {Facts[i].id : i \in PluginIdx} |-> Facts[CHOOSE i \in PluginIdx : Facts[i].id = id]]
Names(k)    == {p.name : p \in Plugins(k)}
Extractors  == Plugins("fs") \cup Plugins("standalone")
\* fs and standalone extractors share one lookup namespace: EnableRequiredExtractors (and the CLI)
\* look a name up in both lists and enable whatever either returns.  Detector names are looked up
\* in the detector list only.
SharesNamespace(a, b) == a = b \/ {a, b} = {"fs", "standalone"}
ResolveOf(k, n) == {Facts[i] : i \in {j \in ResolveIdx : Facts[j].kind = k /\ Facts[j].name = n}}

-----------------------------------------------------------------------------
(* ---- the property, one invariant per clause; each speaks about the current fact ---- *)
\* well-formed facts (a harness defect, not a verdict, if this fails)
WellFormed ==
  /\ F.fact \in {"plugin", "filter", "validate", "registry", "resolve", "group", "enable_required", "enable_required_set", "validate_filtered"}
  /\ F.fact = "plugin" => F.req \in Caps /\ F.kind \in Kinds
  /\ F.fact \in {"filter", "validate", "validate_filtered"} => F.cap \in Caps

\* filtering keeps exactly the plugins whose stated requirements the environment satisfies
FilterExact ==
  F.fact = "filter" =>
    LET want == {p.name : p \in {q \in Plugins(F.kind) : Satisfies(q.req, F.cap)}} IN
    /\ Range(F.from_caps) = want /\ Len(F.from_caps) = Cardinality(want)
    /\ Range(F.filter_all) = want /\ Len(F.filter_all) = Cardinality(want)

\* ValidateRequirements accepts exactly when the environment satisfies the requirements
ValidateExact == F.fact = "validate" => (F.ok <=> Satisfies(PluginById[F.id].req, F.cap))

\* names are unique within each registry and across registries that share a lookup namespace;
\* a plugin is registered under its own name
NamesUnique ==
  F.fact = "plugin" =>
    /\ \A i \in PluginIdx : (Facts[i].id # F.id /\ SharesNamespace(Facts[i].kind, F.kind)) => Facts[i].name # F.name
    /\ F.key = F.name
\* group names do not shadow plugin names of the same lookup namespace
GroupNamesDistinct ==
  F.fact = "registry" => /\ NoDup(F.group_names) /\ NoDup(F.plugin_names)
                         /\ Range(F.plugin_names) = Names(F.kind)
                         /\ \A g \in Range(F.group_names) : g \notin Range(F.plugin_names) =>
                              \A k \in Kinds : SharesNamespace(k, F.kind) => g \notin Names(k)

\* every advertised name resolves: to registered plugins of that registry, without duplicates
AdvertisedResolves ==
  /\ F.fact = "resolve" => /\ F.ok
                           /\ NoDup(F.resolved)
                           /\ Range(F.resolved) \subseteq Names(F.kind)
  /\ F.fact = "registry" => \A n \in Range(F.plugin_names) \cup Range(F.group_names) : ResolveOf(F.kind, n) # {}

\* resolving a plugin's own name returns that plugin (and only it)
OwnNameReturnsPlugin ==
  /\ F.fact = "plugin" => \E r \in ResolveOf(F.kind, F.name) :
                             /\ r.ok /\ r.resolved = <<F.name>> /\ r.resolved_types = <<F.gotype>>
                             /\ r.single.tried => (r.single.ok /\ r.single.name = F.name)
  /\ (F.fact = "resolve" /\ F.adv = "plugin") => F.resolved = <<F.name>>

\* a group name resolves to exactly the members of the exported collection(s) it denotes
GroupExact ==
  F.fact = "group" => \E r \in ResolveOf(F.kind, F.name) : r.ok /\ Range(r.resolved) = Range(F.members)

\* every extractor a detector requires resolves and is enabled automatically
RequiredEnabled ==
  /\ F.fact = "enable_required" =>
       /\ F.ok
       /\ Range(PluginById[F.id].required) \subseteq Range(F.fs) \cup Range(F.standalone)
       /\ Range(F.fs) \subseteq Names("fs") /\ Range(F.standalone) \subseteq Names("standalone")
  /\ (F.fact = "plugin" /\ F.kind = "detector") =>
       \A e \in Range(F.required) : \E x \in Extractors : x.name = e
\* ... also when several detectors with different requirements are configured together (one EnableRequiredExtractors
\* call has to enable all of them, each once)
RequiredEnabledTogether ==
  F.fact = "enable_required_set" =>
     /\ F.ok
     /\ \A id \in Range(F.ids) : Range(PluginById[id].required) \subseteq Range(F.fs) \cup Range(F.standalone)
     /\ NoDup(F.fs) /\ NoDup(F.standalone)
     /\ Range(F.fs) \subseteq Names("fs") /\ Range(F.standalone) \subseteq Names("standalone")
\* ... and enabling it cannot break requirement validation: whatever environment admits the detector
\* admits the extractors it requires
RequiredAdmissible ==
  (F.fact = "plugin" /\ F.kind = "detector") =>
     \A cap \in Caps : Satisfies(F.req, cap) =>
        \A e \in Range(F.required) : \A x \in Extractors : x.name = e => Satisfies(x.req, cap)

\* a scan configured from the filtered sets never fails requirement validation
FilteredValidates == F.fact = "validate_filtered" => F.ok /\ F.enable_ok /\ F.after_enable_ok

\* the dump is complete: every (kind, capability tuple) and every (plugin, capability tuple) is present
Complete ==
  l = 1 =>
    /\ Cardinality({<<Facts[i].kind, Facts[i].cap>> : i \in Idx("filter")}) = 3 * Cardinality(Caps)
    /\ Cardinality({<<Facts[i].id, Facts[i].cap>> : i \in Idx("validate")}) = Cardinality(PluginIdx) * Cardinality(Caps)
    /\ Cardinality(Idx("validate")) = Cardinality(PluginIdx) * Cardinality(Caps)
    /\ Cardinality({Facts[i].cap : i \in Idx("validate_filtered")}) = Cardinality(Caps)
    /\ Cardinality(RegistryIdx) = 3
    /\ Cardinality(Idx("enable_required")) = Cardinality(Plugins("detector"))
    /\ Idx("enable_required_set") # {}
    /\ Cardinality({Facts[i].id : i \in PluginIdx}) = Cardinality(PluginIdx)

-----------------------------------------------------------------------------
(* ---- reporting cfg: never fails, prints every (clause, fact) that does ---- *)
Clauses == <<[n |-> "FilterExact", v |-> FilterExact], [n |-> "ValidateExact", v |-> ValidateExact],
             [n |-> "NamesUnique", v |-> NamesUnique], [n |-> "GroupNamesDistinct", v |-> GroupNamesDistinct],
             [n |-> "AdvertisedResolves", v |-> AdvertisedResolves], [n |-> "OwnNameReturnsPlugin", v |-> OwnNameReturnsPlugin],
             [n |-> "GroupExact", v |-> GroupExact], [n |-> "RequiredEnabled", v |-> RequiredEnabled],
             [n |-> "RequiredEnabledTogether", v |-> RequiredEnabledTogether],
             [n |-> "RequiredAdmissible", v |-> RequiredAdmissible], [n |-> "FilteredValidates", v |-> FilteredValidates]>>
Report == \A i \in DOMAIN Clauses :
            Clauses[i].v \/ PrintT(ToJson([clause |-> Clauses[i].n, n |-> l]))

(* ---- sanity (must be violated): some plugin is rejected by some environment and kept by another ---- *)
Sanity == ~(F.fact = "validate" /\ ~F.ok /\ \E i \in Idx("validate") : Facts[i].id = F.id /\ Facts[i].ok)
=============================================================================
