-------------------------- MODULE SideEffectsFacts --------------------------
(***************************************************************************)
(* Registry facts consumed by SideEffects.tla.  THIS FILE IS THE STATIC,    *)
(* REPRESENTATIVE INSTANCE (one extractor per requirement class) used to    *)
(* model-check the specification on its own.  For the real check            *)
(* tools/c06.py asks the harness (`vmut list`) for the facts of the REAL    *)
(* registry (extractor/filesystem/list: names, Requirements(), production   *)
(* path classes accepted by FileRequired, fixtures) and generates a module  *)
(* of the same name and shape in a scratch directory.                       *)
(***************************************************************************)
Facts == <<
  [name |-> "os/dpkg",               nfmt |-> 2, nfix |-> 2, os |-> "any",     directfs |-> FALSE, companion |-> FALSE, offline |-> TRUE],
  [name |-> "os/rpm",                nfmt |-> 3, nfix |-> 1, os |-> "any",     directfs |-> FALSE, companion |-> FALSE, offline |-> TRUE],
  [name |-> "containers/containerd", nfmt |-> 1, nfix |-> 1, os |-> "any",     directfs |-> TRUE,  companion |-> TRUE,  offline |-> TRUE],
  [name |-> "dotnet/pe",             nfmt |-> 2, nfix |-> 1, os |-> "windows", directfs |-> FALSE, companion |-> FALSE, offline |-> TRUE],
  [name |-> "os/homebrew",           nfmt |-> 1, nfix |-> 1, os |-> "mac",     directfs |-> FALSE, companion |-> FALSE, offline |-> TRUE],
  [name |-> "os/snap",               nfmt |-> 1, nfix |-> 1, os |-> "linux",   directfs |-> FALSE, companion |-> FALSE, offline |-> TRUE],
  [name |-> "java/pomxmlnet",        nfmt |-> 1, nfix |-> 1, os |-> "any",     directfs |-> TRUE,  companion |-> FALSE, offline |-> FALSE]
>>
=============================================================================
