----------------------------- MODULE PackageDoc -----------------------------
(***************************************************************************)
(* C03 - well-formed package databases are reported completely and         *)
(* exactly.                                                                *)
(*                                                                         *)
(* State: a package database / lockfile *under construction*.              *)
(*   recs    the records in document order; a record is an id of the table *)
(*           IdN/IdV (name class, version class) plus the installed flag   *)
(*           (only dpkg has the notion "listed but not installed").        *)
(*   layout  the serialisation decisions the format leaves free: line      *)
(*           ending, what follows the last line, blank lines between       *)
(*           records, comments, unrelated fields/sections, distribution of *)
(*           the records over the format's sections, format variant.       *)
(* The document is built by AddRecord* ; Close ; ChooseLayout and consumed *)
(* by Extract.                                                             *)
(*                                                                         *)
(* Declarative part: Installed / Expect - "a generator that knows what it  *)
(* wrote": the bag of (name, version) of the records marked installed.     *)
(* Operational part: RefParse - a reference record-loop over the abstract  *)
(* line stream Tokens (stanza formats: pending record flushed by a blank   *)
(* line *or by end of file*; line/array formats: one record per item),     *)
(* in the shape of the extractors' loops.  TLC checks that the record loop *)
(* meets the declarative statement for every document and every layout     *)
(* (NoDrop, NoDup, NoInvent); with FlushAtEOF = FALSE it must not.         *)
(*                                                                         *)
(* The concrete syntax (12 renderers) and the concrete strings of every    *)
(* name/version class live in harness/cmd/vdocs; every terminal state is   *)
(* emitted as one JSON case and replayed into the real extractors.         *)
(***************************************************************************)
EXTENDS Integers, Sequences, FiniteSets, TLC, Json

CONSTANTS Formats,    \* subset of AllFormats explored by this cfg
          NIds,       \* record ids 1..NIds of the table below are used
          MaxRecs,    \* max records per document
          MaxBlank,   \* extra blank lines between two records: 0..MaxBlank
          MaxExtra,   \* unrelated fields / sections level: 0..MaxExtra (<= 2)
          FlushAtEOF, \* TRUE in every real cfg; FALSE = the classic record-loop defect (sanity)
          Reduce      \* TRUE (quick tier): drop two layout products (comments x section policy; v2 x eol/eof) - see Layouts

AllFormats == {"dpkg", "apk", "requirements", "gomod", "cargolock", "packagelock", "composerlock",
               "gemfilelock", "gradlelockfile", "poetrylock", "pipfilelock", "packageslockjson"}
ASSUME Formats \subseteq AllFormats /\ NIds \in 1..7 /\ MaxExtra \in 0..2

\* id -> (name class, version class).  Ids 1 and 5 share the name, 1 and 4 share the version,
\* 2 and 5 share the version: merging by name or by version alone is observable.
IdN == <<1, 2, 3, 4, 1, 5, 6>>
IdV == <<1, 2, 3, 1, 2, 4, 5>>

-----------------------------------------------------------------------------
(* ---- per-format capability table: which layout atoms the format permits ---- *)
\* crlf      CRLF line ends accepted by the format's own tools
\* trailing  what may follow the last line: "none" no end-of-line at all, "nl" the line is
\*           terminated, "blank" one more empty line
\* comments  "line" = full-line comments, "inline" = comment after a record on the same line
\* notinst   the format can list a package that is not installed
\* multiver  the same name may be listed with two versions
\* keyed     records of one section are keys of one map (same name twice in a section impossible)
\* sects     number of sections records can be distributed over
\* nested    the "second section" is "inside another record" (npm: node_modules of a package)
\* variants  format versions
\* stanza    records are multi-line stanzas separated by blank lines
AllTrail == {"none", "nl", "blank"}
Cap(f) ==
  CASE f = "dpkg" ->
         [crlf |-> FALSE, trailing |-> {"nl", "blank"}, comments |-> {"none"}, notinst |-> TRUE,
          multiver |-> FALSE, keyed |-> FALSE, sects |-> 1, variants |-> {"-"}, stanza |-> TRUE, nested |-> FALSE]
    [] f = "apk" ->
         [crlf |-> FALSE, trailing |-> {"nl", "blank"}, comments |-> {"none"}, notinst |-> FALSE,
          multiver |-> FALSE, keyed |-> FALSE, sects |-> 1, variants |-> {"-"}, stanza |-> TRUE, nested |-> FALSE]
    [] f = "requirements" ->
         [crlf |-> TRUE, trailing |-> AllTrail, comments |-> {"none", "line", "inline"}, notinst |-> FALSE,
          multiver |-> FALSE, keyed |-> FALSE, sects |-> 2, variants |-> {"-"}, stanza |-> FALSE, nested |-> FALSE]
    [] f = "gomod" ->
         [crlf |-> TRUE, trailing |-> AllTrail, comments |-> {"none", "line", "inline"}, notinst |-> FALSE,
          multiver |-> FALSE, keyed |-> FALSE, sects |-> 2, variants |-> {"-"}, stanza |-> FALSE, nested |-> FALSE]
    [] f = "cargolock" ->
         [crlf |-> TRUE, trailing |-> AllTrail, comments |-> {"none", "line", "inline"}, notinst |-> FALSE,
          multiver |-> TRUE, keyed |-> FALSE, sects |-> 1, variants |-> {"-"}, stanza |-> FALSE, nested |-> FALSE]
    [] f = "packagelock" ->
         [crlf |-> TRUE, trailing |-> AllTrail, comments |-> {"none"}, notinst |-> FALSE,
          multiver |-> TRUE, keyed |-> TRUE, sects |-> 2, variants |-> {"v1", "v2", "v3"}, stanza |-> FALSE, nested |-> TRUE]
    [] f = "composerlock" ->
         [crlf |-> TRUE, trailing |-> AllTrail, comments |-> {"none"}, notinst |-> FALSE,
          multiver |-> FALSE, keyed |-> FALSE, sects |-> 2, variants |-> {"-"}, stanza |-> FALSE, nested |-> FALSE]
    [] f = "gemfilelock" ->
         [crlf |-> TRUE, trailing |-> AllTrail, comments |-> {"none"}, notinst |-> FALSE,
          multiver |-> FALSE, keyed |-> FALSE, sects |-> 2, variants |-> {"-"}, stanza |-> FALSE, nested |-> FALSE]
    [] f = "gradlelockfile" ->
         [crlf |-> TRUE, trailing |-> AllTrail, comments |-> {"none", "line"}, notinst |-> FALSE,
          multiver |-> TRUE, keyed |-> FALSE, sects |-> 1, variants |-> {"-"}, stanza |-> FALSE, nested |-> FALSE]
    [] f = "poetrylock" ->
         [crlf |-> TRUE, trailing |-> AllTrail, comments |-> {"none", "line", "inline"}, notinst |-> FALSE,
          multiver |-> TRUE, keyed |-> FALSE, sects |-> 1, variants |-> {"-"}, stanza |-> FALSE, nested |-> FALSE]
    [] f = "pipfilelock" ->
         [crlf |-> TRUE, trailing |-> AllTrail, comments |-> {"none"}, notinst |-> FALSE,
          multiver |-> FALSE, keyed |-> TRUE, sects |-> 2, variants |-> {"-"}, stanza |-> FALSE, nested |-> FALSE]
    [] f = "packageslockjson" ->
         [crlf |-> TRUE, trailing |-> AllTrail, comments |-> {"none"}, notinst |-> FALSE,
          multiver |-> TRUE, keyed |-> TRUE, sects |-> 2, variants |-> {"-"}, stanza |-> FALSE, nested |-> FALSE]

-----------------------------------------------------------------------------
VARIABLES fmt,      \* the format of the document
          recs,     \* records in document order: seq of [id, n, v, inst]
          layout,   \* chosen layout (NoLayout until chosen)
          phase,    \* "build" -> "closed" -> "laid" -> "done"
          reported  \* result of Extract: seq of record positions
vars == <<fmt, recs, layout, phase, reported>>

NoLayout == [eol |-> "LF", trailing |-> "nl", blank |-> 0, comments |-> "none", extra |-> 0,
             sect |-> 0, variant |-> "-"]

\* section / parent of the k-th record under section policy s
\*   s = 0  everything in the first section (top level)
\*   s = 1  even positions go to the second section (for nested formats: under the preceding record)
\*   s = 2  positions >= 2 go to the second section (nested formats: all under record 1), and the
\*          second section is written *before* the first where the format leaves the order free
\*   s = 3  every record is in the second section, the first one is empty or absent
\*          (nested formats: a chain, record k inside record k-1)
Place(k, s) == IF s = 0 THEN 0
               ELSE IF s = 1 THEN (IF k % 2 = 0 THEN k - 1 ELSE 0)
               ELSE IF s = 2 THEN (IF k >= 2 THEN 1 ELSE 0)
               ELSE k - 1
InSecond(k, s) == IF s = 3 THEN TRUE ELSE Place(k, s) # 0

\* in keyed formats the names inside one section/parent are unique and a package is not nested in itself
KeyClash(rs, s) ==
  \E j, k \in 1..Len(rs) :
     \/ j < k /\ rs[j].n = rs[k].n /\ Place(j, s) = Place(k, s)
     \/ Place(k, s) = j /\ rs[j].n = rs[k].n

\* keyed formats without nesting: the two sections are two maps, a name occurs at most once in each
SectClash(rs, s) == \E j, k \in 1..Len(rs) : j < k /\ rs[j].n = rs[k].n /\ InSecond(j, s) = InSecond(k, s)

Layouts(f, rs) ==
  LET c == Cap(f)
      len == Len(rs) IN
  {l \in [eol : IF c.crlf THEN {"LF", "CRLF"} ELSE {"LF"},
          trailing : c.trailing,
          blank : IF len >= 2 THEN 0..MaxBlank ELSE {0},
          comments : c.comments,
          extra : 0..MaxExtra,
          sect : IF c.sects = 1 THEN {0}
                 ELSE {0} \cup (IF len >= 2 THEN {1, 2} ELSE {})
                          \cup (IF (c.nested /\ len >= 3) \/ (~c.nested /\ len >= 1) THEN {3} ELSE {}),
          variant : c.variants] :
     /\ c.nested => ~KeyClash(rs, l.sect)
     /\ (c.keyed /\ ~c.nested) => ~SectClash(rs, l.sect)
     /\ Reduce => /\ l.comments # "none" => l.sect = 0
                  /\ l.variant = "v2" => l.eol = "LF" /\ l.trailing = "nl"}

-----------------------------------------------------------------------------
(* ---- declarative: what must be reported ---- *)
Installed == {k \in 1..Len(recs) : recs[k].inst}
RECURSIVE ExpectFrom(_)
ExpectFrom(k) == IF k > Len(recs) THEN <<>>
                 ELSE (IF recs[k].inst THEN <<(<<recs[k].n, recs[k].v>>)>> ELSE <<>>) \o ExpectFrom(k + 1)
Expect == ExpectFrom(1)

-----------------------------------------------------------------------------
(* ---- operational: the abstract line stream and the reference record loop ---- *)
Tok(kind, i) == [k |-> kind, idx |-> i]
Blanks(n) == [i \in 1..n |-> Tok("blank", 0)]
RECURSIVE Body(_, _, _)
Body(k, l, c) ==
  IF k > Len(recs) THEN <<>>
  ELSE (IF l.comments = "line" THEN <<Tok("cmt", 0)>> ELSE <<>>)
       \o <<Tok("rec", k)>>
       \o (IF l.extra = 2 THEN <<Tok("junk", 0)>> ELSE <<>>)
       \o (IF k < Len(recs) THEN Blanks((IF c.stanza THEN 1 ELSE 0) + l.blank) ELSE <<>>)
       \o Body(k + 1, l, c)
Tokens(l, c) == (IF l.extra >= 1 THEN <<Tok("junk", 0)>> ELSE <<>>)
                \o Body(1, l, c)
                \o (IF l.trailing = "blank" THEN Blanks(1) ELSE <<>>)
                \o <<Tok("eof", 0)>>

Flush(st) == IF st.pend = 0 THEN st
             ELSE [pend |-> 0, out |-> IF recs[st.pend].inst THEN Append(st.out, st.pend) ELSE st.out]
RECURSIVE RefParse(_, _, _)
RefParse(toks, st, stanza) ==
  IF toks = <<>> THEN st.out
  ELSE LET t == Head(toks) IN
       RefParse(Tail(toks),
                CASE t.k = "rec" -> IF stanza THEN [st EXCEPT !.pend = t.idx]   \* a second record without separator would overwrite
                                    ELSE Flush([st EXCEPT !.pend = t.idx])
                  [] t.k = "blank" -> IF stanza THEN Flush(st) ELSE st
                  [] t.k = "eof" -> IF FlushAtEOF THEN Flush(st) ELSE st
                  [] OTHER -> st,
                stanza)

-----------------------------------------------------------------------------
(* ---- construction of the document ---- *)
Init == /\ fmt \in Formats /\ recs = <<>> /\ layout = NoLayout /\ phase = "build" /\ reported = <<>>

Compatible(rs, i) ==
  /\ \A k \in 1..Len(rs) : rs[k].id # i                                  \* N *distinct* packages
  /\ Cap(fmt).multiver \/ \A k \in 1..Len(rs) : rs[k].n # IdN[i]

AddRecord(i, inst) ==
  /\ phase = "build" /\ Len(recs) < MaxRecs /\ Compatible(recs, i)
  /\ inst \/ Cap(fmt).notinst
  /\ recs' = Append(recs, [id |-> i, n |-> IdN[i], v |-> IdV[i], inst |-> inst])
  /\ UNCHANGED <<fmt, layout, phase, reported>>
Close == /\ phase = "build" /\ phase' = "closed" /\ UNCHANGED <<fmt, recs, layout, reported>>
ChooseLayout(l) == /\ phase = "closed" /\ layout' = l /\ phase' = "laid" /\ UNCHANGED <<fmt, recs, reported>>
Extract == /\ phase = "laid"
           /\ reported' = RefParse(Tokens(layout, Cap(fmt)), [pend |-> 0, out |-> <<>>], Cap(fmt).stanza)
           /\ phase' = "done"
           /\ UNCHANGED <<fmt, recs, layout>>

Next == \/ \E i \in 1..NIds, inst \in BOOLEAN : AddRecord(i, inst)
        \/ Close
        \/ (phase = "closed" /\ \E l \in Layouts(fmt, recs) : ChooseLayout(l))   \* guard first: the set is large
        \/ Extract
Spec == Init /\ [][Next]_vars

Terminal == phase = "done"

-----------------------------------------------------------------------------
(* ---- properties ---- *)
Count(s, x) == Cardinality({i \in 1..Len(s) : s[i] = x})
NoDrop == Terminal => \A k \in Installed : Count(reported, k) >= 1
NoDup == Terminal => \A k \in 1..Len(recs) : Count(reported, k) <= 1
NoInvent == Terminal => \A i \in 1..Len(reported) : reported[i] \in Installed
\* C03 on the model: the reported bag is exactly the bag of installed records
NoDropNoDupNoInvent == Terminal => \A k \in 1..Len(recs) : Count(reported, k) = (IF k \in Installed THEN 1 ELSE 0)
\* distinct records denote distinct (name, version) pairs, so the bag of pairs has no repetition
PairsDistinct == \A j, k \in 1..Len(recs) : j # k => <<recs[j].n, recs[j].v>> # <<recs[k].n, recs[k].v>>
\* only permitted layout atoms are ever chosen
LayoutPermitted == phase \in {"laid", "done"} =>
                     /\ layout.eol = "CRLF" => Cap(fmt).crlf
                     /\ layout.trailing \in Cap(fmt).trailing
                     /\ layout.comments \in Cap(fmt).comments
                     /\ \A k \in 1..Len(recs) : ~recs[k].inst => Cap(fmt).notinst

\* case emission for replay (binding A): one case per terminal state
Case == [fmt |-> fmt, records |-> recs, layout |-> layout, expect |-> Expect]
Emit == Terminal => PrintT(ToJson(Case))

\* sanity (must be violated): a document with a not-installed record in last position, two reported
\* records and a non-default layout is reachable
Sanity == ~(Terminal /\ Len(recs) >= 3 /\ ~recs[Len(recs)].inst /\ Len(reported) >= 2
            /\ layout.blank > 0 /\ layout.trailing # "blank")
=============================================================================
