---------------------------- MODULE MutationPlan ----------------------------
(***************************************************************************)
(* C02(a) - no file content can crash or hang a built-in extractor.        *)
(*                                                                         *)
(* There is no specification of the 57 parsers to model-check and TLC      *)
(* cannot enumerate byte strings.  What this module contributes is a       *)
(* BOUNDED GRAMMAR OF STRUCTURE-AWARE MUTATIONS, written as a state        *)
(* machine, which TLC enumerates exhaustively; every plan it reaches is    *)
(* emitted as a JSON case.  The product with the fixtures (every file      *)
(* <= 256 KiB under each extractor's testdata) and with the production     *)
(* paths each extractor requires is taken on the Go side, which applies    *)
(* the plan to the fixture bytes and calls the real Extract under          *)
(* recover + watchdog + allocation budget.                                 *)
(*                                                                         *)
(* State: <<ops>>, the sequence of mutation operators applied to a         *)
(* fixture, then the abstract Extract step.  The property: the only        *)
(* outcome class of Extract is "Returned" (an inventory and/or an error,   *)
(* in bounded time and memory).  "Panic", "Timeout" and "OOM" are not      *)
(* actions of this specification: an observation of the real code in one   *)
(* of those classes is a behaviour the specification does not admit.       *)
(*                                                                         *)
(* Level: exploration.  Spans are addressed on a grid (i/G of the file),   *)
(* token classes by {first, last, all} occurrences and one at a time (n-th); see harness/cmd/vmut/  *)
(* mutate.go (applyOp) for the byte-level meaning of every operator.  The  *)
(* harness clamps every mutated file to MaxOut bytes.                      *)
(***************************************************************************)
EXTENDS Integers, Sequences, FiniteSets, TLC, Json

CONSTANTS G,            \* span grid of the fine alphabet (depth-1 plans): positions 0..G
          GSwap,        \* grid for SwapSpans in the fine alphabet
          G2,           \* span grid of the coarse alphabet (plans of depth 2)
          Sixteenths,   \* Truncate(i/16): the i of the fine alphabet
          HeadWords,    \* 32-bit words of the first/last 64 bytes edited by HeaderEdit (fine alphabet)
          NestDepths,   \* Nest(n)
          Nth,          \* ReplaceTokenClass on the n-th occurrence alone (0-based): the n of the fine alphabet
          MaxDepth,     \* 1: plans of one operator; 2: also every pair over the coarse alphabet
          Members       \* archive-aware plans: indices of the zip/jar/egg/whl entries whose content is mutated

\* one shape for every operator, so that plans are plain JSON: integers i,j,k and strings x,y,z
Op(o, i, j, k, x, y, z) == [op |-> o, i |-> i, j |-> j, k |-> k, x |-> x, y |-> y, z |-> z]

Sels == {"first", "last", "all"}
TokenRepl ==  \* ReplaceTokenClass(c -> r): token class c, replacement r
  [digits  |-> {"digits20", "minus1", "none", "longline"},   \* digit run <-> 20-digit run, -1, removed, 4096-byte run
   quote   |-> {"none", "dup", "other", "nul"},               \* quote removed / doubled / ' <-> " / NUL
   open    |-> {"none", "dup", "flip", "nul"},                \* { [ < (   removed / doubled / closing / NUL
   close   |-> {"none", "dup", "flip", "nul"},                \* } ] > )
   newline |-> {"cr", "crlf", "none", "nul", "longline"},     \* LF -> CR, CRLF, joined lines, NUL, very long line
   sep     |-> {"none", "dup", "nul", "badutf8"},             \* : = ,   removed / doubled / NUL / invalid UTF-8
   slash   |-> {"none", "dup", "nul"},                        \* / \   removed / doubled / NUL
   punct   |-> {"none", "dup"},                                \* @ # $ % & * + ; ! ? | ~ ^   removed / doubled
   qstring |-> {"null"},                                       \* a double-quoted string (quotes included) becomes the bare word null
   innerobj|-> {"null"},                                       \* an innermost {...} group becomes null (e.g. an array element)
   word    |-> {"none", "dup", "longline", "lower", "upper"}]                   \* run of letters, digits, _ - .  (a key, a name, a version) blanked / doubled / 4096 bytes / letter case changed (keywords matched in one place case-insensitively and in another not)
Classes == DOMAIN TokenRepl
\* one occurrence at a time (the n-th token of the class): what is done to it
NthRepl(c) == IF c = "word" THEN {"none", "longline", "lower", "upper"} ELSE IF c \in {"qstring", "innerobj"} THEN {"null"} ELSE IF c = "digits" THEN {"none", "digits20"} ELSE {"none"}

Literals == {"null", "array", "object", "quote", "zero", "true", "tilde", "lt", "dashes", "string"}
NestKinds == {"json-array", "json-object", "xml", "yaml-indent", "toml-table", "toml-inline", "paren"}
ZipFields == [lfh  |-> {"method", "crc", "csize", "usize", "namelen", "extralen"},
              cdh  |-> {"method", "csize", "usize", "namelen", "extralen", "commentlen", "offset"},
              eocd |-> {"entries", "cdsize", "cdoffset", "commentlen"}]
Vals == {"zero", "ones", "max31", "be31"}

Spans(g) == {<<a, b>> \in (0..g) \X (0..g) : a < b}
Triples(g) == {<<a, b, c>> \in (0..g) \X (0..g) \X (0..g) : a < b /\ b < c}

FineOps ==
       {Op("Truncate", i, 16, 0, "", "", "") : i \in Sixteenths}
  \cup {Op("DropSpan", s[1], s[2], G, "", "", "") : s \in Spans(G)}
  \cup {Op("DupSpan", s[1], s[2], G, "", "", "") : s \in Spans(G)}
  \cup {Op("SwapSpans", t[1], t[2], t[3], "", "", ToString(GSwap)) : t \in Triples(GSwap)}
  \cup UNION {{Op("ReplaceTokenClass", 0, 0, 0, c, r, s) : r \in TokenRepl[c], s \in Sels} : c \in Classes}
  \cup UNION {{Op("ReplaceTokenClass", n, 0, 0, c, r, "nth") : n \in Nth, r \in NthRepl(c)} : c \in Classes}
  \cup {Op("Empty", 0, 0, 0, "", "", "")}
  \cup {Op("Literal", 0, 0, 0, l, "", "") : l \in Literals}                          \* the whole file is one degenerate document
  \cup {Op("ValueLiteral", n, 0, 0, l, "", "") : n \in 0..7, l \in {"quote", "apos", "null", "empty"}}  \* the value of the n-th key=value / key: value line
  \cup {Op("ShrinkToken", n, h, t, "word", "", "") : n \in 0..31, h \in 1..8, t \in 1..2}  \* the n-th word longer than h+t keeps its first h and last t bytes (markers whose prefix and suffix meet)
  \cup {Op("WhitespaceOnly", 0, 0, 0, w, "", "") : w \in {"spaces", "newlines", "crlf-tabs"}}
  \cup {Op("Nest", n, 0, 0, k, m, "") : n \in NestDepths, k \in NestKinds, m \in {"bare", "wrap"}}
  \cup {Op("HeaderEdit", w, 0, 0, r, v, "") : w \in HeadWords, r \in {"head", "tail"}, v \in Vals}
  \cup UNION {{Op("ZipEdit", 0, 0, 0, z, f, v) : f \in ZipFields[z], v \in Vals} : z \in DOMAIN ZipFields}

\* the coarse alphabet: a sub-grammar of the fine one, used for both positions of a depth-2 plan
CoarseOps ==
       {Op("Truncate", i, 16, 0, "", "", "") : i \in {4, 8, 12}}
  \cup {Op("DropSpan", s[1], s[2], G2, "", "", "") : s \in Spans(G2)}
  \cup {Op("DupSpan", s[1], s[2], G2, "", "", "") : s \in Spans(G2)}
  \cup {Op("SwapSpans", 0, 1, 2, "", "", "2")}
  \cup {Op("ReplaceTokenClass", 0, 0, 0, c, "none", "all") : c \in Classes}
  \cup {Op("ReplaceTokenClass", 0, 0, 0, c, "nul", "all") : c \in {"quote", "open", "close", "sep"}}
  \cup {Op("ReplaceTokenClass", n, 0, 0, "word", "none", "nth") : n \in {0, 1, 2, 3}}
  \cup {Op("ReplaceTokenClass", 0, 0, 0, "digits", "digits20", "all"), Op("ReplaceTokenClass", 0, 0, 0, "newline", "longline", "first")}
  \cup {Op("Nest", 1000, 0, 0, k, "wrap", "") : k \in {"json-array", "json-object", "xml", "toml-inline"}}
  \cup {Op("HeaderEdit", w, 0, 0, "head", "ones", "") : w \in {0, 1, 2, 4, 8}}
  \cup {Op("ZipEdit", 0, 0, 0, "cdh", f, "ones") : f \in {"usize", "namelen", "offset"}}
  \cup {Op("ZipEdit", 0, 0, 0, "eocd", f, "ones") : f \in {"entries", "cdoffset"}}

\* operators that ignore what came before them make sense only in first position,
\* and nothing is worth applying to an empty / whitespace-only file
Absorbing(o) == o.op \in {"Empty", "WhitespaceOnly", "Literal"} \/ (o.op = "Nest" /\ o.y = "bare")
Terminal1(o) == o.op \in {"Empty", "WhitespaceOnly", "Literal"}

\* The only outcome class the specification admits. "Returned" = Extract comes back, within the time and
\* memory budget, with an inventory and/or an error, AND the inventory is one the engine can consume:
\* no nil package or finding entry, and ToPURL of every package returns (filesystem.runExtractor and
\* scalibr.Scan dereference every entry, also next to an error). The harness reports Panic, Timeout,
\* OOM and BadInventory for the behaviours this specification does not have.
Outcomes == {"Returned"}

\* operators applied INSIDE an archive member (to its decompressed content, which is then re-packed):
\* the coarse alphabet plus the degenerate contents of a metadata file
MemberOps == CoarseOps \cup {Op("Empty", 0, 0, 0, "", "", "")}
             \cup {Op("ValueLiteral", n, 0, 0, l, "", "") : n \in 0..3, l \in {"empty", "quote"}}
             \cup {Op("Truncate", i, 16, 0, "", "", "") : i \in {1, 2}}

VARIABLES member,   \* -1: the operators act on the whole file; k >= 0: on the content of the k-th archive entry
          ops,      \* the plan: sequence of operators
          phase,    \* "plan" | "mutated" | "extracted"
          outcome   \* "none" or an element of Outcomes
vars == <<member, ops, phase, outcome>>

Init == member = -1 /\ ops = <<>> /\ phase = "plan" /\ outcome = "none"

\* archive-aware plan: one operator of MemberOps inside entry k (metadata inside jars, eggs, wheels)
InMember(k, o) == /\ phase = "plan" /\ ops = <<>> /\ member = -1 /\ MaxDepth >= 1
                  /\ member' = k /\ ops' = <<o>> /\ UNCHANGED <<phase, outcome>>

\* first operator: any operator of the fine alphabet (or of the coarse one when pairs are explored)
FirstOps == FineOps \cup (IF MaxDepth >= 2 THEN CoarseOps ELSE {})
AddFirst(o) == /\ phase = "plan" /\ ops = <<>> /\ MaxDepth >= 1
               /\ ops' = <<o>> /\ UNCHANGED <<member, phase, outcome>>
\* second operator: both operators from the coarse alphabet
AddSecond(o) == /\ phase = "plan" /\ Len(ops) = 1 /\ MaxDepth >= 2 /\ member = -1
                /\ ops[1] \in CoarseOps /\ ~Terminal1(ops[1]) /\ ~Absorbing(o)
                /\ o # ops[1] \/ o.op \in {"DupSpan", "DropSpan", "Truncate", "Nest"}   \* repeating an idempotent operator adds nothing
                /\ ops' = Append(ops, o) /\ UNCHANGED <<member, phase, outcome>>
\* the plan is applied to a fixture (Go side: every fixture x every required path)
Apply == /\ phase = "plan" /\ phase' = "mutated" /\ UNCHANGED <<member, ops, outcome>>
\* the abstract Extract step: it returns (inventory and/or error)
Extract == /\ phase = "mutated" /\ phase' = "extracted"
           /\ \E r \in Outcomes : outcome' = r
           /\ UNCHANGED <<member, ops>>

Next == \/ \E o \in FirstOps : AddFirst(o)
        \/ \E o \in CoarseOps : AddSecond(o)
        \/ \E k \in Members : \E o \in MemberOps : InMember(k, o)
        \/ Apply \/ Extract
Spec == Init /\ [][Next]_vars

-----------------------------------------------------------------------------
TypeOK == /\ phase \in {"plan", "mutated", "extracted"}
          /\ Len(ops) <= MaxDepth
          /\ member \in {-1} \cup Members
          /\ member >= 0 => Len(ops) = 1 /\ ops[1] \in MemberOps
          /\ \A n \in 1..Len(ops) : ops[n] \in FineOps \cup CoarseOps \cup MemberOps
          /\ Len(ops) = 2 => ops[1] \in CoarseOps /\ ops[2] \in CoarseOps
\* the property on the model: extraction of any mutated file returns
OnlyReturned == phase = "extracted" => outcome = "Returned"
CoarseIsSubGrammar == \A o \in CoarseOps : o.op \in {p.op : p \in FineOps}

\* case emission: one case per plan (the identity plan <<>> included: the unmodified fixture)
Case == [member |-> member, ops |-> ops, depth |-> Len(ops), allowed |-> Outcomes]
Emit == phase = "mutated" => PrintT(ToJson(Case))

\* sanity (must be violated): a plan of depth 2 is reachable / an extraction is reachable
SanityDepth2 == ~(phase = "extracted" /\ Len(ops) = 2)
=============================================================================
