--------------------------- MODULE SymlinkRequire ---------------------------
(***************************************************************************)
(* Symlink resolution in an image loaded with a file requirer (C17 x the   *)
(* last clause of C04: "loading the image with a restriction to required   *)
(* files changes nothing except that non-required files are absent").      *)
(*                                                                         *)
(* A scenario is a graph of SymlinkResolve.tla plus the set of entries the *)
(* requirer asks for.  image.removeUnnecessaryFileNodes prunes the final   *)
(* view: directories and whiteout nodes stay, a non-required file or       *)
(* symlink goes, except that the nodes within MaxSymlinkDepth hops of a    *)
(* required symlink stay ("preserving target nodes if the symlink node is  *)
(* required").                                                             *)
(*                                                                         *)
(* Declarative part: Keep - the entries that stay; Restricted - the graph  *)
(* after pruning; the expectation of every probe is Allowed() of           *)
(* SymlinkResolve on the restricted graph.                                 *)
(* Operational part: PruneOp - the walk over the path tree in some order   *)
(* with the filesRequired map, verbatim; SkipMarked = TRUE is the code as  *)
(* found (a node already marked as a target is not examined itself), which *)
(* makes the result depend on the order of the walk - Go map iteration.    *)
(***************************************************************************)
EXTENDS SymlinkResolve

CONSTANTS SkipMarked   \* BOOLEAN: TRUE = removeUnnecessaryFileNodes as found, FALSE = as repaired

VARIABLES req, stage
rvars == <<g, idx, req, stage>>

HasNode(gr, i) == ~Gone(gr, i)
Prunable(gr, i) == HasNode(gr, i) /\ gr[i].k \notin {"dir", "deleted"}

(* ---- declarative ---- *)
\* entries reached from i in 1..h hops (the walk stops at a gap or at a non-symlink)
RECURSIVE ChainFrom(_, _, _)
ChainFrom(gr, i, h) ==
  IF h = 0 \/ ~IsLink(gr, i) THEN {}
  ELSE LET t == gr[i].to IN
       IF Gone(gr, t) THEN {} ELSE {t} \cup ChainFrom(gr, t, h - 1)
Keep(gr, R, max) == {i \in Entries : HasNode(gr, i) /\ ~Prunable(gr, i)}
                    \cup {i \in R : HasNode(gr, i)}
                    \cup UNION {ChainFrom(gr, i, max) : i \in {j \in R : HasNode(gr, j) /\ IsLink(gr, j)}}
Restricted(gr, R, max) == [i \in Entries |-> IF HasNode(gr, i) /\ i \notin Keep(gr, R, max) THEN [k |-> "missing"] ELSE gr[i]]

(* ---- operational: removeUnnecessaryFileNodes ---- *)
\* fr: entry -> "unset" | "yes" | "no"      (the filesRequired map)
RECURSIVE MarkChain(_, _, _, _)
MarkChain(gr, fr, node, left) ==
  IF left = 0 THEN fr
  ELSE LET t == gr[node].to IN
       IF Gone(gr, t) THEN fr
       ELSE LET fr2 == [fr EXCEPT ![t] = "yes"] IN
            IF ~IsLink(gr, t) THEN fr2 ELSE MarkChain(gr, fr2, t, left - 1)
Visit(gr, R, max, fr, v) ==
  IF ~HasNode(gr, v) THEN fr
  ELSE IF SkipMarked /\ fr[v] = "yes" THEN fr
  ELSE IF ~Prunable(gr, v) THEN fr
  ELSE IF v \notin R THEN (IF fr[v] = "yes" THEN fr ELSE [fr EXCEPT ![v] = "no"])
  ELSE IF IsLink(gr, v) THEN MarkChain(gr, fr, v, max) ELSE fr
RECURSIVE WalkOrder(_, _, _, _, _)
WalkOrder(gr, R, max, fr, order) ==
  IF order = <<>> THEN fr ELSE WalkOrder(gr, R, max, Visit(gr, R, max, fr, Head(order)), Tail(order))
PruneOp(gr, R, max, order) ==
  LET fr == WalkOrder(gr, R, max, [i \in Entries |-> "unset"], order)
  IN [i \in Entries |-> IF fr[i] = "no" THEN [k |-> "missing"] ELSE gr[i]]
Orders == {o \in [1..N -> Entries] : \A a, b \in 1..N : a # b => o[a] # o[b]}

-----------------------------------------------------------------------------
RInit == Init /\ req = {} /\ stage = "graph"
RChoose == stage = "graph" /\ Choose /\ UNCHANGED <<req, stage>>
ChooseReq == /\ stage = "graph" /\ idx = N + 1
             /\ \E R \in SUBSET Entries : req' = R
             /\ stage' = "done" /\ UNCHANGED <<g, idx>>
RNext == RChoose \/ ChooseReq
RSpec == RInit /\ [][RNext]_rvars
RComplete == stage = "done"

\* the pruning is the declared one, whatever the order of the walk
PruneIsKeep == RComplete => \A d \in Depths : \A o \in Orders : PruneOp(g, req, d, o) = Restricted(g, req, d)
\* consequence the property relies on: a required entry resolves in the restricted image exactly as in the full one
\* whenever the full image resolves it to a target
RequiredResolveAlike == RComplete => \A d \in Depths : \A i \in req :
      LET f == Follow(g, i, 0, d) IN
      (f.r = "target" /\ f.hops <= d) => ResolveOp(Restricted(g, req, d), i, d) = <<"target", f.to>>
\* must be violated (with SkipMarked = TRUE): two walk orders prune differently
SanityOrderDependent == ~(RComplete /\ \E d \in Depths : \E o1, o2 \in Orders : PruneOp(g, req, d, o1) # PruneOp(g, req, d, o2))

RCase == [kinds |-> [i \in Entries |-> KindStr(g[i])], req |-> req,
          expect |-> [d \in Depths |-> [i \in Entries |-> Allowed(Restricted(g, req, d), i, d)]]]
REmit == RComplete => PrintT(ToJson(RCase))
=============================================================================
