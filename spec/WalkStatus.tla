----------------------------- MODULE WalkStatus -----------------------------
(***************************************************************************)
(* C16(c) - the walking goroutine and the status-printing goroutine of     *)
(* filesystem.RunFS share the walk context.                                *)
(*                                                                         *)
(* Walker: per inode  W1 write currentPath, inodesVisited   (handleFile)   *)
(*                    W2 write extractCalls                 (runExtractor) *)
(* Ticker: per tick   T1 read inodesVisited, extractCalls, currentPath     *)
(*                    T2 write lastStatus/lastInodes/lastExtracts           *)
(* then close(quit).  Guarded = TRUE: every W1/W2/T1/T2 access is made     *)
(* while holding statusMu (the code as repaired); FALSE: no lock (the      *)
(* original code).  A data race is a state in which both goroutines are    *)
(* inside conflicting accesses of one shared variable.                     *)
(***************************************************************************)
EXTENDS Integers, TLC
CONSTANTS Guarded, NInodes, NTicks

VARIABLES wpc, tpc, mu, inodes, ticks, quit
vars == <<wpc, tpc, mu, inodes, ticks, quit>>

\* variables touched at each program point: [var |-> "r" | "w"]
Acc(pc) == CASE pc = "W1" -> {<<"currentPath", "w">>, <<"inodesVisited", "w">>}
             [] pc = "W2" -> {<<"extractCalls", "w">>}
             [] pc = "T1" -> {<<"inodesVisited", "r">>, <<"extractCalls", "r">>, <<"currentPath", "r">>}
             [] pc = "T2" -> {<<"last", "w">>}
             [] OTHER -> {}
Init == wpc = "idle" /\ tpc = "wait" /\ mu = "free" /\ inodes = 0 /\ ticks = 0 /\ quit = FALSE

Acquire(p) == IF Guarded THEN mu = "free" /\ mu' = p ELSE UNCHANGED mu
Release(p) == IF Guarded THEN mu' = "free" ELSE UNCHANGED mu

WEnter1 == wpc = "idle" /\ inodes < NInodes /\ Acquire("W") /\ wpc' = "W1" /\ UNCHANGED <<tpc, inodes, ticks, quit>>
WLeave1 == wpc = "W1" /\ Release("W") /\ wpc' = "mid" /\ inodes' = inodes + 1 /\ UNCHANGED <<tpc, ticks, quit>>
WEnter2 == wpc = "mid" /\ Acquire("W") /\ wpc' = "W2" /\ UNCHANGED <<tpc, inodes, ticks, quit>>
WSkip2  == wpc = "mid" /\ wpc' = "idle" /\ UNCHANGED <<tpc, mu, inodes, ticks, quit>>      \* file not required: no Extract
WLeave2 == wpc = "W2" /\ Release("W") /\ wpc' = "idle" /\ UNCHANGED <<tpc, inodes, ticks, quit>>
WQuit   == wpc = "idle" /\ inodes = NInodes /\ ~quit /\ quit' = TRUE /\ UNCHANGED <<wpc, tpc, mu, inodes, ticks>>
TEnter  == tpc = "wait" /\ ~quit /\ ticks < NTicks /\ Acquire("T") /\ tpc' = "T1" /\ UNCHANGED <<wpc, inodes, ticks, quit>>
TStep   == tpc = "T1" /\ tpc' = "T2" /\ UNCHANGED <<wpc, mu, inodes, ticks, quit>>
TLeave  == tpc = "T2" /\ Release("T") /\ tpc' = "wait" /\ ticks' = ticks + 1 /\ UNCHANGED <<wpc, inodes, quit>>
TStop   == tpc = "wait" /\ quit /\ tpc' = "stopped" /\ UNCHANGED <<wpc, mu, inodes, ticks, quit>>
Next == WEnter1 \/ WLeave1 \/ WEnter2 \/ WSkip2 \/ WLeave2 \/ WQuit \/ TEnter \/ TStep \/ TLeave \/ TStop
Spec == Init /\ [][Next]_vars /\ WF_vars(Next)

Conflict(a, b) == \E x \in Acc(a), y \in Acc(b) : x[1] = y[1] /\ (x[2] = "w" \/ y[2] = "w")
NoDataRace == ~Conflict(wpc, tpc)
MutexOK == Guarded => ~(wpc \in {"W1", "W2"} /\ tpc \in {"T1", "T2"})
Terminates == <>(tpc = "stopped" /\ wpc = "idle" /\ inodes = NInodes)
=============================================================================
