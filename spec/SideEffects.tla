----------------------------- MODULE SideEffects -----------------------------
(***************************************************************************)
(* C06(a) - scanning a directory tree never creates, modifies or deletes   *)
(* anything in the scanned tree or the working directory, and whatever it  *)
(* places in the system temporary directory is removed before it returns.  *)
(*                                                                         *)
(* Zones: tree (the scanned tree), cwd (the working directory), tmp (the   *)
(* system temporary directory).  A scan is a sequence of Extract steps,    *)
(* one per enabled extractor that finds a file it requires.  An Extract    *)
(* may read, and - on a virtual root, where a plugin that needs a real     *)
(* path gets a temporary copy (ScanInput.GetRealPath) - may place a copy   *)
(* in tmp, which it must remove before it returns.                         *)
(*                                                                         *)
(* This module is a MONITOR specification (DESIGN.md section 7): it states *)
(* the property on the zone abstraction, names the two deviations of the   *)
(* code as built, and enumerates the product of scenarios that the harness *)
(* runs through the real scalibr.New().Scan with before/after snapshots of *)
(* the three zones.  It does not look inside the 57 parsers.               *)
(*                                                                         *)
(* Facts (module SideEffectsFacts) is the real plugin registry dumped by   *)
(* the harness: per extractor its name, number of production path classes  *)
(* (formats), number of fixtures, required OS, DirectFS requirement,       *)
(* whether it opens companion files itself, and whether it runs offline.   *)
(***************************************************************************)
EXTENDS Integers, Sequences, FiniteSets, TLC, Json, SideEffectsFacts

CONSTANTS Variants,        \* subset of {"valid","empty","trunc","corrupt"}
          Roots,           \* subset of {"real","vdir","vmem"}: real directory, virtual FS over a directory, in-memory virtual FS
          OSes,            \* OS capability values for the all-extractors scans
          MaxFx,           \* 0: only the best fixture of each format; n: also fixtures 1..min(n, nfix)
          Dev_BoltRW,      \* as built: containerd opens bolt databases read-write (bolt.Open without ReadOnly)
          Dev_PEWrongDir   \* as built: dotnetpe removes filepath.Base(tmpcopy) instead of filepath.Dir(tmpcopy)

VARIABLES phase,   \* "setup" | "scanning" | "returned"
          scen,    \* the scenario (a record, see Scenarios)
          todo,    \* sequence of indices into Facts: Extract calls still to make
          cur,     \* index of the extractor inside Extract, or 0
          tree,    \* function: file id -> state of that file in the scanned tree
          cwd,     \* set of entries of the working directory
          tmp,     \* set of entries of the temporary directory
          tree0, cwd0, tmp0   \* the zones when the scan started
vars == <<phase, scen, todo, cur, tree, cwd, tmp, tree0, cwd0, tmp0>>

N == Len(Facts)
Offline == {i \in 1..N : Facts[i].offline}
Virtual(r) == r # "real"

-----------------------------------------------------------------------------
(* ---- scenarios: the quantifier of the property ---- *)
OSFor(i) == IF Facts[i].os \in {"mac", "windows"} THEN Facts[i].os ELSE "linux"
\* plugin.ValidateRequirements: OS, DirectFS (network: the environment is offline)
Runs(i, os, root) ==
  /\ Facts[i].offline
  /\ Facts[i].os \in {"any", os} \/ (Facts[i].os = "unix" /\ os \in {"linux", "mac"})
  /\ Facts[i].directfs => root = "real"

Min(a, b) == IF a < b THEN a ELSE b
FxOf(i) == 0..Min(MaxFx, Facts[i].nfix)
CompanionStates(i) == IF Facts[i].companion THEN {"valid", "empty"} ELSE {"none"}

Enabled(s) == IF s.mode = "single" THEN {s.idx} ELSE {i \in 1..N : Runs(i, s.os, s.root)}

\* file ids: <<i, k>> the k-th format of extractor i; <<i, 0>> its companion files
Files(s) ==
  LET E == Enabled(s) IN
  [f \in UNION {{<<i, k>> : k \in (IF s.mode = "single" THEN {s.fmt} ELSE 1..Facts[i].nfmt)} : i \in E}
         \cup {<<i, 0>> : i \in {j \in E : Facts[j].companion /\ s.cvariant # "none"}}
     |-> IF f[2] = 0 THEN s.cvariant ELSE s.variant]

RECURSIVE SetToSeq(_)
SetToSeq(S) == IF S = {} THEN <<>> ELSE LET m == CHOOSE x \in S : \A y \in S : x <= y IN <<m>> \o SetToSeq(S \ {m})

-----------------------------------------------------------------------------
(* ---- the scan ---- *)
CwdDecoys == {"file", "data.txt", "sub/x", "link", "meta.db"}

Init == /\ phase = "setup" /\ scen = [mode |-> "none"] /\ todo = <<>> /\ cur = 0
        /\ tree = <<>> /\ cwd = {} /\ tmp = {} /\ tree0 = <<>> /\ cwd0 = {} /\ tmp0 = {}

Start(s) == /\ phase' = "scanning" /\ scen' = s
             /\ todo' = SetToSeq(Enabled(s)) /\ cur' = 0
             /\ tree' = Files(s) /\ cwd' = CwdDecoys /\ tmp' = {}
             /\ tree0' = Files(s) /\ cwd0' = CwdDecoys /\ tmp0' = {}

IsContainerd(i) == Facts[i].name = "containers/containerd"
IsPE(i) == Facts[i].name = "dotnet/pe"

\* bolt.Open without ReadOnly initialises an empty database file (0 -> 16384 bytes)
BoltInit(t, i) ==
  LET openedMain == \E k \in 1..Facts[i].nfmt : <<i, k>> \in DOMAIN t /\ t[<<i, k>>] \in {"valid", "empty", "corrupt"}   \* a corrupt first meta page: bolt falls back to the second
  IN [f \in DOMAIN t |->
        IF f[1] = i /\ t[f] = "empty" /\ (f[2] > 0 \/ openedMain) THEN "initialised" ELSE t[f]]

\* Extract begins: reads; on a virtual root it may obtain a temporary copy of the file
BeginExtract ==
  /\ phase = "scanning" /\ cur = 0 /\ todo # <<>>
  /\ LET i == Head(todo) IN
     /\ cur' = i /\ todo' = Tail(todo)
     /\ \/ /\ Virtual(scen.root) /\ tmp' = tmp \cup {<<"copy", i>>}
        \/ tmp' = tmp
     /\ tree' = IF Dev_BoltRW /\ IsContainerd(i) /\ scen.root = "real" THEN BoltInit(tree, i) ELSE tree
     /\ UNCHANGED <<phase, scen, cwd, tree0, cwd0, tmp0>>

\* Extract returns: whatever it placed in tmp is gone
EndExtract ==
  /\ phase = "scanning" /\ cur # 0
  /\ IF Dev_PEWrongDir /\ IsPE(cur) /\ <<"copy", cur>> \in tmp
       THEN tmp' = tmp /\ cwd' = cwd \ {"file"}          \* os.RemoveAll("file") relative to the cwd; copy stays
       ELSE tmp' = tmp \ {<<"copy", cur>>} /\ cwd' = cwd
  /\ cur' = 0
  /\ UNCHANGED <<phase, scen, todo, tree, tree0, cwd0, tmp0>>

Return == /\ phase = "scanning" /\ cur = 0 /\ todo = <<>>
          /\ phase' = "returned"
          /\ UNCHANGED <<scen, todo, cur, tree, cwd, tmp, tree0, cwd0, tmp0>>

\* one extractor, one of its formats (production path classes), one file variant, one root kind
ChooseSingle ==
  /\ phase = "setup"
  /\ \E i \in Offline : \E k \in 1..Facts[i].nfmt : \E f \in FxOf(i) : \E v \in Variants : \E r \in Roots :
       \E cv \in CompanionStates(i) :
         /\ Runs(i, OSFor(i), r)
         /\ f > 0 => v # "empty"        \* an empty file is the same whatever fixture it came from
         /\ Start([mode |-> "single", ex |-> Facts[i].name, idx |-> i, fmt |-> k, fx |-> f, variant |-> v,
                   cvariant |-> cv, root |-> r, os |-> OSFor(i)])
\* every extractor the environment's capabilities admit, every format of each, all in one tree
ChooseAll ==
  /\ phase = "setup"
  /\ \E v \in Variants : \E cv \in {"valid", "empty"} : \E r \in Roots : \E o \in OSes :
         Start([mode |-> "all", ex |-> "", idx |-> 0, fmt |-> 0, fx |-> 0, variant |-> v, cvariant |-> cv,
                root |-> r, os |-> o])

Next == \/ ChooseSingle \/ ChooseAll
        \/ BeginExtract \/ EndExtract \/ Return
Spec == Init /\ [][Next]_vars

-----------------------------------------------------------------------------
(* ---- the property (ideal cfg: both deviation constants FALSE) ---- *)
\* nothing in the tree or the working directory changes at any step of a scan
ZonesUntouched == [][phase = "scanning" => (tree' = tree /\ cwd' = cwd)]_vars
\* and at return the temporary directory is what it was
TmpRestored == phase = "returned" => tmp = tmp0
TreeCwdAtReturn == phase = "returned" => tree = tree0 /\ cwd = cwd0

(* ---- as built: every deviation belongs to a listed finding class ---- *)
ContainerdOn(s) == \E i \in Enabled(s) : IsContainerd(i)
PEOn(s) == \E i \in Enabled(s) : IsPE(i)
KnownClasses(s) ==
  (IF Dev_BoltRW /\ ContainerdOn(s) /\ s.root = "real" /\ (s.variant = "empty" \/ s.cvariant = "empty")
     THEN {"C06-containerd-bolt-rw"} ELSE {})
  \cup
  (IF Dev_PEWrongDir /\ PEOn(s) /\ Virtual(s.root) THEN {"C06-dotnetpe-tmp-leak"} ELSE {})

AsBuiltComplete ==
  phase = "returned" =>
    /\ (tree # tree0 => "C06-containerd-bolt-rw" \in KnownClasses(scen))
    /\ ((cwd # cwd0 \/ tmp # tmp0) => "C06-dotnetpe-tmp-leak" \in KnownClasses(scen))

\* what the open findings predict for this scenario (used only to attribute, never to excuse other diffs)
AsBuiltTree(s) ==
  IF "C06-containerd-bolt-rw" \in KnownClasses(s)
    THEN LET i == CHOOSE j \in Enabled(s) : IsContainerd(j)
             t == BoltInit(Files(s), i)
         IN {f \in DOMAIN t : t[f] = "initialised"}
    ELSE {}

-----------------------------------------------------------------------------
(* ---- case emission (binding A/M): one case per scenario ---- *)
Case == [mode |-> scen.mode, ex |-> scen.ex, fmt |-> scen.fmt, fx |-> scen.fx, variant |-> scen.variant,
         cvariant |-> scen.cvariant, root |-> scen.root, os |-> scen.os,
         enabled |-> Cardinality(Enabled(scen)),
         expect |-> [tree |-> "unchanged", cwd |-> "unchanged", tmp |-> "restored"],
         devs |-> KnownClasses(scen),
         asbuilt_tree |-> {IF f[2] = 0 THEN "companion" ELSE "main" : f \in AsBuiltTree(scen)}]
Emit == (phase = "scanning" /\ cur = 0 /\ Len(todo) = Cardinality(Enabled(scen))) => PrintT(ToJson(Case))

\* sanity (must be violated): a scan on a virtual root reaches a state with a temporary copy in tmp
SanityTmpUsed == ~(phase = "scanning" /\ tmp # {})
=============================================================================
