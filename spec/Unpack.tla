------------------------------- MODULE Unpack -------------------------------
(***************************************************************************)
(* C06(b) - loading or unpacking a container image never creates, modifies *)
(* or deletes anything outside the directory designated for it, whatever   *)
(* entry names, link targets and entry orders its layer archives contain;  *)
(* no symlink left inside the target resolves outside it; after CleanUp    *)
(* the image's temporary directory is gone.                                *)
(*                                                                         *)
(* State: a sandbox file system  fs : Path -> node  (a path is a sequence  *)
(* of names from the model root; node kinds dir / file / sym) with the     *)
(* zones                                                                   *)
(*   Base     = <<u4,u3,u2,u1,out>>        the caller's target directory   *)
(*   Sibling  = <<u4,u3,u2,u1,out-evil>>   a directory whose NAME has the  *)
(*                                         target's name as string prefix  *)
(*   outside  = everything else under the model root (ancestors of Base)   *)
(*   X        = the image loader's extraction directory under TMPDIR       *)
(*              (a separate small file system, see the image part)         *)
(*                                                                         *)
(* Operators: Walk (the kernel's component-by-component resolution with    *)
(* symlink following, bounded by Fuel), LRes (where a path leads; missing  *)
(* tail taken literally), Inside (path-component containment), StrInside   *)
(* (what strings.HasPrefix on path strings accepts), MkdirAll, Create.     *)
(*                                                                         *)
(* Operational part, one action per tar entry and pass, in the shape of    *)
(* artifact/image/unpack/unpack.go:unpack():                               *)
(*   SkipBySize, [ZipSlipFilter], SkipIfExists (Lstat), RequiredCheck,     *)
(*   then for regular files  Prepare = {MkdirAllParent, OutsideCheck}      *)
(*   and WriteFile; for sym/hard links Prepare, TargetOutsideRootCheck,    *)
(*   required-target bookkeeping, CreateSymlink (symlink_retain) or        *)
(*   ReadTarget+WriteFile (symlink_ignore); NextPass; finally              *)
(*   RemoveObsoleteSymlinks [+ SweepEscaping].                             *)
(* UnpackSquashed first flattens the layers the way go-containerregistry's *)
(* mutate.Extract does (operator Flatten: newest layer first, cleaned      *)
(* names, first spelling wins, children of non-directories hidden).        *)
(* The image loader (layerscanning/image/image.go) is the second machine:  *)
(* ZipSlipFilter, duplicate-key skip, handleDir / handleFile under         *)
(* X/layer-i, virtual (never on-disk) symlinks, CleanUp.                   *)
(*                                                                         *)
(* Two transcriptions run in lock step on every scenario: "ideal" (all     *)
(* deviation flags FALSE) and "asbuilt" (flags = the Dev_* constants, what *)
(* the code does today).  Deviation constants (each confirmed on the real  *)
(* code by replay):                                                        *)
(*  Dev_NoZipSlipInUnpack       unpack() accepts names whose cleaned form  *)
(*                              starts with "../" (image.go filters them)  *)
(*  Dev_MkdirBeforeCheck        os.MkdirAll(parent) runs before the        *)
(*                              containment check                          *)
(*  Dev_PrefixConfusableSibling the check is strings.HasPrefix(parent,base)*)
(*                              and accepts ".../out-evil" for ".../out"   *)
(*  Dev_NoCheckOnLinkPath       no containment check at all on the         *)
(*                              symlink / hard-link path                   *)
(*  Dev_LexicalLinkTarget       link targets are vetted lexically only     *)
(*                              (TargetOutsideRoot); a link whose target   *)
(*                              passes THROUGH another link may resolve    *)
(*                              outside and is left in the target          *)
(* Status (cfg constants): the first four were repaired in /repo by three  *)
(* fix: commits (zip-slip filter; component-wise check on the resolved      *)
(* location BEFORE MkdirAll; the same check on the link path) and are FALSE;*)
(* Dev_LexicalLinkTarget is the open finding C06-unpack-link-chain-escape   *)
(* (proposed repair: spec/Unpack.proposed-fix.patch = operator              *)
(* SweepEscaping).  Unpack-sanity-outside.cfg keeps all five TRUE.          *)
(* TLC checks: ContainmentIdeal (the ideal transcription satisfies the     *)
(* property at every step), Completeness (every violation of the as-built  *)
(* transcription disappears or changes when one listed deviation is        *)
(* repaired), NoDevsNoDifference (without deviations as-built = ideal),    *)
(* ImageContainment, and emits one JSON case per terminal state.           *)
(***************************************************************************)
EXTENDS Integers, Sequences, FiniteSets, TLC, Json

CONSTANTS Modes,      \* subset of AllModes
          Sibs,       \* subset of BOOLEAN: does the sibling directory exist beforehand
          Reqs,       \* subset of {"all","links"}: file requirer handed to the unpacker
          MaxPasses,  \* subset of 1..3: UnpackerConfig.MaxPass
          MaxEntries, \* entries per scenario
          Entries,    \* the entry alphabet of this family (substituted in the cfg)
          Shape(_),   \* scenario filter of this family: Shape(entries) (substituted in the cfg)
          Dev_NoZipSlipInUnpack, Dev_MkdirBeforeCheck, Dev_PrefixConfusableSibling,
          Dev_NoCheckOnLinkPath, Dev_LexicalLinkTarget

AllModes == {"tb-retain-log", "tb-retain-ret", "tb-ignore-log", "tb-ignore-ret",
             "sq-retain-log", "sq-retain-ret", "img-v1", "img-tb"}
ASSUME Modes \subseteq AllModes /\ Sibs \subseteq BOOLEAN /\ Reqs \subseteq {"all", "links"}

Fuel == 40                         \* MAXSYMLINKS
Base == <<"u4", "u3", "u2", "u1", "out">>
Front(s) == SubSeq(s, 1, Len(s) - 1)
Last(s) == s[Len(s)]
Sibling == Append(Front(Base), "out-evil")
ConfusableNames == {"out", "out-evil"}     \* the names of this universe that start with the string "out"
TooLong == {"lx"}                          \* one 300-byte path component: every lookup fails with ENAMETOOLONG
\* byte order of all names that can occur (filepath.WalkDir visits directory entries sorted by name)
NameOrder == <<"a", "b", "c", "d", "la", "lb", "lc", "lx", "out", "out-evil", "s", "u1", "u2", "u3", "u4", "x", "y", "z">>
Rank(n) == CHOOSE i \in 1..Len(NameOrder) : NameOrder[i] = n
Max(a, b) == IF a > b THEN a ELSE b

IsPrefix(a, b) == Len(a) <= Len(b) /\ SubSeq(b, 1, Len(a)) = a
Inside(p) == IsPrefix(Base, p)                       \* path-component containment
StrInside(p) == /\ Len(p) >= Len(Base)               \* strings.HasPrefix(p, base) on the path strings
                /\ SubSeq(p, 1, Len(Base) - 1) = Front(Base)
                /\ p[Len(Base)] \in ConfusableNames

-----------------------------------------------------------------------------
(* ---- raw names, path.Clean ---- *)
\* a raw name / link target is the string (abs ? "/" : "") + segs joined by "/"
R(s) == [abs |-> FALSE, segs |-> s]
A(s) == [abs |-> TRUE, segs |-> s]
EmptyStr(n) == ~n.abs /\ (n.segs = <<>> \/ n.segs = <<"">>)
EndsWithSlash(n) == n.segs # <<>> /\ Last(n.segs) = "" /\ (n.abs \/ Len(n.segs) >= 2)

RECURSIVE CleanAcc(_, _, _, _)
CleanAcc(abs, rest, ups, acc) ==
  IF rest = <<>> THEN [abs |-> abs, ups |-> ups, segs |-> acc]
  ELSE LET c == Head(rest) IN
       IF c \in {"", "."} THEN CleanAcc(abs, Tail(rest), ups, acc)
       ELSE IF c = ".." THEN
              IF acc # <<>> THEN CleanAcc(abs, Tail(rest), ups, Front(acc))
              ELSE IF abs THEN CleanAcc(abs, Tail(rest), ups, acc)
              ELSE CleanAcc(abs, Tail(rest), ups + 1, acc)
       ELSE CleanAcc(abs, Tail(rest), ups, Append(acc, c))
\* path.Clean: a cleaned name is abs / ups leading ".." / segs
Clean(n) == CleanAcc(n.abs, n.segs, 0, <<>>)
Ups(k) == [i \in 1..k |-> ".."]
\* path.Join(dir, cleanPath): an absolute name is joined like a relative one
FullPath(cn) == SubSeq(Base, 1, Len(Base) - cn.ups) \o cn.segs
LexJoin(dir, segs) == CleanAcc(TRUE, dir \o segs, 0, <<>>).segs     \* filepath.Join on an absolute dir

-----------------------------------------------------------------------------
(* ---- the sandbox file system ---- *)
Dir == [k |-> "dir", c |-> 0, abs |-> FALSE, segs |-> <<>>]
File(c) == [k |-> "file", c |-> c, abs |-> FALSE, segs |-> <<>>]
Sym(abs, segs) == [k |-> "sym", c |-> 0, abs |-> abs, segs |-> segs]

InitFS(sib) == [p \in {SubSeq(Base, 1, i) : i \in 0..Len(Base)} \cup (IF sib THEN {Sibling} ELSE {}) |-> Dir]
With(fs, p, n) == [q \in DOMAIN fs \cup {p} |-> IF q = p THEN n ELSE fs[q]]
Without(fs, S) == [q \in DOMAIN fs \ S |-> fs[q]]

\* The kernel's path walk.  cur: directory reached so far (physical path); rest: components still to
\* process; fl: follow a symlink in the last position.  A symlink in the middle is always followed.
RECURSIVE Walk(_, _, _, _, _)
Walk(fs, cur, rest, fuel, fl) ==
  IF rest = <<>> THEN [st |-> "ok", p |-> cur, rest |-> <<>>]
  ELSE LET c == Head(rest)
           r == Tail(rest) IN
    IF c \in {"", "."} THEN Walk(fs, cur, r, fuel, fl)
    ELSE IF c = ".." THEN
           IF cur = <<>> THEN Assert(FALSE, "model root popped: make Base deeper")
           ELSE Walk(fs, Front(cur), r, fuel, fl)
    ELSE IF c \in TooLong THEN [st |-> "toolong", p |-> Append(cur, c), rest |-> r]
    ELSE LET nxt == Append(cur, c) IN
      IF nxt \notin DOMAIN fs THEN [st |-> "missing", p |-> nxt, rest |-> r]
      ELSE IF fs[nxt].k = "sym" /\ (r # <<>> \/ fl) THEN
             IF fuel = 0 THEN [st |-> "loop", p |-> nxt, rest |-> r]
             ELSE Walk(fs, IF fs[nxt].abs THEN <<>> ELSE cur, fs[nxt].segs \o r, fuel - 1, fl)
      ELSE IF fs[nxt].k = "file" /\ r # <<>> THEN [st |-> "notdir", p |-> nxt, rest |-> r]
      ELSE Walk(fs, nxt, r, fuel, fl)

Stat(fs, p) == Walk(fs, <<>>, p, Fuel, TRUE)
LstatOk(fs, p) == Walk(fs, <<>>, p, Fuel, FALSE).st = "ok"
\* where a path leads when every link is followed; a missing component and all after it count literally
LRes(fs, p) == LET w == Stat(fs, p) IN
               IF w.st = "ok" THEN [ok |-> TRUE, p |-> w.p]
               ELSE IF w.st = "missing" THEN [ok |-> TRUE, p |-> LexJoin(w.p, w.rest)]
               ELSE [ok |-> FALSE, p |-> <<>>]
ResolveParent(fs, p) == Stat(fs, Front(p))

\* os.Mkdir(p): parent resolved with symlinks followed, last component must not exist
Mkdir(fs, p) == LET w == Stat(fs, Front(p)) IN
  IF w.st # "ok" \/ fs[w.p].k # "dir" \/ Last(p) \in TooLong \/ Append(w.p, Last(p)) \in DOMAIN fs
  THEN [ok |-> FALSE, fs |-> fs]
  ELSE [ok |-> TRUE, fs |-> With(fs, Append(w.p, Last(p)), Dir)]
\* os.MkdirAll(p) for a lexically clean absolute p
RECURSIVE MkdirAll(_, _)
MkdirAll(fs, p) ==
  LET w == Stat(fs, p) IN
  IF w.st = "ok" THEN [ok |-> fs[w.p].k = "dir", fs |-> fs]
  ELSE IF p = <<>> THEN [ok |-> FALSE, fs |-> fs]
  ELSE LET up == MkdirAll(fs, Front(p)) IN
       IF ~up.ok THEN up ELSE Mkdir(up.fs, p)
\* creating a new node (os.WriteFile / os.Symlink at a path whose last component does not exist)
Create(fs, full, n) == LET w == Stat(fs, Front(full)) IN
  IF w.st # "ok" \/ fs[w.p].k # "dir" \/ Last(full) \in TooLong \/ Append(w.p, Last(full)) \in DOMAIN fs
  THEN [ok |-> FALSE, fs |-> fs]
  ELSE [ok |-> TRUE, fs |-> With(fs, Append(w.p, Last(full)), n)]

SymsInTarget(fs) == {p \in DOMAIN fs : Inside(p) /\ p # Base /\ fs[p].k = "sym"}
Escapes(fs, p) == LET r == LRes(fs, p) IN r.ok /\ ~Inside(r.p)

-----------------------------------------------------------------------------
(* ---- entries ---- *)
\* [n: raw name, t: reg|dir|sym|hard, l: raw link target, big: size > MaxFileBytes, c: content id]
E(n, t, l, big) == [n |-> n, t |-> t, l |-> l, big |-> big]
NoLink == R(<<>>)
Reg(n) == E(n, "reg", NoLink, FALSE)
BigReg(n) == E(n, "reg", NoLink, TRUE)
DirE(n) == E(n, "dir", NoLink, FALSE)
SymE(n, l) == E(n, "sym", l, FALSE)
HardE(n, l) == E(n, "hard", l, FALSE)
\* archive/tar cannot write a regular-file header whose name ends in "/" (legacy spelling of a directory)
WellFormedEntry(e) == ~(e.t = "reg" /\ EndsWithSlash(e.n))

-----------------------------------------------------------------------------
(* ---- unpack(): one tar entry in one pass, parameterised by the deviation flags ---- *)
DevNames == {"zip", "mk", "pre", "lnk", "lex"}
DevOn == [d \in DevNames |-> CASE d = "zip" -> Dev_NoZipSlipInUnpack [] d = "mk" -> Dev_MkdirBeforeCheck
                               [] d = "pre" -> Dev_PrefixConfusableSibling [] d = "lnk" -> Dev_NoCheckOnLinkPath
                               [] d = "lex" -> Dev_LexicalLinkTarget]
NoDevs == [d \in DevNames |-> FALSE]
ActiveDevs == {d \in DevNames : DevOn[d]}

Contained(fl, p) == IF fl["pre"] THEN StrInside(p) ELSE Inside(p)
\* pathOutsideBaseDirectory(dir, fullPath): filepath.EvalSymlinks(parent) must succeed
OutsideCheck(fl, fs, parent) == LET w == Stat(fs, parent) IN
                                IF w.st # "ok" THEN TRUE ELSE ~Contained(fl, w.p)
\* the repaired check, usable BEFORE anything is created: resolve the deepest existing ancestor, keep the rest
RECURSIVE Existing(_, _)
Existing(fs, p) == IF Stat(fs, p).st = "ok" THEN p ELSE Existing(fs, Front(p))
OutsideCheckEarly(fl, fs, parent) ==
  LET q == Existing(fs, parent)
      loc == Stat(fs, q).p \o SubSeq(parent, Len(q) + 1, Len(parent))
  IN ~Contained(fl, loc)

\* MkdirAllParent + OutsideCheck in the order the flags dictate. checked = FALSE: no check at all.
\* Repaired order (mk = FALSE): ONE check, before anything is created (everything MkdirAll then creates lies below the
\* resolved deepest existing ancestor, so a second check after MkdirAll would decide the same).
\* As-built order (mk = TRUE): MkdirAll first, then the strict check.
Prepare(fl, checked, fs, parent) ==
  IF checked /\ ~fl["mk"] THEN
    IF OutsideCheckEarly(fl, fs, parent) THEN [res |-> "skip", fs |-> fs]
    ELSE LET m == MkdirAll(fs, parent) IN [res |-> IF m.ok THEN "go" ELSE "fail", fs |-> m.fs]
  ELSE LET m == MkdirAll(fs, parent) IN
       IF ~m.ok THEN [res |-> "fail", fs |-> m.fs]
       ELSE IF checked /\ OutsideCheck(fl, m.fs, parent) THEN [res |-> "skip", fs |-> m.fs]
       ELSE [res |-> "go", fs |-> m.fs]

\* symlink.TargetOutsideRoot(cleanPath, target): purely lexical, relative to the link's own directory
RECURSIVE LexStays(_, _)
LexStays(d, segs) == IF segs = <<>> THEN TRUE
                     ELSE LET c == Head(segs) IN
                          IF c \in {"", "."} THEN LexStays(d, Tail(segs))
                          ELSE IF c = ".." THEN d > 1 /\ LexStays(d - 1, Tail(segs))
                          ELSE LexStays(d + 1, Tail(segs))
TargetOutsideRoot(cn, l) == IF l.abs THEN ~LexStays(1, l.segs)
                            ELSE cn.ups > 0 \/ ~LexStays(Max(1, Len(cn.segs)), l.segs)

\* required-target bookkeeping (keys are cleaned path strings)
IsCleanSegs(s) == \A i \in 1..Len(s) : s[i] \notin {"", ".", ".."}
LinkKeys(cn, l) == IF l.abs THEN (IF IsCleanSegs(l.segs) /\ l.segs # <<>> THEN {[abs |-> TRUE, ups |-> 0, segs |-> l.segs]} ELSE {})
                   ELSE {CleanAcc(cn.abs, Ups(cn.ups) \o Front(cn.segs) \o l.segs, 0, <<>>)}
Required(reqr, req, e, cn) == \/ reqr = "all"
                              \/ e.t \in {"sym", "hard"}
                              \/ [abs |-> cn.abs, ups |-> cn.ups, segs |-> cn.segs] \in req
                              \/ [abs |-> TRUE, ups |-> 0, segs |-> cn.segs] \in req

Abort(run, fs) == [run EXCEPT !.fs = fs, !.st = "abort"]

StepReg(fl, run, e, full) ==
  LET pr == Prepare(fl, TRUE, run.fs, Front(full)) IN
  IF pr.res = "fail" THEN Abort(run, pr.fs)                                  \* "failed to create directory"
  ELSE IF pr.res = "skip" THEN [run EXCEPT !.fs = pr.fs]
  ELSE LET w == Create(pr.fs, full, File(e.c)) IN                            \* WriteFile
       IF w.ok THEN [run EXCEPT !.fs = w.fs] ELSE Abort(run, pr.fs)

StepLink(fl, m, run, e, cn, full, final) ==
  LET pr == Prepare(fl, ~fl["lnk"], run.fs, Front(full)) IN
  IF pr.res = "skip" THEN [run EXCEPT !.fs = pr.fs]
  ELSE IF pr.res = "fail" /\ m.ret THEN Abort(run, pr.fs)
  ELSE IF e.t = "hard" THEN
    \* a hard link (repaired code, b1e42768): the target is relative to the image root; it is tracked as required, must
    \* lie inside the target directory, and is linked with os.Link (which does not follow a final symlink and fails on
    \* a missing source or a directory); a failure matters in the final pass only
    LET tclean == CleanAcc(TRUE, e.l.segs, 0, <<>>).segs
        src == Base \o tclean
        r1 == [run EXCEPT !.fs = pr.fs, !.req = @ \cup {[abs |-> TRUE, ups |-> 0, segs |-> tclean]}]
    IN IF OutsideCheckEarly(fl, pr.fs, Front(src)) THEN r1
       ELSE LET w == Walk(pr.fs, <<>>, src, Fuel, FALSE)
                linkable == w.st = "ok" /\ pr.fs[w.p].k # "dir"
                c == IF linkable THEN Create(pr.fs, full, pr.fs[w.p]) ELSE [ok |-> FALSE, fs |-> pr.fs]
            IN IF c.ok THEN [r1 EXCEPT !.fs = c.fs]
               ELSE IF final /\ m.ret THEN Abort(r1, pr.fs) ELSE r1
  ELSE IF TargetOutsideRoot(cn, e.l) THEN [run EXCEPT !.fs = pr.fs]         \* TargetOutsideRootCheck
  ELSE
    LET req2 == run.req \cup LinkKeys(cn, e.l)
        tclean == CleanAcc(TRUE, e.l.segs, 0, <<>>).segs
        r1 == [run EXCEPT !.fs = pr.fs, !.req = req2]
    IN
    IF ~m.ignore THEN                                                         \* CreateSymlink (hard links too)
      LET text == IF e.l.abs THEN Sym(TRUE, Base \o tclean) ELSE Sym(FALSE, e.l.segs)
          w == IF EmptyStr(e.l) THEN [ok |-> FALSE, fs |-> pr.fs] ELSE Create(pr.fs, full, text)
      IN IF w.ok THEN [r1 EXCEPT !.fs = w.fs]
         ELSE IF m.ret THEN Abort(r1, pr.fs) ELSE r1
    ELSE                                                                      \* symlink_ignore: copy the target's content
      LET src == IF e.l.abs THEN Stat(pr.fs, Base \o tclean) ELSE [st |-> "missing", p |-> <<>>, rest |-> <<>>]
          readable == src.st = "ok" /\ pr.fs[src.p].k = "file"
      IN IF ~readable THEN (IF final /\ m.ret THEN Abort(r1, pr.fs) ELSE r1)
         ELSE LET w == Create(pr.fs, full, File(pr.fs[src.p].c)) IN
              IF w.ok THEN [r1 EXCEPT !.fs = w.fs]
              ELSE IF m.ret THEN Abort(r1, pr.fs) ELSE r1

StepEntry(fl, m, run, e, final) ==
  IF run.st # "run" THEN run
  ELSE LET cn == Clean(e.n)
           full == FullPath(cn) IN
    IF e.big THEN run                                                         \* SkipBySize
    ELSE IF ~fl["zip"] /\ cn.ups > 0 THEN run                                 \* ZipSlipFilter (repaired code only)
    ELSE IF LstatOk(run.fs, full) THEN run                                    \* SkipIfExists
    ELSE IF ~Required(m.reqr, run.req, e, cn) THEN run                        \* RequiredCheck
    ELSE IF e.t = "reg" THEN StepReg(fl, run, e, full)
    ELSE IF e.t \in {"sym", "hard"} THEN StepLink(fl, m, run, e, cn, full, final)
    ELSE run                                                                  \* directories are never created on their own

\* symlink.RemoveObsoleteSymlinks: WalkDir order, one visit each; the relative target is joined LEXICALLY
RECURSIVE PathLess(_, _)
PathLess(p, q) == IF q = <<>> THEN FALSE ELSE IF p = <<>> THEN TRUE
                  ELSE IF p[1] = q[1] THEN PathLess(Tail(p), Tail(q)) ELSE Rank(p[1]) < Rank(q[1])
MinPath(S) == CHOOSE p \in S : \A q \in S \ {p} : PathLess(p, q)
RECURSIVE RemoveObs(_, _)
RemoveObs(fs, todo) ==
  IF todo = {} THEN fs
  ELSE LET p == MinPath(todo)
           t == IF fs[p].abs THEN fs[p].segs ELSE LexJoin(Front(p), fs[p].segs)
       IN IF Stat(fs, t).st = "ok" THEN RemoveObs(fs, todo \ {p})
          ELSE RemoveObs(Without(fs, {p}), todo \ {p})
RemoveObsoleteSymlinks(fs) == RemoveObs(fs, SymsInTarget(fs))
\* the repair for Dev_LexicalLinkTarget: drop every link that does not resolve (all links followed) to an
\* existing location inside the target, until none is left - also when unpacking stops with an error
RECURSIVE SweepEscaping(_)
SweepEscaping(fs) == LET bad == {p \in SymsInTarget(fs) : LET w == Stat(fs, p) IN w.st # "ok" \/ ~Inside(w.p)} IN
                     IF bad = {} THEN fs ELSE SweepEscaping(Without(fs, bad))
Finish(fl, run) ==
  LET fs1 == IF run.st = "abort" THEN run.fs ELSE RemoveObsoleteSymlinks(run.fs)
      fs2 == IF fl["lex"] THEN fs1 ELSE SweepEscaping(fs1)
  IN [run EXCEPT !.fs = fs2, !.st = IF run.st = "abort" THEN "abort" ELSE "done"]

\* the whole of UnpackSquashedFromTarball as a function (used to attribute violations to deviations)
RECURSIVE RunPass(_, _, _, _, _, _)
RunPass(fl, m, run, seq, i, final) == IF i > Len(seq) THEN run
                                      ELSE RunPass(fl, m, StepEntry(fl, m, run, seq[i], final), seq, i + 1, final)
RECURSIVE RunPasses(_, _, _, _, _)
RunPasses(fl, m, run, seq, p) == IF p > m.maxpass THEN run
                                 ELSE RunPasses(fl, m, RunPass(fl, m, run, seq, 1, p = m.maxpass), seq, p + 1)
RunAll(fl, m, r0, seq) == Finish(fl, RunPasses(fl, m, r0, seq, 1))

-----------------------------------------------------------------------------
(* ---- mutate.Extract (go-containerregistry): what UnpackSquashed feeds to unpack() ---- *)
KeyDir(k) == IF k.segs # <<>> THEN [k EXCEPT !.segs = Front(@)]
             ELSE IF k.ups > 0 THEN [k EXCEPT !.ups = @ - 1] ELSE k
RECURSIVE InWhiteoutDir(_, _)
InWhiteoutDir(nondir, k) == LET d == KeyDir(k) IN
                            IF d = k THEN FALSE ELSE IF d \in nondir THEN TRUE ELSE InWhiteoutDir(nondir, d)
CleanedName(k) == [abs |-> k.abs, segs |-> IF k.ups = 0 /\ k.segs = <<>> THEN (IF k.abs THEN <<"">> ELSE <<".">>)
                                           ELSE Ups(k.ups) \o k.segs]
RECURSIVE FlattenAcc(_, _, _, _)
FlattenAcc(todo, seen, nondir, out) ==
  IF todo = <<>> THEN out
  ELSE LET e == Head(todo)
           k == Clean(e.n) IN
       IF k \in seen \/ InWhiteoutDir(nondir, k) THEN FlattenAcc(Tail(todo), seen, nondir, out)
       ELSE FlattenAcc(Tail(todo), seen \cup {k}, IF e.t = "dir" THEN nondir ELSE nondir \cup {k},
                       Append(out, [e EXCEPT !.n = CleanedName(k)]))
RECURSIVE Concat(_)
Concat(ls) == IF ls = <<>> THEN <<>> ELSE Head(ls) \o Concat(Tail(ls))
Reverse(s) == [i \in 1..Len(s) |-> s[Len(s) + 1 - i]]
Flatten(layers) == FlattenAcc(Concat(Reverse(layers)), {}, {}, <<>>)
\* mutate.Extract re-encodes every header with the cleaned name; archive/tar refuses a regular file called "/"
\* ("filename may not have trailing slash"): SaveToTarball fails and UnpackSquashed returns before unpacking
FlattenFails(out) == \E i \in 1..Len(out) : out[i].t = "reg" /\ out[i].n = A(<<"">>)

-----------------------------------------------------------------------------
(* ---- the image loader: FromV1Image / FromTarball, then CleanUp ---- *)
\* ifs: the on-disk content of the extraction directory X (paths start with "layer-<i>"); keys: the
\* virtual paths already present in the chain layer being filled.  A leading "/" of the cleaned name is
\* dropped (entry names are relative to the image root), so "/a" and "a" are the same entry.
ImgKey(cn) == cn.segs
ParentKeys(cn) == {SubSeq(cn.segs, 1, i) : i \in 0..(Len(cn.segs) - 1)}
\* fillChainLayersWithFileNode drops a node that lies below a non-directory of the same chain layer (inWhiteoutDir)
Insertable(nondir, k) == \A i \in 0..(Len(k) - 1) : SubSeq(k, 1, i) \notin nondir
ImgStep(st, ld, e) ==
  IF st.st # "run" THEN st
  ELSE LET cn == Clean(e.n)
           real == <<ld>> \o cn.segs
           done == [st EXCEPT !.keys = @ \cup {k \in {ImgKey(cn)} \cup ParentKeys(cn) : Insertable(st.nondir, k)},
                              !.nondir = IF e.t # "dir" /\ Insertable(st.nondir, ImgKey(cn)) THEN @ \cup {ImgKey(cn)} ELSE @]
       IN
    IF cn.ups > 0 THEN st                                                     \* ZipSlipFilter: "../" prefix (".." itself: base name "..")
    ELSE IF cn.segs = <<>> THEN st                                            \* "." and "/" (base name ".")
    ELSE IF ImgKey(cn) \in st.keys THEN st                                    \* already in this chain layer
    ELSE IF e.t = "dir" THEN                                                  \* handleDir
      IF Stat(st.fs, real).st = "ok" THEN done
      ELSE LET m == MkdirAll(st.fs, real) IN
           IF m.ok THEN [done EXCEPT !.fs = m.fs] ELSE [st EXCEPT !.fs = m.fs, !.st = "abort"]
    ELSE IF e.t = "reg" THEN                                                  \* handleFile
      LET m == MkdirAll(st.fs, Front(real)) IN
      IF ~m.ok THEN [st EXCEPT !.fs = m.fs, !.st = "abort"]
      ELSE LET ex == Stat(m.fs, real)
               \* content ids: k = "c<k>"; 100+k = the first MaxFileBytes bytes of big file k; 200+k = "c<k>" written
               \* over the start of a longer file (O_CREATE|O_RDWR without O_TRUNC)
               c == IF e.big THEN e.c + 100
                    ELSE IF ex.st = "ok" /\ m.fs[real].k = "file" /\ m.fs[real].c >= 100 THEN e.c + 200 ELSE e.c
           IN IF ex.st = "ok" /\ m.fs[real].k = "dir" THEN [st EXCEPT !.fs = m.fs, !.st = "abort"]       \* EISDIR
              ELSE IF ex.st = "ok" THEN                                                                    \* O_CREATE without O_TRUNC on an existing file
                     (IF e.big THEN [st EXCEPT !.fs = With(m.fs, real, File(c))] ELSE [done EXCEPT !.fs = With(m.fs, real, File(c))])
              ELSE LET w == Create(m.fs, real, File(c)) IN
                   IF ~w.ok THEN [st EXCEPT !.fs = m.fs, !.st = "abort"]
                   ELSE IF e.big THEN [st EXCEPT !.fs = w.fs]                  \* ErrFileReadLimitExceeded: skipped, the cut file stays
                   ELSE [done EXCEPT !.fs = w.fs]
    ELSE                                                                      \* handleSymlink: virtual only
      IF EmptyStr(e.l) THEN [st EXCEPT !.st = "abort"]                        \* "symlink header has no target path"
      ELSE IF TargetOutsideRoot(cn, e.l) THEN st
      ELSE done

-----------------------------------------------------------------------------
(* ---- scenarios and the state machine ---- *)
VARIABLES phase,    \* "build" | "run" | "sweep" | "done"
          entries,  \* the scenario: entries in archive order
          cut,      \* entries 1..cut form layer 1, the rest layer 2 (cut = Len: one layer)
          mode, sib, reqr, maxpass,
          seq,      \* the stream unpack() reads (raw concatenation, or Flatten of the layers)
          pass, idx,
          ideal, asb,   \* the two transcriptions: [fs, req, st]
          img           \* image loader: [fs, keys, st], layer counter in pass (counts down)
vars == <<phase, entries, cut, mode, sib, reqr, maxpass, seq, pass, idx, ideal, asb, img>>

IsImg == mode \in {"img-v1", "img-tb"}
IsTb == mode \in {"tb-retain-log", "tb-retain-ret", "tb-ignore-log", "tb-ignore-ret"}
M == [ignore |-> mode \in {"tb-ignore-log", "tb-ignore-ret"},
      ret |-> mode \in {"tb-retain-ret", "tb-ignore-ret", "sq-retain-ret"},
      reqr |-> reqr, maxpass |-> maxpass]
Layers == IF cut = Len(entries) THEN <<entries>> ELSE <<SubSeq(entries, 1, cut), SubSeq(entries, cut + 1, Len(entries))>>
FS0 == InitFS(sib)
Run0 == [fs |-> FS0, req |-> {}, st |-> "run"]
StartRun == IF ~IsImg /\ ~IsTb /\ FlattenFails(seq) THEN [Run0 EXCEPT !.st = "abort"] ELSE Run0
Img0 == [fs |-> [p \in {<<>>} |-> Dir], keys |-> {<<>>}, nondir |-> {}, st |-> "run"]

Init == /\ phase = "build" /\ entries = <<>> /\ cut = 0 /\ seq = <<>> /\ pass = 0 /\ idx = 0
        /\ mode \in Modes /\ sib \in Sibs /\ reqr \in Reqs /\ maxpass \in MaxPasses
        /\ ideal = Run0 /\ asb = Run0 /\ img = Img0

AddEntry(e) == /\ phase = "build" /\ Len(entries) < MaxEntries
               /\ WellFormedEntry(e)
               /\ Shape(Append(entries, e))
               /\ entries' = Append(entries, [n |-> e.n, t |-> e.t, l |-> e.l, big |-> e.big, c |-> Len(entries) + 1])
               /\ UNCHANGED <<phase, cut, mode, sib, reqr, maxpass, seq, pass, idx, ideal, asb, img>>

Start(k) == /\ phase = "build" /\ entries # <<>>
            /\ k \in 1..Len(entries) /\ (IsTb => k = Len(entries))
            /\ cut' = k
            /\ LET ls == IF k = Len(entries) THEN <<entries>> ELSE <<SubSeq(entries, 1, k), SubSeq(entries, k + 1, Len(entries))>> IN
               /\ seq' = IF IsImg THEN <<>> ELSE IF IsTb THEN entries ELSE Flatten(ls)
               /\ pass' = IF IsImg THEN Len(ls) ELSE 1
               /\ LET r0 == IF ~IsImg /\ ~IsTb /\ FlattenFails(Flatten(ls)) THEN [Run0 EXCEPT !.st = "abort"] ELSE Run0
                  IN ideal' = r0 /\ asb' = r0
            /\ idx' = 1 /\ phase' = "run"
            /\ UNCHANGED <<entries, mode, sib, reqr, maxpass, img>>

\* one tar entry of one pass, both transcriptions (NextPass when the stream is exhausted)
StepUnpack == /\ phase = "run" /\ ~IsImg
              /\ IF idx > Len(seq)
                 THEN /\ IF pass = maxpass THEN phase' = "sweep" /\ pass' = pass ELSE phase' = phase /\ pass' = pass + 1
                      /\ idx' = 1 /\ UNCHANGED <<ideal, asb>>
                 ELSE /\ ideal' = StepEntry(NoDevs, M, ideal, seq[idx], pass = maxpass)
                      /\ asb' = StepEntry(DevOn, M, asb, seq[idx], pass = maxpass)
                      /\ idx' = idx + 1 /\ UNCHANGED <<phase, pass>>
              /\ UNCHANGED <<entries, cut, mode, sib, reqr, maxpass, seq, img>>
Sweep == /\ phase = "sweep"
         /\ ideal' = Finish(NoDevs, ideal) /\ asb' = Finish(DevOn, asb)
         /\ phase' = "done"
         /\ UNCHANGED <<entries, cut, mode, sib, reqr, maxpass, seq, pass, idx, img>>

\* image loader: newest layer first; every layer starts with an empty key set
StepImage == /\ phase = "run" /\ IsImg
             /\ IF pass = 0 THEN phase' = "done" /\ UNCHANGED <<pass, idx, img>>
                ELSE IF idx > Len(Layers[pass])
                THEN /\ pass' = pass - 1 /\ idx' = 1 /\ phase' = phase
                     /\ img' = [img EXCEPT !.keys = Img0.keys, !.nondir = {}]
                ELSE /\ LET ld == IF pass = 1 THEN "layer-0" ELSE "layer-1"
                            st0 == IF idx = 1 /\ img.st = "run" THEN [img EXCEPT !.fs = With(@, <<ld>>, Dir)] ELSE img
                        IN img' = ImgStep(st0, ld, Layers[pass][idx])
                     /\ idx' = idx + 1 /\ UNCHANGED <<phase, pass>>
             /\ UNCHANGED <<entries, cut, mode, sib, reqr, maxpass, seq, ideal, asb>>

Next == \/ \E e \in Entries : AddEntry(e)
        \/ \E k \in 1..MaxEntries : Start(k)
        \/ StepUnpack \/ Sweep \/ StepImage
Spec == Init /\ [][Next]_vars
Terminal == phase = "done"

-----------------------------------------------------------------------------
(* ---- the property ---- *)
OutsideChanged(fs) == {p \in DOMAIN fs \cup DOMAIN FS0 : ~Inside(p) /\ (p \notin DOMAIN fs \/ p \notin DOMAIN FS0 \/ fs[p] # FS0[p])}
EscapingLinks(fs) == {p \in SymsInTarget(fs) : Escapes(fs, p)}
Viol(fs) == [out |-> {<<p, IF p \in DOMAIN fs THEN fs[p] ELSE Dir>> : p \in OutsideChanged(fs)}, esc |-> EscapingLinks(fs)]
NoViol == [out |-> {}, esc |-> {}]

\* Containment, ideal transcription: no step changes a node outside the target; nothing the target
\* had before is touched; at the end no link in the target leads outside
ContainmentIdeal == /\ OutsideChanged(ideal.fs) = {}
                    /\ \A p \in DOMAIN FS0 : p \in DOMAIN ideal.fs /\ ideal.fs[p] = FS0[p]
                    /\ Terminal => EscapingLinks(ideal.fs) = {}
\* image loader: everything it writes is under X (by construction of ifs: a path starts with a layer directory
\* and Walk never leaves the root of ifs - the Assert in Walk), and CleanUp removes X whatever happened
ImageContainment == IsImg => \A p \in DOMAIN img.fs : p = <<>> \/ p[1] \in {"layer-0", "layer-1"}

\* attribution of as-built violations to the listed deviations: a set S of deviations is blamed for a scenario
\* when repairing exactly S changes the scenario's set of violations; the smallest such sets count (one
\* deviation alone where that suffices; {lnk, pre} together for a link created in the sibling THROUGH a link)
FixSet(S) == [x \in DevNames |-> DevOn[x] /\ x \notin S]
BlameK(k) == UNION {S \in SUBSET ActiveDevs : Cardinality(S) = k /\ Viol(RunAll(FixSet(S), M, StartRun, seq).fs) # Viol(asb.fs)}
RECURSIVE BlameFrom(_)
BlameFrom(k) == IF k > Cardinality(ActiveDevs) THEN {}
                ELSE LET b == BlameK(k) IN IF b # {} THEN b ELSE BlameFrom(k + 1)
DevsBlamed == IF IsImg \/ Viol(asb.fs) = NoViol THEN {} ELSE BlameFrom(1)
Completeness == (Terminal /\ ~IsImg /\ Viol(asb.fs) # NoViol) => DevsBlamed # {}
\* the lock-step machine and the functional form agree
LockStep == (Terminal /\ ~IsImg) => asb = RunAll(DevOn, M, StartRun, seq)
NoDevsNoDifference == ActiveDevs = {} => asb = ideal

-----------------------------------------------------------------------------
(* ---- case emission (binding A) ---- *)
Created(fs) == {[p |-> p, k |-> fs[p].k, c |-> fs[p].c, abs |-> fs[p].abs, segs |-> fs[p].segs] : p \in DOMAIN fs \ DOMAIN FS0}
ImgNodes == {[p |-> p, k |-> img.fs[p].k, c |-> img.fs[p].c] : p \in DOMAIN img.fs \ {<<>>}}
CaseWith(d) == [mode |-> mode, sib |-> sib, reqr |-> reqr, maxpass |-> maxpass, layers |-> Layers,
                exp |-> Created(ideal.fs), exp_err |-> ideal.st = "abort",
                asb |-> Created(asb.fs), asb_err |-> asb.st = "abort",
                esc |-> EscapingLinks(asb.fs), devs |-> d,
                loaded |-> img.st = "run", mid |-> IF img.st = "run" THEN ImgNodes ELSE {}]
\* one case per terminal state; the blamed deviations are computed once and Completeness is checked on the way
Emit == Terminal => LET d == DevsBlamed IN
                    /\ (~IsImg /\ Viol(asb.fs) # NoViol) => d # {}
                    /\ PrintT(ToJson(CaseWith(d)))

\* sanity (each must be VIOLATED): the as-built transcription does break containment / leave an escaping link,
\* and the image loader's filter is exercised
SanityOutside == ~(Terminal /\ ~IsImg /\ OutsideChanged(asb.fs) # {})
SanityEscaping == ~(Terminal /\ ~IsImg /\ EscapingLinks(asb.fs) # {})
AsBuiltContained == ~IsImg => (OutsideChanged(asb.fs) = {} /\ (Terminal => EscapingLinks(asb.fs) = {}))

-----------------------------------------------------------------------------
(* ---- entry alphabets and scenario shapes of the families (chosen in the cfg by substitution) ---- *)
BaseSegs == {"..", ".", "", "a", "out-evil"}
RawUpTo3(S) == {<<x>> : x \in S} \cup {<<x, y>> : x \in S, y \in S} \cup {<<x, y, z>> : x \in S, y \in S, z \in S}
\* every string built from <= 3 segments, absolute or relative; a relative spelling that starts with an empty
\* segment is the same string as a shorter absolute one and is left out
AllRaw(S) == {A(s) : s \in RawUpTo3(S)} \cup {R(s) : s \in {t \in RawUpTo3(S) : Len(t) = 1 \/ t[1] # ""}}
LongNames == {R(<<"la", "lb", "lc">>), R(<<"lx">>), R(<<"a", "lx">>), R(<<"..", "la", "lb">>)}
AnyShape(es) == TRUE

\* family "spell": one entry, every raw spelling of its name
SpellTargets == {A(<<"a">>), R(<<"a">>), R(<<"..">>)}
EntriesSpell == LET N == AllRaw(BaseSegs) \cup LongNames IN
                {Reg(n) : n \in N} \cup {DirE(n) : n \in N}
                \cup {SymE(n, l) : n \in N, l \in SpellTargets} \cup {HardE(n, l) : n \in N, l \in SpellTargets}

\* family "links": a link with every raw spelling of its target, and something written through it, either order
LinkTargetsAll == AllRaw(BaseSegs) \cup {R(<<"">>), R(<<"la", "lb", "lc">>), R(<<"lx">>)}
EntriesLinks == {SymE(R(<<"s">>), l) : l \in LinkTargetsAll} \cup {HardE(R(<<"s">>), l) : l \in LinkTargetsAll}
                \cup {Reg(R(<<"s", "x">>)), SymE(R(<<"s", "y">>), A(<<"a">>))}
IsThrough(e) == Len(e.n.segs) = 2
ShapeLinks(es) == IF Len(es) = 1 THEN TRUE ELSE IsThrough(es[1]) # IsThrough(es[2])

\* family "seq": short sequences over a small alphabet of cleaned names, any order, any layer split
EntriesSeq == {SymE(R(<<"a">>), R(<<".">>)),
               SymE(R(<<"b">>), R(<<"a", "..">>)),
               SymE(R(<<"b">>), R(<<"a", "..", "out-evil">>)),
               HardE(R(<<"b">>), R(<<"a", "..">>)),
               SymE(R(<<"a">>), R(<<"b">>)),
               Reg(R(<<"b", "x">>)),
               Reg(R(<<"b", "y", "z">>)),
               SymE(R(<<"b", "s">>), A(<<"a">>)),
               Reg(R(<<"..", "x", "y">>)),
               Reg(R(<<"..", "out-evil", "x">>)),
               SymE(R(<<"..", "s">>), A(<<"a">>)),
               Reg(R(<<"a", "x">>)),
               SymE(R(<<"b", "y", "s">>), A(<<"a">>)),      \* a link whose missing parent directories lie below "b"
               SymE(R(<<"b">>), R(<<"a", "..", "x">>)),     \* lexically inside, physically a not yet existing file next to the target
               Reg(R(<<"b">>)),                             \* a regular entry with the name of an earlier (possibly dangling) link
               DirE(R(<<"b">>))}
\* thorough: the same plus rejected targets, absolute spellings, long names, loops, big files, deeper links
EntriesSeqBig == EntriesSeq \cup
              {SymE(R(<<"a">>), A(<<"">>)),
               SymE(R(<<"a">>), R(<<"b", "..">>)),
               SymE(R(<<"a">>), R(<<"a">>)),
               SymE(R(<<"b">>), R(<<"..">>)),
               SymE(R(<<"b">>), R(<<"..", "out-evil">>)),
               HardE(R(<<"b">>), R(<<"a", "..", "out-evil">>)),
               Reg(R(<<"a">>)), Reg(R(<<"b">>)), DirE(R(<<"a">>)),
               Reg(A(<<"b", "x">>)),
               SymE(A(<<"b">>), R(<<"a", "..">>)),
               Reg(R(<<"b", "lx">>)), Reg(R(<<"la", "lb", "lc">>)),
               SymE(R(<<"b", "s">>), R(<<"x">>)),
               SymE(R(<<"b", "y", "s">>), R(<<"..", "..">>)),
               Reg(R(<<"..", "..", "x">>)),
               BigReg(R(<<"b", "x">>))}
\* four entries: links that climb one level each (a -> ., b -> a/.., c -> b/..) and things written through them
EntriesSeq4 == {SymE(R(<<"a">>), R(<<".">>)),
                SymE(R(<<"b">>), R(<<"a", "..">>)),
                SymE(R(<<"b">>), R(<<"a", "..", "out-evil">>)),
                SymE(R(<<"c">>), R(<<"b", "..">>)),
                Reg(R(<<"b", "x">>)),
                Reg(R(<<"c", "x", "y">>)),
                SymE(R(<<"c", "s">>), A(<<"a">>)),
                SymE(R(<<"b", "s">>), A(<<"a">>))}
\* family "misc": required-target bookkeeping over several passes (requirer "links only"), MaxPass 1..3,
\* sibling absent, files larger than MaxFileBytes
EntriesMisc == {Reg(R(<<"a">>)), Reg(R(<<"b", "x">>)), BigReg(R(<<"c">>)), BigReg(R(<<"..", "out-evil", "x">>)),
                SymE(R(<<"s">>), R(<<"a">>)), SymE(R(<<"s">>), A(<<"b", "x">>)), SymE(R(<<"b">>), R(<<".">>)),
                HardE(R(<<"d">>), R(<<"b", "x">>)),
                SymE(R(<<"..", "s">>), A(<<"a">>)), Reg(R(<<"..", "out-evil", "x">>)), Reg(R(<<"..", "x", "y">>)),
                Reg(R(<<"b", "lx">>))}      \* a 300-byte component: WriteFile / OpenFile fail, the error paths run
=============================================================================
