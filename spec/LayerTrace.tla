------------------------------ MODULE LayerTrace ------------------------------
(***************************************************************************)
(* C05 - packages are attributed to the layer that introduced them.        *)
(*                                                                         *)
(* State: a container image history under construction (hist), built by    *)
(* the actions AddLayer(ops) / AddEmptyLayer, closed by Close(al) which     *)
(* also chooses how the image's config history is aligned with the layers.  *)
(*                                                                         *)
(* A layer applies to every package-list file f one op:                     *)
(*    ignore | write(S), S a set of packages | delete (OCI whiteout)        *)
(* (delete + write in one layer is a write).  An empty layer is a history   *)
(* entry with empty_layer = true and no tar.  A package identity p stands   *)
(* for one package URL (p1 and p2 are rendered as two versions of one       *)
(* name, p3 as another name); the same p in two files are two packages      *)
(* (same purl, different location).                                         *)
(*                                                                         *)
(* Declarative part: View(h, i, f) = content of f in the image-up-to-layer  *)
(* view i; Intro(h, f, p) = the earliest L with p in View(h, j, f) for all  *)
(* j in L..last; Details(h, al, L) = index / build command / tar (diff id)  *)
(* that layer L carries under history alignment al.                         *)
(*                                                                         *)
(* Operational part, in the shape of the code:                              *)
(*  - InitChain: image.go initializeChainLayers + validateHistory (which    *)
(*    chain layers exist and which index / command / v1 layer each carries),*)
(*  - Pick / LoopStep: trace.go PopulateLayerDetails, one step per          *)
(*    iteration of the backwards loop: cache lookup keyed <location, i>,    *)
(*    Stat in chain layer i, "file not in this layer's own diff -> skip     *)
(*    without updating lastScanned", re-extract in chain layer i, compare   *)
(*    purl + location, attribute to lastScanned / to chain layer 0.         *)
(* The chain layer file systems are taken to be the OCI overlay (View):     *)
(* that they are is property C04, not re-checked here.                      *)
(*                                                                         *)
(* Chain layers and model layers are numbered from 1 here; the code and     *)
(* the emitted "idx" count from 0.                                          *)
(***************************************************************************)
EXTENDS Integers, Sequences, FiniteSets, TLC, Json

CONSTANTS NF,              \* number of package-list files (1..2)
          NP,              \* number of package identities (1..3)
          MaxLayers,       \* 1..MaxLayers history entries (layers + empty layers)
          AllowEmpty,      \* BOOLEAN: empty layers (history-only entries) may be interleaved
          OneFilePerLayer, \* TRUE: a layer touches at most one file (sparse histories for the random sampler)
          Aligns,          \* subset of {"match", "missing", "short", "long"}
          Stepwise,        \* TRUE: PopulateLayerDetails runs as TLC actions (any package order, invariants
                           \*       at every step); FALSE: it is run to completion inside Close
          TwoExtractors,   \* extension (outside C05's quantifier): the last package of PSeq comes from a
                           \*       second extractor reading the same files
          KeyByExtractor   \* FALSE = as built: extraction cache keyed by <location, layer> only

\* files (paths) and package identities, each in the code's sort order (location; name, version).
\* The harness renders p1, p2 as two versions of one name and p3 as another name.
FSeq == SubSeq(<<"var/f1", "var/f2">>, 1, NF)
PSeq == SubSeq(<<"p1", "p2", "p3">>, 1, NP)
Files == {FSeq[x] : x \in 1..Len(FSeq)}
P     == {PSeq[x] : x \in 1..Len(PSeq)}
ExtOf(p) == IF TwoExtractors /\ p = PSeq[Len(PSeq)] THEN "e2" ELSE "e1"

OpIgnore   == [k |-> "ignore", pk |-> {}]
OpDelete   == [k |-> "delete", pk |-> {}]
OpWrite(S) == [k |-> "write", pk |-> S]
Ops        == {OpIgnore, OpDelete} \cup {OpWrite(S) : S \in SUBSET P}
EmptyLayer == [empty |-> TRUE, ops |-> [f \in Files |-> OpIgnore]]

VARIABLES hist,    \* sequence of layers [empty, ops]
          phase,   \* "build" | "trace" | "done"
          align,   \* alignment of the config history, chosen by Close
          chain,   \* the image's chain layers as FromV1Image builds them (set by Close)
          op       \* state of PopulateLayerDetails
vars == <<hist, phase, align, chain, op>>

-----------------------------------------------------------------------------
(* ---- declarative: views, introducing layer, what a layer carries ---- *)
Absent == [present |-> FALSE, pk |-> {}]
RECURSIVE View(_, _, _)
View(h, i, f) == IF i = 0 THEN Absent
                 ELSE LET o == h[i].ops[f] IN
                      IF o.k = "ignore" THEN View(h, i - 1, f)
                      ELSE IF o.k = "delete" THEN Absent
                      ELSE [present |-> TRUE, pk |-> o.pk]
Has(h, i, f, p) == View(h, i, f).present /\ p \in View(h, i, f).pk
Final(h) == {pf \in P \X Files : Has(h, Len(h), pf[2], pf[1])}

\* the earliest L such that p is present in every view L..last
Intro(h, f, p) == LET n == Len(h) IN
  CHOOSE L \in 1..n : (\A j \in L..n : Has(h, j, f, p)) /\ (L = 1 \/ ~Has(h, L - 1, f, p))

Cmd(j) == "RUN " \o ToString(j)
NonEmpty(h) == SelectSeq([j \in 1..Len(h) |-> j], LAMBDA j : ~h[j].empty)   \* model positions of the tars
TarOf(h, j) == Cardinality({x \in 1..j : ~h[x].empty})                        \* ordinal of layer j's tar (j non-empty)

\* What layer L (non-empty) must carry.  "match": the config history has one entry per layer, in order,
\* so the index counts every history entry (empty layers included) and the command is the entry's.
\* Otherwise the config history does not describe the layers (no entries / too few / too many non-empty
\* entries): nothing relates an entry to a layer, the index is the position among the image's layers and
\* no command is known.
Details(h, al, L) == IF al = "match" THEN [idx |-> L - 1, cmd |-> Cmd(L), layer |-> TarOf(h, L)]
                     ELSE [idx |-> TarOf(h, L) - 1, cmd |-> "", layer |-> TarOf(h, L)]

-----------------------------------------------------------------------------
(* ---- the image's config history under each alignment ---- *)
FullHistory(h) == [j \in 1..Len(h) |-> [empty |-> h[j].empty, cmd |-> Cmd(j)]]
ConfigHistory(h, al) ==
  LET full == FullHistory(h) IN
  CASE al = "match"   -> full
    [] al = "missing" -> <<>>                                   \* image config without history
    [] al = "short"   -> LET k == NonEmpty(h)[1] IN             \* the first layer's entry is missing
                         SubSeq(full, 1, k - 1) \o SubSeq(full, k + 1, Len(full))
    [] al = "long"    -> Append(full, [empty |-> FALSE, cmd |-> "RUN x"])   \* one non-empty entry too many

-----------------------------------------------------------------------------
(* ---- operational: image.go initializeChainLayers / validateHistory ---- *)
\* a chain layer: idx = chainLayer.index, cmd = Layer().Command(), tar = ordinal of its v1 layer (0: empty
\* layer, no diff id), upto = number of v1 layers whose content its file system holds; LoadChain adds
\* fs = the chain layer's file system and diff = the files its own layer holds as regular files
ValidateHistory(nv1, ch) == Cardinality({x \in 1..Len(ch) : ~ch[x].empty}) = nv1
RECURSIVE WalkHistory(_, _, _, _, _)
WalkHistory(ch, x, v1i, nv1, acc) ==      \* x: next history entry; v1i: v1 layers consumed; Len(acc) = historyIndex
  IF x <= Len(ch) THEN
    IF ch[x].empty
    THEN WalkHistory(ch, x + 1, v1i, nv1, Append(acc, [idx |-> Len(acc), cmd |-> ch[x].cmd, tar |-> 0, upto |-> v1i]))
    ELSE WalkHistory(ch, x + 1, v1i + 1, nv1, Append(acc, [idx |-> Len(acc), cmd |-> ch[x].cmd, tar |-> v1i + 1, upto |-> v1i + 1]))
  ELSE IF v1i < nv1                      \* "history is missing entries" tail (unreachable after validateHistory)
  THEN WalkHistory(ch, x, v1i + 1, nv1, Append(acc, [idx |-> Len(acc), cmd |-> "", tar |-> v1i + 1, upto |-> v1i + 1]))
  ELSE acc
InitChain(h, al) ==
  LET nv1 == Len(NonEmpty(h))
      ch  == ConfigHistory(h, al) IN
  IF ~ValidateHistory(nv1, ch)
  THEN [k \in 1..nv1 |-> [idx |-> k - 1, cmd |-> "", tar |-> k, upto |-> k]]     \* index-only fallback
  ELSE WalkHistory(ch, 1, 0, nv1, <<>>)

\* file system of chain layer c / of its own layer (FromV1Image's fill; the overlay is taken from View, see C04)
TarView(h, t, f) == IF t = 0 THEN Absent ELSE View(h, NonEmpty(h)[t], f)
LoadChain(h, al) ==
  LET ic == InitChain(h, al)
      ne == NonEmpty(h) IN
  [c \in 1..Len(ic) |->
     [idx |-> ic[c].idx, cmd |-> ic[c].cmd, tar |-> ic[c].tar, upto |-> ic[c].upto,
      fs   |-> [f \in Files |-> TarView(h, ic[c].upto, f)],
      \* Layer().FS().Stat(f) succeeds iff the layer's own tar holds f as a regular file (a whiteout node
      \* Stats as not-exist; an empty layer has no tree)
      diff |-> IF ic[c].tar = 0 THEN {} ELSE {f \in Files : h[ne[ic[c].tar]].ops[f].k = "write"}]]
ChainView(ch, c, f) == IF c = 0 THEN Absent ELSE ch[c].fs[f]
InDiff(ch, c, f) == f \in ch[c].diff
\* what PopulateLayerDetails copies into LayerDetails for chain layer c
ChainDetails(ch, c) == [idx |-> c - 1, cmd |-> ch[c].cmd, layer |-> ch[c].tar]

-----------------------------------------------------------------------------
(* ---- operational: trace.go PopulateLayerDetails ---- *)
\* op = [pc, todo (packages not yet traced), cur = <<p, f>>, i (chain layer under examination), last
\*       (lastScannedLayerIndex), cache (set of <<key, packages>>), attr (set of <<p, f, chain layer>>)]
NoOp == [pc |-> "idle", todo |-> {}, cur |-> <<>>, i |-> 0, last |-> 0, cache |-> {}, attr |-> {}]
InitOp(h) == [NoOp EXCEPT !.pc = "pick", !.todo = Final(h)]

Pick(ch, st, pf) == [st EXCEPT !.pc = "loop", !.todo = @ \ {pf}, !.cur = pf,
                               !.i = Len(ch) - 1, !.last = Len(ch)]
CacheKey(f, c, e) == <<f, c, IF KeyByExtractor THEN e ELSE "any">>
\* filesystem.Run on chain layer c with Extractors = {e}, PathsToExtract = {f}
ExtractIn(ch, c, f, e) == {q \in ChainView(ch, c, f).pk : ExtOf(q) = e}

LoopStep(ch, st) ==
  LET p == st.cur[1]
      f == st.cur[2]
      e == ExtOf(p)
      c == st.i
  IN
  IF c = 0 THEN [st EXCEPT !.pc = "pick", !.attr = @ \cup {<<p, f, 1>>}]       \* !foundOrigin: first chain layer
  ELSE
    LET key == CacheKey(f, c, e)
        hit == {t \in st.cache : t[1] = key}
        \* compare purl and location with the packages of the old layer, then attribute or move on
        Compare(old, cache2) ==
          IF p \in old THEN [st EXCEPT !.cache = cache2, !.last = c, !.i = c - 1]
          ELSE [st EXCEPT !.cache = cache2, !.pc = "pick", !.attr = @ \cup {<<p, f, st.last>>}]
    IN IF hit # {} THEN Compare((CHOOSE t \in hit : TRUE)[2], st.cache)
       ELSE IF ~ChainView(ch, c, f).present THEN Compare({}, st.cache \cup {<<key, {}>>})
       ELSE IF InDiff(ch, c, f)
            THEN LET old == ExtractIn(ch, c, f, e) IN Compare(old, st.cache \cup {<<key, old>>})
       ELSE [st EXCEPT !.i = c - 1]        \* file not in this layer's own diff: skip, lastScanned unchanged

\* the code's order of inventory.Packages after sortResults: name, version, extractor, locations
PairSeq == [k \in 1..(Len(PSeq) * Len(FSeq)) |->
              <<PSeq[((k - 1) \div Len(FSeq)) + 1], FSeq[((k - 1) % Len(FSeq)) + 1]>>]
NextInOrder(todo) == PairSeq[CHOOSE k \in 1..Len(PairSeq) :
                               PairSeq[k] \in todo /\ \A m \in 1..(k - 1) : PairSeq[m] \notin todo]
RECURSIVE Run(_, _)
Run(ch, st) == IF st.pc = "done" THEN st
               ELSE IF st.pc = "pick"
                    THEN IF st.todo = {} THEN [st EXCEPT !.pc = "done"]
                         ELSE Run(ch, Pick(ch, st, NextInOrder(st.todo)))
               ELSE Run(ch, LoopStep(ch, st))

-----------------------------------------------------------------------------
(* ---- actions ---- *)
Init == hist = <<>> /\ phase = "build" /\ align = "none" /\ chain = <<>> /\ op = NoOp

\* layers are consistent snapshot diffs: a whiteout only for a file the view below has
LegalOps(h, ops) == \A f \in Files : ops[f].k = "delete" => View(h, Len(h), f).present
AddLayer(ops) == /\ phase = "build" /\ Len(hist) < MaxLayers
                 /\ LegalOps(hist, ops)
                 /\ OneFilePerLayer => Cardinality({f \in Files : ops[f].k # "ignore"}) <= 1
                 /\ hist' = Append(hist, [empty |-> FALSE, ops |-> ops])
                 /\ UNCHANGED <<phase, align, chain, op>>
AddEmptyLayer == /\ phase = "build" /\ Len(hist) < MaxLayers /\ AllowEmpty
                 /\ hist' = Append(hist, EmptyLayer)
                 /\ UNCHANGED <<phase, align, chain, op>>
Close(al) == /\ phase = "build" /\ NonEmpty(hist) # <<>>
             /\ align' = al
             /\ chain' = LoadChain(hist, al)
             /\ IF Stepwise THEN phase' = "trace" /\ op' = InitOp(hist)
                ELSE phase' = "done" /\ op' = Run(chain', InitOp(hist))
             /\ UNCHANGED hist
\* Stepwise: one action per step of PopulateLayerDetails; the next package is any untraced one
TracePick(pf) == /\ phase = "trace" /\ op.pc = "pick" /\ pf \in op.todo
                 /\ op' = Pick(chain, op, pf)
                 /\ UNCHANGED <<hist, phase, align, chain>>
TraceLoop == /\ phase = "trace" /\ op.pc = "loop"
             /\ op' = LoopStep(chain, op)
             /\ UNCHANGED <<hist, phase, align, chain>>
TraceDone == /\ phase = "trace" /\ op.pc = "pick" /\ op.todo = {}
             /\ op' = [op EXCEPT !.pc = "done"] /\ phase' = "done"
             /\ UNCHANGED <<hist, align, chain>>
Next == \/ \E ops \in [Files -> Ops] : AddLayer(ops)
        \/ AddEmptyLayer
        \/ \E al \in Aligns : Close(al)
        \/ \E pf \in P \X Files : TracePick(pf)
        \/ TraceLoop
        \/ TraceDone
Spec == Init /\ [][Next]_vars

Done == phase = "done"

-----------------------------------------------------------------------------
(* ---- properties ---- *)
AttrOf(st, pf) == {t \in st.attr : t[1] = pf[1] /\ t[2] = pf[2]}
\* the model layer whose tar chain layer c carries (0: none, an empty layer)
SrcOf(ne, ch, c) == IF ch[c].tar = 0 THEN 0 ELSE ne[ch[c].tar]

\* C05 on the model: every package of the final view is attributed exactly once, and to a chain layer that
\* carries exactly the index / command / diff id of its introducing layer
Agree == Done => \A pf \in Final(hist) :
           LET a == AttrOf(op, pf) IN
           /\ Cardinality(a) = 1
           /\ \A t \in a : ChainDetails(chain, t[3]) = Details(hist, align, Intro(hist, pf[2], pf[1]))
\* nothing else is attributed
OnlyFinal == op.attr # {} => LET fin == Final(hist) IN \A t \in op.attr : <<t[1], t[2]>> \in fin
\* the chain layer's own index is its position (the code copies the position, not Index())
ChainIndexIsPosition == \A c \in 1..Len(chain) : chain[c].idx = c - 1
\* a matching history yields one chain layer per history entry; anything else one per v1 layer; and the
\* chain layers carry the v1 layers in order, each exactly once
ChainShape == phase # "build" =>
                /\ Len(chain) = IF align = "match" THEN Len(hist) ELSE Len(NonEmpty(hist))
                /\ SelectSeq([c \in 1..Len(chain) |-> chain[c].tar], LAMBDA t : t # 0)
                     = [t \in 1..Len(NonEmpty(hist)) |-> t]

\* the lemma that makes the skip sound: the file is visible in chain layer c but not in that layer's own
\* diff => chain layer c shows the same content as chain layer c-1
SkipLemma == \A c \in 1..Len(chain), f \in Files :
               (ChainView(chain, c, f).present /\ ~InDiff(chain, c, f))
                 => ChainView(chain, c, f) = ChainView(chain, c - 1, f)
\* the same on the history itself
SkipLemmaHist == \A j \in 1..Len(hist), f \in Files :
                   (View(hist, j, f).present /\ hist[j].ops[f].k # "write") => View(hist, j, f) = View(hist, j - 1, f)

\* the extraction cache only ever holds what the chain layer's file really contains (one extractor)
CacheSound == ~TwoExtractors => \A t \in op.cache : t[2] = ChainView(chain, t[1][2], t[1][1]).pk

\* removed and re-added => attributed to the re-adding layer: the attributed layer is a real layer, later
\* than every layer whose view lacks the package, and it wrote the file with the package in it
ReAdded == Done => LET ne == NonEmpty(hist) IN
           \A pf \in Final(hist) : \A t \in AttrOf(op, pf) :
             LET L == SrcOf(ne, chain, t[3]) IN
             /\ L # 0
             /\ hist[L].ops[pf[2]].k = "write" /\ pf[1] \in hist[L].ops[pf[2]].pk
             /\ \A j \in 1..Len(hist) : ~Has(hist, j, pf[2], pf[1]) => L > j

\* layers that do not touch the file (ignore, empty) never change the attribution: dropping every such
\* layer from the history leaves each package of the file with the same introducing layer, declaratively
\* and operationally
Touching(h, f) == SelectSeq([j \in 1..Len(h) |-> j], LAMBDA j : h[j].ops[f].k # "ignore")
IgnoreNeverChanges == Done => LET fin == Final(hist)  ne == NonEmpty(hist) IN \A f \in Files :
    (\E p \in P : <<p, f>> \in fin /\ Len(Touching(hist, f)) < Len(hist)) =>
       LET pos == Touching(hist, f)
           hc  == [x \in 1..Len(pos) |-> hist[pos[x]]]
           chc == LoadChain(hc, "match")
           stc == Run(chc, InitOp(hc))
           nec == NonEmpty(hc)
           finc == Final(hc)
       IN \A p \in P : <<p, f>> \in fin =>
            /\ <<p, f>> \in finc
            /\ Intro(hist, f, p) = pos[Intro(hc, f, p)]
            /\ \A t \in AttrOf(op, <<p, f>>) : \A tc \in AttrOf(stc, <<p, f>>) :
                  SrcOf(ne, chain, t[3]) = pos[SrcOf(nec, chc, tc[3])]

-----------------------------------------------------------------------------
(* ---- case emission (binding A): one case per complete history and alignment ---- *)
Key(pf) == pf[1] \o "@" \o pf[2]
ExpectOf(h, al) == [k \in {Key(pf) : pf \in Final(h)} |->
                      LET pf == CHOOSE x \in Final(h) : Key(x) = k IN Details(h, al, Intro(h, pf[2], pf[1]))]
AsBuiltOf(h, st) == [k \in {Key(pf) : pf \in Final(h)} |->
                      LET pf == CHOOSE x \in Final(h) : Key(x) = k
                          t  == CHOOSE x \in AttrOf(st, pf) : TRUE
                      IN ChainDetails(chain, t[3])]
LayersOf(h) == [j \in 1..Len(h) |-> [empty |-> h[j].empty, cmd |-> Cmd(j),
                                     ops |-> [f \in {g \in Files : h[j].ops[g].k # "ignore"} |->
                                                [k |-> h[j].ops[f].k, pk |-> h[j].ops[f].pk]]]]
Nontrivial(h) == \E pf \in Final(h) :
                   Intro(h, pf[2], pf[1]) # (CHOOSE j \in 1..Len(h) : h[j].ops[pf[2]].k = "write"
                                                /\ \A m \in 1..(j - 1) : h[m].ops[pf[2]].k # "write")
Case == IF TwoExtractors
        THEN [files |-> FSeq, layers |-> LayersOf(hist), history |-> align, n |-> Len(hist),
              second |-> PSeq[Len(PSeq)],
              nontrivial |-> Nontrivial(hist), expect |-> ExpectOf(hist, align),
              asbuilt |-> AsBuiltOf(hist, op)]
        ELSE [files |-> FSeq, layers |-> LayersOf(hist), history |-> align, n |-> Len(hist),
              nontrivial |-> Nontrivial(hist), expect |-> ExpectOf(hist, align)]
Emit == Done => PrintT(ToJson(Case))

\* sanity (must be violated): some package is removed and re-added, i.e. the antecedent is reachable
NoReAdd == ~(Done /\ \E pf \in Final(hist) : \E a, b \in 1..Len(hist) :
               a < b /\ Has(hist, a, pf[2], pf[1]) /\ ~Has(hist, b, pf[2], pf[1]))
=============================================================================
