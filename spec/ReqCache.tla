------------------------------ MODULE ReqCache ------------------------------
(***************************************************************************)
(* C16(b) - the single-flight request cache of clients/datasource/cache.go *)
(*                                                                         *)
(* One action per critical section of RequestCache.Get:                    *)
(*   Enter(g,k)    the call starts (nothing shared is touched)             *)
(*   CS1(g)        first critical section under rq.mu: cache hit -> return;*)
(*                 pending call -> wait on it; else create the call (lead) *)
(*   FnStart(g)    the leader invokes the caller-supplied fetch function   *)
(*   FnReturn(g,ok,v)  the fetch returns (outside the lock)                *)
(*   CS2(g)        second critical section: wg.Done, cache on success,     *)
(*                 delete own call, return                                 *)
(*   WaitReturn(g) a waiter wakes up once the awaited call is done         *)
(*   SetMap(m)     replaces the cache map (GetMap is the observation)      *)
(* The fetch value space is abstract: every fetch returns a fresh id.      *)
(***************************************************************************)
EXTENDS Integers, FiniteSets, Sequences, TLC

CONSTANTS G,         \* goroutines
          K,         \* keys
          MaxCalls,  \* Get calls per goroutine
          MaxSetMap, \* number of SetMap calls by the environment
          Outcomes   \* subset of BOOLEAN: possible fetch outcomes (TRUE = success)

None == 0
SetMapVal == 1000      \* the value SetMap installs (distinct from every fetch id)
Maps == {[k \in K |-> None]} \cup {[k \in K |-> IF k = k0 THEN SetMapVal ELSE None] : k0 \in K}

VARIABLES cache,    \* K -> value or None                  (rq.cache)
          calls,    \* K -> call id or None                (rq.calls)
          callrec,  \* call id -> [done, ok, val, key]     (requestCacheCall)
          pc,       \* G -> "idle" | "cs1" | "fnstart" | "fnrun" | "cs2" | "wait"
          key,      \* G -> key of the current Get
          mycall,   \* G -> call led / awaited
          fetches,  \* K -> number of fetch invocations
          succ,     \* K -> a successful fetch of k is cached or about to be (history)
          ncalls,   \* G -> Gets begun
          nsetmap,
          ret       \* G -> last returned [ok, val]
vars == <<cache, calls, callrec, pc, key, mycall, fetches, succ, ncalls, nsetmap, ret>>

NextId == Len(callrec) + 1

Init == /\ cache = [k \in K |-> None]
        /\ calls = [k \in K |-> None]
        /\ callrec = <<>>
        /\ pc = [g \in G |-> "idle"]
        /\ key = [g \in G |-> CHOOSE k \in K : TRUE]
        /\ mycall = [g \in G |-> 0]
        /\ fetches = [k \in K |-> 0]
        /\ succ = [k \in K |-> FALSE]
        /\ ncalls = [g \in G |-> 0]
        /\ nsetmap = 0
        /\ ret = [g \in G |-> [ok |-> FALSE, val |-> 0]]

Enter(g, k) == /\ pc[g] = "idle" /\ ncalls[g] < MaxCalls
               /\ pc' = [pc EXCEPT ![g] = "cs1"]
               /\ key' = [key EXCEPT ![g] = k]
               /\ ncalls' = [ncalls EXCEPT ![g] = @ + 1]
               /\ UNCHANGED <<cache, calls, callrec, mycall, fetches, succ, nsetmap, ret>>

CS1Hit(g) == /\ pc[g] = "cs1" /\ cache[key[g]] # None
             /\ ret' = [ret EXCEPT ![g] = [ok |-> TRUE, val |-> cache[key[g]]]]
             /\ pc' = [pc EXCEPT ![g] = "idle"]
             /\ UNCHANGED <<cache, calls, callrec, key, mycall, fetches, succ, ncalls, nsetmap>>
CS1Wait(g) == /\ pc[g] = "cs1" /\ cache[key[g]] = None /\ calls[key[g]] # None
              /\ mycall' = [mycall EXCEPT ![g] = calls[key[g]]]
              /\ pc' = [pc EXCEPT ![g] = "wait"]
              /\ UNCHANGED <<cache, calls, callrec, key, fetches, succ, ncalls, nsetmap, ret>>
CS1Lead(g) == /\ pc[g] = "cs1" /\ cache[key[g]] = None /\ calls[key[g]] = None
              /\ calls' = [calls EXCEPT ![key[g]] = NextId]
              /\ callrec' = Append(callrec, [done |-> FALSE, ok |-> FALSE, val |-> 0, key |-> key[g]])
              /\ mycall' = [mycall EXCEPT ![g] = NextId]
              /\ pc' = [pc EXCEPT ![g] = "fnstart"]
              /\ UNCHANGED <<cache, key, fetches, succ, ncalls, nsetmap, ret>>
CS1(g) == CS1Hit(g) \/ CS1Wait(g) \/ CS1Lead(g)

FnStart(g) == /\ pc[g] = "fnstart"
              /\ fetches' = [fetches EXCEPT ![key[g]] = @ + 1]
              /\ pc' = [pc EXCEPT ![g] = "fnrun"]
              /\ UNCHANGED <<cache, calls, callrec, key, mycall, succ, ncalls, nsetmap, ret>>

FnReturn(g, ok, v) ==
              /\ pc[g] = "fnrun"
              /\ callrec' = [callrec EXCEPT ![mycall[g]] = [@ EXCEPT !.ok = ok, !.val = v]]
              /\ succ' = IF ok THEN [succ EXCEPT ![key[g]] = TRUE] ELSE succ
              /\ pc' = [pc EXCEPT ![g] = "cs2"]
              /\ UNCHANGED <<cache, calls, key, mycall, fetches, ncalls, nsetmap, ret>>

CS2(g) == /\ pc[g] = "cs2"
          /\ LET k == key[g]  c == mycall[g] IN
             /\ callrec' = [callrec EXCEPT ![c].done = TRUE]
             /\ cache' = IF callrec[c].ok THEN [cache EXCEPT ![k] = callrec[c].val] ELSE cache
             /\ calls' = IF calls[k] = c THEN [calls EXCEPT ![k] = None] ELSE calls
             /\ ret' = [ret EXCEPT ![g] = [ok |-> callrec[c].ok, val |-> callrec[c].val]]
          /\ pc' = [pc EXCEPT ![g] = "idle"]
          /\ UNCHANGED <<key, mycall, fetches, succ, ncalls, nsetmap>>

WaitReturn(g) == /\ pc[g] = "wait" /\ callrec[mycall[g]].done
                 /\ ret' = [ret EXCEPT ![g] = [ok |-> callrec[mycall[g]].ok, val |-> callrec[mycall[g]].val]]
                 /\ pc' = [pc EXCEPT ![g] = "idle"]
                 /\ UNCHANGED <<cache, calls, callrec, key, mycall, fetches, succ, ncalls, nsetmap>>

SetMap(m) == /\ nsetmap < MaxSetMap
             /\ cache' = m
             /\ succ' = [k \in K |-> succ[k] /\ m[k] # None]
             /\ nsetmap' = nsetmap + 1
             /\ UNCHANGED <<calls, callrec, pc, key, mycall, fetches, ncalls, ret>>

GNext(g) == \/ \E k \in K : Enter(g, k)
            \/ CS1(g) \/ FnStart(g)
            \/ \E ok \in Outcomes : FnReturn(g, ok, mycall[g])
            \/ CS2(g) \/ WaitReturn(g)
Next == (\E g \in G : GNext(g)) \/ (\E m \in Maps : SetMap(m))

Spec == Init /\ [][Next]_vars
FairSpec == Spec /\ \A g \in G : WF_vars(GNext(g))

-----------------------------------------------------------------------------
TypeOK == /\ \A k \in K : calls[k] = None \/ calls[k] \in 1..Len(callrec)
          /\ \A g \in G : pc[g] \in {"idle", "cs1", "fnstart", "fnrun", "cs2", "wait"}

\* at most one fetch of a key in flight
OneLeaderPerKey == \A k \in K : Cardinality({g \in G : key[g] = k /\ pc[g] \in {"fnstart", "fnrun", "cs2"}}) <= 1
\* "at most once per success": no fetch starts while a successful fetch of the key is
\* cached or being committed (until a SetMap drops it)
NoFetchAfterSuccess == \A g \in G : pc[g] = "fnstart" => ~succ[key[g]]
\* whatever is cached came from a successful, finished fetch of that key, or from SetMap
CacheSound == \A k \in K : cache[k] \notin {None, SetMapVal} =>
                 \E c \in 1..Len(callrec) : callrec[c].val = cache[k] /\ callrec[c].ok /\ callrec[c].key = k
\* a leader's call stays registered until it commits; a registered call is never done
CallsSound == /\ \A g \in G : pc[g] \in {"fnstart", "fnrun", "cs2"} => calls[key[g]] = mycall[g]
              /\ \A k \in K : calls[k] # None => ~callrec[calls[k]].done /\ callrec[calls[k]].key = k
\* a waiter waits on a call for its own key
WaitSound == \A g \in G : pc[g] = "wait" => callrec[mycall[g]].key = key[g]
\* every successful return value is the result of a successful fetch of that key (or SetMap's value):
\* callers observe a value consistent with some sequential order
ReturnSound == \A g \in G : pc[g] = "idle" /\ ncalls[g] > 0 /\ ret[g].ok =>
                  \/ ret[g].val = SetMapVal
                  \/ \E c \in 1..Len(callrec) : callrec[c].val = ret[g].val /\ callrec[c].ok /\ callrec[c].key = key[g]
\* fetches are counted by calls
FetchCount == \A k \in K : fetches[k] <= Cardinality({c \in 1..Len(callrec) : callrec[c].key = k})

AllReturn == <>[](\A g \in G : pc[g] = "idle" /\ ncalls[g] = MaxCalls)
\* sanity (must be violated): two different goroutines obtain the same fetch result
Sanity == ~(\E g1, g2 \in G : g1 # g2 /\ pc[g1] = "idle" /\ pc[g2] = "idle" /\ ncalls[g1] > 0 /\ ncalls[g2] > 0
                               /\ ret[g1].ok /\ ret[g1] = ret[g2] /\ ret[g1].val # SetMapVal)
=============================================================================
