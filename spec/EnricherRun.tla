---------------------------- MODULE EnricherRun ----------------------------
(* The enrichment loop (enricher.Run, enricher/enricher.go) - growth of the pipeline specification beyond the
   listed properties (DESIGN section 8).  Operational part in the shape of the code:

     1. if no enricher is configured: return no statuses, no error
     2. requirement pre-check, in list order: an enricher that needs direct file-system access together with a
        nil scan root ends the run with ErrNoDirectFS before ANY enricher has been called
     3. the scan input is built from the scan root (none | real directory, made absolute | virtual FS)
     4. every enricher is called exactly once, in list order, on the ONE shared inventory (an enricher sees what
        its predecessors added); its error becomes its status (Failed) and does not stop the loop

   Declarative part: ExpectErr / ExpectCalls / ExpectSaw / ExpectStatus, stated without the loop.  TLC checks
   the loop against them on every scenario and prints each terminal scenario with the expectation (Emit); the
   harness replays the scenario through the real enricher.Run with recording enrichers. *)
EXTENDS Naturals, Sequences, FiniteSets, TLC, Json

CONSTANTS MaxEnr,      \* longest enricher list
          Roots        \* subset of {"nil", "real", "virtual"}

VARIABLES ens,      \* scenario: sequence of [dfs: BOOLEAN, req: {"nil","set"}, err: BOOLEAN, adds: BOOLEAN]
          root,     \* scenario: kind of scan root
          phase,    \* "setup" | "precheck" | "input" | "loop" | "done"
          i,        \* loop index
          invn,     \* the shared inventory: sequence of enricher positions that added a package
          calls,    \* calls[k]: how often enricher k was called
          saw,      \* saw[k]: the inventory enricher k was handed
          gotfs,    \* gotfs[k]: did the input carry a file system
          status,   \* sequence of [pos, st]
          err       \* "none" | "nodirectfs"
vars == <<ens, root, phase, i, invn, calls, saw, gotfs, status, err>>

\* req = "nil": Requirements() returns nil (legal: the code tests for it); dfs only matters with req = "set"
EnrKinds == [dfs : BOOLEAN, req : {"nil", "set"}, err : BOOLEAN, adds : BOOLEAN]
NeedsFS(e) == e.req = "set" /\ e.dfs

Init == /\ ens = <<>> /\ root \in Roots /\ phase = "setup" /\ i = 1 /\ invn = <<>>
        /\ calls = <<>> /\ saw = <<>> /\ gotfs = <<>> /\ status = <<>> /\ err = "none"

AddEnr(e) == /\ phase = "setup" /\ Len(ens) < MaxEnr
             /\ ~(e.req = "nil" /\ e.dfs)              \* dfs is meaningless without requirements: one representative
             /\ ens' = Append(ens, e)
             /\ UNCHANGED <<root, phase, i, invn, calls, saw, gotfs, status, err>>

Start == /\ phase = "setup"
         /\ calls' = [k \in 1..Len(ens) |-> 0]
         /\ saw' = [k \in 1..Len(ens) |-> <<>>]
         /\ gotfs' = [k \in 1..Len(ens) |-> FALSE]
         /\ phase' = IF ens = <<>> THEN "done" ELSE "precheck"
         /\ UNCHANGED <<ens, root, i, invn, status, err>>

PreCheck == /\ phase = "precheck"
            /\ IF i > Len(ens) THEN /\ phase' = "input" /\ i' = 1 /\ err' = err
               ELSE IF NeedsFS(ens[i]) /\ root = "nil" THEN /\ phase' = "done" /\ err' = "nodirectfs" /\ i' = i
               ELSE /\ i' = i + 1 /\ phase' = phase /\ err' = err
            /\ UNCHANGED <<ens, root, invn, calls, saw, gotfs, status>>

BuildInput == /\ phase = "input" /\ phase' = "loop"
              /\ UNCHANGED <<ens, root, i, invn, calls, saw, gotfs, status, err>>

CallEnricher == /\ phase = "loop" /\ i <= Len(ens)
                /\ calls' = [calls EXCEPT ![i] = @ + 1]
                /\ saw' = [saw EXCEPT ![i] = invn]
                /\ gotfs' = [gotfs EXCEPT ![i] = (root # "nil")]
                /\ invn' = IF ens[i].adds THEN Append(invn, i) ELSE invn
                /\ status' = Append(status, [pos |-> i, st |-> IF ens[i].err THEN "failed" ELSE "ok"])
                /\ i' = i + 1
                /\ UNCHANGED <<ens, root, phase, err>>

LoopDone == /\ phase = "loop" /\ i > Len(ens) /\ phase' = "done"
            /\ UNCHANGED <<ens, root, i, invn, calls, saw, gotfs, status, err>>

Next == \/ \E e \in EnrKinds : AddEnr(e)
        \/ Start \/ PreCheck \/ BuildInput \/ CallEnricher \/ LoopDone

Spec == Init /\ [][Next]_vars

Done == phase = "done"

----------------------------------------------------------------------------
\* Declarative statement
N == Len(ens)
ExpectErr == IF root = "nil" /\ \E k \in 1..N : NeedsFS(ens[k]) THEN "nodirectfs" ELSE "none"
Ran == ExpectErr = "none"
ExpectCalls == [k \in 1..N |-> IF Ran THEN 1 ELSE 0]
AddersBefore(k) == {j \in 1..(k - 1) : ens[j].adds}
SortedSeq(S) == LET RECURSIVE F(_) F(T) == IF T = {} THEN <<>> ELSE LET m == CHOOSE x \in T : \A y \in T : x <= y IN <<m>> \o F(T \ {m}) IN F(S)
ExpectSaw == [k \in 1..N |-> IF Ran THEN SortedSeq(AddersBefore(k)) ELSE <<>>]
ExpectStatus == IF Ran THEN [k \in 1..N |-> [pos |-> k, st |-> IF ens[k].err THEN "failed" ELSE "ok"]] ELSE <<>>
ExpectInv == IF Ran THEN SortedSeq({j \in 1..N : ens[j].adds}) ELSE <<>>
ExpectFS == [k \in 1..N |-> Ran /\ root # "nil"]

ErrCorrect == Done => err = ExpectErr
CallsOnce == Done => calls = ExpectCalls
NoCallBeforeCheck == (phase \in {"setup", "precheck", "input"}) => \A k \in DOMAIN calls : calls[k] = 0
SawPredecessors == Done => saw = ExpectSaw
StatusInOrder == Done => status = ExpectStatus
InventoryShared == Done => invn = ExpectInv
InputFS == Done => gotfs = ExpectFS

Case == [ens |-> ens, root |-> root,
         expect |-> [err |-> ExpectErr, calls |-> ExpectCalls, saw |-> ExpectSaw, status |-> ExpectStatus,
                     inv |-> ExpectInv, fs |-> ExpectFS]]
Emit == Done => PrintT(ToJson(Case))

\* sanity: the pre-check failure with a later enricher present is reachable (TLC must violate this)
SanityPre == ~(Done /\ err = "nodirectfs" /\ N >= 2 /\ ~NeedsFS(ens[1]))
=============================================================================
