--------------------------- MODULE SymlinkResolve ---------------------------
(***************************************************************************)
(* C17 - symlink resolution in image views terminates with the right       *)
(* answer.                                                                 *)
(*                                                                         *)
(* A graph assigns each of N named entries a kind: a regular file, a       *)
(* directory, missing, deleted by a later layer, a symlink whose target    *)
(* leaves the image root (dropped at load time), or a relative / absolute  *)
(* / non-canonically spelled absolute symlink to any entry.                *)
(*                                                                         *)
(* Declarative part: Follow - walk the chain from an entry; the answer is  *)
(* the first non-symlink entry if it is reached within MaxDepth hops,      *)
(* "notfound" if a missing / deleted / dropped entry is reached first, a   *)
(* cycle-or-depth error otherwise.                                         *)
(* Operational part: ResolveOp - FS.resolveSymlink of layer.go verbatim    *)
(* (depth < 0 test, isSymlink test, getFileNode(target), comparison with   *)
(* the slow pointer, slow pointer advanced every other step, depth--).     *)
(***************************************************************************)
EXTENDS Integers, Sequences, FiniteSets, TLC, Json

CONSTANTS N,         \* number of entries
          Depths,    \* set of MaxSymlinkDepth values
          LinkForms  \* link spellings: subset of {"rel", "abs", "abs2", "relup"} ("relup": a relative target that climbs exactly to the image root, "../<dir>/<entry>")

Entries == 1..N
Plain == {"file", "dir", "missing", "deleted", "out"}
Kind == [k : Plain] \cup [k : LinkForms, to : Entries]
IsLink(g, i) == g[i].k \in LinkForms
Gone(g, i) == g[i].k \in {"missing", "out"}          \* no node at that path in the view
\* a deleted entry is a whiteout node: it exists for the resolver (it is not a symlink) but Stat on it says not-exist

VARIABLES g, idx
vars == <<g, idx>>

-----------------------------------------------------------------------------
(* ---- declarative ---- *)
\* result of following the chain from entry i with h hops already made
RECURSIVE Follow(_, _, _, _)
Follow(gr, i, h, max) ==
  IF Gone(gr, i) \/ gr[i].k = "deleted" THEN [r |-> "notfound", hops |-> h]
  ELSE IF ~IsLink(gr, i) THEN [r |-> "target", to |-> i, hops |-> h]
  ELSE IF h > max + 1 THEN [r |-> "loop", hops |-> h]
  ELSE Follow(gr, gr[i].to, h + 1, max)
\* what the property allows as the outcome class of Stat/Open on entry i
Allowed(gr, i, max) ==
  LET f == Follow(gr, i, 0, max) IN
  CASE f.r = "target" /\ f.hops <= max -> {<<"target", f.to>>}
    [] f.r = "notfound" /\ f.hops <= max -> {<<"notfound", 0>>}
    [] f.r = "notfound" /\ f.hops = max + 1 -> {<<"notfound", 0>>, <<"depth", 0>>}   \* budget exhausted exactly when the gap is reached
    [] OTHER -> {<<"cycle", 0>>, <<"depth", 0>>}

(* ---- operational: resolveSymlink ---- *)
\* getFileNode(target): the node at the target path, or not-exist
RECURSIVE Loop(_, _, _, _, _)
Loop(gr, node, slow, adv, depth) ==
  IF depth < 0 THEN <<"depth", 0>>
  ELSE IF ~IsLink(gr, node) THEN (IF gr[node].k = "deleted" THEN <<"notfound", 0>> ELSE <<"target", node>>)
  ELSE LET nxt == gr[node].to IN
       IF Gone(gr, nxt) THEN <<"notfound", 0>>
       ELSE IF nxt = slow THEN <<"cycle", 0>>
       ELSE LET slow2 == IF adv THEN gr[slow].to ELSE slow IN      \* the slow node is a symlink whenever it is advanced
            Loop(gr, nxt, slow2, ~adv, depth - 1)
ResolveOp(gr, i, max) == IF Gone(gr, i) THEN <<"notfound", 0>> ELSE Loop(gr, i, i, FALSE, max)

-----------------------------------------------------------------------------
Init == g = [i \in Entries |-> [k |-> "missing"]] /\ idx = 1
Choose == /\ idx <= N
          /\ \E k \in Kind : g' = [g EXCEPT ![idx] = k]
          /\ idx' = idx + 1
Next == Choose
Spec == Init /\ [][Next]_vars
Complete == idx = N + 1

\* C17 on the model: the resolver's outcome class is one the property allows, for every entry and depth
OpWithinAllowed == Complete => \A i \in Entries, d \in Depths : ResolveOp(g, i, d) \in Allowed(g, i, d)
\* it never returns the wrong file
NeverWrongTarget == Complete => \A i \in Entries, d \in Depths :
                       LET r == ResolveOp(g, i, d) IN r[1] = "target" => (~IsLink(g, r[2]) /\ Follow(g, i, 0, d).r = "target" /\ Follow(g, i, 0, d).to = r[2])
\* sanity (must be violated): some graph has a cycle the resolver reports, and a chain cut by the depth
SanityCycle == ~(Complete /\ \E i \in Entries, d \in Depths : ResolveOp(g, i, d) = <<"cycle", 0>>)
SanityDepth == ~(Complete /\ \E i \in Entries, d \in Depths : ResolveOp(g, i, d) = <<"depth", 0>> /\ Follow(g, i, 0, 100).r = "target")

KindStr(k) == IF k.k \in LinkForms THEN <<k.k, k.to>> ELSE <<k.k, 0>>
DepthSeq == [d \in 0..6 |-> d]
\* the view below the deleting layer: the entry is still the regular file it was
Below(gr) == [i \in Entries |-> IF gr[i].k = "deleted" THEN [k |-> "file"] ELSE gr[i]]
\* the two views of one image share nodes: the answer in one view never depends on what was asked of the other
Case == [kinds |-> [i \in Entries |-> KindStr(g[i])],
         expect |-> [d \in Depths |-> [i \in Entries |-> Allowed(g, i, d)]],
         expect0 |-> [d \in Depths |-> [i \in Entries |-> Allowed(Below(g), i, d)]]]
Emit == Complete => PrintT(ToJson(Case))
=============================================================================
