----------------------------- MODULE Remediation -----------------------------
(***************************************************************************)
(* C11 - guided remediation only upgrades, and only as far as the policy   *)
(*       allows.                                                            *)
(* C12 - a reported fix is a real fix: re-analysis matches the report.     *)
(*                                                                         *)
(* The module has three parts.                                             *)
(*                                                                         *)
(* (1) VERSION ALGEBRA (declarative, shared with RemediationTrace and      *)
(*     re-implemented verbatim in harness/cmd/vremfix/version.go):         *)
(*     versions are tuples <<major, minor, patch, rel>> (rel = 9 release,  *)
(*     smaller = pre-release), Cmp is the lexicographic order, Diff the    *)
(*     most significant differing component, Allows(level, diff) is        *)
(*     written from the DOCUMENTATION of upgrade.Level ("the maximum       *)
(*     semver level of upgrade allowed for a package: Major = all upgrades *)
(*     are allowed, Minor = only upgrades up to minor (1.0.0 - 1.x.x)").   *)
(*                                                                         *)
(* (2) SCENARIO (setup actions): a universe of <= 3 packages below the     *)
(*     root, each with a version menu out of VT, per-version dependency    *)
(*     edges with pin | caret | tilde | latest requirements (acyclic by    *)
(*     package order; diamonds allowed), OSV ranges over version indices,  *)
(*     a manifest, an upgrade config, options.                             *)
(*                                                                         *)
(* (3) THE STRATEGY (the system), in the shape of the code: Resolve,       *)
(*     FindVulns, Attempt (one action per iteration of override.patchVulns *)
(*     / relax.patchVulns, with the candidate scan resp. NpmRelaxer.Relax  *)
(*     transcribed), ConstructPatch, Choose, Write, ReRead/ReResolve/      *)
(*     ReFindVulns; Suggest for Maven bulk updates.                        *)
(*                                                                         *)
(* The RESOLVER is environment.  In this module it is the reference        *)
(* environment RefResolve (nearest requirement wins, first declared wins,  *)
(* highest matching version, dependencyManagement pins transitive          *)
(* versions); it is ONE admissible environment, used to check the design   *)
(* of the strategy and to emit scenarios.  It is never compared with the   *)
(* real resolver: in RemediationTrace every graph is an observed input of  *)
(* the trace recorded from the real code.                                  *)
(***************************************************************************)
EXTENDS Integers, Sequences, FiniteSets, TLC, Json

CONSTANTS Pkgs,       \* sequence of package names in dependency order: a package may only depend on later ones
          Family,     \* "npm-relax" | "maven-override" | "maven-update"
          Menus,      \* per package (aligned with Pkgs): the set of version menus (subsets of 1..NV) it may have
          EdgeKinds,  \* requirement kinds on universe edges  (subset of {"pin","caret","tilde","latest"})
          RootKinds,  \* requirement kinds on manifest requirements
          EdgeModes,  \* subset of {"flat","rising","drop"}: how the requirement of the i-th version is anchored
          MaxEdges,   \* max number of package pairs with a dependency rule
          MaxDirect,  \* max number of manifest requirements
          VulnShapes, \* set of <<lo, hi, end>>: lo in 0..NV ("0" = 0), hi in 0..NV, end in {"fixed","last","none"}
          MaxVulns,
          VulnPkgs,   \* packages that may carry a vulnerability
          LevelDefs,  \* default levels explored
          LevelPkgs,  \* per-package levels explored ("-" = no per-package entry)
          OptSet,     \* option variants explored, see OptOf
          Devs,       \* open findings (as-built deviations of /repo) that excuse a property in the completeness invariants
          FixOverrideLoop \* BOOLEAN: transcribe override.patchVulns with the proposed repair (stop when an iteration changes nothing)

-----------------------------------------------------------------------------
(* ---------------------------- (1) version algebra ---------------------- *)
VT == << <<1,0,0,9>>, <<1,0,1,9>>, <<1,1,0,9>>, <<2,0,0,0>>, <<2,0,0,9>>, <<2,1,0,9>>, <<3,0,0,9>> >>
NV == Len(VT)
Rel == 9

\* total order on version tuples: -1, 0, 1
Cmp(v, w) == IF v[1] # w[1] THEN (IF v[1] < w[1] THEN -1 ELSE 1)
             ELSE IF v[2] # w[2] THEN (IF v[2] < w[2] THEN -1 ELSE 1)
             ELSE IF v[3] # w[3] THEN (IF v[3] < w[3] THEN -1 ELSE 1)
             ELSE IF v[4] # w[4] THEN (IF v[4] < w[4] THEN -1 ELSE 1)
             ELSE 0
\* the most significant component in which two versions differ
Diff(v, w) == IF v[1] # w[1] THEN "major"
              ELSE IF v[2] # w[2] THEN "minor"
              ELSE IF v[3] # w[3] THEN "patch"
              ELSE IF v[4] # w[4] THEN "pre"
              ELSE "same"
\* upgrade.Level, from its documentation: the level is the MAXIMUM semver level of upgrade allowed
Allows(level, diff) == CASE level = "major" -> TRUE
                         [] level = "minor" -> diff # "major"
                         [] level = "patch" -> diff \notin {"major", "minor"}
                         [] OTHER           -> FALSE
LevelNames == {"major", "minor", "patch", "none"}
\* VT is listed in ascending order, so indices may be compared instead of tuples in the operational part
ASSUME \A i, j \in 1..NV : (i < j) <=> (Cmp(VT[i], VT[j]) < 0)
IsPre(i) == VT[i][4] # Rel

\* Config.Get as documented: per-package entry, else default entry
LevelIn(cfg, p) == IF p \in DOMAIN cfg /\ cfg[p] # "-" THEN cfg[p] ELSE cfg["*"]

\* the property for one dependency change: `base` = version the package resolves to without the change,
\* `after` = with it (both version tuples)
ChangeOK(level, base, after) == /\ level # "none"
                                /\ Cmp(after, base) > 0
                                /\ Allows(level, Diff(base, after))

-----------------------------------------------------------------------------
(* ---------------------------- (2) scenario ----------------------------- *)
PkgSet == {Pkgs[i] : i \in 1..Len(Pkgs)}
Idx(p) == CHOOSE i \in 1..Len(Pkgs) : Pkgs[i] = p
Eco == IF Family = "npm-relax" THEN "npm" ELSE "Maven"

NoReq == [kind |-> "none", at |-> 0]
NoRule == [kind |-> "none", mode |-> "-"]

VARIABLES sc,   \* the scenario under construction / under test
          pc,   \* [ph, i]: setup phase and cursor, then the pipeline phase
          run   \* pipeline state
vars == <<sc, pc, run>>

Nth(S, k) == CHOOSE x \in S : Cardinality({y \in S : y < x}) = k - 1
PosIn(S, x) == Cardinality({y \in S : y <= x})
Max(S) == CHOOSE x \in S : \A y \in S : y <= x
Min(S) == CHOOSE x \in S : \A y \in S : x <= y
LatestOf(m) == IF \E x \in m : ~IsPre(x) THEN Max({x \in m : ~IsPre(x)}) ELSE Max(m)

\* requirement of version vi of package p on package q (NoReq if none), from the dependency rule of the pair
DepReq(s, p, vi, q) ==
  LET r == s.rule[<<p, q>>] IN
  IF r.kind = "none" \/ s.menu[q] = {} THEN NoReq
  ELSE LET pos == PosIn(s.menu[p], vi)
           n   == Cardinality(s.menu[p])
           nq  == Cardinality(s.menu[q])
       IN CASE r.mode = "flat"   -> [kind |-> r.kind, at |-> Nth(s.menu[q], 1)]
            [] r.mode = "rising" -> [kind |-> r.kind, at |-> Nth(s.menu[q], IF pos < nq THEN pos ELSE nq)]
            [] r.mode = "drop"   -> IF pos = n /\ n > 1 THEN NoReq ELSE [kind |-> r.kind, at |-> Nth(s.menu[q], 1)]

\* does version index vi satisfy requirement r (reference environment; npm / Maven flavour)
Sat(m, r, vi) ==
  LET v == VT[vi] a == VT[r.at] IN
  CASE r.kind = "pin"    -> vi = r.at
    [] r.kind = "latest" -> IF Eco = "npm" THEN vi = LatestOf(m) ELSE TRUE
    [] r.kind = "caret"  -> IF Eco = "npm"
                            THEN vi >= r.at /\ v[1] = a[1] /\ (v[4] = Rel \/ (v[1] = a[1] /\ v[2] = a[2] /\ v[3] = a[3]))
                            ELSE vi >= r.at /\ Cmp(v, <<a[1] + 1, 0, 0, Rel>>) < 0
    [] r.kind = "tilde"  -> IF Eco = "npm"
                            THEN vi >= r.at /\ v[1] = a[1] /\ v[2] = a[2] /\ (v[4] = Rel \/ v[3] = a[3])
                            ELSE vi >= r.at /\ Cmp(v, <<a[1], a[2] + 1, 0, Rel>>) < 0
    [] OTHER -> FALSE
Matching(m, r) == {vi \in m : Sat(m, r, vi)}
Pick(m, r) == IF Matching(m, r) = {} THEN 0 ELSE Max(Matching(m, r))

\* a manifest: direct requirements and dependencyManagement pins
EmptyMan == [direct |-> [p \in PkgSet |-> NoReq], mgmt |-> [p \in PkgSet |-> 0]]

-----------------------------------------------------------------------------
(* ---- the reference environment: RefResolve(manifest) = graph ---- *)
\* Maven flavour (deps.dev maven resolver, findMatch): a version must satisfy ALL hard (range) requirements that
\* resolved packages place on it; a soft (pinned) requirement is only a preference. `hard` is the set of range
\* requirements known so far on each package; dependencyManagement replaces transitive requirements by a soft pin.
PickH(m, r, hard) ==
  LET ok == {vi \in m : \A h \in hard : Sat(m, h, vi)} IN
  IF r.kind = "pin" /\ r.at \in ok THEN r.at
  ELSE LET c == IF r.kind = "pin" THEN ok ELSE {vi \in ok : Sat(m, r, vi)} IN IF c = {} THEN 0 ELSE Max(c)
RECURSIVE Grow(_, _, _, _, _)
Grow(s, man, g, frontier, hard) ==
  LET targets == {q \in PkgSet : g[q] = 0 /\ \E p \in frontier : DepReq(s, p, g[p], q).kind # "none"}
  IN IF targets = {} THEN g
     ELSE LET first(q) == CHOOSE p \in frontier : /\ DepReq(s, p, g[p], q).kind # "none"
                                                  /\ \A p2 \in frontier : DepReq(s, p2, g[p2], q).kind # "none" => Idx(p) <= Idx(p2)
              g2 == [q \in PkgSet |-> IF q \in targets
                                      THEN (IF man.mgmt[q] # 0 THEN man.mgmt[q]
                                            ELSE PickH(s.menu[q], DepReq(s, first(q), g[first(q)], q), hard[q]))
                                      ELSE g[q]]
          IN Grow(s, man, g2, {q \in targets : g2[q] # 0}, hard)
\* the range requirements the packages resolved in g place on q (none if q is managed: management wins)
HardOn(s, man, g, q) == IF Eco # "Maven" \/ man.mgmt[q] # 0 THEN {}
                        ELSE {DepReq(s, p, g[p], q) : p \in {x \in PkgSet : g[x] # 0 /\ DepReq(s, x, g[x], q).kind \notin {"none", "pin"}}}
                             \cup (IF man.direct[q].kind \notin {"none", "pin"} THEN {man.direct[q]} ELSE {})
ResolveWith(s, man, hard) ==
  LET g1 == [p \in PkgSet |-> IF man.direct[p].kind = "none" THEN 0 ELSE PickH(s.menu[p], man.direct[p], hard[p])]
  IN Grow(s, man, g1, {p \in PkgSet : g1[p] # 0}, hard)
RECURSIVE Settle(_, _, _, _)
Settle(s, man, g, k) == LET hard == [q \in PkgSet |-> HardOn(s, man, g, q)]
                            g2 == ResolveWith(s, man, hard)
                        IN IF g2 = g \/ k = 0 THEN g2 ELSE Settle(s, man, g2, k - 1)
RefResolve(s, man) ==
  LET g0 == ResolveWith(s, man, [q \in PkgSet |-> {}])
  IN IF Eco = "Maven" THEN Settle(s, man, g0, Len(Pkgs)) ELSE g0
\* a manifest the reference environment cannot resolve (a direct requirement matches nothing)
Resolvable(s, man) == \A p \in PkgSet : man.direct[p].kind # "none" => Pick(s.menu[p], man.direct[p]) # 0

Root == "root"
EdgesOf(s, man, g) == {<<p, q>> \in PkgSet \X PkgSet : g[p] # 0 /\ g[q] # 0 /\ DepReq(s, p, g[p], q).kind # "none"}
                      \cup {<<Root, d>> : d \in {p \in PkgSet : man.direct[p].kind # "none" /\ g[p] # 0}}
ReqOnEdge(s, man, g, p, q) == IF p = Root THEN man.direct[q] ELSE DepReq(s, p, g[p], q)
RECURSIVE ReachFrom(_, _)
ReachFrom(E, S) == LET S2 == S \cup {e[2] : e \in {x \in E : x[1] \in S}} IN IF S2 = S THEN S ELSE ReachFrom(E, S2)
RECURSIVE DistTo(_, _, _, _)
DistTo(E, layer, q, d) == IF q \in layer THEN d
                          ELSE IF d > Len(Pkgs) THEN 99
                          ELSE DistTo(E, {e[2] : e \in {x \in E : x[1] \in layer}}, q, d + 1)
Depth(s, man, g, q) == DistTo(EdgesOf(s, man, g), {Root}, q, 0)
DevOnly(s, man, g, q) == q \notin ReachFrom(EdgesOf(s, man, g) \ {<<Root, d>> : d \in {p \in PkgSet : s.grp[p] = "dev"}}, {Root})

-----------------------------------------------------------------------------
(* ---- vulnerabilities: OSV ranges over version indices ---- *)
AffectsV(v, vi) == /\ v.lo <= vi
                   /\ CASE v.end = "none"  -> TRUE
                        [] v.end = "fixed" -> vi < v.hi
                        [] v.end = "last"  -> vi <= v.hi
VulnIds(s) == 1..Len(s.vulns)
FoundAll(s, g) == {i \in VulnIds(s) : g[s.vulns[i].pkg] # 0 /\ AffectsV(s.vulns[i], g[s.vulns[i].pkg])}
\* remediation.MatchVuln
MatchVuln(s, man, g, ign, i) ==
  LET q == s.vulns[i].pkg IN
  /\ i \notin ign
  /\ (s.opt.explicit = {} \/ i \in s.opt.explicit)
  /\ (s.opt.devDeps \/ ~DevOnly(s, man, g, q))
  /\ (s.opt.minSev = 0 \/ s.vulns[i].sev # "low")
  /\ (s.opt.maxDepth <= 0 \/ Depth(s, man, g, q) <= s.opt.maxDepth)
Found(s, man, g, ign) == {i \in FoundAll(s, g) : MatchVuln(s, man, g, ign, i)}
\* ResolveGraphVulns: with an explicit list, everything else found IN THIS GRAPH is added to the ignore list
IgnoreFor(s, g) == s.opt.ignore \cup (IF s.opt.explicit = {} THEN {} ELSE FoundAll(s, g) \ s.opt.explicit)

LevelOf(s, p) == LevelIn(s.levels, p)

-----------------------------------------------------------------------------
(* ---- override.patchVulns: the candidate scan ---- *)
\* ascending scan over the versions greater than cur; stops at the first disallowed difference (stopAtFirst)
\* or skips disallowed candidates (the variant the code does not use); picks the first version with the
\* fewest remaining vulnerabilities, stops at zero.  Returns cur if nothing is better.
RECURSIVE ScanFrom(_, _, _, _, _, _, _, _)
ScanFrom(s, m, cur, V, level, vi, best, stopAtFirst) ==
  IF vi > NV THEN best
  ELSE IF vi \notin m THEN ScanFrom(s, m, cur, V, level, vi + 1, best, stopAtFirst)
  ELSE IF ~Allows(level, Diff(VT[cur], VT[vi]))
       THEN (IF stopAtFirst THEN best ELSE ScanFrom(s, m, cur, V, level, vi + 1, best, stopAtFirst))
  ELSE LET count == Cardinality({i \in V : AffectsV(s.vulns[i], vi)})
           bc    == Cardinality({i \in V : AffectsV(s.vulns[i], best)})
       IN IF count < bc THEN (IF count = 0 THEN vi ELSE ScanFrom(s, m, cur, V, level, vi + 1, vi, stopAtFirst))
          ELSE ScanFrom(s, m, cur, V, level, vi + 1, best, stopAtFirst)
OverrideScan(s, p, cur, V) == ScanFrom(s, s.menu[p], cur, V, LevelOf(s, p), cur + 1, cur, TRUE)
OverrideScanNoStop(s, p, cur, V) == ScanFrom(s, s.menu[p], cur, V, LevelOf(s, p), cur + 1, cur, FALSE)

\* one iteration of override.patchVulns on attempt state a = [ids, man, g, vs]
OvTargets(s, a) == {p \in PkgSet : \E i \in a.vs \cap a.ids : s.vulns[i].pkg = p}
OvPins(s, a) == [p \in PkgSet |->
                   IF p \in OvTargets(s, a) /\ LevelOf(s, p) # "none"
                   THEN LET V == {i \in a.vs \cap a.ids : s.vulns[i].pkg = p}
                            b == OverrideScan(s, p, a.g[p], V)
                        IN IF b # a.g[p] THEN b ELSE 0
                   ELSE 0]
\* manifest.PatchRequirement (Maven): rewrite the direct requirement if there is one, else add a management pin
PinIn(man, p, vi) == IF man.direct[p].kind # "none"
                     THEN [man EXCEPT !.direct[p] = [kind |-> "pin", at |-> vi]]
                     ELSE [man EXCEPT !.mgmt[p] = vi]
RECURSIVE ApplyPins(_, _, _)
ApplyPins(man, pins, k) == IF k > Len(Pkgs) THEN man
                           ELSE ApplyPins(IF pins[Pkgs[k]] # 0 THEN PinIn(man, Pkgs[k], pins[Pkgs[k]]) ELSE man, pins, k + 1)

-----------------------------------------------------------------------------
(* ---- relax.patchVulns: requirements to relax and NpmRelaxer.Relax ---- *)
Rank(d) == CASE d = "major" -> 1 [] d = "minor" -> 2 [] d = "patch" -> 3 [] d = "pre" -> 4 [] OTHER -> 5
RelaxFail == [ok |-> FALSE, req |-> NoReq, viaPre |-> FALSE]
\* highest version of m above `from` that keeps the same kind of difference from cmp (the "find the highest
\* version with the same difference" loop)
RECURSIVE RelaxBest(_, _, _, _, _, _, _)
RelaxBest(m, cmp, diff, level, vi, best, nextIsPre) ==
  IF vi > NV THEN best
  ELSE IF vi \notin m THEN RelaxBest(m, cmp, diff, level, vi + 1, best, nextIsPre)
  ELSE LET d == Diff(VT[cmp], VT[vi]) IN
       IF ~Allows(level, d) THEN best
       ELSE IF Rank(d) < Rank(diff) THEN best
       ELSE RelaxBest(m, cmp, diff, level, vi + 1, IF ~IsPre(vi) \/ nextIsPre THEN vi ELSE best, nextIsPre)
Relax(s, d, req) ==
  LET m == s.menu[d]
      level == LevelOf(s, d)
      c == IF req.kind = "latest" THEN [kind |-> "pin", at |-> LatestOf(m)] ELSE req
      match == Matching(m, c)
  IN IF level = "none" \/ match = {} THEN RelaxFail
     ELSE LET last  == Max(match)
              above == {vi \in m : vi > last}
          IN IF above = {} THEN RelaxFail
             ELSE LET next == IF \E vi \in above : ~IsPre(vi) THEN Min({vi \in above : ~IsPre(vi)}) ELSE Min(above)
                      nextIsPre == IsPre(next)
                      diff0 == Diff(VT[last], VT[next])
                  IN IF ~Allows(level, diff0) THEN RelaxFail
                     ELSE LET cmp  == IF diff0 = "major" THEN next ELSE last
                              diff == IF diff0 = "major" THEN "minor" ELSE diff0
                              best == RelaxBest(m, cmp, diff, level, next + 1, next, nextIsPre)
                          IN [ok |-> TRUE, req |-> [kind |-> IF diff \in {"patch", "pre"} THEN "tilde" ELSE "caret", at |-> best],
                              viaPre |-> (diff = "pre")]
\* DependencySubgraph.ConstrainingSubgraph + reqsToRelax: the direct requirements to relax for vulnerability i
ConstrParents(s, man, g, i) ==
  LET q == s.vulns[i].pkg
      E == EdgesOf(s, man, g)
      par == {e[1] : e \in {x \in E : x[2] = q}}
      c == {p \in par : LET best == Pick(s.menu[q], ReqOnEdge(s, man, g, p, q)) IN best = 0 \/ AffectsV(s.vulns[i], best)}
  IN IF c = {} THEN par ELSE c
RECURSIVE AncestorsOf(_, _)
AncestorsOf(E, S) == LET S2 == S \cup {e[1] : e \in {x \in E : x[2] \in S}} IN IF S2 = S THEN S ELSE AncestorsOf(E, S2)
DirectsToRelax(s, man, g, i) ==
  LET q == s.vulns[i].pkg
      E == EdgesOf(s, man, g)
      cp == ConstrParents(s, man, g, i)
      \* the subgraph: q, its constraining parents and all their ancestors; edges into q only from constraining parents
      nodes == {q} \cup AncestorsOf(E, cp)
      E2 == {e \in E : e[1] \in nodes /\ e[2] \in nodes /\ (e[2] = q => e[1] \in cp)}
      ds == {e[2] : e \in {x \in E2 : x[1] = Root}}
  IN {d \in ds : s.opt.maxDepth <= 0 \/ DistTo({<<e[2], e[1]>> : e \in E2}, {q}, d, 0) + 1 <= s.opt.maxDepth}
ToRelax(s, a) == UNION {DirectsToRelax(s, a.man, a.g, i) : i \in a.vs \cap a.ids}

-----------------------------------------------------------------------------
(* ---- suggest.MavenSuggester (bulk update) ---- *)
\* suggestMavenVersion for one requirement; crash = the nil dereference when a range matches no version
SuggestOne(s, p, req, level) ==
  LET m == s.menu[p]
      cur == IF req.kind = "pin" THEN req.at ELSE (IF Matching(m, req) = {} THEN 0 ELSE Max(Matching(m, req)))
  IN IF cur = 0 THEN [crash |-> FALSE, to |-> req]        \* no known version satisfies the requirement: nothing to upgrade from
     ELSE LET ok == {vi \in m : Allows(level, Diff(VT[vi], VT[cur]))}
              new == IF ok = {} THEN cur ELSE Max(ok)
          IN [crash |-> FALSE,
              to |-> IF req.kind = "pin" \/ ~Sat(m, req, new) THEN [kind |-> "pin", at |-> new] ELSE req]

-----------------------------------------------------------------------------
(* ---- patches ---- *)
\* the updates that turn manifest m0 into m1: rewritten direct requirements and added/changed management pins
UpdatesBetween(m0, m1) ==
  {[name |-> p, where |-> "direct", from |-> m0.direct[p], to |-> m1.direct[p]] : p \in {x \in PkgSet : m0.direct[x] # m1.direct[x]}}
  \cup {[name |-> p, where |-> "mgmt", from |-> [kind |-> IF m0.mgmt[p] = 0 THEN "none" ELSE "pin", at |-> m0.mgmt[p]],
         to |-> [kind |-> "pin", at |-> m1.mgmt[p]]] : p \in {x \in PkgSet : m0.mgmt[x] # m1.mgmt[x]}}
ApplyUpdate(man, u) == IF u.where = "direct" THEN [man EXCEPT !.direct[u.name] = u.to] ELSE [man EXCEPT !.mgmt[u.name] = u.to.at]
RECURSIVE ApplyUpdates(_, _)
ApplyUpdates(man, U) == IF U = {} THEN man ELSE LET u == CHOOSE x \in U : TRUE IN ApplyUpdates(ApplyUpdate(man, u), U \ {u})
MkPatch(s, m0, vs0, a) == [ups |-> UpdatesBetween(m0, a.man), fixed |-> vs0 \ a.vs, intro |-> a.vs \ vs0, viaPre |-> a.viaPre]

\* result.Patch.Compare, criteria 1-4 and a deterministic tie-break standing in for 5
Ratio(x, y) == (Cardinality(x.fixed) - Cardinality(x.intro)) * Cardinality(y.ups)
NameKey(x) == {Idx(u.name) : u \in x.ups}
RECURSIVE SetLess(_, _)
SetLess(A, B) == IF A = {} THEN B # {} ELSE IF B = {} THEN FALSE
                 ELSE IF Min(A) # Min(B) THEN Min(A) < Min(B) ELSE SetLess(A \ {Min(A)}, B \ {Min(B)})
BumpKey(x) == {Idx(u.name) * 100 + u.to.at * 10 + (IF u.to.kind = "tilde" THEN 1 ELSE 0) : u \in x.ups}
Before(x, y) ==
  IF Ratio(x, y) # Ratio(y, x) THEN Ratio(x, y) > Ratio(y, x)
  ELSE IF Cardinality(x.fixed) # Cardinality(y.fixed) THEN Cardinality(x.fixed) > Cardinality(y.fixed)
  ELSE IF Cardinality(x.ups) # Cardinality(y.ups) THEN Cardinality(x.ups) < Cardinality(y.ups)
  ELSE IF NameKey(x) # NameKey(y) THEN SetLess(NameKey(x), NameKey(y))
  ELSE SetLess(BumpKey(x), BumpKey(y))
RECURSIVE Sorted(_)
Sorted(P) == IF P = {} THEN <<>>
             ELSE LET x == CHOOSE x \in P : \A y \in P \ {x} : Before(x, y) \/ ~Before(y, x)
                  IN <<x>> \o Sorted(P \ {x})
\* guidedremediation.choosePatches (greedy, in sorted order)
RECURSIVE ChooseFrom(_, _, _, _, _, _, _)
ChooseFrom(seq, k, acc, changed, fixed, left, noIntro) ==
  IF k > Len(seq) THEN acc
  ELSE LET x == seq[k] IN
       IF (\E u \in x.ups : <<u.name, u.from>> \in changed) \/ (x.fixed \cap fixed # {}) \/ (noIntro /\ x.intro # {})
       THEN ChooseFrom(seq, k + 1, acc, changed, fixed, left, noIntro)
       ELSE IF left = 1 THEN Append(acc, k)
       ELSE ChooseFrom(seq, k + 1, Append(acc, k), changed \cup {<<u.name, u.from>> : u \in x.ups}, fixed \cup x.fixed, left - 1, noIntro)
ChooseOp(seq, maxUp, noIntro) == ChooseFrom(seq, 1, <<>>, {}, {}, maxUp, noIntro)

-----------------------------------------------------------------------------
(* ---- setup: the scenario is built by nondeterministic actions ---- *)
OptOf(o) ==
  LET base == [maxUp |-> 1, noIntro |-> FALSE, ignore |-> {}, explicit |-> {}, devDeps |-> TRUE, maxDepth |-> 0, minSev |-> 0] IN
  CASE o = "plain"       -> base
    [] o = "noIntroduce" -> [base EXCEPT !.noIntro = TRUE]
    [] o = "max0"        -> [base EXCEPT !.maxUp = 0]
    [] o = "ignore1"     -> [base EXCEPT !.ignore = {1}]
    [] o = "explicit1"   -> [base EXCEPT !.explicit = {1}]
    [] o = "nodev"       -> [base EXCEPT !.devDeps = FALSE]
    [] o = "depth1"      -> [base EXCEPT !.maxDepth = 1]
    [] o = "sev7"        -> [base EXCEPT !.minSev = 7]

Pairs == {<<Pkgs[i], Pkgs[j]>> : i, j \in 1..Len(Pkgs)}
FwdPairs == {pq \in Pairs : Idx(pq[1]) < Idx(pq[2])}
PairNo(pq) == Idx(pq[1]) * 10 + Idx(pq[2])
EmptyRun == [g1 |-> [p \in PkgSet |-> 0], vs1 |-> {}, ign |-> {}, todo |-> {}, tried |-> {},
             att |-> [ids |-> {}, man |-> EmptyMan, g |-> [p \in PkgSet |-> 0], vs |-> {}, viaPre |-> FALSE, n |-> 0],
             patches |-> {}, order |-> <<>>, chosen |-> <<>>, written |-> EmptyMan,
             g2 |-> [p \in PkgSet |-> 0], vs2 |-> {}, crash |-> FALSE, spin |-> FALSE]

Init == /\ sc = [menu |-> [p \in PkgSet |-> {}], rule |-> [pq \in Pairs |-> NoRule], man |-> EmptyMan,
                 grp |-> [p \in PkgSet |-> ""], vulns |-> <<>>, levels |-> [p \in PkgSet \cup {"*"} |-> "-"], opt |-> OptOf("plain"),
                 optname |-> "plain"]
        /\ pc = [ph |-> "menu", i |-> 1]
        /\ run = EmptyRun

SetupMenu == /\ pc.ph = "menu"
             /\ \E m \in Menus[pc.i] :
                  /\ sc' = [sc EXCEPT !.menu[Pkgs[pc.i]] = m]
                  /\ pc' = IF pc.i = Len(Pkgs) THEN [ph |-> "rule", i |-> 0] ELSE [pc EXCEPT !.i = pc.i + 1]
             /\ UNCHANGED run
\* dependency rules are added in increasing pair order (canonical), at most MaxEdges of them
NRules == Cardinality({pq \in Pairs : sc.rule[pq].kind # "none"})
SetupRule == /\ pc.ph = "rule"
             /\ \/ /\ NRules < MaxEdges
                   /\ \E pq \in FwdPairs, k \in EdgeKinds, md \in EdgeModes :
                        /\ PairNo(pq) > pc.i
                        /\ (k = "latest" => md # "rising")
                        /\ (md = "drop" => Cardinality(sc.menu[pq[1]]) > 1)
                        /\ (md = "rising" => Cardinality(sc.menu[pq[1]]) > 1 /\ Cardinality(sc.menu[pq[2]]) > 1)
                        /\ sc' = [sc EXCEPT !.rule[pq] = [kind |-> k, mode |-> md]]
                        /\ pc' = [pc EXCEPT !.i = PairNo(pq)]
                \/ /\ pc' = [ph |-> "direct", i |-> 0]
                   /\ UNCHANGED sc
             /\ UNCHANGED run
\* manifest requirements in package order; the first package is always required (everything else hangs off it or is direct)
NDirect == Cardinality({p \in PkgSet : sc.man.direct[p].kind # "none"})
SetupDirect == /\ pc.ph = "direct"
               /\ \/ /\ NDirect < MaxDirect
                     /\ \E p \in PkgSet, k \in RootKinds, g \in {"", "dev"} :
                          /\ Idx(p) > pc.i
                          /\ (pc.i = 0 => Idx(p) = 1)
                          /\ (g = "dev" => "nodev" \in OptSet /\ Idx(p) > 1)
                          /\ \E at \in (IF k = "latest" THEN {Min(sc.menu[p])}
                                        ELSE {Nth(sc.menu[p], j) : j \in 1..(IF Cardinality(sc.menu[p]) > 1 THEN 2 ELSE 1)}
                                             \* bulk update only: a range anchored above every known version (matches nothing)
                                             \cup (IF Family = "maven-update" /\ k \in {"caret", "tilde"} /\ NV \notin sc.menu[p] THEN {NV} ELSE {})) :
                               sc' = [sc EXCEPT !.man.direct[p] = [kind |-> k, at |-> at], !.grp[p] = g]
                          /\ pc' = [pc EXCEPT !.i = Idx(p)]
                  \/ /\ NDirect >= 1
                     /\ pc' = [ph |-> "vuln", i |-> 0]
                     /\ UNCHANGED sc
               /\ UNCHANGED run
\* every package must be reachable in principle (required directly or by a rule), else it is dead weight
Connected == \A p \in PkgSet : sc.man.direct[p].kind # "none" \/ \E q \in PkgSet : sc.rule[<<q, p>>].kind # "none"
ShapeNo(sh) == sh[1] * 100 + sh[2] * 10 + (CASE sh[3] = "fixed" -> 1 [] sh[3] = "last" -> 2 [] OTHER -> 3)
SetupVuln == /\ pc.ph = "vuln"
             /\ Connected
             /\ \/ /\ Len(sc.vulns) < MaxVulns
                   /\ \E p \in VulnPkgs \cap PkgSet, sh \in VulnShapes, sev \in (IF "sev7" \in OptSet THEN {"high", "low"} ELSE {"high"}) :
                        /\ Idx(p) * 1000 + ShapeNo(sh) > pc.i      \* canonical order, no duplicates
                        /\ \E vi \in sc.menu[p] : AffectsV([lo |-> sh[1], hi |-> sh[2], end |-> sh[3]], vi)
                        /\ sc' = [sc EXCEPT !.vulns = Append(@, [pkg |-> p, lo |-> sh[1], hi |-> sh[2], end |-> sh[3], sev |-> sev])]
                        /\ pc' = [pc EXCEPT !.i = Idx(p) * 1000 + ShapeNo(sh)]
                \/ /\ (Family = "maven-update" \/ Len(sc.vulns) >= 1)
                   /\ pc' = [ph |-> "cfg", i |-> 0]
                   /\ UNCHANGED sc
             /\ UNCHANGED run
SetupCfg == /\ pc.ph = "cfg"
            /\ \E d \in LevelDefs, lp \in LevelPkgs, p \in PkgSet, o \in OptSet :
                 /\ (lp = "-" => p = Pkgs[1])
                 /\ (lp # "-" => lp # d)
                 /\ (o \in {"ignore1", "explicit1"} => Len(sc.vulns) >= 2)
                 /\ (o = "sev7" => \E i \in 1..Len(sc.vulns) : sc.vulns[i].sev = "low")
                 /\ (o # "sev7" => \A i \in 1..Len(sc.vulns) : sc.vulns[i].sev = "high")
                 /\ (o # "nodev" => \A q \in PkgSet : sc.grp[q] = "")
                 /\ (o = "nodev" => \E q \in PkgSet : sc.grp[q] = "dev")
                 /\ sc' = [sc EXCEPT !.levels = [q \in PkgSet \cup {"*"} |-> IF q = "*" THEN d ELSE IF q = p THEN lp ELSE "-"],
                                     !.opt = OptOf(o), !.optname = o]
            /\ pc' = [ph |-> "resolve", i |-> 0]
            /\ UNCHANGED run

-----------------------------------------------------------------------------
(* ---------------------------- (3) the pipeline ------------------------- *)
Strategy == IF Family = "npm-relax" THEN "relax" ELSE IF Family = "maven-override" THEN "override" ELSE "update"

\* Resolve: the environment answers with the graph of the manifest (doStrategy: remediation.ResolveManifest)
Resolve == /\ pc.ph = "resolve"
           /\ IF ~Resolvable(sc, sc.man)
              THEN /\ pc' = [ph |-> (IF Strategy = "update" THEN "suggest" ELSE "error"), i |-> 0]
                   /\ UNCHANGED run
              ELSE /\ run' = [run EXCEPT !.g1 = RefResolve(sc, sc.man)]
                   /\ pc' = [ph |-> (IF Strategy = "update" THEN "suggest" ELSE "findvulns"), i |-> 0]
           /\ UNCHANGED sc
\* FindVulns: match, filter; one attempt per vulnerability is queued (common.ComputePatches)
FindVulns == /\ pc.ph = "findvulns"
             /\ LET ign == IgnoreFor(sc, run.g1)
                    vs == Found(sc, sc.man, run.g1, ign)
                IN run' = [run EXCEPT !.ign = ign, !.vs1 = vs, !.todo = {{i} : i \in vs}]
             /\ pc' = [ph |-> "attempt", i |-> 0]
             /\ UNCHANGED sc
\* start the next queued attempt (the goroutines of ComputePatches are independent: any order gives the same set)
StartAttempt == /\ pc.ph = "attempt" /\ run.todo # {}
                /\ LET ids == CHOOSE x \in run.todo : \A y \in run.todo : x = y \/ SetLess(x, y) \/ ~SetLess(y, x)
                   IN run' = [run EXCEPT !.todo = @ \ {ids}, !.tried = @ \cup {ids},
                                         !.att = [ids |-> ids, man |-> sc.man, g |-> run.g1, vs |-> run.vs1, viaPre |-> FALSE, n |-> 0]]
                /\ pc' = [ph |-> "iter", i |-> 0]
                /\ UNCHANGED sc
\* ConstructPatch + queueing of follow-up attempts for introduced vulnerabilities
Finish(a, ok) ==
  LET p == MkPatch(sc, sc.man, run.vs1, a)
      newly == p.intro \ a.ids
      more == IF ~ok \/ p.ups = {} \/ newly = {} THEN {}
              ELSE IF Strategy = "override" THEN {a.ids \cup newly} ELSE {a.ids \cup {v} : v \in newly}
  IN /\ run' = [run EXCEPT !.patches = IF ok /\ p.ups # {} THEN @ \cup {p} ELSE @,
                           !.todo = @ \cup (more \ run.tried), !.att = a]
     /\ pc' = [ph |-> "attempt", i |-> 0]
\* one iteration of the loop in patchVulns
AttemptStep ==
  /\ pc.ph = "iter"
  /\ LET a == run.att IN
     IF Strategy = "override"
     THEN LET pins == OvPins(sc, a) IN
          IF OvTargets(sc, a) = {} \/ \A p \in PkgSet : pins[p] = 0
          THEN Finish(a, TRUE)                                      \* all fixed, or nothing more can be patched
          ELSE LET man2 == ApplyPins(a.man, pins, 1)
                   g2 == RefResolve(sc, man2)
               IN IF man2 = a.man /\ ~FixOverrideLoop
                  THEN \* the pins of this iteration were already in the manifest and did not take effect: the code sets
                       \* didPatch and re-resolves the same manifest - the same iteration repeats forever
                       /\ run' = [run EXCEPT !.spin = TRUE]
                       /\ pc' = [ph |-> "spin", i |-> 0]
                  ELSE IF man2 = a.man THEN Finish(a, FALSE)      \* repaired code (ce5b7bda, e5477405): ErrPatchImpossible, no patch
                  ELSE /\ run' = [run EXCEPT !.att = [a EXCEPT !.man = man2, !.g = g2, !.vs = Found(sc, man2, g2, run.ign), !.n = a.n + 1]]
                       /\ UNCHANGED pc
     ELSE LET tr == ToRelax(sc, a) IN
          IF tr = {} THEN Finish(a, TRUE)
          ELSE IF \E d \in tr : ~Relax(sc, d, a.man.direct[d]).ok THEN Finish(a, FALSE)     \* ErrPatchImpossible
          ELSE LET man2 == [a.man EXCEPT !.direct = [d \in PkgSet |-> IF d \in tr THEN Relax(sc, d, a.man.direct[d]).req ELSE a.man.direct[d]]]
                   g2 == RefResolve(sc, man2)
                   vp == a.viaPre \/ \E d \in tr : Relax(sc, d, a.man.direct[d]).viaPre
               IN /\ run' = [run EXCEPT !.att = [a EXCEPT !.man = man2, !.g = g2, !.vs = Found(sc, man2, g2, run.ign), !.viaPre = vp, !.n = a.n + 1]]
                  /\ UNCHANGED pc
  /\ UNCHANGED sc
\* Choose: sort (Patch.Compare), choosePatches
Choose == /\ pc.ph = "attempt" /\ run.todo = {}
          /\ LET ord == Sorted(run.patches)
             IN run' = [run EXCEPT !.order = ord, !.chosen = ChooseOp(ord, sc.opt.maxUp, sc.opt.noIntro)]
          /\ pc' = [ph |-> "write", i |-> 0]
          /\ UNCHANGED sc
\* Maven bulk update: one patch with every suggested requirement change, applied as a whole
Suggest == /\ pc.ph = "suggest"
           /\ LET reqs == {p \in PkgSet : sc.man.direct[p].kind # "none" /\ LevelOf(sc, p) # "none"}
                  sg(p) == SuggestOne(sc, p, sc.man.direct[p], LevelOf(sc, p))
              IN IF \E p \in reqs : sg(p).crash
                 THEN /\ run' = [run EXCEPT !.crash = TRUE]
                      /\ pc' = [ph |-> "error", i |-> 0]
                 ELSE LET man2 == [sc.man EXCEPT !.direct = [p \in PkgSet |-> IF p \in reqs THEN sg(p).to ELSE sc.man.direct[p]]]
                          p1 == [ups |-> UpdatesBetween(sc.man, man2), fixed |-> {}, intro |-> {}, viaPre |-> FALSE]
                      IN /\ run' = [run EXCEPT !.patches = {p1}, !.order = <<p1>>, !.chosen = <<1>>]
                         /\ pc' = [ph |-> "write", i |-> 0]
           /\ UNCHANGED sc
ChosenUpdates == UNION {run.order[run.chosen[k]].ups : k \in 1..Len(run.chosen)}
Write == /\ pc.ph = "write"
         /\ run' = [run EXCEPT !.written = ApplyUpdates(sc.man, ChosenUpdates)]
         /\ pc' = [ph |-> "reresolve", i |-> 0]
         /\ UNCHANGED sc
\* ReRead + ReResolve: a fresh run on the written manifest
ReResolve == /\ pc.ph = "reresolve"
             /\ run' = [run EXCEPT !.g2 = RefResolve(sc, run.written)]
             /\ pc' = [ph |-> (IF Strategy = "update" THEN "done" ELSE "refindvulns"), i |-> 0]
             /\ UNCHANGED sc
ReFindVulns == /\ pc.ph = "refindvulns"
               /\ run' = [run EXCEPT !.vs2 = Found(sc, run.written, run.g2, IgnoreFor(sc, run.g2))]
               /\ pc' = [ph |-> "done", i |-> 0]
               /\ UNCHANGED sc

Next == SetupMenu \/ SetupRule \/ SetupDirect \/ SetupVuln \/ SetupCfg
        \/ Resolve \/ FindVulns \/ StartAttempt \/ AttemptStep \/ Choose \/ Suggest \/ Write \/ ReResolve \/ ReFindVulns
Spec == Init /\ [][Next]_vars

Terminal == pc.ph \in {"done", "error", "spin"}

-----------------------------------------------------------------------------
(* ---------------------------- properties ------------------------------- *)
\* open findings: as-built deviations of /repo that are excused in the completeness invariants when listed in Devs.
\* Three were found by this check and repaired in /repo (the transcription above follows the repaired code):
\*  "C11-relax-prerelease-caret" (fix c843e777): NpmRelaxer.Relax wrote "^best" after a step whose difference is only
\*      the pre-release status, which admits minor upgrades even when the level is patch
\*  "C12-explicit-introduced" (fix 91b025e2): the explicit list was turned into an ignore list once, from the first graph
\*  "C11-update-nil-range" (fix 10bc72b4): suggestMavenVersion dereferenced nil when a range matched no version
\* and one is a property of the as-built transcription (FixOverrideLoop = FALSE):
\*  "C11-override-ineffective-pin-loop": override.patchVulns repeats the same iteration forever when its pin does
\*      not take effect (a direct soft Maven requirement loses against a transitive hard range)
DevPreCaret(p) == "C11-relax-prerelease-caret" \in Devs /\ p.viaPre
DevExplicit(p) == "C12-explicit-introduced" \in Devs /\ sc.opt.explicit # {} /\ ~(p.intro \subseteq sc.opt.explicit)
DevNilRange == "C11-update-nil-range" \in Devs /\ run.crash
DevSpin == "C11-override-ineffective-pin-loop" \in Devs /\ run.spin
\* Both remaining ones come from the Maven rule that a hard (range) requirement anywhere beats a soft version:
\*  "C11-override-unfixing-patch" (fix e5477405; appeared with ce5b7bda): the attempt ended and the override that did
\*      not take effect stayed in a patch that fixed nothing: a requirement rewritten although the package did not move up
\*  "C11-update-maven-hard-range": the bulk update rewrites requirements to soft versions without resolving; where a
\*      hard range on the same package exists the rewrite has no effect (or lets another range take over)
DevUnfixing(p) == "C11-override-unfixing-patch" \in Devs /\ Strategy = "override" /\ p.fixed = {}
HardInvolved(u) == u.from.kind \notin {"none", "pin"}
                   \/ \E q \in PkgSet : \E vi \in sc.menu[q] : DepReq(sc, q, vi, u.name).kind \notin {"none", "pin"}
DevUpdateHard(u) == "C11-update-maven-hard-range" \in Devs /\ Strategy = "update" /\ HardInvolved(u)

\* base(u): the version u.name resolves to under manifest + (patch minus u); after(u): under manifest + patch
BaseOf(p, u) == RefResolve(sc, ApplyUpdates(sc.man, p.ups \ {u}))[u.name]
AfterOf(p, u) == RefResolve(sc, ApplyUpdates(sc.man, p.ups))[u.name]
UpdateOK(p, u) == LET b == BaseOf(p, u) a == AfterOf(p, u) IN
                  /\ LevelOf(sc, u.name) # "none"
                  /\ (b # 0 /\ a # 0) => ChangeOK(LevelOf(sc, u.name), VT[b], VT[a])
\* C11: every dependency change of every proposed (hence every applied) patch
C11 == \A p \in run.patches : \A u \in p.ups : UpdateOK(p, u) \/ DevPreCaret(p) \/ DevUnfixing(p) \/ DevUpdateHard(u)
\* the attempt in progress, at every iteration ("does the level check still apply after the first step"): whatever
\* has moved so far has moved upward within its level (strictness is demanded of finished patches only: a pin that
\* has not taken effect yet is not a proposed change)
StepOK(p, u) == LET b == BaseOf(p, u) a == AfterOf(p, u) IN
                /\ LevelOf(sc, u.name) # "none"
                /\ (b # 0 /\ a # 0 /\ a # b) => ChangeOK(LevelOf(sc, u.name), VT[b], VT[a])
C11EveryStep == pc.ph = "iter" => LET p == MkPatch(sc, sc.man, run.vs1, run.att) IN \A u \in p.ups : StepOK(p, u) \/ DevPreCaret(p)
\* no crash, no divergence
C11NoCrash == ~run.crash \/ DevNilRange
C11Terminates == ~run.spin \/ DevSpin

\* termination variant of the attempt loop: the requirement upper bounds only move up, strictly in every iteration
Bound(man, p) == IF man.direct[p].kind # "none" THEN (IF Matching(sc.menu[p], man.direct[p]) = {} THEN 0 ELSE Max(Matching(sc.menu[p], man.direct[p])))
                 ELSE man.mgmt[p]
RECURSIVE SumBound(_, _)
SumBound(man, k) == IF k > Len(Pkgs) THEN 0 ELSE Bound(man, Pkgs[k]) + SumBound(man, k + 1)
Variant == Len(Pkgs) * NV - SumBound(run.att.man, 1)
VariantDecreases == [][(pc.ph = "iter" /\ pc'.ph = "iter") => (Variant' < Variant /\ Variant' >= 0)]_vars
AttemptsBounded == run.att.n <= Len(Pkgs) * NV /\ Cardinality(run.tried) <= 2 ^ MaxVulns

\* the optimisation in override.patchVulns (stop at the first disallowed difference) is sound: on an ascending
\* scan the difference from the current version only grows, so stopping loses nothing
ScanStopSound == pc.ph = "iter" /\ Strategy = "override" =>
                   \A p \in OvTargets(sc, run.att) :
                      LET V == {i \in run.att.vs \cap run.att.ids : sc.vulns[i].pkg = p} IN
                      OverrideScan(sc, p, run.att.g[p], V) = OverrideScanNoStop(sc, p, run.att.g[p], V)

\* C12
AppliedOne == pc.ph = "done" /\ Strategy # "update" /\ Len(run.chosen) = 1
C12Reanalysis == AppliedOne => LET p == run.order[run.chosen[1]] IN
                               run.vs2 = (run.vs1 \ p.fixed) \cup p.intro \/ DevExplicit(p)
C12NoPatch == (pc.ph = "done" /\ Strategy # "update" /\ Len(run.chosen) = 0) => (run.written = sc.man /\ run.vs2 = run.vs1)
\* computeVulnsResult: unactionable = fixed by no proposed patch
Unactionable == {i \in run.vs1 : \A p \in run.patches : i \notin p.fixed}
C12Actionable == pc.ph = "done" => \A k \in 1..Len(run.chosen) : run.order[run.chosen[k]].fixed \cap Unactionable = {}
C12MaxUpgrades == pc.ph = "done" /\ sc.opt.maxUp > 0 /\ Strategy # "update" => Len(run.chosen) <= sc.opt.maxUp
C12NoIntroduce == pc.ph = "done" /\ sc.opt.noIntro => \A k \in 1..Len(run.chosen) : run.order[run.chosen[k]].intro = {}

-----------------------------------------------------------------------------
(* ---------------------------- case emission ---------------------------- *)
\* requirements are emitted as <<kind, at>>; only existing edges / manifest entries are listed
CaseUniverse == [i \in 1..Len(Pkgs) |->
                   [name |-> Pkgs[i],
                    versions |-> [k \in 1..Cardinality(sc.menu[Pkgs[i]]) |->
                       LET vi == Nth(sc.menu[Pkgs[i]], k) IN
                       [v |-> vi, latest |-> (vi = LatestOf(sc.menu[Pkgs[i]])),
                        deps |-> {<<j, Pkgs[j], DepReq(sc, Pkgs[i], vi, Pkgs[j]).kind, DepReq(sc, Pkgs[i], vi, Pkgs[j]).at>> :
                                    j \in {x \in 1..Len(Pkgs) : DepReq(sc, Pkgs[i], vi, Pkgs[x]).kind # "none"}}]]]]
Case == [family |-> Family, universe |-> CaseUniverse,
         manifest |-> {<<i, Pkgs[i], sc.man.direct[Pkgs[i]].kind, sc.man.direct[Pkgs[i]].at, sc.grp[Pkgs[i]]>> :
                         i \in {x \in 1..Len(Pkgs) : sc.man.direct[Pkgs[x]].kind # "none"}},
         vulns |-> [i \in 1..Len(sc.vulns) |-> sc.vulns[i]],
         levels |-> {<<p, sc.levels[p]>> : p \in {x \in PkgSet \cup {"*"} : sc.levels[x] # "-"}},
         opt |-> sc.optname,
         model |-> [patches |-> Cardinality(run.patches), chosen |-> Len(run.chosen), vulns1 |-> Cardinality(run.vs1),
                    vulns2 |-> Cardinality(run.vs2), error |-> (pc.ph \in {"error", "spin"}),
                    updates |-> Cardinality(UNION {p.ups : p \in run.patches}), intro |-> (\E p \in run.patches : p.intro # {})],
         devs |-> {d \in {"C11-relax-prerelease-caret"} : \E p \in run.patches : p.viaPre /\ \E u \in p.ups : ~UpdateOK(p, u)}
                  \cup {d \in {"C12-explicit-introduced"} : AppliedOne /\ LET p == run.order[run.chosen[1]] IN
                                                             sc.opt.explicit # {} /\ ~(p.intro \subseteq sc.opt.explicit)}
                  \cup {d \in {"C11-update-nil-range"} : run.crash}
                  \cup {d \in {"C11-override-ineffective-pin-loop"} : run.spin}
                  \cup {d \in {"C11-override-unfixing-patch"} : Strategy = "override" /\ \E p \in run.patches : p.fixed = {} /\ \E u \in p.ups : ~UpdateOK(p, u)}
                  \cup {d \in {"C11-update-maven-hard-range"} : Strategy = "update" /\ \E p \in run.patches : \E u \in p.ups : HardInvolved(u) /\ ~UpdateOK(p, u)}]
Emit == Terminal => PrintT(ToJson(Case))

\* sanity (each must be violated: the antecedents of the properties are reachable)
SanityPatch == ~(pc.ph = "done" /\ \E p \in run.patches : Cardinality(p.ups) >= 1 /\ p.fixed # {})
SanityIntroduced == ~(AppliedOne /\ run.order[run.chosen[1]].intro # {})
SanityTwoIterations == ~(pc.ph = "iter" /\ run.att.n >= 2)
=============================================================================
