--------------------------- MODULE RemediationGen ---------------------------
(* Model values for the Remediation cfgs (a TLC cfg file cannot spell tuples). Binding (A) for C11/C12:    *)
(* every terminal state of Remediation emits one scenario (invariant Emit); there is no `expect` because  *)
(* the resolver is environment - the harness records the trace of the real pipeline and TLC judges it     *)
(* (RemediationTrace).                                                                                     *)
EXTENDS Remediation

P2 == <<"a", "b">>
P3 == <<"a", "b", "c">>
\* VT = 1:1.0.0 2:1.0.1 3:1.1.0 4:2.0.0-rc 5:2.0.0 6:2.1.0 7:3.0.0
\* OSV range templates <<introduced, end version, end kind>> over version indices of VT
ShapesQuick == {<<0, 3, "fixed">>, <<0, 5, "fixed">>, <<0, 0, "none">>, <<3, 5, "last">>, <<5, 0, "none">>}
ShapesFull  == ShapesQuick \cup {<<0, 2, "fixed">>, <<0, 7, "fixed">>, <<2, 4, "fixed">>, <<0, 4, "last">>, <<6, 0, "none">>}
ShapesSanity == {<<0, 5, "fixed">>, <<5, 0, "none">>, <<0, 7, "fixed">>}
ShapesThree == {<<0, 3, "fixed">>, <<0, 5, "fixed">>, <<0, 0, "none">>}
ShapesTwo   == {<<0, 5, "fixed">>, <<3, 0, "none">>}
\* version menus
MA4 == {{1,2,5}, {4,5,6}, {1,5,7}, {1,3}}
MB2 == {{1,3}, {1,5,7}}
MA2 == {{1,2,5}, {1,5,7}}
MFull == {{1}, {1,3}, {1,2,3}, {1,2,5}, {4,5,6}, {3,4,5}, {1,5,7}, {1,4,5,7}, {2,5,6,7}, {1,2,3,4,5,6,7}}
MA3 == {{1,2,5}, {4,5,6}, {1,5,7}}
MenusA4B2 == <<MA4, MB2>>
MenusA3B2 == <<MA3, MB2>>
MenusA2B2 == <<MA2, MB2>>
MenusFull2 == <<MFull, MFull>>
MenusA3B1 == <<MA3, {{1,5,7}}>>
MenusA2B3 == <<MA2, MA3>>
MenusA1B3 == <<{{1,5,7}}, MA3>>
MenusOpt == <<{{1,5,7}}, MB2>>
MenusSanity == <<{{1,5,7}}, {{1,5,7}}>>
MenusDiamondQ == <<{{1,5}}, {{1,5}}, MA2>>
MenusDiamond == <<{{1,5}}, {{1,5}}, {{1,2,5}, {1,5,7}, {4,5,6}}>>
MenusDiamondFull == <<MB2, MB2, MA4>>
=============================================================================
