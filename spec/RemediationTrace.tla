-------------------------- MODULE RemediationTrace --------------------------
(* Binding (B) for C11/C12: the pipeline of the REAL guidedremediation.FixVulns / Update, recorded by      *)
(* harness/cmd/vremfix as one ndjson trace per scenario (DESIGN.md Appendix B.2), must be a behaviour of    *)
(* the pipeline below, and the C11/C12 properties - stated with the version algebra of Remediation (Cmp,   *)
(* Diff, Allows from the documentation of upgrade.Level, LevelT = Config.Get as documented) and with the    *)
(* choosePatches transcription of Remediation (ChooseOp) - are evaluated at every step.                     *)
(* Every graph, every vulnerability list and every Base/After version in the trace is an OBSERVATION of the *)
(* real resolver/matcher: the resolver is environment and is not modelled here.                             *)
(* Many traces are concatenated; a "Reset" line starts the next scenario.                                   *)
EXTENDS RemediationGen, IOUtils, TLCExt

TraceLog == ndJsonDeserialize(IOEnv.VERIF_TRACE)
VARIABLES l,   \* next line of the trace
          t    \* what has been observed of the current scenario
tvars == <<vars, l, t>>

Ev == TraceLog[l]
Is(e) == l <= Len(TraceLog) /\ Ev.ev = e /\ l' = l + 1
ToSet(s) == {s[i] : i \in 1..Len(s)}

NoScn == [case |-> "", eco |-> "", mode |-> "", strategy |-> "", levels |-> <<>>, maxUpgrades |-> 0, noIntroduce |-> FALSE,
          explicit |-> <<>>, ignore |-> <<>>]
T0 == [ph |-> "idle", scn |-> NoScn, reqs0 |-> {}, g1 |-> {}, vs1 |-> {}, unact |-> {}, patches |-> <<>>, proposed |-> 0,
       chosen |-> <<>>, written |-> {}, g2 |-> {}, vs2 |-> {}, bases |-> {}, have |-> {}]

\* Config.Get as documented: per-package entry, else the default entry (package ""), else Major
LevelT(name) == LET lv == t.scn.levels IN
                IF \E i \in 1..Len(lv) : lv[i][1] = name THEN lv[CHOOSE i \in 1..Len(lv) : lv[i][1] = name][2]
                ELSE IF \E i \in 1..Len(lv) : lv[i][1] = "" THEN lv[CHOOSE i \in 1..Len(lv) : lv[i][1] = ""][2]
                ELSE "major"

PatchOf(e) == [ups |-> {[name |-> u[1], from |-> u[2], to |-> u[3], transitive |-> u[4]] : u \in ToSet(e.updates)},
               fixed |-> ToSet(e.fixed), intro |-> ToSet(e.introduced)]

TInit == Init /\ l = 1 /\ t = T0
TReset == /\ Is("Reset") /\ t.ph = "idle"
          /\ t' = [T0 EXCEPT !.ph = "reset", !.scn = [case |-> Ev.case, eco |-> Ev.eco, mode |-> Ev.mode, strategy |-> Ev.strategy,
                                                      levels |-> Ev.levels, maxUpgrades |-> Ev.maxUpgrades, noIntroduce |-> Ev.noIntroduce,
                                                      explicit |-> Ev.explicit, ignore |-> Ev.ignore]]
TParsed == /\ Is("Parsed") /\ t.ph = "reset"
           /\ t' = [t EXCEPT !.ph = "parsed", !.reqs0 = ToSet(Ev.reqs), !.have = @ \cup {"Parsed"}]
TResolved == /\ Is("Resolved")
             /\ \/ /\ Ev.run = 1 /\ t.ph = "parsed" /\ t.scn.mode = "fix"
                   /\ t' = [t EXCEPT !.ph = "resolved1", !.g1 = ToSet(Ev.graph), !.have = @ \cup {"Resolved1"}]
                \/ /\ Ev.run = 2 /\ t.ph = "written"
                   /\ t' = [t EXCEPT !.ph = "resolved2", !.g2 = ToSet(Ev.graph), !.have = @ \cup {"Resolved2"}]
TVulns == /\ Is("Vulns")
          /\ \/ /\ Ev.run = 1 /\ t.ph = "resolved1"
                /\ t' = [t EXCEPT !.ph = "vulns1", !.vs1 = ToSet(Ev.ids), !.unact = ToSet(Ev.unactionable), !.have = @ \cup {"Vulns1"}]
             \/ /\ Ev.run = 2 /\ t.ph \in {"written", "resolved2"}
                /\ t' = [t EXCEPT !.ph = "vulns2", !.vs2 = ToSet(Ev.ids), !.have = @ \cup {"Vulns2"}]
TPatch == /\ Is("Patch")
          /\ t.ph \in (IF t.scn.mode = "update" THEN {"parsed"} ELSE {"vulns1", "patches"})
          /\ Ev.k = Len(t.patches) + 1
          /\ t' = [t EXCEPT !.ph = "patches", !.patches = Append(@, PatchOf(Ev))]
TChosen == /\ Is("Chosen") /\ t.ph \in {"vulns1", "patches"}
           /\ \A i \in 1..Len(Ev.ks) : Ev.ks[i] \in 1..Len(t.patches)
           /\ t' = [t EXCEPT !.ph = "chosen", !.chosen = Ev.ks, !.proposed = (IF t.scn.mode = "update" THEN 1 ELSE Ev.proposed),
                             !.have = @ \cup {"Chosen"}]
TWritten == /\ Is("Written") /\ t.ph = "chosen"
            /\ t' = [t EXCEPT !.ph = "written", !.written = ToSet(Ev.reqs), !.have = @ \cup {"Written"}]
\* the patch-minus-one resolution (base) and the resolution with the whole patch (after), by the real resolver
TBase == /\ Is("Base") /\ t.ph \in {"written", "resolved2", "vulns2"}
         /\ Ev.k \in 1..Len(t.patches)
         /\ \E u \in t.patches[Ev.k].ups : u.name = Ev.name
         /\ t' = [t EXCEPT !.bases = @ \cup {[k |-> Ev.k, name |-> Ev.name, base |-> Ev.base, after |-> Ev.after,
                                              toKind |-> Ev.toKind, toAt |-> Ev.toAt, hard |-> Ev.hard, fromRange |-> Ev.fromRange,
                                              combo |-> Ev.src = "applied-combination"]}]
TError == /\ Is("Error") /\ t.ph \in {"parsed", "resolved1"}
          /\ t' = [t EXCEPT !.ph = "error"]
\* a trace ends only when C11 has been evaluated for every update of every proposed/applied patch
AllJudged == \A k \in 1..Len(t.patches) : \A u \in t.patches[k].ups : \E b \in t.bases : b.k = k /\ b.name = u.name
TDone == /\ Is("Done") /\ t.ph \in {"error", "written", "resolved2", "vulns2"}
         /\ t.ph # "error" => AllJudged
         /\ t' = [t EXCEPT !.ph = "idle"]
TNext == (TReset \/ TParsed \/ TResolved \/ TVulns \/ TPatch \/ TChosen \/ TWritten \/ TBase \/ TError \/ TDone) /\ UNCHANGED vars
TSpec == TInit /\ [][TNext]_tvars

-----------------------------------------------------------------------------
(* ---- open findings, as class predicates over the observed trace ---- *)
\* NpmRelaxer.Relax wrote "^M.m.p" after a step from the pre-release M.m.p-rc to the release M.m.p
DevPreCaretT(b) == /\ "C11-relax-prerelease-caret" \in Devs /\ t.scn.strategy = "relax"
                   /\ b.base # <<>> /\ b.base[4] # Rel /\ b.toKind = "caret"
                   /\ b.toAt = <<b.base[1], b.base[2], b.base[3], Rel>>
\* Maven: a hard range beats the soft version the tool wrote (override patch that fixes nothing; bulk update of a
\* package some hard range constrains)
DevUnfixingT(b) == "C11-override-unfixing-patch" \in Devs /\ t.scn.strategy = "override" /\ t.patches[b.k].fixed = {}
DevUpdateHardT(b) == "C11-update-maven-hard-range" \in Devs /\ t.scn.mode = "update" /\ b.hard
\* override rewrote the manifest's own hard range to a soft version; another package's disjoint hard range takes over
DevOverrideHardT(b) == "C11-override-maven-hard-range" \in Devs /\ t.scn.strategy = "override" /\ b.hard /\ b.fromRange
\* several applied patches judged together: each override was vetted on its own, the upgrade chosen by another patch
\* brings a hard range on the overridden package (choosePatches does not re-resolve the combination)
DevOverrideCombinedT(b) == "C11-override-combined-hard-range" \in Devs /\ t.scn.strategy = "override" /\ b.hard /\ b.fromRange /\ b.combo
DevHardT(b) == DevUnfixingT(b) \/ DevUpdateHardT(b) \/ DevOverrideHardT(b) \/ DevOverrideCombinedT(b)
DevExplicitT(p) == /\ "C12-explicit-introduced" \in Devs /\ t.scn.explicit # <<>>
                   /\ ~(p.intro \subseteq ToSet(t.scn.explicit))

(* ---- C11 at every step ---- *)
\* no patch, proposed or applied, touches a package configured as not upgradable
TC11None == \A k \in 1..Len(t.patches) : \A u \in t.patches[k].ups : LevelT(u.name) # "none"
\* every change moves the package strictly upward from where it would resolve without the change ...
TC11Upward == \A b \in t.bases : (b.base # <<>> /\ b.after # <<>>) => (Cmp(b.after, b.base) > 0 \/ DevHardT(b))
\* ... by no more than the level configured for it
TC11Level == \A b \in t.bases : (b.base # <<>> /\ b.after # <<>>) => (Allows(LevelT(b.name), Diff(b.base, b.after)) \/ DevPreCaretT(b) \/ DevHardT(b))
\* (the three together are ChangeOK of Remediation)
TC11ChangeOK == \A b \in t.bases : (b.base # <<>> /\ b.after # <<>> /\ ~DevPreCaretT(b) /\ ~DevHardT(b)) => ChangeOK(LevelT(b.name), b.base, b.after)

(* ---- C12 at every step ---- *)
Applied(k) == t.patches[t.chosen[k]]
TC12Reanalysis == ("Vulns2" \in t.have /\ Len(t.chosen) = 1) =>
                     (t.vs2 = (t.vs1 \ Applied(1).fixed) \cup Applied(1).intro \/ DevExplicitT(Applied(1)))
TC12NoPatch == /\ ("Written" \in t.have /\ t.chosen = <<>>) => t.written = t.reqs0
               /\ ("Vulns2" \in t.have /\ t.chosen = <<>>) => t.vs2 = t.vs1
TC12Actionable == "Chosen" \in t.have => \A k \in 1..Len(t.chosen) : Applied(k).fixed \cap t.unact = {}

(* ---- conformance of the observed pipeline with the transcription in Remediation ---- *)
\* choosePatches: the applied patches are A greedy choice over the proposed list. Patch.Compare leaves ties (equal
\* rank, different patches) in goroutine-completion order, so the exact order is not observable; what every greedy
\* pass guarantees is: applied patches are proposed, pairwise compatible, and no compatible proposed patch is left
\* out unless the limit was reached (ChooseOp of Remediation is one such pass).
Conflict(x, y) == (\E u \in x.ups, w \in y.ups : u.name = w.name /\ u.from = w.from) \/ x.fixed \cap y.fixed # {}
TChooseOp == ("Chosen" \in t.have /\ t.scn.mode = "fix") =>
                /\ \A i \in 1..Len(t.chosen) : t.chosen[i] \in 1..t.proposed
                /\ \A i, j \in 1..Len(t.chosen) : i # j => (t.chosen[i] # t.chosen[j] /\ ~Conflict(Applied(i), Applied(j)))
                /\ (t.scn.maxUpgrades <= 0 \/ Len(t.chosen) < t.scn.maxUpgrades) =>
                      \A k \in 1..t.proposed : (k \notin ToSet(t.chosen) /\ ~(t.scn.noIntroduce /\ t.patches[k].intro # {}))
                                                   => \E i \in 1..Len(t.chosen) : Conflict(t.patches[k], Applied(i))
TMaxUpgrades == ("Chosen" \in t.have /\ t.scn.mode = "fix" /\ t.scn.maxUpgrades > 0) => Len(t.chosen) <= t.scn.maxUpgrades
TNoIntroduce == ("Chosen" \in t.have /\ t.scn.noIntroduce) => \A k \in 1..Len(t.chosen) : Applied(k).intro = {}
\* Write: the requirements on disk are the parsed ones with the updates of the applied patches
RECURSIVE ApplyT(_, _)
ApplyT(reqs, U) == IF U = {} THEN reqs
                   ELSE LET u == CHOOSE x \in U : TRUE
                            hit == {r \in reqs : r[1] = u.name}
                        IN ApplyT((reqs \ hit) \cup {<<u.name, u.to>>}, U \ {u})
TWrittenIsPatch == "Written" \in t.have => t.written = ApplyT(t.reqs0, UNION {Applied(k).ups : k \in 1..Len(t.chosen)})

\* the whole trace file was consumed (fully logged and deterministic: one state per line + the initial state)
TraceAccepted == LET d == TLCGet("stats").diameter IN
                 IF d - 1 = Len(TraceLog) THEN TRUE
                 ELSE Print(<<"TRACE-REJECTED-AT", d, IF d <= Len(TraceLog) THEN TraceLog[d] ELSE "eof">>, FALSE)
=============================================================================
