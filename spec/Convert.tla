------------------------------ MODULE Convert ------------------------------
(***************************************************************************)
(* C14 - every emitted package is well-formed and convertible.             *)
(* C15 - SBOMs the library writes can be read back by the library.         *)
(*                                                                         *)
(* The conversion pipeline of osv-scalibr as a state machine. The state    *)
(* carries an abstract package: a package URL (type, namespace, name,      *)
(* version, qualifiers, sub-path, each drawn from a table of character     *)
(* classes with one concrete representative string per class), presence of *)
(* a package URL, number of locations, presence of layer details.          *)
(*                                                                         *)
(* Mode "pkg" (C14): one package through                                   *)
(*   Emit -> ToPURL -> String -> FromString -> String -> FromString        *)
(*        -> Index (New / GetSpecific / GetAllOfType) -> Proto -> SBOM     *)
(* Mode "inv" (C15): an inventory of 0..MaxPkgs packages through           *)
(*   AddPkg* -> Export(format) -> WriteFile -> ScanWithSBOMExtractor       *)
(*                                                                         *)
(* Declarative part: Norm (the package-URL normalisation of a type, from   *)
(* the purl type definitions), Exported (which packages a document of a    *)
(* format carries), ExpectedBack (what a scan of the written file must     *)
(* yield), PkgOK (the per-package statement of C14 over a fact record).    *)
(* Operational part: the stage actions; the export loop walks the          *)
(* inventory entry by entry like converter.ToSPDX23 / ToCDX do.            *)
(*                                                                         *)
(* What the model can and cannot say: strings are opaque to TLC, so the    *)
(* facts about concrete strings (percent-encoding, the parser, the proto   *)
(* and SBOM records) are computed by the Go harness on the real code; the  *)
(* model contributes the pipeline, the class product, the normal form, the *)
(* export filter, the expected multiset and the judgement of the recorded  *)
(* fact vectors (ConvertTrace).                                            *)
(*                                                                         *)
(* Non-ASCII and control characters are written {U+XXXX} in the tables;    *)
(* the orchestrator decodes the marker before a case reaches the harness.  *)
(***************************************************************************)
EXTENDS Integers, Sequences, FiniteSets, TLC, Json

CONSTANTS Mode,      \* "pkg" | "inv"
          Types,     \* package URL types explored (every type the built-in extractors emit)
          NameCs, VerCs, NsCs, QualCs, SubCs,  \* classes explored (subsets of the tables' domains)
          MaxDev,    \* a package deviates from the plain package in at most MaxDev dimensions
          MaxPkgs,   \* "inv": inventory length bound
          Formats,   \* "inv": export formats
          SpecialKinds \* "inv": special plain packages: subset of {"none" (no URL, no CPE), "cpe" (CPE only), "both" (URL and CPE)}

-----------------------------------------------------------------------------
(* ---- class tables: one concrete representative per class ---- *)
\* raw: the string; lower: its lower-case form; dash: lower with '_' replaced by '-' (pypi)
NameTab == [
  plain    |-> [raw |-> "libfoo",          lower |-> "libfoo",          dash |-> "libfoo"],
  space    |-> [raw |-> "lib foo",         lower |-> "lib foo",         dash |-> "lib foo"],
  slash    |-> [raw |-> "lib/foo",         lower |-> "lib/foo",         dash |-> "lib/foo"],
  at       |-> [raw |-> "lib@foo",         lower |-> "lib@foo",         dash |-> "lib@foo"],
  pct      |-> [raw |-> "lib%foo",         lower |-> "lib%foo",         dash |-> "lib%foo"],
  pctenc   |-> [raw |-> "lib%20foo",       lower |-> "lib%20foo",       dash |-> "lib%20foo"],
  plus     |-> [raw |-> "lib+foo",         lower |-> "lib+foo",         dash |-> "lib+foo"],
  qmark    |-> [raw |-> "lib?foo=1&b",     lower |-> "lib?foo=1&b",     dash |-> "lib?foo=1&b"],
  hash     |-> [raw |-> "lib#foo",         lower |-> "lib#foo",         dash |-> "lib#foo"],
  nonascii |-> [raw |-> "libfo{U+00F6}",   lower |-> "libfo{U+00F6}",   dash |-> "libfo{U+00F6}"],
  upper    |-> [raw |-> "LibFoo",          lower |-> "libfoo",          dash |-> "libfoo"],
  under    |-> [raw |-> "Lib_Foo.bar",     lower |-> "lib_foo.bar",     dash |-> "lib-foo.bar"],
  markup   |-> [raw |-> "lib&foo<b>]]>",   lower |-> "lib&foo<b>]]>",   dash |-> "lib&foo<b>]]>"],
  quote    |-> [raw |-> "lib\"foo'",       lower |-> "lib\"foo'",       dash |-> "lib\"foo'"],
  bslash   |-> [raw |-> "lib\\foo",        lower |-> "lib\\foo",        dash |-> "lib\\foo"],
  yaml     |-> [raw |-> "- lib: #foo",     lower |-> "- lib: #foo",     dash |-> "- lib: #foo"],
  lead     |-> [raw |-> " libfoo ",        lower |-> " libfoo ",        dash |-> " libfoo "],
  ctrl     |-> [raw |-> "lib{U+0001}foo",  lower |-> "lib{U+0001}foo",  dash |-> "lib{U+0001}foo"],
  tab      |-> [raw |-> "lib\tfoo",        lower |-> "lib\tfoo",        dash |-> "lib\tfoo"],
  newline  |-> [raw |-> "lib\nfoo",        lower |-> "lib\nfoo",        dash |-> "lib\nfoo"],
  textopen |-> [raw |-> "<text>libfoo",    lower |-> "<text>libfoo",    dash |-> "<text>libfoo"],
  colon    |-> [raw |-> "org.acme:libfoo", lower |-> "org.acme:libfoo", dash |-> "org.acme:libfoo"],
  \* names that collide with identifiers / keywords the exporters generate themselves (ToSPDX23's synthetic root
  \* package "main" with id SPDXRef-Package-main-<uuid>, ids SPDXRef-Package-<sanitised name>-<uuid>, SPDXRef-DOCUMENT,
  \* NOASSERTION / NONE, the CDX metadata component)
  rmain    |-> [raw |-> "main",             lower |-> "main",             dash |-> "main"],
  rmaindash|-> [raw |-> "main-bower-files", lower |-> "main-bower-files", dash |-> "main-bower-files"],
  rmainsp  |-> [raw |-> "main app",         lower |-> "main app",         dash |-> "main app"],
  rmainus  |-> [raw |-> "main_loop",        lower |-> "main_loop",        dash |-> "main-loop"],
  rpackage |-> [raw |-> "Package",          lower |-> "package",          dash |-> "package"],
  rpkgmain |-> [raw |-> "Package-main-x",   lower |-> "package-main-x",   dash |-> "package-main-x"],
  rdocument|-> [raw |-> "DOCUMENT",         lower |-> "document",         dash |-> "document"],
  rspdxref |-> [raw |-> "SPDXRef-x",        lower |-> "spdxref-x",        dash |-> "spdxref-x"],
  rnoassert|-> [raw |-> "NOASSERTION",      lower |-> "noassertion",      dash |-> "noassertion"],
  rnone    |-> [raw |-> "NONE",             lower |-> "none",             dash |-> "none"],
  rscalibr |-> [raw |-> "SCALIBR",          lower |-> "scalibr",          dash |-> "scalibr"] ]

VerTab == [
  plain    |-> "1.0",
  plus     |-> "1.0+b1",
  epoch    |-> "1:2.3-4~rc1",
  at       |-> "1@2",
  space    |-> "1.0 beta",
  slash    |-> "1/2",
  pct      |-> "1%2",
  qmark    |-> "1?2",
  hash     |-> "1#2",
  nonascii |-> "1.0-{U+00E9}",
  markup   |-> "1&0<2>",
  quote    |-> "1\"0'",
  newline  |-> "1\n0",
  textopen |-> "<text>1.0",
  upper    |-> "1.0-RC1",
  noassert |-> "NOASSERTION",
  zero     |-> "0",
  empty    |-> "" ]

\* canon: leading/trailing/duplicate '/' removed; lower: canon in lower case
NsTab == [
  none    |-> [raw |-> "",              canon |-> "",            lower |-> ""],
  plain   |-> [raw |-> "acme",          canon |-> "acme",        lower |-> "acme"],
  multi   |-> [raw |-> "acme/sub",      canon |-> "acme/sub",    lower |-> "acme/sub"],
  upper   |-> [raw |-> "Acme/Sub",      canon |-> "Acme/Sub",    lower |-> "acme/sub"],
  slashy  |-> [raw |-> "/acme//sub/",   canon |-> "acme/sub",    lower |-> "acme/sub"],
  scope   |-> [raw |-> "@scope",        canon |-> "@scope",      lower |-> "@scope"],
  special |-> [raw |-> "a b@c%d+e?f#g", canon |-> "a b@c%d+e?f#g", lower |-> "a b@c%d+e?f#g"],
  markup  |-> [raw |-> "a&b<c>\"d'",    canon |-> "a&b<c>\"d'",  lower |-> "a&b<c>\"d'"] ]

\* raw: qualifiers in the order given; canon: keys lower-cased, empty values dropped, sorted by key
QualTab == [
  none    |-> [raw |-> <<>>,                                        canon |-> <<>>],
  arch    |-> [raw |-> << <<"arch", "amd64">> >>,                   canon |-> << <<"arch", "amd64">> >>],
  two     |-> [raw |-> << <<"distro", "debian-12">>, <<"arch", "x86_64">> >>,
               canon |-> << <<"arch", "x86_64">>, <<"distro", "debian-12">> >>],
  space   |-> [raw |-> << <<"distro", "debian 12 (bookworm)">> >>,  canon |-> << <<"distro", "debian 12 (bookworm)">> >>],
  special |-> [raw |-> << <<"source", "a&b=c d+e/f?g#h%i@j">> >>,   canon |-> << <<"source", "a&b=c d+e/f?g#h%i@j">> >>],
  markup  |-> [raw |-> << <<"origin", "<a>\"b'\\c]]>">> >>,         canon |-> << <<"origin", "<a>\"b'\\c]]>">> >>],
  emptyv  |-> [raw |-> << <<"arch", "">>, <<"epoch", "1">> >>,      canon |-> << <<"epoch", "1">> >>],
  upkey   |-> [raw |-> << <<"Arch", "amd64">> >>,                   canon |-> << <<"arch", "amd64">> >>] ]

SubTab == [
  none    |-> [raw |-> "",             canon |-> ""],
  plain   |-> [raw |-> "src/main",     canon |-> "src/main"],
  slashy  |-> [raw |-> "/src//main/",  canon |-> "src/main"],
  special |-> [raw |-> "a b/c%d+e?f#g", canon |-> "a b/c%d+e?f#g"] ]

\* the package-URL normalisation of a type (purl type definitions): which components are case-insensitive
LowerNsTypes   == {"alpm", "apk", "bitbucket", "composer", "deb", "github", "golang", "hex", "npm", "rpm"}
LowerNameTypes == {"alpm", "apk", "bitbucket", "composer", "deb", "github", "golang", "hex", "npm", "oci", "pub", "pypi"}
DashNameTypes  == {"pypi"}
\* types whose definition makes a component mandatory (such a package URL without it is not a package URL
\* of that type; the library's parser rejects it)
NeedsNs      == {"swift"}
NeedsVersion == {"swift", "cran"}

-----------------------------------------------------------------------------
(* ---- abstract packages ---- *)
Plain == [type |-> "generic", nameC |-> "plain", verC |-> "plain", nsC |-> "none", qualC |-> "none", subC |-> "none",
          kind |-> "purl", nloc |-> 1, layer |-> FALSE]

Devs(p) == (IF p.type # Plain.type THEN 1 ELSE 0) + (IF p.nameC # "plain" THEN 1 ELSE 0) + (IF p.verC # "plain" THEN 1 ELSE 0)
         + (IF p.nsC # "none" THEN 1 ELSE 0) + (IF p.qualC # "none" THEN 1 ELSE 0) + (IF p.subC # "none" THEN 1 ELSE 0)
         + (IF p.nloc # 1 THEN 1 ELSE 0) + (IF p.layer THEN 1 ELSE 0)

\* a package URL that is one of its type
TypeWellFormed(p) == /\ (p.type \in NeedsNs => NsTab[p.nsC].canon # "")
                     /\ (p.type \in NeedsVersion => VerTab[p.verC] # "")
                     /\ (p.type = "conan" => p.nsC = "none")  \* conan: a namespace needs a channel qualifier; not explored

\* The package space: every package within MaxDev deviations of the plain package. It is built by actions
\* (Deviate, one dimension at a time, in increasing dimension order so that every package is reached once).
\* dimensions: 1 type, 2 name, 3 version, 4 namespace, 5 qualifiers, 6 sub-path, 7 second location, 8 layer details
DimVals(i) == CASE i = 1 -> Types \ {Plain.type}
                [] i = 2 -> NameCs \ {"plain"}
                [] i = 3 -> VerCs \ {"plain"}
                [] i = 4 -> NsCs \ {"none"}
                [] i = 5 -> QualCs \ {"none"}
                [] i = 6 -> SubCs \ {"none"}
                [] i = 7 -> IF Mode = "pkg" THEN {2} ELSE {}
                [] i = 8 -> IF Mode = "pkg" THEN {TRUE} ELSE {}
SetDim(p, i, x) == CASE i = 1 -> [p EXCEPT !.type = x]
                     [] i = 2 -> [p EXCEPT !.nameC = x]
                     [] i = 3 -> [p EXCEPT !.verC = x]
                     [] i = 4 -> [p EXCEPT !.nsC = x]
                     [] i = 5 -> [p EXCEPT !.qualC = x]
                     [] i = 6 -> [p EXCEPT !.subC = x]
                     [] i = 7 -> [p EXCEPT !.nloc = x]
                     [] i = 8 -> [p EXCEPT !.layer = x]
\* a type that needs a namespace gets one: its "plain" representative is the package with nsC = "plain"
Fix(p) == IF p.type \in NeedsNs /\ p.nsC = "none" THEN [p EXCEPT !.nsC = "plain"] ELSE p
Special(k) == [Plain EXCEPT !.kind = k]

\* the package URL a package carries (concrete representative strings)
Purl(p) == [type |-> p.type, ns |-> NsTab[p.nsC].raw, name |-> NameTab[p.nameC].raw, version |-> VerTab[p.verC],
            quals |-> QualTab[p.qualC].raw, subpath |-> SubTab[p.subC].raw]
HasPurl(p) == p.kind \in {"purl", "both"}

\* the normal form of that package URL
Norm(p) == [type |-> p.type,
            ns |-> IF p.type \in LowerNsTypes THEN NsTab[p.nsC].lower ELSE NsTab[p.nsC].canon,
            name |-> IF p.type \in DashNameTypes THEN NameTab[p.nameC].dash
                     ELSE IF p.type \in LowerNameTypes THEN NameTab[p.nameC].lower ELSE NameTab[p.nameC].raw,
            version |-> VerTab[p.verC],
            quals |-> QualTab[p.qualC].canon, subpath |-> SubTab[p.subC].canon]

\* table-level normalisation of a concrete string (identity outside the tables), to state idempotence
NameRows == {NameTab[c] : c \in DOMAIN NameTab}
LowerOf(s) == LET m == {r \in NameRows : r.raw = s} IN IF m = {} THEN s ELSE (CHOOSE r \in m : TRUE).lower
DashOf(s)  == LET m == {r \in NameRows : r.raw = s} IN IF m = {} THEN s ELSE (CHOOSE r \in m : TRUE).dash
NsRows == {NsTab[c] : c \in DOMAIN NsTab}
NsCanonOf(s) == LET m == {r \in NsRows : r.raw = s} IN IF m = {} THEN s ELSE (CHOOSE r \in m : TRUE).canon
NsLowerOf(s) == LET m == {r \in NsRows : r.raw = s} IN IF m = {} THEN s ELSE (CHOOSE r \in m : TRUE).lower
\* the tables are functions of the raw string and normalising twice changes nothing
TablesConsistent ==
  /\ \A r1, r2 \in NameRows : r1.raw = r2.raw => r1 = r2
  /\ \A r \in NameRows : LowerOf(r.lower) = r.lower /\ DashOf(r.dash) = r.dash /\ LowerOf(r.dash) = r.dash
  /\ \A r1, r2 \in NsRows : r1.raw = r2.raw => r1 = r2
  /\ \A r \in NsRows : NsCanonOf(r.canon) = r.canon /\ NsLowerOf(r.lower) = r.lower /\ NsCanonOf(r.lower) = r.lower
  /\ \A c \in DOMAIN QualTab : \A i \in 1..Len(QualTab[c].canon) : QualTab[c].canon[i][2] # ""
  /\ \A c1, c2 \in DOMAIN QualTab : QualTab[c1].raw = QualTab[c2].raw => c1 = c2
  /\ \A c1, c2 \in DOMAIN SubTab : SubTab[c1].raw = SubTab[c2].raw => c1 = c2
  /\ \A c1, c2 \in DOMAIN VerTab : VerTab[c1] = VerTab[c2] => c1 = c2
  /\ NameCs \subseteq DOMAIN NameTab /\ VerCs \subseteq DOMAIN VerTab /\ NsCs \subseteq DOMAIN NsTab
  /\ QualCs \subseteq DOMAIN QualTab /\ SubCs \subseteq DOMAIN SubTab
ASSUME TablesConsistent

-----------------------------------------------------------------------------
(* ---- declarative: export filter, expected re-import, per-package statement ---- *)
IsSpdx(f) == f \in {"spdx23-json", "spdx23-yaml", "spdx23-tag-value"}
\* which packages a document of format f carries as package URLs: those that have one; the SPDX converter
\* additionally leaves out package URLs without a name or a version (converter.ToSPDX23's documented filter)
Exported(p, f) == HasPurl(p) /\ (IsSpdx(f) => NameTab[p.nameC].raw # "" /\ VerTab[p.verC] # "")

RECURSIVE BagOfSeq(_)
BagOfSeq(s) == IF s = <<>> THEN [x \in {} |-> 0]
               ELSE LET b == BagOfSeq(Tail(s)) h == Head(s) IN
                    [x \in DOMAIN b \cup {h} |-> (IF x \in DOMAIN b THEN b[x] ELSE 0) + (IF x = h THEN 1 ELSE 0)]
ExpectedBack(inventory, f) == LET keep == SelectSeq(inventory, LAMBDA p : Exported(p, f))
                              IN [i \in 1..Len(keep) |-> Norm(keep[i])]

\* C14 over a fact record: one named clause per conjunct of the property (the same operators judge the model's
\* own facts and the fact records computed from the real code, ConvertTrace)
Clauses(r) == [
  name_nonempty   |-> r.name_nonempty,                                  \* non-empty name
  has_location    |-> r.has_location,                                   \* at least one location
  no_panic        |-> Len(r.panics) = 0,                                \* no conversion panics
  type_valid      |-> r.has_purl => r.type_valid,                       \* the parser accepts the type
  parse_ok        |-> r.has_purl => r.parse_ok,                         \* ... and the printed URL
  idempotent      |-> r.has_purl => r.idem,                             \* print-then-parse is idempotent
  same_identity   |-> r.has_purl => r.rt_equiv,                         \* ... and keeps the URL up to its normal form
  index_specific  |-> r.has_purl => r.in_specific,                      \* GetSpecific(name, type) returns the package
  index_type      |-> r.has_purl => r.in_alloftype,                     \* GetAllOfType(type) returns the package
  proto_name      |-> r.proto.name,
  proto_version   |-> r.proto.version,
  proto_locations |-> r.proto.locations,
  proto_purl      |-> r.proto.purl,
  proto_layer     |-> r.proto.layer /\ r.proto.layer_alt,
  spdx_filter     |-> r.spdx.present = r.spdx.expect_present,           \* carried iff URL with name and version
  spdx_entry      |-> r.spdx.present => (r.spdx.name /\ r.spdx.version /\ r.spdx.purl /\ r.spdx.locations),
  cdx_entry       |-> r.cdx.present /\ r.cdx.name /\ r.cdx.version /\ r.cdx.purl /\ r.cdx.locations ]
Failed(r) == {k \in DOMAIN Clauses(r) : ~Clauses(r)[k]}
PkgOK(r) == Failed(r) = {}
\* the type table: every type an extractor emitted is a type the parser accepts (reg: the registry dump)
SeqRange(q) == {q[i] : i \in 1..Len(q)}
EmittedTypes(reg) == UNION {SeqRange(reg.emitted[ex]) : ex \in DOMAIN reg.emitted}
ValidTypes(reg) == SeqRange(reg.valid)
BadTypes(reg) == UNION {{<<ex, t>> : t \in SeqRange(reg.emitted[ex]) \ ValidTypes(reg)} : ex \in DOMAIN reg.emitted}
TypeTableOK(reg) == EmittedTypes(reg) \subseteq ValidTypes(reg)

-----------------------------------------------------------------------------
(* ---- operational: the stage machine ---- *)
None == [none |-> TRUE]
VARIABLES stage,  \* "pkg": "start","emitted","purl","str1","parsed1","str2","parsed2","indexed","proto","sbom"
                  \* "inv": "build","exported","written","scanned"
          pkg,    \* the package under construction ("start"/"build"), then "pkg": the package under conversion
          last,   \* index of the last dimension deviated while constructing pkg
          c,      \* "pkg": what the stages carried so far (record)
          inv,    \* "inv": the inventory (sequence of abstract packages)
          fmt, doc, file, back
vars == <<stage, pkg, last, c, inv, fmt, doc, file, back>>

Init == /\ stage = IF Mode = "pkg" THEN "start" ELSE "build"
        /\ pkg = Plain /\ last = 0 /\ c = [x \in {} |-> None] /\ inv = <<>> /\ fmt = "" /\ doc = <<>> /\ file = <<>> /\ back = <<>>

Ext(f, k, v) == [x \in DOMAIN f \cup {k} |-> IF x = k THEN v ELSE f[x]]
Step(from, to, k, v) == /\ stage = from /\ stage' = to /\ c' = Ext(c, k, v)
                        /\ UNCHANGED <<pkg, last, inv, fmt, doc, file, back>>

Deviate(i, x) == /\ stage \in {"start", "build"} /\ i > last /\ Devs(pkg) < MaxDev
                 /\ (stage = "build" => Len(inv) < MaxPkgs)
                 /\ pkg' = SetDim(pkg, i, x) /\ last' = i
                 /\ UNCHANGED <<stage, c, inv, fmt, doc, file, back>>
Emit         == /\ Mode = "pkg" /\ stage = "start" /\ TypeWellFormed(Fix(pkg))
                /\ pkg' = Fix(pkg) /\ stage' = "emitted"
                /\ UNCHANGED <<last, c, inv, fmt, doc, file, back>>
ToPURL       == Step("emitted", "purl", "purl", Purl(pkg))
String1      == Step("purl", "str1", "s1", c.purl)                 \* printing keeps every component
FromString1  == Step("str1", "parsed1", "p1", Norm(pkg))           \* parsing yields the normal form
String2      == Step("parsed1", "str2", "s2", c.p1)
FromString2  == Step("str2", "parsed2", "p2", c.s2)                \* parsing a printed normal form changes nothing
Index        == Step("parsed2", "indexed", "index", {<<c.purl.type, c.purl.name>>})  \* keyed by the package URL as emitted
Proto        == Step("indexed", "proto", "proto", [name |-> c.purl.name, version |-> c.purl.version, nloc |-> pkg.nloc,
                                                   purl |-> c.purl, layer |-> pkg.layer])
SBOM         == Step("proto", "sbom", "sbom", [spdx |-> IF Exported(pkg, "spdx23-json") THEN c.purl ELSE None, cdx |-> c.purl])

\* C15: the inventory is built entry by entry, exported by a loop that skips like the converters do
AddPkg       == /\ Mode = "inv" /\ stage = "build" /\ Len(inv) < MaxPkgs /\ TypeWellFormed(Fix(pkg))
                /\ inv' = Append(inv, Fix(pkg)) /\ pkg' = Plain /\ last' = 0
                /\ UNCHANGED <<stage, c, fmt, doc, file, back>>
AddSpecial(k) == /\ Mode = "inv" /\ stage = "build" /\ Len(inv) < MaxPkgs /\ last = 0
                /\ inv' = Append(inv, Special(k))
                /\ UNCHANGED <<stage, pkg, last, c, fmt, doc, file, back>>
RECURSIVE ExportLoop(_, _, _)
ExportLoop(rest, f, acc) ==
  IF rest = <<>> THEN acc
  ELSE LET p == Head(rest) IN
       IF ~HasPurl(p) THEN ExportLoop(Tail(rest), f, acc)                                          \* no package URL: nothing to carry
       ELSE IF IsSpdx(f) /\ (Purl(p).name = "" \/ Purl(p).version = "") THEN ExportLoop(Tail(rest), f, acc)  \* SPDX: skipped
       ELSE ExportLoop(Tail(rest), f, Append(acc, p))        \* one entry carrying Purl(p)
Export(f)    == /\ Mode = "inv" /\ stage = "build" /\ f \in Formats /\ last = 0
                /\ fmt' = f /\ doc' = ExportLoop(inv, f, <<>>) /\ stage' = "exported"
                /\ UNCHANGED <<pkg, last, c, inv, file, back>>
WriteFile    == /\ stage = "exported" /\ file' = doc /\ stage' = "written"
                /\ UNCHANGED <<pkg, last, c, inv, fmt, doc, back>>
\* reading an entry's package URL back yields its normal form
Scan         == /\ stage = "written" /\ back' = [i \in 1..Len(file) |-> Norm(file[i])] /\ stage' = "scanned"
                /\ UNCHANGED <<pkg, last, c, inv, fmt, doc, file>>

Next == \/ (stage \in {"start", "build"} /\ \E i \in 1..8 : i > last /\ \E x \in DimVals(i) : Deviate(i, x))
        \/ Emit \/ ToPURL \/ String1 \/ FromString1 \/ String2 \/ FromString2 \/ Index \/ Proto \/ SBOM
        \/ AddPkg \/ (\E k \in SpecialKinds : AddSpecial(k))
        \/ (\E f \in Formats : Export(f))
        \/ WriteFile \/ Scan
Spec == Init /\ [][Next]_vars

-----------------------------------------------------------------------------
(* ---- properties of the model ---- *)
Has(k) == k \in DOMAIN c
\* the carried identity survives every stage (up to the normal form where a parse happened)
IdentityCarried ==
  /\ Has("s1") => c.s1 = Purl(pkg)
  /\ Has("p1") => c.p1 = Norm(pkg)
  /\ Has("p2") => c.p2 = c.p1                       \* print-then-parse is idempotent
  /\ Has("index") => <<Purl(pkg).type, Purl(pkg).name>> \in c.index
  /\ Has("proto") => c.proto.purl = Purl(pkg) /\ c.proto.layer = pkg.layer /\ c.proto.nloc = pkg.nloc
  /\ Has("sbom") => c.sbom.cdx = Purl(pkg) /\ (c.sbom.spdx = None <=> ~Exported(pkg, "spdx23-json"))
TerminalPkg == Mode = "pkg" /\ stage = "sbom"
TerminalInv == Mode = "inv" /\ stage = "scanned"
\* the facts the ideal pipeline yields for the carried package satisfy the per-package statement
ModelFacts == [name_nonempty |-> c.proto.name # "", has_location |-> pkg.nloc >= 1, panics |-> <<>>, has_purl |-> TRUE,
               type_valid |-> TRUE, parse_ok |-> TRUE, idem |-> c.p2 = c.p1, rt_equiv |-> c.p1 = Norm(pkg),
               in_specific |-> <<c.purl.type, c.purl.name>> \in c.index, in_alloftype |-> \E k \in c.index : k[1] = c.purl.type,
               proto |-> [name |-> c.proto.name = c.purl.name, version |-> c.proto.version = c.purl.version, locations |-> c.proto.nloc = pkg.nloc,
                          purl |-> c.proto.purl = c.purl, layer |-> c.proto.layer = pkg.layer, layer_alt |-> TRUE],
               spdx |-> [expect_present |-> Exported(pkg, "spdx23-json"), present |-> c.sbom.spdx # None, name |-> TRUE, version |-> TRUE,
                         purl |-> c.sbom.spdx = c.purl, locations |-> TRUE],
               cdx |-> [present |-> TRUE, name |-> TRUE, version |-> TRUE, purl |-> c.sbom.cdx = c.purl, locations |-> TRUE]]
PipelineOK == TerminalPkg => PkgOK(ModelFacts)

\* C15 on the model: what the export loop + write + scan yield is the declared multiset
RoundTrip == TerminalInv => BagOfSeq(back) = BagOfSeq(ExpectedBack(inv, fmt))
\* the export loop is the declarative filter
ExportIsFilter == (Mode = "inv" /\ stage # "build") =>
                    doc = SelectSeq(inv, LAMBDA p : Exported(p, fmt))

-----------------------------------------------------------------------------
(* ---- case emission (binding A) ---- *)
PkgCase == [p |-> Purl(pkg), nameC |-> pkg.nameC, verC |-> pkg.verC, nsC |-> pkg.nsC, qualC |-> pkg.qualC, subC |-> pkg.subC,
            layer |-> pkg.layer, nloc |-> pkg.nloc, norm |-> Norm(pkg), spdx_exported |-> Exported(pkg, "spdx23-json")]
InvPkg(p, i) == [carrier |-> IF i % 2 = 1 THEN "spdx" ELSE "cdx", has_purl |-> HasPurl(p), p |-> Purl(p), name |-> Purl(p).name, version |-> Purl(p).version,
              cpe |-> IF p.kind \in {"cpe", "both"} THEN "cpe:2.3:a:acme:libfoo:1.0:*:*:*:*:*:*:*" ELSE "",
              cls |-> [type |-> p.type, nameC |-> p.nameC, verC |-> p.verC, nsC |-> p.nsC, qualC |-> p.qualC, subC |-> p.subC, kind |-> p.kind]]
InvCase == [format |-> fmt, pkgs |-> [i \in 1..Len(inv) |-> InvPkg(inv[i], i)], expect |-> ExpectedBack(inv, fmt)]
EmitCase == /\ (TerminalPkg => PrintT(ToJson(PkgCase)))
            /\ (TerminalInv => PrintT(ToJson(InvCase)))
\* the rule tables the orchestrator applies to concrete strings
Rules == [lower_ns |-> LowerNsTypes, lower_name |-> LowerNameTypes, dash_name |-> DashNameTypes]
EmitRules == (stage \in {"start", "build"} /\ inv = <<>> /\ last = 0) => PrintT(ToJson([rules |-> Rules]))

\* sanity (must be violated): "pkg": a terminal package whose normal form differs from its package URL;
\* "inv": an inventory of which the document carries some but not all packages
Sanity == /\ ~(TerminalPkg /\ c.p1.name # c.purl.name)
          /\ ~(TerminalInv /\ Len(back) > 0 /\ Len(back) < Len(inv))
=============================================================================
