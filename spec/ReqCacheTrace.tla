--------------------------- MODULE ReqCacheTrace ---------------------------
(* Binding (B) for C16(b): a trace recorded from the real RequestCache under ungated concurrent   *)
(* load (sequence numbers taken at hook H1 while rq.mu is held, or at the goroutine-local event)   *)
(* must be a behaviour of ReqCache; every safety invariant of ReqCache is evaluated at every step. *)
(* Several runs are concatenated; a "reset" line starts a fresh cache.                              *)
EXTENDS ReqCache, Json, IOUtils, TLCExt
TraceLog == ndJsonDeserialize(IOEnv.VERIF_TRACE)
VARIABLE l
tvars == <<vars, l>>

Ev == TraceLog[l]
Is(e) == l <= Len(TraceLog) /\ Ev.ev = e /\ l' = l + 1
Has(k) == (IF cache[k] # None THEN TRUE ELSE FALSE)

TInit == Init /\ l = 1
TReset == Is("reset") /\ cache' = [k \in K |-> None] /\ calls' = [k \in K |-> None] /\ callrec' = <<>>
          /\ pc' = [g \in G |-> "idle"] /\ key' = [g \in G |-> CHOOSE k \in K : TRUE] /\ mycall' = [g \in G |-> 0]
          /\ fetches' = [k \in K |-> 0] /\ succ' = [k \in K |-> FALSE] /\ ncalls' = [g \in G |-> 0] /\ nsetmap' = 0
          /\ ret' = [g \in G |-> [ok |-> FALSE, val |-> 0]]
TEnter   == Is("enter")    /\ Enter(Ev.g, Ev.k)
TGetEnter == Is("get.enter") /\ UNCHANGED vars
THit     == Is("cs1.hit")  /\ key[Ev.g] = Ev.k /\ CS1Hit(Ev.g)  /\ Ev.inCache
TWait    == Is("cs1.wait") /\ key[Ev.g] = Ev.k /\ CS1Wait(Ev.g) /\ Ev.inCalls /\ ~Ev.inCache
TLead    == Is("cs1.lead") /\ key[Ev.g] = Ev.k /\ CS1Lead(Ev.g) /\ Ev.inCalls /\ ~Ev.inCache
TFnStart == Is("fn.start") /\ FnStart(Ev.g)
TFnRet   == Is("fn.ret")   /\ FnReturn(Ev.g, Ev.ok, Ev.val)
TCS2     == Is("cs2.begin") /\ key[Ev.g] = Ev.k /\ CS2(Ev.g)
\* state logged at the end of the second critical section, still under the lock
TCommit  == Is("cs2.commit") /\ UNCHANGED vars
            /\ Ev.inCache = (cache[Ev.k] # None) /\ Ev.inCalls = (calls[Ev.k] # None)
            /\ Ev.size = Cardinality({k \in K : cache[k] # None})
TWaitRet == Is("wait.ret") /\ WaitReturn(Ev.g)
TReturn  == Is("return")   /\ UNCHANGED vars /\ pc[Ev.g] = "idle" /\ ret[Ev.g] = [ok |-> Ev.ok, val |-> Ev.val]
TSetMap  == Is("setmap")   /\ SetMap([k \in K |-> IF Ev.size = 1 /\ k = "k1" THEN SetMapVal ELSE None])
TFinal   == Is("final")    /\ UNCHANGED vars
            /\ \A k \in K : IF cache[k] = None THEN k \notin DOMAIN Ev.cache ELSE (k \in DOMAIN Ev.cache /\ Ev.cache[k] = cache[k])
TNext == TReset \/ TEnter \/ TGetEnter \/ THit \/ TWait \/ TLead \/ TFnStart \/ TFnRet \/ TCS2 \/ TCommit
         \/ TWaitRet \/ TReturn \/ TSetMap \/ TFinal
TSpec == TInit /\ [][TNext]_tvars

\* the whole trace was consumed (fully logged, deterministic: one state per line + the initial state)
TraceAccepted == LET d == TLCGet("stats").diameter IN
                 IF d - 1 = Len(TraceLog) THEN TRUE
                 ELSE Print(<<"TRACE-REJECTED-AT", d, IF d <= Len(TraceLog) THEN TraceLog[d] ELSE "eof">>, FALSE)
=============================================================================
