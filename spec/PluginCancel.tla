---------------------------- MODULE PluginCancel ----------------------------
(***************************************************************************)
(* C10, cancellation clause over the plug-in pipeline of scalibr.Scan:     *)
(* "once its context is cancelled [the scan] runs no further plugin,       *)
(* reporting failure whenever work remained".                              *)
(*                                                                         *)
(* ScanWalk.tla decides the clause inside the file-system walk; this       *)
(* module continues where the walk ends, in the shape of the code:         *)
(*   FsDone        filesystem.Run returned nil (a cancellation inside the  *)
(*                 last extraction of the last file is not noticed by the  *)
(*                 walk: no further handleFile call follows)               *)
(*   SaCheck/SaRun one iteration of the loop of standalone.Run: ctx.Err()  *)
(*                 test, then Extract                                      *)
(*   DetCheck/DetRun one iteration of the loop of detector.Run             *)
(*   Finish        newScanResult                                           *)
(* The scenario: NS standalone extractors, ND detectors, and the position  *)
(* at which the context is cancelled: 0 = inside the last file-system      *)
(* extraction, k in 1..NS+ND = inside the k-th plug-in of the concatenated *)
(* list, -1 = never.                                                       *)
(***************************************************************************)
EXTENDS Integers, Sequences, FiniteSets, TLC, Json

CONSTANTS MaxS, MaxD

VARIABLES ns, nd, cpos,      \* scenario
          phase,             \* "setup" "sa" "det" "done"
          i,                 \* loop variable of the current plug-in loop (1-based)
          cancelled,         \* ctx.Err() != nil
          ran,               \* sequence of plug-ins whose Extract/Scan was invoked, e.g. <<"s1","s2","d1">>
          status             \* "run" | "ok" | "failed"
vars == <<ns, nd, cpos, phase, i, cancelled, ran, status>>

Name(kind, k) == kind \o ToString(k)
\* k-th plug-in of the concatenated list
Plug(k) == IF k <= ns THEN Name("s", k) ELSE Name("d", k - ns)

Init == /\ ns \in 0..MaxS /\ nd \in 0..MaxD
        /\ cpos \in -1..(ns + nd)
        /\ phase = "setup" /\ i = 1 /\ cancelled = FALSE /\ ran = <<>> /\ status = "run"

\* filesystem.Run returned without an error; the last extraction may have cancelled the context
FsDone == /\ phase = "setup"
          /\ phase' = "sa" /\ i' = 1
          /\ cancelled' = (cpos = 0)
          /\ UNCHANGED <<ns, nd, cpos, ran, status>>

\* standalone.Run: for _, extractor := range config.Extractors { if ctx.Err() != nil { return ..., ctx.Err() } ; Extract }
SaStep == /\ phase = "sa"
          /\ IF i > ns
               THEN /\ phase' = "det" /\ i' = 1 /\ UNCHANGED <<cancelled, ran, status>>
               ELSE IF cancelled
                      THEN /\ phase' = "done" /\ status' = "failed"          \* sro.Err = ctx.Err()
                           /\ UNCHANGED <<i, cancelled, ran>>
                      ELSE /\ ran' = Append(ran, Name("s", i))
                           /\ cancelled' = (cpos = i)
                           /\ i' = i + 1
                           /\ UNCHANGED <<phase, status>>
          /\ UNCHANGED <<ns, nd, cpos>>

\* detector.Run: for _, d := range detectors { if ctx.Err() != nil { return nil, nil, ctx.Err() } ; Scan }
DetStep == /\ phase = "det"
           /\ IF i > nd
                THEN /\ phase' = "done" /\ status' = "ok" /\ UNCHANGED <<i, cancelled, ran>>
                ELSE IF cancelled
                       THEN /\ phase' = "done" /\ status' = "failed"
                            /\ UNCHANGED <<i, cancelled, ran>>
                       ELSE /\ ran' = Append(ran, Name("d", i))
                            /\ cancelled' = (cpos = ns + i)
                            /\ i' = i + 1
                            /\ UNCHANGED <<phase, status>>
           /\ UNCHANGED <<ns, nd, cpos>>

Next == FsDone \/ SaStep \/ DetStep
Spec == Init /\ [][Next]_vars
Done == phase = "done"

-----------------------------------------------------------------------------
(* ---- declarative part ---- *)
All == [k \in 1..(ns + nd) |-> Plug(k)]
\* the plug-ins that may run: everything up to and including the one inside which the context is cancelled
MayRun == IF cpos = -1 THEN All ELSE SubSeq(All, 1, cpos)
WorkRemained == cpos # -1 /\ cpos < ns + nd

\* no plug-in is started after the cancellation, none is skipped before it
RunsExactly == Done => ran = MayRun
NoneAfterCancel == \A k \in 1..Len(ran) : cpos # -1 => k <= cpos
\* failure whenever work remained; success when the context was never cancelled
FailsWhenWorkRemained == Done => ((WorkRemained => status = "failed") /\ (cpos = -1 => status = "ok"))
TypeOK == /\ phase \in {"setup", "sa", "det", "done"} /\ status \in {"run", "ok", "failed"}
          /\ cancelled \in BOOLEAN /\ Len(ran) <= ns + nd

\* must be violated: a cancelled scan that still succeeds (cancellation inside the very last plug-in)
SanityLateCancel == ~(Done /\ cpos # -1 /\ status = "ok")

Case == [ns |-> ns, nd |-> nd, cpos |-> cpos,
         expect |-> [ran |-> MayRun,
                     status |-> IF WorkRemained THEN <<"failed">> ELSE IF cpos = -1 THEN <<"ok">> ELSE <<"ok", "failed">>],
         model |-> [ran |-> ran, status |-> status]]
Emit == Done => PrintT(ToJson(Case))
=============================================================================
