---------------------------- MODULE IncludeGraph ----------------------------
(***************************************************************************)
(* C02(a), multi-file scenarios: a requirements file may include other     *)
(* requirements files (`-r other.txt`), and the extractor follows the      *)
(* includes itself (requirements.go: extractFromExtraPaths, a work queue   *)
(* with a visited set, no iteration bound and no context check).  Whatever *)
(* the include graph looks like - cycles, self-includes, diamonds, files   *)
(* without a single requirement - Extract on the scanned file must return. *)
(*                                                                         *)
(* Scenario (built by actions): NF files; every set of include edges       *)
(* between them (self-loops included); every subset of files that carry a  *)
(* requirement line.  File 1 is the scanned file.                          *)
(* Operational part: the work-queue walk as the code does it.              *)
(* Declarative part: Reach - the files reachable from file 1; the walk     *)
(* must end after opening every other reachable file exactly once and must *)
(* have seen exactly the requirement lines of the reachable files.         *)
(* Dev_MarkOnlyWithPackages transcribes the tempting variant "remember a   *)
(* file as visited when it yielded a package": the walk then never ends on *)
(* a cycle of package-less files (devsanity cfg: TLC must violate Bounded).*)
(* Every scenario is emitted as a case; the harness writes the files and   *)
(* calls the real Extract under the watchdog.                              *)
(***************************************************************************)
EXTENDS Integers, Sequences, FiniteSets, TLC, Json

CONSTANTS NF,                        \* number of files
          Dev_MarkOnlyWithPackages   \* FALSE: visited := opened (the code); TRUE: visited := yielded a package

F == 1..NF
AllEdges == F \X F
\* a fixed enumeration order of the possible edges, so that every edge set is built exactly once
EdgeNo(e) == (e[1] - 1) * NF + e[2]

VARIABLES edges,    \* set of <<a, b>>: file a has the line `-r <file b>`
          haspkg,   \* files that carry a requirement line
          lastE, lastP,   \* construction cursors
          phase,    \* "build" | "walk" | "done"
          queue, found, opens, seen
vars == <<edges, haspkg, lastE, lastP, phase, queue, found, opens, seen>>

Init == /\ edges = {} /\ haspkg = {} /\ lastE = 0 /\ lastP = 0 /\ phase = "build"
        /\ queue = <<>> /\ found = {} /\ opens = 0 /\ seen = {}

AddEdge(e) == /\ phase = "build" /\ lastP = 0 /\ EdgeNo(e) > lastE
              /\ edges' = edges \cup {e} /\ lastE' = EdgeNo(e)
              /\ UNCHANGED <<haspkg, lastP, phase, queue, found, opens, seen>>
AddPkg(f) == /\ phase = "build" /\ f > lastP
             /\ haspkg' = haspkg \cup {f} /\ lastP' = f
             /\ UNCHANGED <<edges, lastE, phase, queue, found, opens, seen>>

RECURSIVE SetToSeq(_)
SetToSeq(S) == IF S = {} THEN <<>> ELSE LET m == CHOOSE x \in S : \A y \in S : x <= y IN <<m>> \o SetToSeq(S \ {m})
Includes(f) == SetToSeq({e[2] : e \in {x \in edges : x[1] = f}})

\* Extract(file 1): parse it, queue its includes, remember it as visited
Start == /\ phase = "build"
         /\ phase' = "walk" /\ queue' = Includes(1) /\ found' = {1} /\ opens' = 0
         /\ seen' = (IF 1 \in haspkg THEN {1} ELSE {})
         /\ UNCHANGED <<edges, haspkg, lastE, lastP>>
\* one iteration of the for-loop of extractFromExtraPaths
Step == /\ phase = "walk" /\ queue # <<>>
        /\ LET p == Head(queue) IN
           IF p \in found
             THEN queue' = Tail(queue) /\ UNCHANGED <<found, opens, seen>>
             ELSE /\ opens' = opens + 1
                  /\ found' = IF Dev_MarkOnlyWithPackages /\ p \notin haspkg THEN found ELSE found \cup {p}
                  /\ queue' = Tail(queue) \o Includes(p)
                  /\ seen' = IF p \in haspkg THEN seen \cup {p} ELSE seen
        /\ UNCHANGED <<edges, haspkg, lastE, lastP, phase>>
Finish == /\ phase = "walk" /\ queue = <<>> /\ phase' = "done"
          /\ UNCHANGED <<edges, haspkg, lastE, lastP, queue, found, opens, seen>>

Next == (\E e \in AllEdges : AddEdge(e)) \/ (\E f \in F : AddPkg(f)) \/ Start \/ Step \/ Finish
Spec == Init /\ [][Next]_vars

-----------------------------------------------------------------------------
(* ---- declarative ---- *)
RECURSIVE ReachFrom(_, _)
ReachFrom(S, k) == IF k = 0 THEN S ELSE ReachFrom(S \cup {e[2] : e \in {x \in edges : x[1] \in S}}, k - 1)
Reach == ReachFrom({1}, NF)

\* the walk is bounded: every file other than the scanned one is opened at most once
Bounded == opens <= NF - 1 /\ Len(queue) <= NF * NF
\* and when it ends it has opened exactly the other reachable files and seen exactly their requirement lines
ExactWalk == phase = "done" => /\ opens = Cardinality(Reach \ {1})
                                /\ seen = Reach \cap haspkg
\* every walk ends (no deadlock before "done" is possible: Step or Finish is always enabled in "walk")
WalkProgress == phase = "walk" => (queue # <<>> \/ ENABLED Finish)

Case == [ex |-> "python/requirements",
         files |-> [f \in F |-> [includes |-> Includes(f), pkg |-> f \in haspkg]],
         expect |-> [returned |-> TRUE, reachable_with_pkg |-> Reach \cap haspkg],
         allowed |-> {"Returned"}]
Emit == (phase = "walk" /\ opens = 0 /\ found = {1} /\ queue = Includes(1)) => PrintT(ToJson(Case))

\* sanity (must be violated): a cycle among package-less files that does not pass through file 1 is reachable
SanityCycle == ~(phase = "walk" /\ \E a \in F \ {1} : a \notin haspkg /\ <<a, a>> \in edges /\ a \in Reach)
=============================================================================
