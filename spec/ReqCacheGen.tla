---------------------------- MODULE ReqCacheGen ----------------------------
(* Binding (A) for C16(b): every behaviour of ReqCache (= every interleaving of the critical  *)
(* sections) is carried in a history variable and emitted at its end as one JSON case; the      *)
(* harness steps the real RequestCache through it with gates and compares the projected state   *)
(* (fetch counts, cache map, returned values) after every step.                                  *)
EXTENDS ReqCache, Json
VARIABLE hist
gvars == <<vars, hist>>

Obs(g, returned) == [fetches |-> fetches', cache |-> cache',
                     ret |-> IF returned THEN <<ret'[g].ok, ret'[g].val>> ELSE <<>>]
Step(g, a, arg, returned) == hist' = Append(hist, [g |-> g, a |-> a, arg |-> arg, obs |-> Obs(g, returned)])

Busy == \E g \in G : pc[g] # "idle" \/ ncalls[g] < MaxCalls
\* partial-order reduction: Enter and FnStart touch nothing shared, so they are scheduled eagerly
\* and in goroutine order; every interleaving of the critical sections is still produced.
Local == {g \in G : pc[g] = "fnstart" \/ (pc[g] = "idle" /\ ncalls[g] < MaxCalls)}
MayLocal(g) == g \in Local /\ \A h \in Local : g <= h

GenInit == Init /\ hist = <<>>
GenNext ==
  \/ \E g \in G :
       \/ \E k \in K : MayLocal(g) /\ Enter(g, k) /\ Step(g, "enter", k, FALSE)
       \/ Local = {} /\ CS1Hit(g) /\ Step(g, "cs1", "hit", TRUE)
       \/ Local = {} /\ CS1Wait(g) /\ Step(g, "cs1", "wait", FALSE)
       \/ Local = {} /\ CS1Lead(g) /\ Step(g, "cs1", "lead", FALSE)
       \/ MayLocal(g) /\ FnStart(g) /\ Step(g, "fnstart", "", FALSE)
       \/ \E ok \in Outcomes : Local = {} /\ FnReturn(g, ok, mycall[g]) /\ Step(g, "fnret", IF ok THEN "ok" ELSE "err", FALSE)
       \/ Local = {} /\ CS2(g) /\ Step(g, "cs2", "", TRUE)
       \/ Local = {} /\ WaitReturn(g) /\ Step(g, "waitret", "", TRUE)
  \/ \E m \in Maps : Busy /\ Local = {} /\ SetMap(m) /\ hist' = Append(hist, [g |-> "env", a |-> "setmap", arg |-> m,
                                                     obs |-> [fetches |-> fetches', cache |-> cache', ret |-> <<>>]])
GenSpec == GenInit /\ [][GenNext]_gvars

Terminal == ~Busy
Emit == Terminal => PrintT(ToJson([steps |-> hist]))
=============================================================================
