---------------------------- MODULE VersionOrder ----------------------------
(***************************************************************************)
(* C07 - ecosystem version comparison is total, consistent and a valid     *)
(* ordering.                                                               *)
(*                                                                         *)
(* A version is a sequence of TOKENS: the unique split of a string into    *)
(* maximal digit runs, maximal letter runs and single other characters:    *)
(*   [k |-> "n", c |-> <<1,0>>]        the number "10" (decimal digits, so  *)
(*                                     leading zeros and 20-digit numbers   *)
(*                                     are ordinary values)                 *)
(*   [k |-> "a", c |-> <<114,99>>]     the letters "rc" (ASCII codes)       *)
(*   [k |-> "s", c |-> <<46>>]         the separator "." (ASCII code)       *)
(* so a token sequence and a string are the same thing (Go renders by      *)
(* concatenation, Python tokenises the repository's fixture tables).       *)
(*                                                                         *)
(* Per ecosystem family E this module states, from the PUBLISHED rules     *)
(* (never from the Go code):                                               *)
(*   Valid(E, t)   the grammar of E on token sequences,                    *)
(*   Canon(E, t)   the sub-grammar on which agreement of the real code with*)
(*                 the published order is claimed (Canon => Valid),        *)
(*   Cmp(E, a, b)  the published comparison, in {-1,0,1}, on Valid(E),     *)
(*   Gen(E)        an enumerated set of canonical versions.                *)
(* TLC checks that Cmp(E) is a total preorder on Gen(E) + the fixture      *)
(* versions (reflexive, antisymmetric in sign, transitive, represented by  *)
(* a rank function) - this validates the oracle - and emits every version  *)
(* with its rank.  A second mode enumerates every symbol string of bounded *)
(* length over a 16-symbol alphabet with the set of families whose grammar *)
(* accepts it (the arbitrary-string domain of the totality laws).          *)
(***************************************************************************)
EXTENDS Integers, Sequences, FiniteSets, TLC, Json, SequencesExt

CONSTANTS Mode,     \* "oracle" | "strings"
          Ecos,     \* families explored: subset of AllEcos
          MaxSyms,  \* strings mode: maximal number of symbols
          FlagSyms, \* strings mode: grammar flags are evaluated for strings of at most this many symbols
          Fix,      \* [family -> set of token sequences] taken from /repo/semantic/testdata
          Wide      \* BOOLEAN: FALSE everywhere except in the cfg that exhibits Maven's own non-transitivity

AllEcos == {"semver", "debian", "pypi", "maven", "rubygems", "redhat", "alpine", "nuget", "cran", "packagist"}
NoFix == [e \in AllEcos |-> {}]

-----------------------------------------------------------------------------
(* ---- tokens ---- *)
TN(d) == [k |-> "n", c |-> d]
TA(c) == [k |-> "a", c |-> c]
TS(c) == [k |-> "s", c |-> <<c>>]
IsN(t) == t.k = "n"
IsA(t) == t.k = "a"
IsS(t, ch) == t.k = "s" /\ t.c[1] = ch
IsSIn(t, chs) == t.k = "s" /\ t.c[1] \in chs

Code == [a |-> 97, b |-> 98, c |-> 99, d |-> 100, e |-> 101, f |-> 102, g |-> 103, h |-> 104, i |-> 105,
         j |-> 106, k |-> 107, l |-> 108, m |-> 109, n |-> 110, o |-> 111, p |-> 112, q |-> 113, r |-> 114,
         s |-> 115, t |-> 116, u |-> 117, v |-> 118, w |-> 119, x |-> 120, y |-> 121, z |-> 122, A |-> 65,
         B |-> 66, C |-> 67, D |-> 68, E |-> 69, F |-> 70, G |-> 71, H |-> 72, I |-> 73, J |-> 74,
         K |-> 75, L |-> 76, M |-> 77, N |-> 78, O |-> 79, P |-> 80, Q |-> 81, R |-> 82, S |-> 83,
         T |-> 84, U |-> 85, V |-> 86, W |-> 87, X |-> 88, Y |-> 89, Z |-> 90]
W(s) == [i \in 1..Len(s) |-> Code[s[i]]]          \* W(<<"r","c">>) = <<114,99>>
Wd(s) == TA(W(s))

DOT == 46  HYP == 45  PLUS == 43  TILDE == 126  COLON == 58  USC == 95  BANG == 33  SPACE == 32  CARET == 94
Dot == TS(DOT)  Hyp == TS(HYP)  Plus == TS(PLUS)  Tilde == TS(TILDE)  Colon == TS(COLON)
Usc == TS(USC)  Bang == TS(BANG)  Space == TS(SPACE)  Caret == TS(CARET)

n0 == TN(<<0>>)  n1 == TN(<<1>>)  n2 == TN(<<2>>)  n3 == TN(<<3>>)  n9 == TN(<<9>>)
n10 == TN(<<1, 0>>)  n11 == TN(<<1, 1>>)  n00 == TN(<<0, 0>>)  n01 == TN(<<0, 1>>)  n010 == TN(<<0, 1, 0>>)
nH == TN([i \in 1..20 |-> 9])                        \* 99999999999999999999 > 2^64
nH1 == TN(<<1>> \o [i \in 1..20 |-> 0])              \* 100000000000000000000

-----------------------------------------------------------------------------
(* ---- generic helpers ---- *)
Sign(x) == IF x < 0 THEN -1 ELSE IF x > 0 THEN 1 ELSE 0
SMax(S) == CHOOSE x \in S : \A y \in S : y <= x
SMin(S) == CHOOSE x \in S : \A y \in S : x <= y
Pos(t, ch) == {i \in 1..Len(t) : IsS(t[i], ch)}
From(t, i) == SubSeq(t, i, Len(t))
IsDig(c) == c >= 48 /\ c <= 57
IsUp(c) == c >= 65 /\ c <= 90
IsLet(c) == IsUp(c) \/ (c >= 97 /\ c <= 122)
Lower(cs) == [i \in 1..Len(cs) |-> IF IsUp(cs[i]) THEN cs[i] + 32 ELSE cs[i]]

RECURSIVE StripZ(_)
StripZ(d) == IF Len(d) > 1 /\ Head(d) = 0 THEN StripZ(Tail(d)) ELSE d
NoLZ(d) == Len(d) = 1 \/ d[1] # 0                  \* no leading zero

RECURSIVE LexCmp(_, _)      \* lexicographic on integer sequences, a proper prefix is smaller
LexCmp(x, y) == IF x = <<>> THEN (IF y = <<>> THEN 0 ELSE -1)
                ELSE IF y = <<>> THEN 1
                ELSE IF Head(x) < Head(y) THEN -1
                ELSE IF Head(x) > Head(y) THEN 1
                ELSE LexCmp(Tail(x), Tail(y))
\* numeric comparison of digit sequences of any length (<<>> counts as 0)
NumCmp(x, y) == LET a == StripZ(IF x = <<>> THEN <<0>> ELSE x)
                    b == StripZ(IF y = <<>> THEN <<0>> ELSE y)
                IN IF Len(a) < Len(b) THEN -1 ELSE IF Len(a) > Len(b) THEN 1 ELSE LexCmp(a, b)
IsZero(d) == StripZ(IF d = <<>> THEN <<0>> ELSE d) = <<0>>

\* numeric comparison of sequences of digit sequences, the shorter padded with zeros
RECURSIVE NumsCmpPad(_, _)
NumsCmpPad(x, y) == IF x = <<>> /\ y = <<>> THEN 0
                    ELSE LET c == NumCmp(IF x = <<>> THEN <<0>> ELSE Head(x), IF y = <<>> THEN <<0>> ELSE Head(y))
                         IN IF c # 0 THEN c
                            ELSE NumsCmpPad(IF x = <<>> THEN x ELSE Tail(x), IF y = <<>> THEN y ELSE Tail(y))

\* the characters of a token sequence
RECURSIVE Flat(_)
Flat(t) == IF t = <<>> THEN <<>>
           ELSE (IF Head(t).k = "n" THEN [i \in 1..Len(Head(t).c) |-> 48 + Head(t).c[i]] ELSE Head(t).c) \o Flat(Tail(t))

\* split a token sequence at every separator token ch: sequence of token sequences
RECURSIVE SplitOn(_, _)
SplitOn(t, ch) == LET p == Pos(t, ch) IN
                  IF p = {} THEN <<t>> ELSE <<SubSeq(t, 1, SMin(p) - 1)>> \o SplitOn(From(t, SMin(p) + 1), ch)
AllTok(t, P(_)) == \A i \in 1..Len(t) : P(t[i])

-----------------------------------------------------------------------------
(* ---- semver 2.0.0 (npm, crates.io, Go, Hex, Pub, ConanCenter) and NuGet ----
   Grammar (semver.org section 9/10 BNF): core "-" pre "+" build; core = three numeric identifiers
   without leading zeros; pre/build = dot separated non-empty identifiers over [0-9A-Za-z-];
   numeric pre-release identifiers have no leading zeros.  A leading "v" (Go module versions) is
   accepted and ignored.
   Precedence (section 11): major, minor, patch numerically; a version with a pre-release is lower
   than the same core without; identifiers left to right: both numeric -> numerically; otherwise
   ASCII order; numeric lower than alphanumeric; equal prefix -> more fields is higher; build
   metadata is ignored.
   NuGet (docs "Package versioning"): 2-4 numeric components (4th = Revision, missing = 0, leading
   zeros are normalised away), SemVer 2.0.0 pre-release rules with labels compared
   case-insensitively, metadata ignored. *)
SvBody(t) == IF Len(t) > 0 /\ IsA(t[1]) /\ t[1].c = <<118>> THEN Tail(t) ELSE t
SvNoBuild(t) == LET p == Pos(t, PLUS) IN IF p = {} THEN t ELSE SubSeq(t, 1, SMin(p) - 1)
SvBuild(t) == LET p == Pos(t, PLUS) IN From(t, SMin(p) + 1)
SvCore(t) == LET u == SvNoBuild(SvBody(t)) p == Pos(u, HYP) IN IF p = {} THEN u ELSE SubSeq(u, 1, SMin(p) - 1)
SvHasPre(t) == Pos(SvNoBuild(SvBody(t)), HYP) # {}
SvPre(t) == LET u == SvNoBuild(SvBody(t)) IN SplitOn(From(u, SMin(Pos(u, HYP)) + 1), DOT)
SvNums(core) == LET parts == SplitOn(core, DOT) IN [i \in 1..Len(parts) |-> parts[i][1].c]
SvIdentTok(x) == IsN(x) \/ IsA(x) \/ IsS(x, HYP)
SvIdentOK(id, lzok) == id # <<>> /\ AllTok(id, SvIdentTok) /\ (lzok \/ Len(id) > 1 \/ ~IsN(id[1]) \/ NoLZ(id[1].c))
SvCoreOK(core, lo, hi, lzok) ==
  LET parts == SplitOn(core, DOT) IN
  /\ Len(parts) >= lo /\ Len(parts) <= hi
  /\ \A i \in 1..Len(parts) : Len(parts[i]) = 1 /\ IsN(parts[i][1]) /\ (lzok \/ NoLZ(parts[i][1].c))
SvTailOK(t, lzok) ==
  /\ SvHasPre(t) => \A i \in 1..Len(SvPre(t)) : SvIdentOK(SvPre(t)[i], lzok)
  /\ Pos(SvBody(t), PLUS) # {} => LET b == SplitOn(SvBuild(SvBody(t)), DOT) IN \A i \in 1..Len(b) : SvIdentOK(b[i], TRUE)
Valid_semver(t) == SvCoreOK(SvCore(t), 3, 3, FALSE) /\ SvTailOK(t, FALSE)
Valid_nuget(t) == SvBody(t) = t /\ SvCoreOK(SvCore(t), 2, 4, TRUE) /\ SvTailOK(t, FALSE)

\* Key: the parsed form, computed once per version; KCmp compares two keys
SvIdKey(id) == [num |-> Len(id) = 1 /\ IsN(id[1]), d |-> IF IsN(id[1]) THEN id[1].c ELSE <<>>, s |-> Flat(id), sl |-> Lower(Flat(id))]
Key_semver(t) == [nums |-> SvNums(SvCore(t)), hasPre |-> SvHasPre(t),
                  pre |-> IF SvHasPre(t) THEN [i \in 1..Len(SvPre(t)) |-> SvIdKey(SvPre(t)[i])] ELSE <<>>]
SvIdCmp(x, y, ci) ==
  IF x.num /\ y.num THEN NumCmp(x.d, y.d)
  ELSE IF x.num THEN -1 ELSE IF y.num THEN 1
  ELSE IF ci THEN LexCmp(x.sl, y.sl) ELSE LexCmp(x.s, y.s)
RECURSIVE SvIdsCmp(_, _, _)
SvIdsCmp(x, y, ci) == IF x = <<>> THEN (IF y = <<>> THEN 0 ELSE -1)
                      ELSE IF y = <<>> THEN 1
                      ELSE LET c == SvIdCmp(Head(x), Head(y), ci) IN IF c # 0 THEN c ELSE SvIdsCmp(Tail(x), Tail(y), ci)
SvCmp(a, b, ci) ==
  LET c == NumsCmpPad(a.nums, b.nums) IN
  IF c # 0 THEN c
  ELSE IF ~a.hasPre THEN (IF b.hasPre THEN 1 ELSE 0)
  ELSE IF ~b.hasPre THEN -1
  ELSE SvIdsCmp(a.pre, b.pre, ci)
KCmp_semver(a, b) == SvCmp(a, b, FALSE)
Key_nuget(t) == Key_semver(t)
KCmp_nuget(a, b) == SvCmp(a, b, TRUE)

SvC(x, y, z) == <<x, Dot, y, Dot, z>>
SvCores == {SvC(n0, n0, n0), SvC(n1, n0, n0), SvC(n1, n0, n1), SvC(n1, n2, n0), SvC(n1, n10, n0), SvC(n2, n0, n0),
            SvC(n10, n0, n0), SvC(n1, n0, nH), SvC(nH, n0, n0)}
SvPres == { <<>>,
   <<Hyp, Wd(<<"a","l","p","h","a">>)>>, <<Hyp, Wd(<<"a","l","p","h","a">>), Dot, n1>>,
   <<Hyp, Wd(<<"a","l","p","h","a">>), Dot, Wd(<<"b","e","t","a">>)>>, <<Hyp, Wd(<<"b","e","t","a">>)>>,
   <<Hyp, Wd(<<"b","e","t","a">>), Dot, n2>>, <<Hyp, Wd(<<"b","e","t","a">>), Dot, n11>>,
   <<Hyp, Wd(<<"r","c">>)>>, <<Hyp, Wd(<<"r","c">>), Dot, n1>>, <<Hyp, Wd(<<"r","c">>), n1>>, <<Hyp, Wd(<<"R","C">>)>>,
   <<Hyp, Wd(<<"r","c">>), Dot, n1, Dot, n0>>,
   <<Hyp, n0>>, <<Hyp, n1>>, <<Hyp, n2>>, <<Hyp, n10>>, <<Hyp, nH>>, <<Hyp, nH1>>, <<Hyp, n1, Dot, n1>>, <<Hyp, n1, Dot, Wd(<<"a">>)>>,
   <<Hyp, n0, Wd(<<"a">>)>>, <<Hyp, n1, Hyp, n1>>, <<Hyp, Wd(<<"x">>), Hyp, Wd(<<"y">>)>>, <<Hyp, Wd(<<"a">>)>>,
   <<Hyp, Hyp, n1>>, <<Hyp, Hyp, n2>>, <<Hyp, Hyp>>,
   <<Hyp, Wd(<<"A">>)>>, <<Hyp, Wd(<<"a">>), Dot, Wd(<<"b">>)>> }
Gen_semver ==
  {c \o p : c \in SvCores, p \in SvPres}
  \cup {<<Wd(<<"v">>)>> \o c \o p : c \in {SvC(n1, n0, n0), SvC(n1, n2, n0)}, p \in {<<>>, <<Hyp, Wd(<<"r","c">>), Dot, n1>>, <<Hyp, n1>>}}
  \cup {SvC(n1, n0, n0) \o p \o m : p \in {<<>>, <<Hyp, Wd(<<"r","c">>)>>},
                                    m \in {<<Plus, n1>>, <<Plus, Wd(<<"b">>), Dot, n01>>, <<Plus, n2, Hyp, Wd(<<"x">>)>>}}
NgCores == {<<n1, Dot, n0>>, <<n1, Dot, n0, Dot, n0>>, <<n1, Dot, n0, Dot, n0, Dot, n0>>, <<n1, Dot, n0, Dot, n0, Dot, n1>>,
            <<n1, Dot, n0, Dot, n1>>, <<n1, Dot, n0, Dot, n01>>, <<n1, Dot, n0, Dot, n1, Dot, n2>>, <<n1, Dot, n1>>, <<n01, Dot, n1>>,
            <<n1, Dot, n10, Dot, n0>>, <<n2, Dot, n0>>, <<n0, Dot, n9, Dot, n9, Dot, n1>>, <<n1, Dot, n0, Dot, n0, Dot, nH>>,
            <<nH, Dot, n0>>, <<n1, Dot, n0, Dot, n00, Dot, n0>>}
NgPres == { <<>>, <<Hyp, Wd(<<"b","e","t","a">>)>>, <<Hyp, Wd(<<"B","E","T","A">>)>>, <<Hyp, Wd(<<"B","e","t","a">>), Dot, n1>>,
   <<Hyp, Wd(<<"b","e","t","a">>), n2>>, <<Hyp, Wd(<<"a","l","p","h","a">>)>>, <<Hyp, Wd(<<"A","l","p","h","a">>), Dot, n2>>,
   <<Hyp, Wd(<<"p","r","e">>)>>, <<Hyp, Wd(<<"R","C">>)>>, <<Hyp, Wd(<<"r","c">>), Dot, n1>>, <<Hyp, n1>>, <<Hyp, n10>>,
   <<Hyp, n1, Dot, n2, Dot, Wd(<<"A">>)>>, <<Hyp, n1, Dot, n2, Dot, Wd(<<"a">>), Dot, Wd(<<"A">>)>>, <<Hyp, Wd(<<"X">>), Hyp, Wd(<<"y">>)>> }
Gen_nuget ==
  {c \o p : c \in NgCores, p \in NgPres}
  \cup {<<n1, Dot, n0, Dot, n0>> \o p \o m : p \in {<<>>, <<Hyp, Wd(<<"b","e","t","a">>)>>}, m \in {<<Plus, Wd(<<"A","A">>)>>, <<Plus, Wd(<<"a","a">>)>>}}

-----------------------------------------------------------------------------
(* ---- Debian / Ubuntu (Debian Policy 5.6.12, deb-version(7)) ----
   [epoch:]upstream[-revision].  epoch: unsigned integer.  upstream: starts with a digit, consists
   of alphanumerics and . + - ~ (hyphen only when a revision is present; the revision is what
   follows the LAST hyphen).  revision: alphanumerics and + . ~ .  An absent revision is
   equivalent to revision "0", an absent epoch to 0.
   Comparison: epoch numerically, then upstream, then revision, each by: repeat { compare the
   initial non-digit parts lexically, where letters sort before non-letters, "~" sorts before
   everything, even the end of the part; then compare the initial digit parts numerically (an
   empty digit part counts as 0) } until both are exhausted. *)
DebHasEpoch(t) == Pos(t, COLON) # {}
DebEpoch(t) == IF DebHasEpoch(t) THEN t[1].c ELSE <<0>>
DebRest(t) == IF DebHasEpoch(t) THEN From(t, SMin(Pos(t, COLON)) + 1) ELSE t
DebUp(t) == LET r == DebRest(t) p == Pos(r, HYP) IN IF p = {} THEN r ELSE SubSeq(r, 1, SMax(p) - 1)
DebRev(t) == LET r == DebRest(t) p == Pos(r, HYP) IN IF p = {} THEN <<n0>> ELSE From(r, SMax(p) + 1)
DebUpTok(x) == IsN(x) \/ IsA(x) \/ IsSIn(x, {DOT, PLUS, TILDE, HYP})
DebRevTok(x) == IsN(x) \/ IsA(x) \/ IsSIn(x, {DOT, PLUS, TILDE})
Valid_debian(t) ==
  /\ DebHasEpoch(t) => Len(t) >= 3 /\ IsN(t[1]) /\ IsS(t[2], COLON) /\ Cardinality(Pos(t, COLON)) = 1
  /\ DebUp(t) # <<>> /\ IsN(DebUp(t)[1]) /\ AllTok(DebUp(t), DebUpTok)
  /\ DebRev(t) # <<>> /\ AllTok(DebRev(t), DebRevTok)

DebW(c) == IF c = TILDE THEN -1 ELSE IF IsLet(c) THEN c ELSE c + 256      \* end of part = 0
RECURSIVE DebLex(_, _)
DebLex(x, y) == IF x = <<>> /\ y = <<>> THEN 0
                ELSE LET wx == IF x = <<>> THEN 0 ELSE DebW(Head(x))
                         wy == IF y = <<>> THEN 0 ELSE DebW(Head(y))
                     IN IF wx < wy THEN -1 ELSE IF wx > wy THEN 1
                        ELSE DebLex(IF x = <<>> THEN x ELSE Tail(x), IF y = <<>> THEN y ELSE Tail(y))
RECURSIVE NDLen(_)
NDLen(t) == IF t = <<>> \/ IsN(Head(t)) THEN 0 ELSE 1 + NDLen(Tail(t))
\* a part as the alternation the policy describes: <<non-digit characters, digits>>, ...
RECURSIVE DebPairs(_)
DebPairs(a) == IF a = <<>> THEN <<>>
               ELSE LET ka == NDLen(a)  ra == From(a, ka + 1)
                    IN << <<Flat(SubSeq(a, 1, ka)), IF ra = <<>> THEN <<>> ELSE Head(ra).c>> >> \o DebPairs(IF ra = <<>> THEN ra ELSE Tail(ra))
RECURSIVE DebCmpStr(_, _)
DebCmpStr(a, b) ==
  IF a = <<>> /\ b = <<>> THEN 0
  ELSE LET x == IF a = <<>> THEN <<<<>>, <<>>>> ELSE Head(a)
           y == IF b = <<>> THEN <<<<>>, <<>>>> ELSE Head(b)
           c1 == DebLex(x[1], y[1])
           c2 == NumCmp(x[2], y[2])
       IN IF c1 # 0 THEN c1 ELSE IF c2 # 0 THEN c2
          ELSE DebCmpStr(IF a = <<>> THEN a ELSE Tail(a), IF b = <<>> THEN b ELSE Tail(b))
Key_debian(t) == [ep |-> DebEpoch(t), up |-> DebPairs(DebUp(t)), rev |-> DebPairs(DebRev(t))]
KCmp_debian(a, b) ==
  LET e == NumCmp(a.ep, b.ep)
      u == DebCmpStr(a.up, b.up)
  IN IF e # 0 THEN e ELSE IF u # 0 THEN u ELSE DebCmpStr(a.rev, b.rev)

DebUps == { <<n1, Dot, n0>>, <<n1, Dot, n0, Dot, n0>>, <<n1, Dot, n1>>, <<n1, Dot, n10>>, <<n1, Dot, n2>>, <<n1, Dot, n01>>,
   <<n1, Dot, n0, Tilde, Wd(<<"r","c">>), n1>>, <<n1, Dot, n0, Tilde, Tilde>>, <<n1, Dot, n0, Tilde>>, <<n1, Dot, n0, Tilde, n1>>,
   <<n1, Dot, n0, Wd(<<"a">>)>>, <<n1, Dot, n0, Wd(<<"a">>), Tilde>>, <<n1, Dot, n0, Wd(<<"A">>)>>, <<n1, Dot, n0, Plus>>,
   <<n1, Dot, n0, Plus, Wd(<<"d","f","s","g">>)>>, <<n1, Dot, n0, Dot>>, <<n1, Dot, n0, Wd(<<"z">>)>>, <<n1, Dot, n0, Hyp, n1>>,
   <<n1, Dot, n0, Plus, n1>>, <<n1, Dot, nH>>, <<n1, Dot, nH1>>, <<n1>>, <<n2>>, <<n1, Wd(<<"a">>), n1>>, <<n1, Wd(<<"a">>), n01>> }
DebRevs == { <<>>, <<Hyp, n0>>, <<Hyp, n1>>, <<Hyp, n1, Tilde, Wd(<<"d","e","b">>), n1>>, <<Hyp, n1, Plus, Wd(<<"b">>), n1>>,
   <<Hyp, n1, Wd(<<"u","b","u","n","t","u">>), n1>>, <<Hyp, n10>>, <<Hyp, Wd(<<"a">>)>>, <<Hyp, n1, Dot, n1>> }
Gen_debian ==
  {u \o r : u \in DebUps, r \in DebRevs}
  \cup {<<e, Colon>> \o u \o r : e \in {n0, n1, n01, n2, nH}, u \in {<<n1, Dot, n0>>, <<n1, Dot, n0, Tilde>>, <<n2>>}, r \in {<<>>, <<Hyp, n1>>}}

-----------------------------------------------------------------------------
(* ---- CRAN (R package_version / numeric_version) ----
   A sequence of at least two non-negative integers separated by "." or "-".  Comparison is
   component-wise numeric; when one is a proper prefix of the other the shorter is lower
   (package_version("1.0") < "1.0.0"); "." and "-" are equivalent; 0.01 = 0.1. *)
CranParts(t) == [i \in 1..((Len(t) + 1) \div 2) |-> t[2 * i - 1]]
Valid_cran(t) == /\ Len(t) >= 3 /\ Len(t) % 2 = 1
                 /\ \A i \in 1..Len(t) : IF i % 2 = 1 THEN IsN(t[i]) ELSE IsSIn(t[i], {DOT, HYP})
RECURSIVE CranCmp(_, _)
CranCmp(x, y) == IF x = <<>> THEN (IF y = <<>> THEN 0 ELSE -1)
                 ELSE IF y = <<>> THEN 1
                 ELSE LET c == NumCmp(Head(x).c, Head(y).c) IN IF c # 0 THEN c ELSE CranCmp(Tail(x), Tail(y))
Key_cran(t) == CranParts(t)
KCmp_cran(a, b) == CranCmp(a, b)
CranNums == {n0, n1, n2, n10, n01, nH}
Gen_cran == {<<x, s, y>> : x \in {n0, n1, n10, nH}, s \in {Dot, Hyp}, y \in CranNums}
            \cup {<<x, Dot, y, s, z>> : x \in {n0, n1}, y \in {n0, n1, n01, n10}, s \in {Dot, Hyp}, z \in {n0, n1, n00, nH, nH1}}
            \cup {<<n1, Dot, n0, s, n0, Dot, z>> : s \in {Dot, Hyp}, z \in {n0, n1}}

-----------------------------------------------------------------------------
(* ---- PyPI (PEP 440) ----
   [v][N!]N(.N)*[{a|b|rc}N][.postN][.devN][+local] plus the normalisations of PEP 440:
   case-insensitive, alternate spellings alpha/beta/c/pre/preview and rev/r, optional separator
   . - _ before and after the pre/post/dev marker, implicit number 0, implicit post release "-N",
   integers with leading zeros.  Local: segments of letters/digits separated by . - _ .
   Order: epoch; release with zero padding; then  X.devN < X{a|b|rc}N[.devM] < X < X.postN[.devM];
   within one release+pre+post, a .dev release sorts before the same without; a local version sorts
   after the same public version, local segments compared numerically if numeric, else lexically,
   numeric above alphabetic, more segments above a prefix. *)
PySeps == {DOT, HYP, USC}
PyPreWords == {W(<<"a">>), W(<<"b">>), W(<<"c">>), W(<<"r","c">>), W(<<"a","l","p","h","a">>), W(<<"b","e","t","a">>),
               W(<<"p","r","e">>), W(<<"p","r","e","v","i","e","w">>)}
PyPostWords == {W(<<"p","o","s","t">>), W(<<"r","e","v">>), W(<<"r">>)}
PyDevWords == {W(<<"d","e","v">>)}
PyPreKind(w) == IF w \in {W(<<"a">>), W(<<"a","l","p","h","a">>)} THEN 1
                ELSE IF w \in {W(<<"b">>), W(<<"b","e","t","a">>)} THEN 2 ELSE 3
RECURSIVE PyRelEnd(_, _)        \* index of the last token of the release that has its first number at i
PyRelEnd(t, i) == IF i + 2 <= Len(t) /\ IsS(t[i + 1], DOT) /\ IsN(t[i + 2]) THEN PyRelEnd(t, i + 2) ELSE i
\* an optional "[sep] word [[sep] number]" group starting at i: <<found, index after it, digits>>
PyGroup(t, i, words) ==
  LET n == Len(t)
      j == IF i <= n /\ IsSIn(t[i], PySeps) THEN i + 1 ELSE i
      ok == j <= n /\ IsA(t[j]) /\ Lower(t[j].c) \in words
      k == IF j + 1 <= n /\ IsSIn(t[j + 1], PySeps) /\ j + 2 <= n /\ IsN(t[j + 2]) THEN j + 2
           ELSE IF j + 1 <= n /\ IsN(t[j + 1]) THEN j + 1 ELSE j
  IN IF ok THEN [f |-> TRUE, nx |-> k + 1, d |-> IF k = j THEN <<0>> ELSE t[k].c, w |-> Lower(t[j].c)]
     ELSE [f |-> FALSE, nx |-> i, d |-> <<0>>, w |-> <<>>]
PySegTok(x) == IsN(x) \/ IsA(x)
PyParse(t0) ==
  LET t == IF Len(t0) > 0 /\ IsA(t0[1]) /\ Lower(t0[1].c) = <<118>> THEN Tail(t0) ELSE t0
      n == Len(t)
      hasEp == n >= 2 /\ IsN(t[1]) /\ IsS(t[2], BANG)
      i0 == IF hasEp THEN 3 ELSE 1
      relOK == i0 <= n /\ IsN(t[i0])
      re == IF relOK THEN PyRelEnd(t, i0) ELSE i0
      rel == [i \in 1..((re - i0) \div 2 + 1) |-> t[i0 + 2 * (i - 1)].c]
      pre == PyGroup(t, re + 1, PyPreWords)
      i1 == pre.nx
      implicit == i1 + 1 <= n /\ IsS(t[i1], HYP) /\ IsN(t[i1 + 1])
      post == IF implicit THEN [f |-> TRUE, nx |-> i1 + 2, d |-> t[i1 + 1].c, w |-> <<>>] ELSE PyGroup(t, i1, PyPostWords)
      dev == PyGroup(t, post.nx, PyDevWords)
      i3 == dev.nx
      hasLoc == i3 <= n /\ IsS(t[i3], PLUS)
      loc == IF hasLoc THEN From(t, i3 + 1) ELSE <<>>
      \* local segments: split at . - _
      locOK == hasLoc => /\ loc # <<>> /\ PySegTok(loc[1]) /\ PySegTok(loc[Len(loc)])
                         /\ \A i \in 1..Len(loc) : PySegTok(loc[i]) \/ IsSIn(loc[i], PySeps)
                         /\ \A i \in 1..(Len(loc) - 1) : ~(loc[i].k = "s" /\ loc[i + 1].k = "s")
  IN [ok |-> relOK /\ (IF hasLoc THEN locOK ELSE i3 = n + 1),
      ep |-> IF hasEp THEN t[1].c ELSE <<0>>, rel |-> IF relOK THEN rel ELSE <<>>,
      pre |-> pre.f, prek |-> IF pre.f THEN PyPreKind(pre.w) ELSE 0, pren |-> pre.d,
      post |-> post.f, postn |-> post.d, dev |-> dev.f, devn |-> dev.d, hasLoc |-> hasLoc, loc |-> loc]
Valid_pypi(t) == PyParse(t).ok

\* local label -> sequence of segments (runs of n/a tokens)
RECURSIVE PyLocSegs(_, _)
PyLocSegs(loc, cur) ==
  IF loc = <<>> THEN (IF cur = <<>> THEN <<>> ELSE <<cur>>)
  ELSE IF Head(loc).k = "s" THEN (IF cur = <<>> THEN <<>> ELSE <<cur>>) \o PyLocSegs(Tail(loc), <<>>)
  ELSE PyLocSegs(Tail(loc), Append(cur, Head(loc)))
PySegKey(x) == [num |-> Len(x) = 1 /\ IsN(x[1]), d |-> IF IsN(x[1]) THEN x[1].c ELSE <<>>, sl |-> Lower(Flat(x))]
PySegCmp(x, y) ==
  IF x.num /\ y.num THEN NumCmp(x.d, y.d) ELSE IF x.num THEN 1 ELSE IF y.num THEN -1 ELSE LexCmp(x.sl, y.sl)
RECURSIVE PySegsCmp(_, _)
PySegsCmp(x, y) == IF x = <<>> THEN (IF y = <<>> THEN 0 ELSE -1)
                   ELSE IF y = <<>> THEN 1
                   ELSE LET c == PySegCmp(Head(x), Head(y)) IN IF c # 0 THEN c ELSE PySegsCmp(Tail(x), Tail(y))
\* the PEP 440 sort key of the pre-release slot: (class, kind, number)
PyPreKey(p) == IF ~p.pre /\ ~p.post /\ p.dev THEN <<0, 0, <<0>>>>         \* X.devN sorts before every pre-release of X
               ELSE IF ~p.pre THEN <<2, 0, <<0>>>>                        \* no pre-release: after all of them
               ELSE <<1, p.prek, p.pren>>
Key_pypi(t) == LET p == PyParse(t)  sg == PyLocSegs(p.loc, <<>>)
               IN [p EXCEPT !.loc = [i \in 1..Len(sg) |-> PySegKey(sg[i])]]
KCmp_pypi(p, q) ==
  LET e == NumCmp(p.ep, q.ep)
      r == NumsCmpPad(p.rel, q.rel)
      kp == PyPreKey(p)  kq == PyPreKey(q)
      pr == IF kp[1] # kq[1] THEN Sign(kp[1] - kq[1]) ELSE IF kp[2] # kq[2] THEN Sign(kp[2] - kq[2]) ELSE NumCmp(kp[3], kq[3])
      po == IF p.post /\ q.post THEN NumCmp(p.postn, q.postn) ELSE IF p.post THEN 1 ELSE IF q.post THEN -1 ELSE 0
      de == IF p.dev /\ q.dev THEN NumCmp(p.devn, q.devn) ELSE IF p.dev THEN -1 ELSE IF q.dev THEN 1 ELSE 0
      lo == IF p.hasLoc /\ q.hasLoc THEN PySegsCmp(p.loc, q.loc)
            ELSE IF p.hasLoc THEN 1 ELSE IF q.hasLoc THEN -1 ELSE 0
  IN IF e # 0 THEN e ELSE IF r # 0 THEN r ELSE IF pr # 0 THEN pr ELSE IF po # 0 THEN po ELSE IF de # 0 THEN de ELSE lo

PyRels == {<<n1, Dot, n0>>, <<n1>>, <<n1, Dot, n0, Dot, n0>>, <<n1, Dot, n0, Dot, n1>>, <<n1, Dot, n1>>, <<n1, Dot, n10>>,
           <<n1, Dot, n01>>, <<n2, Dot, n0>>, <<n0, Dot, n9>>, <<n1, Dot, nH>>, <<nH>>}
PyA == Wd(<<"a">>)  PyB == Wd(<<"b">>)  PyRC == Wd(<<"r","c">>)  PyPost == Wd(<<"p","o","s","t">>)  PyDev == Wd(<<"d","e","v">>)
PyTails == { <<>>, <<PyA, n0>>, <<PyA, n1>>, <<PyA, n2>>, <<PyA, n10>>, <<PyB, n1>>, <<PyB, n2>>, <<PyRC, n1>>, <<PyRC, n2>>, <<PyRC, nH>>,
   <<Dot, PyDev, n0>>, <<Dot, PyDev, n1>>, <<Dot, PyDev, n2>>, <<Dot, PyDev, nH>>,
   <<PyA, n1, Dot, PyDev, n1>>, <<PyA, n1, Dot, PyDev, n2>>, <<PyB, n1, Dot, PyDev, n1>>, <<PyRC, n1, Dot, PyDev, n1>>,
   <<Dot, PyPost, n0>>, <<Dot, PyPost, n1>>, <<Dot, PyPost, n2>>, <<Dot, PyPost, n10>>,
   <<Dot, PyPost, n1, Dot, PyDev, n1>>, <<Dot, PyPost, n1, Dot, PyDev, n2>>, <<Dot, PyPost, n2, Dot, PyDev, n1>>,
   <<PyA, n1, Dot, PyPost, n1>>, <<PyA, n1, Dot, PyPost, n1, Dot, PyDev, n1>>, <<PyRC, n1, Dot, PyPost, n2>>,
   \* alternate spellings
   <<Wd(<<"a","l","p","h","a">>), n1>>, <<Dot, Wd(<<"b","e","t","a">>), Dot, n2>>, <<Wd(<<"c">>), n1>>, <<Hyp, Wd(<<"p","r","e">>), n2>>,
   <<Usc, Wd(<<"p","r","e","v","i","e","w">>)>>, <<Wd(<<"R","C">>), n1>>, <<PyA>>, <<Hyp, n1>>, <<Hyp, n2>>, <<Dot, Wd(<<"r","e","v">>), n2>>,
   <<Wd(<<"r">>), n1>>, <<PyPost>>, <<PyDev>>, <<Dot, Wd(<<"D","E","V">>), n1>>, <<PyA, n01>> }
PyLocals == { <<Plus, Wd(<<"a","b","c">>)>>, <<Plus, n1>>, <<Plus, n2>>, <<Plus, n10>>, <<Plus, Wd(<<"a","b","c">>), Dot, n1>>,
   <<Plus, Wd(<<"a","b","c">>), Dot, n2>>, <<Plus, Wd(<<"A","B","C">>)>>, <<Plus, Wd(<<"a","b","d">>)>>, <<Plus, n1, Dot, n0>>,
   <<Plus, n1, Hyp, Wd(<<"a">>)>>, <<Plus, Wd(<<"a">>), n1>>, <<Plus, nH>> }
Gen_pypi ==
  {r \o x : r \in {<<n1, Dot, n0>>, <<n1, Dot, n1>>, <<n2, Dot, n0>>}, x \in PyTails}
  \cup {r \o x : r \in PyRels, x \in {<<>>, <<PyRC, n1>>, <<Dot, PyDev, n1>>, <<Dot, PyPost, n1>>}}
  \cup {<<n1, Dot, n0>> \o x \o l : x \in {<<>>, <<PyA, n1>>, <<Dot, PyPost, n1>>, <<Dot, PyDev, n1>>}, l \in PyLocals}
  \cup {<<e, Bang>> \o r \o x : e \in {n0, n1, n01, n2, nH}, r \in {<<n1, Dot, n0>>, <<n2, Dot, n0>>}, x \in {<<>>, <<PyA, n1>>, <<Dot, PyDev, n1>>}}
  \cup {<<Wd(<<"v">>), n1, Dot, n0>> \o x : x \in {<<>>, <<PyRC, n1>>}}

-----------------------------------------------------------------------------
(* ---- Maven (POM reference, "Version Order Specification" = ComparableVersion) ----
   The string is split into tokens at "." and "-" and at digit/letter transitions (a transition
   counts as a hyphen); the separator before a token is recorded.  Qualifiers are
   case-insensitive; cr = rc; ga = final = release = ""; a/b/m directly followed by a number mean
   alpha/beta/milestone.  Trailing "null" tokens (0, "", final, ga, release) are trimmed from the end, and
   again before each remaining hyphen.  Order: lexicographic on prefixed tokens, the shorter padded
   with nulls of the other's prefix (0 for ".", "" for "-"); same prefix: numbers numerically,
   qualifiers alpha < beta < milestone < rc < snapshot < "" < sp < unknown (alphabetically),
   a number above a qualifier; different prefix: .qualifier < -qualifier < -number < .number.
   A qualifier compared with a padded "." null (the number 0) is compared with "" (the release), as
   ComparableVersion does.
   GRAMMAR (= canonical subset): number, then (.|-|transition) tokens, no empty tokens, and
   qualifiers are introduced by "-" or a transition only, never by ".": with dot-qualifiers the
   PUBLISHED order is itself not transitive (2 < 2.a < 2-alpha < 2; cfg VersionOrder-maven-dotq.cfg
   makes TLC exhibit this on the model), so neither a total preorder nor agreement can be demanded
   there; only the totality laws (no panic, antisymmetry, reflexivity) apply to such strings. *)
MvTokOK(x) == IsN(x) \/ IsA(x) \/ IsSIn(x, {DOT, HYP})
Wide_maven(t) == /\ t # <<>> /\ IsN(t[1]) /\ AllTok(t, MvTokOK) /\ t[Len(t)].k # "s"
                 /\ \A i \in 1..(Len(t) - 1) : ~(t[i].k = "s" /\ t[i + 1].k = "s")
Valid_maven(t) == Wide_maven(t) /\ \A i \in 1..(Len(t) - 1) : IsS(t[i], DOT) => IsN(t[i + 1])
Canon_maven(t) == Valid_maven(t)
MvQual(w, followedByNum) ==
  LET l == Lower(w) IN
  IF l = W(<<"c","r">>) THEN W(<<"r","c">>)
  ELSE IF l \in {W(<<"g","a">>), W(<<"f","i","n","a","l">>), W(<<"r","e","l","e","a","s","e">>)} THEN <<>>
  ELSE IF followedByNum /\ l = W(<<"a">>) THEN W(<<"a","l","p","h","a">>)
  ELSE IF followedByNum /\ l = W(<<"b">>) THEN W(<<"b","e","t","a">>)
  ELSE IF followedByNum /\ l = W(<<"m">>) THEN W(<<"m","i","l","e","s","t","o","n","e">>)
  ELSE l
\* items: [p |-> 0 (first) | 1 (".") | 2 ("-"), num |-> BOOLEAN, v |-> digits | letters]
RECURSIVE MvItems(_, _, _)
MvItems(t, i, pfx) ==
  IF i > Len(t) THEN <<>>
  ELSE IF t[i].k = "s" THEN MvItems(t, i + 1, IF t[i].c[1] = DOT THEN 1 ELSE 2)
  ELSE <<[p |-> pfx, num |-> IsN(t[i]),
          v |-> IF IsN(t[i]) THEN StripZ(t[i].c) ELSE MvQual(t[i].c, i < Len(t) /\ IsN(t[i + 1]))]>>
       \o MvItems(t, i + 1, 2)                       \* a following token without separator is a transition = hyphen
MvNull(x) == IF x.num THEN x.v = <<0>> ELSE x.v = <<>>
RECURSIVE MvTrim(_)
MvTrim(it) == IF Len(it) <= 1 THEN it
              ELSE IF MvNull(it[Len(it)]) THEN MvTrim(SubSeq(it, 1, Len(it) - 1))
              ELSE LET hs == {i \in 2..Len(it) : it[i].p = 2} IN
                   IF hs = {} THEN it ELSE MvTrim(SubSeq(it, 1, SMax(hs) - 1)) \o From(it, SMax(hs))
MvKnown == <<W(<<"a","l","p","h","a">>), W(<<"b","e","t","a">>), W(<<"m","i","l","e","s","t","o","n","e">>), W(<<"r","c">>),
             W(<<"s","n","a","p","s","h","o","t">>), <<>>, W(<<"s","p">>)>>
MvQIdx(q) == IF \E i \in 1..7 : MvKnown[i] = q THEN CHOOSE i \in 1..7 : MvKnown[i] = q ELSE 8
MvQCmp(x, y) == LET i == MvQIdx(x) j == MvQIdx(y) IN IF i # j THEN Sign(i - j) ELSE IF i = 8 THEN LexCmp(x, y) ELSE 0
MvClass(x) == IF x.num THEN (IF x.p = 1 THEN 3 ELSE 2) ELSE (IF x.p = 1 THEN 0 ELSE 1)
MvIsPad(x) == "pad" \in DOMAIN x
MvItemCmp(x, y) ==
  IF x.p = y.p \/ x.p = 0 \/ y.p = 0
  THEN IF x.num /\ y.num THEN NumCmp(x.v, y.v)
       ELSE IF x.num THEN (IF MvIsPad(x) THEN MvQCmp(<<>>, y.v) ELSE 1)
       ELSE IF y.num THEN (IF MvIsPad(y) THEN MvQCmp(x.v, <<>>) ELSE -1)
       ELSE MvQCmp(x.v, y.v)
  ELSE Sign(MvClass(x) - MvClass(y))
MvPad(other) == IF other.p = 1 THEN [p |-> 1, num |-> TRUE, v |-> <<0>>, pad |-> TRUE] ELSE [p |-> other.p, num |-> FALSE, v |-> <<>>]
RECURSIVE MvCmpItems(_, _)
MvCmpItems(x, y) ==
  IF x = <<>> /\ y = <<>> THEN 0
  ELSE LET a == IF x = <<>> THEN MvPad(Head(y)) ELSE Head(x)
           b == IF y = <<>> THEN MvPad(Head(x)) ELSE Head(y)
           c == MvItemCmp(a, b)
       IN IF c # 0 THEN c ELSE MvCmpItems(IF x = <<>> THEN x ELSE Tail(x), IF y = <<>> THEN y ELSE Tail(y))
MvNorm(t) == MvTrim(MvItems(t, 1, 0))
Key_maven(t) == MvNorm(t)
KCmp_maven(a, b) == MvCmpItems(a, b)

MvBases == {<<n1>>, <<n1, Dot, n0>>, <<n1, Dot, n0, Dot, n0>>, <<n1, Dot, n1>>, <<n1, Dot, n01>>, <<n1, Dot, n0, Dot, n1>>, <<n1, Dot, n10>>,
            <<n2>>, <<n2, Dot, n0>>, <<n1, Dot, nH>>, <<n1, Dot, nH1>>}
MvQ(s) == Wd(s)
MvTails == { <<>>, <<Hyp, MvQ(<<"a","l","p","h","a">>)>>, <<Hyp, MvQ(<<"a","l","p","h","a">>), Hyp, n1>>, <<Hyp, MvQ(<<"a","l","p","h","a">>), Hyp, n2>>,
   <<Hyp, MvQ(<<"a","l","p","h","a">>), n1>>, <<Hyp, MvQ(<<"a">>), n1>>, <<MvQ(<<"a">>), n1>>, <<Hyp, MvQ(<<"a">>)>>,
   <<Hyp, MvQ(<<"b","e","t","a">>), Hyp, n1>>, <<Hyp, MvQ(<<"b">>), n1>>, <<Hyp, MvQ(<<"b","e","t","a">>)>>,
   <<Hyp, MvQ(<<"m","i","l","e","s","t","o","n","e">>), Hyp, n1>>, <<Hyp, MvQ(<<"m">>), n1>>,
   <<Hyp, MvQ(<<"r","c">>)>>, <<Hyp, MvQ(<<"r","c">>), n1>>, <<Hyp, MvQ(<<"r","c">>), Hyp, n2>>, <<Hyp, MvQ(<<"c","r">>), n1>>, <<Hyp, MvQ(<<"R","C">>), n1>>,
   <<Hyp, MvQ(<<"S","N","A","P","S","H","O","T">>)>>, <<Hyp, MvQ(<<"s","n","a","p","s","h","o","t">>)>>,
   <<Hyp, MvQ(<<"a","l","p","h","a">>), Hyp, n1, Hyp, MvQ(<<"S","N","A","P","S","H","O","T">>)>>,
   <<Hyp, MvQ(<<"f","i","n","a","l">>)>>, <<Hyp, MvQ(<<"g","a">>)>>, <<Hyp, MvQ(<<"G","A">>)>>, <<Hyp, MvQ(<<"s","p">>)>>, <<Hyp, MvQ(<<"s","p">>), Hyp, n1>>,
   <<Hyp, MvQ(<<"s","p">>), n2>>, <<Hyp, MvQ(<<"x","y","z">>)>>, <<Hyp, MvQ(<<"a","b","c">>)>>, <<Hyp, MvQ(<<"X","y","z">>), Hyp, n1>>,
   <<Hyp, n1>>, <<Hyp, n2>>, <<Hyp, n0>>, <<Hyp, n01>>, <<Hyp, n10>>, <<Hyp, n1, Dot, n0>>, <<Hyp, n1, Hyp, n1>>, <<Hyp, nH>> }
Gen_maven == {b \o x : b \in {<<n1>>, <<n1, Dot, n0>>, <<n1, Dot, n1>>, <<n2>>}, x \in MvTails}
             \cup {b \o x : b \in MvBases, x \in {<<>>, <<Hyp, MvQ(<<"r","c">>), n1>>, <<Hyp, MvQ(<<"s","p">>)>>, <<Hyp, n1>>}}

-----------------------------------------------------------------------------
(* ---- RubyGems (Gem::Version) ----
   Grammar: [0-9]+(\.[0-9a-zA-Z]+)*  (the "-" = ".pre." form is outside the canonical subset).
   Segments: maximal digit runs (integers) and letter runs (strings); a version with a letter is a
   prerelease.  Canonical segments: the numeric prefix and the prerelease tail each lose their
   trailing zeros.  Comparison segment by segment, a missing segment is 0, equal segments are
   skipped, a string is lower than an integer, strings by <=> (ASCII), integers numerically. *)
RgPartTok(x) == IsN(x) \/ IsA(x)
Valid_rubygems(t) == /\ t # <<>> /\ IsN(t[1]) /\ t[Len(t)].k # "s"
                     /\ \A i \in 1..Len(t) : RgPartTok(t[i]) \/ IsS(t[i], DOT)
                     /\ \A i \in 1..(Len(t) - 1) : (t[i].k = "s" => t[i + 1].k # "s")
                     /\ (Len(t) > 1 => t[2].k = "s")                      \* "1a" is malformed
RECURSIVE RgSegs(_)
RgSegs(t) == IF t = <<>> THEN <<>> ELSE IF Head(t).k = "s" THEN RgSegs(Tail(t)) ELSE <<Head(t)>> \o RgSegs(Tail(t))
RECURSIVE RgNumPrefixLen(_)
RgNumPrefixLen(s) == IF s = <<>> \/ ~IsN(Head(s)) THEN 0 ELSE 1 + RgNumPrefixLen(Tail(s))
RECURSIVE RgDropZeros(_)
RgDropZeros(s) == IF s # <<>> /\ IsN(s[Len(s)]) /\ IsZero(s[Len(s)].c) THEN RgDropZeros(SubSeq(s, 1, Len(s) - 1)) ELSE s
RgCanon(t) == LET s == RgSegs(t) k == RgNumPrefixLen(s) IN RgDropZeros(SubSeq(s, 1, k)) \o RgDropZeros(From(s, k + 1))
RECURSIVE RgCmpSegs(_, _)
RgCmpSegs(x, y) ==
  IF x = <<>> /\ y = <<>> THEN 0
  ELSE LET a == IF x = <<>> THEN n0 ELSE Head(x)
           b == IF y = <<>> THEN n0 ELSE Head(y)
           c == IF IsN(a) /\ IsN(b) THEN NumCmp(a.c, b.c) ELSE IF IsA(a) /\ IsN(b) THEN -1 ELSE IF IsN(a) /\ IsA(b) THEN 1 ELSE LexCmp(a.c, b.c)
       IN IF c # 0 THEN c ELSE RgCmpSegs(IF x = <<>> THEN x ELSE Tail(x), IF y = <<>> THEN y ELSE Tail(y))
Key_rubygems(t) == RgCanon(t)
KCmp_rubygems(a, b) == RgCmpSegs(a, b)
RgBases == {<<n1>>, <<n1, Dot, n0>>, <<n1, Dot, n0, Dot, n0>>, <<n1, Dot, n1>>, <<n1, Dot, n01>>, <<n1, Dot, n10>>, <<n1, Dot, n0, Dot, n1>>,
            <<n2>>, <<n0, Dot, n9>>, <<n1, Dot, nH>>, <<nH>>, <<nH1>>}
RgTails == { <<>>, <<Dot, Wd(<<"a">>)>>, <<Dot, Wd(<<"a">>), n1>>, <<Dot, Wd(<<"a">>), Dot, n1>>, <<Dot, Wd(<<"a">>), n2>>, <<Dot, Wd(<<"a">>), n10>>,
   <<Dot, Wd(<<"a">>), Dot, n10>>, <<Dot, Wd(<<"a">>), n0>>, <<Dot, Wd(<<"b">>)>>, <<Dot, Wd(<<"b">>), n1>>, <<Dot, Wd(<<"b","e","t","a">>)>>,
   <<Dot, Wd(<<"b","e","t","a">>), Dot, n2>>, <<Dot, Wd(<<"r","c">>), n1>>, <<Dot, Wd(<<"r","c">>), n2>>, <<Dot, Wd(<<"r","c">>)>>,
   <<Dot, Wd(<<"R","C">>), n1>>, <<Dot, Wd(<<"p","r","e">>)>>, <<Dot, Wd(<<"p","r","e">>), Dot, n1>>, <<Dot, Wd(<<"a">>), Dot, Wd(<<"b">>)>>,
   <<Dot, Wd(<<"a">>), n1, Wd(<<"b">>)>>, <<Dot, n0, Dot, Wd(<<"a">>)>>, <<Dot, n1, Dot, Wd(<<"a">>)>>, <<Dot, Wd(<<"a">>), Dot, n0, Dot, n0>>,
   <<Dot, Wd(<<"a">>), Dot, n0, Dot, n1>>, <<Dot, n1, Wd(<<"a">>)>>, <<Dot, Wd(<<"z">>), nH>> }
Gen_rubygems == {b \o x : b \in {<<n1>>, <<n1, Dot, n0>>, <<n1, Dot, n1>>, <<n2>>, <<n1, Dot, n0, Dot, n0>>}, x \in RgTails}
                \cup {b \o x : b \in RgBases, x \in {<<>>, <<Dot, Wd(<<"a">>)>>, <<Dot, Wd(<<"r","c">>), n1>>}}

-----------------------------------------------------------------------------
(* ---- Red Hat (rpm: [epoch:]version[-release], rpmvercmp) ----
   epoch: integer, missing = 0.  version / release: alphanumeric segments separated by anything
   else; "~" and "^" are special.  A missing release sorts before any release (rpmverCmp).
   rpmvercmp(a,b): repeat { skip separators (not ~ ^); both "~": drop them; only one "~": that one
   is older; both "^": drop; only one "^": it is older unless the other string has ended, then
   newer; if either has ended stop; take the next segment of each (digits or letters, type decided
   by a): different types -> the numeric one is newer; numbers compare numerically (leading zeros
   ignored), letters by strcmp } ; at the end the one with something left is newer. *)
RhSepTok(x) == x.k = "s" /\ x.c[1] \notin {TILDE, CARET}
RECURSIVE RhSkip(_)
RhSkip(t) == IF t # <<>> /\ RhSepTok(Head(t)) THEN RhSkip(Tail(t)) ELSE t
RECURSIVE Rpm(_, _)
Rpm(a0, b0) ==
  LET a == RhSkip(a0)  b == RhSkip(b0)
      at == a # <<>> /\ IsS(Head(a), TILDE)  bt == b # <<>> /\ IsS(Head(b), TILDE)
      ac == a # <<>> /\ IsS(Head(a), CARET)  bc == b # <<>> /\ IsS(Head(b), CARET)
  IN IF at /\ bt THEN Rpm(Tail(a), Tail(b))
     ELSE IF at THEN -1 ELSE IF bt THEN 1
     ELSE IF ac /\ bc THEN Rpm(Tail(a), Tail(b))
     ELSE IF ac THEN (IF b = <<>> THEN 1 ELSE -1)
     ELSE IF bc THEN (IF a = <<>> THEN -1 ELSE 1)
     ELSE IF a = <<>> \/ b = <<>> THEN (IF a = <<>> /\ b = <<>> THEN 0 ELSE IF a = <<>> THEN -1 ELSE 1)
     ELSE LET x == Head(a)  y == Head(b)
              c == IF IsN(x) /\ IsN(y) THEN NumCmp(x.c, y.c)
                   ELSE IF IsN(x) THEN 1 ELSE IF IsN(y) THEN -1 ELSE Sign(LexCmp(x.c, y.c))
          IN IF c # 0 THEN c ELSE Rpm(Tail(a), Tail(b))
RhHasEpoch(t) == Pos(t, COLON) # {}
RhEpoch(t) == IF RhHasEpoch(t) THEN t[1].c ELSE <<0>>
RhRest(t) == IF RhHasEpoch(t) THEN From(t, SMin(Pos(t, COLON)) + 1) ELSE t
RhHasRel(t) == Pos(RhRest(t), HYP) # {}
RhVer(t) == LET r == RhRest(t) p == Pos(r, HYP) IN IF p = {} THEN r ELSE SubSeq(r, 1, SMin(p) - 1)
RhRel(t) == LET r == RhRest(t) IN From(r, SMin(Pos(r, HYP)) + 1)
RhTok(x) == IsN(x) \/ IsA(x) \/ IsSIn(x, {DOT, USC, PLUS, TILDE, CARET})
RhPartOK(p) == p # <<>> /\ (IsN(p[1]) \/ IsA(p[1])) /\ AllTok(p, RhTok)
Valid_redhat(t) ==
  /\ RhHasEpoch(t) => Len(t) >= 3 /\ IsN(t[1]) /\ IsS(t[2], COLON) /\ Cardinality(Pos(t, COLON)) = 1
  /\ RhPartOK(RhVer(t))
  /\ RhHasRel(t) => RhPartOK(RhRel(t))
Key_redhat(t) == [ep |-> RhEpoch(t), ver |-> RhVer(t), hasRel |-> RhHasRel(t), rel |-> IF RhHasRel(t) THEN RhRel(t) ELSE <<>>]
KCmp_redhat(a, b) ==
  LET e == NumCmp(a.ep, b.ep)
      v == Rpm(a.ver, b.ver)
  IN IF e # 0 THEN e ELSE IF v # 0 THEN v
     ELSE IF a.hasRel /\ b.hasRel THEN Rpm(a.rel, b.rel)
     ELSE IF a.hasRel THEN 1 ELSE IF b.hasRel THEN -1 ELSE 0
RhVers == { <<n1, Dot, n0>>, <<n1, Dot, n0, Dot, n0>>, <<n1, Dot, n1>>, <<n1, Dot, n01>>, <<n1, Dot, n10>>, <<n2, Dot, n0>>, <<n1>>,
   <<n1, Dot, n0, Wd(<<"a">>)>>, <<n1, Dot, n0, Dot, Wd(<<"a">>)>>, <<n1, Dot, n0, Wd(<<"a","a">>)>>, <<n1, Dot, n0, Wd(<<"b">>), n1>>,
   <<n1, Dot, n0, Wd(<<"A">>)>>, <<n1, Dot, n0, Dot, Wd(<<"r","c">>), n1>>, <<n1, Dot, n0, Tilde, Wd(<<"r","c">>), n1>>,
   <<n1, Dot, n0, Tilde, Wd(<<"r","c">>), n2>>, <<n1, Dot, n0, Tilde>>, <<n1, Dot, n0, Tilde, Tilde>>, <<n1, Dot, n0, Caret>>,
   <<n1, Dot, n0, Caret, n1>>, <<n1, Dot, n0, Caret, Wd(<<"g","i","t">>), n1>>, <<n1, Dot, n0, Caret, n1, Tilde>>, <<n1, Dot, n0, Tilde, Caret>>,
   <<n1, Dot, n0, Usc, n1>>, <<n1, Dot, n0, Plus, n1>>, <<n1, Usc, n0>>, <<n1, Dot, nH>>, <<n1, Dot, nH1>>, <<Wd(<<"a">>)>>, <<Wd(<<"a">>), n1>>,
   <<Wd(<<"a">>), Dot, n1>>, <<n1, Dot, n0, Dot>> }
RhRels == { <<>>, <<Hyp, n1>>, <<Hyp, n2>>, <<Hyp, n10>>, <<Hyp, n1, Dot, Wd(<<"e","l">>), n9>>, <<Hyp, n1, Dot, Wd(<<"e","l">>), n10>>,
   <<Hyp, n1, Dot, Wd(<<"e","l">>), n9, Usc, n1>>, <<Hyp, n0, Dot, n1, Tilde, Wd(<<"r","c">>)>>, <<Hyp, n01>> }
Gen_redhat == {v \o r : v \in RhVers, r \in RhRels}
              \cup {<<e, Colon>> \o v \o r : e \in {n0, n1, n01, n2, nH}, v \in {<<n1, Dot, n0>>, <<n2, Dot, n0>>, <<n1, Dot, n0, Tilde>>}, r \in {<<>>, <<Hyp, n1>>}}

-----------------------------------------------------------------------------
(* ---- Alpine (apk-tools version.c, apk-package(5)) ----
   number{.number}{letter}{_suffix{number}}{-r#}   (the ~hash part is not explored).
   Order: numeric components left to right; then the letter (none < a < .. < z); then the
   suffixes: alpha < beta < pre < rc < (no suffix) < cvs < svn < git < hg < p, each with its
   number; then the revision.  When one version simply stops where the other continues, the token
   kinds decide: a further number / letter / post-suffix / revision makes the longer one newer, a
   further pre-suffix makes it older.
   CANONICAL SUBSET: exactly three numeric components without leading zeros, every suffix carries
   its number, the revision -rN is always present (as in every Alpine package version).  Outside
   it apk-tools releases disagree with each other (see the notes in the repository's fixture). *)
ApSufWords == <<W(<<"a","l","p","h","a">>), W(<<"b","e","t","a">>), W(<<"p","r","e">>), W(<<"r","c">>), <<>>,
                W(<<"c","v","s">>), W(<<"s","v","n">>), W(<<"g","i","t">>), W(<<"h","g">>), W(<<"p">>)>>
ApSufIdx(w) == IF \E i \in 1..10 : ApSufWords[i] = w THEN CHOOSE i \in 1..10 : ApSufWords[i] = w ELSE 0
RECURSIVE ApNumEnd(_, _)
ApNumEnd(t, i) == IF i + 2 <= Len(t) /\ IsS(t[i + 1], DOT) /\ IsN(t[i + 2]) THEN ApNumEnd(t, i + 2) ELSE i
RECURSIVE ApSufs(_, _)      \* <<suffixes as <<idx, digits>>, next index>>; a suffix without number has digits <<>>
ApSufs(t, i) ==
  IF i + 1 <= Len(t) /\ IsS(t[i], USC) /\ IsA(t[i + 1]) /\ ApSufIdx(t[i + 1].c) \notin {0, 5}
  THEN LET hasN == i + 2 <= Len(t) /\ IsN(t[i + 2])
           rest == ApSufs(t, IF hasN THEN i + 3 ELSE i + 2)
       IN <<<< <<ApSufIdx(t[i + 1].c), IF hasN THEN t[i + 2].c ELSE <<>> >> >> \o rest[1], rest[2]>>
  ELSE <<<<>>, i>>
ApParse(t) ==
  LET n == Len(t)
      ok0 == n >= 1 /\ IsN(t[1])
      ne == IF ok0 THEN ApNumEnd(t, 1) ELSE 1
      nums == [i \in 1..((ne + 1) \div 2) |-> t[2 * i - 1].c]
      hasL == ne + 1 <= n /\ IsA(t[ne + 1]) /\ Len(t[ne + 1].c) = 1 /\ ~IsUp(t[ne + 1].c[1])
      i1 == IF hasL THEN ne + 2 ELSE ne + 1
      sf == ApSufs(t, i1)
      i2 == sf[2]
      hasR == i2 + 2 <= n /\ IsS(t[i2], HYP) /\ IsA(t[i2 + 1]) /\ t[i2 + 1].c = W(<<"r">>) /\ IsN(t[i2 + 2])
      i3 == IF hasR THEN i2 + 3 ELSE i2
  IN [ok |-> ok0 /\ i3 = n + 1, nums |-> IF ok0 THEN nums ELSE <<>>, letter |-> IF hasL THEN t[ne + 1].c[1] ELSE 0,
      sufs |-> sf[1], hasR |-> hasR, rev |-> IF hasR THEN t[i2 + 2].c ELSE <<>>]
Valid_alpine(t) == ApParse(t).ok
Canon_alpine(t) == LET p == ApParse(t) IN
  /\ p.ok /\ Len(p.nums) = 3 /\ \A i \in 1..3 : NoLZ(p.nums[i])
  /\ \A i \in 1..Len(p.sufs) : p.sufs[i][2] # <<>>
  /\ p.hasR
RECURSIVE ApNumsCmp(_, _)     \* a proper prefix is older (a further number makes the longer one newer)
ApNumsCmp(x, y) == IF x = <<>> THEN (IF y = <<>> THEN 0 ELSE -1)
                   ELSE IF y = <<>> THEN 1
                   ELSE LET c == NumCmp(Head(x), Head(y)) IN IF c # 0 THEN c ELSE ApNumsCmp(Tail(x), Tail(y))
RECURSIVE ApSufsCmp(_, _)
ApSufsCmp(x, y) ==
  IF x = <<>> /\ y = <<>> THEN 0
  ELSE IF x = <<>> THEN (IF Head(y)[1] < 5 THEN 1 ELSE -1)
  ELSE IF y = <<>> THEN (IF Head(x)[1] < 5 THEN -1 ELSE 1)
  ELSE LET a == Head(x) b == Head(y) IN
       IF a[1] # b[1] THEN Sign(a[1] - b[1])
       ELSE IF a[2] = <<>> /\ b[2] # <<>> THEN -1          \* a number token continues the longer one
       ELSE IF a[2] # <<>> /\ b[2] = <<>> THEN 1
       ELSE LET c == NumCmp(a[2], b[2]) IN IF c # 0 THEN c ELSE ApSufsCmp(Tail(x), Tail(y))
Key_alpine(t) == ApParse(t)
KCmp_alpine(p, q) ==
  LET c1 == ApNumsCmp(p.nums, q.nums)
      c2 == Sign(p.letter - q.letter)
      c3 == ApSufsCmp(p.sufs, q.sufs)
  IN IF c1 # 0 THEN c1 ELSE IF c2 # 0 THEN c2 ELSE IF c3 # 0 THEN c3
     ELSE IF p.hasR /\ q.hasR THEN NumCmp(p.rev, q.rev) ELSE IF p.hasR THEN 1 ELSE IF q.hasR THEN -1 ELSE 0
ApS(w, n) == <<Usc, Wd(w), n>>
ApCores == {<<n1, Dot, n0, Dot, n0>>, <<n1, Dot, n0, Dot, n1>>, <<n1, Dot, n2, Dot, n0>>, <<n1, Dot, n10, Dot, n0>>, <<n2, Dot, n0, Dot, n0>>,
            <<n0, Dot, n9, Dot, n9>>, <<n1, Dot, n0, Dot, nH>>, <<nH, Dot, n0, Dot, n0>>}
ApMids == { <<>>, <<Wd(<<"a">>)>>, <<Wd(<<"b">>)>>, <<Wd(<<"z">>)>>,
   ApS(<<"a","l","p","h","a">>, n1), ApS(<<"a","l","p","h","a">>, n2), ApS(<<"b","e","t","a">>, n1), ApS(<<"p","r","e">>, n1), ApS(<<"r","c">>, n1),
   ApS(<<"r","c">>, n2), ApS(<<"r","c">>, n10), ApS(<<"r","c">>, nH), ApS(<<"c","v","s">>, n1), ApS(<<"s","v","n">>, n1), ApS(<<"g","i","t">>, n1),
   ApS(<<"h","g">>, n1), ApS(<<"p">>, n1), ApS(<<"p">>, n2), ApS(<<"p">>, n0), ApS(<<"r","c">>, n0),
   ApS(<<"r","c">>, n1) \o ApS(<<"p">>, n1), ApS(<<"p">>, n1) \o ApS(<<"r","c">>, n1), ApS(<<"a","l","p","h","a">>, n1) \o ApS(<<"g","i","t">>, n2),
   <<Wd(<<"a">>)>> \o ApS(<<"r","c">>, n1), <<Wd(<<"a">>)>> \o ApS(<<"p">>, n1), <<Wd(<<"b">>)>> \o ApS(<<"a","l","p","h","a">>, n1) }
ApRevs == {<<Hyp, Wd(<<"r">>), n0>>, <<Hyp, Wd(<<"r">>), n1>>, <<Hyp, Wd(<<"r">>), n10>>}
Gen_alpine == {c \o m \o r : c \in {<<n1, Dot, n0, Dot, n0>>, <<n1, Dot, n2, Dot, n0>>}, m \in ApMids, r \in ApRevs}
              \cup {c \o m \o r : c \in ApCores, m \in {<<>>, <<Wd(<<"a">>)>>, ApS(<<"r","c">>, n1), ApS(<<"p">>, n1)}, r \in {<<Hyp, Wd(<<"r">>), n0>>, <<Hyp, Wd(<<"r">>), nH>>}}

-----------------------------------------------------------------------------
(* ---- Packagist (PHP version_compare, as used by Composer) ----
   Canonicalisation: "-", "_", "+" become "."; a "." is inserted at every digit/non-digit
   transition; a leading v/V is dropped (Composer).  Parts are compared left to right: numbers
   numerically; special forms in the order  (unknown) < dev < alpha = a < beta = b < RC = rc < # <
   pl = p, where a number counts as "#" against a form and forms are recognised by prefix.  When one
   runs out of parts: the longer is newer if its next part is a number, else its next form is
   compared with "#".
   Grammar: [v]N(.N)*[[sep]form[[sep]N]], form in {dev, alpha, a, beta, b, RC, rc, pl, p}.
   CANONICAL SUBSET: exactly three numeric components (Composer pads 1.0 to 1.0.0.0 before
   comparing, version_compare does not - no claim is made across different arities). *)
PkSeps == {DOT, HYP, USC, PLUS}
PkForms == {W(<<"d","e","v">>), W(<<"a","l","p","h","a">>), W(<<"a">>), W(<<"b","e","t","a">>), W(<<"b">>), W(<<"R","C">>), W(<<"r","c">>),
            W(<<"p","l">>), W(<<"p">>)}
HasPrefix(w, p) == Len(w) >= Len(p) /\ SubSeq(w, 1, Len(p)) = p
PkOrder(w) == IF HasPrefix(w, W(<<"d","e","v">>)) THEN 0 ELSE IF HasPrefix(w, W(<<"a">>)) THEN 1 ELSE IF HasPrefix(w, W(<<"b">>)) THEN 2
              ELSE IF HasPrefix(w, W(<<"R","C">>)) \/ HasPrefix(w, W(<<"r","c">>)) THEN 3 ELSE IF HasPrefix(w, W(<<"p">>)) THEN 5 ELSE -1
PkBody(t) == IF Len(t) > 0 /\ IsA(t[1]) /\ Lower(t[1].c) = <<118>> THEN Tail(t) ELSE t
PkParse(t0) ==
  LET t == PkBody(t0)
      n == Len(t)
      ok0 == n >= 1 /\ IsN(t[1])
      ne == IF ok0 THEN ApNumEnd(t, 1) ELSE 1
      j == IF ne + 1 <= n /\ IsSIn(t[ne + 1], PkSeps) THEN ne + 2 ELSE ne + 1
      hasF == j <= n /\ IsA(t[j]) /\ t[j].c \in PkForms
      k == IF ~hasF THEN ne
           ELSE IF j + 2 <= n /\ IsSIn(t[j + 1], PkSeps) /\ IsN(t[j + 2]) THEN j + 2
           ELSE IF j + 1 <= n /\ IsN(t[j + 1]) THEN j + 1 ELSE j
  IN [ok |-> ok0 /\ k = n, arity |-> (ne + 1) \div 2]
Valid_packagist(t) == PkParse(t).ok
Canon_packagist(t) == PkParse(t).ok /\ PkParse(t).arity = 3
RECURSIVE PkCmpParts(_, _)
PkCmpParts(x, y) ==
  IF x = <<>> /\ y = <<>> THEN 0
  ELSE IF y = <<>> THEN (IF IsN(Head(x)) THEN 1 ELSE Sign(PkOrder(Head(x).c) - 4))
  ELSE IF x = <<>> THEN (IF IsN(Head(y)) THEN -1 ELSE Sign(4 - PkOrder(Head(y).c)))
  ELSE LET a == Head(x) b == Head(y)
           c == IF IsN(a) /\ IsN(b) THEN NumCmp(a.c, b.c)
                ELSE Sign((IF IsN(a) THEN 4 ELSE PkOrder(a.c)) - (IF IsN(b) THEN 4 ELSE PkOrder(b.c)))
       IN IF c # 0 THEN c ELSE PkCmpParts(Tail(x), Tail(y))
Key_packagist(t) == RgSegs(PkBody(t))
KCmp_packagist(a, b) == PkCmpParts(a, b)
PkCores == {<<n1, Dot, n0, Dot, n0>>, <<n1, Dot, n0, Dot, n1>>, <<n1, Dot, n2, Dot, n0>>, <<n1, Dot, n10, Dot, n0>>, <<n2, Dot, n0, Dot, n0>>,
            <<n1, Dot, n0, Dot, n01>>, <<n0, Dot, n9, Dot, n9>>, <<n1, Dot, n0, Dot, nH>>, <<nH, Dot, n0, Dot, n0>>}
PkTails == { <<>>, <<Hyp, Wd(<<"d","e","v">>)>>, <<Hyp, Wd(<<"a","l","p","h","a">>)>>, <<Hyp, Wd(<<"a","l","p","h","a">>), n1>>, <<Hyp, Wd(<<"a","l","p","h","a">>), n2>>,
   <<Hyp, Wd(<<"a","l","p","h","a">>), Dot, n1>>, <<Wd(<<"a">>), n1>>, <<Hyp, Wd(<<"a">>), n2>>, <<Hyp, Wd(<<"b","e","t","a">>), n1>>, <<Wd(<<"b">>), n1>>, <<Hyp, Wd(<<"b","e","t","a">>)>>,
   <<Hyp, Wd(<<"R","C">>), n1>>, <<Hyp, Wd(<<"r","c">>), n1>>, <<Wd(<<"R","C">>), n2>>, <<Hyp, Wd(<<"R","C">>)>>, <<Usc, Wd(<<"r","c">>), n10>>, <<Hyp, Wd(<<"r","c">>), nH>>,
   <<Hyp, Wd(<<"p","l">>), n1>>, <<Wd(<<"p">>), n1>>, <<Hyp, Wd(<<"p">>), n2>>, <<Plus, Wd(<<"p","l">>)>>, <<Hyp, Wd(<<"d","e","v">>), n1>>, <<Dot, Wd(<<"d","e","v">>)>> }
Gen_packagist == {c \o x : c \in {<<n1, Dot, n0, Dot, n0>>, <<n1, Dot, n2, Dot, n0>>, <<n1, Dot, n0, Dot, n1>>}, x \in PkTails}
                 \cup {c \o x : c \in PkCores, x \in {<<>>, <<Hyp, Wd(<<"R","C">>), n1>>, <<Hyp, Wd(<<"p","l">>), n1>>, <<Hyp, Wd(<<"d","e","v">>)>>}}
                 \cup {<<Wd(<<"v">>)>> \o c \o x : c \in {<<n1, Dot, n0, Dot, n0>>}, x \in {<<>>, <<Hyp, Wd(<<"b","e","t","a">>), n1>>}}

-----------------------------------------------------------------------------
(* ---- dispatch ---- *)
Valid(e, t) == CASE e = "semver" -> Valid_semver(t) [] e = "nuget" -> Valid_nuget(t) [] e = "debian" -> Valid_debian(t)
                 [] e = "cran" -> Valid_cran(t) [] e = "pypi" -> Valid_pypi(t) [] e = "maven" -> Valid_maven(t)
                 [] e = "rubygems" -> Valid_rubygems(t) [] e = "redhat" -> Valid_redhat(t) [] e = "alpine" -> Valid_alpine(t)
                 [] e = "packagist" -> Valid_packagist(t)
Canon(e, t) == CASE e = "maven" -> Canon_maven(t) [] e = "alpine" -> Canon_alpine(t) [] e = "packagist" -> Canon_packagist(t)
                 [] OTHER -> Valid(e, t)
Key(e, t) == CASE e = "semver" -> Key_semver(t) [] e = "nuget" -> Key_nuget(t) [] e = "debian" -> Key_debian(t)
               [] e = "cran" -> Key_cran(t) [] e = "pypi" -> Key_pypi(t) [] e = "maven" -> Key_maven(t)
               [] e = "rubygems" -> Key_rubygems(t) [] e = "redhat" -> Key_redhat(t) [] e = "alpine" -> Key_alpine(t)
               [] e = "packagist" -> Key_packagist(t)
KCmp(e, a, b) == CASE e = "semver" -> KCmp_semver(a, b) [] e = "nuget" -> KCmp_nuget(a, b) [] e = "debian" -> KCmp_debian(a, b)
                  [] e = "cran" -> KCmp_cran(a, b) [] e = "pypi" -> KCmp_pypi(a, b) [] e = "maven" -> KCmp_maven(a, b)
                  [] e = "rubygems" -> KCmp_rubygems(a, b) [] e = "redhat" -> KCmp_redhat(a, b) [] e = "alpine" -> KCmp_alpine(a, b)
                  [] e = "packagist" -> KCmp_packagist(a, b)
\* the published comparison of two versions of family e
Cmp(e, a, b) == KCmp(e, Key(e, a), Key(e, b))
Gen(e) == CASE e = "semver" -> Gen_semver [] e = "nuget" -> Gen_nuget [] e = "debian" -> Gen_debian [] e = "cran" -> Gen_cran
            [] e = "pypi" -> Gen_pypi [] e = "maven" -> Gen_maven [] e = "rubygems" -> Gen_rubygems [] e = "redhat" -> Gen_redhat
            [] e = "alpine" -> Gen_alpine [] e = "packagist" -> Gen_packagist

\* fixture versions that lie in the canonical grammar (the others are outside every claim)
FixCanon(e) == {t \in Fix[e] : IF Wide /\ e = "maven" THEN Wide_maven(t) ELSE Canon(e, t)}
MavenDotQ == [e \in AllEcos |-> IF e = "maven" THEN {<<n2>>, <<n2, Dot, Wd(<<"a">>)>>, <<n2, Hyp, Wd(<<"a","l","p","h","a">>)>>} ELSE {}]
\* the domain on which Cmp(e) is checked and ranked: enumerated once, addressed by index, keys parsed once
OEcos == IF Mode = "strings" THEN {} ELSE Ecos          \* no tables in strings mode
Dom == TLCEval([e \in OEcos |-> SetToSeq(Gen(e) \cup FixCanon(e))])
N(e) == Len(Dom[e])
Keys == TLCEval([e \in OEcos |-> [i \in 1..N(e) |-> Key(e, Dom[e][i])]])
\* the comparison table of the domain, computed once: Mx[e][i][j] = Cmp(e, Dom[e][i], Dom[e][j])
Mx == TLCEval([e \in OEcos |-> [i \in 1..N(e) |-> [j \in 1..N(e) |-> KCmp(e, Keys[e][i], Keys[e][j])]]])
C(e, i, j) == Mx[e][i][j]
\* rank = number of strictly smaller versions; sign(Rank[a] - Rank[b]) = Cmp(a, b) for all a, b iff Cmp is a total preorder
Rank == TLCEval([e \in OEcos |-> [i \in 1..N(e) |-> Cardinality({j \in 1..N(e) : C(e, j, i) < 0})]])

-----------------------------------------------------------------------------
(* ---- state machine ----
   oracle mode: pick a family, then a version a (emitted with its rank), then a version b.
   strings mode: append symbols of the 16-symbol alphabet; maximal runs merge into tokens. *)
VARIABLES phase, eco, ia, ib, syms
vars == <<phase, eco, ia, ib, syms>>

Symbols == {n0, n1, n2, n10, n00, nH, Wd(<<"a">>), Wd(<<"r","c">>), Dot, Hyp, Plus, Tilde, Colon, Usc, Bang, Space}
RECURSIVE Merge(_)            \* symbol sequence -> token sequence (adjacent digit / letter symbols form one token)
Merge(s) == IF Len(s) <= 1 THEN s
            ELSE LET m == Merge(SubSeq(s, 1, Len(s) - 1))
                     l == m[Len(m)]
                     x == s[Len(s)]
                 IN IF l.k = x.k /\ x.k # "s" THEN SubSeq(m, 1, Len(m) - 1) \o <<[k |-> x.k, c |-> l.c \o x.c]>> ELSE Append(m, x)

Init == /\ phase = "start" /\ eco = "" /\ ia = 0 /\ ib = 0 /\ syms = <<>>
PickEco(e) == phase = "start" /\ Mode = "oracle" /\ eco' = e /\ phase' = "eco" /\ UNCHANGED <<ia, ib, syms>>
PickA(i) == phase = "eco" /\ ia' = i /\ phase' = "a" /\ UNCHANGED <<eco, ib, syms>>
PickB(i) == phase = "a" /\ ib' = i /\ phase' = "ab" /\ UNCHANGED <<eco, ia, syms>>
AddSym(x) == Mode = "strings" /\ Len(syms) < MaxSyms /\ syms' = Append(syms, x) /\ phase' = "str" /\ UNCHANGED <<eco, ia, ib>>
Next == \/ \E e \in OEcos : PickEco(e)
        \/ \E i \in (IF phase = "eco" THEN 1..N(eco) ELSE {}) : PickA(i)
        \/ \E i \in (IF phase = "a" THEN 1..N(eco) ELSE {}) : PickB(i)
        \/ \E x \in Symbols : AddSym(x)
Spec == Init /\ [][Next]_vars

-----------------------------------------------------------------------------
(* ---- properties of the model (they validate the oracle) ---- *)
\* every enumerated version is canonical, hence grammatical; the cached key is the key
GenIsCanon == phase = "a" => Canon(eco, Dom[eco][ia]) /\ Valid(eco, Dom[eco][ia])
Reflexive == phase = "a" => C(eco, ia, ia) = 0 /\ Cmp(eco, Dom[eco][ia], Dom[eco][ia]) = 0
\* the table is the comparison (spot check of the caching: the cyclic successor of a)
TableIsCmp == phase = "a" => LET j == (ia % N(eco)) + 1 IN C(eco, ia, j) = Cmp(eco, Dom[eco][ia], Dom[eco][j])
AntiSym == phase = "a" => \A j \in 1..N(eco) : C(eco, ia, j) \in {-1, 0, 1} /\ C(eco, ia, j) = -C(eco, j, ia)
\* Cmp is represented by the rank function: equivalent to "total preorder", and cheap to check
RankRepresents == phase = "a" => \A j \in 1..N(eco) : C(eco, ia, j) = Sign(Rank[eco][ia] - Rank[eco][j])
\* the same stated directly on all triples: states (a,b), quantified c
Transitive == phase = "ab" /\ C(eco, ia, ib) <= 0 => \A k \in 1..N(eco) : C(eco, ib, k) <= 0 => C(eco, ia, k) <= 0
EqIsEquivalence == phase = "ab" /\ C(eco, ia, ib) = 0 => \A k \in 1..N(eco) : C(eco, ia, k) = C(eco, ib, k)

\* case emission: one record per version of the domain, one per symbol string
OracleCase == [eco |-> eco, tokens |-> Dom[eco][ia], rank |-> Rank[eco][ia],
               gen |-> Dom[eco][ia] \in Gen(eco), fix |-> Dom[eco][ia] \in Fix[eco]]
EmitOracle == phase = "a" => PrintT(ToJson(OracleCase))
StringCase == LET t == Merge(syms) IN
              IF Len(syms) <= FlagSyms THEN [syms |-> syms, valid |-> {e \in Ecos : Valid(e, t)}, canon |-> {e \in Ecos : Canon(e, t)}]
              ELSE [syms |-> syms, valid |-> {}, canon |-> {}]
EmitStrings == phase = "str" => PrintT(ToJson(StringCase))
CanonIsValid == phase = "str" /\ Len(syms) <= FlagSyms => \A e \in Ecos : Canon(e, Merge(syms)) => Valid(e, Merge(syms))

\* sanity (must be violated): the order is not trivial - some version is strictly between two others
Sanity == ~(phase = "a" /\ \E j, k \in 1..N(eco) : C(eco, j, ia) < 0 /\ C(eco, ia, k) < 0)
\* sanity (must be violated): some string is grammatical in one family and not in another
SanityStrings == ~(phase = "str" /\ \E e, f \in Ecos : Valid(e, Merge(syms)) /\ ~Valid(f, Merge(syms)))
=============================================================================
