------------------------------ MODULE OSVRange ------------------------------
(***************************************************************************)
(* C18 - affected-version decisions follow the OSV range rules.            *)
(*                                                                         *)
(* State: a vulnerability record under construction.  A record is a list   *)
(* of "affected" entries; an entry names a package (the queried one, or    *)
(* another package / ecosystem), an explicit version list and a list of    *)
(* ranges; a range has a type and a *listed order* of events.              *)
(*                                                                         *)
(* Declarative part: Affected(rec, q) - the OSV schema's linear evaluation *)
(* over the events in version order.                                       *)
(* Operational part: IsAffectedOp(rec, q) - guidedremediation/internal/    *)
(* vulns/vulns.go:IsAffected step by step (clone, sort with "0" first,     *)
(* Go's slices.BinarySearchFunc with the '"0" => -1' comparator, decision  *)
(* on the exact hit or on the event before the insertion point).           *)
(*                                                                         *)
(* Versions are abstract positions: event versions live on even positions  *)
(* 2,4,..,2*NV; position 0 is the OSV sentinel "0"; queries range over     *)
(* 1..2*NV+1 (odd = strictly between two event versions).                  *)
(***************************************************************************)
EXTENDS Integers, Sequences, FiniteSets, TLC, Json

CONSTANTS NV,         \* number of distinct non-zero event versions
          MaxEvents,  \* max events per range
          MaxRanges,  \* max ranges per affected entry
          MaxAffected,\* max affected entries
          Ecos,       \* ecosystems of the queried package
          RangeTypes, \* subset of {"ECOSYSTEM","SEMVER","GIT"}
          PkgKinds,   \* subset of {"same","otherpkg","othereco"}
          WithVersions, \* BOOLEAN: explore explicit version lists
          Ordered      \* BOOLEAN: TRUE = events are listed in version order only (cuts permutations in the multi-range cfgs)

Kinds == {"introduced", "fixed", "last_affected"}
EvPos == {2 * i : i \in 0..NV}
Queries == 1..(2 * NV + 1)
Event == [k : Kinds, v : EvPos]

VARIABLES cur,      \* events of the range under construction, in listed order
          ranges,   \* closed ranges of the entry under construction: seq of [type, events]
          affected, \* closed affected entries: seq of [pkg, versions, ranges]
          eco       \* ecosystem of the queried package
vars == <<cur, ranges, affected, eco>>

-----------------------------------------------------------------------------
(* ---- helpers on event lists ---- *)
RECURSIVE SortedInsert(_, _)
SortedInsert(s, e) == IF s = <<>> THEN <<e>>
                      ELSE IF e.v < Head(s).v THEN <<e>> \o s
                      ELSE <<Head(s)>> \o SortedInsert(Tail(s), e)
RECURSIVE ByVersion(_)
ByVersion(s) == IF s = <<>> THEN <<>> ELSE SortedInsert(ByVersion(Tail(s)), Head(s))

DistinctVersions(s) == \A i, j \in 1..Len(s) : i # j => s[i].v # s[j].v

\* the property's well-formedness: once ordered, events alternate introduced and
\* fixed/last_affected, starting with introduced; "0" only as an introduced event
WellFormed(s) ==
  LET o == ByVersion(s) IN
  /\ Len(s) >= 1
  /\ DistinctVersions(s)
  /\ \A i \in 1..Len(o) : (i % 2 = 1) <=> (o[i].k = "introduced")
  /\ \A i \in 1..Len(o) : o[i].v = 0 => o[i].k = "introduced"

\* a prefix of something that can still become well-formed
Viable(s) == DistinctVersions(s) /\ \A i \in 1..Len(s) : s[i].v = 0 => s[i].k = "introduced"

-----------------------------------------------------------------------------
(* ---- declarative: the OSV schema's evaluation ---- *)
RECURSIVE Scan(_, _, _)
Scan(o, q, acc) ==
  IF o = <<>> THEN acc
  ELSE LET e == Head(o) IN
       Scan(Tail(o), q,
            IF e.k = "introduced" /\ q >= e.v THEN TRUE
            ELSE IF e.k = "fixed" /\ q >= e.v THEN FALSE
            ELSE IF e.k = "last_affected" /\ q > e.v THEN FALSE
            ELSE acc)
RangeAffects(events, q) == Scan(ByVersion(events), q, FALSE)

TypeApplies(t, e) == t = "ECOSYSTEM" \/ (t = "SEMVER" /\ e = "npm")

EntryAffects(a, q, e) ==
  /\ a.pkg = "same"
  /\ \/ \E k \in 1..Len(a.versions) : a.versions[k] = q
     \/ \E i \in 1..Len(a.ranges) : TypeApplies(a.ranges[i].type, e) /\ RangeAffects(a.ranges[i].events, q)
Affected(rec, q, e) == \E i \in 1..Len(rec) : EntryAffects(rec[i], q, e)

-----------------------------------------------------------------------------
(* ---- operational: vulns.IsAffected ---- *)
\* the sort comparator ("0" first, otherwise version order) yields ByVersion when versions
\* are distinct; the binary search is Go's slices.BinarySearchFunc
CmpEv(e, q) == IF e.v = 0 THEN -1 ELSE IF e.v < q THEN -1 ELSE IF e.v > q THEN 1 ELSE 0
RECURSIVE BSearch(_, _, _, _)
BSearch(x, q, i, j) ==        \* 0-based half-open [i, j)
  IF i < j THEN LET h == (i + j) \div 2 IN
                IF CmpEv(x[h + 1], q) < 0 THEN BSearch(x, q, h + 1, j) ELSE BSearch(x, q, i, h)
  ELSE i
RangeOp(events, q) ==
  LET x == ByVersion(events)
      n == Len(x)
      idx == BSearch(x, q, 0, n)
      exact == idx < n /\ CmpEv(x[idx + 1], q) = 0
  IN IF exact THEN x[idx + 1].k \in {"introduced", "last_affected"}
     ELSE idx # 0 /\ x[idx].k = "introduced"
EntryOp(a, q, e) ==
  /\ a.pkg = "same"
  /\ \/ \E k \in 1..Len(a.versions) : a.versions[k] = q
     \/ \E i \in 1..Len(a.ranges) :
          /\ a.ranges[i].type = "ECOSYSTEM" \/ (a.ranges[i].type = "SEMVER" /\ e = "npm")
          /\ RangeOp(a.ranges[i].events, q)
IsAffectedOp(rec, q, e) == \E i \in 1..Len(rec) : EntryOp(rec[i], q, e)

-----------------------------------------------------------------------------
(* ---- scenario construction ---- *)
Init == cur = <<>> /\ ranges = <<>> /\ affected = <<>> /\ eco \in Ecos

AddEvent(e) == /\ Len(cur) < MaxEvents /\ Len(affected) < MaxAffected /\ Len(ranges) < MaxRanges
               /\ Viable(Append(cur, e))
               /\ IF Ordered /\ cur # <<>> THEN cur[Len(cur)].v < e.v ELSE TRUE
               /\ cur' = Append(cur, e)
               /\ UNCHANGED <<ranges, affected, eco>>
CloseRange(t) == /\ WellFormed(cur)
                 /\ ranges' = Append(ranges, [type |-> t, events |-> cur])
                 /\ cur' = <<>>
                 /\ UNCHANGED <<affected, eco>>
\* explicit lists are sequences: the record lists them in any order (version order, reverse, neither)
VersionLists == IF WithVersions THEN {<<>>, <<2>>, <<3>>, <<3, 2>>, <<1, 3>>, <<3, 1, 2>>} ELSE {<<>>}
CloseAffected(p, vs) == /\ cur = <<>> /\ Len(affected) < MaxAffected
                        /\ (ranges # <<>> \/ vs # <<>>)
                        /\ affected' = Append(affected, [pkg |-> p, versions |-> vs, ranges |-> ranges])
                        /\ ranges' = <<>>
                        /\ UNCHANGED <<cur, eco>>
Next == \/ \E e \in Event : AddEvent(e)
        \/ \E t \in RangeTypes : CloseRange(t)
        \/ \E p \in PkgKinds, vs \in VersionLists : CloseAffected(p, vs)
Spec == Init /\ [][Next]_vars

Complete == cur = <<>> /\ ranges = <<>> /\ affected # <<>>

-----------------------------------------------------------------------------
(* ---- properties ---- *)
\* C18 on the model: the sort + binary-search decision equals the OSV evaluation
OpEqualsDecl == Complete => \A q \in Queries : IsAffectedOp(affected, q, eco) = Affected(affected, q, eco)
\* records for other packages / ecosystems never match
OtherNeverMatches == Complete /\ (\A i \in 1..Len(affected) : affected[i].pkg # "same")
                       => \A q \in Queries : ~IsAffectedOp(affected, q, eco)
\* per range (every listed order of every well-formed event list)
RangeOpEqualsDecl == WellFormed(cur) => \A q \in Queries : RangeOp(cur, q) = RangeAffects(cur, q)

\* case emission for replay (binding A): one case per complete record
Case == [eco |-> eco, affected |-> affected,
         expect |-> [q \in Queries |-> Affected(affected, q, eco)]]
Emit == Complete => PrintT(ToJson(Case))
\* sanity (must be violated): some record is affected somewhere and unaffected elsewhere
Sanity == ~(Complete /\ (\E q \in Queries : Affected(affected, q, eco)) /\ (\E q \in Queries : ~Affected(affected, q, eco)))
=============================================================================
