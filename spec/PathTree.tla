------------------------------ MODULE PathTree ------------------------------
(***************************************************************************)
(* artifact/image/pathtree: the path-keyed tree under every image view     *)
(* (mechanism "path tree insert/get/children/remove" of C04).              *)
(*                                                                         *)
(* State: which structural nodes exist and which of them hold a value.     *)
(* Actions = the public operations, transcribed from pathtree.go:          *)
(*   Insert(p,v) creates the nodes on the way; fails if p holds a value    *)
(*   Remove(p)   clears the value, then walks up deleting the node from    *)
(*               its parent while that parent has no other children, but   *)
(*               never the top-level node below the root                   *)
(* Observations after every step: Get of every path, GetChildren of every  *)
(* path (values of direct children that hold one), Walk (all valued nodes).*)
(***************************************************************************)
EXTENDS Integers, Sequences, FiniteSets, TLC, Json

CONSTANTS MaxOps, Vals

Root == "/"
Paths == {"/", "/a", "/a/b", "/a/b/c", "/a/d", "/e"}
Parent == [p \in Paths \ {Root} |-> CASE p = "/a" -> Root [] p = "/a/b" -> "/a" [] p = "/a/b/c" -> "/a/b"
                                        [] p = "/a/d" -> "/a" [] p = "/e" -> Root]
RECURSIVE Anc(_)
Anc(p) == IF p = Root THEN {} ELSE {Parent[p]} \cup Anc(Parent[p])          \* proper ancestors incl. the root
Kids(S, p) == {q \in S \ {Root} : Parent[q] = p}
RECURSIVE Desc(_, _)
Desc(S, p) == LET k == Kids(S, p) IN k \cup UNION {Desc(S, q) : q \in k}
None == 0

VARIABLES nodes,   \* structural nodes that exist (always contains the root, closed under Parent)
          val,     \* Paths -> value or None
          hist     \* the operations so far with their results and the observations after them
vars == <<nodes, val, hist>>

Obs(ns, vl) == [get |-> [p \in Paths |-> IF p \in ns THEN vl[p] ELSE None],
                children |-> [p \in Paths |-> IF p \in ns THEN {<<q, vl[q]>> : q \in {x \in Kids(ns, p) : vl[x] # None}} ELSE {}],
                haschildren |-> [p \in Paths |-> p \in ns],
                walk |-> {p \in ns : vl[p] # None}]

Init == nodes = {Root} /\ val = [p \in Paths |-> None] /\ hist = <<>>

Insert(p, v) ==
  /\ Len(hist) < MaxOps
  /\ IF p \in nodes /\ val[p] # None /\ p # Root
     THEN /\ UNCHANGED <<nodes, val>>                                      \* ErrNodeAlreadyExists (the root is simply overwritten)
          /\ hist' = Append(hist, [op |-> "insert", p |-> p, v |-> v, err |-> TRUE, obs |-> Obs(nodes, val)])
     ELSE LET ns == nodes \cup {p} \cup Anc(p)
              vl == [val EXCEPT ![p] = v]
          IN /\ nodes' = ns /\ val' = vl
             /\ hist' = Append(hist, [op |-> "insert", p |-> p, v |-> v, err |-> FALSE, obs |-> Obs(ns, vl)])

\* nodes deleted by Remove(p): the node itself with its subtree, then every ancestor that is left without children,
\* up to but not including the top-level node
RECURSIVE PruneUp(_, _)
PruneUp(ns, q) ==   \* q was just emptied of the child we came from; ns already lacks that child
  IF q = Root \/ Parent[q] = Root THEN ns
  ELSE IF Kids(ns, q) # {} THEN ns
  ELSE PruneUp(ns \ {q}, Parent[q])
Remove(p) ==
  /\ Len(hist) < MaxOps /\ p # Root
  /\ IF p \notin nodes
     THEN /\ UNCHANGED <<nodes, val>>
          /\ hist' = Append(hist, [op |-> "remove", p |-> p, v |-> None, err |-> FALSE, obs |-> Obs(nodes, val)])
     ELSE LET old == val[p]
              ns == IF Parent[p] = Root THEN nodes                           \* a top-level node only loses its value
                    ELSE PruneUp(nodes \ ({p} \cup Desc(nodes, p)), Parent[p])
              vl == [q \in Paths |-> IF q \in ns /\ q # p THEN val[q] ELSE None]
          IN /\ nodes' = ns /\ val' = vl
             /\ hist' = Append(hist, [op |-> "remove", p |-> p, v |-> old, err |-> FALSE, obs |-> Obs(ns, vl)])
Next == (\E p \in Paths, v \in Vals : Insert(p, v)) \/ (\E p \in Paths : Remove(p))
Spec == Init /\ [][Next]_vars

Closed == Root \in nodes /\ \A p \in nodes \ {Root} : Parent[p] \in nodes
OnlyNodesHoldValues == \A p \in Paths : val[p] # None => p \in nodes
\* no valueless, childless node is left below the top level (Remove prunes them; Insert never creates them)
NoDeadBranches == \A p \in nodes \ {Root} : (val[p] = None /\ Kids(nodes, p) = {}) => Parent[p] = Root
Emit == Len(hist) = MaxOps => PrintT(ToJson([ops |-> hist]))
Sanity == ~(Len(hist) = MaxOps /\ \E i \in 1..Len(hist) : hist[i].op = "remove" /\ hist[i].v # None /\ Cardinality(hist[i].obs.walk) >= 1)
=============================================================================
