---------------------------- MODULE ManifestWrite ----------------------------
(***************************************************************************)
(* C13 - manifest writers change exactly the requested requirements.       *)
(*                                                                         *)
(* State: an abstract manifest under construction (a list of entries in    *)
(* document order), then one terminal step that fixes the property         *)
(* definitions (pom.xml), the layout atoms and the update set.             *)
(*                                                                         *)
(* package.json: sections x entries <key class, alias kind, version>.      *)
(*   Declarative: NReqs (what a reader reports: one requirement per key,   *)
(*   devDependencies before optionalDependencies before dependencies,      *)
(*   peerDependencies are not requirements) and NSubst.                    *)
(*   Operational: NWrite - guidedremediation/internal/manifest/npm         *)
(*   readWriter.Write, update by update, section by section (dev, optional,*)
(*   prod) with the origVer comparison and the alreadyMatched flag.        *)
(*                                                                         *)
(* pom.xml: entries <location, section, key, version form> at locations    *)
(*   top / profile p1 (active by default) / profile p2 / local parent pom, *)
(*   sections dependencies / dependencyManagement, property definitions at *)
(*   locations, version forms literal, range, ${ver}, 1.${rev},            *)
(*   ${rev}-jre, ${a}.${b}, and "none" (version managed by a               *)
(*   dependencyManagement entry).                                          *)
(*   Declarative: Eff (Maven interpolation: profile over project over      *)
(*   parent) and MSubst.                                                   *)
(*   Operational, ideal: IdealW - buildPatches as it has to be: a property *)
(*   is rewritten only where it is defined and only if every user of that  *)
(*   definition is updated consistently, otherwise the version text is     *)
(*   replaced.                                                             *)
(*   Operational, as built: ABW - maven/pomxml.go buildPatches + write as  *)
(*   they are (first dependency with the same key wins, property patched   *)
(*   at the dependency's own profile or at the top level of its file,      *)
(*   patches of absent properties dropped).  The differences are the       *)
(*   finding classes K1..K3b; Completeness says there is no other.         *)
(***************************************************************************)
EXTENDS Integers, Sequences, FiniteSets, TLC, Json

CONSTANTS Eco,        \* "npm" | "maven"
          MaxEntries, \* entries per document
          MaxUps,     \* updates per update set
          Keys,       \* key classes in use (npm: name classes; maven: g1 g1c g2 g3)
          Secs,       \* sections in use
          LayoutIdx,  \* indexes into the layout table of the ecosystem
          NAlias,     \* npm: alias kinds in use, subset of {"no","plain","scoped"}
          NNew,       \* npm: indexes of new version strings in use
          MLocs,      \* maven: locations in use, subset of {"top","p1","p2","par"}
          MForms,     \* maven: version forms in use
          MShadow,    \* maven: BOOLEAN, a referenced property may have several visible definitions
          MAdd,       \* maven: BOOLEAN, also explore an added (transitive) dependencyManagement override
          AsBuilt,    \* BOOLEAN: emit/check the as-built transcription as well
          \* deviation constants of the as-built pom.xml writer (TRUE = the code as it is while the finding is not
          \* repaired; FALSE = the repaired behaviour; tools/c13.py sets FALSE for findings listed as fixed)
          DevFirstMatch, \* C13-same-key-first-match: the first declaration with the key wins, whatever its section
          DevLeak,       \* C13-shared-property-leak: a property is rewritten although other requirements read it
          DevPropLoc     \* C13-parent-property-not-updated / C13-shadowed-property-definition: the property is
                         \* patched at the dependency's own profile or file, wherever it is defined

VARIABLES phase, ents, pdefs, lay, ups, add
vars == <<phase, ents, pdefs, lay, ups, add>>

Min(S) == CHOOSE x \in S : \A y \in S : x <= y
IndexOf(seq, x) == CHOOSE i \in 1..Len(seq) : seq[i] = x
RECURSIVE SetToSeq(_)
SetToSeq(S) == IF S = {} THEN <<>> ELSE LET m == Min(S) IN <<m>> \o SetToSeq(S \ {m})
Range(f) == {f[i] : i \in DOMAIN f}

-----------------------------------------------------------------------------
(* ======================= package.json ================================== *)
NSecOrder == <<"dependencies", "devDependencies", "optionalDependencies", "peerDependencies">>
NKeyOrder == <<"dash", "plain", "dotted", "scoped", "scopeddot", "star", "quest", "pipe", "hash">>
NOld == <<"^1.0.0", "~2.1.0">>
NNewTab == <<"^9.9.9", ">=9.0.0 <10.0.0", "9.9.9-\"q\"\\">>
NLayoutTab == <<
  [indent |-> "2sp", order |-> "fwd", nl |-> TRUE,  decoys |-> FALSE, crlf |-> FALSE, empty |-> FALSE],
  [indent |-> "tab", order |-> "rev", nl |-> FALSE, decoys |-> TRUE,  crlf |-> FALSE, empty |-> TRUE],
  [indent |-> "min", order |-> "fwd", nl |-> FALSE, decoys |-> TRUE,  crlf |-> FALSE, empty |-> FALSE],
  [indent |-> "odd", order |-> "rev", nl |-> TRUE,  decoys |-> FALSE, crlf |-> TRUE,  empty |-> TRUE],
  [indent |-> "2sp", order |-> "rev", nl |-> FALSE, decoys |-> TRUE,  crlf |-> TRUE,  empty |-> FALSE],
  [indent |-> "min", order |-> "rev", nl |-> TRUE,  decoys |-> FALSE, crlf |-> FALSE, empty |-> TRUE],
  [indent |-> "tab", order |-> "fwd", nl |-> TRUE,  decoys |-> FALSE, crlf |-> TRUE,  empty |-> FALSE],
  [indent |-> "odd", order |-> "fwd", nl |-> FALSE, decoys |-> TRUE,  crlf |-> FALSE, empty |-> FALSE] >>

NRank(e) == (IndexOf(NSecOrder, e.sec) - 1) * Len(NKeyOrder) + IndexOf(NKeyOrder, e.k)
NEntry == [sec : Secs, k : Keys, al : NAlias, v : {NOld[1], NOld[2]}]

\* what a reader reports: dev before optional before prod; peerDependencies are not requirements
NPrec(s) == CASE s = "devDependencies" -> 1 [] s = "optionalDependencies" -> 2 [] s = "dependencies" -> 3 [] OTHER -> 9
NReadable(E) == {i \in 1..Len(E) : NPrec(E[i].sec) < 9}
NKeysOf(E) == {E[i].k : i \in NReadable(E)}
NEffIdx(E, k) == CHOOSE i \in NReadable(E) : E[i].k = k /\ \A j \in NReadable(E) : E[j].k = k => NPrec(E[i].sec) <= NPrec(E[j].sec)
NVal(e) == <<e.al, e.v>>
NReqs(E) == {[k |-> k, al |-> E[NEffIdx(E, k)].al, v |-> E[NEffIdx(E, k)].v] : k \in NKeysOf(E)}

\* an update is addressed to a requirement (key); its VersionFrom is what the reader reported
NSubst(R, U) == {IF \E u \in Range(U) : u.k = r.k THEN [r EXCEPT !.v = (CHOOSE u \in Range(U) : u.k = r.k).to] ELSE r : r \in R}

\* a document is well formed when one key has one alias kind everywhere, and the second old
\* version only appears next to the first one (symmetry)
NWellFormed(E) ==
  /\ \A i, j \in 1..Len(E) : E[i].k = E[j].k => E[i].al = E[j].al
  /\ \A i \in 1..Len(E) : E[i].v = NOld[2] => \E j \in 1..Len(E) : E[j].k = E[i].k /\ E[j].v = NOld[1]

\* operational: Write, one update, the three section checks in the code's order
NSlot(E, s, k) == {i \in 1..Len(E) : E[i].sec = s /\ E[i].k = k}
RECURSIVE NPass(_, _, _, _, _)
NPass(st, u, from, secs, matched) ==
  IF st.err # "" THEN st
  ELSE IF secs = <<>> THEN (IF matched THEN st ELSE [st EXCEPT !.err = "not found"])
  ELSE LET sl == NSlot(st.E, Head(secs), u.k) IN
       IF sl = {} THEN NPass(st, u, from, Tail(secs), matched)
       ELSE LET i == CHOOSE x \in sl : TRUE IN
            IF NVal(st.E[i]) = from
            THEN NPass([st EXCEPT !.E[i].v = u.to], u, from, Tail(secs), TRUE)
            ELSE IF matched THEN NPass(st, u, from, Tail(secs), matched)
                 ELSE [st EXCEPT !.err = "version mismatch"]
RECURSIVE NWriteSeq(_, _, _)
NWriteSeq(st, U, E0) ==
  IF U = <<>> THEN st
  ELSE LET u == Head(U)
           from == NVal(E0[NEffIdx(E0, u.k)])
       IN NWriteSeq(NPass(st, u, from, <<"devDependencies", "optionalDependencies", "dependencies">>, FALSE), Tail(U), E0)
NWrite(E, U) == NWriteSeq([E |-> E, err |-> ""], U, E)

\* entries that must / may change
NMust(E, U) == {NEffIdx(E, u.k) : u \in Range(U)}
NMay(E, U) == {i \in NReadable(E) : \E u \in Range(U) : u.k = E[i].k /\ NVal(E[i]) = NVal(E[NEffIdx(E, u.k)])} \ NMust(E, U)

NUpdateSets(E) ==
  LET ks == SetToSeq({IndexOf(NKeyOrder, k) : k \in NKeysOf(E)})
      subs == {S \in SUBSET Range(ks) : Cardinality(S) <= MaxUps}
  IN UNION {{[j \in 1..Cardinality(S) |-> [k |-> NKeyOrder[SetToSeq(S)[j]], to |-> NNewTab[f[SetToSeq(S)[j]]]]] : f \in [S -> NNew]} : S \in subs}

-----------------------------------------------------------------------------
(* ========================== pom.xml ==================================== *)
MLocOrder == <<"top", "p1", "p2", "par">>
MSecOrder == <<"deps", "dm">>
MKeyOrder == <<"g1", "g1c", "g2", "g3">>
MNames == {"ver", "rev", "a", "b"}
MLayoutTab == <<
  [indent |-> "2sp", order |-> "fwd", nl |-> TRUE,  comments |-> "none", cdata |-> FALSE, ns |-> "std",      plugins |-> FALSE, decl |-> TRUE,  self |-> FALSE, entities |-> FALSE],
  [indent |-> "tab", order |-> "rev", nl |-> FALSE, comments |-> "some", cdata |-> TRUE,  ns |-> "prefixed", plugins |-> TRUE,  decl |-> TRUE,  self |-> TRUE,  entities |-> TRUE],
  [indent |-> "min", order |-> "fwd", nl |-> FALSE, comments |-> "some", cdata |-> FALSE, ns |-> "none",     plugins |-> TRUE,  decl |-> FALSE, self |-> TRUE,  entities |-> FALSE],
  [indent |-> "odd", order |-> "rev", nl |-> TRUE,  comments |-> "none", cdata |-> TRUE,  ns |-> "std",      plugins |-> FALSE, decl |-> FALSE, self |-> FALSE, entities |-> TRUE],
  [indent |-> "2sp", order |-> "fwd", nl |-> TRUE,  comments |-> "some", cdata |-> TRUE,  ns |-> "none",     plugins |-> TRUE,  decl |-> TRUE,  self |-> FALSE, entities |-> TRUE],
  [indent |-> "2sp", order |-> "fwd", nl |-> TRUE,  comments |-> "leaf", cdata |-> FALSE, ns |-> "std",      plugins |-> FALSE, decl |-> TRUE,  self |-> FALSE, entities |-> FALSE] >>

MRank(e) == ((IndexOf(MLocOrder, e.loc) - 1) * 2 + IndexOf(MSecOrder, e.sec) - 1) * Len(MKeyOrder) + IndexOf(MKeyOrder, e.k)
MEntry == [loc : MLocs, sec : Secs, k : Keys, f : MForms \cup {"none"}]

Refs(f) == CASE f = "P" -> {"ver"} [] f = "PRE" -> {"rev"} [] f = "SUF" -> {"rev"} [] f = "MID" -> {"rev"} [] f = "TWO" -> {"a", "b"} [] OTHER -> {}
RawOf(f) == CASE f = "lit" -> "1.0" [] f = "rng" -> "[1.0,2.0)" [] f = "P" -> "${ver}" [] f = "PRE" -> "1.${rev}"
              [] f = "SUF" -> "${rev}-jre" [] f = "MID" -> "1.${rev}.0" [] f = "TWO" -> "${a}.${b}" [] OTHER -> ""
\* the new versions explored per form, and the property assignment that produces them (if any)
Tos(f) == CASE f = "lit" -> {"2.0", "2.0-a&b<c"} [] f = "rng" -> {"[2.0,3.0)"} [] f = "P" -> {"2.0"}
            [] f = "PRE" -> {"1.5", "2"} [] f = "SUF" -> {"7-jre", "2"} [] f = "TWO" -> {"2.3", "2"}
            [] f = "MID" -> {"1.5.0", "1.0", "2"}      \* "1.0": literal prefix "1." and suffix ".0" overlap in the new version
            [] OTHER -> {}
\* Sol(f, to): the property assignment under which form f reads as "to" (the solution of the equation
\* f[properties] = to; for ${a}.${b} the split at the first dot), {} if there is none.  Defined for every
\* explored new version, not only the form's own ones: the as-built writer may match an update against
\* another declaration's form.
Sol(f, to) == CASE f = "P" -> {[n |-> "ver", v |-> to]}
                [] f = "PRE" /\ to = "1.5" -> {[n |-> "rev", v |-> "5"]}
                [] f = "SUF" /\ to = "7-jre" -> {[n |-> "rev", v |-> "7"]}
                [] f = "MID" /\ to = "1.5.0" -> {[n |-> "rev", v |-> "5"]}
                [] f = "TWO" /\ to = "2.3" -> {[n |-> "a", v |-> "2"], [n |-> "b", v |-> "3"]}
                [] f = "TWO" /\ to = "2.0" -> {[n |-> "a", v |-> "2"], [n |-> "b", v |-> "0"]}
                [] f = "TWO" /\ to = "1.5" -> {[n |-> "a", v |-> "1"], [n |-> "b", v |-> "5"]}
                [] f = "TWO" /\ to = "2.0-a&b<c" -> {[n |-> "a", v |-> "2"], [n |-> "b", v |-> "0-a&b<c"]}
                [] f = "TWO" /\ to = "[2.0,3.0)" -> {[n |-> "a", v |-> "[2"], [n |-> "b", v |-> "0,3.0)"]}
                [] OTHER -> {}
Solvable(f, to) == Sol(f, to) # {}
\* the value a property definition has in the original document
PV0(d) == CASE d.n = "ver" -> (CASE d.loc = "top" -> "1.0" [] d.loc = "p1" -> "1.1" [] d.loc = "p2" -> "1.2" [] OTHER -> "1.3")
            [] d.n = "a" -> "1"
            [] OTHER -> (CASE d.loc = "top" -> "0" [] d.loc = "p1" -> "1" [] d.loc = "p2" -> "2" [] OTHER -> "3")

\* Maven interpolation as seen from the child project: an active profile's properties over the
\* project's over the parent's; a profile's own properties first for that profile's entries
LookupOrder(loc) == IF loc = "p2" THEN <<"p2", "p1", "top", "par">> ELSE <<"p1", "top", "par">>
RECURSIVE FirstDef(_, _, _)
FirstDef(order, n, D) == IF order = <<>> THEN "undef"
                         ELSE IF [loc |-> Head(order), n |-> n] \in D THEN Head(order) ELSE FirstDef(Tail(order), n, D)
DefLoc(loc, n, D) == FirstDef(LookupOrder(loc), n, D)
Visible(loc) == Range(LookupOrder(loc))

HasVer(E, i) == E[i].f # "none"
Manager(E, i) == Min({j \in 1..Len(E) : E[j].k = E[i].k /\ E[j].sec = "dm"})
Target(E, i) == IF HasVer(E, i) THEN i ELSE Manager(E, i)

MWellFormed(E) ==
  /\ \A i, j \in 1..Len(E) : (i # j /\ E[i].k = E[j].k) => E[i].sec # E[j].sec  \* an address names one entry
  /\ \A i \in 1..Len(E) : E[i].f = "none" =>
        /\ E[i].loc = "top" /\ E[i].sec = "deps"
        /\ \E j \in 1..Len(E) : E[j].k = E[i].k /\ E[j].sec = "dm" /\ E[j].loc # "p2"

\* candidate property definitions for a document
MDefSets(E) ==
  LET used == UNION {Refs(E[i].f) : i \in 1..Len(E)}
      cand == {d \in [loc : MLocs, n : used] :
                 \E i \in 1..Len(E) : d.n \in Refs(E[i].f) /\ d.loc \in Visible(E[i].loc)
                                       /\ (E[i].loc = "par" => d.loc = "par" \/ MShadow)}
      ok(D) == /\ \A i \in 1..Len(E) : \A n \in Refs(E[i].f) :
                     /\ DefLoc(E[i].loc, n, D) # "undef"
                     /\ E[i].loc = "par" => [loc |-> "par", n |-> n] \in D
                     /\ E[i].loc = "p2" => [loc |-> "p1", n |-> n] \notin D
                     /\ ~MShadow => Cardinality({d \in D : d.n = n /\ d.loc \in Visible(E[i].loc)}) = 1
  IN {D \in SUBSET cand : ok(D)}

\* a written document: version text per entry, value per property definition
Doc0(E, D) == [vt |-> [i \in 1..Len(E) |-> RawOf(E[i].f)], pv |-> [d \in D |-> PV0(d)]]
Val(W, loc, n, D) == W.pv[[loc |-> DefLoc(loc, n, D), n |-> n]]
EffOwn(E, D, W, i) ==
  IF W.vt[i] # RawOf(E[i].f) THEN W.vt[i]     \* replaced by a literal
  ELSE CASE E[i].f = "P" -> Val(W, E[i].loc, "ver", D)
         [] E[i].f = "PRE" -> "1." \o Val(W, E[i].loc, "rev", D)
         [] E[i].f = "SUF" -> Val(W, E[i].loc, "rev", D) \o "-jre"
         [] E[i].f = "MID" -> "1." \o Val(W, E[i].loc, "rev", D) \o ".0"
         [] E[i].f = "TWO" -> Val(W, E[i].loc, "a", D) \o "." \o Val(W, E[i].loc, "b", D)
         [] OTHER -> W.vt[i]
Eff(E, D, W, i) == EffOwn(E, D, W, Target(E, i))

\* update sets: sequences (by entry) of [e, to]; two updates with one target agree
TargetsOf(E, U) == {Target(E, u.e) : u \in Range(U)}
ToOf(E, U, t) == (CHOOSE u \in Range(U) : Target(E, u.e) = t).to
MUpdateSets(E) ==
  LET subs == {S \in SUBSET (1..Len(E)) : Cardinality(S) <= MaxUps}
      tosAll == UNION {Tos(f) : f \in MForms}
      ok(S, g) == /\ \A e \in S : g[e] \in Tos(E[Target(E, e)].f)
                  /\ \A e1, e2 \in S : Target(E, e1) = Target(E, e2) => g[e1] = g[e2]
  IN UNION {{[j \in 1..Cardinality(S) |-> [e |-> SetToSeq(S)[j], to |-> g[SetToSeq(S)[j]]]] : g \in {h \in [S -> tosAll] : ok(S, h)}} : S \in subs}

\* declarative: the requirements after the update
MSubst(E, D, U, i) == IF Target(E, i) \in TargetsOf(E, U) THEN ToOf(E, U, Target(E, i)) ELSE Eff(E, D, Doc0(E, D), i)

\* ---- ideal writer ----
Users(E, D, d) == {i \in 1..Len(E) : HasVer(E, i) /\ d.n \in Refs(E[i].f) /\ DefLoc(E[i].loc, d.n, D) = d.loc}
SolOf(E, U, t) == Sol(E[t].f, ToOf(E, U, t))
Rewritable(E, D, U, t) ==
  /\ SolOf(E, U, t) # {}
  /\ \A s \in SolOf(E, U, t) : \A x \in Users(E, D, [loc |-> DefLoc(E[t].loc, s.n, D), n |-> s.n]) :
        /\ x \in TargetsOf(E, U)
        /\ SolOf(E, U, x) # {} => s \in SolOf(E, U, x)
IdealW(E, D, U) ==
  LET T == TargetsOf(E, U)
      W0 == Doc0(E, D)
      rew(d) == {s.v : s \in UNION {{q \in SolOf(E, U, t) : q.n = d.n /\ DefLoc(E[t].loc, q.n, D) = d.loc} : t \in {x \in T : Rewritable(E, D, U, x)}}}
  IN [vt |-> [i \in 1..Len(E) |-> IF i \in T /\ ~Rewritable(E, D, U, i) THEN ToOf(E, U, i) ELSE W0.vt[i]],
      pv |-> [d \in D |-> IF rew(d) # {} THEN CHOOSE v \in rew(d) : TRUE ELSE W0.pv[d]]]
\* values an update may touch: the version text of its target and every definition of a property it mentions
Allowed(E, D, U) ==
  UNION {{"e" \o ToString(t)} \cup {"p:" \o d.loc \o ":" \o d.n : d \in {c \in D : c.n \in Refs(E[t].f)}} : t \in TargetsOf(E, U)}
ChangedIds(E, D, W) ==
  LET W0 == Doc0(E, D) IN
  {"e" \o ToString(i) : i \in {j \in 1..Len(E) : W.vt[j] # W0.vt[j]}} \cup {"p:" \o d.loc \o ":" \o d.n : d \in {c \in D : W.pv[c] # W0.pv[c]}}

\* ---- as-built writer (pomxml.go buildPatches, writeProject, writeDependency) ----
\* OriginalDependency: the first declaration with the key; repaired: the first one in the kind of section the
\* requirement was read from, if there is one
ABTarget(E, u) ==
  LET c == {i \in 1..Len(E) : E[i].k = E[u.e].k /\ HasVer(E, i)}
      pref == {i \in c : (E[i].sec = "dm") = (E[u.e].sec = "dm")}
  IN IF DevFirstMatch \/ pref = {} THEN Min(c) ELSE Min(pref)
TopOf(loc) == IF loc = "par" THEN "par" ELSE "top"
\* where a property patch is written. As built: the dependency's own profile if it defines the property, else the
\* top level of the dependency's file. Repaired: at the single definition, provided the dependency reads it.
DefsOf(D, n) == {d \in D : d.n = n}
DefReadable(E, x, d) == d.loc = TopOf(E[x].loc) \/ d.loc = E[x].loc \/ (E[x].loc # "par" /\ d.loc = "par")
Locatable(E, D, x, n) == Cardinality(DefsOf(D, n)) = 1 /\ DefReadable(E, x, CHOOSE d \in DefsOf(D, n) : TRUE)
WLoc(E, D, x, n) ==
  IF DevPropLoc THEN (IF E[x].loc \in {"p1", "p2"} /\ [loc |-> E[x].loc, n |-> n] \in D THEN E[x].loc ELSE TopOf(E[x].loc))
  ELSE (CHOOSE d \in DefsOf(D, n) : TRUE).loc
\* repaired: a property is rewritten only if every declaration that mentions it is updated by the same call
AllUsersUpdated(E, U0, n) == \A i \in 1..Len(E) : (HasVer(E, i) /\ n \in Refs(E[i].f)) => i \in {ABTarget(E, U0[j]) : j \in 1..Len(U0)}
RECURSIVE ABPlanR(_, _, _, _, _)
ABPlanR(E, D, U, U0, st) ==
  IF U = <<>> THEN st
  ELSE LET u == Head(U)
           x == ABTarget(E, u)
           sol0 == Sol(E[x].f, u.to)
           sol == IF (~DevLeak /\ \E s \in sol0 : ~AllUsersUpdated(E, U0, s.n)) \/ (~DevPropLoc /\ \E s \in sol0 : ~Locatable(E, D, x, s.n))
                  THEN {} ELSE sol0
           preset(s) == {p \in st.pp : p.loc = WLoc(E, D, x, s.n) /\ p.n = s.n}
           conflict == \E s \in sol : \E p \in preset(s) : p.v # s.v
           fresh == {[loc |-> WLoc(E, D, x, s.n), n |-> s.n, v |-> s.v] : s \in {q \in sol : preset(q) = {}}}
       IN ABPlanR(E, D, Tail(U), U0,
                 [dp |-> IF sol = {} \/ conflict THEN st.dp \cup {[i |-> x, to |-> u.to]} ELSE st.dp,
                  pp |-> st.pp \cup fresh])
ABPlan(E, D, U, st) == ABPlanR(E, D, U, U, st)
ABW(E, D, U) ==
  LET plan == ABPlan(E, D, U, [dp |-> {}, pp |-> {}])
      W0 == Doc0(E, D)
  IN [vt |-> [i \in 1..Len(E) |-> IF \E q \in plan.dp : q.i = i THEN (CHOOSE q \in plan.dp : q.i = i).to ELSE W0.vt[i]],
      pv |-> [d \in D |-> IF \E p \in plan.pp : p.loc = d.loc /\ p.n = d.n THEN (CHOOSE p \in plan.pp : p.loc = d.loc /\ p.n = d.n).v ELSE W0.pv[d]]]
ABNondet(E, D, U) == LET plan == ABPlan(E, D, U, [dp |-> {}, pp |-> {}]) IN \E q1, q2 \in plan.dp : q1.i = q2.i /\ q1.to # q2.to

\* ---- finding classes (predicates over scenarios, in terms of the ideal reading) ----
K1(E, D, U) == \E t \in TargetsOf(E, U) : SolOf(E, U, t) # {} /\ ~Rewritable(E, D, U, t)
K2(E, D, U) == \E j \in 1..Len(U) : Min({i \in 1..Len(E) : E[i].k = E[U[j].e].k /\ HasVer(E, i)}) # Target(E, U[j].e)
K3a(E, D, U) == \E t \in TargetsOf(E, U) : \E s \in SolOf(E, U, t) : E[t].loc # "par" /\ DefLoc(E[t].loc, s.n, D) = "par"
K3b(E, D, U) == \E t \in TargetsOf(E, U) : \E s \in SolOf(E, U, t) :
                   /\ (IF E[t].loc \in {"p1", "p2"} /\ [loc |-> E[t].loc, n |-> s.n] \in D THEN E[t].loc ELSE TopOf(E[t].loc)) # DefLoc(E[t].loc, s.n, D)
                   /\ ~(E[t].loc # "par" /\ DefLoc(E[t].loc, s.n, D) = "par")
Devs(E, D, U) == (IF DevLeak /\ K1(E, D, U) THEN {"C13-shared-property-leak"} ELSE {})
            \cup (IF DevFirstMatch /\ K2(E, D, U) THEN {"C13-same-key-first-match"} ELSE {})
            \cup (IF DevPropLoc /\ K3a(E, D, U) THEN {"C13-parent-property-not-updated"} ELSE {})
            \cup (IF DevPropLoc /\ K3b(E, D, U) THEN {"C13-shadowed-property-definition"} ELSE {})

-----------------------------------------------------------------------------
(* ===================== scenario construction =========================== *)
Init == phase = "build" /\ ents = <<>> /\ pdefs = {} /\ lay = 0 /\ ups = <<>> /\ add = ""

Rank(e) == IF Eco = "npm" THEN NRank(e) ELSE MRank(e)
AddEntry(e) == /\ phase = "build" /\ Len(ents) < MaxEntries
               /\ (IF ents = <<>> THEN TRUE ELSE Rank(ents[Len(ents)]) < Rank(e))
               /\ ents' = Append(ents, e)
               /\ UNCHANGED <<phase, pdefs, lay, ups, add>>
FinishNpm(l, U) == /\ phase = "build" /\ ents # <<>> /\ NWellFormed(ents)
                   /\ phase' = "done" /\ lay' = l /\ ups' = U
                   /\ UNCHANGED <<ents, pdefs, add>>
FinishMvn(D, l, U, a) == /\ phase = "build" /\ ents # <<>> /\ MWellFormed(ents)
                         /\ phase' = "done" /\ pdefs' = D /\ lay' = l /\ ups' = U /\ add' = a
                         /\ UNCHANGED ents
Next == IF Eco = "npm"
        THEN \/ \E e \in NEntry : AddEntry(e)
             \/ /\ phase = "build" /\ ents # <<>> /\ NWellFormed(ents)
                /\ \E l \in LayoutIdx, U \in NUpdateSets(ents) : FinishNpm(l, U)
        ELSE \/ \E e \in MEntry : AddEntry(e)
             \/ /\ phase = "build" /\ ents # <<>> /\ MWellFormed(ents)
                /\ \E D \in MDefSets(ents), l \in LayoutIdx, U \in MUpdateSets(ents), a \in (IF MAdd THEN {"", "7.0"} ELSE {""}) :
                      FinishMvn(D, l, U, a)
Spec == Init /\ [][Next]_vars
Done == phase = "done"

-----------------------------------------------------------------------------
(* ========================= properties ================================== *)
\* package.json, on the model
NReadBack == (Done /\ Eco = "npm") =>
   LET r == NWrite(ents, ups) IN r.err = "" /\ NReqs(r.E) = NSubst(NReqs(ents), ups)
NExact == (Done /\ Eco = "npm") =>
   LET r == NWrite(ents, ups)
       ch == {i \in 1..Len(ents) : r.E[i] # ents[i]}
   IN /\ NMust(ents, ups) \subseteq ch /\ ch \subseteq NMust(ents, ups) \cup NMay(ents, ups)
      /\ \A i \in ch : \E u \in Range(ups) : u.k = ents[i].k /\ r.E[i] = [ents[i] EXCEPT !.v = u.to]
      /\ \A i \in 1..Len(ents) : ents[i].sec = "peerDependencies" => i \notin ch
NNoop == (Done /\ Eco = "npm" /\ ups = <<>>) => NWrite(ents, ups).E = ents

\* pom.xml, on the model
MSubstExact == (Done /\ Eco = "maven") =>
   \A i \in 1..Len(ents) : Target(ents, i) \notin TargetsOf(ents, ups) => MSubst(ents, pdefs, ups, i) = Eff(ents, pdefs, Doc0(ents, pdefs), i)
MSubstNoop == (Done /\ Eco = "maven" /\ ups = <<>>) =>
   /\ IdealW(ents, pdefs, ups) = Doc0(ents, pdefs)
   /\ \A i \in 1..Len(ents) : MSubst(ents, pdefs, ups, i) = Eff(ents, pdefs, Doc0(ents, pdefs), i)
IdealReadBack == (Done /\ Eco = "maven") =>
   LET W == IdealW(ents, pdefs, ups) IN
   /\ \A i \in 1..Len(ents) : Eff(ents, pdefs, W, i) = MSubst(ents, pdefs, ups, i)
   /\ ChangedIds(ents, pdefs, W) \subseteq Allowed(ents, pdefs, ups)
\* a property definition is rewritten only if every entry that reads it is updated to a version the new value produces
SafeRewriteOnly == (Done /\ Eco = "maven") =>
   LET W == IdealW(ents, pdefs, ups) IN
   \A d \in pdefs : W.pv[d] # PV0(d) =>
      \A x \in Users(ents, pdefs, d) : x \in TargetsOf(ents, ups) /\ Eff(ents, pdefs, W, x) = ToOf(ents, ups, x)
\* as built: every disagreement with the ideal belongs to a listed class
ABOk(E, D, U) == LET W == ABW(E, D, U) IN
   /\ \A i \in 1..Len(E) : Eff(E, D, W, i) = MSubst(E, D, U, i)
   /\ ChangedIds(E, D, W) \subseteq Allowed(E, D, U)
Completeness == (Done /\ Eco = "maven" /\ AsBuilt) => (ABOk(ents, pdefs, ups) \/ Devs(ents, pdefs, ups) # {})

-----------------------------------------------------------------------------
(* ========================= case emission =============================== *)
NCase ==
  LET r == NWrite(ents, ups) IN
  [eco |-> "npm",
   entries |-> [i \in 1..Len(ents) |-> [id |-> i, sec |-> ents[i].sec, k |-> ents[i].k, al |-> ents[i].al, v |-> ents[i].v]],
   layout |-> NLayoutTab[lay], ups |-> ups,
   eff0 |-> NReqs(ents),
   expect |-> [reqs |-> NSubst(NReqs(ents), ups), must |-> NMust(ents, ups), may |-> NMay(ents, ups)]]
MCase ==
  LET E == ents  D == pdefs  U == ups
      W0 == Doc0(E, D)  WA == ABW(E, D, U)
      effs(W) == [i \in 1..Len(E) |-> [id |-> i, v |-> Eff(E, D, W, i)]]
  IN
  [eco |-> "maven", par |-> (\E i \in 1..Len(E) : E[i].loc = "par") \/ (\E d \in D : d.loc = "par"),
   entries |-> [i \in 1..Len(E) |-> [id |-> i, loc |-> E[i].loc, sec |-> E[i].sec, k |-> E[i].k, f |-> E[i].f, v |-> W0.vt[i]]],
   pdefs |-> {[loc |-> d.loc, n |-> d.n, v |-> PV0(d)] : d \in D},
   layout |-> MLayoutTab[lay], ups |-> U, add |-> add,
   eff0 |-> effs(W0),
   expect |-> [eff |-> [i \in 1..Len(E) |-> [id |-> i, v |-> MSubst(E, D, U, i)]], allowed |-> Allowed(E, D, U)],
   devs |-> Devs(E, D, U),
   expect_asbuilt |-> [eff |-> effs(WA),
                       changed |-> {[id |-> "e" \o ToString(i), v |-> WA.vt[i]] : i \in {j \in 1..Len(E) : WA.vt[j] # W0.vt[j]}}
                                        \cup {[id |-> "p:" \o d.loc \o ":" \o d.n, v |-> WA.pv[d]] : d \in {c \in D : WA.pv[c] # W0.pv[c]}},
                       nondet |-> ABNondet(E, D, U)]]
Emit == Done => PrintT(ToJson(IF Eco = "npm" THEN NCase ELSE MCase))

\* sanity (must be violated): an update set exists in which a requirement changes and another one does not
Sanity == ~(Done /\ IF Eco = "npm"
                    THEN Len(ups) > 0 /\ Cardinality(NKeysOf(ents)) > Len(ups)
                    ELSE Len(ups) > 0 /\ \E i \in 1..Len(ents) : Target(ents, i) \notin TargetsOf(ents, ups))
=============================================================================
