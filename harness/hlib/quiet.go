package hlib

import "github.com/google/osv-scalibr/log"

type quietLogger struct{}

func (quietLogger) Errorf(string, ...any) {}
func (quietLogger) Warnf(string, ...any)  {}
func (quietLogger) Infof(string, ...any)  {}
func (quietLogger) Debugf(string, ...any) {}
func (quietLogger) Error(...any)          {}
func (quietLogger) Warn(...any)           {}
func (quietLogger) Info(...any)           {}
func (quietLogger) Debug(...any)          {}

// Quiet silences osv-scalibr's logger (hundreds of thousands of scans per check).
func Quiet() { log.SetLogger(quietLogger{}) }
