// Package hlib holds what every conformance binary shares: sub-command dispatch, parallel
// ndjson case mapping and panic capture (DESIGN.md section 3).
package hlib

import (
	"bufio"
	"encoding/json"
	"flag"
	"fmt"
	"os"
	"runtime"
	"sort"
	"sync"
)

// Env carries the command line of one sub-command invocation.
type Env struct {
	In, Out, Tmp string
	Workers      int
	Args         map[string]string
}

// Subcmd is one harness sub-command.
type Subcmd func(e *Env) error

var registry = map[string]Subcmd{}

// Register adds a sub-command (call from init).
func Register(name string, f Subcmd) { registry[name] = f }

// Main dispatches os.Args to the registered sub-commands.
func Main() {
	if len(os.Args) < 2 {
		names := []string{}
		for n := range registry {
			names = append(names, n)
		}
		sort.Strings(names)
		fmt.Fprintln(os.Stderr, "usage: vharness <sub> -in cases.ndjson -out obs.ndjson; subs:", names)
		os.Exit(2)
	}
	f, ok := registry[os.Args[1]]
	if !ok {
		fmt.Fprintln(os.Stderr, "unknown subcommand", os.Args[1])
		os.Exit(2)
	}
	fs := flag.NewFlagSet(os.Args[1], flag.ExitOnError)
	e := &Env{Args: map[string]string{}}
	fs.StringVar(&e.In, "in", "", "input ndjson")
	fs.StringVar(&e.Out, "out", "", "output ndjson")
	fs.StringVar(&e.Tmp, "tmp", os.TempDir(), "scratch dir")
	fs.IntVar(&e.Workers, "workers", runtime.NumCPU(), "parallel workers")
	var kv multi
	fs.Var(&kv, "a", "extra key=value argument (repeatable)")
	_ = fs.Parse(os.Args[2:])
	for _, s := range kv {
		for i := 0; i < len(s); i++ {
			if s[i] == '=' {
				e.Args[s[:i]] = s[i+1:]
				break
			}
		}
	}
	if err := f(e); err != nil {
		fmt.Fprintln(os.Stderr, "vharness:", err)
		os.Exit(3)
	}
}

type multi []string

func (m *multi) String() string     { return fmt.Sprint(*m) }
func (m *multi) Set(s string) error { *m = append(*m, s); return nil }

// MapCases reads ndjson lines from e.In, applies fn to each in parallel and writes one ndjson
// line per result to e.Out (order not preserved; every result carries the line index "i").
func MapCases(e *Env, fn func(idx int, raw []byte) (any, error)) error {
	inf, err := os.Open(e.In)
	if err != nil {
		return err
	}
	defer inf.Close()
	outf, err := os.Create(e.Out)
	if err != nil {
		return err
	}
	defer outf.Close()
	w := bufio.NewWriterSize(outf, 1<<20)
	defer w.Flush()
	type job struct {
		idx int
		raw []byte
	}
	jobs := make(chan job, 1024)
	var mu sync.Mutex
	var wg sync.WaitGroup
	var firstErr error
	nw := e.Workers
	if nw < 1 {
		nw = 1
	}
	for k := 0; k < nw; k++ {
		wg.Add(1)
		go func() {
			defer wg.Done()
			for j := range jobs {
				res, err := fn(j.idx, j.raw)
				mu.Lock()
				if err != nil && firstErr == nil {
					firstErr = fmt.Errorf("case %d: %w", j.idx, err)
				}
				if err == nil && res != nil {
					b, merr := json.Marshal(res)
					if merr != nil && firstErr == nil {
						firstErr = merr
					}
					w.Write(b)
					w.WriteByte('\n')
				}
				mu.Unlock()
			}
		}()
	}
	sc := bufio.NewScanner(inf)
	sc.Buffer(make([]byte, 1<<20), 1<<28)
	idx := 0
	for sc.Scan() {
		b := append([]byte(nil), sc.Bytes()...)
		if len(b) == 0 {
			continue
		}
		jobs <- job{idx, b}
		idx++
	}
	close(jobs)
	wg.Wait()
	if sc.Err() != nil {
		return sc.Err()
	}
	return firstErr
}

// Safely runs f and converts a panic into a string.
func Safely(f func()) (panicked string) {
	defer func() {
		if r := recover(); r != nil {
			buf := make([]byte, 4096)
			n := runtime.Stack(buf, false)
			panicked = fmt.Sprintf("%v\n%s", r, buf[:n])
		}
	}()
	f()
	return ""
}
