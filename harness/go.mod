module verif/harness

go 1.24.0

require (
	deps.dev/util/resolve v0.0.0-20250310223405-f4cf91c9e684
	github.com/google/osv-scalibr v0.0.0
	github.com/ossf/osv-schema/bindings/go v0.0.0-20250210065807-ab8a4f6e6389
)

require (
	deps.dev/api/v3 v3.0.0-20250307021655-d811e36f9cad // indirect
	deps.dev/util/maven v0.0.0-20250307021655-d811e36f9cad // indirect
	deps.dev/util/semver v0.0.0-20250307021655-d811e36f9cad // indirect
	github.com/package-url/packageurl-go v0.1.2 // indirect
	github.com/tidwall/gjson v1.18.0 // indirect
	github.com/tidwall/match v1.1.1 // indirect
	github.com/tidwall/pretty v1.2.0 // indirect
	golang.org/x/net v0.36.0 // indirect
	golang.org/x/sys v0.30.0 // indirect
	golang.org/x/text v0.22.0 // indirect
	google.golang.org/genproto/googleapis/api v0.0.0-20241202173237-19429a94021a // indirect
	google.golang.org/genproto/googleapis/rpc v0.0.0-20241202173237-19429a94021a // indirect
	google.golang.org/grpc v1.70.0 // indirect
	google.golang.org/protobuf v1.36.5 // indirect
	gopkg.in/ini.v1 v1.67.0 // indirect
)

replace github.com/google/osv-scalibr => /repo
