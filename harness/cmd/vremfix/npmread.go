package main

import (
	"encoding/json"
	"fmt"
	"os"
	"path/filepath"
	"sort"
	"strings"

	"deps.dev/util/resolve/dep"
	"github.com/google/osv-scalibr/guidedremediation/verifhooks"
	scalibrlog "github.com/google/osv-scalibr/log"
	. "verif/harness/hlib"
)

// npmread: scenarios of NpmRead.tla (which keys are declared in which section of a package.json) replayed
// into the real reader. The file is read several times because what the reader did before c419abf5 depended on
// Go's map iteration order; every distinct observation is reported.

type npmReadCase struct {
	ID   string              `json:"id"`
	Decl map[string][]string `json:"decl"`
	Reps int                 `json:"reps"`
}

type npmReadReq struct {
	Pkg   string `json:"pkg"`
	As    string `json:"as"`
	Ver   string `json:"ver"`
	Opt   bool   `json:"opt"`
	Group string `json:"group"`
}

type npmReadOut struct {
	I    int            `json:"i"`
	ID   string         `json:"id"`
	Obs  [][]npmReadReq `json:"obs"` // distinct observations (each sorted)
	Errs []string       `json:"errs"`
	Runs int            `json:"runs"`
}

var npmReadVer = map[string]string{"dep": "^1.0.0", "opt": "^2.0.0", "dev": "^3.0.0"}
var npmReadAlias = map[string]string{"b-legacy": "b", "b-old": "b", "c-legacy": "c"}

func npmReadFile(decl map[string][]string) string {
	var b strings.Builder
	b.WriteString("{\n  \"name\": \"root\",\n  \"version\": \"1.0.0\"")
	keys := []string{}
	for k := range decl {
		keys = append(keys, k)
	}
	sort.Strings(keys)
	for _, sect := range []struct{ field, s string }{{"dependencies", "dep"}, {"optionalDependencies", "opt"}, {"devDependencies", "dev"}} {
		first := true
		for _, k := range keys {
			in := false
			for _, s := range decl[k] {
				in = in || s == sect.s
			}
			if !in {
				continue
			}
			if first {
				fmt.Fprintf(&b, ",\n  %q: {\n", sect.field)
				first = false
			} else {
				b.WriteString(",\n")
			}
			val := npmReadVer[sect.s]
			if target, ok := npmReadAlias[k]; ok {
				val = "npm:" + target + "@" + val
			}
			fmt.Fprintf(&b, "    %q: %q", k, val)
		}
		if !first {
			b.WriteString("\n  }")
		}
	}
	b.WriteString("\n}\n")
	return b.String()
}

func init() {
	Register("npmread", func(e *Env) error {
		scalibrlog.SetLogger(quiet{})
		dir, err := os.MkdirTemp("", "vnpmread-")
		if err != nil {
			return err
		}
		defer os.RemoveAll(dir)
		return MapCases(e, func(idx int, raw []byte) (any, error) {
			var c npmReadCase
			if err := json.Unmarshal(raw, &c); err != nil {
				return nil, err
			}
			if c.Reps <= 0 {
				c.Reps = 8
			}
			d := filepath.Join(dir, fmt.Sprintf("c%d", idx))
			if err := os.MkdirAll(d, 0o755); err != nil {
				return nil, err
			}
			defer os.RemoveAll(d)
			p := filepath.Join(d, "package.json")
			if err := os.WriteFile(p, []byte(npmReadFile(c.Decl)), 0o644); err != nil {
				return nil, err
			}
			out := &npmReadOut{I: idx, ID: c.ID, Obs: [][]npmReadReq{}, Errs: []string{}}
			seen := map[string]bool{}
			for r := 0; r < c.Reps; r++ {
				out.Runs++
				reqs, groups, err := verifhooks.NpmRequirementGroups(p)
				if err != nil {
					if !seen["err:"+err.Error()] {
						seen["err:"+err.Error()] = true
						out.Errs = append(out.Errs, err.Error())
					}
					continue
				}
				obs := []npmReadReq{}
				for i, rq := range reqs {
					as, _ := rq.Type.GetAttr(dep.KnownAs)
					obs = append(obs, npmReadReq{Pkg: rq.Name, As: as, Ver: rq.Version, Opt: rq.Type.HasAttr(dep.Opt), Group: strings.Join(groups[i], "+")})
				}
				sort.Slice(obs, func(i, j int) bool {
					a, b := obs[i], obs[j]
					return a.Pkg+"\x00"+a.As+"\x00"+a.Ver+"\x00"+a.Group < b.Pkg+"\x00"+b.As+"\x00"+b.Ver+"\x00"+b.Group
				})
				k, _ := json.Marshal(obs)
				if !seen[string(k)] {
					seen[string(k)] = true
					out.Obs = append(out.Obs, obs)
				}
			}
			return out, nil
		})
	})
}
