package main

// The harness's own version algebra, written from the definitions of spec/Remediation.tla
// (Cmp, Diff) and from the DOCUMENTATION of upgrade.Level (Allows). It deliberately does not use
// deps.dev semver.Difference or upgrade.Level.Allows: it is the oracle those are judged by.

import (
	"fmt"
	"strconv"
	"strings"
)

// Ver is <<major, minor, patch, rel>>; rel = RelFinal for a release, smaller for a pre-release
// ("-rc" = 0, "-rc.k"/"-rck" = k), so that the lexicographic order of the tuple is the version order.
type Ver [4]int

const RelFinal = 9

func ParseVer(s string) (Ver, bool) {
	var v Ver
	core, pre, hasPre := strings.Cut(s, "-")
	parts := strings.Split(core, ".")
	if len(parts) != 3 {
		return v, false
	}
	for i, p := range parts {
		n, err := strconv.Atoi(p)
		if err != nil || n < 0 {
			return v, false
		}
		v[i] = n
	}
	v[3] = RelFinal
	if hasPre {
		if !strings.HasPrefix(pre, "rc") {
			return v, false
		}
		k := strings.TrimPrefix(strings.TrimPrefix(pre, "rc"), ".")
		if k == "" {
			v[3] = 0
		} else {
			n, err := strconv.Atoi(k)
			if err != nil || n < 1 || n >= RelFinal {
				return v, false
			}
			v[3] = n
		}
	}
	return v, true
}

// String renders the tuple in the spelling of the ecosystem.
func (v Ver) Render(eco string) string {
	s := fmt.Sprintf("%d.%d.%d", v[0], v[1], v[2])
	if v[3] == RelFinal {
		return s
	}
	if v[3] == 0 {
		return s + "-rc"
	}
	if eco == "Maven" {
		return fmt.Sprintf("%s-rc%d", s, v[3])
	}
	return fmt.Sprintf("%s-rc.%d", s, v[3])
}

// Cmp is the module's total order: lexicographic on <<major, minor, patch, rel>>.
func Cmp(a, b Ver) int {
	for i := 0; i < 4; i++ {
		if a[i] < b[i] {
			return -1
		}
		if a[i] > b[i] {
			return 1
		}
	}
	return 0
}

// Diff is the most significant component in which two versions differ.
func Diff(a, b Ver) string {
	switch {
	case a[0] != b[0]:
		return "major"
	case a[1] != b[1]:
		return "minor"
	case a[2] != b[2]:
		return "patch"
	case a[3] != b[3]:
		return "pre"
	}
	return "same"
}

// Allows follows the documentation of upgrade.Level: "the maximum semver level of upgrade allowed for a
// package: Major = all upgrades are allowed; Minor = only upgrades up to minor (1.0.0 - 1.*.*)"; hence
// Patch = only upgrades up to patch (1.0.0 - 1.0.*), None = no upgrade. A change of pre-release status
// inside one major.minor.patch stays inside 1.0.* and is therefore within every level except None.
func Allows(level, diff string) bool {
	switch level {
	case "major":
		return true
	case "minor":
		return diff != "major"
	case "patch":
		return diff != "major" && diff != "minor"
	}
	return false
}

// LevelOf is Config.Get as documented: the per-package entry if there is one, else the default entry
// (package ""), else Major ("NewConfig: all packages allowing all upgrades").
func LevelOf(levels map[string]string, pkg string) string {
	if l, ok := levels[pkg]; ok {
		return l
	}
	if l, ok := levels[""]; ok {
		return l
	}
	return "major"
}

// reqShape classifies a requirement string the tool wrote: "pin" (a single version), "caret" ("^v"),
// "tilde" ("~v"), else "other"; with the version tuple it is anchored at.
func reqShape(req string) (kind string, at []int) {
	switch {
	case strings.HasPrefix(req, "^"):
		return "caret", verTupleOf(req[1:])
	case strings.HasPrefix(req, "~"):
		return "tilde", verTupleOf(req[1:])
	}
	if _, ok := ParseVer(req); ok {
		return "pin", verTupleOf(req)
	}
	return "other", []int{}
}

func verTupleOf(s string) []int {
	v, ok := ParseVer(s)
	if !ok {
		return []int{}
	}
	return v[:]
}
