package main

// C16(a) binding: the patch fan-out of common.ComputePatches (one goroutine per patch attempt, results over an
// unbuffered channel, follow-up attempts for introduced vulnerabilities, final sort + compaction) must return
// the same sorted, de-duplicated patch list under every arrival order.
//
// The arrival order is IMPOSED: every callback the attempts make into the harness (resolve client, matcher)
// passes a gate; an attempt goroutine blocks at its first callback until the controller releases it; exactly one
// attempt is released at a time and the controller waits for the RecvHook call of that attempt (hook in
// common.ComputePatches right after `r := <-ch`) before it releases the next. Attempts are identified by
// creation order (goroutine ids grow monotonically; the hook hands ComputePatches the initial vulnerabilities
// sorted by id; follow-up attempts are spawned in the sorted order of the introduced ids), the attempt forest
// itself is learned from an ungated profile run.

import (
	"bytes"
	"context"
	"encoding/json"
	"fmt"
	"math/rand"
	"os"
	"path/filepath"
	"reflect"
	"runtime"
	"sort"
	"strconv"
	"strings"
	"sync"
	"time"

	. "verif/harness/hlib"

	"deps.dev/util/resolve"
	"github.com/google/osv-scalibr/extractor"
	"github.com/google/osv-scalibr/guidedremediation/result"
	"github.com/google/osv-scalibr/guidedremediation/strategy"
	"github.com/google/osv-scalibr/guidedremediation/verifhooks"
	scalibrlog "github.com/google/osv-scalibr/log"
	"github.com/ossf/osv-schema/bindings/go/osvschema"
)

func goid() int64 {
	var buf [64]byte
	n := runtime.Stack(buf[:], false)
	// "goroutine 123 [running]:"
	f := bytes.Fields(buf[:n])
	id, _ := strconv.ParseInt(string(f[1]), 10, 64)
	return id
}

// controller imposes one arrival order on one ComputePatches run.
type controller struct {
	mu       sync.Mutex
	cond     *sync.Cond
	gating   bool
	mainG    int64
	gated    map[int64]chan struct{} // goroutines blocked at the gate
	released map[int64]bool
	seen     []int64    // every attempt goroutine that ever reached the gate, in goid order of discovery
	recv     [][]string // RecvHook calls, in order
	obs      map[int64]*attemptObs
}

func newController(gating bool) *controller {
	c := &controller{gating: gating, gated: map[int64]chan struct{}{}, released: map[int64]bool{}, obs: map[int64]*attemptObs{}}
	c.cond = sync.NewCond(&c.mu)
	return c
}

// gate is called at the entry of every client/matcher callback.
func (c *controller) gate() {
	if !c.gating {
		return
	}
	g := goid()
	c.mu.Lock()
	if g == c.mainG || c.released[g] {
		c.mu.Unlock()
		return
	}
	ch, ok := c.gated[g]
	if !ok {
		ch = make(chan struct{})
		c.gated[g] = ch
		c.seen = append(c.seen, g)
		c.cond.Broadcast()
	}
	c.mu.Unlock()
	<-ch
}

func (c *controller) onRecv(ids []string) {
	c.mu.Lock()
	c.recv = append(c.recv, append([]string(nil), ids...))
	c.cond.Broadcast()
	c.mu.Unlock()
}

// waitFor blocks until pred holds (under the lock) or the deadline passes.
func (c *controller) waitFor(deadline time.Time, pred func() bool) bool {
	done := make(chan struct{})
	go func() {
		select {
		case <-done:
		case <-time.After(time.Until(deadline)):
			c.mu.Lock()
			c.cond.Broadcast()
			c.mu.Unlock()
		}
	}()
	defer close(done)
	c.mu.Lock()
	defer c.mu.Unlock()
	for !pred() {
		if time.Now().After(deadline) {
			return false
		}
		c.cond.Wait()
	}
	return true
}

type gateClient struct {
	resolve.Client
	c *controller
}

func (g *gateClient) Version(ctx context.Context, vk resolve.VersionKey) (resolve.Version, error) {
	g.c.gate()
	return g.Client.Version(ctx, vk)
}
func (g *gateClient) Versions(ctx context.Context, pk resolve.PackageKey) ([]resolve.Version, error) {
	g.c.gate()
	return g.Client.Versions(ctx, pk)
}
func (g *gateClient) Requirements(ctx context.Context, vk resolve.VersionKey) ([]resolve.RequirementVersion, error) {
	g.c.gate()
	return g.Client.Requirements(ctx, vk)
}
func (g *gateClient) MatchingVersions(ctx context.Context, vk resolve.VersionKey) ([]resolve.Version, error) {
	g.c.gate()
	return g.Client.MatchingVersions(ctx, vk)
}

type gateMatcher struct {
	m *osvMatcher
	c *controller
}

func (g *gateMatcher) MatchVulnerabilities(ctx context.Context, pkgs []*extractor.Package) ([][]*osvschema.Vulnerability, error) {
	g.c.gate()
	res, err := g.m.MatchVulnerabilities(ctx, pkgs)
	// what this goroutine's latest re-resolution contains (an attempt's last call = the graph its patch is built from)
	found := map[string]bool{}
	for _, l := range res {
		for _, v := range l {
			found[v.ID] = true
		}
	}
	id := goid()
	g.c.mu.Lock()
	g.c.obs[id] = &attemptObs{calls: g.c.obsCalls(id) + 1, last: found}
	g.c.mu.Unlock()
	return res, err
}

// attemptObs: matcher calls made by one goroutine and the vulnerabilities its last re-resolution contained.
type attemptObs struct {
	calls int
	last  map[string]bool
}

func (c *controller) obsCalls(id int64) int {
	if o := c.obs[id]; o != nil {
		return o.calls
	}
	return 0
}

// ---- the attempt forest, learned from the profile run ----

func key(ids []string) string { return strings.Join(ids, ",") }

type forest struct {
	all      [][]string
	children map[string][][]string // parent key -> children in creation order
	roots    [][]string
}

func isPrefix(a, b []string) bool {
	if len(a) >= len(b) {
		return false
	}
	for i := range a {
		if a[i] != b[i] {
			return false
		}
	}
	return true
}

func buildForest(attempts [][]string) (*forest, error) {
	f := &forest{children: map[string][][]string{}}
	seen := map[string]bool{}
	for _, a := range attempts {
		if seen[key(a)] {
			return nil, fmt.Errorf("attempt %v made twice", a)
		}
		seen[key(a)] = true
		f.all = append(f.all, a)
	}
	for _, b := range f.all {
		var parent []string
		for _, a := range f.all {
			if isPrefix(a, b) && len(a) > len(parent) {
				parent = a
			}
		}
		if parent == nil {
			f.roots = append(f.roots, b)
		} else {
			f.children[key(parent)] = append(f.children[key(parent)], b)
		}
	}
	byLast := func(l [][]string) {
		sort.Slice(l, func(i, j int) bool { return key(l[i]) < key(l[j]) })
	}
	byLast(f.roots)
	for k := range f.children {
		byLast(f.children[k])
	}
	return f, nil
}

// orders enumerates the arrival orders (linear extensions of the forest), up to max; ok=false if capped.
func (f *forest) orders(max int) (out [][][]string, complete bool) {
	complete = true
	var rec func(ready [][]string, acc [][]string)
	rec = func(ready [][]string, acc [][]string) {
		if len(out) >= max {
			complete = false
			return
		}
		if len(ready) == 0 {
			out = append(out, append([][]string(nil), acc...))
			return
		}
		for i := range ready {
			a := ready[i]
			next := append(append([][]string(nil), ready[:i]...), ready[i+1:]...)
			next = append(next, f.children[key(a)]...)
			rec(next, append(acc, a))
		}
	}
	rec(append([][]string(nil), f.roots...), nil)
	return out, complete
}

func (f *forest) randomOrder(rng *rand.Rand) [][]string {
	ready := append([][]string(nil), f.roots...)
	var acc [][]string
	for len(ready) > 0 {
		i := rng.Intn(len(ready))
		a := ready[i]
		ready = append(append([][]string(nil), ready[:i]...), ready[i+1:]...)
		ready = append(ready, f.children[key(a)]...)
		acc = append(acc, a)
	}
	return acc
}

// closureCheck compares the attempts ComputePatches made (their id lists, as seen by the RecvHook) with the closure
// PatchFanout.tla defines (operator Closure): the roots are one attempt per initially found vulnerability, and
// every attempt a that yields a patch introducing vulnerabilities `newly` (not in a) calls for the follow-up
// attempts a+[v] for each v in newly (ungrouped: relax) resp. a+newly (grouped: override) - with exactly those
// ids. What an attempt's patch introduces is OBSERVED: the vulnerabilities of the last re-resolution its goroutine
// made, minus the initially found ones. The expectation is only formed for attempts that certainly ended with a
// patch (they re-resolved at least once and none of their own ids is left in the last graph).
func closureCheck(strat string, f *forest, initial []string, obs map[string]*attemptObs) string {
	have := map[string]bool{}
	for _, a := range f.all {
		have[key(a)] = true
	}
	init := map[string]bool{}
	for _, v := range initial {
		init[v] = true
		if !have[v] {
			return fmt.Sprintf("closure: no attempt [%s] for an initially found vulnerability (attempts: %v)", v, f.all)
		}
	}
	want := map[string]bool{}
	for _, v := range initial {
		want[v] = true
	}
	certain := map[string]bool{}
	for _, a := range f.all {
		o := obs[key(a)]
		if o == nil || o.calls == 0 {
			continue
		}
		mine := map[string]bool{}
		ok := true
		for _, id := range a {
			mine[id] = true
			if o.last[id] {
				ok = false
			}
		}
		if !ok {
			continue
		}
		certain[key(a)] = true
		var newly []string
		for v := range o.last {
			if !init[v] && !mine[v] {
				newly = append(newly, v)
			}
		}
		sort.Strings(newly)
		if len(newly) == 0 {
			continue
		}
		if strat == "override" {
			want[key(append(append([]string(nil), a...), newly...))] = true
			if !have[key(append(append([]string(nil), a...), newly...))] {
				return fmt.Sprintf("closure: attempt %v introduced %v, so a follow-up attempt with ids %v must be made; attempts made: %v", a, newly, append(append([]string(nil), a...), newly...), f.all)
			}
			continue
		}
		for _, v := range newly {
			b := append(append([]string(nil), a...), v)
			want[key(b)] = true
			if !have[key(b)] {
				return fmt.Sprintf("closure: attempt %v introduced %v, so a follow-up attempt with ids %v must be made; attempts made: %v", a, newly, b, f.all)
			}
		}
	}
	// conversely: a follow-up attempt must be called for by its parent (when the parent's outcome is certain)
	for _, b := range f.all {
		if len(b) == 1 {
			if !init[b[0]] {
				return fmt.Sprintf("closure: attempt %v for a vulnerability that was not found initially", b)
			}
			continue
		}
		var parent []string
		for _, a := range f.all {
			if isPrefix(a, b) && len(a) > len(parent) {
				parent = a
			}
		}
		if parent == nil {
			return fmt.Sprintf("closure: follow-up attempt %v has no parent attempt among %v", b, f.all)
		}
		if certain[key(parent)] && !want[key(b)] {
			return fmt.Sprintf("closure: attempt %v was made but its parent %v does not call for it", b, parent)
		}
	}
	return ""
}

func mustClient(s *Scenario) resolve.Client {
	cl, err := s.client()
	if err != nil {
		panic(err)
	}
	return cl
}

// ---- one run ----

type fanRun struct {
	Patches  []absPatch
	Recv     [][]string
	Seen     int    // attempt goroutines that reached the gate
	Err      string // ComputePatches error
	Stuck    string // controller could not realise the schedule / run did not finish
	Panic    string
	Unsorted string
	Lost     bool                   // an attempt goroutine exists that the profile run never received
	Obs      map[string]*attemptObs // gated runs: attempt -> what its goroutine's re-resolutions showed
}

var fanoutMu sync.Mutex // the RecvHook is process-global: one ComputePatches at a time

func (s *Scenario) fanoutRun(ctx context.Context, path string, order [][]string, f *forest, limit time.Duration, stragglers bool) fanRun {
	fanoutMu.Lock()
	defer fanoutMu.Unlock()
	var out fanRun
	base, err := s.client()
	if err != nil {
		out.Err = err.Error()
		return out
	}
	ctl := newController(order != nil)
	var cl resolve.Client = &gateClient{Client: &parkClient{Client: base, mu: &sync.Mutex{}}, c: ctl}
	vm := &gateMatcher{m: newMatcher(s), c: ctl}
	verifhooks.SetRecvHook(ctl.onRecv)
	defer verifhooks.SetRecvHook(nil)

	type res struct {
		p   []result.Patch
		err error
		pan string
	}
	done := make(chan res, 1)
	go func() {
		var r res
		r.pan = Safely(func() {
			ctl.mu.Lock()
			ctl.mainG = goid()
			ctl.mu.Unlock()
			r.p, r.err = verifhooks.RemComputePatchesSorted(ctx, strategy.Strategy(s.Opts.Strategy), path, cl, vm, s.remOpts(false))
		})
		done <- r
	}()
	deadline := time.Now().Add(limit)
	if order != nil {
		// expected attempts in creation order: roots, then after each receipt the children of the received attempt
		expected := append([][]string(nil), f.roots...)
		assigned := map[string]int64{} // attempt -> goroutine
		nAssigned := 0
		for step, target := range order {
			// wait until every attempt that exists by now sits at the gate (or has been received)
			ok := ctl.waitFor(deadline, func() bool { return len(ctl.seen) >= len(expected) })
			if !ok {
				out.Stuck = fmt.Sprintf("step %d: %d of %d expected attempts reached a callback", step, len(ctl.seen), len(expected))
				break
			}
			ctl.mu.Lock()
			if len(ctl.seen) > len(expected) {
				out.Stuck = fmt.Sprintf("step %d: %d attempts were started but the ungated run received only %d by this point: an attempt is started whose result ComputePatches never receives", step, len(ctl.seen), len(expected))
				out.Lost = true
				ctl.mu.Unlock()
				break
			}
			// goroutine ids grow with creation: the k-th new goroutine is the k-th expected attempt
			newG := append([]int64(nil), ctl.seen[nAssigned:]...)
			sort.Slice(newG, func(i, j int) bool { return newG[i] < newG[j] })
			for i, g := range newG {
				assigned[key(expected[nAssigned+i])] = g
			}
			nAssigned += len(newG)
			g, okg := assigned[key(target)]
			if okg {
				ctl.released[g] = true
				close(ctl.gated[g])
			}
			nRecv := len(ctl.recv)
			ctl.mu.Unlock()
			if !okg {
				out.Stuck = fmt.Sprintf("step %d: attempt %v never reached a callback", step, target)
				break
			}
			if !ctl.waitFor(deadline, func() bool { return len(ctl.recv) > nRecv }) {
				out.Stuck = fmt.Sprintf("step %d: released attempt %v was never received", step, target)
				break
			}
			ctl.mu.Lock()
			got := ctl.recv[nRecv]
			ctl.mu.Unlock()
			if key(got) != key(target) {
				out.Stuck = fmt.Sprintf("step %d: released %v but %v arrived (attempt identification failed)", step, target, got)
				break
			}
			expected = append(expected, f.children[key(target)]...)
		}
		ctl.mu.Lock()
		out.Obs = map[string]*attemptObs{}
		for k, g := range assigned {
			if o := ctl.obs[g]; o != nil {
				out.Obs[k] = o
			}
		}
		ctl.mu.Unlock()
		if out.Stuck != "" {
			// let everything go so that the run can end
			ctl.mu.Lock()
			ctl.gating = false
			for g, ch := range ctl.gated {
				if !ctl.released[g] {
					ctl.released[g] = true
					close(ch)
				}
			}
			ctl.mu.Unlock()
		}
	}
	select {
	case r := <-done:
		out.Panic = r.pan
		if r.err != nil {
			out.Err = r.err.Error()
		}
		for _, p := range r.p {
			out.Patches = append(out.Patches, absOf(p))
		}
		sv := s.system().Semver()
		for i := 0; i+1 < len(r.p); i++ {
			if c := r.p[i].Compare(r.p[i+1], sv); c >= 0 {
				out.Unsorted = fmt.Sprintf("patches %d and %d: Compare = %d (must be < 0: sorted and free of equal neighbours)", i, i+1, c)
				break
			}
		}
	case <-time.After(time.Until(deadline) + 2*time.Second):
		if out.Stuck == "" {
			out.Stuck = "ComputePatches did not return"
		}
		// leak: park the goroutines for good
		ctl.mu.Lock()
		ctl.gating = true
		ctl.mu.Unlock()
	}
	if stragglers && order != nil && out.Stuck == "" {
		// an attempt spawned by the last receipt would reach its first callback about now: give it 10 ms to show up
		time.Sleep(10 * time.Millisecond)
	}
	ctl.mu.Lock()
	out.Recv = append([][]string(nil), ctl.recv...)
	out.Seen = len(ctl.seen)
	ctl.mu.Unlock()
	return out
}

type fanCase struct {
	Case
	MaxSchedules int          `json:"max_schedules"`
	Seed         int64        `json:"seed"`
	Mode         string       `json:"mode"`   // "gated" (default) | "ungated"
	Orders       [][][]string `json:"orders"` // replay: run exactly these arrival orders
}

type fanOut struct {
	I              int        `json:"i"`
	ID             string     `json:"id"`
	Attempts       [][]string `json:"attempts"`
	Roots          int        `json:"roots"`
	Spawned        int        `json:"spawned"`
	Compacted      bool       `json:"compacted"`       // fewer patches than attempts (equal patches compacted, or attempts without a patch)
	Orders         int        `json:"orders"`          // arrival orders replayed
	Complete       bool       `json:"complete"`        // every arrival order was replayed
	ClosureChecked bool       `json:"closure_checked"` // the attempted id sets equal the closure PatchFanout.tla defines
	Depth          int        `json:"depth"`           // longest chain of follow-up attempts
	Patches        []absPatch `json:"patches"`
	Mismatch       string     `json:"mismatch,omitempty"`
	BadOrder       [][]string `json:"bad_order,omitempty"`
	Stuck          string     `json:"stuck,omitempty"` // schedule could not be imposed (harness-level), not a verdict
	Skip           string     `json:"skip,omitempty"`
	Ms             float64    `json:"ms"`
}

func runFanout(e *Env, idx int, c *fanCase) (*fanOut, error) {
	t0 := time.Now()
	s := &c.Scenario
	out := &fanOut{I: idx, ID: c.ID}
	defer func() { out.Ms = float64(time.Since(t0).Microseconds()) / 1000 }()
	ctx := context.Background()
	dir := filepath.Join(e.Tmp, "fo", strconv.Itoa(idx))
	defer os.RemoveAll(dir)
	path, err := writeManifest(dir, s.Eco, s.Manifest, s.Layout)
	if err != nil {
		return nil, err
	}
	limit := 10 * time.Second
	// profile: ungated run, learn the attempts
	prof := s.fanoutRun(ctx, path, nil, nil, limit, false)
	if prof.Err != "" || prof.Panic != "" || prof.Stuck != "" {
		if prof.Panic != "" {
			out.Mismatch = "ComputePatches panicked: " + prof.Panic
		} else if prof.Stuck != "" {
			out.Mismatch = "ungated ComputePatches did not return within 10 s"
		} else {
			out.Skip = "profile run failed: " + prof.Err
		}
		return out, nil
	}
	f, err := buildForest(prof.Recv)
	if err != nil {
		out.Mismatch = "profile run: " + err.Error()
		return out, nil
	}
	// every initially found vulnerability gets its own attempt, and ComputePatches must have received each of them
	an, aerr := verifhooks.RemAnalyse(ctx, path, &parkClient{Client: mustClient(s), mu: &sync.Mutex{}}, newMatcher(s), s.remOpts(false))
	if aerr == nil {
		got := map[string]bool{}
		for _, a := range prof.Recv {
			if len(a) == 1 {
				got[a[0]] = true
			}
		}
		isInit := map[string]bool{}
		for _, id := range an.VulnIDs {
			isInit[id] = true
		}
		for _, a := range f.roots {
			// closure, structural half: an attempt that continues no received attempt must be an initial one
			if len(a) != 1 || !isInit[a[0]] {
				out.Attempts = prof.Recv
				out.Mismatch = fmt.Sprintf("closure: attempt %v is neither the attempt of an initially found vulnerability (%v) nor the follow-up of a received attempt (received: %v)", a, an.VulnIDs, prof.Recv)
				return out, nil
			}
		}
		for _, id := range an.VulnIDs {
			if !got[id] {
				out.Attempts = prof.Recv
				out.Mismatch = fmt.Sprintf("ComputePatches returned without receiving the attempt for initial vulnerability %s (received: %v)", id, prof.Recv)
				return out, nil
			}
		}
	}
	out.Attempts = f.all
	for _, a := range f.all {
		out.Depth = max(out.Depth, len(a)-1)
	}
	out.Roots = len(f.roots)
	out.Spawned = len(f.all) - len(f.roots)
	out.Patches = prof.Patches
	if prof.Unsorted != "" {
		out.Mismatch = "ungated run: " + prof.Unsorted
		return out, nil
	}
	if c.Mode == "ungated" {
		return out, nil
	}
	if len(f.roots) < 2 {
		out.Skip = "fewer than 2 concurrent attempts"
		return out, nil
	}
	var orders [][][]string
	if c.Orders != nil {
		orders = c.Orders
	} else {
		max := c.MaxSchedules
		if max <= 0 {
			max = 24
		}
		var complete bool
		orders, complete = f.orders(max + 1)
		if !complete || len(orders) > max {
			// too many: a seeded sample of distinct random linear extensions
			rng := rand.New(rand.NewSource(c.Seed))
			seen := map[string]bool{}
			orders = nil
			for tries := 0; len(orders) < max && tries < 20*max; tries++ {
				o := f.randomOrder(rng)
				k := fmt.Sprint(o)
				if !seen[k] {
					seen[k] = true
					orders = append(orders, o)
				}
			}
		} else {
			out.Complete = true
		}
	}
	neutral := len(s.Opts.Ignore) == 0 && len(s.Opts.Explicit) == 0 && s.Opts.DevDeps && s.Opts.MaxDepth <= 0 && s.Opts.MinSeverity == 0
	var initial []string
	if aerr == nil {
		initial = an.VulnIDs
	}
	for oi, o := range orders {
		r := s.fanoutRun(ctx, path, o, f, limit, oi == 0)
		if r.Stuck != "" {
			// a second try decides: reproducible => reported
			r = s.fanoutRun(ctx, path, o, f, limit, oi == 0)
		}
		out.Orders++
		switch {
		case r.Panic != "":
			out.Mismatch, out.BadOrder = "ComputePatches panicked: "+r.Panic, o
		case r.Lost:
			out.Mismatch, out.BadOrder = r.Stuck, o
		case r.Stuck != "" && strings.Contains(r.Stuck, "did not return"):
			out.Mismatch, out.BadOrder = "ComputePatches did not return under this arrival order (twice): "+r.Stuck, o
		case r.Stuck != "":
			out.Stuck, out.BadOrder = r.Stuck, o
		case r.Err != "":
			out.Mismatch, out.BadOrder = "ComputePatches failed under this arrival order: "+r.Err, o
		case r.Unsorted != "":
			out.Mismatch, out.BadOrder = r.Unsorted, o
		case !reflect.DeepEqual(r.Patches, prof.Patches):
			a, _ := json.Marshal(prof.Patches)
			b, _ := json.Marshal(r.Patches)
			out.Mismatch, out.BadOrder = fmt.Sprintf("patch list depends on the arrival order: ungated %s, this order %s", a, b), o
		case len(r.Recv) != len(f.all) || r.Seen > len(r.Recv):
			out.Mismatch, out.BadOrder = fmt.Sprintf("%d attempts were started but %d results were received before ComputePatches returned", max(r.Seen, len(f.all)), len(r.Recv)), o
		}
		if out.Mismatch == "" && out.Stuck == "" && oi == 0 && neutral && aerr == nil {
			if msg := closureCheck(s.Opts.Strategy, f, initial, r.Obs); msg != "" {
				out.Mismatch, out.BadOrder = msg, o
			} else {
				out.ClosureChecked = true
			}
		}
		if out.Mismatch != "" || out.Stuck != "" {
			return out, nil
		}
	}
	out.Compacted = len(prof.Patches) > 0 && len(prof.Patches) < len(f.all)
	return out, nil
}

func init() {
	Register("fanout", func(e *Env) error {
		scalibrlog.SetLogger(quiet{})
		return MapCases(e, func(idx int, raw []byte) (any, error) {
			var c fanCase
			if err := json.Unmarshal(raw, &c); err != nil {
				return nil, err
			}
			return runFanout(e, idx, &c)
		})
	})
}
