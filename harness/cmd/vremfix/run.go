package main

// C11/C12 binding: per TLC-generated (or seeded random) case, materialise universe/matcher/manifest, run the
// REAL guidedremediation.FixVulns / Update under a watchdog, record the pipeline as a trace
// (DESIGN.md Appendix B.2, Remediation) and judge C11/C12 with the harness's own Cmp/Diff/Allows.

import (
	"context"
	"encoding/json"
	"fmt"
	"os"
	"path/filepath"
	"reflect"
	"slices"
	"sort"
	"strconv"
	"sync"
	"sync/atomic"
	"time"

	. "verif/harness/hlib"

	"deps.dev/util/resolve"
	"deps.dev/util/resolve/dep"
	"github.com/google/osv-scalibr/guidedremediation"
	"github.com/google/osv-scalibr/guidedremediation/options"
	"github.com/google/osv-scalibr/guidedremediation/result"
	"github.com/google/osv-scalibr/guidedremediation/strategy"
	"github.com/google/osv-scalibr/guidedremediation/upgrade"
	"github.com/google/osv-scalibr/guidedremediation/verifhooks"
	scalibrlog "github.com/google/osv-scalibr/log"
)

type quiet struct{}

func (quiet) Errorf(string, ...any) {}
func (quiet) Error(...any)          {}
func (quiet) Warnf(string, ...any)  {}
func (quiet) Warn(...any)           {}
func (quiet) Infof(string, ...any)  {}
func (quiet) Info(...any)           {}
func (quiet) Debugf(string, ...any) {}
func (quiet) Debug(...any)          {}

type Event map[string]any

type Finding struct {
	Prop string `json:"prop"` // C11 | C12
	Kind string `json:"kind"`
	What string `json:"what"`
	Data any    `json:"data,omitempty"`
}

type Out struct {
	I        int       `json:"i"`
	ID       string    `json:"id"`
	Trace    []Event   `json:"trace"`
	Findings []Finding `json:"findings"`
	Stats    struct {
		Proposed      int     `json:"proposed"`
		Applied       int     `json:"applied"`
		Updates       int     `json:"updates"`
		UndefinedBase int     `json:"undefined_base"`
		Vulns1        int     `json:"vulns1"`
		Err           string  `json:"err,omitempty"`
		Ms            float64 `json:"ms"`
	} `json:"stats"`
	Harness string `json:"harness,omitempty"` // harness-level inconsistency: never a verdict
	Skipped bool   `json:"skipped,omitempty"` // not run: too many non-terminating scenarios before this one
}

func levelOf(s string) upgrade.Level {
	switch s {
	case "minor":
		return upgrade.Minor
	case "patch":
		return upgrade.Patch
	case "none":
		return upgrade.None
	}
	return upgrade.Major
}

// upgradeConfig builds the configuration the way the command line does: from "<package>:<level>" strings
// (Maven names contain a colon themselves) and a bare "<level>" for the default.
func upgradeConfig(levels map[string]string) upgrade.Config {
	var strs []string
	for k, v := range levels {
		if levelOf(v) == upgrade.Major && v != "major" {
			v = "major" // the scenario's spelling of "anything" is the default level
		}
		if k == "" {
			strs = append(strs, v)
		} else {
			strs = append(strs, k+":"+v)
		}
	}
	return upgrade.NewConfigFromStrings(strs)
}

func (s *Scenario) remOpts(analysisOnly bool) options.RemediationOptions {
	o := options.RemediationOptions{
		IgnoreVulns:   append([]string(nil), s.Opts.Ignore...),
		ExplicitVulns: append([]string(nil), s.Opts.Explicit...),
		DevDeps:       s.Opts.DevDeps,
		MinSeverity:   s.Opts.MinSeverity,
		MaxDepth:      s.Opts.MaxDepth,
		UpgradeConfig: upgradeConfig(s.Opts.Levels),
	}
	if analysisOnly {
		o.UpgradeConfig = upgrade.Config{"": upgrade.None}
	}
	return o
}

func verTuple(s string) []int {
	v, ok := ParseVer(s)
	if !ok {
		return []int{}
	}
	return v[:]
}

func reqPairs(rs []resolve.RequirementVersion) [][]string {
	out := [][]string{}
	for _, r := range rs {
		out = append(out, []string{r.Name, r.Version})
	}
	sort.Slice(out, func(i, j int) bool {
		if out[i][0] != out[j][0] {
			return out[i][0] < out[j][0]
		}
		return out[i][1] < out[j][1]
	})
	return out
}

func graphPairs(g *resolve.Graph) []any {
	ns := graphNodes(g)
	sort.Slice(ns, func(i, j int) bool {
		if ns[i].Name != ns[j].Name {
			return ns[i].Name < ns[j].Name
		}
		return ns[i].Ver < ns[j].Ver
	})
	out := []any{}
	for _, n := range ns {
		out = append(out, []any{n.Name, verTuple(n.Ver)})
	}
	return out
}

func vulnIDs(vs []result.Vuln) []string {
	out := []string{}
	for _, v := range vs {
		out = append(out, v.ID)
	}
	sort.Strings(out)
	return out
}

type absPatch struct {
	Updates    []Upd
	Fixed      []string
	Introduced []string
}

func absOf(p result.Patch) absPatch {
	a := absPatch{Fixed: vulnIDs(p.Fixed), Introduced: vulnIDs(p.Introduced)}
	for _, u := range p.PackageUpdates {
		alias, _ := u.Type.GetAttr(dep.KnownAs)
		a.Updates = append(a.Updates, Upd{u.Name, u.VersionFrom, u.VersionTo, u.Transitive, alias})
	}
	return a
}

func (a absPatch) event(k int) Event {
	ups := []any{}
	for _, u := range a.Updates {
		ups = append(ups, []any{u.Name, u.From, u.To, u.Transitive, u.Alias})
	}
	return Event{"ev": "Patch", "k": k, "updates": ups, "fixed": a.Fixed, "introduced": a.Introduced}
}

// parkClient is the resolve.Client handed to the code under test. When the watchdog gives up on a run it is
// marked dead: every later call parks its goroutine forever, so a diverging loop in /repo stops burning a core.
type parkClient struct {
	resolve.Client
	dead atomic.Bool
	mu   *sync.Mutex // serialises access to the underlying LocalClient (it sorts its own slices in place on reads)
}

func (p *parkClient) lock() func() {
	if p.mu == nil {
		return func() {}
	}
	p.mu.Lock()
	return p.mu.Unlock
}

func (p *parkClient) park() {
	if p.dead.Load() {
		select {}
	}
}

// Every slice is handed out as a fresh copy: the deps.dev Maven resolver sorts and reverses the slice it gets from
// Versions() in place (maven.findMatch) while the concurrent patch attempts of ComputePatches read the same
// slice (override.getVersionsGreater); resolve.LocalClient returns its internal slices and even sorts them in place
// inside MatchingVersions, so without the copy and the mutex the attempts race and results become schedule
// dependent (observed: ~0.3 % of runs). Production clients (clients/resolution/*) build a new slice per call,
// so this is a property of the test client, not of /repo.
func (p *parkClient) Version(ctx context.Context, vk resolve.VersionKey) (resolve.Version, error) {
	p.park()
	defer p.lock()()
	return p.Client.Version(ctx, vk)
}
func (p *parkClient) Versions(ctx context.Context, pk resolve.PackageKey) ([]resolve.Version, error) {
	p.park()
	defer p.lock()()
	v, err := p.Client.Versions(ctx, pk)
	return slices.Clone(v), err
}
func (p *parkClient) Requirements(ctx context.Context, vk resolve.VersionKey) ([]resolve.RequirementVersion, error) {
	p.park()
	defer p.lock()()
	v, err := p.Client.Requirements(ctx, vk)
	out := make([]resolve.RequirementVersion, len(v))
	for i := range v {
		out[i] = v[i]
		out[i].Type = v[i].Type.Clone()
	}
	return out, err
}
func (p *parkClient) MatchingVersions(ctx context.Context, vk resolve.VersionKey) ([]resolve.Version, error) {
	p.park()
	defer p.lock()()
	v, err := p.Client.MatchingVersions(ctx, vk)
	return slices.Clone(v), err
}

var hangsSeen atomic.Int64

// watchdog runs f (with a fresh parkable client); reports hang=true only if two consecutive runs both exceed
// the limit. After 5 confirmed hangs in this process the remaining cases use a 5 s limit (still ~1000x the
// median run time) so that a diverging tree does not stall the whole check.
func watchdog(limit time.Duration, base resolve.Client, f func(cl resolve.Client)) (hang bool, panicked string) {
	return watchdogN(limit, 2, base, f)
}

func watchdogN(limit time.Duration, tries int, base resolve.Client, f func(cl resolve.Client)) (hang bool, panicked string) {
	if hangsSeen.Load() >= 5 && limit > 5*time.Second {
		limit = 5 * time.Second
	}
	for attempt := 0; attempt < tries; attempt++ {
		pc := &parkClient{Client: base}
		done := make(chan string, 1)
		go func() { done <- Safely(func() { f(pc) }) }()
		select {
		case p := <-done:
			return false, p
		case <-time.After(limit):
			pc.dead.Store(true)
		}
	}
	if tries > 1 {
		hangsSeen.Add(1)
	}
	return true, ""
}

func copyFile(src, dstDir string) (string, error) {
	b, err := os.ReadFile(src)
	if err != nil {
		return "", err
	}
	if err := os.MkdirAll(dstDir, 0o755); err != nil {
		return "", err
	}
	dst := filepath.Join(dstDir, filepath.Base(src))
	// a local parent pom travels with the manifest
	if pb, err := os.ReadFile(filepath.Join(filepath.Dir(src), "parent", "pom.xml")); err == nil {
		if err := os.MkdirAll(filepath.Join(dstDir, "parent"), 0o755); err != nil {
			return "", err
		}
		if err := os.WriteFile(filepath.Join(dstDir, "parent", "pom.xml"), pb, 0o644); err != nil {
			return "", err
		}
	}
	return dst, os.WriteFile(dst, b, 0o644)
}

// maxHangs: once this many scenarios have been confirmed as non-terminating the remaining ones are not run
// (each costs two watchdog periods and a leaked goroutine); they are reported as skipped, never as verdicts.
const maxHangs = 12

func runCase(e *Env, idx int, c *Case, limit time.Duration) (*Out, error) {
	t0 := time.Now()
	s := &c.Scenario
	out := &Out{I: idx, ID: c.ID, Trace: []Event{}, Findings: []Finding{}}
	if hangsSeen.Load() >= maxHangs {
		out.Skipped = true
		return out, nil
	}
	ctx := context.Background()
	dir := filepath.Join(e.Tmp, "rf", strconv.Itoa(idx))
	defer os.RemoveAll(dir)
	emit := func(ev Event) { out.Trace = append(out.Trace, ev) }
	fail := func(prop, kind, what string, data any) {
		out.Findings = append(out.Findings, Finding{prop, kind, what, data})
	}

	baseCl, err := s.client()
	if err != nil {
		return nil, fmt.Errorf("schema: %w", err)
	}
	// never marked dead; the only holder of the LocalClient, hence the mutex lives here
	var cl resolve.Client = &parkClient{Client: baseCl, mu: &sync.Mutex{}}
	if msg := s.checkRendering(); msg != "" {
		out.Harness = msg
	}
	vm := newMatcher(s)
	lv := [][]string{}
	{
		keys := []string{}
		for k := range s.Opts.Levels {
			keys = append(keys, k)
		}
		sort.Strings(keys)
		for _, k := range keys {
			lv = append(lv, []string{k, s.Opts.Levels[k]})
		}
	}
	strs := func(x []string) []string {
		if x == nil {
			return []string{}
		}
		return x
	}
	emit(Event{"ev": "Reset", "case": c.ID, "eco": s.Eco, "mode": s.Opts.Mode, "strategy": s.Opts.Strategy, "levels": lv,
		"maxUpgrades": s.Opts.MaxUpgrades, "noIntroduce": s.Opts.NoIntroduce, "explicit": strs(s.Opts.Explicit), "ignore": strs(s.Opts.Ignore)})

	orig, err := writeManifest(filepath.Join(dir, "orig"), s.Eco, s.Manifest, s.Layout)
	if err != nil {
		return nil, err
	}
	reqs0, err := verifhooks.RemRequirements(orig)
	if err != nil {
		return nil, fmt.Errorf("harness manifest unreadable: %w", err)
	}
	emit(Event{"ev": "Parsed", "reqs": reqPairs(reqs0)})

	finish := func() (*Out, error) {
		emit(Event{"ev": "Done"})
		out.Stats.Ms = float64(time.Since(t0).Microseconds()) / 1000
		return out, nil
	}

	// resolution of manifest variants with the real reader + resolver
	variant := 0
	resolveReqs := func(reqs []MReq) (*resolve.Graph, error) {
		variant++
		p, err := writeManifest(filepath.Join(dir, "v"+strconv.Itoa(variant)), s.Eco, reqs, s.Layout)
		if err != nil {
			return nil, err
		}
		return verifhooks.RemResolve(ctx, p, cl, options.ResolutionOptions{})
	}

	// ---- C11 judgement of one patch: Base/After for every update ----
	judge := func(k int, a absPatch, afterGraph *resolve.Graph, applied bool) {
		for ui, u := range a.Updates {
			out.Stats.Updates++
			var rest []Upd
			rest = append(rest, a.Updates[:ui]...)
			rest = append(rest, a.Updates[ui+1:]...)
			lvl := LevelOf(s.Opts.Levels, u.Name)
			var baseS, afterS, baseSrc string
			// a package the manifest requires twice (npm: plainly and through an alias; pom.xml: in dependencies and in
			// dependencyManagement) has no single "version it resolves to": the resolution-based base is undefined for it
			// (in update mode each declaration is judged by its own requirement strings if they are versions)
			twice := s.declaredTwice(u.Name)
			if twice && s.Eco != "npm" {
				// pom.xml: only when the declaration's own strings can be judged; else the resolution-based judgement stays
				_, okF := ParseVer(u.From)
				_, okT := ParseVer(u.To)
				twice = okF && okT
			}
			bg, berr := resolveReqs(applyUpdates(s.Eco, s.Manifest, rest))
			if berr == nil && !twice {
				if v, ok, _ := resolvedVersion(bg, u.Name, u.Alias); ok {
					baseS, baseSrc = v, "graph"
				}
			}
			ag := afterGraph
			if ag == nil {
				ag, _ = resolveReqs(applyUpdates(s.Eco, s.Manifest, a.Updates))
			}
			if ag != nil && !twice {
				if v, ok, _ := resolvedVersion(ag, u.Name, u.Alias); ok {
					afterS = v
				}
			}
			if s.Opts.Mode == "update" && (baseS == "" || afterS == "") {
				// a requirement that is not part of the resolved graph (dependencyManagement entry): the
				// requirement itself is the version the package would resolve to
				if _, ok := ParseVer(u.From); ok {
					if _, ok2 := ParseVer(u.To); ok2 {
						baseS, afterS, baseSrc = u.From, u.To, "req"
					}
				}
			}
			toKind, toAt := reqShape(u.To)
			emit(Event{"ev": "Base", "k": k, "name": u.Name, "base": verTuple(baseS), "after": verTuple(afterS), "src": baseSrc,
				"toKind": toKind, "toAt": toAt, "hard": s.hardInvolved(u), "fromRange": isRangeReq(u.From)})
			data := map[string]any{"patch": a, "update": u, "base": baseS, "after": afterS, "level": lvl, "applied": applied}
			if lvl == "none" {
				fail("C11", "none-touched", fmt.Sprintf("package %s is configured as not upgradable but the patch rewrites its requirement %q -> %q", u.Name, u.From, u.To), data)
			}
			bv, ok1 := ParseVer(baseS)
			av, ok2 := ParseVer(afterS)
			if !ok1 || !ok2 {
				out.Stats.UndefinedBase++
				continue
			}
			if Cmp(av, bv) <= 0 {
				fail("C11", "not-upward", fmt.Sprintf("%s resolves to %s with the change and to %s without it: not strictly upward", u.Name, afterS, baseS), data)
				continue
			}
			if d := Diff(bv, av); !Allows(lvl, d) && lvl != "none" {
				fail("C11", "level-exceeded", fmt.Sprintf("%s moves %s -> %s (a %s change) but its upgrade level is %s", u.Name, baseS, afterS, d, lvl), data)
			}
		}
	}

	if s.Opts.Mode == "update" {
		work, err := copyFile(orig, filepath.Join(dir, "work"))
		if err != nil {
			return nil, err
		}
		var res result.Result
		var rerr error
		hang, pan := watchdog(limit, cl, func(cl resolve.Client) {
			res, rerr = guidedremediation.Update(options.UpdateOptions{Manifest: work, ResolveClient: cl,
				UpgradeConfig: upgradeConfig(s.Opts.Levels), IgnoreDev: s.Opts.IgnoreDev})
		})
		if hang {
			fail("C11", "hang", "Update did not terminate within the watchdog limit (twice)", nil)
			return finish()
		}
		if pan != "" {
			fail("C11", "panic", "Update panicked: "+pan, nil)
			out.Stats.Err = "panic"
			return finish()
		}
		if rerr != nil {
			out.Stats.Err = rerr.Error()
			emit(Event{"ev": "Error", "msg": rerr.Error()})
			return finish()
		}
		a := absPatch{Fixed: []string{}, Introduced: []string{}}
		if len(res.Patches) == 1 {
			a = absOf(res.Patches[0])
		}
		out.Stats.Proposed, out.Stats.Applied = 1, 1
		emit(a.event(1))
		emit(Event{"ev": "Chosen", "ks": []int{1}})
		reqsW, err := verifhooks.RemRequirements(work)
		if err != nil {
			fail("C12", "unreadable", "the manifest written by Update cannot be read back: "+err.Error(), nil)
			return finish()
		}
		emit(Event{"ev": "Written", "reqs": reqPairs(reqsW)})
		var ag *resolve.Graph
		if g, err := verifhooks.RemResolve(ctx, work, cl, options.ResolutionOptions{}); err == nil {
			ag = g
			emit(Event{"ev": "Resolved", "run": 2, "graph": graphPairs(g)})
		}
		judge(1, a, ag, true)
		return finish()
	}

	// ---- FixVulns ----
	strat := strategy.Strategy(s.Opts.Strategy)
	an1, err := verifhooks.RemAnalyse(ctx, orig, cl, vm, s.remOpts(false))
	if err != nil {
		// the manifest does not resolve: nothing to remediate; FixVulns must fail too (and terminate)
		work, _ := copyFile(orig, filepath.Join(dir, "work"))
		var rerr error
		hang, pan := watchdog(limit, cl, func(cl resolve.Client) {
			_, rerr = guidedremediation.FixVulns(options.FixVulnsOptions{Manifest: work, Strategy: strat, MatcherClient: vm,
				ResolveClient: cl, MaxUpgrades: s.Opts.MaxUpgrades, NoIntroduce: s.Opts.NoIntroduce, RemediationOptions: s.remOpts(false)})
		})
		if hang {
			fail("C11", "hang", "FixVulns did not terminate within the watchdog limit (twice)", nil)
		} else if pan != "" {
			fail("C11", "panic", "FixVulns panicked: "+pan, nil)
		} else if rerr == nil {
			out.Harness = "analysis hook failed (" + err.Error() + ") but FixVulns succeeded"
		}
		out.Stats.Err = err.Error()
		emit(Event{"ev": "Error", "msg": err.Error()})
		return finish()
	}
	emit(Event{"ev": "Resolved", "run": 1, "graph": graphPairs(an1.Graph)})

	var proposedR []result.Patch
	var perr error
	if hang, pan := watchdogN(limit, 1, cl, func(cl resolve.Client) {
		proposedR, perr = verifhooks.RemComputePatches(ctx, strat, orig, cl, vm, s.remOpts(false))
	}); hang || pan != "" {
		// the strategy diverges or crashes while computing patches: confirm it on the real entry point
		work, _ := copyFile(orig, filepath.Join(dir, "work"))
		hang2, pan2 := watchdog(limit, cl, func(cl resolve.Client) {
			_, _ = guidedremediation.FixVulns(options.FixVulnsOptions{Manifest: work, Strategy: strat, MatcherClient: vm,
				ResolveClient: cl, MaxUpgrades: s.Opts.MaxUpgrades, NoIntroduce: s.Opts.NoIntroduce, RemediationOptions: s.remOpts(false)})
		})
		switch {
		case hang2:
			fail("C11", "hang", "FixVulns did not terminate within the watchdog limit (twice)", nil)
		case pan2 != "":
			fail("C11", "panic", "FixVulns panicked: "+pan2, nil)
		default:
			out.Harness = "ComputePatches hook hung/panicked but FixVulns returned: " + pan
		}
		out.Stats.Err = "hang-or-panic"
		return finish()
	}
	if perr != nil {
		out.Stats.Err = perr.Error()
		emit(Event{"ev": "Error", "msg": perr.Error()})
		return finish()
	}
	var proposed []absPatch
	for _, p := range proposedR {
		proposed = append(proposed, absOf(p))
	}

	work, err := copyFile(orig, filepath.Join(dir, "work"))
	if err != nil {
		return nil, err
	}
	var res result.Result
	var rerr error
	hang, pan := watchdog(limit, cl, func(cl resolve.Client) {
		res, rerr = guidedremediation.FixVulns(options.FixVulnsOptions{Manifest: work, Strategy: strat, MatcherClient: vm,
			ResolveClient: cl, MaxUpgrades: s.Opts.MaxUpgrades, NoIntroduce: s.Opts.NoIntroduce, RemediationOptions: s.remOpts(false)})
	})
	if hang {
		fail("C11", "hang", "FixVulns did not terminate within the watchdog limit (twice)", nil)
		return finish()
	}
	if pan != "" {
		fail("C11", "panic", "FixVulns panicked: "+pan, nil)
		out.Stats.Err = "panic"
		return finish()
	}
	if rerr != nil {
		out.Stats.Err = rerr.Error()
		emit(Event{"ev": "Error", "msg": rerr.Error()})
		return finish()
	}
	ids1 := vulnIDs(res.Vulnerabilities)
	unact := []string{}
	for _, v := range res.Vulnerabilities {
		if v.Unactionable {
			unact = append(unact, v.ID)
		}
	}
	sort.Strings(unact)
	hookIDs := append([]string{}, an1.VulnIDs...)
	sort.Strings(hookIDs)
	if !reflect.DeepEqual(hookIDs, ids1) {
		out.Harness = fmt.Sprintf("analysis hook and FixVulns disagree on the initial vulnerabilities: %v vs %v", hookIDs, ids1)
	}
	out.Stats.Vulns1 = len(ids1)
	emit(Event{"ev": "Vulns", "run": 1, "ids": ids1, "unactionable": unact})

	// proposed patches, then the applied ones mapped to their index among the proposed
	all := append([]absPatch(nil), proposed...)
	var ks []int
	for _, p := range res.Patches {
		a := absOf(p)
		k := 0
		for i := range all {
			if reflect.DeepEqual(all[i], a) {
				k = i + 1
				break
			}
		}
		if k == 0 {
			all = append(all, a)
			k = len(all)
		}
		ks = append(ks, k)
	}
	out.Stats.Proposed, out.Stats.Applied = len(proposed), len(ks)
	for i, a := range all {
		emit(a.event(i + 1))
	}
	if ks == nil {
		ks = []int{}
	}
	emit(Event{"ev": "Chosen", "ks": ks, "proposed": len(proposed)})

	// what was written, and the fresh analysis of it (same filters, no upgrades allowed)
	reqsW, err := verifhooks.RemRequirements(work)
	if err != nil {
		fail("C12", "unreadable", "the manifest written by FixVulns cannot be read back: "+err.Error(), nil)
		return finish()
	}
	emit(Event{"ev": "Written", "reqs": reqPairs(reqsW)})
	var g2 *resolve.Graph
	if an2, err := verifhooks.RemAnalyse(ctx, work, cl, vm, s.remOpts(true)); err == nil {
		g2 = an2.Graph
		emit(Event{"ev": "Resolved", "run": 2, "graph": graphPairs(an2.Graph)})
	}
	second, err := copyFile(work, filepath.Join(dir, "second"))
	if err != nil {
		return nil, err
	}
	var res2 result.Result
	var rerr2 error
	hang, pan = watchdog(limit, cl, func(cl resolve.Client) {
		res2, rerr2 = guidedremediation.FixVulns(options.FixVulnsOptions{Manifest: second, Strategy: strat, MatcherClient: vm,
			ResolveClient: cl, MaxUpgrades: 1, RemediationOptions: s.remOpts(true)})
	})
	switch {
	case hang:
		fail("C11", "hang", "analysis-only FixVulns on the written manifest did not terminate (twice)", nil)
	case pan != "":
		fail("C12", "panic", "analysis-only FixVulns on the written manifest panicked: "+pan, nil)
	case rerr2 != nil:
		fail("C12", "reanalysis-failed", "the manifest written by FixVulns cannot be analysed again: "+rerr2.Error(), map[string]any{"applied": ks})
	default:
		if len(res2.Patches) != 0 {
			out.Harness = "analysis-only run applied a patch"
		}
		ids2 := vulnIDs(res2.Vulnerabilities)
		emit(Event{"ev": "Vulns", "run": 2, "ids": ids2, "unactionable": ids2})
		// ---- C12 in Go ----
		if len(ks) == 1 {
			a := all[ks[0]-1]
			want := map[string]bool{}
			for _, id := range ids1 {
				want[id] = true
			}
			for _, id := range a.Fixed {
				delete(want, id)
			}
			for _, id := range a.Introduced {
				want[id] = true
			}
			wl := []string{}
			for id := range want {
				wl = append(wl, id)
			}
			sort.Strings(wl)
			if !reflect.DeepEqual(wl, ids2) {
				fail("C12", "reanalysis-differs", fmt.Sprintf("patch reported fixed=%v introduced=%v on vulnerabilities %v, so a fresh analysis must find %v; it finds %v",
					a.Fixed, a.Introduced, ids1, wl, ids2), map[string]any{"patch": a, "first": ids1, "second": ids2, "expected": wl})
			}
		}
		if len(ks) == 0 {
			if !reflect.DeepEqual(reqPairs(reqs0), reqPairs(reqsW)) {
				fail("C12", "changed-without-patch", fmt.Sprintf("no patch reported but the requirements changed: %v -> %v", reqPairs(reqs0), reqPairs(reqsW)), nil)
			}
			if !reflect.DeepEqual(ids1, ids2) {
				fail("C12", "reanalysis-differs", fmt.Sprintf("no patch reported; first analysis %v, fresh analysis %v", ids1, ids2), nil)
			}
		}
	}
	for _, k := range ks {
		for _, id := range all[k-1].Fixed {
			for _, u := range unact {
				if u == id {
					fail("C12", "fixed-unactionable", fmt.Sprintf("vulnerability %s is fixed by an applied patch but marked unactionable", id), map[string]any{"patch": all[k-1]})
				}
			}
		}
	}
	if s.Opts.MaxUpgrades > 0 && len(ks) > s.Opts.MaxUpgrades {
		fail("C12", "too-many-patches", fmt.Sprintf("%d patches applied with maxUpgrades=%d", len(ks), s.Opts.MaxUpgrades), nil)
	}

	// ---- C11 for every proposed and applied patch ----
	for i, a := range all {
		applied := false
		for _, k := range ks {
			if k == i+1 {
				applied = true
			}
		}
		var ag *resolve.Graph
		if applied && len(ks) == 1 {
			ag = g2 // the graph of the manifest FixVulns really wrote
		}
		judge(i+1, a, ag, applied)
	}
	// ---- C11 for the APPLIED COMBINATION: when several patches were applied, every applied update is also judged
	// against the resolution with all the other applied updates but not that one (the manifest really written) ----
	if len(ks) >= 2 && g2 != nil {
		type au struct {
			k int
			u Upd
		}
		var allUps []au
		for _, k := range ks {
			for _, u := range all[k-1].Updates {
				allUps = append(allUps, au{k, u})
			}
		}
		for i, x := range allUps {
			var rest []Upd
			for j, y := range allUps {
				if j != i {
					rest = append(rest, y.u)
				}
			}
			u := x.u
			lvl := LevelOf(s.Opts.Levels, u.Name)
			var baseS, afterS string
			if s.declaredTwice(u.Name) {
				continue
			}
			if bg, err := resolveReqs(applyUpdates(s.Eco, s.Manifest, rest)); err == nil {
				if v, ok, _ := resolvedVersion(bg, u.Name, u.Alias); ok {
					baseS = v
				}
			}
			if v, ok, _ := resolvedVersion(g2, u.Name, u.Alias); ok {
				afterS = v
			}
			toKind, toAt := reqShape(u.To)
			emit(Event{"ev": "Base", "k": x.k, "name": u.Name, "base": verTuple(baseS), "after": verTuple(afterS), "src": "applied-combination",
				"toKind": toKind, "toAt": toAt, "hard": s.hardInvolved(u), "fromRange": isRangeReq(u.From)})
			bv, ok1 := ParseVer(baseS)
			av, ok2 := ParseVer(afterS)
			if !ok1 || !ok2 {
				continue
			}
			data := map[string]any{"patch": all[x.k-1], "update": u, "base": baseS, "after": afterS, "level": lvl, "applied": true, "combination": ks}
			if Cmp(av, bv) <= 0 {
				fail("C11", "not-upward", fmt.Sprintf("with the %d applied patches together, %s resolves to %s; without this applied change (all others kept) it resolves to %s: not strictly upward", len(ks), u.Name, afterS, baseS), data)
			} else if d := Diff(bv, av); !Allows(lvl, d) && lvl != "none" {
				fail("C11", "level-exceeded", fmt.Sprintf("with the %d applied patches together, %s moves %s -> %s (a %s change) but its upgrade level is %s", len(ks), u.Name, baseS, afterS, d, lvl), data)
			}
		}
	}
	return finish()
}

func init() {
	Register("fix", func(e *Env) error {
		scalibrlog.SetLogger(quiet{})
		limit := 60 * time.Second
		if v, ok := e.Args["watchdog_ms"]; ok {
			if n, err := strconv.Atoi(v); err == nil {
				limit = time.Duration(n) * time.Millisecond
			}
		}
		return MapCases(e, func(idx int, raw []byte) (any, error) {
			var c Case
			if err := json.Unmarshal(raw, &c); err != nil {
				return nil, err
			}
			return runCase(e, idx, &c, limit)
		})
	})
}
