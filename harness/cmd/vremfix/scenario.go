package main

// Scenario records (DESIGN.md Appendix B.1, Remediation) and their materialisation: a deps.dev schema
// text -> resolve.LocalClient, an OSV matcher evaluated by the harness itself, a manifest on disk.

import (
	"context"
	"fmt"
	"os"
	"path/filepath"
	"sort"
	"strings"

	"deps.dev/util/resolve"
	"deps.dev/util/resolve/dep"
	"deps.dev/util/resolve/schema"
	"github.com/google/osv-scalibr/extractor"
	"github.com/ossf/osv-schema/bindings/go/osvschema"
)

type UVersion struct {
	V      string      `json:"v"`
	Deps   [][2]string `json:"deps"` // [name, requirement] in declaration order
	Latest bool        `json:"latest,omitempty"`
}

type UPackage struct {
	Name     string     `json:"name"`
	Versions []UVersion `json:"versions"`
}

type MReq struct {
	Name  string `json:"name"`
	Req   string `json:"req"`
	Group string `json:"group,omitempty"` // "" | "dev" | "mgmt"
}

type SVuln struct {
	ID     string      `json:"id"`
	Pkg    string      `json:"pkg"`
	Events [][2]string `json:"events"` // ["introduced","0"], ["fixed","1.1.0"], ["last_affected","1.0.1"]
	Sev    string      `json:"sev,omitempty"`
	// Aliases of the record (two entries with one ID describe one record that affects two packages)
	Aliases []string `json:"aliases,omitempty"`
}

type SOpts struct {
	Mode        string            `json:"mode"`     // "fix" | "update"
	Strategy    string            `json:"strategy"` // "relax" | "override"
	Levels      map[string]string `json:"levels"`
	MaxUpgrades int               `json:"maxUpgrades"`
	NoIntroduce bool              `json:"noIntroduce"`
	Ignore      []string          `json:"ignore"`
	Explicit    []string          `json:"explicit"`
	DevDeps     bool              `json:"devDeps"`
	MaxDepth    int               `json:"maxDepth"`
	MinSeverity float64           `json:"minSeverity"`
	IgnoreDev   bool              `json:"ignoreDev"` // update only
}

type Scenario struct {
	Eco      string     `json:"eco"`
	Universe []UPackage `json:"universe"`
	Manifest []MReq     `json:"manifest"`
	Vulns    []SVuln    `json:"vulns"`
	Opts     SOpts      `json:"opts"`
	// Layout: pom.xml layout variant: "" | "profile-mgmt" (an inactive profile with its own dependencyManagement)
	// | "profile-mgmt-active" (the same, activeByDefault) | "profile-props" (a profile with properties only)
	Layout string `json:"layout,omitempty"`
}

type Case struct {
	Fam      string   `json:"fam"`
	Cfg      string   `json:"cfg"`
	ID       string   `json:"id"`
	Scenario Scenario `json:"scenario"`
}

func (s *Scenario) system() resolve.System {
	if s.Eco == "Maven" {
		return resolve.Maven
	}
	return resolve.NPM
}

// schemaText renders the universe in the deps.dev schema grammar (tab indented).
func (s *Scenario) schemaText() string {
	var b strings.Builder
	for _, p := range s.Universe {
		fmt.Fprintf(&b, "%s\n", p.Name)
		for _, v := range p.Versions {
			fmt.Fprintf(&b, "\t%s\n", v.V)
			if v.Latest && s.Eco == "npm" {
				b.WriteString("\t\tATTR: Tags latest\n")
			}
			for _, d := range v.Deps {
				fmt.Fprintf(&b, "\t\t%s@%s\n", d[0], d[1])
			}
		}
	}
	return b.String()
}

func (s *Scenario) client() (resolve.Client, error) {
	sch, err := schema.New(s.schemaText(), s.system())
	if err != nil {
		return nil, err
	}
	return sch.NewClient(), nil
}

const rootNpm = "verif-root"
const rootMavenG, rootMavenA = "verif", "root"

// renderManifest writes the abstract manifest (ordered requirement list) as package.json / pom.xml.
// This is the harness's own renderer; it shares nothing with the writers under test.
func renderManifest(eco string, reqs []MReq, layout string) (name string, content string) {
	if eco == "Maven" {
		var b strings.Builder
		b.WriteString("<project>\n  <modelVersion>4.0.0</modelVersion>\n")
		fmt.Fprintf(&b, "  <groupId>%s</groupId>\n  <artifactId>%s</artifactId>\n  <version>1.0.0</version>\n", rootMavenG, rootMavenA)
		dep := func(r MReq, indent string) {
			g, a, _ := strings.Cut(r.Name, ":")
			fmt.Fprintf(&b, "%s<dependency>\n%s  <groupId>%s</groupId>\n%s  <artifactId>%s</artifactId>\n%s  <version>%s</version>\n", indent, indent, g, indent, a, indent, r.Req)
			if r.Group == "dev" {
				fmt.Fprintf(&b, "%s  <scope>test</scope>\n", indent)
			}
			fmt.Fprintf(&b, "%s</dependency>\n", indent)
		}
		hasMgmt := false
		for _, r := range reqs {
			if r.Group == "mgmt" {
				hasMgmt = true
			}
		}
		// layout "profile-mgmt-prop": the managed requirements live in an activeByDefault profile and take their
		// versions from properties defined in that same profile
		inProfile := layout == "profile-mgmt-prop" && hasMgmt
		if hasMgmt && !inProfile {
			b.WriteString("  <dependencyManagement>\n    <dependencies>\n")
			for _, r := range reqs {
				if r.Group == "mgmt" {
					dep(r, "      ")
				}
			}
			b.WriteString("    </dependencies>\n  </dependencyManagement>\n")
		}
		b.WriteString("  <dependencies>\n")
		for _, r := range reqs {
			if r.Group != "mgmt" {
				dep(r, "    ")
			}
		}
		b.WriteString("  </dependencies>\n")
		if inProfile {
			b.WriteString("  <profiles>\n    <profile>\n      <id>managed</id>\n      <activation>\n        <activeByDefault>true</activeByDefault>\n      </activation>\n      <properties>\n")
			k := 0
			for _, r := range reqs {
				if r.Group == "mgmt" {
					k++
					fmt.Fprintf(&b, "        <m%d.version>%s</m%d.version>\n", k, r.Req, k)
				}
			}
			b.WriteString("      </properties>\n      <dependencyManagement>\n        <dependencies>\n")
			k = 0
			for _, r := range reqs {
				if r.Group == "mgmt" {
					k++
					dep(MReq{Name: r.Name, Req: fmt.Sprintf("${m%d.version}", k)}, "          ")
				}
			}
			b.WriteString("        </dependencies>\n      </dependencyManagement>\n    </profile>\n  </profiles>\n")
		} else if strings.HasPrefix(layout, "profile-") {
			b.WriteString("  <profiles>\n    <profile>\n      <id>extra</id>\n")
			if layout == "profile-mgmt-active" {
				b.WriteString("      <activation>\n        <activeByDefault>true</activeByDefault>\n      </activation>\n")
			}
			if layout == "profile-props" {
				b.WriteString("      <properties>\n        <extra.version>1.0.0</extra.version>\n      </properties>\n")
			} else {
				b.WriteString("      <dependencyManagement>\n        <dependencies>\n          <dependency>\n            <groupId>pkg</groupId>\n            <artifactId>unrelated</artifactId>\n            <version>1.0.0</version>\n          </dependency>\n        </dependencies>\n      </dependencyManagement>\n")
			}
			b.WriteString("    </profile>\n  </profiles>\n")
		}
		b.WriteString("</project>\n")
		return "pom.xml", b.String()
	}
	var b strings.Builder
	fmt.Fprintf(&b, "{\n  \"name\": %q,\n  \"version\": \"1.0.0\"", rootNpm)
	for _, sect := range []struct{ key, group string }{{"dependencies", ""}, {"devDependencies", "dev"}} {
		first := true
		for _, r := range reqs {
			if r.Group != sect.group {
				continue
			}
			if first {
				fmt.Fprintf(&b, ",\n  %q: {\n", sect.key)
				first = false
			} else {
				b.WriteString(",\n")
			}
			fmt.Fprintf(&b, "    %q: %q", r.Name, r.Req)
		}
		if !first {
			b.WriteString("\n  }")
		}
	}
	b.WriteString("\n}\n")
	return "package.json", b.String()
}

func writeManifest(dir, eco string, reqs []MReq, layout string) (string, error) {
	if err := os.MkdirAll(dir, 0o755); err != nil {
		return "", err
	}
	if eco == "Maven" && layout == "local-parent" {
		// the requirements live in a local parent pom (parent/pom.xml), the scanned pom only refers to it
		par := filepath.Join(dir, "parent")
		if err := os.MkdirAll(par, 0o755); err != nil {
			return "", err
		}
		_, pc := renderManifest(eco, reqs, "")
		pc = strings.Replace(pc, "<artifactId>"+rootMavenA+"</artifactId>\n  <version>1.0.0</version>\n", "<artifactId>"+rootMavenA+"-parent</artifactId>\n  <version>1.0.0</version>\n  <packaging>pom</packaging>\n", 1)
		if err := os.WriteFile(filepath.Join(par, "pom.xml"), []byte(pc), 0o644); err != nil {
			return "", err
		}
		child := fmt.Sprintf("<project>\n  <modelVersion>4.0.0</modelVersion>\n  <parent>\n    <groupId>%s</groupId>\n    <artifactId>%s-parent</artifactId>\n    <version>1.0.0</version>\n    <relativePath>parent/pom.xml</relativePath>\n  </parent>\n  <artifactId>%s</artifactId>\n</project>\n", rootMavenG, rootMavenA, rootMavenA)
		p := filepath.Join(dir, "pom.xml")
		return p, os.WriteFile(p, []byte(child), 0o644)
	}
	name, content := renderManifest(eco, reqs, layout)
	p := filepath.Join(dir, name)
	return p, os.WriteFile(p, []byte(content), 0o644)
}

// applyUpdates returns reqs with the updates applied the way the strategy documents them: an update of a
// requirement the manifest has rewrites it; any other update (Maven override of a transitive package)
// becomes a dependencyManagement entry.
type Upd struct {
	Name, From, To string
	Transitive     bool
	Alias          string // npm: the manifest key when the requirement is an alias ("key": "npm:Name@From")
}

func applyUpdates(eco string, reqs []MReq, ups []Upd) []MReq {
	out := append([]MReq(nil), reqs...)
	for _, u := range ups {
		found := false
		exact := false
		if eco != "npm" {
			n := 0
			for i := range out {
				if out[i].Name == u.Name {
					n++
					exact = exact || out[i].Req == u.From
				}
			}
			exact = exact && n >= 2
		}
	declarations:
		for i := range out {
			switch {
			case eco == "npm" && u.Alias != "":
				if out[i].Name == u.Alias && strings.HasPrefix(out[i].Req, "npm:"+u.Name+"@") {
					out[i].Req = "npm:" + u.Name + "@" + u.To
					found = true
				}
			case eco == "npm":
				if out[i].Name == u.Name && !strings.HasPrefix(out[i].Req, "npm:") {
					out[i].Req = u.To
					found = true
				}
			default:
				// a pom.xml may require one package in several places (dependencies and dependencyManagement): an
				// update belongs to the declaration that carries its From requirement
				if out[i].Name == u.Name && (!exact || out[i].Req == u.From) {
					out[i].Req = u.To
					found = true
					if exact {
						break declarations
					}
				}
			}
		}
		if !found {
			out = append(out, MReq{Name: u.Name, Req: u.To, Group: "mgmt"})
		}
	}
	return out
}

// ---------------------------------------------------------------------------------------------
// OSV evaluation by the harness (OSV schema, "evaluation" pseudo-code: events in version order;
// introduced <= v switches on, fixed <= v switches off, last_affected < v switches off).

type osvMatcher struct {
	eco   string
	vulns []SVuln
	recs  []*osvschema.Vulnerability
	hook  func(pkgs []*extractor.Package)
}

type ev struct {
	kind string
	zero bool
	v    Ver
}

func affects(sv SVuln, v Ver) bool {
	var evs []ev
	for _, e := range sv.Events {
		if e[1] == "0" {
			evs = append(evs, ev{kind: e[0], zero: true})
			continue
		}
		pv, ok := ParseVer(e[1])
		if !ok {
			continue
		}
		evs = append(evs, ev{kind: e[0], v: pv})
	}
	sort.SliceStable(evs, func(i, j int) bool {
		if evs[i].zero != evs[j].zero {
			return evs[i].zero
		}
		if evs[i].zero {
			return false
		}
		return Cmp(evs[i].v, evs[j].v) < 0
	})
	aff := false
	for _, e := range evs {
		c := 1 // v compared with the event version
		if !e.zero {
			c = Cmp(v, e.v)
		}
		switch e.kind {
		case "introduced":
			if c >= 0 {
				aff = true
			}
		case "fixed":
			if c >= 0 {
				aff = false
			}
		case "last_affected":
			if c > 0 {
				aff = false
			}
		}
	}
	return aff
}

const cvssHigh = "CVSS:3.1/AV:N/AC:L/PR:N/UI:N/S:U/C:H/I:H/A:H"
const cvssLow = "CVSS:3.1/AV:L/AC:H/PR:H/UI:R/S:U/C:L/I:N/A:N"

func newMatcher(s *Scenario) *osvMatcher {
	m := &osvMatcher{eco: s.Eco, vulns: s.Vulns}
	byID := map[string]*osvschema.Vulnerability{}
	for _, sv := range s.Vulns {
		rec := byID[sv.ID]
		if rec == nil {
			rec = &osvschema.Vulnerability{ID: sv.ID, Aliases: append([]string(nil), sv.Aliases...)}
			byID[sv.ID] = rec
		}
		af := osvschema.Affected{}
		af.Package.Name = sv.Pkg
		af.Package.Ecosystem = s.Eco
		typ := osvschema.RangeEcosystem
		if s.Eco == "npm" {
			typ = osvschema.RangeSemVer
		}
		rg := osvschema.Range{Type: typ}
		for _, e := range sv.Events {
			switch e[0] {
			case "introduced":
				rg.Events = append(rg.Events, osvschema.Event{Introduced: e[1]})
			case "fixed":
				rg.Events = append(rg.Events, osvschema.Event{Fixed: e[1]})
			case "last_affected":
				rg.Events = append(rg.Events, osvschema.Event{LastAffected: e[1]})
			}
		}
		af.Ranges = append(af.Ranges, rg)
		rec.Affected = append(rec.Affected, af)
		switch sv.Sev {
		case "high":
			rec.Severity = []osvschema.Severity{{Type: osvschema.SeverityCVSSV3, Score: cvssHigh}}
		case "low":
			rec.Severity = []osvschema.Severity{{Type: osvschema.SeverityCVSSV3, Score: cvssLow}}
		}
		m.recs = append(m.recs, rec)
	}
	return m
}

func (m *osvMatcher) MatchVulnerabilities(ctx context.Context, pkgs []*extractor.Package) ([][]*osvschema.Vulnerability, error) {
	if m.hook != nil {
		m.hook(pkgs)
	}
	out := make([][]*osvschema.Vulnerability, len(pkgs))
	for i, p := range pkgs {
		v, ok := ParseVer(p.Version)
		if !ok {
			continue
		}
		for j, sv := range m.vulns {
			if sv.Pkg == p.Name && affects(sv, v) {
				out[i] = append(out[i], m.recs[j])
			}
		}
	}
	return out, nil
}

// ---------------------------------------------------------------------------------------------
// graph projection

type GNode struct {
	Name string
	Ver  string
}

func graphNodes(g *resolve.Graph) []GNode {
	var out []GNode
	for i, n := range g.Nodes {
		if i == 0 {
			continue
		}
		out = append(out, GNode{n.Version.Name, n.Version.Version})
	}
	return out
}

// declaredTwice: the npm manifest requires the package more than once (plainly and / or through aliases).
func (s *Scenario) declaredTwice(name string) bool {
	if s.Eco != "npm" {
		// pom.xml, bulk update: the package is required in dependencies and in dependencyManagement
		if s.Opts.Mode != "update" {
			return false
		}
		n := 0
		for _, r := range s.Manifest {
			if r.Name == name {
				n++
			}
		}
		return n >= 2
	}
	n := 0
	for _, r := range s.Manifest {
		if (r.Name == name && !strings.HasPrefix(r.Req, "npm:")) || strings.HasPrefix(r.Req, "npm:"+name+"@") {
			n++
		}
	}
	return n >= 2
}

// resolvedVersion: the version `name` resolves to in g: the node a root edge for that name points to,
// else the unique node of that name. ok=false if absent, ambiguous=true if several versions and no root edge.
func resolvedVersion(g *resolve.Graph, name string, alias string) (ver string, ok bool, ambiguous bool) {
	for _, e := range g.Edges {
		if e.From == 0 && g.Nodes[e.To].Version.Name == name {
			ka, _ := e.Type.GetAttr(dep.KnownAs)
			if ka == alias {
				return g.Nodes[e.To].Version.Version, true, false
			}
		}
	}
	seen := map[string]bool{}
	for i, n := range g.Nodes {
		if i != 0 && n.Version.Name == name {
			seen[n.Version.Version] = true
			ver = n.Version.Version
		}
	}
	if len(seen) == 1 {
		return ver, true, false
	}
	return "", false, len(seen) > 1
}

// hardInvolved: some requirement on the updated package, in the universe or the one being rewritten, is a
// Maven hard requirement (a range); class predicate of the Maven soft-version-vs-hard-range findings.
func (s *Scenario) hardInvolved(u Upd) bool {
	isRange := func(r string) bool { return strings.HasPrefix(r, "[") || strings.HasPrefix(r, "(") }
	if s.Eco != "Maven" {
		return false
	}
	if isRange(u.From) {
		return true
	}
	for _, p := range s.Universe {
		for _, v := range p.Versions {
			for _, d := range v.Deps {
				if d[0] == u.Name && isRange(d[1]) {
					return true
				}
			}
		}
	}
	return false
}

// checkRendering validates the harness's own assumption (not an oracle): the version strings it renders are
// ordered by the ecosystem's comparator exactly as their tuples are ordered by Cmp.
func (s *Scenario) checkRendering() string {
	sv := s.system().Semver()
	for _, p := range s.Universe {
		type vv struct {
			t Ver
			s string
		}
		var vs []vv
		for _, v := range p.Versions {
			t, ok := ParseVer(v.V)
			if !ok {
				return "unparseable version in scenario: " + v.V
			}
			vs = append(vs, vv{t, v.V})
		}
		sort.Slice(vs, func(i, j int) bool { return Cmp(vs[i].t, vs[j].t) < 0 })
		for i := 0; i+1 < len(vs); i++ {
			if sv.Compare(vs[i].s, vs[i+1].s) >= 0 {
				return fmt.Sprintf("rendering assumption broken: %s should order before %s in %s", vs[i].s, vs[i+1].s, s.Eco)
			}
		}
	}
	return ""
}

func isRangeReq(r string) bool { return strings.HasPrefix(r, "[") || strings.HasPrefix(r, "(") }
