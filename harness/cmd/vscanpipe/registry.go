package main

// C19 monitor: dumps the plugin registry of the real code as ndjson facts for Registry.tla:
// every built-in plugin with its requirements, what the capability filters keep and what
// ValidateRequirements accepts for every capability tuple, what every advertised name resolves
// to, what EnableRequiredExtractors enables, whether a filtered config validates.

import (
	"bufio"
	"encoding/json"
	"fmt"
	"go/ast"
	"go/parser"
	"go/token"
	"os"
	"path/filepath"
	"reflect"
	"sort"
	"strconv"
	"strings"
	. "verif/harness/hlib"

	scalibr "github.com/google/osv-scalibr"
	"github.com/google/osv-scalibr/detector"
	dl "github.com/google/osv-scalibr/detector/list"
	"github.com/google/osv-scalibr/extractor/filesystem"
	el "github.com/google/osv-scalibr/extractor/filesystem/list"
	"github.com/google/osv-scalibr/extractor/standalone"
	sl "github.com/google/osv-scalibr/extractor/standalone/list"
	"github.com/google/osv-scalibr/plugin"
)

type rgCap struct {
	OS  string `json:"os"`
	Net string `json:"net"`
	DFS bool   `json:"dfs"`
	Run bool   `json:"run"`
}

var rgOSNames = map[plugin.OS]string{plugin.OSAny: "any", plugin.OSLinux: "linux", plugin.OSWindows: "windows", plugin.OSMac: "mac", plugin.OSUnix: "unix"}
var rgNetNames = map[plugin.Network]string{plugin.NetworkAny: "any", plugin.NetworkOffline: "offline", plugin.NetworkOnline: "online"}

func rgCapOf(c *plugin.Capabilities) rgCap {
	if c == nil {
		return rgCap{OS: "nil", Net: "nil"}
	}
	o, ok := rgOSNames[c.OS]
	if !ok {
		o = fmt.Sprintf("os#%d", int(c.OS))
	}
	n, ok := rgNetNames[c.Network]
	if !ok {
		n = fmt.Sprintf("net#%d", int(c.Network))
	}
	return rgCap{OS: o, Net: n, DFS: c.DirectFS, Run: c.RunningSystem}
}

// every capability tuple, including the values documented as requirement-only (OSAny, OSUnix, NetworkAny)
func rgAllCaps() []*plugin.Capabilities {
	out := []*plugin.Capabilities{}
	for _, o := range []plugin.OS{plugin.OSLinux, plugin.OSMac, plugin.OSWindows, plugin.OSAny, plugin.OSUnix} {
		for _, n := range []plugin.Network{plugin.NetworkOffline, plugin.NetworkOnline, plugin.NetworkAny} {
			for _, d := range []bool{false, true} {
				for _, r := range []bool{false, true} {
					out = append(out, &plugin.Capabilities{OS: o, Network: n, DirectFS: d, RunningSystem: r})
				}
			}
		}
	}
	return out
}

type rgPlugin struct {
	ID       int
	Kind     string
	Key      string
	P        plugin.Plugin
	Required []string
}

func rgErr(err error) string {
	if err == nil {
		return ""
	}
	return err.Error()
}

func rgNames[T plugin.Plugin](ps []T) []string {
	out := []string{}
	for _, p := range ps {
		out = append(out, p.Name())
	}
	sort.Strings(out)
	return out
}

// rgNamesNil is rgNames for slices that may hold nil entries (reported as "<nil>").
func rgNamesNil[T plugin.Plugin](ps []T) []string {
	out := []string{}
	for _, p := range ps {
		if any(p) == nil {
			out = append(out, "<nil>")
			continue
		}
		out = append(out, p.Name())
	}
	sort.Strings(out)
	return out
}

// rgScribble overwrites a result the way a caller may (the returned slice is the caller's: sorting, deleting and
// clearing it in place are ordinary uses) and returns it cut to half its length.
func rgScribble[T plugin.Plugin](ps []T) {
	var zero T
	for i := range ps {
		ps[i] = zero
	}
	_ = append(ps[:len(ps)/2], zero)
}

func rgTypes[T plugin.Plugin](ps []T) []string {
	out := []string{}
	for _, p := range ps {
		out = append(out, p.Name()+"="+reflect.TypeOf(p).String())
	}
	sort.Strings(out)
	return out
}

func rgSortedKeys[V any](m map[string]V) []string {
	ks := []string{}
	for k := range m {
		ks = append(ks, k)
	}
	sort.Strings(ks)
	return ks
}

// the exported collections of the three definition files (library API)
var rgFSCollections = map[string]el.InitMap{
	"CppSource": el.CppSource, "JavaSource": el.JavaSource, "JavaArtifact": el.JavaArtifact,
	"JavascriptSource": el.JavascriptSource, "JavascriptArtifact": el.JavascriptArtifact,
	"PythonSource": el.PythonSource, "PythonArtifact": el.PythonArtifact, "GoSource": el.GoSource, "GoArtifact": el.GoArtifact,
	"DartSource": el.DartSource, "ErlangSource": el.ErlangSource, "ElixirSource": el.ElixirSource, "HaskellSource": el.HaskellSource,
	"RSource": el.RSource, "RubySource": el.RubySource, "RustSource": el.RustSource, "SBOM": el.SBOM,
	"DotnetSource": el.DotnetSource, "DotnetArtifact": el.DotnetArtifact, "PHPSource": el.PHPSource, "SwiftSource": el.SwiftSource,
	"Containers": el.Containers, "OS": el.OS, "Misc": el.Misc, "SourceCode": el.SourceCode, "Artifact": el.Artifact,
	"Default": el.Default, "All": el.All,
}
var rgSACollections = map[string]sl.InitMap{
	"Windows": sl.Windows, "WindowsExperimental": sl.WindowsExperimental, "OSExperimental": sl.OSExperimental,
	"Containers": sl.Containers, "Default": sl.Default, "All": sl.All,
}
var rgDetCollections = map[string]dl.InitMap{
	"CIS": dl.CIS, "Govulncheck": dl.Govulncheck, "Untested": dl.Untested, "Weakcreds": dl.Weakcreds,
	"Default": dl.Default, "All": dl.All,
}

// rgParseList reads a definition file: the string-literal keys of the name map (the advertised group
// names; plugin names are the keys of the exported All) and the exported collection identifiers.
func rgParseList(path, namesVar string) (groups []string, unparsed int, exported []string, err error) {
	fset := token.NewFileSet()
	f, err := parser.ParseFile(fset, path, nil, 0)
	if err != nil {
		return nil, 0, nil, err
	}
	for _, d := range f.Decls {
		gd, ok := d.(*ast.GenDecl)
		if !ok || gd.Tok != token.VAR {
			continue
		}
		for _, s := range gd.Specs {
			vs := s.(*ast.ValueSpec)
			for i, n := range vs.Names {
				if n.Name == namesVar && i < len(vs.Values) {
					ast.Inspect(vs.Values[i], func(x ast.Node) bool {
						cl, ok := x.(*ast.CompositeLit)
						if !ok {
							return true
						}
						for _, e := range cl.Elts {
							kv, ok := e.(*ast.KeyValueExpr)
							if !ok {
								continue
							}
							if bl, ok := kv.Key.(*ast.BasicLit); ok && bl.Kind == token.STRING {
								if s, err := strconv.Unquote(bl.Value); err == nil {
									groups = append(groups, s)
									continue
								}
							}
							unparsed++
						}
						return false
					})
				} else if n.IsExported() && i < len(vs.Values) {
					switch v := vs.Values[i].(type) {
					case *ast.CompositeLit:
						if id, ok := v.Type.(*ast.Ident); ok && id.Name == "InitMap" {
							exported = append(exported, n.Name)
						}
					case *ast.CallExpr:
						if id, ok := v.Fun.(*ast.Ident); ok && id.Name == "concat" {
							exported = append(exported, n.Name)
						}
					case *ast.Ident:
						exported = append(exported, n.Name)
					}
				}
			}
		}
	}
	return groups, unparsed, exported, nil
}

// rgCollectionsFor: the exported collections a group name denotes: identifiers equal to the name,
// or to name+"Source" / name+"Artifact", ignoring case ("java" -> JavaSource, JavaArtifact; "os" -> OS).
func rgCollectionsFor(group string, idents []string) []string {
	out := []string{}
	for _, id := range idents {
		l := strings.ToLower(id)
		if l == group || l == group+"source" || l == group+"artifact" {
			out = append(out, id)
		}
	}
	sort.Strings(out)
	return out
}

func init() {
	Register("registry-dump", func(e *Env) error {
		repo := e.Args["repo"]
		if repo == "" {
			repo = "/repo"
		}
		outf, err := os.Create(e.Out)
		if err != nil {
			return err
		}
		defer outf.Close()
		w := bufio.NewWriterSize(outf, 1<<20)
		defer w.Flush()
		nfacts := 0
		emit := func(m map[string]any) {
			nfacts++
			m["n"] = nfacts
			b, err := json.Marshal(m)
			if err != nil {
				panic(err)
			}
			w.Write(b)
			w.WriteByte('\n')
		}
		caps := rgAllCaps()

		// ---- plugins ----
		plugins := []*rgPlugin{}
		fsAll := []filesystem.Extractor{}
		saAll := []standalone.Extractor{}
		detAll := []detector.Detector{}
		for _, k := range rgSortedKeys(el.All) {
			for _, in := range el.All[k] {
				x := in()
				fsAll = append(fsAll, x)
				plugins = append(plugins, &rgPlugin{Kind: "fs", Key: k, P: x})
			}
		}
		for _, k := range rgSortedKeys(sl.All) {
			for _, in := range sl.All[k] {
				x := in()
				saAll = append(saAll, x)
				plugins = append(plugins, &rgPlugin{Kind: "standalone", Key: k, P: x})
			}
		}
		for _, k := range rgSortedKeys(dl.All) {
			for _, in := range dl.All[k] {
				x := in()
				detAll = append(detAll, x)
				req := x.RequiredExtractors()
				if req == nil {
					req = []string{}
				}
				plugins = append(plugins, &rgPlugin{Kind: "detector", Key: k, P: x, Required: req})
			}
		}
		for i, p := range plugins {
			p.ID = i + 1
			req := p.Required
			if req == nil {
				req = []string{}
			}
			emit(map[string]any{"fact": "plugin", "id": p.ID, "kind": p.Kind, "key": p.Key, "name": p.P.Name(), "version": p.P.Version(),
				"req": rgCapOf(p.P.Requirements()), "required": req, "gotype": p.P.Name() + "=" + reflect.TypeOf(p.P).String()})
		}

		// ---- filters and ValidateRequirements, for every capability tuple ----
		for _, c := range caps {
			emit(map[string]any{"fact": "filter", "kind": "fs", "cap": rgCapOf(c),
				"from_caps": rgNames(el.FromCapabilities(c)), "filter_all": rgNames(el.FilterByCapabilities(fsAll, c))})
			emit(map[string]any{"fact": "filter", "kind": "standalone", "cap": rgCapOf(c),
				"from_caps": rgNames(sl.FromCapabilities(c)), "filter_all": rgNames(sl.FilterByCapabilities(saAll, c))})
			emit(map[string]any{"fact": "filter", "kind": "detector", "cap": rgCapOf(c),
				"from_caps": rgNames(dl.FromCapabilities(c)), "filter_all": rgNames(dl.FilterByCapabilities(detAll, c))})
		}
		for _, p := range plugins {
			for _, c := range caps {
				verr := plugin.ValidateRequirements(p.P, c)
				emit(map[string]any{"fact": "validate", "id": p.ID, "kind": p.Kind, "name": p.P.Name(), "cap": rgCapOf(c), "ok": verr == nil, "err": rgErr(verr)})
			}
		}

		// ---- advertised names: keys of the exported All + the group names of the definition file ----
		type defn struct {
			kind, file, namesVar string
			allKeys              []string
			collections          map[string][]string // identifier -> member plugin names
		}
		memb := func(kind string) map[string][]string {
			out := map[string][]string{}
			switch kind {
			case "fs":
				for id, m := range rgFSCollections {
					xs := []filesystem.Extractor{}
					for _, k := range rgSortedKeys(m) {
						for _, in := range m[k] {
							xs = append(xs, in())
						}
					}
					out[id] = rgNames(xs)
				}
			case "standalone":
				for id, m := range rgSACollections {
					xs := []standalone.Extractor{}
					for _, k := range rgSortedKeys(m) {
						for _, in := range m[k] {
							xs = append(xs, in())
						}
					}
					out[id] = rgNames(xs)
				}
			default:
				for id, m := range rgDetCollections {
					xs := []detector.Detector{}
					for _, k := range rgSortedKeys(m) {
						for _, in := range m[k] {
							xs = append(xs, in())
						}
					}
					out[id] = rgNames(xs)
				}
			}
			return out
		}
		defs := []defn{
			{"fs", "extractor/filesystem/list/list.go", "extractorNames", rgSortedKeys(el.All), memb("fs")},
			{"standalone", "extractor/standalone/list/list.go", "extractorNames", rgSortedKeys(sl.All), memb("standalone")},
			{"detector", "detector/list/list.go", "detectorNames", rgSortedKeys(dl.All), memb("detector")},
		}
		for _, d := range defs {
			groups, unparsed, exported, err := rgParseList(filepath.Join(repo, d.file), d.namesVar)
			if err != nil {
				return err
			}
			sort.Strings(groups)
			unbound := []string{}
			for _, id := range exported {
				if _, ok := d.collections[id]; !ok {
					unbound = append(unbound, id)
				}
			}
			emit(map[string]any{"fact": "registry", "kind": d.kind, "plugin_names": d.allKeys, "group_names": groups,
				"unparsed_keys": unparsed, "exported_collections": exported, "unbound_collections": unbound})
			isKey := map[string]bool{}
			for _, k := range d.allKeys {
				isKey[k] = true
			}
			type adv struct{ name, as string }
			advs := []adv{}
			for _, k := range d.allKeys {
				advs = append(advs, adv{k, "plugin"})
			}
			for _, g := range groups {
				if !isKey[g] {
					advs = append(advs, adv{g, "group"})
				}
			}
			for _, a := range advs {
				m := map[string]any{"fact": "resolve", "kind": d.kind, "name": a.name, "adv": a.as}
				var names, types []string
				var rerr error
				single := map[string]any{"tried": false, "ok": false, "name": "", "err": ""}
				switch d.kind {
				case "fs":
					xs, err := el.ExtractorsFromNames([]string{a.name})
					names, types, rerr = rgNames(xs), rgTypes(xs), err
					x, serr := el.ExtractorFromName(a.name)
					single["tried"], single["ok"], single["err"] = true, serr == nil, rgErr(serr)
					if serr == nil {
						single["name"] = x.Name()
					}
				case "standalone":
					xs, err := sl.ExtractorsFromNames([]string{a.name})
					names, types, rerr = rgNames(xs), rgTypes(xs), err
					x, serr := sl.ExtractorFromName(a.name)
					single["tried"], single["ok"], single["err"] = true, serr == nil, rgErr(serr)
					if serr == nil {
						single["name"] = x.Name()
					}
				default:
					xs, err := dl.DetectorsFromNames([]string{a.name})
					names, types, rerr = rgNames(xs), rgTypes(xs), err
				}
				m["ok"], m["err"], m["resolved"], m["resolved_types"], m["single"] = rerr == nil, rgErr(rerr), names, types, single
				emit(m)
			}
			for _, g := range groups {
				if isKey[g] {
					continue
				}
				cols := rgCollectionsFor(g, rgSortedKeys(d.collections))
				if len(cols) == 0 {
					continue
				}
				set := map[string]bool{}
				for _, c := range cols {
					for _, n := range d.collections[c] {
						set[n] = true
					}
				}
				emit(map[string]any{"fact": "group", "kind": d.kind, "name": g, "collections": cols, "members": rgSortedKeys(set)})
			}
		}

		// ---- EnableRequiredExtractors on a config holding only one detector ----
		for _, p := range plugins {
			if p.Kind != "detector" {
				continue
			}
			cfg := &scalibr.ScanConfig{Detectors: []detector.Detector{p.P.(detector.Detector)}}
			var eerr error
			pan := Safely(func() { eerr = cfg.EnableRequiredExtractors() })
			emit(map[string]any{"fact": "enable_required", "id": p.ID, "detector": p.P.Name(), "ok": eerr == nil && pan == "", "err": rgErr(eerr) + pan,
				"fs": rgNames(cfg.FilesystemExtractors), "standalone": rgNames(cfg.StandaloneExtractors)})
		}

		// ---- several detectors configured together, nothing else enabled: one call has to enable every required extractor.
		// The sets: all detectors in registry order and in reverse, and every capability tuple's filtered detectors.
		var detSetAll []detector.Detector
		var detIDs []int
		for _, p := range plugins {
			if p.Kind == "detector" {
				detSetAll = append(detSetAll, p.P.(detector.Detector))
				detIDs = append(detIDs, p.ID)
			}
		}
		idOf := map[string]int{}
		for i, d := range detSetAll {
			idOf[d.Name()] = detIDs[i]
		}
		emitSet := func(label string, ds []detector.Detector) {
			ids := []int{}
			for _, d := range ds {
				ids = append(ids, idOf[d.Name()])
			}
			cfg := &scalibr.ScanConfig{Detectors: ds}
			var eerr error
			pan := Safely(func() { eerr = cfg.EnableRequiredExtractors() })
			emit(map[string]any{"fact": "enable_required_set", "set": label, "ids": ids, "ok": eerr == nil && pan == "", "err": rgErr(eerr) + pan,
				"fs": rgNames(cfg.FilesystemExtractors), "standalone": rgNames(cfg.StandaloneExtractors)})
		}
		emitSet("all", append([]detector.Detector(nil), detSetAll...))
		rev := append([]detector.Detector(nil), detSetAll...)
		for i, j := 0, len(rev)-1; i < j; i, j = i+1, j-1 {
			rev[i], rev[j] = rev[j], rev[i]
		}
		emitSet("all-reversed", rev)
		for _, c := range caps {
			emitSet("filtered:"+fmt.Sprint(rgCapOf(c)), dl.FromCapabilities(c))
		}

		// ---- a ScanConfig built from the filtered sets validates (before and after Scan()'s auto-enabling) ----
		for _, c := range caps {
			cfg := &scalibr.ScanConfig{
				FilesystemExtractors: el.FromCapabilities(c),
				StandaloneExtractors: sl.FromCapabilities(c),
				Detectors:            dl.FromCapabilities(c),
				Capabilities:         c,
			}
			v1 := cfg.ValidatePluginRequirements()
			en := cfg.EnableRequiredExtractors()
			v2 := cfg.ValidatePluginRequirements()
			emit(map[string]any{"fact": "validate_filtered", "cap": rgCapOf(c), "ok": v1 == nil, "err": rgErr(v1),
				"enable_ok": en == nil, "enable_err": rgErr(en), "after_enable_ok": v2 == nil, "after_enable_err": rgErr(v2),
				"fs_after_enable": rgNames(cfg.FilesystemExtractors), "standalone_after_enable": rgNames(cfg.StandaloneExtractors)})
		}
		// ---- second round, last of all (it may damage shared state of a defective registry): the answers of a first
		// call are overwritten by the caller, then the same question is asked again; the filter must keep exactly the
		// right plug-ins on every call, not only on the first. Inputs are handed over as copies.
		round2 := func(kind string, c *plugin.Capabilities, from, filt func() []string) {
			a, b := []string{"<panic>"}, []string{"<panic>"}
			Safely(func() { from(); a = from() })
			Safely(func() { filt(); b = filt() })
			emit(map[string]any{"fact": "filter", "kind": kind, "cap": rgCapOf(c), "round": 2, "from_caps": a, "filter_all": b})
		}
		for _, c := range caps {
			round2("fs", c,
				func() []string { r := el.FromCapabilities(c); n := rgNamesNil(r); rgScribble(r); return n },
				func() []string {
					r := el.FilterByCapabilities(append([]filesystem.Extractor(nil), fsAll...), c)
					n := rgNamesNil(r)
					rgScribble(r)
					return n
				})
			round2("standalone", c,
				func() []string { r := sl.FromCapabilities(c); n := rgNamesNil(r); rgScribble(r); return n },
				func() []string {
					r := sl.FilterByCapabilities(append([]standalone.Extractor(nil), saAll...), c)
					n := rgNamesNil(r)
					rgScribble(r)
					return n
				})
			round2("detector", c,
				func() []string { r := dl.FromCapabilities(c); n := rgNamesNil(r); rgScribble(r); return n },
				func() []string {
					r := dl.FilterByCapabilities(append([]detector.Detector(nil), detAll...), c)
					n := rgNamesNil(r)
					rgScribble(r)
					return n
				})
		}
		fmt.Fprintf(os.Stderr, "registry-dump: %d facts, %d plugins, %d capability tuples\n", nfacts, len(plugins), len(caps))
		return nil
	})
}
