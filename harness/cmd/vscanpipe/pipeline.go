package main

// C20 replay: every TLC-generated scenario (inventory + detector behaviours) is materialised as
// harness extractors / detectors and run through the real scalibr.New().Scan(); the ScanResult and
// what each detector saw are projected to the abstract shape of ScanPipeline.tla's `expect`.

import (
	"context"
	"encoding/json"
	"errors"
	"fmt"
	"reflect"
	"sort"
	"strconv"
	"strings"
	"sync"
	"testing/fstest"
	. "verif/harness/hlib"

	scalibr "github.com/google/osv-scalibr"
	"github.com/google/osv-scalibr/detector"
	"github.com/google/osv-scalibr/extractor"
	"github.com/google/osv-scalibr/extractor/filesystem"
	"github.com/google/osv-scalibr/extractor/standalone"
	scalibrfs "github.com/google/osv-scalibr/fs"
	"github.com/google/osv-scalibr/inventory"
	"github.com/google/osv-scalibr/packageindex"
	"github.com/google/osv-scalibr/plugin"
	"github.com/google/osv-scalibr/purl"
)

type spPkg struct {
	Src  string `json:"src"`
	Type string `json:"type"`
	Name string `json:"name"`
}

type spDet struct {
	Name string   `json:"name"`
	Err  bool     `json:"err"`
	Out  []string `json:"out"`
}

// spRender says how the abstract scenario is spelled: which Advisory field carries the x/y difference,
// which AdvisoryID field carries the A/B difference, whether extractors without packages are enabled.
type spRender struct {
	Body      int  `json:"body"`
	ID        int  `json:"id"`
	EnableAll bool `json:"enable_all"`
	// SameExtra: every finding carries the same (empty) Extra text, as real detectors mostly do; the findings are then
	// told apart by their target only
	SameExtra bool `json:"same_extra"`
	// SameVersion: every package has the same version, so two packages with one type and name have identical
	// package URLs (the same library at two locations); both must be in the index
	SameVersion bool `json:"same_version"`
	// PreTag: findings arrive with a stale Detectors value (a detector that reuses its finding objects)
	PreTag bool `json:"pre_tag"`
	// ReqExt: every detector declares a required extractor (the first filesystem extractor, which is then always
	// enabled), as the package-based built-in detectors do; whether a detector runs must not depend on that
	ReqExt bool `json:"req_ext"`
}

type spCase struct {
	Pkgs   []spPkg   `json:"pkgs"`
	Dets   []spDet   `json:"dets"`
	Render *spRender `json:"render"`
}

const nBodyRender = 7
const nIDRender = 2

var spTypes = map[string]string{"t1": purl.TypePyPi, "t2": purl.TypeDebian, "t0": purl.TypeNPM}
var spNames = map[string]string{"n1": "alpha", "n2": "beta", "n0": "gamma"}

// package metadata: identity (position in the scenario) and the purl the extractor will report
type spMeta struct {
	ID         int
	Type, Name string // abstract; "-" = no purl
}

// ---- extractors ----
type spExtractorBase struct {
	name string
	pkgs []int // scenario positions (1-based) this extractor emits
	c    *spCase
}

func (e *spExtractorBase) Name() string                       { return e.name }
func (e *spExtractorBase) Version() int                       { return 1 }
func (e *spExtractorBase) Requirements() *plugin.Capabilities { return &plugin.Capabilities{} }
func (e *spExtractorBase) Ecosystem(p *extractor.Package) string { return "" }
func (e *spExtractorBase) ToPURL(p *extractor.Package) *purl.PackageURL {
	m, ok := p.Metadata.(*spMeta)
	if !ok || m.Type == "-" {
		return nil
	}
	return &purl.PackageURL{Type: spTypes[m.Type], Name: spNames[m.Name], Version: p.Version}
}
func (e *spExtractorBase) version(id int) string {
	if e.c.Render != nil && e.c.Render.SameVersion {
		return "1.0.0"
	}
	return fmt.Sprintf("1.0.%d", id)
}
func (e *spExtractorBase) emit(loc string) inventory.Inventory {
	inv := inventory.Inventory{}
	for _, id := range e.pkgs {
		k := e.c.Pkgs[id-1]
		// Package.Name deliberately differs from the purl name: the index is keyed by the purl
		inv.Packages = append(inv.Packages, &extractor.Package{
			Name:      fmt.Sprintf("pkg-%d", id),
			Version:   e.version(id),
			Locations: []string{loc},
			Metadata:  &spMeta{ID: id, Type: k.Type, Name: k.Name},
		})
	}
	return inv
}

type spFSExtractor struct {
	spExtractorBase
	file string
}

func (e *spFSExtractor) FileRequired(api filesystem.FileAPI) bool { return api.Path() == e.file }
func (e *spFSExtractor) Extract(ctx context.Context, input *filesystem.ScanInput) (inventory.Inventory, error) {
	return e.emit(input.Path), nil
}

type spSAExtractor struct{ spExtractorBase }

func (e *spSAExtractor) Extract(ctx context.Context, input *standalone.ScanInput) (inventory.Inventory, error) {
	return e.emit("standalone"), nil
}

// ---- advisories ----
func spAdvisory(id, body string, r *spRender) *detector.Advisory {
	a := &detector.Advisory{
		ID:             &detector.AdvisoryID{Publisher: "CVE", Reference: "CVE-0000-0001"},
		Type:           detector.TypeVulnerability,
		Title:          "title",
		Description:    "description",
		Recommendation: "recommendation",
		Sev:            &detector.Severity{Severity: detector.SeverityMedium, CVSSV3: &detector.CVSS{BaseScore: 5.0}},
	}
	if id == "B" {
		if r.ID == 0 {
			a.ID.Reference = "CVE-0000-0002"
		} else {
			a.ID.Publisher = "GHSA" // same reference, other publisher: still another advisory id
		}
	}
	if body == "y" {
		switch r.Body {
		case 0:
			a.Title = "title'"
		case 1:
			a.Description = "description'"
		case 2:
			a.Recommendation = "recommendation'"
		case 3:
			a.Sev.Severity = detector.SeverityHigh
		case 4:
			a.Type = detector.TypeCISFinding
		case 5:
			a.Sev.CVSSV3.BaseScore = 9.0
		case 6:
			a.Sev = nil
		}
	}
	return a
}

func spFinding(kind, det string, pos int, r *spRender) *detector.Finding {
	f := &detector.Finding{
		Target: &detector.TargetDetails{Location: []string{fmt.Sprintf("loc/%s/%d", det, pos)}},
		Extra:  fmt.Sprintf("%s#%d", det, pos),
	}
	if r != nil && r.SameExtra {
		f.Extra = ""
	}
	if r != nil && r.PreTag {
		f.Detectors = []string{"zz-stale-detector"}
	}
	switch kind {
	case "noadv":
	case "noid":
		f.Adv = spAdvisory("A", "x", r)
		f.Adv.ID = nil
	default:
		f.Adv = spAdvisory(kind[:1], kind[1:], r)
	}
	return f
}

// ---- detectors ----
type spIndexAnswers struct {
	All      []int                       `json:"all"`
	OfType   map[string][]int            `json:"oftype"`
	Specific map[string]map[string][]int `json:"specific"`
}

type spDetector struct {
	d     spDet
	ver   int
	r     *spRender
	mu    sync.Mutex
	calls int
	seen  []*spIndexAnswers
}

func (d *spDetector) Name() string                       { return d.d.Name }
func (d *spDetector) Version() int                       { return d.ver }
func (d *spDetector) Requirements() *plugin.Capabilities { return &plugin.Capabilities{} }
func (d *spDetector) RequiredExtractors() []string {
	if d.r != nil && d.r.ReqExt {
		return []string{"verif/fs1"}
	}
	return nil
}

func spIDs(ps []*extractor.Package) []int {
	out := []int{}
	for _, p := range ps {
		id := -1
		if p != nil {
			if m, ok := p.Metadata.(*spMeta); ok {
				id = m.ID
			}
		}
		out = append(out, id)
	}
	sort.Ints(out)
	return out
}

func (d *spDetector) Scan(ctx context.Context, root *scalibrfs.ScanRoot, px *packageindex.PackageIndex) ([]*detector.Finding, error) {
	a := &spIndexAnswers{OfType: map[string][]int{}, Specific: map[string]map[string][]int{}}
	if px != nil {
		a.All = spIDs(px.GetAll())
		for t, ct := range spTypes {
			a.OfType[t] = spIDs(px.GetAllOfType(ct))
			a.Specific[t] = map[string][]int{}
			for n, cn := range spNames {
				a.Specific[t][n] = spIDs(px.GetSpecific(cn, ct))
			}
		}
	}
	d.mu.Lock()
	d.calls++
	d.seen = append(d.seen, a)
	d.mu.Unlock()
	var out []*detector.Finding // freshly allocated on every call
	for j, k := range d.d.Out {
		out = append(out, spFinding(k, d.d.Name, j+1, d.r))
	}
	var err error
	if d.d.Err {
		err = errors.New("detector " + d.d.Name + " failed")
	}
	return out, err
}

// ---- projection ----
type spObsFinding struct {
	K   string   `json:"k"`
	Det string   `json:"det"`
	Pos int      `json:"pos"`
	Tag []string `json:"tag"`
}

// spClassify maps a reported finding back to its abstract kind; anything that is not exactly what a
// detector returned (advisory, target, extra) is reported as "altered:<why>".
func spClassify(f *detector.Finding, r *spRender) spObsFinding {
	if f == nil {
		return spObsFinding{K: "nil-finding", Tag: []string{}}
	}
	o := spObsFinding{K: "?", Tag: append([]string{}, f.Detectors...)}
	parts := strings.SplitN(f.Extra, "#", 2)
	if r != nil && r.SameExtra && f.Extra == "" && f.Target != nil && len(f.Target.Location) == 1 {
		if lp := strings.Split(f.Target.Location[0], "/"); len(lp) == 3 && lp[0] == "loc" {
			parts = []string{lp[1], lp[2]}
		}
	}
	if len(parts) == 2 {
		o.Det = parts[0]
		o.Pos, _ = strconv.Atoi(parts[1])
	} else {
		o.Det = "extra:" + f.Extra
	}
	for _, k := range []string{"Ax", "Ay", "Bx", "By", "noadv", "noid"} {
		want := spFinding(k, o.Det, o.Pos, r)
		if reflect.DeepEqual(want.Adv, f.Adv) {
			o.K = k
			if !reflect.DeepEqual(want.Target, f.Target) {
				o.K = "altered:target"
			}
			return o
		}
	}
	o.K = "altered:advisory"
	return o
}

func spStatus(s *plugin.ScanStatus) string {
	if s == nil {
		return "nil"
	}
	switch s.Status {
	case plugin.ScanStatusSucceeded:
		return "succeeded"
	case plugin.ScanStatusFailed:
		return "failed"
	case plugin.ScanStatusPartiallySucceeded:
		return "partial"
	}
	return "unspecified"
}

func spRun(c *spCase) map[string]any {
	r := c.Render
	mfs := fstest.MapFS{
		"fs1.list":     {Data: []byte("1")},
		"dir/fs2.list": {Data: []byte("2")},
		"other.txt":    {Data: []byte("x")},
	}
	fs1 := &spFSExtractor{spExtractorBase{name: "verif/fs1", c: c}, "fs1.list"}
	fs2 := &spFSExtractor{spExtractorBase{name: "verif/fs2", c: c}, "dir/fs2.list"}
	sa := &spSAExtractor{spExtractorBase{name: "verif/sa", c: c}}
	for i, p := range c.Pkgs {
		switch p.Src {
		case "fs1":
			fs1.pkgs = append(fs1.pkgs, i+1)
		case "fs2":
			fs2.pkgs = append(fs2.pkgs, i+1)
		default:
			sa.pkgs = append(sa.pkgs, i+1)
		}
	}
	cfg := &scalibr.ScanConfig{
		Capabilities: &plugin.Capabilities{OS: plugin.OSLinux, Network: plugin.NetworkOffline},
		ScanRoots:    []*scalibrfs.ScanRoot{{FS: mfs}},
	}
	if r.EnableAll || r.ReqExt || len(fs1.pkgs) > 0 {
		cfg.FilesystemExtractors = append(cfg.FilesystemExtractors, fs1)
	}
	if r.EnableAll || len(fs2.pkgs) > 0 {
		cfg.FilesystemExtractors = append(cfg.FilesystemExtractors, fs2)
	}
	if r.EnableAll || len(sa.pkgs) > 0 {
		cfg.StandaloneExtractors = append(cfg.StandaloneExtractors, sa)
	}
	dets := []*spDetector{}
	for i, d := range c.Dets {
		sd := &spDetector{d: d, ver: i + 1, r: r}
		dets = append(dets, sd)
		cfg.Detectors = append(cfg.Detectors, sd)
	}
	var res *scalibr.ScanResult
	obs := map[string]any{}
	if p := Safely(func() { res = scalibr.New().Scan(context.Background(), cfg) }); p != "" {
		obs["panic"] = p
		return obs
	}
	calls := []int{}
	seen := [][]*spIndexAnswers{}
	for _, d := range dets {
		calls = append(calls, d.calls)
		seen = append(seen, d.seen)
	}
	obs["calls"] = calls
	obs["seen"] = seen
	fnd := []spObsFinding{}
	for _, f := range res.Inventory.Findings {
		fnd = append(fnd, spClassify(f, r))
	}
	obs["findings"] = fnd
	// documented output order (C08): findings by (advisory reference, extra), statuses by plugin name
	ordered := true
	for i := 1; i < len(res.Inventory.Findings); i++ {
		a, b := res.Inventory.Findings[i-1], res.Inventory.Findings[i]
		if a == nil || b == nil || a.Adv == nil || b.Adv == nil || a.Adv.ID == nil || b.Adv.ID == nil {
			continue
		}
		if a.Adv.ID.Reference > b.Adv.ID.Reference || (a.Adv.ID.Reference == b.Adv.ID.Reference && a.Extra > b.Extra) {
			ordered = false
		}
	}
	for i := 1; i < len(res.PluginStatus); i++ {
		if res.PluginStatus[i-1] != nil && res.PluginStatus[i] != nil && res.PluginStatus[i-1].Name > res.PluginStatus[i].Name {
			ordered = false
		}
	}
	obs["ordered"] = ordered
	isDet := map[string]bool{}
	for _, d := range c.Dets {
		isDet[d.Name] = true
	}
	st := []map[string]any{}
	for _, s := range res.PluginStatus {
		if s != nil && isDet[s.Name] {
			st = append(st, map[string]any{"name": s.Name, "st": spStatus(s.Status)})
		}
	}
	obs["status"] = st
	obs["scan"] = spStatus(res.Status)
	if res.Status != nil {
		obs["reason"] = res.Status.FailureReason
	}
	// not part of the comparison, kept for diagnosis: what Scan() reported as extracted
	obs["packages"] = spIDs(res.Inventory.Packages)
	return obs
}

func init() {
	Register("pipeline", func(e *Env) error {
		seed, _ := strconv.Atoi(e.Args["seed"])
		return MapCases(e, func(idx int, raw []byte) (any, error) {
			var c spCase
			if err := json.Unmarshal(raw, &c); err != nil {
				return nil, err
			}
			if c.Render == nil {
				k := idx + seed
				c.Render = &spRender{Body: k % nBodyRender, ID: (k / nBodyRender) % nIDRender, EnableAll: (k/(nBodyRender*nIDRender))%2 == 0,
					SameExtra: (k/(nBodyRender*nIDRender*2))%2 == 1, SameVersion: (k/(nBodyRender*nIDRender*4))%2 == 1,
					PreTag: (k/(nBodyRender*nIDRender*8))%2 == 1, ReqExt: k%2 == 1}
			}
			obs := spRun(&c)
			return map[string]any{"i": idx, "render": c.Render, "obs": obs}, nil
		})
	})
}
