package main

// Replay of EnricherRun.tla: every TLC-generated scenario (list of enricher behaviours x kind of scan root) is run
// through the real enricher.Run with recording enrichers; calls, the inventory each enricher was handed, the
// statuses and the error are projected to the abstract shape of the specification's `expect`.

import (
	"context"
	"encoding/json"
	"errors"
	"fmt"
	"path/filepath"
	"strconv"
	"testing/fstest"
	. "verif/harness/hlib"

	"github.com/google/osv-scalibr/enricher"
	"github.com/google/osv-scalibr/extractor"
	scalibrfs "github.com/google/osv-scalibr/fs"
	"github.com/google/osv-scalibr/inventory"
	"github.com/google/osv-scalibr/plugin"
)

type enKind struct {
	Dfs  bool   `json:"dfs"`
	Req  string `json:"req"`
	Err  bool   `json:"err"`
	Adds bool   `json:"adds"`
}

type enCase struct {
	Ens  []enKind `json:"ens"`
	Root string   `json:"root"`
}

type enRec struct {
	pos   int
	kind  enKind
	calls int
	saw   []int
	gotfs bool
	root  string
	order *[]int
}

func (e *enRec) Name() string { return "enr" + strconv.Itoa(e.pos) }
func (e *enRec) Version() int { return e.pos }
func (e *enRec) Requirements() *plugin.Capabilities {
	if e.kind.Req == "nil" {
		return nil
	}
	return &plugin.Capabilities{DirectFS: e.kind.Dfs}
}
func (e *enRec) RequiredPlugins() []string { return nil }
func (e *enRec) Enrich(ctx context.Context, input *enricher.ScanInput, inv *inventory.Inventory) error {
	e.calls++
	*e.order = append(*e.order, e.pos)
	e.saw = []int{}
	for _, p := range inv.Packages {
		n, _ := strconv.Atoi(p.Version)
		e.saw = append(e.saw, n)
	}
	e.gotfs = input != nil && input.FS != nil
	if input != nil {
		e.root = input.Root
	}
	if e.kind.Adds {
		inv.Packages = append(inv.Packages, &extractor.Package{Name: e.Name(), Version: strconv.Itoa(e.pos)})
	}
	if e.kind.Err {
		return errors.New("enricher " + e.Name() + " failed")
	}
	return nil
}

func enRun(c *enCase, tmp string) map[string]any {
	order := []int{}
	recs := []*enRec{}
	cfg := &enricher.Config{}
	for i, k := range c.Ens {
		r := &enRec{pos: i + 1, kind: k, order: &order, saw: []int{}}
		recs = append(recs, r)
		cfg.Enrichers = append(cfg.Enrichers, r)
	}
	switch c.Root {
	case "real":
		// a relative spelling of an existing directory: Run must hand the enrichers an absolute root
		cfg.ScanRoot = &scalibrfs.ScanRoot{FS: scalibrfs.DirFS(tmp), Path: "."}
	case "virtual":
		cfg.ScanRoot = &scalibrfs.ScanRoot{FS: fstest.MapFS{}, Path: ""}
	}
	inv := &inventory.Inventory{}
	var sts []*plugin.Status
	var err error
	out := map[string]any{}
	if p := Safely(func() { sts, err = enricher.Run(context.Background(), cfg, inv) }); p != "" {
		out["panic"] = p
		return out
	}
	switch {
	case err == nil:
		out["err"] = "none"
	case errors.Is(err, enricher.ErrNoDirectFS):
		out["err"] = "nodirectfs"
	default:
		out["err"] = "other: " + err.Error()
	}
	calls, saw, fs := []int{}, [][]int{}, []bool{}
	rootok := true
	for _, r := range recs {
		calls = append(calls, r.calls)
		saw = append(saw, r.saw)
		fs = append(fs, r.gotfs)
		if r.calls > 0 {
			switch c.Root {
			case "real":
				rootok = rootok && filepath.IsAbs(r.root)
			default:
				rootok = rootok && r.root == ""
			}
		}
	}
	status := []map[string]any{}
	for _, s := range sts {
		st := "nil"
		pos := -1
		if s != nil {
			pos = s.Version
			if s.Name != "enr"+strconv.Itoa(s.Version) {
				pos = -2
			}
			if s.Status != nil {
				switch s.Status.Status {
				case plugin.ScanStatusSucceeded:
					st = "ok"
				case plugin.ScanStatusFailed:
					st = "failed"
					if s.Status.FailureReason != fmt.Sprintf("enricher enr%d failed", s.Version) {
						st = "failed-wrong-reason"
					}
				default:
					st = "other"
				}
			}
		}
		status = append(status, map[string]any{"pos": pos, "st": st})
	}
	invn := []int{}
	for _, p := range inv.Packages {
		n, _ := strconv.Atoi(p.Version)
		invn = append(invn, n)
	}
	out["calls"], out["saw"], out["fs"], out["status"], out["inv"], out["order"], out["rootok"] = calls, saw, fs, status, invn, order, rootok
	return out
}

func init() {
	Register("enrich", func(e *Env) error {
		return MapCases(e, func(idx int, raw []byte) (any, error) {
			var c enCase
			if err := json.Unmarshal(raw, &c); err != nil {
				return nil, err
			}
			return map[string]any{"i": idx, "obs": enRun(&c, e.Tmp)}, nil
		})
	})
}
