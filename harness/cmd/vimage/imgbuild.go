package main

// Helpers shared by the image-family replayers: build a v1.Image from abstract tar entry lists.

import (
	"archive/tar"
	"bytes"
	"io"
	"path"
	"strings"

	v1 "github.com/google/go-containerregistry/pkg/v1"
	"github.com/google/go-containerregistry/pkg/v1/empty"
	"github.com/google/go-containerregistry/pkg/v1/mutate"
	"github.com/google/go-containerregistry/pkg/v1/tarball"
)

type tarEntry struct {
	Name     string // raw header name
	Type     byte
	Mode     int64
	Content  []byte
	Linkname string
}

func writeTar(entries []tarEntry) ([]byte, error) {
	var buf bytes.Buffer
	tw := tar.NewWriter(&buf)
	for _, e := range entries {
		h := &tar.Header{Name: e.Name, Typeflag: e.Type, Mode: e.Mode, Size: int64(len(e.Content)), Linkname: e.Linkname, Format: tar.FormatPAX}
		if e.Type != tar.TypeReg {
			h.Size = 0
		}
		if err := tw.WriteHeader(h); err != nil {
			return nil, err
		}
		if e.Type == tar.TypeReg {
			if _, err := tw.Write(e.Content); err != nil {
				return nil, err
			}
		}
	}
	if err := tw.Close(); err != nil {
		return nil, err
	}
	return buf.Bytes(), nil
}

type layerSpec struct {
	Tar   []byte // nil: history-only (empty) layer
	Cmd   string
	Empty bool
}

// buildImage appends the layers (and history entries) to the empty image.
func buildImage(layers []layerSpec, withHistory bool) (v1.Image, error) {
	img := empty.Image
	var adds []mutate.Addendum
	for _, l := range layers {
		if l.Empty {
			if withHistory {
				adds = append(adds, mutate.Addendum{History: v1.History{CreatedBy: l.Cmd, EmptyLayer: true}})
			}
			continue
		}
		data := l.Tar
		layer, err := tarball.LayerFromOpener(func() (io.ReadCloser, error) { return io.NopCloser(bytes.NewReader(data)), nil })
		if err != nil {
			return nil, err
		}
		a := mutate.Addendum{Layer: layer}
		if withHistory {
			a.History = v1.History{CreatedBy: l.Cmd}
		}
		adds = append(adds, a)
	}
	out, err := mutate.Append(img, adds...)
	if err != nil || withHistory {
		return out, err
	}
	// no history at all: mutate.Append records a (zero) history entry per layer, drop them
	cf, err := out.ConfigFile()
	if err != nil {
		return nil, err
	}
	cf = cf.DeepCopy()
	cf.History = nil
	return mutate.ConfigFile(out, cf)
}

// spell renders an absolute abstract path ("/a/b") in one of the tar name spellings.
func spell(p, spelling string, isDir bool) string {
	rel := strings.TrimPrefix(p, "/")
	var s string
	switch spelling {
	case "dot":
		s = "./" + rel
	case "abs":
		s = "/" + rel
	default:
		s = rel
	}
	if isDir {
		s += "/"
	}
	return s
}

func parentsOf(p string) []string {
	var out []string
	for d := path.Dir(p); d != "/" && d != "."; d = path.Dir(d) {
		out = append([]string{d}, out...)
	}
	return out
}
