package main

// Binding (A) for LayerOverlay.tla (C04, image part of C10): every TLC-generated image is written as real
// tar layers, loaded with the real image.FromV1Image, and every chain layer's FS is probed on every path
// of the universe by direct lookup (Stat/Open/ReadDir) and by walking; the squashed unpack and the
// requirer-restricted load are probed too.

import (
	"archive/tar"
	"encoding/json"
	"errors"
	"fmt"
	"io"
	"io/fs"
	"os"
	"path"
	"path/filepath"
	"sort"
	"strings"

	scimage "github.com/google/osv-scalibr/artifact/image/layerscanning/image"
	"github.com/google/osv-scalibr/artifact/image/require"
	"github.com/google/osv-scalibr/artifact/image/unpack"
	scalibrfs "github.com/google/osv-scalibr/fs"
	. "verif/harness/hlib"
)

var ovPaths = []string{"/a", "/a/b", "/a/b/c", "/a/d", "/e"}

// ovNames maps the abstract component names to concrete ones; the "nasty" map uses names that start with the
// characters of the whiteout prefix (".", "w", "h") and contain dots and spaces.
var ovNames = map[string]map[string]string{
	"plain": {},
	"nasty": {"a": "a.d", "b": "hosts", "c": ".cache", "d": "www x", "e": "e"},
}

func ovMap(p, nm string) string {
	m := ovNames[nm]
	parts := strings.Split(p, "/")
	for i, c := range parts {
		if v, ok := m[c]; ok {
			parts[i] = v
		}
	}
	return strings.Join(parts, "/")
}

type ovCase struct {
	Layers [][]struct {
		Path string `json:"path"`
		Kind string `json:"kind"`
	} `json:"layers"`
	Limit int `json:"limit"`
}

type ovLayerObs struct {
	Lookup  []string            `json:"lookup"`  // per universe path, through Stat (+Open/read for files); symlinks are followed
	Walk    []string            `json:"walk"`    // per universe path, as seen by fs.WalkDir (DirEntry type, not followed)
	ReadDir map[string][]string `json:"readdir"` // direct ReadDir of every universe path that lists
	Extra   []string            `json:"extra"`   // anything walked that is not a universe path
}

type ovObs struct {
	Variant   string       `json:"variant"`
	Err       string       `json:"err,omitempty"`
	Panic     string       `json:"panic,omitempty"`
	Layers    []ovLayerObs `json:"layers"`
	Squashed  []string     `json:"squashed,omitempty"` // per universe path: regular-file kind in the unpacked dir, or "-"
	SquashErr string       `json:"squash_err,omitempty"`
	Required  []string     `json:"required,omitempty"` // final view when loaded with Requirer = {ReqPath}
	ReqPath   string       `json:"req_path,omitempty"`
	MaxOnDisk int64        `json:"max_on_disk"` // largest regular file found under ExtractDir
	CleanedUp bool         `json:"cleaned_up"`
}

func ovTar(layer []struct {
	Path string `json:"path"`
	Kind string `json:"kind"`
}, spelling string, explicitParents bool, nm string) ([]byte, error) {
	var ents []tarEntry
	seenDir := map[string]bool{}
	for _, e0 := range layer {
		e := e0
		e.Path = ovMap(e0.Path, nm)
		if explicitParents {
			for _, d := range parentsOf(e.Path) {
				if !seenDir[d] {
					seenDir[d] = true
					ents = append(ents, tarEntry{Name: spell(d, spelling, true), Type: tar.TypeDir, Mode: 0755})
				}
			}
		}
		switch e.Kind {
		case "f1":
			ents = append(ents, tarEntry{Name: spell(e.Path, spelling, false), Type: tar.TypeReg, Mode: 0644, Content: []byte("1")})
		case "f2":
			ents = append(ents, tarEntry{Name: spell(e.Path, spelling, false), Type: tar.TypeReg, Mode: 0755, Content: []byte("22")})
		case "dir":
			seenDir[e.Path] = true
			ents = append(ents, tarEntry{Name: spell(e.Path, spelling, true), Type: tar.TypeDir, Mode: 0755})
		case "link":
			ents = append(ents, tarEntry{Name: spell(e.Path, spelling, false), Type: tar.TypeSymlink, Mode: 0777, Linkname: ovMap("/e", nm)})
		case "hl":
			// a hard link names its target relative to the archive root, in the spelling of the entry names
			ents = append(ents, tarEntry{Name: spell(e.Path, spelling, false), Type: tar.TypeLink, Mode: 0644, Linkname: spell(ovMap("/e", nm), spelling, false)})
		case "wh":
			w := path.Join(path.Dir(e.Path), ".wh."+path.Base(e.Path))
			ents = append(ents, tarEntry{Name: spell(w, spelling, false), Type: tar.TypeReg, Mode: 0644})
		case "opq":
			ents = append(ents, tarEntry{Name: spell(path.Join(e.Path, ".wh..wh..opq"), spelling, false), Type: tar.TypeReg, Mode: 0644})
		}
	}
	return writeTar(ents)
}

func kindOfInfo(fi fs.FileInfo, content []byte, haveContent bool) string {
	m := fi.Mode()
	switch {
	case m.IsDir():
		return "dir"
	case m&fs.ModeSymlink != 0:
		return "link"
	case m.IsRegular():
		k := fmt.Sprintf("file(size=%d,perm=%o)", fi.Size(), m.Perm())
		if fi.Size() == 1 && m.Perm() == 0644 && (!haveContent || string(content) == "1") {
			k = "f1"
		}
		if fi.Size() == 2 && m.Perm() == 0755 && (!haveContent || string(content) == "22") {
			k = "f2"
		}
		return k
	}
	return "other:" + m.String()
}

func probeFS(fsys scalibrfs.FS, nm string) ovLayerObs {
	o := ovLayerObs{ReadDir: map[string][]string{}}
	for _, p := range ovPaths {
		rel := strings.TrimPrefix(ovMap(p, nm), "/")
		fi, err := fsys.Stat(rel)
		if err != nil {
			if errors.Is(err, fs.ErrNotExist) {
				o.Lookup = append(o.Lookup, "-")
			} else {
				o.Lookup = append(o.Lookup, "err:"+err.Error())
			}
		} else {
			var content []byte
			have := false
			if fi.Mode().IsRegular() {
				if f, err := fsys.Open(rel); err == nil {
					content, err = io.ReadAll(f)
					f.Close()
					have = err == nil
					if err != nil {
						content = []byte("readerr")
						have = true
					}
				} else {
					content = []byte("openerr")
					have = true
				}
			}
			o.Lookup = append(o.Lookup, kindOfInfo(fi, content, have))
		}
		if ents, err := fsys.ReadDir(rel); err == nil {
			names := []string{}
			rev := map[string]string{}
			for k, v := range ovNames[nm] {
				rev[v] = k
			}
			for _, e := range ents {
				n := e.Name()
				if a, ok := rev[n]; ok {
					n = a
				}
				names = append(names, n)
			}
			sort.Strings(names)
			o.ReadDir[p] = names
		}
	}
	walked := map[string]string{}
	_ = fs.WalkDir(fsys, ".", func(p string, d fs.DirEntry, err error) error {
		if err != nil {
			walked["/"+p] = "walkerr:" + err.Error()
			return nil
		}
		if p == "." {
			return nil
		}
		fi, ierr := d.Info()
		if ierr != nil {
			walked["/"+p] = "infoerr"
			return nil
		}
		walked["/"+p] = kindOfInfo(fi, nil, false)
		return nil
	})
	for _, p := range ovPaths {
		if k, ok := walked[ovMap(p, nm)]; ok {
			o.Walk = append(o.Walk, k)
			delete(walked, ovMap(p, nm))
		} else {
			o.Walk = append(o.Walk, "-")
		}
	}
	for p, k := range walked {
		o.Extra = append(o.Extra, p+"="+k)
	}
	sort.Strings(o.Extra)
	return o
}

func maxFileUnder(dir string) int64 {
	var m int64
	_ = filepath.Walk(dir, func(p string, fi os.FileInfo, err error) error {
		if err == nil && fi.Mode().IsRegular() && fi.Size() > m {
			m = fi.Size()
		}
		return nil
	})
	return m
}

func runOverlay(c *ovCase, spelling string, explicitParents bool, nm string, tmp string, extras bool, history bool) (obs ovObs) {
	if c.Limit > 0 {
		explicitParents = false // the parents of a skipped oversize file would be real entries the abstract layer does not have
	}
	obs.Variant = fmt.Sprintf("%s/parents=%v/%s", spelling, explicitParents, nm)
	if !history {
		obs.Variant += "/no-history"
	}
	var specs []layerSpec
	for i, l := range c.Layers {
		data, err := ovTar(l, spelling, explicitParents, nm)
		if err != nil {
			obs.Err = "harness tar: " + err.Error()
			return
		}
		specs = append(specs, layerSpec{Tar: data, Cmd: fmt.Sprintf("RUN layer %d", i+1)})
	}
	v1img, err := buildImage(specs, history)
	if err != nil {
		obs.Err = "harness image: " + err.Error()
		return
	}
	cfg := scimage.DefaultConfig()
	if c.Limit > 0 {
		cfg.MaxFileBytes = int64(c.Limit)
	}
	var img *scimage.Image
	obs.Panic = Safely(func() { img, err = scimage.FromV1Image(v1img, cfg) })
	if obs.Panic != "" {
		return
	}
	if err != nil {
		obs.Err = err.Error()
		return
	}
	cls, _ := img.ChainLayers()
	for _, cl := range cls {
		fsys := cl.FS()
		var lo ovLayerObs
		if p := Safely(func() { lo = probeFS(fsys, nm) }); p != "" {
			obs.Panic = p
		}
		obs.Layers = append(obs.Layers, lo)
	}
	obs.MaxOnDisk = maxFileUnder(img.ExtractDir)
	extractDir := img.ExtractDir
	_ = img.CleanUp()
	_, serr := os.Stat(extractDir)
	obs.CleanedUp = errors.Is(serr, fs.ErrNotExist)
	if !extras {
		return
	}
	// squashed unpack of the same image
	dir, derr := os.MkdirTemp(tmp, "sq")
	if derr == nil {
		defer os.RemoveAll(dir)
		ucfg := unpack.DefaultUnpackerConfig()
		if c.Limit > 0 {
			ucfg = ucfg.WithMaxFileBytes(int64(c.Limit))
		}
		u, uerr := unpack.NewUnpacker(ucfg)
		if uerr == nil {
			p := Safely(func() { uerr = u.UnpackSquashed(dir, v1img) })
			if p != "" {
				obs.SquashErr = "panic: " + p
			}
		}
		if uerr != nil {
			obs.SquashErr = uerr.Error()
		}
		for _, p := range ovPaths {
			fi, err := os.Lstat(filepath.Join(dir, filepath.FromSlash(ovMap(p, nm))))
			if err != nil || !fi.Mode().IsRegular() {
				obs.Squashed = append(obs.Squashed, "-")
				continue
			}
			b, _ := os.ReadFile(filepath.Join(dir, filepath.FromSlash(ovMap(p, nm))))
			switch string(b) {
			case "1":
				obs.Squashed = append(obs.Squashed, "f1")
			case "22":
				obs.Squashed = append(obs.Squashed, "f2")
			default:
				obs.Squashed = append(obs.Squashed, "file:"+string(b))
			}
		}
	}
	// load restricted to one required file: the last regular file of the final view
	if n := len(obs.Layers); n > 0 {
		for i := len(ovPaths) - 1; i >= 0; i-- {
			if k := obs.Layers[n-1].Walk[i]; k == "f1" || k == "f2" {
				obs.ReqPath = ovPaths[i]
				break
			}
		}
		if obs.ReqPath != "" {
			rcfg := scimage.DefaultConfig()
			if c.Limit > 0 {
				rcfg.MaxFileBytes = int64(c.Limit)
			}
			rcfg.Requirer = require.NewFileRequirerPaths([]string{strings.TrimPrefix(ovMap(obs.ReqPath, nm), "/")})
			var rimg *scimage.Image
			var rerr error
			p := Safely(func() { rimg, rerr = scimage.FromV1Image(v1img, rcfg) })
			if p == "" && rerr == nil {
				rcls, _ := rimg.ChainLayers()
				obs.Required = probeFS(rcls[len(rcls)-1].FS(), nm).Walk
				_ = rimg.CleanUp()
			} else {
				obs.Required = []string{"err:" + p + fmt.Sprint(rerr)}
			}
		}
	}
	return
}

func init() {
	Register("overlay", func(e *Env) error {
		Quiet()
		os.Setenv("TMPDIR", e.Tmp)
		variants := [][3]string{{"plain", "0", "plain"}, {"dot", "1", "nasty"}, {"abs", "0", "nasty"}, {"plain", "1", "plain"}, {"plain", "0", "nasty"}, {"dot", "0", "plain"}}
		return MapCases(e, func(idx int, raw []byte) (any, error) {
			var c ovCase
			if err := json.Unmarshal(raw, &c); err != nil {
				return nil, err
			}
			v := variants[idx%len(variants)]
			extras := e.Args["extras_every"] == "" || e.Args["extras_every"] == "1" || idx%2 == 0
			// every third image carries no config history (optional in OCI): the views must be the same
			runs := []ovObs{runOverlay(&c, v[0], v[1] == "1", v[2], e.Tmp, extras, idx%3 != 1)}
			if e.Args["allvariants"] == "1" {
				for _, w := range variants {
					if w != v {
						runs = append(runs, runOverlay(&c, w[0], w[1] == "1", w[2], e.Tmp, false, idx%3 == 1))
					}
				}
			}
			return map[string]any{"i": idx, "runs": runs}, nil
		})
	})
}
