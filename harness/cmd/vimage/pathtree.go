package main

// Binding (A) for PathTree.tla: every operation sequence TLC enumerates is applied to the real pathtree.Node
// and Get / GetChildren / Walk are compared with the specification's state after every operation.

import (
	"encoding/json"
	"fmt"
	"sort"

	"github.com/google/osv-scalibr/artifact/image/pathtree"
	. "verif/harness/hlib"
)

var ptPaths = []string{"/", "/a", "/a/b", "/a/b/c", "/a/d", "/e"}

type ptVal struct {
	P string
	V int
}

type ptStep struct {
	Op  string `json:"op"`
	P   string `json:"p"`
	V   int    `json:"v"`
	Err bool   `json:"err"`
	Obs struct {
		Get         map[string]int     `json:"get"`
		Children    map[string][][]any `json:"children"`
		HasChildren map[string]bool    `json:"haschildren"`
		Walk        []string           `json:"walk"`
	} `json:"obs"`
}

func init() {
	Register("pathtree", func(e *Env) error {
		return MapCases(e, func(idx int, raw []byte) (any, error) {
			var c struct {
				Ops []ptStep `json:"ops"`
			}
			if err := json.Unmarshal(raw, &c); err != nil {
				return nil, err
			}
			mism := ""
			p := Safely(func() {
				t := pathtree.NewNode[ptVal]()
				for si, st := range c.Ops {
					fail := func(f string, a ...any) {
						if mism == "" {
							mism = fmt.Sprintf("step %d (%s %s): ", si+1, st.Op, st.P) + fmt.Sprintf(f, a...)
						}
					}
					switch st.Op {
					case "insert":
						err := t.Insert(st.P, &ptVal{st.P, st.V})
						if (err != nil) != st.Err {
							fail("Insert returned err=%v, specification says error=%v", err, st.Err)
						}
					case "remove":
						got := t.Remove(st.P)
						gv := 0
						if got != nil {
							gv = got.V
						}
						if gv != st.V {
							fail("Remove returned %v, specification says value %d", got, st.V)
						}
					}
					for _, q := range ptPaths {
						g := t.Get(q)
						gv := 0
						if g != nil {
							gv = g.V
							if g.P != q {
								fail("Get(%s) returned the value inserted at %s", q, g.P)
							}
						}
						if gv != st.Obs.Get[q] {
							fail("Get(%s) = %d, specification says %d", q, gv, st.Obs.Get[q])
						}
						ch := t.GetChildren(q)
						if (ch != nil) != st.Obs.HasChildren[q] {
							fail("GetChildren(%s) nil=%v, specification says the node exists=%v", q, ch == nil, st.Obs.HasChildren[q])
						}
						var gotc, wantc []string
						for _, x := range ch {
							gotc = append(gotc, fmt.Sprintf("%s=%d", x.P, x.V))
						}
						for _, w := range st.Obs.Children[q] {
							wantc = append(wantc, fmt.Sprintf("%v=%v", w[0], w[1]))
						}
						sort.Strings(gotc)
						sort.Strings(wantc)
						if fmt.Sprint(gotc) != fmt.Sprint(wantc) {
							fail("GetChildren(%s) = %v, specification says %v", q, gotc, wantc)
						}
					}
					var walked []string
					_ = t.Walk(func(pth string, v *ptVal) error {
						if pth == "" {
							pth = "/"
						}
						walked = append(walked, pth)
						if v.P != pth {
							fail("Walk visits %s with the value inserted at %s", pth, v.P)
						}
						return nil
					})
					sort.Strings(walked)
					want := append([]string(nil), st.Obs.Walk...)
					sort.Strings(want)
					if fmt.Sprint(walked) != fmt.Sprint(want) {
						fail("Walk visits %v, specification says %v", walked, want)
					}
				}
			})
			if p != "" {
				mism = "panic: " + p
			}
			return map[string]any{"i": idx, "mismatch": mism}, nil
		})
	})
}
