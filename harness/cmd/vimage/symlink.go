package main

// Binding (A) for SymlinkResolve.tla (C17): graphs are packed many-per-image under distinct directories
// (one image load per maximum depth and batch); "deleted" is realised by a second layer's whiteout; every
// entry is probed with Stat, Open(+Stat) and ReadDir, and the error classes are told apart with errors.Is.

import (
	"archive/tar"
	"bufio"
	"encoding/json"
	"errors"
	"fmt"
	"io"
	"io/fs"
	"os"
	"strings"
	"sync"

	scimage "github.com/google/osv-scalibr/artifact/image/layerscanning/image"
	. "verif/harness/hlib"
)

type slCase struct {
	Kinds [][]any `json:"kinds"`
	Req   []int   `json:"req"` // SymlinkRequire.tla: the entries the file requirer asks for (used with -a req=1)
}

// slRequirer requires exactly the listed paths.
type slRequirer struct{ set map[string]bool }

func (r slRequirer) FileRequired(p string, _ fs.FileInfo) bool {
	return r.set[strings.TrimPrefix(p, "/")]
}

func slClass(err error) string {
	switch {
	case err == nil:
		return ""
	case errors.Is(err, scimage.ErrSymlinkCycle):
		return "cycle"
	case errors.Is(err, scimage.ErrSymlinkDepthExceeded):
		return "depth"
	case errors.Is(err, fs.ErrNotExist):
		return "notfound"
	}
	return "err:" + err.Error()
}

// probe returns [class, entry] for Stat, Open and ReadDir on path p.
func slProbe(fsys fs.FS, p string) map[string][]any {
	out := map[string][]any{}
	ident := func(fi fs.FileInfo, f fs.File) []any {
		n := 0
		fmt.Sscanf(fi.Name(), "n%d", &n)
		if fi.Mode().IsRegular() && f != nil {
			b, _ := io.ReadAll(f)
			m := 0
			fmt.Sscanf(string(b), "F%d", &m)
			if m != n {
				return []any{"wrongcontent:" + string(b), n}
			}
		}
		return []any{"target", n}
	}
	if fi, err := fsys.(fs.StatFS).Stat(p); err != nil {
		out["stat"] = []any{slClass(err), 0}
	} else {
		out["stat"] = ident(fi, nil)
	}
	if f, err := fsys.Open(p); err != nil {
		out["open"] = []any{slClass(err), 0}
	} else {
		if fi, err := f.Stat(); err != nil {
			out["open"] = []any{slClass(err), 0} // a handle on a deleted path whose Stat says not-exist
		} else {
			out["open"] = ident(fi, f)
		}
		f.Close()
	}
	if _, err := fsys.(fs.ReadDirFS).ReadDir(p); err != nil {
		out["readdir"] = []any{slClass(err), 0}
	} else {
		out["readdir"] = []any{"ok", 0}
	}
	return out
}

func init() {
	Register("symlink", func(e *Env) error {
		Quiet()
		os.Setenv("TMPDIR", e.Tmp)
		inf, err := os.Open(e.In)
		if err != nil {
			return err
		}
		defer inf.Close()
		var cases []slCase
		sc := bufio.NewScanner(inf)
		sc.Buffer(make([]byte, 1<<20), 1<<26)
		for sc.Scan() {
			var c slCase
			if err := json.Unmarshal(sc.Bytes(), &c); err != nil {
				return err
			}
			cases = append(cases, c)
		}
		depths := []int{0, 1, 2, 3, 4, 5, 6}
		if e.Args["depths"] != "" {
			depths = nil
			for _, f := range strings.Split(e.Args["depths"], ",") {
				d := 0
				fmt.Sscanf(f, "%d", &d)
				depths = append(depths, d)
			}
		}
		withReq := e.Args["req"] == "1"
		const batch = 1000
		results := make([]map[string]any, len(cases))
		for i := range results {
			results[i] = map[string]any{"i": i, "obs": map[string]any{}}
		}
		var wg sync.WaitGroup
		sem := make(chan struct{}, e.Workers)
		var mu sync.Mutex
		var firstErr error
		for lo := 0; lo < len(cases); lo += batch {
			hi := lo + batch
			if hi > len(cases) {
				hi = len(cases)
			}
			wg.Add(1)
			sem <- struct{}{}
			go func(lo, hi int) {
				defer wg.Done()
				defer func() { <-sem }()
				var l1, l2 []tarEntry
				reqSet := map[string]bool{}
				for gi := lo; gi < hi; gi++ {
					dir := fmt.Sprintf("g%d", gi)
					for _, j := range cases[gi].Req {
						reqSet[fmt.Sprintf("%s/n%d", dir, j)] = true
					}
					l1 = append(l1, tarEntry{Name: dir + "/", Type: tar.TypeDir, Mode: 0755})
					for j, k := range cases[gi].Kinds {
						name := fmt.Sprintf("%s/n%d", dir, j+1)
						kind, _ := k[0].(string)
						to := 0
						if f, ok := k[1].(float64); ok {
							to = int(f)
						}
						switch kind {
						case "file":
							l1 = append(l1, tarEntry{Name: name, Type: tar.TypeReg, Mode: 0644, Content: []byte(fmt.Sprintf("F%d", j+1))})
						case "dir":
							l1 = append(l1, tarEntry{Name: name + "/", Type: tar.TypeDir, Mode: 0755})
						case "deleted":
							l1 = append(l1, tarEntry{Name: name, Type: tar.TypeReg, Mode: 0644, Content: []byte(fmt.Sprintf("F%d", j+1))})
							l2 = append(l2, tarEntry{Name: fmt.Sprintf("%s/.wh.n%d", dir, j+1), Type: tar.TypeReg, Mode: 0644})
						case "out":
							// a target that leaves the image root, spelled plainly or going down / staying put first
							out := []string{"../../outside", "sub/../../../outside", "./../../outside", "/../outside", "/" + dir + "/../../outside"}[(gi+j)%5]
							l1 = append(l1, tarEntry{Name: name, Type: tar.TypeSymlink, Mode: 0777, Linkname: out})
						case "rel":
							l1 = append(l1, tarEntry{Name: name, Type: tar.TypeSymlink, Mode: 0777, Linkname: fmt.Sprintf("n%d", to)})
						case "relup":
							// climbs exactly to the image root and comes down again: legal, must be followed
							l1 = append(l1, tarEntry{Name: name, Type: tar.TypeSymlink, Mode: 0777, Linkname: fmt.Sprintf("../%s/n%d", dir, to)})
						case "abs":
							l1 = append(l1, tarEntry{Name: name, Type: tar.TypeSymlink, Mode: 0777, Linkname: fmt.Sprintf("/%s/n%d", dir, to)})
						case "abs2":
							spell := fmt.Sprintf("/%s/./n%d", dir, to)
							if (gi+j)%2 == 1 {
								spell = fmt.Sprintf("/%s/../%s/n%d", dir, dir, to)
							}
							l1 = append(l1, tarEntry{Name: name, Type: tar.TypeSymlink, Mode: 0777, Linkname: spell})
						}
					}
				}
				l2 = append(l2, tarEntry{Name: "marker", Type: tar.TypeReg, Mode: 0644, Content: []byte("x")})
				// where an escaping target would land if its extra ".." were clamped at the root: following such a link must not find this
				l1 = append(l1, tarEntry{Name: "outside", Type: tar.TypeReg, Mode: 0644, Content: []byte("OUT")})
				t1, err1 := writeTar(l1)
				t2, err2 := writeTar(l2)
				v1img, err3 := buildImage([]layerSpec{{Tar: t1, Cmd: "L1"}, {Tar: t2, Cmd: "L2"}}, true)
				// the same image without a config history (optional in OCI): chain layers come from the layers alone
				v1nohist, err4 := buildImage([]layerSpec{{Tar: t1, Cmd: "L1"}, {Tar: t2, Cmd: "L2"}}, false)
				if err := errors.Join(err1, err2, err3, err4); err != nil {
					mu.Lock()
					firstErr = err
					mu.Unlock()
					return
				}
				for _, d := range depths {
					cfg := scimage.DefaultConfig()
					cfg.MaxSymlinkDepth = d
					if withReq {
						cfg.Requirer = slRequirer{reqSet}
					}
					var img *scimage.Image
					var lerr error
					src := v1img
					if (d+lo/batch)%2 == 1 {
						src = v1nohist
					}
					p := Safely(func() { img, lerr = scimage.FromV1Image(src, cfg) })
					if p != "" || lerr != nil {
						mu.Lock()
						firstErr = fmt.Errorf("image load failed: %v %s", lerr, p)
						mu.Unlock()
						return
					}
					cls, _ := img.ChainLayers()
					// the view below the deleting layer is asked first, then the final view, then the first again:
					// the views share nodes, and no answer may leak from one into another
					probeAll := func(fsys fs.FS, key string) {
						for gi := lo; gi < hi; gi++ {
							per := []any{}
							for j := range cases[gi].Kinds {
								path := fmt.Sprintf("g%d/n%d", gi, j+1)
								var pr map[string][]any
								if pn := Safely(func() { pr = slProbe(fsys, path) }); pn != "" {
									pr = map[string][]any{"stat": {"panic:" + strings.SplitN(pn, "\n", 2)[0], 0}}
								}
								per = append(per, pr)
							}
							if results[gi][key] == nil {
								results[gi][key] = map[string]any{}
							}
							results[gi][key].(map[string]any)[fmt.Sprint(d)] = per
						}
					}
					if !withReq && len(cls) >= 2 {
						probeAll(cls[0].FS(), "obs0")
					}
					probeAll(cls[len(cls)-1].FS(), "obs")
					if !withReq && len(cls) >= 2 {
						probeAll(cls[0].FS(), "obs0again")
					}
					_ = img.CleanUp()
				}
			}(lo, hi)
		}
		wg.Wait()
		if firstErr != nil {
			return firstErr
		}
		outf, err := os.Create(e.Out)
		if err != nil {
			return err
		}
		defer outf.Close()
		w := bufio.NewWriter(outf)
		defer w.Flush()
		enc := json.NewEncoder(w)
		for _, r := range results {
			if err := enc.Encode(r); err != nil {
				return err
			}
		}
		return nil
	})
}
