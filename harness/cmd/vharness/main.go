// Command vharness is the Go side of the conformance layer: it replays TLC-generated
// cases into the real osv-scalibr code and records traces from it (DESIGN.md section 3).
package main

import (
	"bufio"
	"encoding/json"
	"flag"
	"fmt"
	"os"
	"runtime"
	"sort"
	"sync"
)

type env struct {
	in, out, tmp string
	workers      int
	args         map[string]string
}

type subcmd func(e *env) error

var registry = map[string]subcmd{}

func register(name string, f subcmd) { registry[name] = f }

func main() {
	if len(os.Args) < 2 {
		names := []string{}
		for n := range registry {
			names = append(names, n)
		}
		sort.Strings(names)
		fmt.Fprintln(os.Stderr, "usage: vharness <sub> -in cases.ndjson -out obs.ndjson; subs:", names)
		os.Exit(2)
	}
	f, ok := registry[os.Args[1]]
	if !ok {
		fmt.Fprintln(os.Stderr, "unknown subcommand", os.Args[1])
		os.Exit(2)
	}
	fs := flag.NewFlagSet(os.Args[1], flag.ExitOnError)
	e := &env{args: map[string]string{}}
	fs.StringVar(&e.in, "in", "", "input ndjson")
	fs.StringVar(&e.out, "out", "", "output ndjson")
	fs.StringVar(&e.tmp, "tmp", os.TempDir(), "scratch dir")
	fs.IntVar(&e.workers, "workers", runtime.NumCPU(), "parallel workers")
	var kv multi
	fs.Var(&kv, "a", "extra key=value argument (repeatable)")
	_ = fs.Parse(os.Args[2:])
	for _, s := range kv {
		for i := 0; i < len(s); i++ {
			if s[i] == '=' {
				e.args[s[:i]] = s[i+1:]
				break
			}
		}
	}
	if err := f(e); err != nil {
		fmt.Fprintln(os.Stderr, "vharness:", err)
		os.Exit(3)
	}
}

type multi []string

func (m *multi) String() string     { return fmt.Sprint(*m) }
func (m *multi) Set(s string) error { *m = append(*m, s); return nil }

// mapCases reads ndjson lines from e.in, applies fn to each in parallel and writes one ndjson
// line per result to e.out (order not preserved; every result carries the line index "i").
func mapCases(e *env, fn func(idx int, raw []byte) (any, error)) error {
	inf, err := os.Open(e.in)
	if err != nil {
		return err
	}
	defer inf.Close()
	outf, err := os.Create(e.out)
	if err != nil {
		return err
	}
	defer outf.Close()
	w := bufio.NewWriterSize(outf, 1<<20)
	defer w.Flush()
	type job struct {
		idx int
		raw []byte
	}
	jobs := make(chan job, 1024)
	var mu sync.Mutex
	var wg sync.WaitGroup
	var firstErr error
	nw := e.workers
	if nw < 1 {
		nw = 1
	}
	for k := 0; k < nw; k++ {
		wg.Add(1)
		go func() {
			defer wg.Done()
			for j := range jobs {
				res, err := fn(j.idx, j.raw)
				mu.Lock()
				if err != nil && firstErr == nil {
					firstErr = fmt.Errorf("case %d: %w", j.idx, err)
				}
				if err == nil && res != nil {
					b, merr := json.Marshal(res)
					if merr != nil && firstErr == nil {
						firstErr = merr
					}
					w.Write(b)
					w.WriteByte('\n')
				}
				mu.Unlock()
			}
		}()
	}
	sc := bufio.NewScanner(inf)
	sc.Buffer(make([]byte, 1<<20), 1<<28)
	idx := 0
	for sc.Scan() {
		b := append([]byte(nil), sc.Bytes()...)
		if len(b) == 0 {
			continue
		}
		jobs <- job{idx, b}
		idx++
	}
	close(jobs)
	wg.Wait()
	if sc.Err() != nil {
		return sc.Err()
	}
	return firstErr
}

// safely runs f and converts a panic into a string.
func safely(f func()) (panicked string) {
	defer func() {
		if r := recover(); r != nil {
			buf := make([]byte, 4096)
			n := runtime.Stack(buf, false)
			panicked = fmt.Sprintf("%v\n%s", r, buf[:n])
		}
	}()
	f()
	return ""
}
