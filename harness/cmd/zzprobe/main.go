package main

import (
	"fmt"
	"os"
	"runtime"
	"strconv"
	"strings"
	"time"

	"github.com/BurntSushi/toml"
)

func main() {
	n, _ := strconv.Atoi(os.Args[1])
	kind := os.Args[2]
	var s string
	if kind == "inline" {
		s = strings.Repeat("a={", n) + "a=1" + strings.Repeat("}", n)
	} else {
		s = "[" + strings.Repeat("a.", n) + "a]\nb = 1\n"
	}
	var v map[string]any
	t := time.Now()
	_, err := toml.Decode(s, &v)
	var ms runtime.MemStats
	runtime.ReadMemStats(&ms)
	es := ""
	if err != nil {
		es = err.Error()
		if len(es) > 80 {
			es = es[:80]
		}
	}
	fmt.Println(n, kind, time.Since(t), "total alloc MiB", ms.TotalAlloc>>20, "heap MiB", ms.HeapAlloc>>20, es)
}
