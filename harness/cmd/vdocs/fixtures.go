package main

// docs-fixtures: validates the 12 renderers against the repository's own fixtures, so that a renderer
// bug cannot masquerade as a finding: extract(fixture) = P; for every permitted layout,
// extract(render(abstract(P), layout)) must equal P again.

import (
	"bytes"
	"context"
	"encoding/json"
	"fmt"
	"os"
	"path/filepath"
	. "verif/harness/hlib"

	"github.com/google/osv-scalibr/extractor/filesystem"
	scalibrfs "github.com/google/osv-scalibr/fs"
)

type fixtureCase struct {
	Fmt     string `json:"fmt"`
	Fixture string `json:"fixture"` // absolute path
}

func extractFixture(fd *fmtDef, path string) ([][2]string, error) {
	dir, base := filepath.Dir(path), filepath.Base(path)
	data, err := os.ReadFile(path)
	if err != nil {
		return nil, err
	}
	info, err := os.Stat(path)
	if err != nil {
		return nil, err
	}
	var out [][2]string
	var xerr error
	p := Safely(func() {
		input := &filesystem.ScanInput{FS: scalibrfs.DirFS(dir), Path: base, Root: dir, Info: info, Reader: bytes.NewReader(data)}
		inv, err := fd.mk().Extract(context.Background(), input)
		xerr = err
		for _, p := range inv.Packages {
			out = append(out, [2]string{p.Name, p.Version})
		}
	})
	if p != "" {
		return nil, fmt.Errorf("panic: %s", p)
	}
	return out, xerr
}

// layoutsOf enumerates every layout the format permits (same table as PackageDoc.tla: Cap).
func layoutsOf(fd *fmtDef, n int) []lay {
	var out []lay
	eols := []string{"LF"}
	if fd.crlf {
		eols = append(eols, "CRLF")
	}
	sects := []int{0}
	if fd.sects > 1 {
		if n >= 2 {
			sects = append(sects, 1, 2)
		}
		if (fd.nested && n >= 3) || (!fd.nested && n >= 1) {
			sects = append(sects, 3)
		}
	}
	for _, eol := range eols {
		for _, tr := range fd.trailing {
			for bl := 0; bl <= 2; bl++ {
				for _, cm := range fd.comments {
					for ex := 0; ex <= 2; ex++ {
						for _, se := range sects {
							for _, va := range fd.variants {
								out = append(out, lay{Eol: eol, Trailing: tr, Blank: bl, Comments: cm, Extra: ex, Sect: se, Variant: va})
							}
						}
					}
				}
			}
		}
	}
	return out
}

func samePairs(a, b [][2]string) bool {
	if len(a) != len(b) {
		return false
	}
	for i := range a {
		if a[i] != b[i] {
			return false
		}
	}
	return true
}

func init() {
	Register("docs-fixtures", func(e *Env) error {
		return MapCases(e, func(idx int, raw []byte) (any, error) {
			var c fixtureCase
			if err := json.Unmarshal(raw, &c); err != nil {
				return nil, err
			}
			fd := formats[c.Fmt]
			if fd == nil {
				return nil, fmt.Errorf("unknown format %q", c.Fmt)
			}
			res := map[string]any{"i": idx, "fmt": c.Fmt, "fixture": c.Fixture}
			pairs, err := extractFixture(fd, c.Fixture)
			if err != nil {
				res["skipped"] = "fixture does not extract: " + err.Error()
				return res, nil
			}
			// abstract: the set of distinct (name, version) pairs (sorted: map-based extractors return them in random order)
			sortPairs(pairs)
			seen := map[[2]string]bool{}
			var recs []crec
			var want [][2]string
			for _, p := range pairs {
				if c.Fmt == "gomod" && p[0] == "stdlib" {
					continue // documented pseudo-package of the go directive, not a record
				}
				if p[0] == "" || p[1] == "" {
					res["skipped"] = fmt.Sprintf("fixture has a package without name or version: %q", p)
					return res, nil
				}
				if seen[p] {
					continue
				}
				seen[p] = true
				recs = append(recs, crec{Name: p[0], Raw: fd.rawOf(p[1]), Want: p[1], Inst: true, ID: len(recs)})
				want = append(want, p)
			}
			sortPairs(want)
			res["pkgs"] = len(recs)
			n, skippedClash := 0, 0
			var bad []any
			for _, l := range layoutsOf(fd, len(recs)) {
				if fd.keyed && keyClash(recs, l.Sect, fd.nested) {
					skippedClash++
					continue
				}
				n++
				var rd rendered
				if p := Safely(func() { rd = fd.render(recs, l) }); p != "" {
					bad = append(bad, map[string]any{"layout": l, "panic": p})
					continue
				}
				r := runExtract(fd, rd.files)
				w := append(append([][2]string{}, want...), rd.extraWant...)
				sortPairs(w)
				if r.Err != "" || r.Panic != "" || !r.Required || !samePairs(r.Obs, w) {
					if len(bad) < 3 {
						bad = append(bad, map[string]any{"layout": l, "obs": r.Obs, "want": w, "err": r.Err, "panic": r.Panic, "required": r.Required, "doc": rd.files})
					} else {
						bad = append(bad, nil)
					}
				}
			}
			res["layouts"] = n
			res["layouts_skipped_keyclash"] = skippedClash
			res["bad"] = len(bad)
			if len(bad) > 3 {
				bad = bad[:3]
			}
			res["mismatches"] = bad
			return res, nil
		})
	})
}
