package main

// Renderers of the line-oriented formats: dpkg status, apk installed, requirements.txt, go.mod,
// Gemfile.lock, gradle.lockfile. Every renderer writes only syntax the format's own tools accept
// (see the per-format notes) and takes records with arbitrary concrete strings, so that it can be
// validated against the repository's fixtures (docs-fixtures).

import (
	"fmt"
	"strings"
)

// ---------------------------------------------------------------------------------------------
// dpkg status (deb822 stanzas separated by one or more empty lines; dpkg's parser skips adjacent
// newlines, accepts fields in any order and folded continuation lines; it rejects CR and a missing
// final newline, so neither is generated). Installed <=> third word of Status is "installed".

func dpkgStatus(r crec) string {
	if r.Inst {
		return []string{"install ok installed", "hold ok installed"}[r.ID%2]
	}
	return []string{"deinstall ok config-files", "purge ok not-installed"}[r.ID%2]
}

func renderDpkg(recs []crec, l lay) rendered {
	var out []string
	if l.Blank >= 2 {
		out = append(out, "") // dpkg skips leading newlines
	}
	for k, r := range recs {
		if k > 0 {
			out = append(out, blanks(1+l.Blank)...)
		}
		st := dpkgStatus(r)
		switch l.Extra {
		case 0:
			out = append(out, "Package: "+r.Name, "Status: "+st, "Version: "+r.Raw)
		case 1:
			out = append(out,
				"Package: "+r.Name,
				"Status: "+st,
				"Priority: optional",
				"Section: libs",
				"Installed-Size: 645",
				"Maintainer: Debian GCC Maintainers <debian-gcc@lists.debian.org>",
				"Architecture: amd64",
				"Multi-Arch: same",
				"Source: src-"+r.Name+" (1.0-1)",
				"Version: "+r.Raw,
				"Depends: libc6 (>= 2.34), libgcc-s1 (>= 3.0) | libfoo, "+r.Name+"-data (= "+r.Raw+")",
				"Conffiles:",
				" /etc/adduser.conf cc3493ecd2d09837ffdcc3e25fdfff18",
				" /etc/deluser.conf 11a06baf8245fd8d690b99024d228c1f obsolete",
				"Description: query and manipulate things",
				" The project provides a set of D-Bus",
				" interfaces for querying.",
				" .",
				"  - 'adduser' creates new users: and groups",
				"Homepage: https://www.example.org/")
		default:
			// other field order (Version first, Package last), a not-installed record without Version,
			// look-alike text inside folded lines, tab-folded continuation
			if r.Inst || r.ID%2 == 0 {
				out = append(out, "version: "+r.Raw) // field names are not case-sensitive (deb822)
			}
			out = append(out,
				"Architecture: all",
				"Description: transitional something",
				" Package: not-a-package",
				" Version: 9.9.9",
				" Status: install ok installed",
				" .",
				"\tfolded with a tab",
				"Config-Version: "+r.Raw,
				"essential: yes",
				"STATUS: "+st,
				"package: "+r.Name)
		}
	}
	return rendered{files: map[string]string{"var/lib/dpkg/status": finish(out, l)}}
}

// ---------------------------------------------------------------------------------------------
// apk installed database ("X:value" lines, records terminated by an empty line; apk-tools skips
// repeated empty lines; no CR). P = name, V = version; p (provides), o (origin) etc. are other fields.

func renderApk(recs []crec, l lay) rendered {
	var out []string
	if l.Blank >= 2 {
		out = append(out, "")
	}
	for k, r := range recs {
		if k > 0 {
			out = append(out, blanks(1+l.Blank)...)
		}
		switch l.Extra {
		case 0:
			out = append(out, "P:"+r.Name, "V:"+r.Raw)
		case 1:
			out = append(out,
				"C:Q1zwvKMnYs1b6ZdPTBJ0Z7D5P3jyA=",
				"P:"+r.Name,
				"V:"+r.Raw,
				"A:x86_64",
				"S:8914",
				"I:331776",
				"T:Alpine base dir structure and init scripts",
				"U:https://git.alpinelinux.org/cgit/aports/tree/main/alpine-baselayout",
				"L:GPL-2.0-only",
				"o:origin-of-"+r.Name,
				"m:Natanael Copa <ncopa@alpinelinux.org>",
				"t:1683642107",
				"c:65502ca9379dd29d1ac4b0bf0dcf03a3dd1b324a",
				"D:alpine-baselayout-data=3.4.3-r1 /bin/sh so:libc.musl-x86_64.so.1",
				"p:cmd:"+r.Name+"="+r.Raw+" so:lib"+r.Name+".so.1=1",
				"F:etc",
				"R:motd",
				"Z:Q1SLkS9hBidUbPwwrw+XR0Whv3ww8=",
				"F:etc/crontabs",
				"R:root",
				"a:0:0:600",
				"Z:Q1vfk1apUWI4yLJGhhNRd0kJixfvY=")
		default:
			out = append(out,
				"V:"+r.Raw,
				"T:P:not-a-package V:9.9.9 in a description",
				"p:other-name=9.9.9",
				"r:replaced-package",
				"i:installed-if-this",
				"k:100",
				"P:"+r.Name,
				"A:noarch",
				"F:usr/share/P:odd-dir",
				"M:0:0:1777",
				"R:V:odd-file",
				"Z:Q1vfk1apUWI4yLJGhhNRd0kJixfvY=")
		}
	}
	return rendered{files: map[string]string{"lib/apk/db/installed": finish(out, l)}}
}

// ---------------------------------------------------------------------------------------------
// requirements.txt (pip: universal newlines, "#" comments at line start or after whitespace,
// backslash continuation, options lines, PEP 508 requirement lines with extras/markers, per-requirement
// --hash options, "-r file" includes relative to the including file).

func reqLine(r crec, k int, l lay) []string {
	var s string
	switch l.Extra {
	case 0:
		s = r.Name + "==" + r.Raw
	case 1:
		switch k % 3 {
		case 0:
			s = r.Name + " == " + r.Raw
		case 1:
			s = r.Name + "[security,socks]==" + r.Raw + " ; python_version >= \"3.8\""
		default:
			s = r.Name + "==" + r.Raw + " --hash=sha256:2cb9d4a61b6c9b0b1e3f3b6f7d6b6e0d3a2a1d4f5e6c7b8a9d0e1f2a3b4c5d6e"
		}
	default:
		switch k % 2 {
		case 0:
			// backslash continuation with hashes on following lines
			lines := []string{r.Name + "==" + r.Raw + " \\",
				"    --hash=sha256:2cb9d4a61b6c9b0b1e3f3b6f7d6b6e0d3a2a1d4f5e6c7b8a9d0e1f2a3b4c5d6e \\",
				"    --hash=sha256:aaaa9d4a61b6c9b0b1e3f3b6f7d6b6e0d3a2a1d4f5e6c7b8a9d0e1f2a3b4bbbb"}
			if l.Comments == "inline" {
				lines[2] += "  # pinned"
			}
			return lines
		default:
			s = "  " + r.Name + "==" + r.Raw + "\t"
		}
	}
	if l.Comments == "inline" {
		s += "  # via -r base.in"
	}
	return []string{s}
}

func renderRequirements(recs []crec, l lay) rendered {
	var a, b [][]string
	for k, r := range recs {
		ln := reqLine(r, k, l)
		if inB(k+1, l.Sect) {
			b = append(b, ln)
		} else {
			a = append(a, ln)
		}
	}
	body := func(items [][]string, hdr bool) []string {
		var out []string
		if hdr && l.Extra >= 1 {
			out = append(out, "--index-url https://pypi.org/simple", "--extra-index-url https://example.org/simple/")
		}
		if hdr && l.Extra >= 2 {
			out = append(out, "--no-binary :all:", "--trusted-host example.org")
		}
		for i, it := range items {
			if i > 0 {
				out = append(out, blanks(l.Blank)...)
			}
			if l.Comments == "line" {
				out = append(out, "# comment: fake-package==9.9.9", "    # indented comment")
				if i%2 == 1 {
					// pip never joins a comment line with the next line, even when its text ends in a backslash
					out = append(out, `# generated from C:\build\reqs\`)
				}
			}
			out = append(out, it...)
		}
		if l.Comments == "line" {
			out = append(out, "#last line is a comment")
		}
		return out
	}
	files := map[string]string{}
	main := body(a, true)
	if l.Sect != 0 {
		inc := "-r more/base-deps.txt"
		if l.Sect == 2 {
			main = append([]string{inc}, main...)
		} else {
			main = append(main, inc)
		}
		files["more/base-deps.txt"] = finish(body(b, false), l)
	}
	files["requirements.txt"] = finish(main, l)
	return rendered{files: files}
}

// ---------------------------------------------------------------------------------------------
// go.mod (golang.org/x/mod/modfile grammar: "//" comments, CR treated as white space, require blocks
// and single-line require directives in any number and order). The extractor documents one extra
// pseudo-package: ("stdlib", <go / toolchain version>) when a go or toolchain directive is present.

func renderGomod(recs []crec, l lay) rendered {
	var out []string
	var extraWant [][2]string
	if l.Comments == "line" {
		out = append(out, "// Copyright notice", "")
	}
	out = append(out, "module example.com/verif/mod")
	switch l.Extra {
	case 1:
		out = append(out, "", "go 1.21")
		extraWant = append(extraWant, [2]string{"stdlib", "1.21"})
	case 2:
		out = append(out, "", "go 1.21.0", "", "toolchain go1.22.1")
		extraWant = append(extraWant, [2]string{"stdlib", "1.22.1"})
	}
	// With extra >= 2 every other record is required under an alias module and brought to its real
	// name and version by a replace directive (versioned or version-less), each followed by a versioned
	// replace of the same module that matches no requirement (a legal no-op).
	aliased := func(k int) bool { return l.Extra >= 2 && k%2 == 0 }
	alias := func(k int) string { return fmt.Sprintf("example.com/orig/m%d", k) }
	line := func(r crec, k int, block bool) string {
		s := r.Name + " " + r.Raw
		if aliased(k) {
			s = alias(k) + " v0.0.1"
		}
		if block {
			s = "\t" + s
		} else {
			s = "require " + s
		}
		if l.Comments == "inline" || (l.Extra >= 1 && k%2 == 1) {
			s += " // indirect"
		}
		return s
	}
	var a, b []int
	for k := range recs {
		if inB(k+1, l.Sect) {
			b = append(b, k)
		} else {
			a = append(a, k)
		}
	}
	block := func(idx []int) []string {
		if len(idx) == 0 {
			return nil
		}
		o := []string{"", "require ("}
		for i, k := range idx {
			if i > 0 {
				o = append(o, blanks(l.Blank)...)
			}
			if l.Comments == "line" {
				o = append(o, "\t// example.com/fake v9.9.9")
			}
			o = append(o, line(recs[k], k, true))
		}
		return append(o, ")")
	}
	singles := func(idx []int) []string {
		var o []string
		for _, k := range idx {
			o = append(o, blanks(1+l.Blank)...)
			o = append(o, line(recs[k], k, false))
		}
		return o
	}
	switch l.Sect {
	case 0:
		out = append(out, block(a)...)
	case 1:
		out = append(out, block(a)...)
		out = append(out, block(b)...)
	default: // 2: single-line requires first, then the block; 3: single-line requires only
		out = append(out, singles(b)...)
		out = append(out, block(a)...)
	}
	if l.Extra >= 2 {
		out = append(out, "",
			"exclude example.com/excluded v1.0.0",
			"",
			"replace example.com/not-required => example.com/fork v1.2.3",
			"",
			"replace example.com/not-required-either v1.0.0 => ../local/fork",
			"",
			"retract v0.9.0 // published by mistake")
		for k, r := range recs {
			if !aliased(k) {
				continue
			}
			if k%4 == 0 {
				out = append(out, "", "replace "+alias(k)+" v0.0.1 => "+r.Name+" "+r.Raw)
			} else {
				out = append(out, "", "replace "+alias(k)+" => "+r.Name+" "+r.Raw)
			}
			out = append(out, "", fmt.Sprintf("replace %s v0.0.2 => example.com/other/m%d v9.9.9", alias(k), k))
		}
	}
	if l.Comments == "line" {
		out = append(out, "// trailing comment")
	}
	return rendered{files: map[string]string{"go.mod": finish(out, l)}, extraWant: extraWant}
}

// ---------------------------------------------------------------------------------------------
// Gemfile.lock (Bundler's LockfileParser splits on /(?:\r?\n)+/ so CRLF and empty lines anywhere are
// accepted; sections start at column 0; specs are indented 4, their dependencies 6; the version inside
// the parentheses may carry a "-platform" suffix which is not part of the version).

func renderGemfile(recs []crec, l lay) rendered {
	spec := func(r crec, k int) []string {
		o := []string{"    " + r.Name + " (" + r.Raw + ")"}
		if l.Extra >= 1 {
			o = append(o, "      actionpack (= 7.0.4)", "      bundler (>= 1.15.0)", "      zeitwerk")
		}
		return o
	}
	var gem, other []int
	for k := range recs {
		if inB(k+1, l.Sect) {
			other = append(other, k)
		} else {
			gem = append(gem, k)
		}
	}
	var sections [][]string
	gemSec := []string{"GEM", "  remote: https://rubygems.org/", "  specs:"}
	for i, k := range gem {
		if i > 0 {
			gemSec = append(gemSec, blanks(l.Blank)...)
		}
		gemSec = append(gemSec, spec(recs[k], k)...)
	}
	var otherSecs [][]string
	for _, k := range other {
		r := recs[k]
		if l.Sect == 1 || (l.Sect == 3 && k%2 == 0) {
			otherSecs = append(otherSecs, append([]string{"GIT",
				"  remote: https://github.com/example/" + r.Name + ".git",
				"  revision: 9d2f852b1a1c0d1f5f3b6f7d6b6e0d3a2a1d4f5e",
				"  branch: main",
				"  specs:"}, spec(r, k)...))
		} else {
			otherSecs = append(otherSecs, append([]string{"PATH",
				"  remote: vendor/" + r.Name,
				"  specs:"}, spec(r, k)...))
		}
	}
	platforms := []string{"PLATFORMS", "  ruby", "  x86_64-linux"}
	deps := []string{"DEPENDENCIES"}
	for k, r := range recs {
		d := "  " + r.Name
		if l.Extra >= 1 {
			d += " (~> 1.0)"
		}
		if inB(k+1, l.Sect) {
			d += "!" // pinned to a non-default source
		}
		deps = append(deps, d)
	}
	if l.Sect == 3 && l.Extra == 0 {
		gemSec = nil // no gem comes from a rubygems source
	}
	var tail [][]string // source sections written after everything else
	switch {
	case l.Extra >= 2:
		sections = append(sections, platforms, deps)
		tail = append(tail, otherSecs...)
		tail = append(tail, gemSec)
	case l.Sect == 2:
		sections = append(sections, otherSecs...)
		sections = append(sections, gemSec, platforms, deps)
	default:
		sections = append(sections, gemSec)
		sections = append(sections, otherSecs...)
		sections = append(sections, platforms, deps)
	}
	if l.Extra >= 2 {
		cs := []string{"CHECKSUMS"}
		for _, r := range recs {
			cs = append(cs, "  "+r.Name+" ("+r.Raw+") sha256=2cb9d4a61b6c9b0b1e3f3b6f7d6b6e0d3a2a1d4f5e6c7b8a9d0e1f2a3b4c5d6e")
		}
		sections = append(sections, cs, []string{"RUBY VERSION", "   ruby 3.2.2p53"})
	}
	if l.Extra >= 1 {
		sections = append(sections, []string{"BUNDLED WITH", "   2.4.10"})
	}
	sections = append(sections, tail...)
	var out []string
	for _, s := range sections {
		if s == nil {
			continue
		}
		if len(out) > 0 {
			out = append(out, "")
		}
		out = append(out, s...)
	}
	return rendered{files: map[string]string{"Gemfile.lock": finish(out, l)}}
}

// ---------------------------------------------------------------------------------------------
// gradle.lockfile (Gradle reads all lines, drops lines that are empty or start with "#", and the
// "empty=" line; every other line is group:artifact:version=conf1,conf2).

func renderGradle(recs []crec, l lay) rendered {
	var out []string
	if l.Extra >= 1 {
		out = append(out,
			"# This is a Gradle generated file for dependency locking.",
			"# Manual edits can break the build and are not advised.",
			"# This file is expected to be part of source control.")
	}
	if l.Extra >= 2 {
		out = append(out, "empty=annotationProcessor,testAnnotationProcessor")
	}
	confs := []string{"compileClasspath,runtimeClasspath,testCompileClasspath,testRuntimeClasspath", "runtimeClasspath", "classpath"}
	for k, r := range recs {
		if k > 0 {
			out = append(out, blanks(l.Blank)...)
		}
		if l.Comments == "line" {
			out = append(out, "# com.example:fake:9.9.9=compileClasspath")
		}
		out = append(out, fmt.Sprintf("%s:%s=%s", r.Name, r.Raw, confs[k%len(confs)]))
	}
	if l.Extra == 1 {
		out = append(out, "empty=")
	}
	if l.Comments == "line" {
		out = append(out, "#end")
	}
	return rendered{files: map[string]string{"gradle.lockfile": finish(out, l)}}
}

var _ = strings.Join
