package main

// C03 replay: every TLC-generated abstract document (records + layout, spec/PackageDoc.tla) is rendered
// into the concrete bytes of its format by one of 12 renderers, the REAL extractor's Extract is run on
// it and the reported (name, version) pairs are returned next to the concretisation of the
// specification's expectation.

import (
	"bytes"
	"context"
	"encoding/json"
	"fmt"
	"sort"
	"strings"
	"testing/fstest"
	. "verif/harness/hlib"

	"github.com/google/osv-scalibr/extractor/filesystem"
	"github.com/google/osv-scalibr/extractor/filesystem/language/dotnet/packageslockjson"
	"github.com/google/osv-scalibr/extractor/filesystem/language/golang/gomod"
	"github.com/google/osv-scalibr/extractor/filesystem/language/java/gradlelockfile"
	"github.com/google/osv-scalibr/extractor/filesystem/language/javascript/packagelockjson"
	"github.com/google/osv-scalibr/extractor/filesystem/language/php/composerlock"
	"github.com/google/osv-scalibr/extractor/filesystem/language/python/pipfilelock"
	"github.com/google/osv-scalibr/extractor/filesystem/language/python/poetrylock"
	"github.com/google/osv-scalibr/extractor/filesystem/language/python/requirements"
	"github.com/google/osv-scalibr/extractor/filesystem/language/ruby/gemfilelock"
	"github.com/google/osv-scalibr/extractor/filesystem/language/rust/cargolock"
	"github.com/google/osv-scalibr/extractor/filesystem/os/apk"
	"github.com/google/osv-scalibr/extractor/filesystem/os/dpkg"
	"github.com/google/osv-scalibr/extractor/filesystem/simplefileapi"
	scalibrfs "github.com/google/osv-scalibr/fs"
	scalibrlog "github.com/google/osv-scalibr/log"
	"github.com/google/osv-scalibr/plugin"
	"github.com/google/osv-scalibr/stats"
)

// ---- abstract case (as emitted by PackageDoc.tla) ----

type absRec struct {
	ID   int  `json:"id"`
	N    int  `json:"n"`
	V    int  `json:"v"`
	Inst bool `json:"inst"`
}

type lay struct {
	Eol      string `json:"eol"`      // LF | CRLF
	Trailing string `json:"trailing"` // none | nl | blank
	Blank    int    `json:"blank"`    // extra blank lines between two records
	Comments string `json:"comments"` // none | line | inline
	Extra    int    `json:"extra"`    // 0 minimal records, 1 typical unrelated fields, 2 + look-alike/unrelated sections, other key order
	Sect     int    `json:"sect"`     // section policy (PackageDoc.tla: Place)
	Variant  string `json:"variant"`  // format version
}

type docCase struct {
	Fmt     string   `json:"fmt"`
	Records []absRec `json:"records"`
	Layout  lay      `json:"layout"`
	Expect  [][2]int `json:"expect"`
}

// crec is a record with concrete strings. Raw is the version as it is written in the document,
// Want the version as the format defines it must be reported (go.mod drops the leading "v",
// Pipfile.lock drops "==", a Gemfile.lock platform suffix is not part of the version).
type crec struct {
	Name string
	Raw  string
	Want string
	Inst bool
	ID   int
}

type verClass struct{ raw, want string }

type rendered struct {
	files     map[string]string // path -> content; the main document is fmtDef.path
	extraWant [][2]string       // pairs the extractor documents it reports in addition (go.mod: stdlib)
}

type fmtDef struct {
	alt      *[6]string // alternative name table used by every other case (minimal-length and other boundary names)
	name     string
	path     string // production path of the document
	names    [6]string
	vers     [5]verClass
	rawOf    func(want string) string // inverse of the version canonicalisation (used for fixtures)
	mk       func() filesystem.Extractor
	mkAlt    func() filesystem.Extractor // the same extractor under another legal configuration (size limit off <-> far above the document); every third case
	render   func(recs []crec, l lay) rendered
	keyed    bool
	nested   bool // second "section" = nested under another record (package-lock)
	sects    int
	osFiles  bool
	crlf     bool
	trailing []string
	comments []string
	variants []string
}

func same(s ...string) (out [5]verClass) {
	for i, x := range s {
		out[i] = verClass{x, x}
	}
	return
}

func ident(s string) string { return s }

var pyNames = [6]string{"requests", "zope.interface", "typing_extensions", "Flask-SQLAlchemy", "ruamel.yaml.clib", "backports-zoneinfo"}
var pyAltNames = [6]string{"q", "zope.interface", "x", "Flask-SQLAlchemy", "a.b", "z9"}
var pyVers = []string{"2.31.0", "1.0.0rc1", "2.0.post1", "1!2.0", "1.0+local.1"}

var allTrail = []string{"none", "nl", "blank"}

var formats = map[string]*fmtDef{}

func reg(f *fmtDef) { formats[f.name] = f }

func init() {
	reg(&fmtDef{name: "dpkg", path: "var/lib/dpkg/status", osFiles: true,
		names: [6]string{"libc6", "libstdc++6", "python3.11-minimal", "g++-12", "0ad", "libsigc++-2.0-0v5"},
		vers:  same("2.36-9+deb12u4", "1:1.2.13.dfsg-1", "2.4.7~rc1-1ubuntu0.1", "20230311", "1:9.18.24-0ubuntu0.22.04.1+esm1"),
		rawOf: ident, mk: dpkg.NewDefault, render: renderDpkg, sects: 1,
		mkAlt: func() filesystem.Extractor { return dpkg.New(dpkg.Config{}) }, // MaxFileSizeBytes 0 = no limit
		trailing: []string{"nl", "blank"}, comments: []string{"none"}, variants: []string{"-"}})
	reg(&fmtDef{name: "apk", path: "lib/apk/db/installed", osFiles: true,
		names: [6]string{"musl", "libcrypto3", "ca-certificates-bundle", "libstdc++", "py3-setuptools", "gtk+3.0"},
		vers:  same("1.2.4_git20230717-r4", "3.1.4-r5", "20240226-r0", "1.36.1-r15", "2.0_rc3-r1"),
		rawOf: ident, mk: apk.NewDefault, render: renderApk, sects: 1,
		mkAlt: func() filesystem.Extractor { return apk.New(apk.Config{MaxFileSizeBytes: 1 << 20}) },
		trailing: []string{"nl", "blank"}, comments: []string{"none"}, variants: []string{"-"}})
	reg(&fmtDef{name: "requirements", path: "requirements.txt",
		names: pyNames, alt: &pyAltNames, vers: same(pyVers...),
		rawOf: ident, mk: requirements.NewDefault, render: renderRequirements, sects: 2, crlf: true,
		trailing: allTrail, comments: []string{"none", "line", "inline"}, variants: []string{"-"}})
	reg(&fmtDef{name: "gomod", path: "go.mod",
		names: [6]string{"github.com/google/uuid", "golang.org/x/sys", "gopkg.in/yaml.v3", "github.com/BurntSushi/toml", "github.com/docker/docker", "github.com/go-chi/chi/v5"},
		vers: [5]verClass{{"v1.6.0", "1.6.0"}, {"v0.0.0-20230808204431-6e1de0a02b5c", "0.0.0-20230808204431-6e1de0a02b5c"},
			{"v3.0.1", "3.0.1"}, {"v2.0.0+incompatible", "2.0.0+incompatible"}, {"v5.0.12", "5.0.12"}},
		rawOf: func(w string) string { return "v" + w }, mk: gomod.New, render: renderGomod, sects: 2, crlf: true,
		trailing: allTrail, comments: []string{"none", "line", "inline"}, variants: []string{"-"}})
	reg(&fmtDef{name: "cargolock", path: "Cargo.lock",
		names: [6]string{"serde", "serde_json", "proc-macro2", "winapi-x86_64-pc-windows-gnu", "h2", "tokio-util"},
		vers:  same("1.0.197", "0.4.0-alpha.3", "1.0.0+build.5", "0.2.153", "2.0.0-rc.1+meta.7"),
		rawOf: ident, mk: cargolock.New, render: renderCargo, sects: 1, crlf: true,
		trailing: allTrail, comments: []string{"none", "line", "inline"}, variants: []string{"-"}})
	reg(&fmtDef{name: "packagelock", path: "package-lock.json",
		names: [6]string{"lodash", "@babel/core", "@types/node", "string-width", "JSONStream", "left-pad"},
		vers:  same("4.17.21", "7.24.0-beta.1", "20.11.30", "1.0.0+build.5", "0.0.1-security"),
		rawOf: ident, mk: packagelockjson.NewDefault, render: renderPackageLock, sects: 2, crlf: true, keyed: true, nested: true,
		mkAlt: func() filesystem.Extractor { return packagelockjson.New(packagelockjson.Config{MaxFileSizeBytes: 1 << 20}) },
		trailing: allTrail, comments: []string{"none"}, variants: []string{"v1", "v2", "v3"}})
	reg(&fmtDef{name: "composerlock", path: "composer.lock",
		names: [6]string{"monolog/monolog", "symfony/polyfill-mbstring", "psr/log", "league/flysystem-aws-s3-v3", "phpunit/php-code-coverage", "sentry/sdk"},
		vers:  same("3.5.0", "v1.29.0", "dev-main", "2.0.x-dev", "1.0.0-RC1"),
		rawOf: ident, mk: composerlock.New, render: renderComposer, sects: 2, crlf: true,
		trailing: allTrail, comments: []string{"none"}, variants: []string{"-"}})
	reg(&fmtDef{name: "gemfilelock", path: "Gemfile.lock",
		names: [6]string{"rails", "nokogiri", "aws-sdk-s3", "ruby_parser", "net-http-persistent", "RedCloth"},
		vers: [5]verClass{{"7.1.3.2", "7.1.3.2"}, {"1.16.2-x86_64-linux", "1.16.2"}, {"3.0.0.pre.rc1", "3.0.0.pre.rc1"},
			{"1.146.0", "1.146.0"}, {"4.0.1.beta2", "4.0.1.beta2"}},
		rawOf: ident, mk: gemfilelock.New, render: renderGemfile, sects: 2, crlf: true,
		trailing: allTrail, comments: []string{"none"}, variants: []string{"-"}})
	reg(&fmtDef{name: "gradlelockfile", path: "gradle.lockfile",
		names: [6]string{"org.springframework:spring-core", "com.google.guava:guava", "org.jetbrains.kotlin:kotlin-stdlib-jdk8",
			"io.netty:netty-transport-native-epoll", "commons-io:commons-io", "org.apache.logging.log4j:log4j-api"},
		vers:  same("6.1.5", "33.0.0-jre", "1.9.23", "4.1.107.Final", "2.0.0-alpha-1"),
		rawOf: ident, mk: gradlelockfile.New, render: renderGradle, sects: 1, crlf: true,
		trailing: allTrail, comments: []string{"none", "line"}, variants: []string{"-"}})
	reg(&fmtDef{name: "poetrylock", path: "poetry.lock",
		names: pyNames, vers: same(pyVers...),
		rawOf: ident, mk: poetrylock.New, render: renderPoetry, sects: 1, crlf: true,
		trailing: allTrail, comments: []string{"none", "line", "inline"}, variants: []string{"-"}})
	reg(&fmtDef{name: "pipfilelock", path: "Pipfile.lock",
		names: pyNames,
		vers:  [5]verClass{{"==2.31.0", "2.31.0"}, {"==1.0.0rc1", "1.0.0rc1"}, {"==2.0.post1", "2.0.post1"}, {"==1!2.0", "1!2.0"}, {"==1.0+local.1", "1.0+local.1"}},
		rawOf: func(w string) string { return "==" + w }, mk: pipfilelock.New, render: renderPipfile, sects: 2, crlf: true, keyed: true,
		trailing: allTrail, comments: []string{"none"}, variants: []string{"-"}})
	reg(&fmtDef{name: "packageslockjson", path: "packages.lock.json",
		names: [6]string{"Newtonsoft.Json", "Microsoft.Extensions.Logging.Abstractions", "NUnit", "System.Text.Json", "AWSSDK.S3", "xunit.runner.visualstudio"},
		vers:  same("13.0.3", "8.0.0-preview.1.23110.8", "4.1.0", "3.7.305.22", "2.5.7"),
		rawOf: ident, mk: packageslockjson.NewDefault, render: renderPackagesLock, sects: 2, crlf: true, keyed: true,
		mkAlt: func() filesystem.Extractor { return packageslockjson.New(packageslockjson.Config{MaxFileSizeBytes: 1 << 20}) },
		trailing: allTrail, comments: []string{"none"}, variants: []string{"-"}})
}

// ---- layout helpers shared by the renderers ----

// place mirrors PackageDoc.tla: Place (0 = first section / top level, otherwise 1-based parent position).
func place(k, sect int) int { // k is 1-based
	switch sect {
	case 0:
		return 0
	case 1:
		if k%2 == 0 {
			return k - 1
		}
		return 0
	case 2:
		if k >= 2 {
			return 1
		}
		return 0
	default:
		return k - 1
	}
}

// inB says whether the k-th (1-based) record lives in the second section (PackageDoc.tla: InSecond).
func inB(k, sect int) bool { return sect == 3 || place(k, sect) != 0 }

// keyClash mirrors PackageDoc.tla: KeyClash.
// In formats whose second section is one map (nested = false) all records of that section share it.
func keyClash(recs []crec, sect int, nested bool) bool {
	for k := 1; k <= len(recs); k++ {
		for j := 1; j <= len(recs); j++ {
			if j < k && recs[j-1].Name == recs[k-1].Name && (place(j, sect) == place(k, sect) || (!nested && inB(j, sect) == inB(k, sect))) {
				return true
			}
			if nested && place(k, sect) == j && recs[j-1].Name == recs[k-1].Name {
				return true
			}
		}
	}
	return false
}

// finish joins logical lines with the chosen line ending and applies the end-of-file policy.
func finish(lines []string, l lay) string {
	eol := "\n"
	if l.Eol == "CRLF" {
		eol = "\r\n"
	}
	s := strings.Join(lines, eol)
	switch l.Trailing {
	case "none":
		return s
	case "blank":
		return s + eol + eol
	default:
		return s + eol
	}
}

// defaultLayout is the layout the orchestrator calls trivial (variant does not count).
func defaultLayout(variant string) lay {
	return lay{Eol: "LF", Trailing: "nl", Blank: 0, Comments: "none", Extra: 0, Sect: 0, Variant: variant}
}

func blanks(n int) []string { return make([]string, n) }

// ---- running the real extractor ----

type silent struct{}

func (silent) Errorf(string, ...any) {}
func (silent) Error(...any)          {}
func (silent) Warnf(string, ...any)  {}
func (silent) Warn(...any)           {}
func (silent) Infof(string, ...any)  {}
func (silent) Info(...any)           {}
func (silent) Debugf(string, ...any) {}
func (silent) Debug(...any)          {}

func init() { scalibrlog.SetLogger(silent{}) }

type extractResult struct {
	Obs      [][2]string
	Err      string
	Panic    string
	Required bool
}

func sortPairs(p [][2]string) {
	sort.Slice(p, func(i, j int) bool {
		if p[i][0] != p[j][0] {
			return p[i][0] < p[j][0]
		}
		return p[i][1] < p[j][1]
	})
}

func runExtract(fd *fmtDef, files map[string]string) extractResult {
	mfs := fstest.MapFS{}
	for p, c := range files {
		mfs[p] = &fstest.MapFile{Data: []byte(c), Mode: 0o644}
	}
	if fd.osFiles {
		mfs["etc/os-release"] = &fstest.MapFile{Data: []byte("ID=debian\nVERSION_ID=\"12\"\nVERSION_CODENAME=bookworm\n"), Mode: 0o644}
	}
	res := extractResult{Obs: [][2]string{}}
	ex := fd.mk()
	info, err := mfs.Stat(fd.path)
	if err != nil {
		res.Err = "harness: " + err.Error()
		return res
	}
	res.Panic = Safely(func() {
		res.Required = ex.FileRequired(simplefileapi.New(fd.path, info))
		input := &filesystem.ScanInput{FS: mfs, Path: fd.path, Root: "", Info: info, Reader: bytes.NewReader([]byte(files[fd.path]))}
		inv, err := ex.Extract(context.Background(), input)
		if err != nil {
			res.Err = err.Error()
		}
		for _, p := range inv.Packages {
			if p == nil {
				res.Obs = append(res.Obs, [2]string{"<nil package>", ""})
				continue
			}
			res.Obs = append(res.Obs, [2]string{p.Name, p.Version})
		}
	})
	sortPairs(res.Obs)
	return res
}

// runScan runs the whole filesystem walk (filesystem.Run: FileRequired on every path, Extract on the
// required ones) over the same in-memory tree with only this format's extractor enabled.
func runScan(fd *fmtDef, files map[string]string) extractResult {
	mfs := fstest.MapFS{}
	for p, c := range files {
		mfs[p] = &fstest.MapFile{Data: []byte(c), Mode: 0o644}
	}
	if fd.osFiles {
		mfs["etc/os-release"] = &fstest.MapFile{Data: []byte("ID=debian\nVERSION_ID=\"12\"\nVERSION_CODENAME=bookworm\n"), Mode: 0o644}
	}
	res := extractResult{Obs: [][2]string{}, Required: true}
	res.Panic = Safely(func() {
		inv, status, err := filesystem.Run(context.Background(), &filesystem.Config{
			Extractors: []filesystem.Extractor{fd.mk()},
			ScanRoots:  []*scalibrfs.ScanRoot{{FS: mfs, Path: ""}},
			Stats:      stats.NoopCollector{},
		})
		if err != nil {
			res.Err = err.Error()
		}
		for _, st := range status {
			if st.Status != nil && st.Status.Status != plugin.ScanStatusSucceeded {
				res.Err += fmt.Sprintf("[%s: %v %s]", st.Name, st.Status.Status, st.Status.FailureReason)
			}
		}
		for _, p := range inv.Packages {
			res.Obs = append(res.Obs, [2]string{p.Name, p.Version})
			if len(p.Locations) == 0 || p.Locations[0] != fd.path {
				res.Err += fmt.Sprintf("[package %s located at %v, not %s]", p.Name, p.Locations, fd.path)
			}
		}
	})
	sortPairs(res.Obs)
	return res
}

// concretise maps the abstract records of a case to concrete strings.
func concretise(fd *fmtDef, c *docCase) ([]crec, error) {
	out := make([]crec, len(c.Records))
	for i, r := range c.Records {
		if r.N < 1 || r.N > len(fd.names) || r.V < 1 || r.V > len(fd.vers) {
			return nil, fmt.Errorf("class out of range: %+v", r)
		}
		out[i] = crec{Name: fd.names[r.N-1], Raw: fd.vers[r.V-1].raw, Want: fd.vers[r.V-1].want, Inst: r.Inst, ID: r.ID}
	}
	return out, nil
}

func init() {
	Register("docs", func(e *Env) error {
		withDoc := e.Args["doc"] == "1"
		withScan := e.Args["scan"] == "1"
		brief := e.Args["brief"] == "1" // conforming cases are answered by {"i", "ok", "fmt", "nt"} only
		return MapCases(e, func(idx int, raw []byte) (any, error) {
			var c docCase
			if err := json.Unmarshal(raw, &c); err != nil {
				return nil, err
			}
			fd := formats[c.Fmt]
			if fd == nil {
				return nil, fmt.Errorf("unknown format %q", c.Fmt)
			}
			if fd.alt != nil && idx%2 == 1 {
				cp := *fd
				cp.names = *fd.alt
				fd = &cp
			}
			if fd.mkAlt != nil && idx%3 == 2 {
				cp := *fd
				cp.mk = fd.mkAlt
				fd = &cp
			}
			recs, err := concretise(fd, &c)
			if err != nil {
				return nil, err
			}
			// the specification's expectation, concretised (table lookup only)
			want := [][2]string{}
			for _, p := range c.Expect {
				if p[0] < 1 || p[0] > len(fd.names) || p[1] < 1 || p[1] > len(fd.vers) {
					return nil, fmt.Errorf("expect class out of range: %v", p)
				}
				want = append(want, [2]string{fd.names[p[0]-1], fd.vers[p[1]-1].want})
			}
			var rd rendered
			if p := Safely(func() { rd = fd.render(recs, c.Layout) }); p != "" {
				return nil, fmt.Errorf("renderer %s panicked: %s", c.Fmt, p)
			}
			want = append(want, rd.extraWant...)
			sortPairs(want)
			r := runExtract(fd, rd.files)
			var sr extractResult
			if withScan {
				sr = runScan(fd, rd.files)
			}
			if brief && samePairs(r.Obs, want) && r.Err == "" && r.Panic == "" && r.Required &&
				(!withScan || (samePairs(sr.Obs, want) && sr.Err == "" && sr.Panic == "")) {
				return map[string]any{"i": idx, "ok": true, "fmt": c.Fmt, "nt": len(c.Records) >= 2 && c.Layout != defaultLayout(c.Layout.Variant)}, nil
			}
			out := map[string]any{"i": idx, "obs": r.Obs, "want": want, "required": r.Required}
			if brief {
				out["case"] = json.RawMessage(raw)
			}
			if r.Err != "" {
				out["err"] = r.Err
			}
			if r.Panic != "" {
				out["panic"] = r.Panic
			}
			if withScan {
				out["scan_obs"] = sr.Obs
				if sr.Err != "" {
					out["scan_err"] = sr.Err
				}
				if sr.Panic != "" {
					out["scan_panic"] = sr.Panic
				}
			}
			if withDoc {
				out["doc"] = rd.files
			}
			return out, nil
		})
	})
}
