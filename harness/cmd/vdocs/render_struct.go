package main

// Renderers of the TOML formats (Cargo.lock, poetry.lock) and of the JSON formats (package-lock.json
// v1/v2/v3, composer.lock, Pipfile.lock, packages.lock.json). JSON and TOML both permit CRLF, blank
// lines between members and a missing final newline; TOML also permits "#" comments.

import (
	"encoding/json"
	"strings"
)

// ---- a tiny ordered JSON writer that controls line layout ----

type kv struct {
	k string
	v any
}
type obj []kv
type arr []any
type blankN int              // n empty lines at this point (inside an obj: kv{"", blankN(n)})
type compact struct{ v any } // rendered on one line

func jscalar(v any) string {
	b, _ := json.Marshal(v)
	return string(b)
}

func oneLine(v any) string {
	switch x := v.(type) {
	case compact:
		return oneLine(x.v)
	case obj:
		var parts []string
		for _, e := range x {
			if _, ok := e.v.(blankN); ok {
				continue
			}
			parts = append(parts, jscalar(e.k)+":"+oneLine(e.v))
		}
		return "{" + strings.Join(parts, ", ") + "}"
	case arr:
		var parts []string
		for _, e := range x {
			if _, ok := e.(blankN); ok {
				continue
			}
			parts = append(parts, oneLine(e))
		}
		return "[" + strings.Join(parts, ",") + "]"
	default:
		return jscalar(v)
	}
}

func emit(v any, ind int, lead, trail string, o *[]string) {
	pad := strings.Repeat("  ", ind)
	switch x := v.(type) {
	case obj:
		real := 0
		for _, e := range x {
			if _, ok := e.v.(blankN); !ok {
				real++
			}
		}
		if real == 0 {
			*o = append(*o, pad+lead+"{}"+trail)
			return
		}
		*o = append(*o, pad+lead+"{")
		n := 0
		for _, e := range x {
			if b, ok := e.v.(blankN); ok {
				*o = append(*o, blanks(int(b))...)
				continue
			}
			n++
			t := ","
			if n == real {
				t = ""
			}
			emit(e.v, ind+1, jscalar(e.k)+": ", t, o)
		}
		*o = append(*o, pad+"}"+trail)
	case arr:
		real := 0
		for _, e := range x {
			if _, ok := e.(blankN); !ok {
				real++
			}
		}
		if real == 0 {
			*o = append(*o, pad+lead+"[]"+trail)
			return
		}
		*o = append(*o, pad+lead+"[")
		n := 0
		for _, e := range x {
			if b, ok := e.(blankN); ok {
				*o = append(*o, blanks(int(b))...)
				continue
			}
			n++
			t := ","
			if n == real {
				t = ""
			}
			emit(e, ind+1, "", t, o)
		}
		*o = append(*o, pad+"]"+trail)
	case compact:
		*o = append(*o, pad+lead+oneLine(x.v)+trail)
	default:
		*o = append(*o, pad+lead+jscalar(v)+trail)
	}
}

func jsonLines(v any) []string {
	var o []string
	emit(v, 0, "", "", &o)
	return o
}

func maybeCompact(l lay, v any) any {
	if l.Extra >= 2 {
		return compact{v}
	}
	return v
}

const fakeSha512 = "sha512-v2kDEe57lecTulaDIuNTPy3Ry4gLGJ6Z1O3vE1krgXZNrsQ+LFTGHVxVjcXPs17LhbZVGedAJv8XZ1tvj5FvSg=="
const fakeSha256 = "sha256:58cd2187c01e70e6e26505bca751777aa9f2ee0b7f4300988b709f44e013003f"

// ---------------------------------------------------------------------------------------------
// package-lock.json. v1: "dependencies" tree (nested "dependencies" of an entry = packages installed
// under that package's node_modules). v3: flat "packages" map keyed by install path; "" is the root
// project. v2: both. Entry members "requires" (v1) / "dependencies" (v2, v3) map names to *ranges* and
// are not records.

func npmBase(name string) string {
	if i := strings.LastIndex(name, "/"); i >= 0 {
		return name[i+1:]
	}
	return name
}

func npmEntry(r crec, k int, l lay, v1 bool, nested obj) any {
	resolved := "https://registry.npmjs.org/" + r.Name + "/-/" + npmBase(r.Name) + "-" + r.Raw + ".tgz"
	ranges := obj{{"dep-a", "^1.0.0"}, {"@scope/dep-b", "~2.3.4 || >=3"}}
	var e obj
	switch l.Extra {
	case 0:
		e = obj{{"version", r.Raw}}
	case 1:
		e = obj{{"version", r.Raw}, {"resolved", resolved}, {"integrity", fakeSha512}}
		if k%2 == 1 {
			e = append(e, kv{"dev", true})
		}
		if v1 {
			e = append(e, kv{"requires", ranges})
		} else {
			e = append(e, kv{"license", "MIT"}, kv{"dependencies", ranges})
			// npm copies these fields verbatim from each package's manifest: old packages use the legacy shapes
			if k%2 == 0 {
				e = append(e, kv{"engines", arr{"node >=0.6.0"}}, kv{"os", arr{"!win32"}}, kv{"deprecated", "use something else"})
			} else {
				e = append(e, kv{"engines", obj{{"node", ">=6.9.0"}}}, kv{"cpu", arr{"x64", "arm64"}}, kv{"hasInstallScript", true})
			}
		}
	default:
		e = obj{{"resolved", resolved}, {"integrity", fakeSha512}}
		if v1 {
			e = append(e, kv{"requires", obj{{r.Name + "-helper", "^9.9.9"}}}, kv{"optional", true})
		} else {
			e = append(e, kv{"dependencies", obj{{r.Name + "-helper", "^9.9.9"}}}, kv{"peerDependencies", obj{{"react", ">=16"}}},
				kv{"bin", obj{{"tool", "bin/tool.js"}}}, kv{"optional", true})
			if k%2 == 0 {
				e = append(e, kv{"funding", arr{obj{{"type", "github"}, {"url", "https://github.com/sponsors/x"}}, "https://opencollective.com/x"}}, kv{"license", obj{{"type", "MIT"}}})
			} else {
				e = append(e, kv{"funding", obj{{"url", "https://opencollective.com/x"}}}, kv{"engines", arr{"node >= 0.8"}})
			}
		}
		e = append(e, kv{"version", r.Raw})
	}
	if nested != nil {
		e = append(e, kv{"dependencies", nested})
		return e // an entry with a nested tree stays multi-line
	}
	return maybeCompact(l, e)
}

func renderPackageLock(recs []crec, l lay) rendered {
	n := len(recs)
	children := map[int][]int{}
	for k := 1; k <= n; k++ {
		p := place(k, l.Sect)
		children[p] = append(children[p], k)
	}
	root := obj{}
	if l.Extra >= 1 {
		root = append(root, kv{"name", "verif-project"}, kv{"version", "1.0.0"})
	}
	lv := map[string]int{"v1": 1, "v2": 2, "v3": 3}[l.Variant]
	if lv == 0 {
		lv = 3
	}
	root = append(root, kv{"lockfileVersion", lv})
	if l.Extra >= 1 {
		root = append(root, kv{"requires", true})
	}
	if lv >= 2 {
		pk := obj{}
		rootEntry := obj{{"name", "verif-project"}, {"version", "1.0.0"}}
		if l.Extra >= 1 {
			deps := obj{}
			for _, k := range children[0] {
				deps = append(deps, kv{recs[k-1].Name, "^" + recs[k-1].Raw})
			}
			rootEntry = append(rootEntry, kv{"license", "ISC"}, kv{"dependencies", deps})
		}
		if l.Extra < 2 {
			pk = append(pk, kv{"", rootEntry})
		}
		first := true
		for k := 1; k <= n; k++ {
			r := recs[k-1]
			key := "node_modules/" + r.Name
			for p := place(k, l.Sect); p != 0; p = place(p, l.Sect) {
				key = "node_modules/" + recs[p-1].Name + "/" + key
			}
			if !first && l.Blank > 0 {
				pk = append(pk, kv{"", blankN(l.Blank)})
			}
			first = false
			pk = append(pk, kv{key, npmEntry(r, k, l, false, nil)})
		}
		if l.Extra >= 2 {
			pk = append(pk, kv{"", rootEntry})
		}
		root = append(root, kv{"packages", pk})
	}
	if lv <= 2 {
		var tree func(parent int) obj
		tree = func(parent int) obj {
			o := obj{}
			for i, k := range children[parent] {
				if i > 0 && l.Blank > 0 {
					o = append(o, kv{"", blankN(l.Blank)})
				}
				var nested obj
				if len(children[k]) > 0 {
					nested = tree(k)
				}
				o = append(o, kv{recs[k-1].Name, npmEntry(recs[k-1], k, l, true, nested)})
			}
			return o
		}
		deps := tree(0)
		if !(n == 0 && l.Extra == 0 && lv == 1) { // a v1 lock without dependencies may omit the member
			root = append(root, kv{"dependencies", deps})
		}
	}
	return rendered{files: map[string]string{"package-lock.json": finish(jsonLines(root), l)}}
}

// ---------------------------------------------------------------------------------------------
// composer.lock: "packages" and "packages-dev" arrays of package objects.

func renderComposer(recs []crec, l lay) rendered {
	entry := func(r crec, k int) any {
		var e obj
		src := obj{{"type", "git"}, {"url", "https://github.com/" + r.Name + ".git"}, {"reference", "4192345e260f1d51b365536199744b987e160edc"}}
		dist := obj{{"type", "zip"}, {"url", "https://api.github.com/repos/" + r.Name + "/zipball/4192345e"}, {"reference", "4192345e260f1d51b365536199744b987e160edc"}, {"shasum", ""}}
		switch l.Extra {
		case 0:
			e = obj{{"name", r.Name}, {"version", r.Raw}}
		case 1:
			e = obj{{"name", r.Name}, {"version", r.Raw}, {"source", src}, {"dist", dist},
				{"require", obj{{"php", ">=7.2"}, {"psr/log-implementation", "1.0.0"}}},
				{"type", "library"},
				{"autoload", obj{{"psr-4", obj{{"Monolog\\", "src/Monolog"}}}}},
				{"notification-url", "https://packagist.org/downloads/"},
				{"license", arr{"MIT"}},
				{"description", "Sends your logs to files, sockets, inboxes, databases and various web services"},
				{"time", "2024-04-12T21:02:21+00:00"}}
		default:
			e = obj{{"authors", arr{obj{{"name", "Jordi Boggiano"}, {"email", "j.boggiano@seld.be"}, {"version", "9.9.9"}}}},
				{"version", r.Raw},
				{"replace", obj{{"fake/replaced", "self.version"}}},
				{"provide", obj{{"psr/log-implementation", "3.0.0"}}},
				{"extra", obj{{"branch-alias", obj{{"dev-main", "3.x-dev"}}}, {"name", "not-the-name"}}},
				{"dist", dist},
				{"support", obj{{"issues", "https://github.com/x/y/issues"}}},
				{"name", r.Name}}
		}
		return maybeCompact(l, e)
	}
	var a, b arr
	for k, r := range recs {
		dst := &a
		if inB(k+1, l.Sect) {
			dst = &b
		}
		if len(*dst) > 0 && l.Blank > 0 {
			*dst = append(*dst, blankN(l.Blank))
		}
		*dst = append(*dst, entry(r, k))
	}
	root := obj{}
	if l.Extra >= 1 {
		root = append(root, kv{"_readme", arr{"This file locks the dependencies of your project to a known state",
			"Read more about it at https://getcomposer.org/doc/01-basic-usage.md#installing-dependencies"}},
			kv{"content-hash", "8cb6f1a2cbb2a1a6d2c7f2c3f5a3b0d1"})
	}
	if l.Sect == 2 {
		root = append(root, kv{"packages-dev", b}, kv{"packages", a})
	} else {
		root = append(root, kv{"packages", a}, kv{"packages-dev", b})
	}
	if l.Extra >= 1 {
		root = append(root, kv{"aliases", arr{}}, kv{"minimum-stability", "stable"}, kv{"stability-flags", arr{}},
			kv{"prefer-stable", false}, kv{"prefer-lowest", false}, kv{"platform", obj{{"php", ">=8.1"}}},
			kv{"platform-dev", arr{}}, kv{"plugin-api-version", "2.6.0"})
	}
	return rendered{files: map[string]string{"composer.lock": finish(jsonLines(root), l)}}
}

// ---------------------------------------------------------------------------------------------
// Pipfile.lock: "default" and "develop" maps name -> {"version": "==X", ...}.

func renderPipfile(recs []crec, l lay) rendered {
	entry := func(r crec, k int) any {
		var e obj
		switch l.Extra {
		case 0:
			e = obj{{"version", r.Raw}}
		case 1:
			e = obj{{"hashes", arr{fakeSha256, "sha256:942c5a758f98d790eaed1a29cb6eefc7ffb0d1cf7af05c3d2791656dbd6ad1e1"}},
				{"index", "pypi"}, {"markers", "python_version >= '3.7'"}, {"version", r.Raw}}
		default:
			e = obj{{"version", r.Raw}, {"extras", arr{"security"}}, {"hashes", arr{fakeSha256}}, {"markers", "python_version >= '3.7' and extra == 'version'"}}
		}
		return maybeCompact(l, e)
	}
	a, b := obj{}, obj{}
	for k, r := range recs {
		dst := &a
		if inB(k+1, l.Sect) {
			dst = &b
		}
		if len(*dst) > 0 && l.Blank > 0 {
			*dst = append(*dst, kv{"", blankN(l.Blank)})
		}
		*dst = append(*dst, kv{r.Name, entry(r, k)})
	}
	meta := obj{{"hash", obj{{"sha256", "b8c2e1580c53e383cfe4254c1f16560b855d984fde8b2beb3bf6ee8fc2fe5a22"}}},
		{"pipfile-spec", 6}, {"requires", obj{{"python_version", "3.11"}}},
		{"sources", arr{obj{{"name", "pypi"}, {"url", "https://pypi.org/simple"}, {"verify_ssl", true}}}}}
	root := obj{}
	if l.Extra == 1 {
		root = append(root, kv{"_meta", meta})
	}
	if l.Sect == 2 {
		root = append(root, kv{"develop", b}, kv{"default", a})
	} else {
		root = append(root, kv{"default", a}, kv{"develop", b})
	}
	if l.Extra >= 2 {
		root = append(root, kv{"_meta", meta})
	}
	return rendered{files: map[string]string{"Pipfile.lock": finish(jsonLines(root), l)}}
}

// ---------------------------------------------------------------------------------------------
// packages.lock.json: "dependencies" -> target framework -> package name -> {"resolved": version, ...}.
// The member "dependencies" of a package maps names to requested versions and is not a record.

func renderPackagesLock(recs []crec, l lay) rendered {
	entry := func(r crec, k int) any {
		var e obj
		typ := "Direct"
		if k%2 == 1 {
			typ = "Transitive"
		}
		switch l.Extra {
		case 0:
			e = obj{{"type", typ}, {"resolved", r.Raw}}
		case 1:
			e = obj{{"type", typ}}
			if typ == "Direct" {
				e = append(e, kv{"requested", "[" + r.Raw + ", )"})
			}
			e = append(e, kv{"resolved", r.Raw}, kv{"contentHash", "HrC5BXdl00IP9zeV+0Z848QWPAoCr9P3bDEZguI+gkLcBKAOxix/tLEAAHC+UvDNPv4a2d18lOReHMOagPa+zQ=="},
				kv{"dependencies", obj{{"System.Buffers", "4.5.1"}, {"System.Memory", "4.5.5"}}})
		default:
			e = obj{{"dependencies", obj{{r.Name + ".Abstractions", "9.9.9"}, {"resolved", "9.9.9"}}},
				{"contentHash", "HrC5BXdl00IP9zeV+0Z848QWPAoCr9P3bDEZguI+gkLcBKAOxix/tLEAAHC+UvDNPv4a2d18lOReHMOagPa+zQ=="},
				{"type", typ}, {"resolved", r.Raw}}
		}
		return maybeCompact(l, e)
	}
	a, b := obj{}, obj{}
	for k, r := range recs {
		dst := &a
		if inB(k+1, l.Sect) {
			dst = &b
		}
		if len(*dst) > 0 && l.Blank > 0 {
			*dst = append(*dst, kv{"", blankN(l.Blank)})
		}
		*dst = append(*dst, kv{r.Name, entry(r, k)})
	}
	fw := obj{}
	switch {
	case l.Sect == 2:
		fw = append(fw, kv{"net8.0", b}, kv{"net6.0", a})
	case l.Sect == 1 || l.Sect == 3:
		fw = append(fw, kv{"net6.0", a}, kv{"net8.0", b})
	default:
		fw = append(fw, kv{"net6.0", a})
		if l.Extra >= 2 {
			fw = append(fw, kv{"net6.0/linux-x64", obj{}})
		}
	}
	ver := 1
	if l.Extra >= 2 {
		ver = 2
	}
	root := obj{{"version", ver}, {"dependencies", fw}}
	return rendered{files: map[string]string{"packages.lock.json": finish(jsonLines(root), l)}}
}

// ---------------------------------------------------------------------------------------------
// TOML helpers

func tstr(s string, literal bool) string {
	if literal && !strings.ContainsAny(s, "'\n") {
		return "'" + s + "'"
	}
	return jscalar(s) // JSON string escapes are valid TOML basic-string escapes for the alphabets used
}

// Cargo.lock: array of tables [[package]]; [metadata] and [[patch.unused]] are not packages of the lock.
func renderCargo(recs []crec, l lay) rendered {
	var out []string
	if l.Extra >= 1 {
		out = append(out, "# This file is automatically @generated by Cargo.", "# It is not intended for manual editing.", "version = 3")
		if len(recs) > 0 {
			out = append(out, "")
		}
	}
	ic := func(s string) string {
		if l.Comments == "inline" {
			return s + " # " + "name = \"fake\""
		}
		return s
	}
	for k, r := range recs {
		if k > 0 {
			out = append(out, blanks(l.Blank)...)
			if l.Extra >= 1 {
				out = append(out, "")
			}
		}
		if l.Comments == "line" {
			out = append(out, "# [[package]]", "# name = \"fake\"")
		}
		out = append(out, ic("[[package]]"))
		switch l.Extra {
		case 0:
			out = append(out, ic("name = "+tstr(r.Name, false)), ic("version = "+tstr(r.Raw, false)))
		case 1:
			out = append(out, ic("name = "+tstr(r.Name, false)), ic("version = "+tstr(r.Raw, false)),
				"source = \"registry+https://github.com/rust-lang/crates.io-index\"",
				"checksum = \"3fb1c873e1b9b056a4dc4c0c198b24c3ffa059243875552b2bd0933b1aee4ce2\"",
				"dependencies = [",
				" \"proc-macro2\",",
				" \"quote 1.0.35\",",
				" \"syn 2.0.52 (registry+https://github.com/rust-lang/crates.io-index)\",",
				"]")
		default:
			out = append(out,
				"dependencies = [\"version 9.9.9\", \"name\"]",
				ic("version   =   "+tstr(r.Raw, true)),
				"source = 'git+https://github.com/example/repo?rev=abc#abcdef'",
				ic("\"name\" = "+tstr(r.Name, k%2 == 0)))
		}
	}
	if l.Extra >= 2 {
		out = append(out, "",
			"[[patch.unused]]",
			"name = \"unused-patch\"",
			"version = \"9.9.9\"",
			"",
			"[metadata]",
			"\"checksum fake 9.9.9 (registry+https://github.com/rust-lang/crates.io-index)\" = \"3fb1c873\"")
	}
	if l.Comments == "line" {
		out = append(out, "# end")
	}
	return rendered{files: map[string]string{"Cargo.lock": finish(out, l)}}
}

// poetry.lock: array of tables [[package]] with sub-tables [package.dependencies], [package.extras],
// [package.source]; [metadata] (and, in lock-version 1.x, [metadata.files]) are not packages.
func renderPoetry(recs []crec, l lay) rendered {
	var out []string
	if l.Extra >= 1 {
		out = append(out, "# This file is automatically @generated by Poetry 1.8.2 and should not be changed by hand.", "")
	}
	ic := func(s string) string {
		if l.Comments == "inline" {
			return s + "\t# version = \"9.9.9\""
		}
		return s
	}
	for k, r := range recs {
		if k > 0 {
			out = append(out, blanks(l.Blank)...)
			if l.Extra >= 1 {
				out = append(out, "")
			}
		}
		if l.Comments == "line" {
			out = append(out, "# [[package]]", "#name = \"fake\"")
		}
		out = append(out, ic("[[package]]"))
		switch l.Extra {
		case 0:
			out = append(out, ic("name = "+tstr(r.Name, false)), ic("version = "+tstr(r.Raw, false)))
		case 1:
			out = append(out, ic("name = "+tstr(r.Name, false)), ic("version = "+tstr(r.Raw, false)),
				"description = \"Python HTTP for Humans.\"",
				"optional = false",
				"python-versions = \">=3.7\"",
				"files = [",
				"    {file = \"pkg-1.0-py3-none-any.whl\", hash = \""+fakeSha256+"\"},",
				"    {file = \"pkg-1.0.tar.gz\", hash = \""+fakeSha256+"\"},",
				"]",
				"",
				"[package.dependencies]",
				"certifi = \">=2017.4.17\"",
				"idna = {version = \">=2.5,<4\", optional = true, markers = \"python_version < '3.9'\"}",
				"",
				"[package.extras]",
				"socks = [\"PySocks (>=1.5.6,!=1.5.7)\"]")
		default:
			out = append(out,
				"description = \"\"\"",
				"name = \"fake\"",
				"version = \"9.9.9\"",
				"\"\"\"",
				"category = \"main\"",
				ic("version = "+tstr(r.Raw, true)),
				"optional = false",
				"python-versions = '*'",
				"groups = [\"main\", \"dev\"]",
				ic("name = "+tstr(r.Name, k%2 == 0)),
				"",
				"[package.dependencies]",
				"urllib3 = {version = \">=1.21.1,<3\"}",
				"",
				"[package.dependencies.name]",
				"version = \">=9\"",
				"markers = \"sys_platform == 'win32'\"",
				"",
				"[package.source]",
				"type = \"legacy\"",
				"url = \"https://example.org/simple\"",
				"reference = \"private\"")
		}
	}
	if l.Extra >= 1 {
		out = append(out, "",
			"[metadata]",
			"lock-version = \"2.0\"",
			"python-versions = \"^3.8\"",
			"content-hash = \"fafb334cb038533f851c23d0b63254223abf72ce4f02987e7064b0c95566699a\"")
	}
	if l.Extra >= 2 {
		out = append(out, "", "[metadata.files]")
		seen := map[string]bool{}
		for _, r := range recs {
			if !seen[r.Name] {
				out = append(out, tstr(r.Name, false)+" = []")
			}
			seen[r.Name] = true
		}
	}
	if l.Comments == "line" {
		out = append(out, "# end")
	}
	return rendered{files: map[string]string{"poetry.lock": finish(out, l)}}
}
