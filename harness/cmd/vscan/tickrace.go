package main

// C16(c): a whole scan that outlives the 2-second status interval, run under the Go race detector
// (the binary is built with -race by the orchestrator). The file system is slowed down so that the
// status goroutine fires several times while the walking goroutine is updating its counters.

import (
	"context"
	"fmt"
	"io/fs"
	"strconv"
	"time"

	scalibr "github.com/google/osv-scalibr"
	"github.com/google/osv-scalibr/extractor/filesystem"
	scalibrfs "github.com/google/osv-scalibr/fs"
	. "verif/harness/hlib"
)

func init() {
	Register("tickrace", func(e *Env) error {
		Quiet()
		secs, _ := strconv.Atoi(e.Args["seconds"])
		if secs == 0 {
			secs = 5
		}
		nfiles := 400
		m := &memFS{nodes: map[string]*mnode{".": {kind: "dir"}}, faults: map[faultKey]error{}, stream: true}
		var kids []string
		req := map[string]bool{}
		for i := 0; i < nfiles; i++ {
			n := fmt.Sprintf("f%04d", i)
			m.nodes[n] = &mnode{kind: "file", data: []byte("xx")}
			kids = append(kids, n)
			if i%3 == 0 {
				req[n] = true
			}
		}
		m.nodes["."].kids = kids
		s := &swSession{calls: map[string]int{}, rootOf: map[scalibrfs.FS]int{}, unmap: map[string]string{}}
		slow := &slowFS{memFS: m, delay: time.Duration(secs) * time.Second / time.Duration(nfiles/3+1)}
		s.rootOf[slow] = 1
		ex := &swExtractor{name: "e1", req: req, out: map[string]string{}, s: s}
		cfg := &scalibr.ScanConfig{
			FilesystemExtractors: []filesystem.Extractor{ex},
			ScanRoots:            []*scalibrfs.ScanRoot{{FS: slow, Path: ""}},
			Stats:                &swStats{s: s},
		}
		start := time.Now()
		res := scalibr.New().Scan(context.Background(), cfg)
		fmt.Printf("tickrace: scan %s in %v, %d extract calls\n", res.Status.String(), time.Since(start).Round(time.Millisecond), s.ncalls)
		return nil
	})
}

type slowFS struct {
	*memFS
	delay time.Duration
}

func (s *slowFS) Open(name string) (fs.File, error) {
	time.Sleep(s.delay)
	return s.memFS.Open(name)
}
