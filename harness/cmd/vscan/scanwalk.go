package main

// Binding (A) for ScanWalk.tla: every TLC-generated scenario is materialised as an in-memory file system
// (streaming and fallback directory listing) or as a real directory, scanned with the real scalibr.Scan,
// and the observed Extract calls / inventory / statuses are projected to the shape of the case's `expect`.

import (
	"context"
	"encoding/json"
	"errors"
	"fmt"
	"io"
	"io/fs"
	"os"
	"path"
	"path/filepath"
	"regexp"
	"sort"
	"strings"
	"sync"
	"sync/atomic"
	"syscall"
	"time"

	"github.com/gobwas/glob"
	scalibr "github.com/google/osv-scalibr"
	"github.com/google/osv-scalibr/detector"
	"github.com/google/osv-scalibr/extractor"
	"github.com/google/osv-scalibr/extractor/filesystem"
	"github.com/google/osv-scalibr/extractor/standalone"
	scalibrfs "github.com/google/osv-scalibr/fs"
	"github.com/google/osv-scalibr/inventory"
	"github.com/google/osv-scalibr/packageindex"
	"github.com/google/osv-scalibr/plugin"
	"github.com/google/osv-scalibr/purl"
	"github.com/google/osv-scalibr/stats"
	. "verif/harness/hlib"
)

type swAtom struct {
	T string `json:"t"`
	N string `json:"n"`
}

type swCase struct {
	Nodes []struct {
		P    string   `json:"p"`
		K    string   `json:"k"`
		Size int      `json:"size"`
		Gi   []swAtom `json:"gi"`
	} `json:"nodes"`
	Cfg struct {
		SkipList    []string `json:"skipList"`
		ReSkip      []string `json:"reSkip"`
		GlobSkip    []string `json:"globSkip"`
		UseGit      bool     `json:"useGit"`
		Paths       []string `json:"paths"`
		IgnoreSub   bool     `json:"ignoreSub"`
		MaxFileSize int      `json:"maxFileSize"`
		ReadLinks   bool     `json:"readLinks"`
		Perm        int      `json:"perm"`
		MaxInodes   int      `json:"maxInodes"`
		Fatal       bool     `json:"fatal"`
		Roots       int      `json:"roots"`
		Cancel      struct {
			Kind string `json:"kind"`
			N    int    `json:"n"`
		} `json:"cancel"`
		Faults []struct {
			Op string `json:"op"`
			P  string `json:"p"`
			K  int    `json:"k"`
		} `json:"faults"`
	} `json:"cfg"`
	Ex  []string            `json:"ex"`
	Req map[string][]string `json:"req"`
	Out [][]string          `json:"out"`
}

// name maps: abstract component name -> concrete name (dots, spaces, leading dashes)
var nameMaps = map[string]map[string]string{
	"plain": {},
	"nasty": {"b": "-d", "f": "x y.txt", "g": "b.c"},
	// names that begin / end with a blank: significant in a .gitignore line (a trailing one is written escaped)
	"blank": {"b": "d ", "f": " f.txt", "g": "g"},
}

func mapPath(p string, nm map[string]string) string {
	if p == "." {
		return p
	}
	parts := strings.Split(p, "/")
	for i, c := range parts {
		if v, ok := nm[c]; ok {
			parts[i] = v
		}
	}
	return strings.Join(parts, "/")
}

// rootSize mirrors SizeIn of ScanWalk.tla: in even-numbered roots small and oversize regular files swap sizes.
func rootSize(root int, kind string, size int) int {
	if root%2 == 0 && kind == "big" {
		return 2
	}
	if root%2 == 0 && kind == "file" {
		return 6
	}
	return size
}

func concreteSize(abstract int) int {
	switch {
	case abstract <= 0:
		return 0
	case abstract < 5:
		return 10 * abstract
	case abstract == 5:
		return 100
	}
	return 100 + (abstract - 5)
}

type swSession struct {
	mu          sync.Mutex
	calls       map[string]int // "root|ex|path"
	callOrder   []string
	ncalls      int
	visited     int
	cancel      context.CancelFunc
	cancelKind  string
	cancelN     int
	cancelledAt int // ncalls value when the context was cancelled (-1: never)
	rootOf      map[scalibrfs.FS]int
	unmap       map[string]string // concrete path -> abstract path
	standalone  int
	detector    int
	afterCancel []string
	cancelled   bool
}

type swExtractor struct {
	name string
	req  map[string]bool   // concrete paths
	out  map[string]string // concrete path -> outcome
	s    *swSession
}

func (e *swExtractor) Name() string                       { return e.name }
func (e *swExtractor) Version() int                       { return 1 }
func (e *swExtractor) Requirements() *plugin.Capabilities { return &plugin.Capabilities{} }
func (e *swExtractor) ToPURL(p *extractor.Package) *purl.PackageURL {
	return &purl.PackageURL{Type: purl.TypeGeneric, Name: "p", Version: p.Version}
}
func (e *swExtractor) Ecosystem(p *extractor.Package) string { return "" }
func (e *swExtractor) FileRequired(api filesystem.FileAPI) bool {
	return e.req[api.Path()]
}
func (e *swExtractor) Extract(ctx context.Context, input *filesystem.ScanInput) (inventory.Inventory, error) {
	s := e.s
	s.mu.Lock()
	root := s.rootOf[input.FS]
	key := fmt.Sprintf("%d|%s|%s", root, e.name, s.unmap[input.Path])
	s.calls[key]++
	s.callOrder = append(s.callOrder, key)
	s.ncalls++
	if s.cancelled {
		s.afterCancel = append(s.afterCancel, key)
	}
	if s.cancelKind == "extract" && s.ncalls == s.cancelN {
		s.cancelled = true
		s.cancel()
	}
	s.mu.Unlock()
	if _, err := io.ReadAll(input.Reader); err != nil {
		return inventory.Inventory{}, fmt.Errorf("read failed: %w", err)
	}
	pkg := &extractor.Package{Name: key, Version: "1", Locations: []string{input.Path}}
	// a second package that ties with every other extraction's on name and version (sort keys 3 and 4 decide)
	// the first extractor reports the higher version, so version (2nd key) and extractor (3rd key) pull in opposite directions
	tieVer := "1"
	if e.name == "e1" {
		tieVer = "2"
	}
	tie := &extractor.Package{Name: "tie", Version: tieVer, Locations: []string{input.Path}}
	// two more that also tie on extractor and on the first (smallest) location: only the later location decides
	tieY := &extractor.Package{Name: "tie", Version: "1", Locations: []string{"~y", input.Path}}
	tieX := &extractor.Package{Name: "tie", Version: "1", Locations: []string{input.Path, "~x"}}
	switch e.out[input.Path] {
	case "err":
		return inventory.Inventory{}, errors.New("extraction failed")
	case "errpkg":
		return inventory.Inventory{Packages: []*extractor.Package{tieY, pkg, tie, tieX}}, errors.New("extraction partly failed")
	case "empty":
		return inventory.Inventory{}, nil
	}
	return inventory.Inventory{Packages: []*extractor.Package{tieY, tie, pkg, tieX}}, nil
}

type swStandalone struct{ s *swSession }

func (e *swStandalone) Name() string                                 { return "zz-standalone" }
func (e *swStandalone) Version() int                                 { return 1 }
func (e *swStandalone) Requirements() *plugin.Capabilities           { return &plugin.Capabilities{} }
func (e *swStandalone) ToPURL(p *extractor.Package) *purl.PackageURL { return nil }
func (e *swStandalone) Ecosystem(p *extractor.Package) string        { return "" }
func (e *swStandalone) Extract(ctx context.Context, input *standalone.ScanInput) (inventory.Inventory, error) {
	e.s.mu.Lock()
	e.s.standalone++
	e.s.mu.Unlock()
	return inventory.Inventory{}, nil
}

type swDetector struct{ s *swSession }

func (d *swDetector) Name() string                       { return "zz-detector" }
func (d *swDetector) Version() int                       { return 1 }
func (d *swDetector) Requirements() *plugin.Capabilities { return &plugin.Capabilities{} }
func (d *swDetector) RequiredExtractors() []string       { return nil }
func (d *swDetector) Scan(ctx context.Context, root *scalibrfs.ScanRoot, px *packageindex.PackageIndex) ([]*detector.Finding, error) {
	d.s.mu.Lock()
	d.s.detector++
	d.s.mu.Unlock()
	// findings in an order that is not the documented one (advisory reference, then extra)
	adv := func(ref string) *detector.Advisory {
		return &detector.Advisory{ID: &detector.AdvisoryID{Publisher: "V", Reference: ref}, Title: "t-" + ref}
	}
	// two more with a reference used above but another publisher (a different advisory): the documented order looks at
	// the reference and the extra text only
	advW := func(ref string) *detector.Advisory {
		return &detector.Advisory{ID: &detector.AdvisoryID{Publisher: "W", Reference: ref}, Title: "w-" + ref}
	}
	return []*detector.Finding{
		{Adv: adv("B"), Extra: "2"}, {Adv: advW("A"), Extra: "5"}, {Adv: adv("A"), Extra: "9"}, {Adv: adv("A"), Extra: "1"}, {Adv: adv("C"), Extra: "0"},
		{Adv: adv("B"), Extra: "1"}, {Adv: advW("B"), Extra: "0"},
	}, nil
}

type swStats struct {
	stats.NoopCollector
	s *swSession
}

func (c *swStats) AfterInodeVisited(p string) {
	s := c.s
	if strings.HasPrefix(path.Base(p), padPrefix) {
		return // padding of the "wide" mode
	}
	s.mu.Lock()
	s.visited++
	if s.cancelKind == "inode" && s.visited == s.cancelN {
		s.cancelled = true
		s.cancel()
	}
	s.mu.Unlock()
}

const (
	padPrefix = "~pad"
	widePad   = 130
)

type swObs struct {
	Mode         string         `json:"mode"`
	Status       string         `json:"status"`
	Reason       string         `json:"reason,omitempty"`
	Calls        [][]any        `json:"calls"`
	Pkgs         [][]any        `json:"pkgs"`
	Plugins      map[string]any `json:"plugins"`
	Visited      int            `json:"visited"`
	Sorted       bool           `json:"sorted"`
	DupStatus    bool           `json:"dup_status"`
	Standalone   int            `json:"standalone"`
	Detector     int            `json:"detector"`
	Ties         int            `json:"ties"`
	NoStandalone bool           `json:"no_standalone"`
	Findings     int            `json:"findings"`
	AfterCanc    []string       `json:"after_cancel"`
	Panic        string         `json:"panic,omitempty"`
}

func bagToTriples(m map[string]int) [][]any {
	keys := make([]string, 0, len(m))
	for k := range m {
		keys = append(keys, k)
	}
	sort.Strings(keys)
	out := [][]any{}
	for _, k := range keys {
		parts := strings.SplitN(k, "|", 3)
		var r int
		fmt.Sscanf(parts[0], "%d", &r)
		out = append(out, []any{r, parts[1], parts[2], m[k]})
	}
	return out
}

// a permission failure as the operating system reports it (os.IsPermission does not look through fmt.Errorf wrapping)
var errPerm error = syscall.EACCES

var _ = fs.ErrPermission
var errIO = errors.New("injected: input/output error")

// swTimeouts counts scans that did not return; after maxSwTimeouts of them the remaining runs are skipped
// (each costs 30 s and a leaked goroutine): the hangs are reported, the rest is not waited for.
var swTimeouts atomic.Int64

const maxSwTimeouts = 8

// runScanWalk executes one case in one mode ("stream" | "fallback" | "real") with one name map.
func runScanWalk(c *swCase, mode, nmName, tmp string, faultKind int) (obs swObs) {
	obs.Mode = mode + "/" + nmName
	nm := nameMaps[nmName]
	ctx, cancel := context.WithCancel(context.Background())
	defer cancel()
	s := &swSession{calls: map[string]int{}, cancel: cancel, cancelKind: c.Cfg.Cancel.Kind, cancelN: c.Cfg.Cancel.N,
		rootOf: map[scalibrfs.FS]int{}, unmap: map[string]string{}}
	if c.Cfg.Cancel.Kind == "pre" {
		s.cancelled = true
		cancel()
	}
	for _, n := range c.Nodes {
		s.unmap[mapPath(n.P, nm)] = n.P
	}
	gitext := func(atoms []swAtom) string {
		var b strings.Builder
		b.WriteString("# generated\n\n")
		for _, a := range atoms {
			n := a.N
			if v, ok := nm[n]; ok {
				n = v
			}
			if strings.HasSuffix(n, " ") {
				n = strings.TrimSuffix(n, " ") + "\\ " // git: trailing spaces count only when quoted with a backslash
			}
			switch a.T {
			case "name":
				b.WriteString(n + "\n")
			case "anch":
				b.WriteString("/" + n + "\n")
			case "dironly":
				b.WriteString(n + "/\n")
			}
		}
		return b.String()
	}
	content := func(k string, size int, gi []swAtom, p string) []byte {
		if path.Base(p) == ".gitignore" {
			return []byte(gitext(gi))
		}
		// abstract sizes 2 / 5 (= limit) / 6 are rendered as 20 / 100 / 101 bytes so that a .gitignore file
		// (a few dozen bytes) is below the limit like any small file
		return []byte(strings.Repeat("x", concreteSize(size)))
	}
	var roots []*scalibrfs.ScanRoot
	rootDirs := map[int]string{}
	// every other scan of a real directory asks for absolute locations (root path + location, per root)
	storeAbs := mode == "real" && faultKind%2 == 1
	realBase := ""
	for r := 1; r <= c.Cfg.Roots; r++ {
		if mode == "real" {
			base, err := os.MkdirTemp(tmp, "sw")
			if err != nil {
				obs.Panic = "harness: " + err.Error()
				return
			}
			defer os.RemoveAll(base)
			rootDir := filepath.Join(base, "root")
			os.Mkdir(rootDir, 0755)
			os.WriteFile(filepath.Join(base, "linktarget"), []byte("LT"), 0644)
			os.WriteFile(filepath.Join(base, "linktarget-big"), bigTarget, 0644)
			os.Mkdir(filepath.Join(base, "linktarget-dir"), 0755)
			for _, n := range c.Nodes {
				cp := filepath.Join(rootDir, filepath.FromSlash(mapPath(n.P, nm)))
				os.MkdirAll(filepath.Dir(cp), 0755)
				switch n.K {
				case "dir":
					os.MkdirAll(cp, 0755)
				case "link":
					os.Symlink(filepath.Join(base, "linktarget"), cp)
				case "linkbig":
					os.Symlink(filepath.Join(base, "linktarget-big"), cp)
				case "linkdir":
					os.Symlink(filepath.Join(base, "linktarget-dir"), cp)
				case "special":
					syscall.Mkfifo(cp, 0644)
				default:
					os.WriteFile(cp, content(n.K, rootSize(r, n.K, n.Size), n.Gi, n.P), 0644)
				}
			}
			sr := scalibrfs.RealFSScanRoot(rootDir)
			rootDirs[r] = rootDir
			s.rootOf[sr.FS] = r
			roots = append(roots, sr)
			if r == 1 {
				realBase = rootDir
			}
			continue
		}
		m := &memFS{nodes: map[string]*mnode{".": {kind: "dir"}}, faults: map[faultKey]error{}, stream: mode == "stream" || mode == "wide", id: r}
		kids := map[string][]string{}
		for _, n := range c.Nodes {
			cp := mapPath(n.P, nm)
			k := n.K
			m.nodes[cp] = &mnode{kind: k, data: content(n.K, rootSize(r, n.K, n.Size), n.Gi, n.P)}
			if k == "dir" {
				m.nodes[cp].data = nil
			}
			if k == "link" || k == "linkbig" || k == "linkdir" {
				m.nodes[cp].data = []byte("->t") // what Lstat-like information reports: the link text
			}
			par := path.Dir(n.P)
			kids[par] = append(kids[par], n.P)
		}
		for par, ch := range kids {
			ord := listSeq(ch, c.Cfg.Perm)
			names := make([]string, len(ord))
			for i, p := range ord {
				names[i] = path.Base(mapPath(p, nm))
			}
			m.nodes[mapPath(par, nm)].kids = names
		}
		if mode == "wide" {
			// every directory additionally holds 2 x widePad plain files nobody requires, listed before and after
			// its entries: stuttering steps of the specification (a handleFile call on a non-required file changes
			// nothing when no inode limit is set), which make the listing longer than any batch the walker may read
			var dirs []string
			for p, n := range m.nodes {
				if n.kind == "dir" {
					dirs = append(dirs, p)
				}
			}
			for _, d := range dirs {
				var before, after []string
				for i := 0; i < widePad; i++ {
					b, a := fmt.Sprintf("%sa%03d", padPrefix, i), fmt.Sprintf("%sz%03d", padPrefix, i)
					m.nodes[path.Join(d, b)] = &mnode{kind: "file", data: []byte("x")}
					m.nodes[path.Join(d, a)] = &mnode{kind: "file", data: []byte("x")}
					before, after = append(before, b), append(after, a)
				}
				m.nodes[d].kids = append(append(before, m.nodes[d].kids...), after...)
			}
		}
		for i, f := range c.Cfg.Faults {
			e := errPerm
			if (faultKind+i)%2 == 1 {
				e = errIO
			}
			m.faults[faultKey{f.Op, mapPath(f.P, nm), f.K}] = e
		}
		s.rootOf[m] = r
		roots = append(roots, &scalibrfs.ScanRoot{FS: m, Path: ""})
	}
	abs := func(p string) string {
		cp := mapPath(p, nm)
		if mode == "real" {
			return filepath.Join(realBase, filepath.FromSlash(cp))
		}
		return cp
	}
	var exs []filesystem.Extractor
	outOf := map[string]map[string]string{}
	for _, o := range c.Out {
		if outOf[o[0]] == nil {
			outOf[o[0]] = map[string]string{}
		}
		outOf[o[0]][mapPath(o[1], nm)] = o[2]
	}
	for _, name := range c.Ex {
		e := &swExtractor{name: name, req: map[string]bool{}, out: outOf[name], s: s}
		if e.out == nil {
			e.out = map[string]string{}
		}
		for _, p := range c.Req[name] {
			e.req[mapPath(p, nm)] = true
		}
		exs = append(exs, e)
	}
	// every other cancellation scenario runs without a standalone extractor, so that the detector loop is the
	// first plugin loop to meet the cancelled context
	sas := []standalone.Extractor{&swStandalone{s}}
	if c.Cfg.Cancel.Kind != "none" && faultKind%2 == 1 {
		sas = nil
		obs.NoStandalone = true
	}
	cfg := &scalibr.ScanConfig{
		FilesystemExtractors: exs,
		StandaloneExtractors: sas,
		Detectors:            []detector.Detector{&swDetector{s}},
		ScanRoots:            roots,
		UseGitignore:         c.Cfg.UseGit,
		IgnoreSubDirs:        c.Cfg.IgnoreSub,
		MaxFileSize:          concreteSize(c.Cfg.MaxFileSize),
		ReadSymlinks:         c.Cfg.ReadLinks,
		MaxInodes:            c.Cfg.MaxInodes,
		ErrorOnFSErrors:      c.Cfg.Fatal,
		StoreAbsolutePath:    storeAbs,
		Stats:                &swStats{s: s},
	}
	for _, p := range c.Cfg.Paths {
		cfg.PathsToExtract = append(cfg.PathsToExtract, abs(p))
	}
	for _, p := range c.Cfg.SkipList {
		cfg.DirsToSkip = append(cfg.DirsToSkip, abs(p))
	}
	if len(c.Cfg.ReSkip) > 0 {
		var alts []string
		for _, p := range c.Cfg.ReSkip {
			alts = append(alts, regexp.QuoteMeta(mapPath(p, nm)))
		}
		cfg.SkipDirRegex = regexp.MustCompile("^(" + strings.Join(alts, "|") + ")$")
	}
	if len(c.Cfg.GlobSkip) > 0 {
		var alts []string
		for _, p := range c.Cfg.GlobSkip {
			alts = append(alts, glob.QuoteMeta(mapPath(p, nm)))
		}
		cfg.SkipDirGlob = glob.MustCompile("{" + strings.Join(alts, ",") + "}")
	}
	var res *scalibr.ScanResult
	done := make(chan struct{})
	go func() {
		defer close(done)
		obs.Panic = Safely(func() { res = scalibr.New().Scan(ctx, cfg) })
	}()
	select {
	case <-done:
	case <-time.After(30 * time.Second):
		obs.Panic = "timeout: Scan did not return within 30s"
		swTimeouts.Add(1)
		return
	}
	s.mu.Lock()
	defer s.mu.Unlock()
	obs.Calls = bagToTriples(s.calls)
	obs.Visited = s.visited
	obs.Standalone = s.standalone
	obs.Detector = s.detector
	obs.AfterCanc = s.afterCancel
	obs.Plugins = map[string]any{}
	obs.Pkgs = [][]any{}
	if obs.Panic != "" || res == nil {
		obs.Status = "panic"
		return
	}
	if res.Status.Status == plugin.ScanStatusSucceeded {
		obs.Status = "ok"
	} else {
		obs.Status = "failed"
		obs.Reason = res.Status.FailureReason
	}
	pk := map[string]int{}
	for _, p := range res.Inventory.Packages {
		if p.Name == "tie" {
			obs.Ties++
			continue
		}
		key := p.Name
		if p.Extractor != nil {
			parts := strings.SplitN(p.Name, "|", 3)
			if len(parts) == 3 && parts[1] != p.Extractor.Name() {
				key = p.Name + "|WRONG-EXTRACTOR:" + p.Extractor.Name()
			}
		} else {
			key = p.Name + "|NIL-EXTRACTOR"
		}
		// the location: the path the extractor was given, below the root's path when absolute locations are asked for
		if parts := strings.SplitN(p.Name, "|", 3); len(parts) == 3 && len(p.Locations) > 0 {
			var r int
			fmt.Sscanf(parts[0], "%d", &r)
			want := mapPath(parts[2], nm)
			if storeAbs {
				want = filepath.Join(rootDirs[r], filepath.FromSlash(want))
			}
			if p.Locations[0] != want {
				key += "|BAD-LOCATION:" + p.Locations[0] + " (want " + want + ")"
			}
		}
		pk[key]++
	}
	obs.Pkgs = bagToTriples(pk)
	obs.Sorted = sort.SliceIsSorted(res.Inventory.Packages, func(i, j int) bool {
		return scalibr.CmpPackages(res.Inventory.Packages[i], res.Inventory.Packages[j]) < 0
	}) || len(res.Inventory.Packages) < 2
	// also require the documented key order explicitly: name, version, extractor, locations
	for i := 1; i < len(res.Inventory.Packages); i++ {
		a, b := res.Inventory.Packages[i-1], res.Inventory.Packages[i]
		ka := []string{a.Name, a.Version, a.Extractor.Name(), fmt.Sprint(a.Locations)}
		kb := []string{b.Name, b.Version, b.Extractor.Name(), fmt.Sprint(b.Locations)}
		for x := range ka {
			if ka[x] < kb[x] {
				break
			}
			if ka[x] > kb[x] {
				obs.Sorted = false
				break
			}
		}
	}
	for i := 1; i < len(res.Inventory.Findings); i++ {
		a, b := res.Inventory.Findings[i-1], res.Inventory.Findings[i]
		if a.Adv.ID.Reference > b.Adv.ID.Reference || (a.Adv.ID.Reference == b.Adv.ID.Reference && a.Extra > b.Extra) {
			obs.Sorted = false
		}
	}
	obs.Findings = len(res.Inventory.Findings)
	seen := map[string]bool{}
	lastName := ""
	for _, st := range res.PluginStatus {
		if seen[st.Name] {
			obs.DupStatus = true
		}
		seen[st.Name] = true
		if st.Name < lastName {
			obs.Sorted = false
		}
		lastName = st.Name
		v := "ok"
		switch st.Status.Status {
		case plugin.ScanStatusFailed:
			v = "failed"
		case plugin.ScanStatusPartiallySucceeded:
			v = "partial"
		}
		if !strings.HasPrefix(st.Name, "zz-") {
			obs.Plugins[st.Name] = v
		}
	}
	return
}

func init() {
	Register("scanwalk", func(e *Env) error {
		Quiet()
		every := 1
		fmt.Sscanf(e.Args["real_every"], "%d", &every)
		if every < 1 {
			every = 1
		}
		modes := strings.Split(e.Args["modes"], ",")
		if e.Args["modes"] == "" {
			modes = []string{"stream"}
		}
		return MapCases(e, func(idx int, raw []byte) (any, error) {
			var c swCase
			if err := json.Unmarshal(raw, &c); err != nil {
				return nil, err
			}
			runs := []swObs{}
			for mi, mode := range modes {
				parts := strings.SplitN(mode, "/", 2)
				nmName := "plain"
				if len(parts) == 2 {
					nmName = parts[1]
				}
				m := parts[0]
				if m == "real" && (len(c.Cfg.Faults) > 0 || c.Cfg.Perm > 1 || c.Cfg.MaxInodes > 0 || c.Cfg.Cancel.Kind != "none" || idx%every != 0) {
					continue // faults and listing orders cannot be imposed on a real directory
				}
				if m == "wide" && (len(c.Cfg.Faults) > 0 || c.Cfg.MaxInodes > 0) {
					continue // padding shifts entry indices and consumes the inode budget
				}
				if m == "fallback" {
					skip := false
					for _, f := range c.Cfg.Faults {
						if f.Op == "readent" {
							skip = true // the fallback lists a directory in one call: no partial listing
						}
					}
					if skip {
						continue
					}
				}
				if swTimeouts.Load() >= maxSwTimeouts {
					continue
				}
				runs = append(runs, runScanWalk(&c, m, nmName, e.Tmp, idx+mi))
			}
			return map[string]any{"i": idx, "runs": runs}, nil
		})
	})
}
