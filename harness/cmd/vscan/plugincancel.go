package main

// Binding (A) for PluginCancel.tla: each TLC-generated scenario (NS standalone extractors, ND detectors,
// the plug-in inside which the context is cancelled) is run through the real scalibr.Scan; the order in
// which plug-ins were invoked and the scan status are reported.

import (
	"context"
	"encoding/json"
	"fmt"
	"sync"
	"testing/fstest"

	scalibr "github.com/google/osv-scalibr"
	"github.com/google/osv-scalibr/detector"
	"github.com/google/osv-scalibr/extractor"
	"github.com/google/osv-scalibr/extractor/filesystem"
	"github.com/google/osv-scalibr/extractor/standalone"
	scalibrfs "github.com/google/osv-scalibr/fs"
	"github.com/google/osv-scalibr/inventory"
	"github.com/google/osv-scalibr/packageindex"
	"github.com/google/osv-scalibr/plugin"
	"github.com/google/osv-scalibr/purl"
	. "verif/harness/hlib"
)

type pcSession struct {
	mu     sync.Mutex
	ran    []string
	pos    int // plug-ins invoked so far
	cpos   int
	cancel context.CancelFunc
}

// invoked records the call and cancels the context if this is the chosen plug-in.
func (s *pcSession) invoked(name string, counts bool) {
	s.mu.Lock()
	defer s.mu.Unlock()
	if counts {
		s.ran = append(s.ran, name)
		s.pos++
		if s.pos == s.cpos {
			s.cancel()
		}
	} else if s.cpos == 0 {
		s.cancel()
	}
}

type pcFS struct{ s *pcSession }

func (e *pcFS) Name() string                                   { return "fs1" }
func (e *pcFS) Version() int                                   { return 1 }
func (e *pcFS) Requirements() *plugin.Capabilities             { return &plugin.Capabilities{} }
func (e *pcFS) ToPURL(p *extractor.Package) *purl.PackageURL   { return nil }
func (e *pcFS) Ecosystem(p *extractor.Package) string          { return "" }
func (e *pcFS) FileRequired(api filesystem.FileAPI) bool       { return api.Path() == "last.lock" }
func (e *pcFS) Extract(ctx context.Context, input *filesystem.ScanInput) (inventory.Inventory, error) {
	e.s.invoked("fs1", false)
	return inventory.Inventory{Packages: []*extractor.Package{{Name: "p", Version: "1", Locations: []string{input.Path}}}}, nil
}

type pcSA struct {
	s    *pcSession
	name string
}

func (e *pcSA) Name() string                                 { return e.name }
func (e *pcSA) Version() int                                 { return 1 }
func (e *pcSA) Requirements() *plugin.Capabilities           { return &plugin.Capabilities{} }
func (e *pcSA) ToPURL(p *extractor.Package) *purl.PackageURL { return nil }
func (e *pcSA) Ecosystem(p *extractor.Package) string        { return "" }
func (e *pcSA) Extract(ctx context.Context, input *standalone.ScanInput) (inventory.Inventory, error) {
	e.s.invoked(e.name, true)
	return inventory.Inventory{}, nil
}

type pcDet struct {
	s    *pcSession
	name string
}

func (d *pcDet) Name() string                       { return d.name }
func (d *pcDet) Version() int                       { return 1 }
func (d *pcDet) Requirements() *plugin.Capabilities { return &plugin.Capabilities{} }
func (d *pcDet) RequiredExtractors() []string       { return nil }
func (d *pcDet) Scan(ctx context.Context, root *scalibrfs.ScanRoot, px *packageindex.PackageIndex) ([]*detector.Finding, error) {
	d.s.invoked(d.name, true)
	return nil, nil
}

func init() {
	Register("plugincancel", func(e *Env) error {
		Quiet()
		return MapCases(e, func(idx int, raw []byte) (any, error) {
			var c struct {
				NS   int `json:"ns"`
				ND   int `json:"nd"`
				Cpos int `json:"cpos"`
			}
			if err := json.Unmarshal(raw, &c); err != nil {
				return nil, err
			}
			ctx, cancel := context.WithCancel(context.Background())
			defer cancel()
			s := &pcSession{cpos: c.Cpos, cancel: cancel}
			cfg := &scalibr.ScanConfig{
				FilesystemExtractors: []filesystem.Extractor{&pcFS{s}},
				ScanRoots:            []*scalibrfs.ScanRoot{{FS: fstest.MapFS{"last.lock": {Data: []byte("x")}}}},
			}
			for k := 1; k <= c.NS; k++ {
				cfg.StandaloneExtractors = append(cfg.StandaloneExtractors, &pcSA{s, fmt.Sprintf("s%d", k)})
			}
			for k := 1; k <= c.ND; k++ {
				cfg.Detectors = append(cfg.Detectors, &pcDet{s, fmt.Sprintf("d%d", k)})
			}
			var res *scalibr.ScanResult
			p := Safely(func() { res = scalibr.New().Scan(ctx, cfg) })
			out := map[string]any{"i": idx, "ran": append([]string{}, s.ran...), "panic": p, "status": ""}
			if res != nil && res.Status != nil {
				if res.Status.Status == plugin.ScanStatusSucceeded {
					out["status"] = "ok"
				} else {
					out["status"] = "failed"
				}
				out["reason"] = res.Status.FailureReason
			}
			return out, nil
		})
	})
}
