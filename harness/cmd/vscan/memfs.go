package main

// An in-memory scalibrfs.FS whose directory listings come in a prescribed order and whose
// operations fail at prescribed sites (the fault actions of ScanWalk.tla).

import (
	"errors"
	"fmt"
	"io"
	"io/fs"
	"path"
	"sort"
	"strings"
	"sync"
	"time"
)

type mnode struct {
	kind string // dir | file | big | at | link | special
	data []byte
	kids []string // child names in listing order (dirs)
}

var bigTarget = []byte(strings.Repeat("B", 101)) // a symlink target above the (concrete) size limit of 100 bytes

type faultKey struct {
	op string
	p  string
	k  int
}

type memFS struct {
	nodes  map[string]*mnode
	faults map[faultKey]error
	stream bool // directories implement fs.ReadDirFile (streaming) or only fsys.ReadDir (fallback)
	id     int
	mu     sync.Mutex
	oplog  []string
}

func (m *memFS) note(format string, a ...any) {
	m.mu.Lock()
	m.oplog = append(m.oplog, fmt.Sprintf(format, a...))
	m.mu.Unlock()
}

func (m *memFS) fault(op, p string, k int) error {
	if e, ok := m.faults[faultKey{op, p, k}]; ok {
		return &fs.PathError{Op: op, Path: p, Err: e}
	}
	return nil
}

func clean(name string) string {
	name = path.Clean(name)
	name = strings.TrimPrefix(name, "./")
	if name == "" {
		return "."
	}
	return name
}

type minfo struct {
	name string
	n    *mnode
}

func (i minfo) Name() string { return i.name }
func (i minfo) Size() int64  { return int64(len(i.n.data)) }
func (i minfo) Mode() fs.FileMode {
	switch i.n.kind {
	case "dir":
		return fs.ModeDir | 0755
	case "link", "linkbig", "linkdir":
		return fs.ModeSymlink | 0777
	case "special":
		return fs.ModeNamedPipe | 0644
	}
	return 0644
}
func (i minfo) ModTime() time.Time         { return time.Unix(0, 0) }
func (i minfo) IsDir() bool                { return i.n.kind == "dir" }
func (i minfo) Sys() any                   { return nil }
func (i minfo) Type() fs.FileMode          { return i.Mode().Type() }
func (i minfo) Info() (fs.FileInfo, error) { return i, nil }

// followed returns the node Stat/Open operate on: symlinks resolve to a small regular file.
func followed(n *mnode) *mnode {
	if n.kind == "link" {
		return &mnode{kind: "file", data: []byte("LT")}
	}
	if n.kind == "linkbig" {
		return &mnode{kind: "file", data: bigTarget}
	}
	if n.kind == "linkdir" {
		return &mnode{kind: "dir"}
	}
	return n
}

func (m *memFS) Stat(name string) (fs.FileInfo, error) {
	name = clean(name)
	if name == "." {
		if err := m.fault("statroot", ".", 0); err != nil {
			return nil, err
		}
	}
	n, ok := m.nodes[name]
	if !ok {
		return nil, &fs.PathError{Op: "stat", Path: name, Err: fs.ErrNotExist}
	}
	if err := m.fault("lazystat", name, 0); err != nil {
		return nil, err
	}
	return minfo{path.Base(name), followed(n)}, nil
}

func (m *memFS) ReadDir(name string) ([]fs.DirEntry, error) {
	name = clean(name)
	n, ok := m.nodes[name]
	if !ok || n.kind != "dir" {
		return nil, &fs.PathError{Op: "readdir", Path: name, Err: fs.ErrNotExist}
	}
	var out []fs.DirEntry
	for _, k := range n.kids {
		out = append(out, minfo{k, m.nodes[path.Join(name, k)]})
	}
	return out, nil
}

type mfile struct {
	m    *memFS
	name string
	n    *mnode
	off  int
	ents int
}

type mdirStream struct{ *mfile }

func (f *mfile) Stat() (fs.FileInfo, error) {
	if err := f.m.fault("fstat", f.name, 0); err != nil {
		return nil, err
	}
	return minfo{path.Base(f.name), f.n}, nil
}
func (f *mfile) Read(b []byte) (int, error) {
	if f.n.kind == "dir" {
		return 0, &fs.PathError{Op: "read", Path: f.name, Err: errors.New("is a directory")}
	}
	if err := f.m.fault("read", f.name, 0); err != nil {
		return 0, err
	}
	if f.off >= len(f.n.data) {
		return 0, io.EOF
	}
	c := copy(b, f.n.data[f.off:])
	f.off += c
	return c, nil
}
func (f *mfile) ReadAt(b []byte, off int64) (int, error) {
	if int(off) >= len(f.n.data) {
		return 0, io.EOF
	}
	c := copy(b, f.n.data[off:])
	if c < len(b) {
		return c, io.EOF
	}
	return c, nil
}
func (f *mfile) Close() error { return nil }

func (d mdirStream) ReadDir(n int) ([]fs.DirEntry, error) {
	// the fs.ReadDirFile contract: up to n entries from the current position, io.EOF at the end when n > 0;
	// everything that is left (and a nil error at the end) when n <= 0. A fault on the k-th entry is returned
	// by the call that would deliver that entry first.
	var out []fs.DirEntry
	for n <= 0 || len(out) < n {
		if err := d.m.fault("readent", d.name, d.ents+1); err != nil {
			if len(out) > 0 {
				return out, nil
			}
			d.ents++
			return nil, err
		}
		if d.ents >= len(d.n.kids) {
			break
		}
		d.ents++
		k := d.n.kids[d.ents-1]
		out = append(out, minfo{k, d.m.nodes[path.Join(d.name, k)]})
	}
	if len(out) == 0 && n > 0 {
		d.ents++
		return nil, io.EOF
	}
	return out, nil
}

func (m *memFS) Open(name string) (fs.File, error) {
	name = clean(name)
	n, ok := m.nodes[name]
	if !ok {
		return nil, &fs.PathError{Op: "open", Path: name, Err: fs.ErrNotExist}
	}
	if n.kind == "dir" {
		if err := m.fault("opendir", name, 0); err != nil {
			return nil, err
		}
		f := &mfile{m: m, name: name, n: n}
		if m.stream {
			return mdirStream{f}, nil
		}
		return f, nil
	}
	if path.Base(name) == ".gitignore" {
		if err := m.fault("opengi", name, 0); err != nil {
			return nil, err
		}
	}
	if err := m.fault("open", name, 0); err != nil {
		return nil, err
	}
	return &mfile{m: m, name: name, n: followed(n)}, nil
}

// slotOrder gives the base (ascending) order of siblings: the slot order of ScanWalk.tla.
var slotPaths = []string{".gitignore", "a", "a/.gitignore", "a/f", "a/b", "a/b/.gitignore", "a/b/f", "a/b/g", "f", "b", "a/b/c", "a/b/c/f"}

func slotIndex(p string) int {
	for i, s := range slotPaths {
		if s == p {
			return i
		}
	}
	return 99
}

// listSeq mirrors ListSeq(d, perm) of ScanWalk.tla.
func listSeq(children []string, perm int) []string {
	asc := append([]string(nil), children...)
	sort.Slice(asc, func(i, j int) bool { return slotIndex(asc[i]) < slotIndex(asc[j]) })
	n := len(asc)
	if n == 0 {
		return asc
	}
	rot := 0
	switch perm {
	case 3, 4:
		rot = 1
	case 5, 6:
		rot = 2
	}
	r := make([]string, n)
	for i := 0; i < n; i++ {
		r[i] = asc[(i+rot)%n]
	}
	if perm == 2 || perm == 4 || perm == 6 {
		for i, j := 0, n-1; i < j; i, j = i+1, j-1 {
			r[i], r[j] = r[j], r[i]
		}
	}
	return r
}
