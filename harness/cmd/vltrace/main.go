package main

import "verif/harness/hlib"

func main() { hlib.Main() }
