package main

// C05 replay: every TLC-generated layer history (LayerTrace.tla) is built as a real image - one tar per
// non-empty layer, OCI whiteouts for deletions, config history per the case's alignment - loaded with
// image.FromV1Image and scanned with Scanner.ScanContainer; every reported package's LayerDetails is
// projected to {idx, cmd, layer (ordinal of the tar that carries the reported diff id)}.

import (
	"archive/tar"
	"bytes"
	"compress/gzip"
	"context"
	"encoding/json"
	"fmt"
	"io"
	"os"
	"path"
	"sort"
	"strings"
	"sync/atomic"

	v1 "github.com/google/go-containerregistry/pkg/v1"
	"github.com/google/go-containerregistry/pkg/v1/empty"
	"github.com/google/go-containerregistry/pkg/v1/mutate"
	"github.com/google/go-containerregistry/pkg/v1/tarball"
	scalibr "github.com/google/osv-scalibr"
	"github.com/google/osv-scalibr/artifact/image/layerscanning/image"
	"github.com/google/osv-scalibr/extractor/filesystem"
	"github.com/google/osv-scalibr/extractor/filesystem/os/dpkg"
	"github.com/google/osv-scalibr/plugin"

	. "verif/harness/hlib"
)

type ltOp struct {
	K  string   `json:"k"`
	Pk []string `json:"pk"`
}

type ltLayer struct {
	Empty bool             `json:"empty"`
	Cmd   string           `json:"cmd"`
	Ops   json.RawMessage  `json:"ops"` // object file -> op; TLC prints an empty function as []
	ops   map[string]ltOp
}

type ltCase struct {
	Files   []string  `json:"files"`
	Layers  []ltLayer `json:"layers"`
	History string    `json:"history"`
	Second  string    `json:"second"` // extension: package identity owned by the second extractor
}

// package identities of the model: p1 and p2 are two versions of one name, p3 another name
var ltPkgs = map[string][2]string{"p1": {"alpha", "1.0"}, "p2": {"alpha", "2.0"}, "p3": {"beta", "1.0"}}

func ltPkgID(name, version string) string {
	for id, nv := range ltPkgs {
		if nv[0] == name && nv[1] == version {
			return id
		}
	}
	return name + "_" + version
}

// hasLayout: the layout argument is a comma-separated list of "flat" | "deep" (paths), "sameid" (layers with the
// same operations are byte-identical: equal diff ids at different positions), "dotslash" (entry names spelled "./x").
func hasLayout(layout, what string) bool {
	for _, l := range strings.Split(layout, ",") {
		if l == what {
			return true
		}
	}
	return false
}

// ltPath maps a model file to the path it has in the image.
func ltPath(mode, layout, f string, pos int) string {
	if mode == "dpkg" {
		if pos == 0 {
			return "var/lib/dpkg/status"
		}
		return "var/lib/dpkg/status.d/" + path.Base(f)
	}
	if hasLayout(layout, "deep") {
		if pos == 0 {
			return "var/lib/pkglist/" + path.Base(f)
		}
		return "opt/app/lists/" + path.Base(f)
	}
	return f
}

func ltContent(mode string, pk []string) []byte {
	var b bytes.Buffer
	ids := append([]string(nil), pk...)
	sort.Strings(ids)
	for _, id := range ids {
		nv := ltPkgs[id]
		if mode == "dpkg" {
			fmt.Fprintf(&b, "Package: %s\nStatus: install ok installed\nPriority: optional\nSection: utils\nInstalled-Size: 12\n"+
				"Maintainer: Verif <verif@example.com>\nArchitecture: amd64\nVersion: %s\nDescription: package %s\n synthetic\n\n", nv[0], nv[1], nv[0])
		} else {
			fmt.Fprintf(&b, "%s %s\n", nv[0], nv[1])
		}
	}
	return b.Bytes()
}

type ltEntry struct {
	name string
	dir  bool
	data []byte
}

// ltTar renders one layer: parent directory entries, then regular files / whiteout markers.
func ltTar(entries []ltEntry, dotSlash bool) ([]byte, error) {
	dirs := map[string]bool{}
	for _, e := range entries {
		for d := path.Dir(e.name); d != "." && d != "/"; d = path.Dir(d) {
			dirs[d] = true
		}
	}
	var all []ltEntry
	for d := range dirs {
		all = append(all, ltEntry{name: d + "/", dir: true})
	}
	all = append(all, entries...)
	sort.Slice(all, func(i, j int) bool { return all[i].name < all[j].name })
	var buf bytes.Buffer
	tw := tar.NewWriter(&buf)
	for _, e := range all {
		name := e.name
		if dotSlash {
			name = "./" + name
		}
		h := &tar.Header{Name: name, Mode: 0o644, Typeflag: tar.TypeReg, Size: int64(len(e.data))}
		if e.dir {
			h = &tar.Header{Name: name, Mode: 0o755, Typeflag: tar.TypeDir}
		}
		if err := tw.WriteHeader(h); err != nil {
			return nil, err
		}
		if !e.dir {
			if _, err := tw.Write(e.data); err != nil {
				return nil, err
			}
		}
	}
	if err := tw.Close(); err != nil {
		return nil, err
	}
	return buf.Bytes(), nil
}

func ltRun(c *ltCase, mode, layout string) map[string]any {
	obs := map[string]any{}
	paths := map[string]string{} // model file -> image path
	back := map[string]string{}
	for i, f := range c.Files {
		p := ltPath(mode, layout, f, i)
		paths[f] = p
		back[p] = f
	}
	// 1. one tar per non-empty layer
	var adds []mutate.Addendum
	tarOf := map[string]int{} // diff id (hex) -> ordinal of the tar
	sameID := hasLayout(layout, "sameid")
	ordAt := map[int]int{}    // position in c.Layers -> ordinal of its tar
	hexAt := map[int]string{} // position in c.Layers -> diff id (hex)
	ntar := 0
	for j := range c.Layers {
		l := &c.Layers[j]
		if l.Empty {
			adds = append(adds, mutate.Addendum{History: v1.History{CreatedBy: l.Cmd, EmptyLayer: true}})
			continue
		}
		ntar++
		// an unrelated file per layer: no tar is empty and all diff ids are distinct
		entries := []ltEntry{{name: fmt.Sprintf("etc/layer-%d", j+1), data: []byte(fmt.Sprintf("layer %d\n", j+1))}}
		if sameID && len(l.ops) > 0 {
			entries = nil // layers that do the same are the same bytes
		}
		if mode == "dpkg" && ntar == 1 {
			entries = append(entries, ltEntry{name: "etc/os-release", data: []byte("ID=debian\nVERSION_ID=\"12\"\nVERSION_CODENAME=bookworm\n")})
		}
		for f, o := range l.ops {
			p, ok := paths[f]
			if !ok {
				obs["error"] = "op on unknown file " + f
				return obs
			}
			switch o.K {
			case "write":
				entries = append(entries, ltEntry{name: p, data: ltContent(mode, o.Pk)})
			case "delete":
				entries = append(entries, ltEntry{name: path.Join(path.Dir(p), ".wh."+path.Base(p))})
			default:
				obs["error"] = "unknown op " + o.K
				return obs
			}
		}
		raw, err := ltTar(entries, hasLayout(layout, "dotslash"))
		if err != nil {
			obs["error"] = err.Error()
			return obs
		}
		layer, err := tarball.LayerFromOpener(func() (io.ReadCloser, error) { return io.NopCloser(bytes.NewReader(raw)), nil },
			tarball.WithCompressionLevel(gzip.BestSpeed))
		if err != nil {
			obs["error"] = err.Error()
			return obs
		}
		d, err := layer.DiffID()
		if err != nil {
			obs["error"] = err.Error()
			return obs
		}
		if _, dup := tarOf[d.Hex]; dup && !sameID {
			obs["error"] = "two layers with one diff id"
			return obs
		}
		tarOf[d.Hex] = ntar
		ordAt[j], hexAt[j] = ntar, d.Hex
		adds = append(adds, mutate.Addendum{Layer: layer, History: v1.History{CreatedBy: l.Cmd}})
	}
	v1img, err := mutate.Append(empty.Image, adds...)
	if err != nil {
		obs["error"] = err.Error()
		return obs
	}
	// 2. config history per alignment
	if c.History != "match" {
		cf, err := v1img.ConfigFile()
		if err != nil {
			obs["error"] = err.Error()
			return obs
		}
		cf = cf.DeepCopy()
		switch c.History {
		case "missing":
			cf.History = nil
		case "short":
			for k, h := range cf.History {
				if !h.EmptyLayer {
					cf.History = append(append([]v1.History{}, cf.History[:k]...), cf.History[k+1:]...)
					break
				}
			}
		case "long":
			cf.History = append(cf.History, v1.History{CreatedBy: "RUN x"})
		default:
			obs["error"] = "unknown history alignment " + c.History
			return obs
		}
		if v1img, err = mutate.ConfigFile(v1img, cf); err != nil {
			obs["error"] = err.Error()
			return obs
		}
	}
	// 3. load and scan
	img, err := image.FromV1Image(v1img, image.DefaultConfig())
	if err != nil {
		obs["error"] = "FromV1Image: " + err.Error()
		return obs
	}
	defer img.CleanUp()
	files := map[string]bool{}
	for _, p := range paths {
		files[p] = true
	}
	var exs []filesystem.Extractor
	var oversize atomic.Int64
	// layout "maxfile": the scan runs with MaxFileSize = the size of the largest one-package list, so a list of two
	// packages is over the limit in whatever view it is met (C10: never handed to an extractor)
	var maxFile int64
	if hasLayout(layout, "maxfile") {
		for id := range ltPkgs {
			if n := int64(len(ltContent(mode, []string{id}))); n > maxFile {
				maxFile = n
			}
		}
	}
	switch mode {
	case "dpkg":
		exs = []filesystem.Extractor{dpkg.NewDefault()}
	case "two":
		second := ltPkgs[c.Second][0]
		exs = []filesystem.Extractor{
			&pkgListExtractor{name: "verif/pkglist", files: files, only: func(n string) bool { return n != second }},
			&pkgListExtractor{name: "verif/pkglist2", files: files, only: func(n string) bool { return n == second }},
		}
	default:
		exs = []filesystem.Extractor{&pkgListExtractor{name: "verif/pkglist", files: files, maxFile: maxFile, oversize: &oversize}}
	}
	var res *scalibr.ScanResult
	var serr error
	if p := Safely(func() {
		res, serr = scalibr.New().ScanContainer(context.Background(), img, &scalibr.ScanConfig{
			FilesystemExtractors: exs,
			MaxFileSize:          int(maxFile),
			Capabilities:         &plugin.Capabilities{OS: plugin.OSLinux, Network: plugin.NetworkOffline},
		})
	}); p != "" {
		obs["panic"] = p
		return obs
	}
	if serr != nil {
		obs["error"] = "ScanContainer: " + serr.Error()
		return obs
	}
	if res.Status == nil || res.Status.Status != plugin.ScanStatusSucceeded {
		obs["error"] = fmt.Sprintf("scan status %v", res.Status)
		return obs
	}
	// 4. project
	got := map[string]any{}
	for _, p := range res.Inventory.Packages {
		if len(p.Locations) == 0 {
			obs["error"] = "package without location: " + p.Name
			return obs
		}
		f, ok := back[p.Locations[0]]
		if !ok {
			continue // os-release derived or unrelated
		}
		key := ltPkgID(p.Name, p.Version) + "@" + f
		if _, dup := got[key]; dup {
			got[key] = map[string]any{"dup": true}
			continue
		}
		if p.LayerDetails == nil {
			got[key] = map[string]any{"nil": true}
			continue
		}
		layer := 0
		if p.LayerDetails.DiffID != "" {
			hex := strings.TrimPrefix(p.LayerDetails.DiffID, "sha256:")
			t, ok := tarOf[hex]
			if !ok {
				t = -1
			}
			if sameID {
				// diff ids repeat: the layer is identified by the reported index (history aligned), its diff id must agree
				t = -1
				if hexAt[p.LayerDetails.Index] == hex {
					t = ordAt[p.LayerDetails.Index]
				}
			}
			layer = t
		}
		got[key] = map[string]any{"idx": p.LayerDetails.Index, "cmd": p.LayerDetails.Command, "layer": layer}
	}
	obs["obs"] = got
	obs["oversize"] = oversize.Load()
	obs["max_file"] = maxFile
	return obs
}

func init() {
	Register("ltrace", func(e *Env) error {
		Quiet()
		os.Setenv("TMPDIR", e.Tmp)
		mode := e.Args["mode"]
		if mode == "" {
			mode = "pkglist"
		}
		layout := e.Args["layout"]
		return MapCases(e, func(idx int, raw []byte) (any, error) {
			var c ltCase
			if err := json.Unmarshal(raw, &c); err != nil {
				return nil, err
			}
			for j := range c.Layers {
				c.Layers[j].ops = map[string]ltOp{}
				if s := strings.TrimSpace(string(c.Layers[j].Ops)); s != "" && s != "[]" && s != "null" {
					if err := json.Unmarshal(c.Layers[j].Ops, &c.Layers[j].ops); err != nil {
						return nil, err
					}
				}
			}
			var res map[string]any
			if p := Safely(func() { res = ltRun(&c, mode, layout) }); p != "" {
				res = map[string]any{"panic": p}
			}
			res["i"] = idx
			return res, nil
		})
	})
}
