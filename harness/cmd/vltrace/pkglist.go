package main

// pkglist: the harness' filesystem extractor for C05. A package-list file holds one "name version"
// line per package; every line becomes one Package located at the file, with purl
// pkg:generic/<name>@<version>. `only` restricts the extractor to some package names (used by the
// two-extractors-on-one-file extension).

import (
	"bufio"
	"context"
	"strings"
	"sync/atomic"

	"github.com/google/osv-scalibr/extractor"
	"github.com/google/osv-scalibr/extractor/filesystem"
	"github.com/google/osv-scalibr/inventory"
	"github.com/google/osv-scalibr/plugin"
	"github.com/google/osv-scalibr/purl"
)

type pkgListExtractor struct {
	name  string
	files map[string]bool
	only  func(name string) bool
	// size limit of the scan (0 = none) and the number of Extract calls that were handed a larger file
	maxFile  int64
	oversize *atomic.Int64
}

func (e *pkgListExtractor) Name() string                          { return e.name }
func (e *pkgListExtractor) Version() int                          { return 1 }
func (e *pkgListExtractor) Requirements() *plugin.Capabilities    { return &plugin.Capabilities{} }
func (e *pkgListExtractor) Ecosystem(p *extractor.Package) string { return "" }
func (e *pkgListExtractor) ToPURL(p *extractor.Package) *purl.PackageURL {
	return &purl.PackageURL{Type: purl.TypeGeneric, Name: p.Name, Version: p.Version}
}
func (e *pkgListExtractor) FileRequired(api filesystem.FileAPI) bool { return e.files[api.Path()] }
func (e *pkgListExtractor) Extract(ctx context.Context, input *filesystem.ScanInput) (inventory.Inventory, error) {
	inv := inventory.Inventory{}
	if e.maxFile > 0 && e.oversize != nil && input.Info != nil && input.Info.Size() > e.maxFile {
		e.oversize.Add(1)
	}
	sc := bufio.NewScanner(input.Reader)
	for sc.Scan() {
		f := strings.Fields(sc.Text())
		if len(f) != 2 || (e.only != nil && !e.only(f[0])) {
			continue
		}
		inv.Packages = append(inv.Packages, &extractor.Package{Name: f[0], Version: f[1], Locations: []string{input.Path}})
	}
	return inv, sc.Err()
}
