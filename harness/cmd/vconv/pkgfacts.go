package main

// C14 `pkgfacts`: for every harvested package the facts of the conversion pipeline
//   Emit -> ToPURL/Ecosystem -> String -> FromString -> String -> FromString -> String
//        -> packageindex.New/GetSpecific/GetAllOfType -> proto.ScanResultToProto -> converter.ToSPDX23/ToCDX
// are computed on the REAL code, each stage under hlib.Safely. One ndjson record per package: the boolean
// fact vector (validated by TLC against Convert.tla's per-package invariant, cfg ConvertTrace) plus the
// concrete package (name, version, locations, extractor, source, package URL) so that a violation carries
// its witness. The first record (kind "registry") is the type table: every package URL type each
// extractor emitted, and which candidate types purl.FromString accepts.

import (
	"bufio"
	"encoding/json"
	"fmt"
	"go/ast"
	"go/parser"
	"go/token"
	"os"
	"path/filepath"
	"reflect"
	"slices"
	"sort"
	"strconv"
	"strings"
	"sync"
	"time"

	. "verif/harness/hlib"

	scalibr "github.com/google/osv-scalibr"
	sproto "github.com/google/osv-scalibr/binary/proto"
	spb "github.com/google/osv-scalibr/binary/proto/scan_result_go_proto"
	"github.com/google/osv-scalibr/converter"
	"github.com/google/osv-scalibr/extractor"
	"github.com/google/osv-scalibr/inventory"
	scalibrlog "github.com/google/osv-scalibr/log"
	"github.com/google/osv-scalibr/packageindex"
	"github.com/google/osv-scalibr/plugin"
	"github.com/google/osv-scalibr/purl"
)

type protoFacts struct {
	Name      bool `json:"name"`
	Version   bool `json:"version"`
	Locations bool `json:"locations"`
	Purl      bool `json:"purl"`
	Layer     bool `json:"layer"`     // layer details as carried by the package
	LayerAlt  bool `json:"layer_alt"` // the other variant (absent <-> present)
	Extractor bool `json:"extractor"`
	Ecosystem bool `json:"ecosystem"`
}

type spdxFacts struct {
	ExpectPresent bool `json:"expect_present"` // purl present with non-empty name and version (converter's filter)
	Present       bool `json:"present"`
	Name          bool `json:"name"`
	Version       bool `json:"version"`
	Purl          bool `json:"purl"`
	Locations     bool `json:"locations"`
}

type cdxFacts struct {
	Present   bool `json:"present"`
	Name      bool `json:"name"`
	Version   bool `json:"version"`
	Purl      bool `json:"purl"`
	Locations bool `json:"locations"`
}

type factRec struct {
	I        int      `json:"i"`
	Kind     string   `json:"kind"`
	Src      string   `json:"src"`
	Origin   string   `json:"origin"`
	Ext      string   `json:"ext"`
	Case     int      `json:"case"`
	WithErr  bool     `json:"with_err"`
	Name     string   `json:"name"`
	Version  string   `json:"version"`
	NLoc     int      `json:"nloc"`
	Loc0     string   `json:"loc0"`
	HasLD    bool     `json:"has_layer"`
	Meta     string   `json:"meta"`
	Purl     string   `json:"purl"`
	PType    string   `json:"ptype"`
	PurlRec  *purlRec `json:"purl_rec"`
	Reparsed *purlRec `json:"reparsed"`
	S1       string   `json:"s1,omitempty"`
	S2       string   `json:"s2,omitempty"`
	ParseErr string   `json:"parse_err,omitempty"`
	Detail   []string `json:"detail,omitempty"`
	Content  string   `json:"content,omitempty"`

	// the fact vector
	NameNonEmpty bool       `json:"name_nonempty"`
	HasLocation  bool       `json:"has_location"`
	Panics       []string   `json:"panics"`
	HasPurl      bool       `json:"has_purl"`
	TypeValid    bool       `json:"type_valid"`
	ParseOK      bool       `json:"parse_ok"`
	Idem         bool       `json:"idem"`
	InSpecific   bool       `json:"in_specific"`
	InAllOfType  bool       `json:"in_alloftype"`
	Proto        protoFacts `json:"proto"`
	Spdx         spdxFacts  `json:"spdx"`
	Cdx          cdxFacts   `json:"cdx"`
}

func firstLine(s string) string {
	if i := strings.IndexByte(s, '\n'); i >= 0 {
		lines := strings.Split(s, "\n")
		// keep the panic value and the first frame of this module
		out := lines[0]
		for _, l := range lines[1:] {
			if strings.Contains(l, "osv-scalibr") && strings.Contains(l, ".go:") {
				out += " @ " + strings.TrimSpace(l)
				break
			}
		}
		return out
	}
	return s
}

// typeProbe is a minimal package URL of type t that satisfies every type-specific rule of the purl
// library (swift: namespace+version, cran: version, conan: channel with namespace).
func typeProbe(t string) string { return "pkg:" + t + "/ns/name@1.0?channel=c" }

func typeAccepted(t string) bool {
	ok := false
	Safely(func() {
		_, err := purl.FromString(typeProbe(t))
		ok = err == nil
	})
	return ok
}

func sameQuals(a, b purl.Qualifiers) bool {
	if len(a) != len(b) {
		return false
	}
	for i := range a {
		if a[i] != b[i] {
			return false
		}
	}
	return true
}

func samePurl(a, b purl.PackageURL) bool {
	return a.Type == b.Type && a.Namespace == b.Namespace && a.Name == b.Name && a.Version == b.Version && a.Subpath == b.Subpath && sameQuals(a.Qualifiers, b.Qualifiers)
}

func containsPkg(l []*extractor.Package, p *extractor.Package) bool {
	for _, x := range l {
		if x == p {
			return true
		}
	}
	return false
}

// layerFor gives the i-th package of a batch its layer: indices differ, every other layer has the same diff ID
// (identical content at two positions of the image, e.g. a repeated COPY step).
func layerFor(i int) *extractor.LayerDetails {
	return &extractor.LayerDetails{Index: i, DiffID: fmt.Sprintf("sha256:%04d", i%2), Command: fmt.Sprintf("COPY step %d /x", i), InBaseImage: i%3 == 0}
}

func layerEq(ld *extractor.LayerDetails, pl *spb.LayerDetails) bool {
	if ld == nil || pl == nil {
		return ld == nil && pl == nil
	}
	return int(pl.GetIndex()) == ld.Index && pl.GetDiffId() == ld.DiffID && pl.GetCommand() == ld.Command && pl.GetInBaseImage() == ld.InBaseImage
}

func scanResultOf(pkgs []*extractor.Package) *scalibr.ScanResult {
	now := time.Unix(1700000000, 0)
	return &scalibr.ScanResult{Version: "verif", StartTime: now, EndTime: now,
		Status:    &plugin.ScanStatus{Status: plugin.ScanStatusSucceeded},
		Inventory: inventory.Inventory{Packages: pkgs}}
}

// batchFacts computes the facts of every package of one batch (the index and the proto record are built
// from the whole batch, like Scan does; the SBOM documents from the single package).
func batchFacts(b *batch) []*factRec {
	out := make([]*factRec, len(b.Pkgs))
	purls := make([]*purl.PackageURL, len(b.Pkgs))
	ecos := make([]string, len(b.Pkgs))
	for i, p := range b.Pkgs {
		f := &factRec{Kind: "pkg", Src: b.Src, Origin: b.Origin, Ext: b.Ext, Case: b.Case, WithErr: b.Failed,
			Name: p.Name, Version: p.Version, NLoc: len(p.Locations), HasLD: p.LayerDetails != nil, Panics: []string{}, Content: b.Content}
		if p.Metadata != nil {
			f.Meta = reflect.TypeOf(p.Metadata).String()
		}
		if len(p.Locations) > 0 {
			f.Loc0 = p.Locations[0]
		}
		out[i] = f
		f.NameNonEmpty = p.Name != ""
		f.HasLocation = len(p.Locations) >= 1
		if p.Extractor == nil {
			f.Panics = append(f.Panics, "emit")
			f.Detail = append(f.Detail, "Package.Extractor is nil")
			continue
		}
		if pn := Safely(func() { purls[i] = p.Extractor.ToPURL(p) }); pn != "" {
			f.Panics = append(f.Panics, "topurl")
			f.Detail = append(f.Detail, "ToPURL panics: "+firstLine(pn))
		}
		if pn := Safely(func() { ecos[i] = p.Ecosystem() }); pn != "" {
			f.Panics = append(f.Panics, "ecosystem")
			f.Detail = append(f.Detail, "Ecosystem panics: "+firstLine(pn))
		}
		pu := purls[i]
		f.HasPurl = pu != nil
		if pu == nil {
			continue
		}
		f.PurlRec = projPurl(pu)
		f.PType = pu.Type
		s0 := ""
		if pn := Safely(func() { s0 = pu.String() }); pn != "" {
			f.Panics = append(f.Panics, "string")
			f.Detail = append(f.Detail, "PackageURL.String panics: "+firstLine(pn))
			continue
		}
		f.Purl = s0
		f.TypeValid = typeAccepted(pu.Type)
		if !f.TypeValid {
			f.Detail = append(f.Detail, fmt.Sprintf("purl type %q is rejected by purl.FromString(%q)", pu.Type, typeProbe(pu.Type)))
		}
		var p1, p2 purl.PackageURL
		var e1, e2 error
		s1, s2 := "", ""
		if pn := Safely(func() {
			p1, e1 = purl.FromString(s0)
			if e1 == nil {
				s1 = p1.String()
				p2, e2 = purl.FromString(s1)
				if e2 == nil {
					s2 = p2.String()
				}
			}
		}); pn != "" {
			f.Panics = append(f.Panics, "fromstring")
			f.Detail = append(f.Detail, "FromString/String panics: "+firstLine(pn))
			continue
		}
		f.ParseOK = e1 == nil
		if e1 != nil {
			f.ParseErr = e1.Error()
			f.Detail = append(f.Detail, "FromString(String(purl)) fails: "+e1.Error())
		} else {
			f.Reparsed = projPurl(&p1)
			f.S1, f.S2 = s1, s2
			f.Idem = e2 == nil && s2 == s1 && samePurl(p1, p2)
			if !f.Idem {
				if e2 != nil {
					f.Detail = append(f.Detail, "second FromString fails: "+e2.Error())
				} else {
					f.Detail = append(f.Detail, fmt.Sprintf("print-then-parse is not idempotent: %q -> %q -> %q", s0, s1, s2))
				}
			}
		}
	}
	// index over the batch
	var px *packageindex.PackageIndex
	if pn := Safely(func() { px, _ = packageindex.New(b.Pkgs) }); pn != "" {
		for _, f := range out {
			f.Panics = append(f.Panics, "index.new")
			f.Detail = append(f.Detail, "packageindex.New panics: "+firstLine(pn))
		}
	}
	// proto over the batch, as carried and with the layer details flipped
	flipped := make([]*extractor.Package, len(b.Pkgs))
	for i, p := range b.Pkgs {
		cp := *p
		if p.LayerDetails == nil {
			cp.LayerDetails = layerFor(i)
		} else {
			cp.LayerDetails = nil
		}
		flipped[i] = &cp
	}
	// the variant always holds packages of several layers, two of which have the same content (same diff ID,
	// different index / command): further copies of the first package fill a short batch up
	nExtra := 0
	if len(b.Pkgs) > 0 && len(b.Pkgs) < 4 {
		nExtra = 4 - len(b.Pkgs)
	}
	for j := 0; j < nExtra; j++ {
		cp := *b.Pkgs[0]
		cp.LayerDetails = layerFor(len(b.Pkgs) + j)
		flipped = append(flipped, &cp)
	}
	var pr, prAlt *spb.ScanResult
	pnProto := Safely(func() { pr, _ = sproto.ScanResultToProto(scanResultOf(b.Pkgs)) })
	pnAlt := ""
	if pnProto == "" {
		pnAlt = Safely(func() { prAlt, _ = sproto.ScanResultToProto(scanResultOf(flipped)) })
	}
	for i, p := range b.Pkgs {
		f := out[i]
		pu := purls[i]
		if p.Extractor == nil {
			continue
		}
		if pu != nil && px != nil && f.Purl != "" {
			if pn := Safely(func() {
				f.InSpecific = containsPkg(px.GetSpecific(pu.Name, pu.Type), p)
				f.InAllOfType = containsPkg(px.GetAllOfType(pu.Type), p)
			}); pn != "" {
				f.Panics = append(f.Panics, "index.get")
				f.Detail = append(f.Detail, "index lookup panics: "+firstLine(pn))
			}
			if !f.InSpecific {
				f.Detail = append(f.Detail, fmt.Sprintf("GetSpecific(%q, %q) does not return the package", pu.Name, pu.Type))
			}
			if !f.InAllOfType {
				f.Detail = append(f.Detail, fmt.Sprintf("GetAllOfType(%q) does not return the package", pu.Type))
			}
		}
		// proto
		if pnProto != "" {
			f.Panics = append(f.Panics, "proto")
			f.Detail = append(f.Detail, "ScanResultToProto panics: "+firstLine(pnProto))
		} else if pr == nil || pr.GetInventory() == nil || len(pr.GetInventory().GetPackages()) != len(b.Pkgs) {
			f.Detail = append(f.Detail, "ScanResultToProto did not return one record per package")
		} else {
			pp := pr.GetInventory().GetPackages()[i]
			f.Proto.Name = pp.GetName() == p.Name
			f.Proto.Version = pp.GetVersion() == p.Version
			f.Proto.Locations = slices.Equal(pp.GetLocations(), p.Locations) && (len(p.Locations) > 0 || len(pp.GetLocations()) == 0)
			f.Proto.Extractor = pp.GetExtractor() == p.Extractor.Name()
			f.Proto.Ecosystem = slices.Contains(f.Panics, "ecosystem") || pp.GetEcosystem() == ecos[i]
			f.Proto.Layer = layerEq(p.LayerDetails, pp.GetLayerDetails())
			if pu == nil {
				f.Proto.Purl = pp.GetPurl() == nil
			} else if q := pp.GetPurl(); q != nil {
				ok := q.GetPurl() == f.Purl && q.GetType() == pu.Type && q.GetNamespace() == pu.Namespace && q.GetName() == pu.Name &&
					q.GetVersion() == pu.Version && q.GetSubpath() == pu.Subpath && len(q.GetQualifiers()) == len(pu.Qualifiers)
				if ok {
					for k, qq := range q.GetQualifiers() {
						if qq.GetKey() != pu.Qualifiers[k].Key || qq.GetValue() != pu.Qualifiers[k].Value {
							ok = false
						}
					}
				}
				f.Proto.Purl = ok
			}
			if pnAlt != "" {
				f.Panics = append(f.Panics, "proto")
				f.Detail = append(f.Detail, "ScanResultToProto panics (layer variant): "+firstLine(pnAlt))
			} else if prAlt != nil && prAlt.GetInventory() != nil && len(prAlt.GetInventory().GetPackages()) == len(flipped) {
				f.Proto.LayerAlt = layerEq(flipped[i].LayerDetails, prAlt.GetInventory().GetPackages()[i].GetLayerDetails())
				if i == 0 {
					for j := len(b.Pkgs); j < len(flipped); j++ {
						f.Proto.LayerAlt = f.Proto.LayerAlt && layerEq(flipped[j].LayerDetails, prAlt.GetInventory().GetPackages()[j].GetLayerDetails())
					}
				}
			}
			for k, ok := range map[string]bool{"name": f.Proto.Name, "version": f.Proto.Version, "locations": f.Proto.Locations, "purl": f.Proto.Purl,
				"layer details": f.Proto.Layer && f.Proto.LayerAlt, "extractor": f.Proto.Extractor, "ecosystem": f.Proto.Ecosystem} {
				if !ok {
					f.Detail = append(f.Detail, "proto record does not preserve "+k+": "+strings.TrimSpace(fmt.Sprintf("%.300v", pp)))
				}
			}
		}
		// SPDX (single package document)
		f.Spdx.ExpectPresent = pu != nil && pu.Name != "" && pu.Version != ""
		// the package is converted between two neighbours (same extractor and metadata, other names and locations):
		// nothing of a neighbour may show up in its record
		decoy := func(tag string) *extractor.Package {
			cp := *p
			cp.Name = p.Name + "-decoy-" + tag
			cp.Locations = []string{"decoy/" + tag + "/location"}
			return &cp
		}
		single := scanResultOf([]*extractor.Package{decoy("a"), p, decoy("z")})
		if pn := Safely(func() {
			doc := converter.ToSPDX23(single, converter.SPDXConfig{})
			if doc == nil || (len(doc.Packages) != 1 && len(doc.Packages) != 4) {
				f.Detail = append(f.Detail, "ToSPDX23: unexpected number of packages in the document")
				return
			}
			if len(doc.Packages) == 1 {
				return
			}
			f.Spdx.Present = true
			sp := doc.Packages[2]
			f.Spdx.Name = sp.PackageName == p.Name || (pu != nil && sp.PackageName == pu.Name)
			f.Spdx.Version = sp.PackageVersion == p.Version || (pu != nil && sp.PackageVersion == pu.Version)
			for _, er := range sp.PackageExternalReferences {
				if er != nil && er.RefType == "purl" && er.Locator == f.Purl && f.Purl != "" {
					f.Spdx.Purl = true
				}
			}
			f.Spdx.Locations = true
			for k := 0; k < len(p.Locations) && k < 2; k++ {
				if !strings.Contains(sp.PackageSourceInfo, p.Locations[k]) {
					f.Spdx.Locations = false
				}
			}
			if !(f.Spdx.Name && f.Spdx.Version && f.Spdx.Purl && f.Spdx.Locations) {
				f.Detail = append(f.Detail, fmt.Sprintf("SPDX entry does not preserve the package: name=%q version=%q sourceInfo=%q refs=%d", sp.PackageName, sp.PackageVersion, sp.PackageSourceInfo, len(sp.PackageExternalReferences)))
			}
		}); pn != "" {
			f.Panics = append(f.Panics, "spdx")
			f.Detail = append(f.Detail, "ToSPDX23 panics: "+firstLine(pn))
		}
		if f.Spdx.Present != f.Spdx.ExpectPresent && !slices.Contains(f.Panics, "spdx") {
			f.Detail = append(f.Detail, fmt.Sprintf("ToSPDX23: entry present=%v, expected %v", f.Spdx.Present, f.Spdx.ExpectPresent))
		}
		// CDX
		if pn := Safely(func() {
			bom := converter.ToCDX(single, converter.CDXConfig{ComponentName: "verif", ComponentVersion: "1"})
			if bom == nil || bom.Components == nil || len(*bom.Components) != 3 {
				f.Detail = append(f.Detail, "ToCDX: the document does not have exactly one component per package")
				return
			}
			f.Cdx.Present = true
			c := (*bom.Components)[1]
			f.Cdx.Name = c.Name == p.Name
			f.Cdx.Version = c.Version == p.Version
			f.Cdx.Purl = c.PackageURL == f.Purl
			locs := []string{}
			if c.Evidence != nil && c.Evidence.Occurrences != nil {
				for _, oc := range *c.Evidence.Occurrences {
					locs = append(locs, oc.Location)
				}
			}
			f.Cdx.Locations = slices.Equal(locs, p.Locations) || (len(locs) == 0 && len(p.Locations) == 0)
			if !(f.Cdx.Name && f.Cdx.Version && f.Cdx.Purl && f.Cdx.Locations) {
				f.Detail = append(f.Detail, fmt.Sprintf("CDX component does not preserve the package: name=%q version=%q purl=%q locations=%q", c.Name, c.Version, c.PackageURL, locs))
			}
		}); pn != "" {
			f.Panics = append(f.Panics, "cdx")
			f.Detail = append(f.Detail, "ToCDX panics: "+firstLine(pn))
		}
		if !f.NameNonEmpty {
			f.Detail = append(f.Detail, "package name is empty")
		}
		if !f.HasLocation {
			f.Detail = append(f.Detail, "package has no location")
		}
	}
	return out
}

// purlTypeConstants returns the values of the Type* string constants of <repo>/purl/purl.go.
func purlTypeConstants(repo string) []string {
	out := []string{}
	fset := token.NewFileSet()
	f, err := parser.ParseFile(fset, filepath.Join(repo, "purl", "purl.go"), nil, parser.SkipObjectResolution)
	if err != nil {
		return out
	}
	for _, d := range f.Decls {
		gd, ok := d.(*ast.GenDecl)
		if !ok || gd.Tok != token.CONST {
			continue
		}
		for _, s := range gd.Specs {
			vs := s.(*ast.ValueSpec)
			for k, n := range vs.Names {
				if strings.HasPrefix(n.Name, "Type") && len(n.Name) > 4 && k < len(vs.Values) {
					if bl, ok := vs.Values[k].(*ast.BasicLit); ok && bl.Kind == token.STRING {
						if v, err := strconv.Unquote(bl.Value); err == nil {
							out = append(out, v)
						}
					}
				}
			}
		}
	}
	sort.Strings(out)
	return out
}

func init() {
	Register("pkgfacts", func(e *Env) error {
		scalibrlog.SetLogger(quiet{})
		var o harvestOpts
		o.Seed = 1
		fmt.Sscan(e.Args["seed"], &o.Seed)
		fmt.Sscan(e.Args["mutations"], &o.Mutations)
		o.Only = e.Args["only"]
		if e.In != "" {
			inf, err := os.Open(e.In)
			if err != nil {
				return err
			}
			sc := bufio.NewScanner(inf)
			sc.Buffer(make([]byte, 1<<20), 1<<26)
			for sc.Scan() {
				if len(sc.Bytes()) == 0 {
					continue
				}
				var c pkgCase
				if err := json.Unmarshal(sc.Bytes(), &c); err != nil {
					return err
				}
				o.Cases = append(o.Cases, c)
			}
			inf.Close()
		}
		h, err := harvest(e, o)
		if err != nil {
			return err
		}
		// facts, in parallel over batches
		recs := make([][]*factRec, len(h.Batches))
		var wg sync.WaitGroup
		jobs := make(chan int, 1024)
		nw := e.Workers
		if nw < 1 {
			nw = 1
		}
		for k := 0; k < nw; k++ {
			wg.Add(1)
			go func() {
				defer wg.Done()
				for i := range jobs {
					recs[i] = batchFacts(h.Batches[i])
				}
			}()
		}
		for i := range h.Batches {
			jobs <- i
		}
		close(jobs)
		wg.Wait()
		// registry / type table
		emitted := map[string]map[string]int{}
		allTypes := map[string]bool{}
		perExt := map[string]map[string]int{}
		for _, rs := range recs {
			for _, f := range rs {
				if perExt[f.Ext] == nil {
					perExt[f.Ext] = map[string]int{}
				}
				perExt[f.Ext][f.Origin]++
				if f.HasPurl {
					if emitted[f.Ext] == nil {
						emitted[f.Ext] = map[string]int{}
					}
					emitted[f.Ext][f.PType]++
					allTypes[f.PType] = true
				}
			}
		}
		cands := map[string]bool{}
		for _, t := range purlTypeConstants(repoDir(e)) {
			cands[t] = true
		}
		for t := range allTypes {
			cands[t] = true
		}
		candL, validL := []string{}, []string{}
		for t := range cands {
			candL = append(candL, t)
			if typeAccepted(t) {
				validL = append(validL, t)
			}
		}
		sort.Strings(candL)
		sort.Strings(validL)
		emittedL := map[string][]string{}
		for ex, m := range emitted {
			for t := range m {
				emittedL[ex] = append(emittedL[ex], t)
			}
			sort.Strings(emittedL[ex])
		}
		extractors := []map[string]any{}
		for _, inf := range h.Reg {
			extractors = append(extractors, map[string]any{"name": inf.Name, "offline": inf.Offline, "fixtures": len(inf.Fixtures),
				"paths": len(inf.Paths), "packages": perExt[inf.Name]})
		}
		outf, err := os.Create(e.Out)
		if err != nil {
			return err
		}
		defer outf.Close()
		w := bufio.NewWriterSize(outf, 1<<20)
		defer w.Flush()
		enc := json.NewEncoder(w)
		enc.SetEscapeHTML(false)
		if err := enc.Encode(map[string]any{"i": 0, "kind": "registry", "emitted": emittedL, "emitted_counts": emitted, "candidates": candL, "valid": validL,
			"extractors": extractors, "notes": h.Notes, "runs": h.Runs, "problems": h.Problems}); err != nil {
			return err
		}
		n := 0
		for _, rs := range recs {
			for _, f := range rs {
				n++
				f.I = n
				if len(f.Detail) == 0 {
					f.Content = ""
				}
				if err := enc.Encode(f); err != nil {
					return err
				}
			}
		}
		return nil
	})
}
