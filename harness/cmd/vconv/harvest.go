package main

// Harvest of "every package a built-in extractor can emit" for C14 (and the native inventories of C15).
// Every package comes out of the REAL filesystem.Run (walk, FileRequired, Extract, Extractor assignment)
// with exactly one extractor enabled, on
//   fixture   - every regular file under the extractor's testdata, at its own path when the extractor
//               requires that path, otherwise placed at up to two production paths the extractor requires;
//   mutated   - seeded text mutations of the UTF-8 fixtures (line delete/duplicate/swap/truncate, token
//               replaced by a string of the spec's class tables or by nothing); kept only if the plugin
//               status is "succeeded" (the input still parses);
//   generated - the TLC class-product cases rendered into formats that can carry arbitrary names/versions;
//   direct    - a package the extractor emitted on a fixture, cloned with name/version (and the metadata
//               fields that held them) replaced by the case's strings: real metadata type, real ToPURL.

import (
	"bytes"
	"encoding/json"
	"fmt"
	"math/rand"
	"os"
	"path/filepath"
	"reflect"
	"regexp"
	"sort"
	"strconv"
	"strings"
	"sync"
	"time"
	"unicode/utf8"

	. "verif/harness/hlib"

	"github.com/google/osv-scalibr/extractor"
	"github.com/google/osv-scalibr/extractor/filesystem"
	"github.com/google/osv-scalibr/purl"
)

type batch struct {
	Src     string
	Origin  string // fixture | mutated | generated | direct
	Ext     string
	Case    int // index of the TLC case (generated/direct), else -1
	Failed  bool
	Pkgs    []*extractor.Package
	Content string // for mutated inputs: the mutated text (witness)
}

type harvestOpts struct {
	Mutations int
	Seed      int64
	Cases     []pkgCase
	Only      string // restrict to one extractor name (replay)
}

type harvestResult struct {
	Batches  []*batch
	Reg      []*exInfo
	Notes    []string
	Runs     map[string]int
	Problems []map[string]any // panics / hangs observed while harvesting (C02's business; reported, not judged)
}

// pkgCase is one TLC-emitted abstract package of the C14 class product, already concrete.
type pkgCase struct {
	P     purlRec `json:"p"`
	NameC string  `json:"nameC"`
	VerC  string  `json:"verC"`
	Layer bool    `json:"layer"`
	NLoc  int     `json:"nloc"`
	Shape string  `json:"shape"`
}

var tokenRe = regexp.MustCompile(`[A-Za-z0-9_][A-Za-z0-9_.+~:-]+`)

func mutateText(r *rand.Rand, src []byte, inject []string) []byte {
	lines := strings.SplitAfter(string(src), "\n")
	nops := 1 + r.Intn(2)
	for k := 0; k < nops; k++ {
		if len(lines) == 0 {
			break
		}
		i := r.Intn(len(lines))
		switch r.Intn(8) {
		case 0:
			lines = append(lines[:i:i], lines[i+1:]...)
		case 1:
			lines = append(lines[:i+1:i+1], append([]string{lines[i]}, lines[i+1:]...)...)
		case 2:
			j := r.Intn(len(lines))
			lines[i], lines[j] = lines[j], lines[i]
		case 3:
			lines = lines[:i+1]
		default:
			// token-level: pick a line with a token
			for try := 0; try < 8; try++ {
				i = r.Intn(len(lines))
				locs := tokenRe.FindAllStringIndex(lines[i], -1)
				if len(locs) == 0 {
					continue
				}
				l := locs[r.Intn(len(locs))]
				rep := ""
				switch r.Intn(4) {
				case 0:
					rep = ""
				case 1:
					tok := lines[i][l[0]:l[1]]
					pos := r.Intn(len(tok) + 1)
					sp := []string{" ", "/", "@", "%", "+", "?", "#", "ö", "\"", "'", "<", "&", "\\", ":"}
					rep = tok[:pos] + sp[r.Intn(len(sp))] + tok[pos:]
				default:
					if len(inject) > 0 {
						rep = inject[r.Intn(len(inject))]
					}
				}
				lines[i] = lines[i][:l[0]] + rep + lines[i][l[1]:]
				break
			}
		}
	}
	return []byte(strings.Join(lines, ""))
}

// canonPurl renders a package URL independently of the library (percent-encoding everything outside
// the unreserved set), used only to write SBOM *inputs* for the generated cases.
func pctEscape(s string) string {
	var b strings.Builder
	for i := 0; i < len(s); i++ {
		c := s[i]
		if c >= 'a' && c <= 'z' || c >= 'A' && c <= 'Z' || c >= '0' && c <= '9' || c == '-' || c == '.' || c == '_' || c == '~' {
			b.WriteByte(c)
		} else {
			fmt.Fprintf(&b, "%%%02X", c)
		}
	}
	return b.String()
}

func canonPurl(p purlRec) string {
	s := "pkg:" + p.Type + "/"
	for _, seg := range strings.Split(p.Namespace, "/") {
		if seg != "" {
			s += pctEscape(seg) + "/"
		}
	}
	s += pctEscape(p.Name)
	if p.Version != "" {
		s += "@" + pctEscape(p.Version)
	}
	if len(p.Quals) > 0 {
		qs := append([][2]string{}, p.Quals...)
		sort.Slice(qs, func(i, j int) bool { return qs[i][0] < qs[j][0] })
		parts := []string{}
		for _, q := range qs {
			parts = append(parts, q[0]+"="+pctEscape(q[1]))
		}
		s += "?" + strings.Join(parts, "&")
	}
	if p.Subpath != "" {
		segs := []string{}
		for _, seg := range strings.Split(p.Subpath, "/") {
			if seg != "" {
				segs = append(segs, pctEscape(seg))
			}
		}
		s += "#" + strings.Join(segs, "/")
	}
	return s
}

func tomlStr(s string) string {
	b, _ := json.Marshal(s) // TOML basic strings accept JSON escapes
	return string(b)
}

func jsonBytes(v any) []byte {
	var buf bytes.Buffer
	enc := json.NewEncoder(&buf)
	enc.SetEscapeHTML(false)
	enc.SetIndent("", " ")
	_ = enc.Encode(v)
	return buf.Bytes()
}

type carrier struct {
	Ext    string // extractor name
	Path   string
	SBOM   bool // carries the full package URL shape
	Render func(c pkgCase) map[string][]byte
}

func goModTok(s string) string {
	if s != "" && !strings.ContainsAny(s, " \t\"'`()[]{},\\\n") && !strings.Contains(s, "//") {
		return s
	}
	return strconv.Quote(s)
}

var carriers = []carrier{
	{Ext: "python/requirements", Path: "requirements.txt", Render: func(c pkgCase) map[string][]byte {
		return map[string][]byte{"requirements.txt": []byte("plainpkg==0.1\n" + c.P.Name + "==" + c.P.Version + "\n")}
	}},
	{Ext: "javascript/packagelockjson", Path: "package-lock.json", Render: func(c pkgCase) map[string][]byte {
		return map[string][]byte{"package-lock.json": jsonBytes(map[string]any{
			"name": "root", "version": "1.0.0", "lockfileVersion": 2, "requires": true,
			"packages": map[string]any{
				"":                         map[string]any{"name": "root", "version": "1.0.0", "dependencies": map[string]string{c.P.Name: c.P.Version}},
				"node_modules/" + c.P.Name: map[string]any{"version": c.P.Version, "resolved": "https://registry.npmjs.org/x/-/x-1.0.0.tgz", "integrity": "sha512-AAAA"},
			},
			"dependencies": map[string]any{c.P.Name: map[string]any{"version": c.P.Version, "resolved": "https://registry.npmjs.org/x/-/x-1.0.0.tgz", "integrity": "sha512-AAAA"}},
		})}
	}},
	{Ext: "javascript/packagelockjson", Path: "v1/package-lock.json", Render: func(c pkgCase) map[string][]byte {
		return map[string][]byte{"v1/package-lock.json": jsonBytes(map[string]any{
			"name": "root", "version": "1.0.0", "lockfileVersion": 1, "requires": true,
			"dependencies": map[string]any{c.P.Name: map[string]any{"version": c.P.Version, "resolved": "https://registry.npmjs.org/x/-/x-1.0.0.tgz", "integrity": "sha512-AAAA"}},
		})}
	}},
	{Ext: "os/dpkg", Path: "var/lib/dpkg/status", Render: func(c pkgCase) map[string][]byte {
		return map[string][]byte{
			"var/lib/dpkg/status": []byte("Package: " + c.P.Name + "\nStatus: install ok installed\nPriority: optional\nSection: libs\nInstalled-Size: 10\nMaintainer: A B <a@b.c>\nArchitecture: amd64\nSource: " + c.P.Name + "-src (" + c.P.Version + ")\nVersion: " + c.P.Version + "\nDescription: d\n\n"),
			"etc/os-release":      []byte("ID=debian\nVERSION_ID=\"12\"\nVERSION_CODENAME=bookworm\n"),
		}
	}},
	{Ext: "go/gomod", Path: "go.mod", Render: func(c pkgCase) map[string][]byte {
		return map[string][]byte{"go.mod": []byte("module example.com/m\n\ngo 1.21\n\nrequire (\n\t" + goModTok(c.P.Name) + " " + goModTok(c.P.Version) + "\n)\n")}
	}},
	{Ext: "rust/cargolock", Path: "Cargo.lock", Render: func(c pkgCase) map[string][]byte {
		return map[string][]byte{"Cargo.lock": []byte("version = 3\n\n[[package]]\nname = " + tomlStr(c.P.Name) + "\nversion = " + tomlStr(c.P.Version) + "\nsource = \"registry+https://github.com/rust-lang/crates.io-index\"\n")}
	}},
	{Ext: "ruby/gemfilelock", Path: "Gemfile.lock", Render: func(c pkgCase) map[string][]byte {
		return map[string][]byte{"Gemfile.lock": []byte("GEM\n  remote: https://rubygems.org/\n  specs:\n    " + c.P.Name + " (" + c.P.Version + ")\n\nPLATFORMS\n  ruby\n\nDEPENDENCIES\n  " + c.P.Name + "\n\nBUNDLED WITH\n   2.4.0\n")}
	}},
	{Ext: "php/composerlock", Path: "composer.lock", Render: func(c pkgCase) map[string][]byte {
		return map[string][]byte{"composer.lock": jsonBytes(map[string]any{
			"packages":     []any{map[string]any{"name": c.P.Name, "version": c.P.Version, "dist": map[string]string{"reference": "abc"}}},
			"packages-dev": []any{},
		})}
	}},
	{Ext: "python/pipfilelock", Path: "Pipfile.lock", Render: func(c pkgCase) map[string][]byte {
		return map[string][]byte{"Pipfile.lock": jsonBytes(map[string]any{
			"_meta":   map[string]any{"hash": map[string]string{"sha256": "x"}, "pipfile-spec": 6},
			"default": map[string]any{c.P.Name: map[string]any{"version": "==" + c.P.Version}},
			"develop": map[string]any{},
		})}
	}},
	{Ext: "os/cos", Path: "etc/cos-package-info.json", Render: func(c pkgCase) map[string][]byte {
		return map[string][]byte{
			"etc/cos-package-info.json": jsonBytes(map[string]any{"installedPackages": []any{map[string]any{"category": "app-misc", "name": c.P.Name, "version": c.P.Version, "revision": "1"}}}),
			"etc/os-release":            []byte("ID=cos\nVERSION_ID=101\n"),
		}
	}},
	{Ext: "sbom/spdx", Path: "in.spdx.json", SBOM: true, Render: func(c pkgCase) map[string][]byte {
		return map[string][]byte{"in.spdx.json": jsonBytes(map[string]any{
			"spdxVersion": "SPDX-2.3", "dataLicense": "CC0-1.0", "SPDXID": "SPDXRef-DOCUMENT", "name": "in",
			"documentNamespace": "https://example.com/in",
			"creationInfo":      map[string]any{"created": "2024-01-01T00:00:00Z", "creators": []string{"Tool: verif"}},
			"packages": []any{map[string]any{
				"name": c.P.Name, "SPDXID": "SPDXRef-Package-1", "versionInfo": c.P.Version, "downloadLocation": "NOASSERTION",
				"externalRefs": []any{map[string]string{"referenceCategory": "PACKAGE-MANAGER", "referenceType": "purl", "referenceLocator": canonPurl(c.P)}},
			}},
		})}
	}},
	{Ext: "sbom/cdx", Path: "in.cdx.json", SBOM: true, Render: func(c pkgCase) map[string][]byte {
		return map[string][]byte{"in.cdx.json": jsonBytes(map[string]any{
			"bomFormat": "CycloneDX", "specVersion": "1.4", "version": 1,
			"components": []any{map[string]any{"type": "library", "name": c.P.Name, "version": c.P.Version, "purl": canonPurl(c.P)}},
		})}
	}},
}

// substitute returns a clone of ex with Name/Version replaced and every string field of the (pointer to
// struct) metadata that equalled the old name / version replaced as well.
func substitute(ex *extractor.Package, name, version string) *extractor.Package {
	cp := *ex
	cp.Name, cp.Version = name, version
	cp.Locations = append([]string(nil), ex.Locations...)
	mv := reflect.ValueOf(ex.Metadata)
	if mv.IsValid() && mv.Kind() == reflect.Pointer && !mv.IsNil() && mv.Elem().Kind() == reflect.Struct {
		nm := reflect.New(mv.Elem().Type())
		nm.Elem().Set(mv.Elem())
		for i := 0; i < nm.Elem().NumField(); i++ {
			f := nm.Elem().Field(i)
			if f.Kind() == reflect.String && f.CanSet() {
				switch f.String() {
				case "":
				case ex.Name:
					f.SetString(name)
				case ex.Version:
					f.SetString(version)
				}
			}
		}
		// SBOM metadata carries the package URL itself
		if f := nm.Elem().FieldByName("PURL"); f.IsValid() && f.Kind() == reflect.Pointer && !f.IsNil() {
			if old, ok := f.Interface().(*purl.PackageURL); ok {
				np := *old
				np.Name, np.Version = name, version
				f.Set(reflect.ValueOf(&np))
			}
		}
		cp.Metadata = nm.Interface()
	}
	return &cp
}

var testLayer = &extractor.LayerDetails{Index: 3, DiffID: "sha256:0123abcd", Command: "RUN apt-get install -y libfoo", InBaseImage: true}

func isText(b []byte) bool {
	return len(b) > 0 && len(b) <= 64<<10 && utf8.Valid(b) && !bytes.ContainsRune(b, 0)
}

func harvest(e *Env, o harvestOpts) (*harvestResult, error) {
	mirror := filepath.Join(e.Tmp, "mirror")
	reg, err := loadRegistry(e, mirror)
	if err != nil {
		return nil, err
	}
	h := &harvestResult{Reg: reg, Runs: map[string]int{}}
	var mu sync.Mutex
	add := func(b *batch) {
		mu.Lock()
		h.Batches = append(h.Batches, b)
		h.Runs[b.Origin]++
		mu.Unlock()
	}
	problem := func(m map[string]any) {
		mu.Lock()
		h.Problems = append(h.Problems, m)
		mu.Unlock()
	}
	var scratchN int
	scratch := func() string {
		mu.Lock()
		scratchN++
		d := filepath.Join(e.Tmp, "gen", strconv.Itoa(scratchN%97), strconv.Itoa(scratchN))
		mu.Unlock()
		return d
	}
	type task func()
	tasks := make(chan task, 4096)
	var wg sync.WaitGroup
	nw := e.Workers
	if nw < 1 {
		nw = 1
	}
	for k := 0; k < nw; k++ {
		wg.Add(1)
		go func() {
			defer wg.Done()
			for t := range tasks {
				t()
			}
		}()
	}
	runFiles := func(inf *exInfo, files map[string][]byte, origin, src string, caseIdx int, content string, keepFailed bool) {
		root := scratch()
		for rel, data := range files {
			if err := writeFileAt(root, rel, data, 0o755); err != nil {
				return
			}
		}
		rr := runDir(root, []filesystem.Extractor{inf.Ex}, 20*time.Second)
		_ = os.RemoveAll(root)
		if rr.Panic != "" || rr.Timeout {
			problem(map[string]any{"ext": inf.Name, "src": src, "panic": rr.Panic, "timeout": rr.Timeout})
			return
		}
		if rr.Failed && !keepFailed {
			return
		}
		add(&batch{Src: src, Origin: origin, Ext: inf.Name, Case: caseIdx, Failed: rr.Failed, Pkgs: rr.Pkgs, Content: content})
	}
	inject := []string{}
	seenInj := map[string]bool{}
	for _, c := range o.Cases {
		for _, s := range []string{c.P.Name, c.P.Version} {
			if !seenInj[s] {
				seenInj[s] = true
				inject = append(inject, s)
			}
		}
	}
	byName := map[string]*exInfo{}
	for _, inf := range reg {
		byName[inf.Name] = inf
		if !inf.Offline {
			h.Notes = append(h.Notes, inf.Name+": skipped, "+inf.SkipReason)
			continue
		}
		if o.Only != "" && inf.Name != o.Only {
			continue
		}
		inf := inf
		prod := pickPaths(inf, 2)
		for fi, fx := range inf.Fixtures {
			fx, fi := fx, fi
			inplace := accepts(inf.Ex, fx)
			tasks <- func() {
				abs := filepath.Join(mirror, inf.PkgDir, fx)
				data, err := os.ReadFile(abs)
				if err != nil {
					return
				}
				if inplace {
					// in place on the private copy: sibling files stay visible to the extractor
					rr := runDir(filepath.Join(mirror, inf.PkgDir), []filesystem.Extractor{inf.Ex}, 25*time.Second, abs)
					if rr.Panic != "" || rr.Timeout {
						problem(map[string]any{"ext": inf.Name, "src": fx, "panic": rr.Panic, "timeout": rr.Timeout})
					} else {
						add(&batch{Src: "fixture:" + inf.PkgDir + "/" + fx, Origin: "fixture", Ext: inf.Name, Case: -1, Failed: rr.Failed, Pkgs: rr.Pkgs})
					}
				} else {
					for _, p := range prod {
						runFiles(inf, map[string][]byte{p: data}, "fixture", "fixture:"+inf.PkgDir+"/"+fx+"@"+p, -1, "", true)
					}
				}
				if o.Mutations > 0 && isText(data) {
					at := fx
					if !inplace {
						if len(prod) == 0 {
							return
						}
						at = prod[0]
					}
					r := rand.New(rand.NewSource(o.Seed*1000003 + int64(fi)*7919 + int64(len(inf.Name))))
					for m := 0; m < o.Mutations; m++ {
						mt := mutateText(r, data, inject)
						if bytes.Equal(mt, data) {
							continue
						}
						runFiles(inf, map[string][]byte{at: mt}, "mutated", fmt.Sprintf("mutated:%s/%s#%d@%s", inf.PkgDir, fx, m, at), -1, string(mt), false)
					}
				}
			}
		}
	}
	// generated: class-product cases through the carriers
	seenNV := map[string]bool{}
	for ci, c := range o.Cases {
		ci, c := ci, c
		for _, cr := range carriers {
			cr := cr
			inf := byName[cr.Ext]
			if inf == nil || (o.Only != "" && inf.Name != o.Only) {
				continue
			}
			if !cr.SBOM {
				k := cr.Path + "\x00" + c.P.Name + "\x00" + c.P.Version
				if seenNV[k] {
					continue
				}
				seenNV[k] = true
			}
			tasks <- func() {
				runFiles(inf, cr.Render(c), "generated", fmt.Sprintf("generated:%s:case%d", cr.Path, ci), ci, "", true)
			}
		}
	}
	close(tasks)
	wg.Wait()
	// direct: exemplar substitution for every extractor that emitted something on its fixtures
	exemplar := map[string]*extractor.Package{}
	sort.Slice(h.Batches, func(i, j int) bool { return h.Batches[i].Src < h.Batches[j].Src })
	for _, b := range h.Batches {
		if b.Origin != "fixture" {
			continue
		}
		for _, p := range b.Pkgs {
			if p.Name == "" || p.Name == p.Version {
				continue
			}
			// prefer an exemplar with a version; the first one with a name otherwise
			if old, ok := exemplar[b.Ext]; !ok || (old.Version == "" && p.Version != "") {
				exemplar[b.Ext] = p
			}
		}
	}
	exNames := []string{}
	for n := range exemplar {
		exNames = append(exNames, n)
	}
	sort.Strings(exNames)
	seenD := map[string]bool{}
	for ci, c := range o.Cases {
		k := fmt.Sprintf("%s\x00%s\x00%v\x00%d", c.P.Name, c.P.Version, c.Layer, c.NLoc)
		if seenD[k] {
			continue
		}
		seenD[k] = true
		for _, n := range exNames {
			if o.Only != "" && n != o.Only {
				continue
			}
			p := substitute(exemplar[n], c.P.Name, c.P.Version)
			if c.NLoc >= 2 && len(p.Locations) < 2 {
				if ci%2 == 1 {
					// a directory name that is not valid UTF-8 (Latin-1 "café"): legal on Linux, must be kept verbatim
					p.Locations = append(p.Locations, "second/caf\xe9/location of "+c.P.Name)
				} else {
					p.Locations = append(p.Locations, "second/location of "+c.P.Name)
				}
			}
			if c.Layer {
				p.LayerDetails = testLayer
			}
			h.Batches = append(h.Batches, &batch{Src: fmt.Sprintf("direct:%s:case%d", n, ci), Origin: "direct", Ext: n, Case: ci, Pkgs: []*extractor.Package{p}})
			h.Runs["direct"]++
		}
	}
	for n, inf := range byName {
		if inf.Offline && exemplar[n] == nil {
			h.Notes = append(h.Notes, n+": no package with a name harvested from fixtures (no direct cases)")
		}
	}
	sort.Strings(h.Notes)
	sort.SliceStable(h.Batches, func(i, j int) bool { return h.Batches[i].Src < h.Batches[j].Src })
	return h, nil
}
