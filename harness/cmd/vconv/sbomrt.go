package main

// C15 replay: an inventory is turned into a ScanResult, exported through the REAL converter and writers
// (binary/cli.Flags.WriteScanResults = converter.ToSPDX23/ToCDX + binary/spdx.Write23 / binary/cdx.Write)
// into a file under e.Tmp named so that the SBOM extractors require it, and that file is scanned with
// the REAL scalibr.New().Scan with only the two SBOM extractors enabled. The observation is the list of
// package URLs (as structures) of the re-imported packages; the reference list (`ref`) is the list of
// package URLs of the exported inventory (Package.Extractor.ToPURL, nil for packages without one).
// No expectation is computed here.

import (
	"bytes"
	"context"
	"encoding/json"
	"fmt"
	"math/rand"
	"os"
	"path/filepath"
	"sort"
	"sync"
	"time"

	. "verif/harness/hlib"

	scalibr "github.com/google/osv-scalibr"
	"github.com/google/osv-scalibr/binary/cdx"
	"github.com/google/osv-scalibr/binary/cli"
	"github.com/google/osv-scalibr/binary/spdx"
	"github.com/google/osv-scalibr/converter"
	"github.com/google/osv-scalibr/extractor"
	"github.com/google/osv-scalibr/extractor/filesystem"
	cdxe "github.com/google/osv-scalibr/extractor/filesystem/sbom/cdx"
	spdxe "github.com/google/osv-scalibr/extractor/filesystem/sbom/spdx"
	scalibrfs "github.com/google/osv-scalibr/fs"
	"github.com/google/osv-scalibr/inventory"
	scalibrlog "github.com/google/osv-scalibr/log"
	"github.com/google/osv-scalibr/plugin"
)

type quiet struct{}

func (quiet) Errorf(string, ...any) {}
func (quiet) Error(...any)          {}
func (quiet) Warnf(string, ...any)  {}
func (quiet) Warn(...any)           {}
func (quiet) Infof(string, ...any)  {}
func (quiet) Info(...any)           {}
func (quiet) Debugf(string, ...any) {}
func (quiet) Debug(...any)          {}

var sbomFileName = map[string]string{
	"spdx23-json":      "export.spdx.json",
	"spdx23-yaml":      "export.spdx.yml",
	"spdx23-tag-value": "export.spdx",
	"cdx-json":         "export.cdx.json",
	"cdx-xml":          "export.cdx.xml",
}

type rtPkg struct {
	Carrier string   `json:"carrier"` // "spdx" | "cdx": which SBOM extractor owns the package
	HasPurl bool     `json:"has_purl"`
	P       *purlRec `json:"p"`
	Name    string   `json:"name"`
	Version string   `json:"version"`
	CPE     string   `json:"cpe"`
	Loc     []string `json:"loc"`
}

type rtCase struct {
	Format string  `json:"format"`
	Pkgs   []rtPkg `json:"pkgs"`
}

type rtObs struct {
	I          int          `json:"i"`
	Format     string       `json:"format"`
	File       string       `json:"file"`
	RequiredBy []string     `json:"required_by"`
	Ref        []*purlRec   `json:"ref"`      // package URL of every inventory package (null = none)
	RefStr     []string     `json:"ref_str"`  // its String()
	RefName    []string     `json:"ref_name"` // Package.Name
	Panic      string       `json:"panic,omitempty"`
	WriteErr   string       `json:"write_err,omitempty"`
	ScanStatus string       `json:"scan_status"`
	PluginFail []string     `json:"plugin_fail,omitempty"`
	Reimported []*purlRec   `json:"reimported"`
	ReimpStr   []string     `json:"reimp_str"`
	NoPurlBack int          `json:"reimported_without_purl"`
	Inv        any          `json:"inv,omitempty"`
	Patched    *patchedScan `json:"patched,omitempty"`
}

func buildPkg(c rtPkg) *extractor.Package {
	p := &extractor.Package{Name: c.Name, Version: c.Version, Locations: c.Loc}
	if len(p.Locations) == 0 {
		p.Locations = []string{"src/sbom.spdx.json"}
	}
	var cpes []string
	if c.CPE != "" {
		cpes = []string{c.CPE}
	}
	pu := c.P.toPurl()
	if !c.HasPurl {
		pu = nil
	}
	if c.Carrier == "cdx" {
		p.Extractor = cdxe.New()
		p.Metadata = &cdxe.Metadata{PURL: pu, CPEs: cpes}
	} else {
		p.Extractor = spdxe.New()
		p.Metadata = &spdxe.Metadata{PURL: pu, CPEs: cpes}
	}
	return p
}

// roundTrip exports pkgs in the format into dir and scans the produced file.
func roundTrip(idx int, dir, format, via string, pkgs []*extractor.Package) rtObs {
	o := rtObs{Format: format, Ref: []*purlRec{}, Reimported: []*purlRec{}, RefStr: []string{}, ReimpStr: []string{}, RefName: []string{}}
	name, ok := sbomFileName[format]
	if !ok {
		o.WriteErr = "unknown format " + format
		return o
	}
	o.File = name
	for _, ex := range []filesystem.Extractor{spdxe.New(), cdxe.New()} {
		if accepts(ex, name) {
			o.RequiredBy = append(o.RequiredBy, ex.Name())
		}
	}
	for _, p := range pkgs {
		o.RefName = append(o.RefName, p.Name)
		var pr *purlRec
		s := ""
		if pn := Safely(func() {
			pu := p.Extractor.ToPURL(p)
			pr = projPurl(pu)
			if pu != nil {
				s = pu.String()
			}
		}); pn != "" {
			o.Panic = "ToPURL: " + pn
			return o
		}
		o.Ref = append(o.Ref, pr)
		o.RefStr = append(o.RefStr, s)
	}
	if err := os.MkdirAll(dir, 0o755); err != nil {
		o.WriteErr = err.Error()
		return o
	}
	for _, other := range sbomFileName { // the directory is reused: nothing of an earlier case may remain
		_ = os.Remove(filepath.Join(dir, other))
	}
	path := filepath.Join(dir, name)
	// every other export goes to a path that already holds a (longer) file, as when a scan is run again with the
	// same output flag: the writer must replace it
	if idx%2 == 1 {
		_ = os.WriteFile(path, bytes.Repeat([]byte("stale export, must not survive\n"), 4096), 0o644)
	}
	now := time.Now()
	res := &scalibr.ScanResult{Version: "verif", StartTime: now, EndTime: now,
		Status:    &plugin.ScanStatus{Status: plugin.ScanStatusSucceeded},
		Inventory: inventory.Inventory{Packages: pkgs}}
	if pn := Safely(func() {
		var err error
		if via == "direct" {
			if format == "cdx-json" || format == "cdx-xml" {
				err = cdx.Write(converter.ToCDX(res, converter.CDXConfig{ComponentName: "verif", ComponentVersion: "1"}), path, format)
			} else {
				err = spdx.Write23(converter.ToSPDX23(res, converter.SPDXConfig{}), path, format)
			}
		} else {
			f := &cli.Flags{Output: []string{format + "=" + path}}
			err = f.WriteScanResults(res)
		}
		if err != nil {
			o.WriteErr = err.Error()
		}
	}); pn != "" {
		o.Panic = "export: " + pn
		return o
	}
	if o.WriteErr != "" {
		return o
	}
	o.ScanStatus, o.PluginFail, o.Reimported, o.ReimpStr, o.NoPurlBack, o.Panic = scanSBOMDir(dir)
	if format == "spdx23-tag-value" && o.Panic == "" {
		// Known finding C15-spdx-tagvalue-supplier makes every tag-value document unreadable. To keep judging
		// the rest of the tag-value path, the supplier line alone is rewritten to the form the reader accepts
		// and the file is scanned again (reported separately; the raw scan above stays the primary observation).
		if data, err := os.ReadFile(path); err == nil {
			fixed := bytes.ReplaceAll(data, []byte("PackageSupplier: NOASSERTION: NOASSERTION\n"), []byte("PackageSupplier: NOASSERTION\n"))
			dir2 := dir + "-supplier"
			if err := writeFileAt(dir2, name, fixed, 0o644); err == nil {
				p := &patchedScan{SupplierLines: bytes.Count(data, []byte("PackageSupplier: NOASSERTION: NOASSERTION\n"))}
				p.ScanStatus, p.PluginFail, p.Reimported, p.ReimpStr, p.NoPurlBack, p.Panic = scanSBOMDir(dir2)
				o.Patched = p
				_ = os.Remove(filepath.Join(dir2, name))
			}
		}
	}
	_ = os.Remove(path)
	return o
}

// dirPool hands out scratch directories that are reused (one file at a time lives in each), so that the
// workers do not contend on creating and removing directories under one parent.
type dirPool struct {
	base string
	free chan string
	mu   sync.Mutex
	n    int
}

func newDirPool(base string) *dirPool { return &dirPool{base: base, free: make(chan string, 1024)} }

func (p *dirPool) get() string {
	select {
	case d := <-p.free:
		return d
	default:
	}
	p.mu.Lock()
	p.n++
	d := filepath.Join(p.base, fmt.Sprint(p.n))
	p.mu.Unlock()
	return d
}

func (p *dirPool) put(d string) {
	select {
	case p.free <- d:
	default:
	}
}

type patchedScan struct {
	SupplierLines int        `json:"supplier_lines"`
	ScanStatus    string     `json:"scan_status"`
	PluginFail    []string   `json:"plugin_fail,omitempty"`
	Reimported    []*purlRec `json:"reimported"`
	ReimpStr      []string   `json:"reimp_str"`
	NoPurlBack    int        `json:"reimported_without_purl"`
	Panic         string     `json:"panic,omitempty"`
}

// scanSBOMDir scans dir with the REAL scalibr.New().Scan, only the two SBOM extractors enabled.
func scanSBOMDir(dir string) (status string, pluginFail []string, back []*purlRec, backStr []string, noPurl int, panicked string) {
	back, backStr = []*purlRec{}, []string{}
	var sr *scalibr.ScanResult
	if pn := Safely(func() {
		ctx, cancel := context.WithTimeout(context.Background(), 60*time.Second)
		defer cancel()
		sr = scalibr.New().Scan(ctx, &scalibr.ScanConfig{
			FilesystemExtractors: []filesystem.Extractor{spdxe.New(), cdxe.New()},
			ScanRoots:            scalibrfs.RealFSScanRoots(dir),
		})
	}); pn != "" {
		return "", nil, back, backStr, 0, "scan: " + pn
	}
	if sr.Status != nil {
		if sr.Status.Status == plugin.ScanStatusSucceeded {
			status = "succeeded"
		} else {
			status = "failed: " + sr.Status.FailureReason
		}
	}
	for _, ps := range sr.PluginStatus {
		if ps.Status != nil && ps.Status.Status != plugin.ScanStatusSucceeded {
			pluginFail = append(pluginFail, ps.Name+": "+ps.Status.FailureReason)
		}
	}
	for _, p := range sr.Inventory.Packages {
		var pr *purlRec
		s := ""
		if pn := Safely(func() {
			pu := p.Extractor.ToPURL(p)
			pr = projPurl(pu)
			if pu != nil {
				s = pu.String()
			}
		}); pn != "" {
			return status, pluginFail, back, backStr, noPurl, "reimported ToPURL: " + pn
		}
		if pr == nil {
			noPurl++
			continue
		}
		back = append(back, pr)
		backStr = append(backStr, s)
	}
	return status, pluginFail, back, backStr, noPurl, ""
}

func init() {
	Register("sbomrt", func(e *Env) error {
		scalibrlog.SetLogger(quiet{})
		via := e.Args["via"]
		pool := newDirPool(filepath.Join(e.Tmp, "rt"))
		return MapCases(e, func(idx int, raw []byte) (any, error) {
			var c rtCase
			if err := json.Unmarshal(raw, &c); err != nil {
				return nil, err
			}
			pkgs := make([]*extractor.Package, 0, len(c.Pkgs))
			for _, cp := range c.Pkgs {
				pkgs = append(pkgs, buildPkg(cp))
			}
			d := pool.get()
			o := roundTrip(idx, d, c.Format, via, pkgs)
			pool.put(d)
			o.I = idx
			return o, nil
		})
	})

	// sbomrt-native: inventories made of the packages the built-in extractors really emit on the
	// repository's fixtures (native metadata, real ToPURL): one inventory per harvest batch, plus
	// seeded random inventories of 0..n packages with duplicates, each exported in all five formats.
	Register("sbomrt-native", func(e *Env) error {
		scalibrlog.SetLogger(quiet{})
		seed := int64(1)
		fmt.Sscan(e.Args["seed"], &seed)
		nrand := 200
		fmt.Sscan(e.Args["nrand"], &nrand)
		maxn := 12
		fmt.Sscan(e.Args["maxn"], &maxn)
		h, err := harvest(e, harvestOpts{Mutations: 0})
		if err != nil {
			return err
		}
		type invt struct {
			id   string
			pkgs []*extractor.Package
		}
		invs := []invt{}
		all := []*extractor.Package{}
		for _, b := range h.Batches {
			if len(b.Pkgs) == 0 {
				continue
			}
			invs = append(invs, invt{"batch:" + b.Src, b.Pkgs})
			all = append(all, b.Pkgs...)
		}
		r := rand.New(rand.NewSource(seed))
		for k := 0; k < nrand && len(all) > 0; k++ {
			n := r.Intn(maxn + 1)
			ps := []*extractor.Package{}
			for j := 0; j < n; j++ {
				if len(ps) > 0 && r.Intn(4) == 0 {
					ps = append(ps, ps[r.Intn(len(ps))]) // duplicate
				} else {
					ps = append(ps, all[r.Intn(len(all))])
				}
			}
			invs = append(invs, invt{fmt.Sprintf("random:%d:%d", seed, k), ps})
		}
		formats := []string{}
		for f := range sbomFileName {
			formats = append(formats, f)
		}
		sort.Strings(formats)
		// the inventories are fed through MapCases as index lines
		in := filepath.Join(e.Tmp, "native-cases.ndjson")
		f, err := os.Create(in)
		if err != nil {
			return err
		}
		for i := range invs {
			for _, fm := range formats {
				fmt.Fprintf(f, "{\"inv\":%d,\"format\":%q}\n", i, fm)
			}
		}
		f.Close()
		e.In = in
		pool := newDirPool(filepath.Join(e.Tmp, "rtn"))
		return MapCases(e, func(idx int, raw []byte) (any, error) {
			var c struct {
				Inv    int    `json:"inv"`
				Format string `json:"format"`
			}
			if err := json.Unmarshal(raw, &c); err != nil {
				return nil, err
			}
			d := pool.get()
			o := roundTrip(idx, d, c.Format, e.Args["via"], invs[c.Inv].pkgs)
			pool.put(d)
			o.I = idx
			exts := []string{}
			for _, p := range invs[c.Inv].pkgs {
				exts = append(exts, p.Extractor.Name())
			}
			o.Inv = map[string]any{"id": invs[c.Inv].id, "extractors": exts}
			return o, nil
		})
	})
}
