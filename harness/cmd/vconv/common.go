package main

// Shared by C14 `pkgfacts` and C15 `sbomrt`: the registry of built-in filesystem extractors
// (enumerated from extractor/filesystem/list), a private copy of their testdata under e.Tmp (nothing
// is ever opened read-write inside the repository), the production paths each extractor requires
// (candidates: string literals of the package's own tests + the fixtures' own names; a candidate counts
// only if the REAL FileRequired accepts it), running the REAL filesystem.Run on a directory, and the
// projection of a purl.PackageURL to a plain record.

import (
	"context"
	"go/ast"
	"go/parser"
	"go/token"
	"io"
	"io/fs"
	"os"
	"path/filepath"
	"reflect"
	"sort"
	"strconv"
	"strings"
	"time"

	. "verif/harness/hlib"

	"github.com/google/osv-scalibr/extractor"
	"github.com/google/osv-scalibr/extractor/filesystem"
	"github.com/google/osv-scalibr/extractor/filesystem/list"
	scalibrfs "github.com/google/osv-scalibr/fs"
	"github.com/google/osv-scalibr/plugin"
	"github.com/google/osv-scalibr/purl"
	"github.com/google/osv-scalibr/stats"
	"github.com/package-url/packageurl-go"
)

const modulePath = "github.com/google/osv-scalibr"

type exInfo struct {
	Name       string
	Ex         filesystem.Extractor
	PkgDir     string // relative to the repository root
	Offline    bool
	SkipReason string
	Fixtures   []string // relative to PkgDir, regular files under testdata
	Paths      []string // accepted production paths
}

type fakeAPI struct {
	path string
	size int64
	mode fs.FileMode
}
type fakeInfo struct{ a *fakeAPI }

func (i fakeInfo) Name() string       { return filepath.Base(i.a.path) }
func (i fakeInfo) Size() int64        { return i.a.size }
func (i fakeInfo) Mode() fs.FileMode  { return i.a.mode }
func (i fakeInfo) ModTime() time.Time { return time.Unix(1700000000, 0) }
func (i fakeInfo) IsDir() bool        { return false }
func (i fakeInfo) Sys() any           { return nil }

func (a *fakeAPI) Path() string               { return a.path }
func (a *fakeAPI) Stat() (fs.FileInfo, error) { return fakeInfo{a}, nil }

func accepts(ex filesystem.Extractor, p string) bool {
	ok := false
	Safely(func() { ok = ex.FileRequired(&fakeAPI{path: p, size: 1000, mode: 0o755}) })
	return ok
}

func repoDir(e *Env) string {
	if r := e.Args["repo"]; r != "" {
		return r
	}
	if r := os.Getenv("VERIF_REPO"); r != "" {
		return r
	}
	return "/repo"
}

func testLiterals(dir string) []string {
	out := []string{}
	ents, _ := os.ReadDir(dir)
	fset := token.NewFileSet()
	for _, en := range ents {
		if en.IsDir() || !strings.HasSuffix(en.Name(), "_test.go") {
			continue
		}
		f, err := parser.ParseFile(fset, filepath.Join(dir, en.Name()), nil, parser.SkipObjectResolution)
		if err != nil {
			continue
		}
		ast.Inspect(f, func(n ast.Node) bool {
			if bl, ok := n.(*ast.BasicLit); ok && bl.Kind == token.STRING {
				if s, err := strconv.Unquote(bl.Value); err == nil && len(s) > 0 && len(s) < 200 && !strings.ContainsAny(s, "\n\x00") {
					out = append(out, s)
				}
			}
			return true
		})
	}
	return out
}

func cleanRel(p string) (string, bool) {
	p = strings.TrimPrefix(filepath.ToSlash(p), "/")
	if p == "" || strings.HasSuffix(p, "/") {
		return "", false
	}
	c := filepath.Clean(p)
	if c != p || strings.HasPrefix(c, "..") || filepath.IsAbs(c) {
		return "", false
	}
	for _, seg := range strings.Split(c, "/") {
		if len(seg) > 100 {
			return "", false
		}
	}
	return c, true
}

func pathClass(p string) string {
	b := filepath.Base(p)
	if i := strings.Index(b, "."); i > 0 {
		return "*" + b[i:]
	}
	return filepath.Base(filepath.Dir(p)) + "/" + b
}

// copyTree copies regular files and directories (symlinks are skipped).
func copyTree(src, dst string) error {
	return filepath.WalkDir(src, func(p string, d fs.DirEntry, err error) error {
		if err != nil {
			return nil
		}
		rel, _ := filepath.Rel(src, p)
		t := filepath.Join(dst, rel)
		if d.IsDir() {
			return os.MkdirAll(t, 0o755)
		}
		if !d.Type().IsRegular() {
			return nil
		}
		fi, err := d.Info()
		if err != nil {
			return nil
		}
		in, err := os.Open(p)
		if err != nil {
			return nil
		}
		defer in.Close()
		out, err := os.OpenFile(t, os.O_CREATE|os.O_WRONLY|os.O_TRUNC, fi.Mode().Perm()|0o600)
		if err != nil {
			return err
		}
		defer out.Close()
		_, err = io.Copy(out, in)
		return err
	})
}

// loadRegistry enumerates list.All; mirror is the private copy root (e.Tmp/mirror/<PkgDir>/testdata).
func loadRegistry(e *Env, mirror string) ([]*exInfo, error) {
	repo := repoDir(e)
	names := []string{}
	for n := range list.All {
		names = append(names, n)
	}
	sort.Strings(names)
	out := []*exInfo{}
	for _, n := range names {
		for _, initer := range list.All[n] {
			ex := initer()
			t := reflect.TypeOf(ex)
			for t.Kind() == reflect.Pointer {
				t = t.Elem()
			}
			req := ex.Requirements()
			if req == nil {
				req = &plugin.Capabilities{}
			}
			inf := &exInfo{Name: ex.Name(), Ex: ex, Offline: true}
			inf.PkgDir = strings.TrimPrefix(strings.TrimPrefix(t.PkgPath(), modulePath), "/")
			if req.Network == plugin.NetworkOnline {
				inf.Offline = false
				inf.SkipReason = "requires network access"
			}
			dir := filepath.Join(repo, inf.PkgDir)
			td := filepath.Join(dir, "testdata")
			if mirror != "" {
				if _, err := os.Stat(td); err == nil {
					if err := copyTree(td, filepath.Join(mirror, inf.PkgDir, "testdata")); err != nil {
						return nil, err
					}
				}
			}
			cands := map[string]bool{}
			_ = filepath.WalkDir(td, func(p string, d fs.DirEntry, err error) error {
				if err != nil || !d.Type().IsRegular() {
					return nil
				}
				r2, _ := filepath.Rel(dir, p)
				r3, _ := filepath.Rel(td, p)
				inf.Fixtures = append(inf.Fixtures, filepath.ToSlash(r2))
				cands[filepath.ToSlash(r2)] = true
				cands[filepath.ToSlash(r3)] = true
				cands[filepath.Base(p)] = true
				return nil
			})
			for _, s := range testLiterals(dir) {
				cands[s] = true
			}
			for _, s := range extraPaths {
				cands[s] = true
			}
			seen := map[string]bool{}
			for c := range cands {
				p, ok := cleanRel(c)
				if !ok || seen[p] {
					continue
				}
				seen[p] = true
				if accepts(ex, p) {
					inf.Paths = append(inf.Paths, p)
				}
			}
			sort.Slice(inf.Paths, func(i, j int) bool {
				a, b := inf.Paths[i], inf.Paths[j]
				ta, tb := strings.HasPrefix(a, "testdata/"), strings.HasPrefix(b, "testdata/")
				if ta != tb {
					return !ta
				}
				if len(a) != len(b) {
					return len(a) < len(b)
				}
				return a < b
			})
			sort.Strings(inf.Fixtures)
			out = append(out, inf)
		}
	}
	return out, nil
}

// extraPaths are production file names no test literal mentions (the tests call Extract directly).
var extraPaths = []string{"renv.lock", "project/renv.lock"}

func pickPaths(inf *exInfo, n int) []string {
	out := []string{}
	seen := map[string]bool{}
	for _, p := range inf.Paths {
		if strings.HasPrefix(p, "testdata/") {
			continue
		}
		c := pathClass(p)
		if seen[c] {
			continue
		}
		seen[c] = true
		out = append(out, p)
		if len(out) == n {
			break
		}
	}
	return out
}

type runResult struct {
	Pkgs    []*extractor.Package
	Failed  bool // the plugin's status is not "succeeded" (some Extract returned an error)
	Reason  string
	Panic   string
	Timeout bool
}

// runDir runs the REAL filesystem.Run (walk + FileRequired + Extract + Package.Extractor assignment)
// with exactly the given extractors on a real directory.
func runDir(root string, exs []filesystem.Extractor, timeout time.Duration, only ...string) runResult {
	done := make(chan runResult, 1)
	ctx, cancel := context.WithTimeout(context.Background(), timeout)
	go func() {
		var rr runResult
		rr.Panic = Safely(func() {
			inv, st, err := filesystem.Run(ctx, &filesystem.Config{
				Extractors:     exs,
				ScanRoots:      scalibrfs.RealFSScanRoots(root),
				PathsToExtract: only,
				Stats:          stats.NoopCollector{},
			})
			rr.Pkgs = inv.Packages
			if err != nil {
				rr.Failed = true
				rr.Reason = err.Error()
			}
			for _, s := range st {
				if s.Status != nil && s.Status.Status != plugin.ScanStatusSucceeded {
					rr.Failed = true
					rr.Reason = s.Status.FailureReason
				}
			}
		})
		done <- rr
	}()
	select {
	case rr := <-done:
		cancel()
		return rr
	case <-time.After(timeout + 5*time.Second):
		cancel()
		return runResult{Timeout: true}
	}
}

type purlRec struct {
	Type      string      `json:"type"`
	Namespace string      `json:"ns"`
	Name      string      `json:"name"`
	Version   string      `json:"version"`
	Quals     [][2]string `json:"quals"`
	Subpath   string      `json:"subpath"`
}

func projPurl(p *purl.PackageURL) *purlRec {
	if p == nil {
		return nil
	}
	r := &purlRec{Type: p.Type, Namespace: p.Namespace, Name: p.Name, Version: p.Version, Subpath: p.Subpath, Quals: [][2]string{}}
	for _, q := range p.Qualifiers {
		r.Quals = append(r.Quals, [2]string{q.Key, q.Value})
	}
	return r
}

func (r *purlRec) toPurl() *purl.PackageURL {
	if r == nil {
		return nil
	}
	p := &purl.PackageURL{Type: r.Type, Namespace: r.Namespace, Name: r.Name, Version: r.Version, Subpath: r.Subpath}
	for _, q := range r.Quals {
		p.Qualifiers = append(p.Qualifiers, packageurl.Qualifier{Key: q[0], Value: q[1]})
	}
	return p
}

func writeFileAt(root, rel string, data []byte, mode fs.FileMode) error {
	p := filepath.Join(root, rel)
	if err := os.MkdirAll(filepath.Dir(p), 0o755); err != nil {
		return err
	}
	return os.WriteFile(p, data, mode)
}
