// vconv is the conformance binary of the Convert family (C14 pkgfacts, C15 sbomrt).
package main

import "verif/harness/hlib"

func main() { hlib.Main() }
