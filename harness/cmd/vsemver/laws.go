package main

// C07 `laws`: the domain emitted by TLC from spec/VersionOrder.tla (oracle records: a canonical version
// of one family with its rank in the published order; string records: a symbol string with the families
// whose grammar accepts it) is rendered to strings and pushed through the REAL semantic.Parse /
// Version.CompareStr of every supported ecosystem:
//   (1) all strings: Parse / CompareStr never panic; against a core of ~300 strings, whenever both
//       directions are accepted cmp(a,b) = -cmp(b,a), results are in {-1,0,1}, cmp(a,a) = 0;
//   (2) all grammar-valid versions of the ecosystem: the full comparison matrix is a total preorder
//       (checked exactly through rank-representability; a failing pair is reported with a witness triple);
//   (3) all pairs of canonical versions: sign(real cmp) = sign(rank(a) - rank(b)).
// Only violations (with witnesses) and counts are returned.

import (
	"bufio"
	"encoding/json"
	"fmt"
	"math/rand"
	"os"
	"runtime"
	"sort"
	"strconv"
	"strings"
	"sync"
	"sync/atomic"
	"time"

	. "verif/harness/hlib"

	"github.com/google/osv-scalibr/semantic"
)

type tok struct {
	K string `json:"k"`
	C []int  `json:"c"`
}

type domRec struct {
	Eco    string   `json:"eco"`
	Tokens []tok    `json:"tokens"`
	Rank   *int     `json:"rank"`
	Gen    bool     `json:"gen"`
	Fix    bool     `json:"fix"`
	Syms   []tok    `json:"syms"`
	Valid  []string `json:"valid"`
	Canon  []string `json:"canon"`
}

func render(ts []tok) string {
	var b strings.Builder
	for _, t := range ts {
		for _, c := range t.C {
			if t.K == "n" {
				b.WriteByte(byte('0' + c))
			} else {
				b.WriteByte(byte(c))
			}
		}
	}
	return b.String()
}

func isDigit(c byte) bool  { return c >= '0' && c <= '9' }
func isLetter(c byte) bool { return (c >= 'a' && c <= 'z') || (c >= 'A' && c <= 'Z') }

// tokenise is the inverse of render: maximal digit runs, maximal letter runs, single other bytes.
func tokenise(s string) []tok {
	var out []tok
	for i := 0; i < len(s); {
		c := s[i]
		switch {
		case isDigit(c):
			t := tok{K: "n"}
			for i < len(s) && isDigit(s[i]) {
				t.C = append(t.C, int(s[i]-'0'))
				i++
			}
			out = append(out, t)
		case isLetter(c):
			t := tok{K: "a"}
			for i < len(s) && isLetter(s[i]) {
				t.C = append(t.C, int(s[i]))
				i++
			}
			out = append(out, t)
		default:
			out = append(out, tok{K: "s", C: []int{int(c)}})
			i++
		}
	}
	return out
}

func sameToks(a, b []tok) bool {
	if len(a) != len(b) {
		return false
	}
	for i := range a {
		if a[i].K != b[i].K || len(a[i].C) != len(b[i].C) {
			return false
		}
		for j := range a[i].C {
			if a[i].C[j] != b[i].C[j] {
				return false
			}
		}
	}
	return true
}

type ecoDef struct{ name, family string; primary bool }

var ecosystems = []ecoDef{
	{"npm", "semver", true}, {"crates.io", "semver", false}, {"Go", "semver", false}, {"Hex", "semver", false},
	{"Pub", "semver", false}, {"ConanCenter", "semver", false},
	{"Debian", "debian", true}, {"Ubuntu", "debian", false},
	{"PyPI", "pypi", true}, {"Maven", "maven", true}, {"RubyGems", "rubygems", true}, {"Red Hat", "redhat", true},
	{"Alpine", "alpine", true}, {"NuGet", "nuget", true}, {"CRAN", "cran", true}, {"Packagist", "packagist", true},
}

type oracleVer struct {
	s        string
	rank     int
	gen, fix bool
}

type strEntry struct {
	s     string
	nsyms int
	valid map[string]bool
}

type violation struct {
	Kind   string   `json:"kind"` // always "violation"
	Law    string   `json:"law"`
	Eco    string   `json:"eco"`
	Family string   `json:"family"`
	Strs   []string `json:"strs"`
	Detail string   `json:"detail"`
}

type collector struct {
	mu     sync.Mutex
	viol   []violation
	counts map[string]int // eco|law -> total number found (reported ones are capped)
	cap    int
}

func (c *collector) add(v violation) {
	c.mu.Lock()
	defer c.mu.Unlock()
	k := v.Eco + "|" + v.Law
	c.counts[k]++
	if c.counts[k] <= c.cap {
		v.Kind = "violation"
		c.viol = append(c.viol, v)
	}
}

func sgn(x int) int {
	if x < 0 {
		return -1
	}
	if x > 0 {
		return 1
	}
	return 0
}

// cmpSafe runs the real comparison a ? b; ok=false when Parse or CompareStr returned an error.
func cmpSafe(eco, a, b string) (r int, ok bool, panicked string) {
	panicked = Safely(func() {
		v, err := semantic.Parse(a, eco)
		if err != nil {
			return
		}
		x, err := v.CompareStr(b)
		if err != nil {
			return
		}
		r, ok = x, true
	})
	return
}

func parallelFor(n, workers int, f func(i int)) {
	var next int64 = -1
	var wg sync.WaitGroup
	for w := 0; w < workers; w++ {
		wg.Add(1)
		go func() {
			defer wg.Done()
			for {
				i := int(atomic.AddInt64(&next, 1))
				if i >= n {
					return
				}
				f(i)
			}
		}()
	}
	wg.Wait()
}

func loadDomain(path string) (map[string][]oracleVer, []strEntry, error) {
	f, err := os.Open(path)
	if err != nil {
		return nil, nil, err
	}
	defer f.Close()
	sc := bufio.NewScanner(f)
	sc.Buffer(make([]byte, 1<<20), 1<<26)
	oracle := map[string][]oracleVer{}
	seenO := map[string]bool{}
	strIdx := map[string]int{}
	var strs []strEntry
	line := 0
	for sc.Scan() {
		line++
		b := sc.Bytes()
		if len(b) == 0 {
			continue
		}
		var r domRec
		if err := json.Unmarshal(b, &r); err != nil {
			return nil, nil, fmt.Errorf("line %d: %w", line, err)
		}
		if r.Rank != nil {
			s := render(r.Tokens)
			if !sameToks(tokenise(s), r.Tokens) {
				return nil, nil, fmt.Errorf("line %d: token sequence of %q is not the maximal-run tokenisation (model error)", line, s)
			}
			k := r.Eco + "\x00" + s
			if seenO[k] {
				continue
			}
			seenO[k] = true
			oracle[r.Eco] = append(oracle[r.Eco], oracleVer{s, *r.Rank, r.Gen, r.Fix})
			continue
		}
		s := render(r.Syms)
		i, ok := strIdx[s]
		if !ok {
			i = len(strs)
			strIdx[s] = i
			strs = append(strs, strEntry{s: s, nsyms: len(r.Syms), valid: map[string]bool{}})
		}
		if len(r.Syms) < strs[i].nsyms {
			strs[i].nsyms = len(r.Syms)
		}
		for _, e := range r.Valid {
			strs[i].valid[e] = true
		}
	}
	if sc.Err() != nil {
		return nil, nil, sc.Err()
	}
	if _, ok := strIdx[""]; !ok {
		strs = append(strs, strEntry{s: "", nsyms: 0, valid: map[string]bool{}})
	}
	for _, v := range oracle {
		sort.Slice(v, func(i, j int) bool { return v[i].s < v[j].s })
	}
	sort.Slice(strs, func(i, j int) bool { return strs[i].s < strs[j].s })
	return oracle, strs, nil
}

type ecoSummary struct {
	Kind          string         `json:"kind"` // "summary"
	Eco           string         `json:"eco"`
	Family        string         `json:"family"`
	Strings       int            `json:"strings"`
	Core          int            `json:"core"`
	ParseRejected int            `json:"parse_rejected"`
	StringCmps    int64          `json:"string_cmps"`
	LawPairs      int64          `json:"law_pairs"` // pairs where both directions were accepted
	NonZeroPairs  int64          `json:"nonzero_pairs"`
	ValidN        int            `json:"valid_n"`
	ValidRejected int            `json:"valid_rejected"`
	MatrixCmps    int64          `json:"matrix_cmps"`
	Triples       int64          `json:"triples"`
	CanonN        int            `json:"canon_n"`
	CanonPairs    int64          `json:"canon_pairs"`
	CanonStrict   int64          `json:"canon_strict_pairs"`
	Classes       int            `json:"order_classes"`
	Found         map[string]int `json:"found"`
	Samples       []string       `json:"samples"`
}

func init() {
	Register("laws", func(e *Env) error {
		seed, _ := strconv.ParseInt(e.Args["seed"], 10, 64)
		maxValid, _ := strconv.Atoi(e.Args["maxvalid"])
		if maxValid <= 0 {
			maxValid = 900
		}
		aliasSyms, _ := strconv.Atoi(e.Args["aliassyms"])
		if aliasSyms <= 0 {
			aliasSyms = 3
		}
		fullCoreSyms, _ := strconv.Atoi(e.Args["fullcoresyms"])
		if fullCoreSyms <= 0 {
			fullCoreSyms = 4
		}
		bigSample, _ := strconv.Atoi(e.Args["bigsample"])
		if bigSample <= 0 {
			bigSample = 4
		}
		only := e.Args["only"] // optional: a single ecosystem name (replay)
		workers := e.Workers
		if workers < 1 {
			workers = runtime.NumCPU()
		}
		oracle, strs, err := loadDomain(e.In)
		if err != nil {
			return err
		}
		col := &collector{counts: map[string]int{}, cap: 400}
		var sums []ecoSummary
		for _, ed := range ecosystems {
			if only != "" && only != ed.name {
				continue
			}
			t0 := time.Now()
			sums = append(sums, runEco(ed, oracle[ed.family], strs, col, seed, workers, maxValid, aliasSyms, fullCoreSyms, bigSample))
			if e.Args["timing"] != "" {
				fmt.Fprintf(os.Stderr, "[laws] %s: %.1fs\n", ed.name, time.Since(t0).Seconds())
			}
		}
		out, err := os.Create(e.Out)
		if err != nil {
			return err
		}
		defer out.Close()
		w := bufio.NewWriter(out)
		defer w.Flush()
		enc := json.NewEncoder(w)
		for i := range sums {
			sums[i].Found = map[string]int{}
			for k, n := range col.counts {
				if strings.HasPrefix(k, sums[i].Eco+"|") {
					sums[i].Found[strings.TrimPrefix(k, sums[i].Eco+"|")] = n
				}
			}
			if err := enc.Encode(sums[i]); err != nil {
				return err
			}
		}
		for _, v := range col.viol {
			if err := enc.Encode(v); err != nil {
				return err
			}
		}
		return nil
	})
}

func fnv32(s string, seed int64) uint32 {
	h := uint32(2166136261) ^ uint32(seed*2654435761)
	for i := 0; i < len(s); i++ {
		h = (h ^ uint32(s[i])) * 16777619
	}
	return h
}

func runEco(ed ecoDef, ov []oracleVer, strs []strEntry, col *collector, seed int64, workers, maxValid, aliasSyms, fullCoreSyms, bigSample int) ecoSummary {
	eco := ed.name
	sum := ecoSummary{Kind: "summary", Eco: eco, Family: ed.family}
	rng := rand.New(rand.NewSource(seed*1000003 + int64(len(eco))*7919 + int64(eco[0])))
	add := func(law string, detail string, ss ...string) {
		col.add(violation{Law: law, Eco: eco, Family: ed.family, Strs: ss, Detail: detail})
	}

	// ---- (1) totality, antisymmetry, reflexivity on the arbitrary-string domain ----
	var coreFull, coreSmall, coreTiny []string
	for _, s := range strs {
		if s.nsyms <= 2 {
			coreFull = append(coreFull, s.s)
		}
		if s.nsyms <= 1 {
			coreSmall = append(coreSmall, s.s)
			coreTiny = append(coreTiny, s.s)
		}
	}
	if len(ov) > 0 {
		for _, i := range rng.Perm(len(ov))[:min(40, len(ov))] {
			coreFull = append(coreFull, ov[i].s)
			coreSmall = append(coreSmall, ov[i].s)
		}
	}
	sum.Core = len(coreFull)
	var dom []strEntry
	for _, s := range strs {
		if ed.primary || s.nsyms <= aliasSyms {
			dom = append(dom, s)
		}
	}
	// "any input": the same short strings with their ASCII digits / letters replaced by non-ASCII digits
	// (Arabic-Indic, fullwidth, superscript) and letters; only no-panic, reflexivity and antisymmetry apply
	uni := strings.NewReplacer("0", "\u0660", "1", "\uff11", "2", "\u0662", "9", "\u00b2", "a", "\u00e9", "r", "\u0440")
	seenUni := map[string]bool{}
	for _, s := range strs {
		if s.nsyms > 3 {
			continue
		}
		for _, v := range []string{uni.Replace(s.s), s.s + "\u0663", "1." + uni.Replace(s.s) + ".3"} {
			if v != s.s && !seenUni[v] {
				seenUni[v] = true
				dom = append(dom, strEntry{s: v, nsyms: s.nsyms})
			}
		}
	}
	sum.Strings = len(dom)
	var cmps, lawPairs, nonZero, rejected int64
	parallelFor(len(dom), workers, func(i int) {
		a := dom[i].s
		core := coreFull
		if !ed.primary {
			core = coreSmall // aliases run the same function as their family's primary ecosystem
		}
		if dom[i].nsyms > fullCoreSyms {
			// the longest strings: Parse and cmp(a,a) for all of them, the pairwise laws for a seeded 1/bigSample
			core = nil
			if fnv32(a, seed)%uint32(bigSample) == 0 {
				core = coreTiny
			}
		}
		var lc, lp, nz int64
		// fast path: one recover for the whole row; on a panic the row is redone pair by pair
		fast := Safely(func() {
			va, err := semantic.Parse(a, eco)
			if err != nil {
				atomic.AddInt64(&rejected, 1)
				return
			}
			if r, err := va.CompareStr(a); err == nil {
				lc++
				if r != 0 {
					add("reflexivity", fmt.Sprintf("cmp(a,a) = %d", r), a)
				}
			}
			for _, b := range core {
				r1, e1 := va.CompareStr(b)
				lc++
				vb, err := semantic.Parse(b, eco)
				if err != nil {
					continue
				}
				r2, e2 := vb.CompareStr(a)
				lc++
				if e1 != nil || e2 != nil {
					continue
				}
				lp++
				if r1 != 0 {
					nz++
				}
				if r1 < -1 || r1 > 1 || r2 < -1 || r2 > 1 {
					add("range", fmt.Sprintf("cmp(a,b) = %d, cmp(b,a) = %d", r1, r2), a, b)
				} else if r1 != -r2 {
					add("antisymmetry", fmt.Sprintf("cmp(a,b) = %d but cmp(b,a) = %d", r1, r2), a, b)
				}
			}
		})
		if fast != "" {
			if p := Safely(func() { _, _ = semantic.Parse(a, eco) }); p != "" {
				add("panic-parse", firstLines(p, 6), a)
			} else {
				for _, b := range append([]string{a}, core...) {
					if _, _, p := cmpSafe(eco, a, b); p != "" {
						add("panic-compare", firstLines(p, 6), a, b)
					}
					if _, _, p := cmpSafe(eco, b, a); p != "" {
						add("panic-compare", firstLines(p, 6), b, a)
					}
				}
			}
		}
		atomic.AddInt64(&cmps, lc)
		atomic.AddInt64(&lawPairs, lp)
		atomic.AddInt64(&nonZero, nz)
	})
	sum.StringCmps, sum.LawPairs, sum.NonZeroPairs, sum.ParseRejected = cmps, lawPairs, nonZero, int(rejected)

	// ---- (2) total preorder on the grammar-valid versions ----
	type gv struct {
		s     string
		canon bool
		rank  int
	}
	var g []gv
	seen := map[string]bool{}
	for _, o := range ov {
		g = append(g, gv{o.s, true, o.rank})
		seen[o.s] = true
	}
	sum.CanonN = len(g)
	var extra []string
	for _, s := range strs {
		if ed.primary && s.valid[ed.family] && !seen[s.s] {
			extra = append(extra, s.s)
		}
	}
	if len(g)+len(extra) > maxValid {
		keep := max(0, maxValid-len(g))
		// always keep the shortest strings, sample the rest
		sort.SliceStable(extra, func(i, j int) bool { return len(extra[i]) < len(extra[j]) })
		head := extra[:min(len(extra), keep/2)]
		tail := extra[len(head):]
		rng.Shuffle(len(tail), func(i, j int) { tail[i], tail[j] = tail[j], tail[i] })
		extra = append(append([]string{}, head...), tail[:min(len(tail), keep-len(head))]...)
	}
	for _, s := range extra {
		g = append(g, gv{s: s})
	}
	// versions the real parser rejects take no part in the laws; a rejected CANONICAL version is reported
	accepted := g[:0:0]
	for _, v := range g {
		_, ok, p := cmpSafe(eco, v.s, v.s)
		if p != "" {
			add("panic-compare", firstLines(p, 6), v.s, v.s)
			continue
		}
		if !ok {
			sum.ValidRejected++
			if v.canon {
				add("rejects-canonical", "Parse/CompareStr returns an error for a canonical version", v.s)
			}
			continue
		}
		accepted = append(accepted, v)
	}
	g = accepted
	n := len(g)
	sum.ValidN = n
	M := make([][]int8, n)
	bad := make([][]bool, n) // comparison returned an error / panicked
	parallelFor(n, workers, func(i int) {
		M[i] = make([]int8, n)
		bad[i] = make([]bool, n)
		row := Safely(func() {
			va, err := semantic.Parse(g[i].s, eco)
			if err != nil {
				for j := range bad[i] {
					bad[i][j] = true
				}
				return
			}
			for j := 0; j < n; j++ {
				r, err := va.CompareStr(g[j].s)
				if err != nil {
					bad[i][j] = true
					continue
				}
				if r < -1 || r > 1 {
					add("range", fmt.Sprintf("cmp(a,b) = %d", r), g[i].s, g[j].s)
					r = sgn(r)
				}
				M[i][j] = int8(r)
			}
		})
		if row != "" {
			for j := 0; j < n; j++ {
				r, ok, p := cmpSafe(eco, g[i].s, g[j].s)
				if p != "" {
					add("panic-compare", firstLines(p, 6), g[i].s, g[j].s)
				}
				bad[i][j] = !ok
				M[i][j] = int8(sgn(r))
			}
		}
	})
	sum.MatrixCmps = int64(n) * int64(n)
	for i := 0; i < n; i++ {
		for j := 0; j < n; j++ {
			if bad[i][j] {
				add("compare-error", "CompareStr returns an error although both versions parse and compare with themselves", g[i].s, g[j].s)
			}
		}
	}
	rank := make([]int, n)
	for i := 0; i < n; i++ {
		if !bad[i][i] && M[i][i] != 0 {
			add("reflexivity", fmt.Sprintf("cmp(a,a) = %d", M[i][i]), g[i].s)
		}
		for j := 0; j < n; j++ {
			if M[j][i] < 0 && !bad[j][i] {
				rank[i]++
			}
		}
	}
	leq := func(i, j int) bool { return M[i][j] <= 0 }
	classes := map[int]bool{}
	for i := 0; i < n; i++ {
		classes[rank[i]] = true
		for j := i + 1; j < n; j++ {
			if bad[i][j] || bad[j][i] {
				continue
			}
			if M[i][j] != -M[j][i] {
				add("antisymmetry", fmt.Sprintf("cmp(a,b) = %d but cmp(b,a) = %d", M[i][j], M[j][i]), g[i].s, g[j].s)
				continue
			}
			if int(M[i][j]) == sgn(rank[i]-rank[j]) {
				continue
			}
			// not representable by a rank: there is a triple breaking transitivity through i or j
			found := false
			for k := 0; k < n && !found; k++ {
				for _, p := range [][3]int{{i, j, k}, {i, k, j}, {j, i, k}, {j, k, i}, {k, i, j}, {k, j, i}} {
					a, b, c := p[0], p[1], p[2]
					if bad[a][b] || bad[b][c] || bad[a][c] {
						continue
					}
					if leq(a, b) && leq(b, c) && !leq(a, c) {
						law := "transitivity"
						if M[a][b] == 0 || M[b][c] == 0 {
							law = "equality-not-equivalence"
						}
						add(law, fmt.Sprintf("cmp(a,b) = %d, cmp(b,c) = %d, but cmp(a,c) = %d", M[a][b], M[b][c], M[a][c]), g[a].s, g[b].s, g[c].s)
						found = true
						break
					}
				}
			}
			if !found {
				add("transitivity", "comparison matrix is not a total preorder (no rank function), no witness triple found", g[i].s, g[j].s)
			}
		}
	}
	sum.Triples = int64(n) * int64(n) * int64(n)
	sum.Classes = len(classes)

	// ---- (3) agreement with the published order on canonical versions ----
	for i := 0; i < n; i++ {
		if !g[i].canon {
			continue
		}
		for j := 0; j < n; j++ {
			if !g[j].canon || bad[i][j] {
				continue
			}
			sum.CanonPairs++
			want := sgn(g[i].rank - g[j].rank)
			if want != 0 {
				sum.CanonStrict++
			}
			if int(M[i][j]) != want && i < j {
				add("oracle-disagreement", fmt.Sprintf("published order says cmp(a,b) = %d, the code says %d (and %d for cmp(b,a))", want, M[i][j], M[j][i]), g[i].s, g[j].s)
			}
		}
	}
	for _, i := range rng.Perm(n)[:min(4, n)] {
		sum.Samples = append(sum.Samples, g[i].s)
	}
	return sum
}

func firstLines(s string, n int) string {
	parts := strings.SplitN(s, "\n", n+1)
	if len(parts) > n {
		parts = parts[:n]
	}
	return strings.Join(parts, "\n")
}
