package main

// C07 `fixtures`: validates the ORACLE (ranks computed by TLC from spec/VersionOrder.tla) against the
// upstream-derived comparison tables in /repo/semantic/testdata, so that an oracle bug cannot masquerade as
// a finding.  Each input line is one table row "a op b" whose two versions lie in the oracle domain, with
// their ranks.  The row is also run through the real code (three-way comparison table / oracle / code).

import (
	"encoding/json"

	. "verif/harness/hlib"
)

type fixRow struct {
	Family string `json:"family"`
	Eco    string `json:"eco"`
	A      string `json:"a"`
	Op     string `json:"op"`
	B      string `json:"b"`
	RA     int    `json:"ra"`
	RB     int    `json:"rb"`
}

func init() {
	Register("fixtures", func(e *Env) error {
		return MapCases(e, func(idx int, raw []byte) (any, error) {
			var r fixRow
			if err := json.Unmarshal(raw, &r); err != nil {
				return nil, err
			}
			want := map[string]int{"<": -1, "=": 0, ">": 1}[r.Op]
			res := map[string]any{"i": idx, "table": want, "oracle": sgn(r.RA - r.RB)}
			c, ok, p := cmpSafe(r.Eco, r.A, r.B)
			switch {
			case p != "":
				res["real"] = "panic: " + firstLines(p, 3)
			case !ok:
				res["real"] = "error"
			default:
				res["real"] = c
			}
			return res, nil
		})
	})
}
