// Command vsemver is the conformance binary of the version-ordering family (C07).
package main

import "verif/harness/hlib"

func main() { hlib.Main() }
