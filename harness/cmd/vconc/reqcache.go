package main

// C16(b): binding of ReqCache.tla to clients/datasource.RequestCache.
//  reqcache        replay (A): steps the real cache through a TLC behaviour, one critical section at a
//                  time, using hook H1 as gates, and compares fetch counts / cache map / return values
//                  with the specification's state after every step.
//  reqcache-trace  trace recording (B): ungated stress runs; every linearization point is logged with a
//                  sequence number taken under the cache mutex (or at the goroutine-local event) for
//                  validation by ReqCacheTrace.tla.

import (
	"bytes"
	"encoding/json"
	"errors"
	"fmt"
	"math/rand"
	"os"
	"runtime"
	"strconv"
	"strings"
	"sync"
	"sync/atomic"
	"time"
	. "verif/harness/hlib"

	"github.com/google/osv-scalibr/clients/datasource"
)

func goid() int64 {
	var buf [64]byte
	n := runtime.Stack(buf[:], false)
	// "goroutine 123 [running]:..."
	b := buf[:n]
	b = bytes.TrimPrefix(b, []byte("goroutine "))
	i := bytes.IndexByte(b, ' ')
	id, _ := strconv.ParseInt(string(b[:i]), 10, 64)
	return id
}

type rcEvent struct {
	g                int
	point            string
	key              string
	inCache, inCalls bool
	size             int
}

type rcSession struct {
	cache       *datasource.RequestCache[string, int]
	goids       sync.Map // goid -> g
	events      chan rcEvent
	gates       sync.Map // g -> chan string
	results     chan rcResult
	gated       bool
	pendingWait map[int]bool // g -> its "wait.ret" arrival was already consumed
	// trace mode
	seq   atomic.Int64
	tmu   sync.Mutex
	trace []map[string]any
}

type rcResult struct {
	g   int
	val int
	err error
}

var rcSessions sync.Map // *RequestCache -> *rcSession
var rcHookOnce sync.Once

func rcInstallHook() {
	rcHookOnce.Do(func() {
		datasource.VerifHook = func(cache any, point string, key any, inCache, inCalls bool, size int) {
			sv, ok := rcSessions.Load(cache)
			if !ok {
				return
			}
			s := sv.(*rcSession)
			gv, ok := s.goids.Load(goid())
			g := -1
			if ok {
				g = gv.(int)
			}
			k, _ := key.(string)
			if s.gated {
				if point == "setmap" {
					return
				}
				ev := rcEvent{g, point, k, inCache, inCalls, size}
				switch point {
				case "get.enter", "cs2.enter", "wait.ret":
					s.events <- ev
					s.waitGate(g)
				default:
					s.events <- ev
				}
				return
			}
			// trace mode: sequence number at the linearization point
			switch point {
			case "cs2.enter":
				return
			}
			s.log(map[string]any{"g": g, "ev": point, "k": k, "inCache": inCache, "inCalls": inCalls, "size": size})
		}
	})
}

func (s *rcSession) log(m map[string]any) {
	s.tmu.Lock()
	m["seq"] = s.seq.Add(1)
	s.trace = append(s.trace, m)
	s.tmu.Unlock()
}

func (s *rcSession) gate(g int) chan string {
	c, _ := s.gates.LoadOrStore(g, make(chan string, 1))
	return c.(chan string)
}
func (s *rcSession) waitGate(g int) string      { return <-s.gate(g) }
func (s *rcSession) release(g int, what string) { s.gate(g) <- what }

var errFetch = errors.New("fetch failed")

type rcStep struct {
	G   json.RawMessage `json:"g"`
	A   string          `json:"a"`
	Arg json.RawMessage `json:"arg"`
	Obs struct {
		Fetches map[string]int `json:"fetches"`
		Cache   map[string]int `json:"cache"`
		Ret     []any          `json:"ret"`
	} `json:"obs"`
}

// how long a goroutine may take to reach its next hook before the behaviour counts as stuck; a stuck verdict is
// confirmed by the orchestrator in a second, sequential run with VERIF_RC_TIMEOUT_MS = 60000 (a loaded machine
// must not look like a deadlock)
var rcTimeout = func() time.Duration {
	if v := os.Getenv("VERIF_RC_TIMEOUT_MS"); v != "" {
		var ms int
		if _, err := fmt.Sscanf(v, "%d", &ms); err == nil && ms > 0 {
			return time.Duration(ms) * time.Millisecond
		}
	}
	return 5 * time.Second
}()

func (s *rcSession) awaitEvent(g int, points ...string) (rcEvent, error) {
	t := time.NewTimer(rcTimeout)
	defer t.Stop()
	for {
		select {
		case ev := <-s.events:
			if ev.g != g && ev.point == "wait.ret" {
				// a waiter woke up asynchronously after its leader's commit; it now sits at its gate
				s.pendingWait[ev.g] = true
				continue
			}
			if ev.g != g {
				return ev, fmt.Errorf("unexpected event %q from g%d while waiting for g%d %v", ev.point, ev.g, g, points)
			}
			for _, p := range points {
				if ev.point == p {
					return ev, nil
				}
			}
			return ev, fmt.Errorf("g%d reached %q, specification expects one of %v", g, ev.point, points)
		case <-t.C:
			return rcEvent{}, fmt.Errorf("g%d did not reach %v within %v (stuck)", g, points, rcTimeout)
		}
	}
}

func (s *rcSession) awaitResult(g int) (rcResult, error) {
	t := time.NewTimer(rcTimeout)
	defer t.Stop()
	select {
	case r := <-s.results:
		if r.g != g {
			return r, fmt.Errorf("Get of g%d returned while waiting for g%d", r.g, g)
		}
		return r, nil
	case <-t.C:
		return rcResult{}, fmt.Errorf("Get of g%d did not return within %v", g, rcTimeout)
	}
}

var rcStuck atomic.Int64

const maxRcStuck = 12

// replayReqCache returns "" if the real cache follows the behaviour, else a description.
func replayReqCache(steps []rcStep) string {
	rcInstallHook()
	s := &rcSession{cache: datasource.NewRequestCache[string, int](), events: make(chan rcEvent, 64), results: make(chan rcResult, 16), gated: true}
	rcSessions.Store(any(s.cache), s)
	defer rcSessions.Delete(any(s.cache))
	fetches := map[string]int{}
	var fmu sync.Mutex
	leadCount := 0
	callOf := map[int]int{}
	s.pendingWait = map[int]bool{}
	pendingWait := s.pendingWait
	for si, st := range steps {
		fail := func(f string, a ...any) string {
			return fmt.Sprintf("step %d (%s %s %s): ", si+1, st.G, st.A, st.Arg) + fmt.Sprintf(f, a...)
		}
		var g int
		if st.A != "setmap" {
			if err := json.Unmarshal(st.G, &g); err != nil {
				return fail("bad g: %v", err)
			}
		}
		var gotRet *rcResult
		switch st.A {
		case "enter":
			var k string
			_ = json.Unmarshal(st.Arg, &k)
			gg := g
			started := make(chan struct{})
			go func() {
				s.goids.Store(goid(), gg)
				close(started)
				v, err := s.cache.Get(k, func() (int, error) {
					s.events <- rcEvent{g: gg, point: "fn.enter", key: k}
					s.waitGate(gg)
					fmu.Lock()
					fetches[k]++
					fmu.Unlock()
					s.events <- rcEvent{g: gg, point: "fn.run", key: k}
					out := s.waitGate(gg)
					fmu.Lock()
					id := callOf[gg]
					fmu.Unlock()
					if out == "ok" {
						return id, nil
					}
					return id, errFetch
				})
				s.results <- rcResult{gg, v, err}
			}()
			<-started
			if _, err := s.awaitEvent(g, "get.enter"); err != nil {
				return fail("%v", err)
			}
		case "cs1":
			var want string
			_ = json.Unmarshal(st.Arg, &want)
			s.release(g, "go")
			ev, err := s.awaitEvent(g, "cs1.hit", "cs1.wait", "cs1.lead")
			if err != nil {
				return fail("%v", err)
			}
			if ev.point != "cs1."+want {
				return fail("real cache took branch %s, specification says %s", ev.point, want)
			}
			switch want {
			case "hit":
				r, err := s.awaitResult(g)
				if err != nil {
					return fail("%v", err)
				}
				gotRet = &r
			case "lead":
				fmu.Lock()
				leadCount++
				callOf[g] = leadCount
				fmu.Unlock()
				if _, err := s.awaitEvent(g, "fn.enter"); err != nil {
					return fail("%v", err)
				}
			}
		case "fnstart":
			s.release(g, "go")
			if _, err := s.awaitEvent(g, "fn.run"); err != nil {
				return fail("%v", err)
			}
		case "fnret":
			var out string
			_ = json.Unmarshal(st.Arg, &out)
			s.release(g, out)
			if _, err := s.awaitEvent(g, "cs2.enter"); err != nil {
				return fail("%v", err)
			}
		case "cs2":
			s.release(g, "go")
			if _, err := s.awaitEvent(g, "cs2.begin"); err != nil {
				return fail("%v", err)
			}
			if _, err := s.awaitEvent(g, "cs2.commit"); err != nil {
				return fail("%v", err)
			}
			r, err := s.awaitResult(g)
			if err != nil {
				return fail("%v", err)
			}
			gotRet = &r
		case "waitret":
			if !pendingWait[g] {
				if _, err := s.awaitEvent(g, "wait.ret"); err != nil {
					return fail("%v", err)
				}
			}
			delete(pendingWait, g)
			s.release(g, "go")
			r, err := s.awaitResult(g)
			if err != nil {
				return fail("%v", err)
			}
			gotRet = &r
		case "setmap":
			var m map[string]int
			_ = json.Unmarshal(st.Arg, &m)
			mm := map[string]int{}
			for k, v := range m {
				if v != 0 {
					mm[k] = v
				}
			}
			s.cache.SetMap(mm)
		default:
			return fail("unknown action")
		}
		// compare projected state with the specification's
		fmu.Lock()
		for k, n := range st.Obs.Fetches {
			if fetches[k] != n {
				fmu.Unlock()
				return fail("fetch function invoked %d times for %s, specification says %d", fetches[k], k, n)
			}
		}
		fmu.Unlock()
		m := s.cache.GetMap()
		for k, v := range st.Obs.Cache {
			got, ok := m[k]
			if v == 0 && ok {
				return fail("cache holds %s=%d, specification says absent", k, got)
			}
			if v != 0 && (!ok || got != v) {
				return fail("cache[%s]=%d (present=%v), specification says %d", k, got, ok, v)
			}
		}
		if len(st.Obs.Ret) == 2 {
			if gotRet == nil {
				return fail("specification says Get returned, harness saw no return")
			}
			wantOK, _ := st.Obs.Ret[0].(bool)
			wantVal, _ := st.Obs.Ret[1].(float64)
			if (gotRet.err == nil) != wantOK || gotRet.val != int(wantVal) {
				return fail("Get returned (%d, err=%v), specification says (ok=%v, val=%d)", gotRet.val, gotRet.err, wantOK, int(wantVal))
			}
		}
	}
	return ""
}

func init() {
	Register("reqcache", func(e *Env) error {
		return MapCases(e, func(idx int, raw []byte) (any, error) {
			var c struct {
				Steps []rcStep `json:"steps"`
			}
			if err := json.Unmarshal(raw, &c); err != nil {
				return nil, err
			}
			var msg string
			if rcStuck.Load() >= maxRcStuck {
				// enough behaviours got stuck: the rest is not waited for (each costs the full timeout)
				return map[string]any{"i": idx, "mismatch": "", "skipped": true}, nil
			}
			if p := Safely(func() { msg = replayReqCache(c.Steps) }); p != "" {
				msg = "panic: " + p
			}
			if strings.Contains(msg, "(stuck)") || strings.Contains(msg, "did not return within") {
				rcStuck.Add(1)
			}
			return map[string]any{"i": idx, "mismatch": msg}, nil
		})
	})
	Register("reqcache-trace", rcTraceCmd)
}

// rcTraceCmd runs ungated stress executions and writes one ndjson trace (all runs concatenated, each
// starting with a "reset" event) to e.Out.
func rcTraceCmd(e *Env) error {
	rcInstallHook()
	seed, _ := strconv.ParseInt(e.Args["seed"], 10, 64)
	runs, _ := strconv.Atoi(e.Args["runs"])
	if runs == 0 {
		runs = 50
	}
	ng, _ := strconv.Atoi(e.Args["g"])
	if ng == 0 {
		ng = 8
	}
	nk, _ := strconv.Atoi(e.Args["k"])
	if nk == 0 {
		nk = 3
	}
	ncalls, _ := strconv.Atoi(e.Args["calls"])
	if ncalls == 0 {
		ncalls = 4
	}
	out, err := os.Create(e.Out)
	if err != nil {
		return err
	}
	defer out.Close()
	enc := json.NewEncoder(out)
	rng := rand.New(rand.NewSource(seed))
	for r := 0; r < runs; r++ {
		s := &rcSession{cache: datasource.NewRequestCache[string, int]()}
		rcSessions.Store(any(s.cache), s)
		var wg sync.WaitGroup
		var fetchID atomic.Int64
		seeds := make([]int64, ng+1)
		for i := range seeds {
			seeds[i] = rng.Int63()
		}
		for g := 1; g <= ng; g++ {
			wg.Add(1)
			go func(g int) {
				defer wg.Done()
				s.goids.Store(goid(), g)
				lr := rand.New(rand.NewSource(seeds[g]))
				for c := 0; c < ncalls; c++ {
					k := fmt.Sprintf("k%d", 1+lr.Intn(nk))
					ok := lr.Intn(3) != 0
					delay := time.Duration(lr.Intn(200)) * time.Microsecond
					s.log(map[string]any{"g": g, "ev": "enter", "k": k})
					v, err := s.cache.Get(k, func() (int, error) {
						s.log(map[string]any{"g": g, "ev": "fn.start", "k": k})
						time.Sleep(delay)
						id := int(fetchID.Add(1))
						s.log(map[string]any{"g": g, "ev": "fn.ret", "k": k, "ok": ok, "val": id})
						if ok {
							return id, nil
						}
						return id, errFetch
					})
					s.log(map[string]any{"g": g, "ev": "return", "k": k, "ok": err == nil, "val": v})
					if lr.Intn(4) == 0 {
						runtime.Gosched()
					}
				}
			}(g)
		}
		// environment: occasional SetMap
		wg.Add(1)
		go func() {
			defer wg.Done()
			lr := rand.New(rand.NewSource(seeds[0]))
			for i := 0; i < 2; i++ {
				time.Sleep(time.Duration(lr.Intn(300)) * time.Microsecond)
				if lr.Intn(2) == 0 {
					s.cache.SetMap(map[string]int{})
				} else {
					s.cache.SetMap(map[string]int{"k1": 1000})
				}
			}
		}()
		// a run that does not finish is a verdict of its own (exit status 3), not something to wait for
		finished := make(chan struct{})
		go func() { wg.Wait(); close(finished) }()
		select {
		case <-finished:
		case <-time.After(60 * time.Second):
			fmt.Fprintf(os.Stderr, "STRESS-RUN-HUNG: run %d (seed %d, %d goroutines, %d keys) did not finish within 60 s\n", r, seed, ng, nk)
			out.Close()
			os.Exit(3)
		}
		final := s.cache.GetMap()
		rcSessions.Delete(any(s.cache))
		enc.Encode(map[string]any{"ev": "reset", "g": 0, "ng": ng, "run": r})
		for _, m := range s.trace {
			enc.Encode(m)
		}
		enc.Encode(map[string]any{"ev": "final", "g": 0, "cache": final})
	}
	return nil
}
