package main

// Binding for LazyClient.tla (C16): several goroutines make the very first lookups on a fresh CombinedNativeClient at
// the same time, for one Maven package, against a local registry; the registry counts how often the key is fetched.
// One ndjson record per trial; the orchestrator requires OneFetchPerKey on every one of them.

import (
	"context"
	"fmt"
	"net/http"
	"net/http/httptest"
	"os"
	"strconv"
	"sync"
	"sync/atomic"

	"deps.dev/util/resolve"
	"encoding/json"
	"github.com/google/osv-scalibr/clients/resolution"
	. "verif/harness/hlib"
)

const lcMetadata = `<?xml version="1.0" encoding="UTF-8"?>
<metadata>
  <groupId>org.example</groupId>
  <artifactId>foo</artifactId>
  <versioning>
    <latest>2.0.0</latest>
    <release>2.0.0</release>
    <versions>
      <version>1.0.0</version>
      <version>2.0.0</version>
    </versions>
  </versioning>
</metadata>
`

func init() {
	Register("lazyclient", func(e *Env) error {
		Quiet()
		trials, _ := strconv.Atoi(e.Args["trials"])
		if trials == 0 {
			trials = 300
		}
		callers, _ := strconv.Atoi(e.Args["g"])
		if callers == 0 {
			callers = 4
		}
		var hits atomic.Int32
		srv := httptest.NewServer(http.HandlerFunc(func(w http.ResponseWriter, r *http.Request) {
			if r.URL.Path != "/org/example/foo/maven-metadata.xml" {
				http.NotFound(w, r)
				return
			}
			hits.Add(1)
			_, _ = w.Write([]byte(lcMetadata))
		}))
		defer srv.Close()
		out, err := os.Create(e.Out)
		if err != nil {
			return err
		}
		defer out.Close()
		enc := json.NewEncoder(out)
		pk := resolve.PackageKey{System: resolve.Maven, Name: "org.example:foo"}
		for trial := 0; trial < trials; trial++ {
			hits.Store(0)
			cl, err := resolution.NewCombinedNativeClient(resolution.CombinedNativeClientOptions{MavenRegistry: srv.URL})
			if err != nil {
				return err
			}
			start := make(chan struct{})
			var wg sync.WaitGroup
			var failed atomic.Int32
			var firstErr atomic.Value
			for g := 0; g < callers; g++ {
				wg.Add(1)
				go func() {
					defer wg.Done()
					<-start
					vers, err := cl.Versions(context.Background(), pk)
					if err != nil || len(vers) != 2 {
						failed.Add(1)
						firstErr.CompareAndSwap(nil, fmt.Sprintf("%d versions, err %v", len(vers), err))
					}
				}()
			}
			close(start)
			wg.Wait()
			n := hits.Load()
			_, lerr := cl.Versions(context.Background(), pk)
			again := hits.Load() - n
			rec := map[string]any{"i": trial, "callers": callers, "fetches": n, "failed": failed.Load(), "refetch_after": again, "late_err": fmt.Sprint(lerr)}
			if v := firstErr.Load(); v != nil {
				rec["err"] = v
			}
			if err := enc.Encode(rec); err != nil {
				return err
			}
		}
		return nil
	})
}
