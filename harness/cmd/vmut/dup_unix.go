package main

import "syscall"

// mustDup duplicates fd; redirectFD makes fd `to` an alias of fd `from`.
func mustDup(fd int) int {
	n, err := syscall.Dup(fd)
	if err != nil {
		panic(err)
	}
	syscall.CloseOnExec(n)
	return n
}

func redirectFD(from, to int) {
	if err := syscall.Dup3(from, to, 0); err != nil {
		panic(err)
	}
}
