package main

import (
	"context"
	"errors"
	"io/fs"
	"os"
	"path/filepath"
	"sort"
	"sync"
	"time"

	. "verif/harness/hlib"

	"github.com/google/osv-scalibr/extractor/filesystem"
	scalibrfs "github.com/google/osv-scalibr/fs"
	"github.com/google/osv-scalibr/inventory"
)

// callExtract does what filesystem.runExtractor does for one file: open through the scan FS,
// stat, hand the open file to the REAL Extract.
func callExtract(ctx context.Context, ex filesystem.Extractor, sfs scalibrfs.FS, root, rel string) (inventory.Inventory, error) {
	rc, err := sfs.Open(rel)
	if err != nil {
		return inventory.Inventory{}, err
	}
	defer rc.Close()
	info, err := rc.Stat()
	if err != nil {
		return inventory.Inventory{}, err
	}
	return ex.Extract(ctx, &filesystem.ScanInput{FS: sfs, Path: rel, Root: root, Info: info, Reader: rc})
}

func writeAt(root, rel string, data []byte, exec bool) error {
	p := filepath.Join(root, filepath.FromSlash(rel))
	if err := os.MkdirAll(filepath.Dir(p), 0o755); err != nil {
		return err
	}
	mode := os.FileMode(0o644)
	if exec {
		mode = 0o755
	}
	_ = os.Remove(p)
	return os.WriteFile(p, data, mode)
}

// recFS records which paths an extractor asks its scan FS for (companion discovery).
type recFS struct {
	scalibrfs.FS
	mu     sync.Mutex
	opened map[string]bool
}

func (r *recFS) note(name string) {
	r.mu.Lock()
	if r.opened == nil {
		r.opened = map[string]bool{}
	}
	r.opened[name] = true
	r.mu.Unlock()
}
func (r *recFS) Open(name string) (fs.File, error)          { r.note(name); return r.FS.Open(name) }
func (r *recFS) Stat(name string) (fs.FileInfo, error)      { r.note(name); return r.FS.Stat(name) }
func (r *recFS) ReadDir(name string) ([]fs.DirEntry, error) { r.note(name); return r.FS.ReadDir(name) }

var errProbeTimeout = errors.New("probe timeout")

// probe runs Extract on an unmodified fixture with a short timeout (used only to choose which
// fixture is the "valid" file of a format; never an oracle).
func probe(ex filesystem.Extractor, root, rel string) (pkgs int, err error) {
	n, err, _ := probeRec(ex, root, rel)
	return n, err
}

// probeRec is probe that also reports the other paths the extractor asked the scan FS for.
func probeRec(ex filesystem.Extractor, root, rel string) (pkgs int, err error, opened []string) {
	rec := &recFS{FS: scalibrfs.DirFS(root)}
	defer func() {
		rec.mu.Lock()
		for p := range rec.opened {
			if p != rel {
				opened = append(opened, p)
			}
		}
		rec.mu.Unlock()
		sort.Strings(opened)
	}()
	type res struct {
		n   int
		err error
	}
	ch := make(chan res, 1)
	ctx, cancel := context.WithTimeout(context.Background(), 5*time.Second)
	defer cancel()
	go func() {
		var r res
		if p := Safely(func() {
			inv, e := callExtract(ctx, ex, rec, root, rel)
			r = res{len(inv.Packages), e}
		}); p != "" {
			r = res{0, errors.New("panic: " + p)}
		}
		ch <- r
	}()
	select {
	case r := <-ch:
		return r.n, r.err, nil
	case <-time.After(6 * time.Second):
		return 0, errProbeTimeout, nil
	}
}

// computeFormats fills inf.Formats: for each production path class the fixture Extract likes best.
func computeFormats(e *Env, reg []*exInfo, maxClasses int) error {
	repo := repoDir(e)
	base, err := os.MkdirTemp(e.Tmp, "fmt-")
	if err != nil {
		return err
	}
	defer os.RemoveAll(base)
	for _, inf := range reg {
		if !inf.Offline {
			continue
		}
		for _, p := range pickPaths(inf, maxClasses) {
			best := format{Path: p, Exec: inf.NeedExec[p]}
			bestScore := -1
			for _, fx := range inf.Fixtures {
				data, err := fixtureBytes(repo, fx.Rel)
				if err != nil {
					return err
				}
				root, err := os.MkdirTemp(base, "r")
				if err != nil {
					return err
				}
				if err := writeAt(root, p, data, best.Exec); err != nil {
					return err
				}
				for _, c := range inf.Companions {
					cd, err := fixtureBytes(repo, c.Fixture)
					if err != nil {
						return err
					}
					if err := writeAt(root, c.Path, cd, false); err != nil {
						return err
					}
				}
				n, xerr, opened := probeRec(inf.Ex, root, p)
				os.RemoveAll(root)
				score := 0
				if xerr == nil {
					score = 1
					if n > 0 {
						score = 2 + n
					}
				}
				if len(data) == 0 {
					score = min(score, 0)
				}
				if score > bestScore {
					bestScore = score
					best.Fixture, best.Valid, best.Pkgs = fx.Rel, xerr == nil && len(data) > 0, n
				}
				// the path class on which THIS fixture is extracted best (its natural production path)
				if inf.bestPath == nil {
					inf.bestPath, inf.bestScore = map[string]string{}, map[string]int{}
				}
				if old, ok := inf.bestScore[fx.Rel]; !ok || score > old {
					inf.bestScore[fx.Rel], inf.bestPath[fx.Rel] = score, p
				}
				// other files the extractor asked its scan FS for: companions, and which scenario reads them
				for _, o := range opened {
					if inf.Opened == nil {
						inf.Opened, inf.openedBy, inf.openedScore = map[string]bool{}, map[string][2]string{}, map[string]int{}
					}
					inf.Opened[o] = true
					if old, ok := inf.openedScore[o]; !ok || score > old {
						inf.openedScore[o], inf.openedBy[o] = score, [2]string{fx.Rel, p}
					}
				}
			}
			inf.Formats = append(inf.Formats, best)
		}
	}
	return nil
}
