package main

import (
	"context"
	"errors"
	"os"
	"path/filepath"
	"time"

	. "verif/harness/hlib"

	"github.com/google/osv-scalibr/extractor/filesystem"
	scalibrfs "github.com/google/osv-scalibr/fs"
	"github.com/google/osv-scalibr/inventory"
)

// callExtract does what filesystem.runExtractor does for one file: open through the scan FS,
// stat, hand the open file to the REAL Extract.
func callExtract(ctx context.Context, ex filesystem.Extractor, sfs scalibrfs.FS, root, rel string) (inventory.Inventory, error) {
	rc, err := sfs.Open(rel)
	if err != nil {
		return inventory.Inventory{}, err
	}
	defer rc.Close()
	info, err := rc.Stat()
	if err != nil {
		return inventory.Inventory{}, err
	}
	return ex.Extract(ctx, &filesystem.ScanInput{FS: sfs, Path: rel, Root: root, Info: info, Reader: rc})
}

func writeAt(root, rel string, data []byte, exec bool) error {
	p := filepath.Join(root, filepath.FromSlash(rel))
	if err := os.MkdirAll(filepath.Dir(p), 0o755); err != nil {
		return err
	}
	mode := os.FileMode(0o644)
	if exec {
		mode = 0o755
	}
	_ = os.Remove(p)
	return os.WriteFile(p, data, mode)
}

var errProbeTimeout = errors.New("probe timeout")

// probe runs Extract on an unmodified fixture with a short timeout (used only to choose which
// fixture is the "valid" file of a format; never an oracle).
func probe(ex filesystem.Extractor, root, rel string) (pkgs int, err error) {
	type res struct {
		n   int
		err error
	}
	ch := make(chan res, 1)
	ctx, cancel := context.WithTimeout(context.Background(), 5*time.Second)
	defer cancel()
	go func() {
		var r res
		if p := Safely(func() {
			inv, e := callExtract(ctx, ex, scalibrfs.DirFS(root), root, rel)
			r = res{len(inv.Packages), e}
		}); p != "" {
			r = res{0, errors.New("panic: " + p)}
		}
		ch <- r
	}()
	select {
	case r := <-ch:
		return r.n, r.err
	case <-time.After(6 * time.Second):
		return 0, errProbeTimeout
	}
}

// computeFormats fills inf.Formats: for each production path class the fixture Extract likes best.
func computeFormats(e *Env, reg []*exInfo, maxClasses int) error {
	repo := repoDir(e)
	base, err := os.MkdirTemp(e.Tmp, "fmt-")
	if err != nil {
		return err
	}
	defer os.RemoveAll(base)
	for _, inf := range reg {
		if !inf.Offline {
			continue
		}
		for _, p := range pickPaths(inf, maxClasses) {
			best := format{Path: p, Exec: inf.NeedExec[p]}
			bestScore := -1
			for _, fx := range inf.Fixtures {
				data, err := fixtureBytes(repo, fx.Rel)
				if err != nil {
					return err
				}
				root, err := os.MkdirTemp(base, "r")
				if err != nil {
					return err
				}
				if err := writeAt(root, p, data, best.Exec); err != nil {
					return err
				}
				for _, c := range inf.Companions {
					cd, err := fixtureBytes(repo, c.Fixture)
					if err != nil {
						return err
					}
					if err := writeAt(root, c.Path, cd, false); err != nil {
						return err
					}
				}
				n, xerr := probe(inf.Ex, root, p)
				os.RemoveAll(root)
				score := 0
				if xerr == nil {
					score = 1
					if n > 0 {
						score = 2 + n
					}
				}
				if len(data) == 0 {
					score = min(score, 0)
				}
				if score > bestScore {
					bestScore = score
					best.Fixture, best.Valid, best.Pkgs = fx.Rel, xerr == nil && len(data) > 0, n
				}
			}
			inf.Formats = append(inf.Formats, best)
		}
	}
	return nil
}
