package main

// C06(a): a scan never creates, modifies or deletes anything in the scanned tree or the working
// directory, and leaves nothing behind in the temporary directory.
//
// Every case emitted by SideEffects.tla is run in a child process (working directory and TMPDIR
// are process-global). The child builds a sandbox <tmp>/se-*/{tree,cwd,tmp}, places the files of
// the case at their production paths, snapshots the three zones, runs the REAL
// scalibr.New().Scan with the case's extractors, snapshots again and reports the difference.

import (
	"context"
	"crypto/sha256"
	"encoding/hex"
	"encoding/json"
	"errors"
	"fmt"
	"io"
	"io/fs"
	"os"
	"path/filepath"
	"sort"
	"strings"
	"sync"
	"testing/fstest"
	"time"

	. "verif/harness/hlib"

	scalibr "github.com/google/osv-scalibr"
	"github.com/google/osv-scalibr/extractor/filesystem"
	"github.com/google/osv-scalibr/extractor/filesystem/list"
	"github.com/google/osv-scalibr/extractor/filesystem/os/rpm"
	scalibrfs "github.com/google/osv-scalibr/fs"
	"github.com/google/osv-scalibr/plugin"
	"github.com/google/osv-scalibr/stats"
)

type seCase struct {
	I        int    `json:"i"`
	Mode     string `json:"mode"`     // single | all
	Ex       string `json:"ex"`       // single: extractor name
	Fmt      int    `json:"fmt"`      // single: 1-based index into the extractor's formats
	Variant  string `json:"variant"`  // valid | empty | trunc | corrupt
	CVariant string `json:"cvariant"` // none | valid | empty : state of the companion files
	Root     string `json:"root"`     // real | vdir | vmem
	OS       string `json:"os"`       // all: OS capability of the scan environment
}

type entry struct {
	Type   string `json:"type"` // file | dir | symlink | other
	Size   int64  `json:"size"`
	Mode   string `json:"mode"`
	Target string `json:"target,omitempty"`
	Sum    string `json:"sha256,omitempty"`
	MTime  int64  `json:"mtime_ns"`
}

type diff struct {
	Path   string `json:"path"`
	Kind   string `json:"kind"` // created | deleted | modified
	Before *entry `json:"before,omitempty"`
	After  *entry `json:"after,omitempty"`
	Fields string `json:"fields,omitempty"`
}

func snapshot(root string) (map[string]entry, error) {
	out := map[string]entry{}
	err := filepath.WalkDir(root, func(p string, d fs.DirEntry, err error) error {
		if err != nil {
			return err
		}
		rel, _ := filepath.Rel(root, p)
		fi, err := os.Lstat(p)
		if err != nil {
			return err
		}
		en := entry{Size: fi.Size(), Mode: fi.Mode().String(), MTime: fi.ModTime().UnixNano()}
		switch {
		case fi.Mode().IsRegular():
			en.Type = "file"
			f, err := os.Open(p)
			if err != nil {
				return err
			}
			h := sha256.New()
			_, err = io.Copy(h, f)
			f.Close()
			if err != nil {
				return err
			}
			en.Sum = hex.EncodeToString(h.Sum(nil))
		case fi.IsDir():
			en.Type = "dir"
			en.Size = 0
		case fi.Mode()&fs.ModeSymlink != 0:
			en.Type = "symlink"
			en.Target, _ = os.Readlink(p)
		default:
			en.Type = "other"
		}
		out[filepath.ToSlash(rel)] = en
		return nil
	})
	return out, err
}

func diffSnap(a, b map[string]entry) []diff {
	out := []diff{}
	for p, ea := range a {
		ea := ea
		eb, ok := b[p]
		if !ok {
			out = append(out, diff{Path: p, Kind: "deleted", Before: &ea})
			continue
		}
		fields := []string{}
		if ea.Type != eb.Type {
			fields = append(fields, "type")
		}
		if ea.Size != eb.Size {
			fields = append(fields, "size")
		}
		if ea.Mode != eb.Mode {
			fields = append(fields, "mode")
		}
		if ea.Target != eb.Target {
			fields = append(fields, "target")
		}
		if ea.Sum != eb.Sum {
			fields = append(fields, "sha256")
		}
		if ea.MTime != eb.MTime {
			fields = append(fields, "mtime")
		}
		if len(fields) > 0 {
			out = append(out, diff{Path: p, Kind: "modified", Before: &ea, After: &eb, Fields: strings.Join(fields, ",")})
		}
	}
	for p, eb := range b {
		eb := eb
		if _, ok := a[p]; !ok {
			out = append(out, diff{Path: p, Kind: "created", After: &eb})
		}
	}
	sort.Slice(out, func(i, j int) bool { return out[i].Path < out[j].Path })
	return out
}

func variantBytes(data []byte, variant string) []byte {
	switch variant {
	case "empty":
		return []byte{}
	case "trunc":
		return append([]byte(nil), data[:len(data)/2]...)
	case "corrupt":
		out := append([]byte(nil), data...)
		n := min(32, len(out))
		for i := 0; i < n; i++ {
			out[i] ^= 0xA5
		}
		return out
	}
	return data
}

type runCounter struct {
	stats.NoopCollector
	mu   sync.Mutex
	runs map[string]int
}

func (c *runCounter) AfterExtractorRun(name string, d time.Duration, err error) {
	c.mu.Lock()
	c.runs[name]++
	c.mu.Unlock()
}

// cancelOnOpenFS cancels the scan context when one of the placed files is opened.
type cancelOnOpenFS struct {
	scalibrfs.FS
	targets map[string]bool
	cancel  func()
}

func (f *cancelOnOpenFS) Open(name string) (fs.File, error) {
	if f.targets[name] {
		f.cancel()
	}
	return f.FS.Open(name)
}

func osCap(s string) plugin.OS {
	switch s {
	case "mac":
		return plugin.OSMac
	case "windows":
		return plugin.OSWindows
	}
	return plugin.OSLinux
}

type placed struct {
	Ex, Path, Fixture string
	Size              int
}

var (
	seRegOnce sync.Once
	seReg     map[string]*exInfo
	seRegList []*exInfo
	seRegErr  error
	seSeq     int
)

func seRegistry(e *Env) (map[string]*exInfo, []*exInfo, error) {
	seRegOnce.Do(func() {
		var reg []*exInfo
		// the parent computed the formats once and passes them in a file
		b, err := os.ReadFile(e.Args["registry"])
		if err != nil {
			seRegErr = err
			return
		}
		live, err := loadRegistry(e)
		if err != nil {
			seRegErr = err
			return
		}
		byName := map[string]*exInfo{}
		for _, l := range live {
			byName[l.Name] = l
		}
		seReg = map[string]*exInfo{}
		for _, line := range strings.Split(strings.TrimSpace(string(b)), "\n") {
			inf := &exInfo{}
			if err := json.Unmarshal([]byte(line), inf); err != nil {
				seRegErr = err
				return
			}
			if l := byName[inf.Name]; l != nil {
				inf.Ex = l.Ex
			}
			reg = append(reg, inf)
			seReg[inf.Name] = inf
		}
		seRegList = reg
	})
	return seReg, seRegList, seRegErr
}

func freshExtractor(name string) (filesystem.Extractor, error) {
	return list.ExtractorFromName(name)
}

// rpmTimeout is the time bound the rpm extractor is instantiated with in C02. The extractor bounds
// the parsing of (corrupt) Berkeley DB files by Config.Timeout (default 5 minutes, by design); the
// check does not quarrel with the default, it instantiates the bound small and requires that it
// is honoured.
const rpmTimeout = 1 * time.Second

// boundedExtractor is freshExtractor with the extractor's own time bound configured (C02).
func boundedExtractor(name string) (filesystem.Extractor, error) {
	if name == rpm.Name {
		cfg := rpm.DefaultConfig()
		cfg.Timeout = rpmTimeout
		return rpm.New(cfg), nil
	}
	return freshExtractor(name)
}

func runSECase(e *Env, c *seCase, m *emitter) (map[string]any, error) {
	byName, regList, err := seRegistry(e)
	if err != nil {
		return nil, err
	}
	repo := repoDir(e)
	seSeq++
	box, err := os.MkdirTemp(e.Tmp, fmt.Sprintf("se-%s-%d-", e.Args["slot"], seSeq))
	if err != nil {
		return nil, err
	}
	defer os.RemoveAll(box)
	tree, cwd, tmp := filepath.Join(box, "tree"), filepath.Join(box, "cwd"), filepath.Join(box, "tmp")
	for _, d := range []string{tree, cwd, tmp, filepath.Join(cwd, "sub")} {
		if err := os.MkdirAll(d, 0o755); err != nil {
			return nil, err
		}
	}
	// decoys in the working directory
	for n, s := range map[string]string{"file": "decoy named file\n", "data.txt": "decoy\n", "sub/x": "decoy x\n", "meta.db": ""} {
		if err := os.WriteFile(filepath.Join(cwd, n), []byte(s), 0o644); err != nil {
			return nil, err
		}
	}
	_ = os.Symlink("data.txt", filepath.Join(cwd, "link"))

	// ---- which extractors, which files ----
	caps := &plugin.Capabilities{OS: osCap(c.OS), Network: plugin.NetworkOffline, DirectFS: c.Root == "real", RunningSystem: true}
	var enabled []filesystem.Extractor
	files := []placed{}
	mem := fstest.MapFS{}
	put := func(ex, rel, fixture, variant string, exec bool) error {
		data, err := fixtureBytes(repo, fixture)
		if err != nil {
			return err
		}
		data = variantBytes(data, variant)
		files = append(files, placed{ex, rel, fixture, len(data)})
		if c.Root == "vmem" {
			mode := fs.FileMode(0o644)
			if exec {
				mode = 0o755
			}
			mem[rel] = &fstest.MapFile{Data: data, Mode: mode, ModTime: time.Unix(1700000000, 0)}
			return nil
		}
		return writeAt(tree, rel, data, exec)
	}
	exists := func(rel string) bool {
		if c.Root == "vmem" {
			_, ok := mem[rel]
			return ok
		}
		_, err := os.Lstat(filepath.Join(tree, rel))
		return err == nil
	}
	if err := put("-", "etc/os-release", syntheticSeed, "valid", false); err != nil {
		return nil, err
	}
	placeEx := func(inf *exInfo, fmts []format, prefix string) error {
		for _, f := range fmts {
			rel := f.Path
			if prefix != "" && acceptsMode(inf.Ex, prefix+rel, map[bool]fs.FileMode{true: 0o755, false: 0o644}[f.Exec]) {
				rel = prefix + rel
			}
			if exists(rel) {
				continue
			}
			if err := put(inf.Name, rel, f.Fixture, c.Variant, f.Exec); err != nil {
				return err
			}
		}
		if c.CVariant != "none" {
			for _, cp := range inf.Companions {
				if exists(cp.Path) {
					continue
				}
				if err := put(inf.Name, cp.Path, cp.Fixture, c.CVariant, false); err != nil {
					return err
				}
			}
		}
		return nil
	}
	switch c.Mode {
	case "single":
		inf := byName[c.Ex]
		if inf == nil || c.Fmt < 1 || c.Fmt > len(inf.Formats) {
			return nil, fmt.Errorf("case %d: unknown extractor/format %s/%d", c.I, c.Ex, c.Fmt)
		}
		req := inf.Ex.Requirements()
		switch req.OS {
		case plugin.OSMac:
			caps.OS = plugin.OSMac
		case plugin.OSWindows:
			caps.OS = plugin.OSWindows
		default:
			caps.OS = plugin.OSLinux
		}
		ex, err := freshExtractor(inf.Name)
		if err != nil {
			return nil, err
		}
		enabled = append(enabled, ex)
		if err := placeEx(inf, inf.Formats[c.Fmt-1:c.Fmt], ""); err != nil {
			return nil, err
		}
	case "all":
		k := 0
		for _, inf := range regList {
			if !inf.Offline || len(inf.Formats) == 0 {
				continue
			}
			k++
			ex, err := freshExtractor(inf.Name)
			if err != nil {
				return nil, err
			}
			if plugin.ValidateRequirements(ex, caps) != nil {
				continue
			}
			enabled = append(enabled, ex)
			if err := placeEx(inf, inf.Formats, fmt.Sprintf("d%02d/", k)); err != nil {
				return nil, err
			}
		}
	default:
		return nil, fmt.Errorf("case %d: unknown mode %q", c.I, c.Mode)
	}

	var roots []*scalibrfs.ScanRoot
	switch c.Root {
	case "real":
		roots = scalibrfs.RealFSScanRoots(tree)
	case "vdir":
		roots = []*scalibrfs.ScanRoot{{FS: scalibrfs.DirFS(tree), Path: ""}}
	case "vmem":
		roots = []*scalibrfs.ScanRoot{{FS: mem, Path: ""}}
	default:
		return nil, fmt.Errorf("case %d: unknown root %q", c.I, c.Root)
	}

	// ---- before ----
	zones := map[string]string{"tree": tree, "cwd": cwd, "tmp": tmp}
	before := map[string]map[string]entry{}
	for z, d := range zones {
		if before[z], err = snapshot(d); err != nil {
			return nil, err
		}
	}
	// If the scan kills this process (a fatal runtime error cannot be recovered), the parent still
	// compares the zones: it finds the sandbox and the before-snapshot through the begin marker.
	bb, _ := json.Marshal(before)
	if err := os.WriteFile(filepath.Join(box, "before.json"), bb, 0o644); err != nil {
		return nil, err
	}
	m.begin(map[string]any{"i": c.I, "box": box})
	oldwd, _ := os.Getwd()
	oldtmp := os.Getenv("TMPDIR")
	if err := os.Chdir(cwd); err != nil {
		return nil, err
	}
	os.Setenv("TMPDIR", tmp)
	ctr := &runCounter{runs: map[string]int{}}
	cfg := &scalibr.ScanConfig{FilesystemExtractors: enabled, Capabilities: caps, ScanRoots: roots, Stats: ctr}
	var res *scalibr.ScanResult
	done := make(chan string, 1)
	ctx, cancel := context.WithCancel(context.Background())
	// Cancellation dimension (single-extractor scans of virtual roots, every other scenario): the scan context is
	// cancelled at the moment the engine opens the placed file for the extractor, i.e. after the engine's own
	// context check and before Extract. The extractor then runs (or bails out) under a done context; whatever it
	// does, the zones must be left as they were.
	cancelAtOpen := c.Mode == "single" && c.Root != "real" && (c.Fmt+len(c.Variant)+len(c.CVariant))%2 == 0
	if cancelAtOpen {
		targets := map[string]bool{}
		for _, f := range files {
			targets[f.Path] = true
		}
		roots[0].FS = &cancelOnOpenFS{FS: roots[0].FS, targets: targets, cancel: cancel}
	}
	go func() {
		done <- Safely(func() { res = scalibr.New().Scan(ctx, cfg) })
	}()
	panicked, hung := "", false
	select {
	case panicked = <-done:
	case <-time.After(90 * time.Second):
		hung = true
	}
	cancel()
	_ = os.Chdir(oldwd)
	os.Setenv("TMPDIR", oldtmp)
	if hung {
		return nil, errors.New("scan did not return within 90 s (not a C06 verdict)")
	}

	// ---- after ----
	obs := map[string][]diff{}
	for z, d := range zones {
		after, err := snapshot(d)
		if err != nil {
			return nil, err
		}
		obs[z] = diffSnap(before[z], after)
	}
	out := map[string]any{"i": c.I, "obs": obs, "runs": ctr.runs, "files": len(files), "enabled": len(enabled), "cancel_at_open": cancelAtOpen}
	if panicked != "" {
		out["panic"] = panicked
	}
	if res != nil {
		out["pkgs"] = len(res.Inventory.Packages)
		if res.Status != nil {
			out["status"] = res.Status.String()
		}
	}
	// what the target files looked like (for the replay record)
	pl := []map[string]any{}
	for i, f := range files {
		if i < 8 {
			pl = append(pl, map[string]any{"ex": f.Ex, "path": f.Path, "fixture": f.Fixture, "size": f.Size})
		}
	}
	out["placed"] = pl
	return out, nil
}

func init() {
	workerKinds["sideeffects"] = func(e *Env, job []byte, m *emitter) error {
		var c seCase
		if err := json.Unmarshal(job, &c); err != nil {
			return err
		}
		m.begin(map[string]any{"i": c.I})
		out, err := runSECase(e, &c, m)
		if err != nil {
			m.result(map[string]any{"i": c.I, "error": err.Error()})
			return nil
		}
		m.result(out)
		return nil
	}

	// `sideeffects`: input = cases ndjson (from SideEffects.tla), -a registry=<file written by `list -a formats=n`>
	Register("sideeffects", func(e *Env) error {
		raw, err := os.ReadFile(e.In)
		if err != nil {
			return err
		}
		jobs := [][]byte{}
		idx := 0
		for _, l := range strings.Split(string(raw), "\n") {
			l = strings.TrimSpace(l)
			if l == "" {
				continue
			}
			var m map[string]any
			if err := json.Unmarshal([]byte(l), &m); err != nil {
				return err
			}
			m["i"] = idx
			idx++
			b, _ := json.Marshal(m)
			jobs = append(jobs, b)
		}
		outf, err := os.Create(e.Out)
		if err != nil {
			return err
		}
		defer outf.Close()
		pc := &poolCfg{Kind: "sideeffects", Workers: e.Workers, Silence: 150 * time.Second,
			OnResult: func(job int, line []byte) { outf.Write(line); outf.Write([]byte("\n")) },
			OnDeath: func(job int, jobRaw []byte, d death) []byte {
				var bm struct {
					Box string `json:"box"`
				}
				_ = json.Unmarshal(d.LastBegin, &bm)
				if bm.Box != "" && strings.HasPrefix(bm.Box, e.Tmp) {
					defer os.RemoveAll(bm.Box)
					before := map[string]map[string]entry{}
					if bb, err := os.ReadFile(filepath.Join(bm.Box, "before.json")); err == nil && json.Unmarshal(bb, &before) == nil {
						obs := map[string][]diff{}
						ok := true
						for _, z := range []string{"tree", "cwd", "tmp"} {
							after, err := snapshot(filepath.Join(bm.Box, z))
							if err != nil {
								ok = false
								break
							}
							obs[z] = diffSnap(before[z], after)
						}
						if ok {
							b, _ := json.Marshal(map[string]any{"i": job, "obs": obs, "crashed": d.Why + ": " + d.Stderr, "runs": map[string]int{}})
							outf.Write(b)
							outf.Write([]byte("\n"))
							return nil
						}
					}
				}
				b, _ := json.Marshal(map[string]any{"i": job, "died": d.Why, "stderr": d.Stderr})
				outf.Write(b)
				outf.Write([]byte("\n"))
				return nil
			}}
		return runPool(e, pc, jobs)
	})
}
