package main

// Registry facts shared by C02(a) `mutate` and C06(a) `sideeffects`: the built-in filesystem
// extractors (enumerated from extractor/filesystem/list), which of them can run offline, their
// fixtures (regular files <= 256 KiB under the testdata directory next to the extractor package)
// and the production paths each extractor requires. Production paths are not invented here: the
// candidates are the string literals of the package's own *_test.go files plus the fixtures' own
// names, and a candidate counts only if the REAL FileRequired accepts it.

import (
	"encoding/json"
	"go/ast"
	"go/parser"
	"go/token"
	"io/fs"
	"os"
	"path/filepath"
	"reflect"
	"sort"
	"strconv"
	"strings"
	"time"

	. "verif/harness/hlib"

	"github.com/google/osv-scalibr/extractor/filesystem"
	"github.com/google/osv-scalibr/extractor/filesystem/list"
	"github.com/google/osv-scalibr/plugin"
)

const modulePath = "github.com/google/osv-scalibr"
const maxFixture = 256 << 10

type fixture struct {
	Rel  string `json:"rel"` // relative to the repository root
	Size int64  `json:"size"`
}

type exInfo struct {
	Name       string               `json:"name"`
	Ex         filesystem.Extractor `json:"-"`
	PkgDir     string               `json:"pkg_dir"`
	OS         int                  `json:"os"`
	Network    int                  `json:"network"`
	DirectFS   bool                 `json:"direct_fs"`
	RunningSys bool                 `json:"running_system"`
	Offline    bool                 `json:"offline"`
	SkipReason string               `json:"skip_reason,omitempty"`
	Fixtures   []fixture            `json:"fixtures"`
	Paths      []string             `json:"paths"`
	NeedExec   map[string]bool      `json:"need_exec,omitempty"` // paths accepted only with an executable mode
	AnyExec    bool                 `json:"any_executable,omitempty"`
	BigSkipped int                  `json:"fixtures_over_256k"`
	Formats    []format             `json:"formats,omitempty"`
	Companions []companion          `json:"companions,omitempty"`
	Opened     map[string]bool      `json:"opened,omitempty"` // other paths the extractor asked its scan FS for while probing

	bestPath    map[string]string    // fixture -> path class on which Extract likes it best
	bestScore   map[string]int
	openedBy    map[string][2]string // companion path -> <fixture, path> of the best scenario that read it
	openedScore map[string]int
}

// format is one production path class of an extractor together with the fixture that the real
// Extract accepts best at that path (used by C06 as the "valid" file of that format).
type format struct {
	Path    string `json:"path"`
	Fixture string `json:"fixture"`
	Valid   bool   `json:"valid"` // Extract returned no error on the unmodified fixture
	Pkgs    int    `json:"pkgs"`
	Exec    bool   `json:"exec"`
}

// companion is a further file an extractor reads next to its required file (placed valid or empty).
type companion struct {
	Path    string `json:"path"`
	Fixture string `json:"fixture"`
}

// Files that an extractor opens itself, next to the file it requires. Paths are the constants of
// containerd_linux.go; the fixtures are the ones its own test places there.
var companionTable = map[string][]companion{
	"containers/containerd": {
		{Path: "var/lib/containerd/io.containerd.snapshotter.v1.overlayfs/metadata.db", Fixture: "extractor/filesystem/containers/containerd/testdata/metadata_linux_test.db"},
	},
}

const syntheticSeed = "synthetic:seed"
const syntheticOSRelease = "synthetic:os-release"

var osReleasePaths = []string{"etc/os-release", "usr/lib/os-release"}

const osReleaseText = `PRETTY_NAME="Debian GNU/Linux 12 (bookworm)"
NAME="Debian GNU/Linux"
VERSION_ID="12"
VERSION="12 (bookworm)"
VERSION_CODENAME=bookworm
ID=debian
BUILD_ID=20240101
HOME_URL="https://www.debian.org/"
`

// allCompanions: the files an extractor reads next to the one it requires, each with a valid seed:
// the static table (files opened with os calls), os-release when the extractor was seen asking its
// scan FS for it, and any other path it asked for, if one of its own fixtures has that name or
// extension. Call after computeFormats.
func allCompanions(inf *exInfo) (out []companion, noSeed []string) {
	out = append(out, companionTable[inf.Name]...)
	paths := []string{}
	for p := range inf.Opened {
		paths = append(paths, p)
	}
	sort.Strings(paths)
	for _, p := range paths {
		if c, ok := cleanRel(p); !ok || c != p {
			continue // "../pom.xml": not a path of the scan FS
		}
		if p == osReleasePaths[0] || p == osReleasePaths[1] {
			out = append(out, companion{Path: p, Fixture: syntheticOSRelease})
			continue
		}
		seed := ""
		for _, fx := range inf.Fixtures {
			if filepath.Base(fx.Rel) == filepath.Base(p) && fx.Size > 0 {
				seed = fx.Rel
				break
			}
		}
		if seed == "" {
			for _, fx := range inf.Fixtures {
				if filepath.Ext(fx.Rel) != "" && filepath.Ext(fx.Rel) == filepath.Ext(p) && fx.Size > 0 {
					seed = fx.Rel
					break
				}
			}
		}
		if seed == "" {
			noSeed = append(noSeed, p)
			continue
		}
		out = append(out, companion{Path: p, Fixture: seed})
	}
	return out, noSeed
}

func fixtureBytes(repo, rel string) ([]byte, error) {
	if rel == syntheticSeed {
		return []byte("name: seed\nversion: 1.0.0\n"), nil
	}
	if rel == syntheticOSRelease {
		return []byte(osReleaseText), nil
	}
	return os.ReadFile(filepath.Join(repo, rel))
}

// fakeAPI is the FileAPI handed to FileRequired when asking "is this a path you require?".
type fakeAPI struct {
	path string
	size int64
	mode fs.FileMode
}

type fakeInfo struct{ a *fakeAPI }

func (i fakeInfo) Name() string       { return filepath.Base(i.a.path) }
func (i fakeInfo) Size() int64        { return i.a.size }
func (i fakeInfo) Mode() fs.FileMode  { return i.a.mode }
func (i fakeInfo) ModTime() time.Time { return time.Unix(1700000000, 0) }
func (i fakeInfo) IsDir() bool        { return false }
func (i fakeInfo) Sys() any           { return nil }

func (a *fakeAPI) Path() string               { return a.path }
func (a *fakeAPI) Stat() (fs.FileInfo, error) { return fakeInfo{a}, nil }

func acceptsMode(ex filesystem.Extractor, p string, mode fs.FileMode) bool {
	ok := false
	Safely(func() { ok = ex.FileRequired(&fakeAPI{path: p, size: 1000, mode: mode}) })
	return ok
}

func accepts(ex filesystem.Extractor, p string) bool { return acceptsMode(ex, p, 0o755) }

func repoDir(e *Env) string {
	if r := e.Args["repo"]; r != "" {
		return r
	}
	if r := os.Getenv("VERIF_REPO"); r != "" {
		return r
	}
	return "/repo"
}

// goLiterals returns the string literals of the Go files directly in dir (the package's own
// tests name the production paths; its sources name the file names it looks for).
func goLiterals(dir string) []string {
	out := []string{}
	ents, _ := os.ReadDir(dir)
	fset := token.NewFileSet()
	for _, en := range ents {
		if en.IsDir() || !strings.HasSuffix(en.Name(), ".go") {
			continue
		}
		f, err := parser.ParseFile(fset, filepath.Join(dir, en.Name()), nil, parser.SkipObjectResolution)
		if err != nil {
			continue
		}
		ast.Inspect(f, func(n ast.Node) bool {
			if bl, ok := n.(*ast.BasicLit); ok && bl.Kind == token.STRING {
				if s, err := strconv.Unquote(bl.Value); err == nil && len(s) > 0 && len(s) < 200 && !strings.ContainsAny(s, "\n\x00") {
					out = append(out, s)
				}
			}
			return true
		})
	}
	return out
}

func cleanRel(p string) (string, bool) {
	p = filepath.ToSlash(p)
	p = strings.TrimPrefix(p, "/")
	if p == "" || p == "." || strings.HasSuffix(p, "/") {
		return "", false
	}
	c := filepath.Clean(p)
	if c != p || strings.HasPrefix(c, "..") || filepath.IsAbs(c) {
		return "", false
	}
	for _, seg := range strings.Split(c, "/") {
		if len(seg) > 100 {
			return "", false
		}
	}
	return c, true
}

// pathClass groups production paths that differ only in incidental directory names.
func pathClass(p string) string {
	b := filepath.Base(p)
	if i := strings.Index(b, "."); i >= 0 {
		return "*" + strings.ToLower(b[i:])
	}
	return filepath.Base(filepath.Dir(p)) + "/" + b
}

func loadRegistry(e *Env) ([]*exInfo, error) {
	repo := repoDir(e)
	names := []string{}
	for n := range list.All {
		names = append(names, n)
	}
	sort.Strings(names)
	out := []*exInfo{}
	for _, n := range names {
		for _, initer := range list.All[n] {
			ex := initer()
			t := reflect.TypeOf(ex)
			for t.Kind() == reflect.Pointer {
				t = t.Elem()
			}
			req := ex.Requirements()
			if req == nil {
				req = &plugin.Capabilities{}
			}
			inf := &exInfo{Name: ex.Name(), Ex: ex, OS: int(req.OS), Network: int(req.Network), DirectFS: req.DirectFS,
				RunningSys: req.RunningSystem, Offline: true, Fixtures: []fixture{}, Paths: []string{}}
			inf.PkgDir = strings.TrimPrefix(strings.TrimPrefix(t.PkgPath(), modulePath), "/")
			if req.Network == plugin.NetworkOnline {
				inf.Offline = false
				inf.SkipReason = "requires network access (Capabilities.Network = NetworkOnline)"
			}
			dir := filepath.Join(repo, inf.PkgDir)
			td := filepath.Join(dir, "testdata")
			cands := map[string]bool{}
			_ = filepath.WalkDir(td, func(p string, d fs.DirEntry, err error) error {
				if err != nil || !d.Type().IsRegular() {
					return nil
				}
				fi, err := d.Info()
				if err != nil {
					return nil
				}
				rel, _ := filepath.Rel(repo, p)
				if fi.Size() > maxFixture {
					inf.BigSkipped++
				} else {
					inf.Fixtures = append(inf.Fixtures, fixture{Rel: filepath.ToSlash(rel), Size: fi.Size()})
				}
				r2, _ := filepath.Rel(dir, p)
				r3, _ := filepath.Rel(td, p)
				cands[filepath.ToSlash(r2)] = true
				cands[filepath.ToSlash(r3)] = true
				cands[filepath.Base(p)] = true
				return nil
			})
			for _, s := range goLiterals(dir) {
				cands[s] = true
			}
			generic := []string{"usr/bin/prog", "opt/app/prog.exe", "opt/app/prog.dll", "usr/lib/libprog.so"}
			inf.AnyExec = accepts(ex, "zz-verif/not-a-known-name")
			if inf.AnyExec {
				// the extractor takes any executable: literals are not file names, use neutral ones
				cands = map[string]bool{}
			}
			for _, g := range generic {
				cands[g] = true
			}
			seen := map[string]bool{}
			for c := range cands {
				p, ok := cleanRel(c)
				if !ok || seen[p] {
					continue
				}
				seen[p] = true
				if accepts(ex, p) {
					inf.Paths = append(inf.Paths, p)
					if !acceptsMode(ex, p, 0o644) {
						if inf.NeedExec == nil {
							inf.NeedExec = map[string]bool{}
						}
						inf.NeedExec[p] = true
					}
				}
			}
			sort.Slice(inf.Paths, func(i, j int) bool {
				a, b := inf.Paths[i], inf.Paths[j]
				ta, tb := strings.HasPrefix(a, "testdata/"), strings.HasPrefix(b, "testdata/")
				if ta != tb {
					return !ta // production-looking names first
				}
				da, db := strings.HasPrefix(filepath.Base(a), "."), strings.HasPrefix(filepath.Base(b), ".")
				if da != db {
					return !da // "x.jar" before the degenerate ".jar"
				}
				if len(a) != len(b) {
					return len(a) < len(b)
				}
				return a < b
			})
			sort.Slice(inf.Fixtures, func(i, j int) bool { return inf.Fixtures[i].Rel < inf.Fixtures[j].Rel })
			if len(inf.Fixtures) == 0 {
				inf.Fixtures = append(inf.Fixtures, fixture{Rel: syntheticSeed, Size: 27})
			}
			inf.Companions = companionTable[inf.Name]
			out = append(out, inf)
		}
	}
	return out, nil
}

// pickPaths returns at most n production paths of distinct classes (deterministic).
func pickPaths(inf *exInfo, n int) []string {
	out := []string{}
	seen := map[string]bool{}
	for _, p := range inf.Paths {
		c := pathClass(p)
		if seen[c] {
			continue
		}
		seen[c] = true
		out = append(out, p)
		if len(out) == n {
			break
		}
	}
	return out
}

func init() {
	// `list`: dumps the registry facts (one JSON object per extractor).
	Register("list", func(e *Env) error {
		reg, err := loadRegistry(e)
		if err != nil {
			return err
		}
		if e.Args["formats"] != "" {
			n, _ := strconv.Atoi(e.Args["formats"])
			if err := computeFormats(e, reg, n); err != nil {
				return err
			}
		}
		f, err := os.Create(e.Out)
		if err != nil {
			return err
		}
		defer f.Close()
		enc := json.NewEncoder(f)
		for _, inf := range reg {
			if err := enc.Encode(inf); err != nil {
				return err
			}
		}
		return nil
	})
}
