package main

// C02(a): robustness of every offline built-in extractor on structure-aware mutations of its own
// fixtures. Input: the plans emitted by spec/MutationPlan.tla (ndjson). The product
// extractor x fixture (<= 256 KiB, under the package's testdata) x production path x plan is taken
// here. Every evaluation writes the mutated bytes at the production path below a scratch root,
// opens it through the scan FS as filesystem.runExtractor does and calls the REAL Extract in a
// child process (pool.go) under recover, a watchdog (soft 10 s, confirmed only if 100 s also
// pass) and an allocation budget (live heap + stacks above the level before the call, sampled
// every 5 ms, 1 GiB). Outcome classes: Returned | Panic | Timeout | OOM.

import (
	"bufio"
	"bytes"
	"crypto/sha256"
	"encoding/base64"
	"encoding/json"
	"fmt"
	"hash/fnv"
	"math/rand"
	"os"
	"runtime"
	"runtime/metrics"
	"slices"
	"sort"
	"strconv"
	"strings"
	"time"

	. "verif/harness/hlib"

	scalibrfs "github.com/google/osv-scalibr/fs"
)

const maxConfirm = 3

type unit struct {
	U       int    `json:"u"`
	Ex      string `json:"ex"`
	Fixture string `json:"fixture"`
	Path    string `json:"path"`
	Exec    bool   `json:"exec"`
	Plans   []int  `json:"plans"` // indices into the plans file
	HardMs  int    `json:"hard_ms,omitempty"` // override of the confirmation budget (witnesses of listed finding classes)
	// Target != "": the plans are applied to this COMPANION file (seeded from Seed) while the required
	// file (Fixture at Path) stays as it is
	Target     string      `json:"target,omitempty"`
	Seed       string      `json:"seed,omitempty"`
	Companions []companion `json:"companions,omitempty"` // valid companion files present in the sandbox
}

func loadPlans(path string) ([]*plan, [][]byte, error) {
	f, err := os.Open(path)
	if err != nil {
		return nil, nil, err
	}
	defer f.Close()
	sc := bufio.NewScanner(f)
	sc.Buffer(make([]byte, 1<<20), 1<<26)
	out := []*plan{}
	raws := [][]byte{}
	for sc.Scan() {
		b := bytes.TrimSpace(sc.Bytes())
		if len(b) == 0 {
			continue
		}
		p := &plan{}
		if err := json.Unmarshal(b, p); err != nil {
			return nil, nil, err
		}
		out = append(out, p)
		raws = append(raws, append([]byte(nil), b...))
	}
	return out, raws, sc.Err()
}

func argInt(e *Env, k string, def int) int {
	if v, err := strconv.Atoi(e.Args[k]); err == nil {
		return v
	}
	return def
}

// ---- child: evaluates the plans of one unit, sequentially ----

var heapSamples = []metrics.Sample{{Name: "/memory/classes/heap/objects:bytes"}, {Name: "/memory/classes/heap/stacks:bytes"}}

func liveBytes() uint64 {
	metrics.Read(heapSamples)
	return heapSamples[0].Value.Uint64() + heapSamples[1].Value.Uint64()
}

type evalRes struct {
	pkgs  int
	err   error
	panic string
	bad   string // the returned inventory cannot be consumed by the engine
}

var (
	childPlans    []*plan
	childPlansErr error
	childLoaded   bool
	childReg      map[string]*exInfo
)

func mutateChild(e *Env, job []byte, m *emitter) error {
	if !childLoaded {
		childPlans, _, childPlansErr = loadPlans(e.Args["plans"])
		reg, err := loadRegistryLight(e)
		if err != nil {
			return err
		}
		childReg = reg
		childLoaded = true
	}
	if childPlansErr != nil {
		return childPlansErr
	}
	var u unit
	if err := json.Unmarshal(job, &u); err != nil {
		return err
	}
	soft := time.Duration(argInt(e, "soft_ms", 10000)) * time.Millisecond
	hard := time.Duration(argInt(e, "hard_ms", 100000)) * time.Millisecond
	budget := uint64(argInt(e, "budget_mib", 1024)) << 20
	if u.HardMs > 0 {
		hard = time.Duration(u.HardMs) * time.Millisecond
	}
	inf := childReg[u.Ex]
	if inf == nil {
		return fmt.Errorf("unknown extractor %q", u.Ex)
	}
	data, err := fixtureBytes(repoDir(e), u.Fixture)
	if err != nil {
		return err
	}
	root, err := os.MkdirTemp(e.Tmp, "mu-")
	if err != nil {
		return err
	}
	defer os.RemoveAll(root)
	if u.Target != "" {
		if err := writeAt(root, u.Path, data, u.Exec); err != nil {
			return err
		}
		if data, err = fixtureBytes(repoDir(e), u.Seed); err != nil {
			return err
		}
	}
	// files the extractor reads next to the required one are present and valid
	for _, c := range u.Companions {
		if c.Path == u.Target || c.Path == u.Path {
			continue
		}
		if u.Target == osReleasePaths[1] && c.Path == osReleasePaths[0] {
			continue // usr/lib/os-release is read only when etc/os-release is absent
		}
		cd, err := fixtureBytes(repoDir(e), c.Fixture)
		if err != nil {
			return err
		}
		if err := writeAt(root, c.Path, cd, false); err != nil {
			return err
		}
	}
	sfs := scalibrfs.DirFS(root)
	n, changed, errs, withPkgs := 0, 0, 0, 0
	var maxDur time.Duration
	slow := []int{}
	abandoned := 0
	for k, pi := range u.Plans {
		if pi < 0 || pi >= len(childPlans) {
			return fmt.Errorf("plan index %d out of range", pi)
		}
		if tooManyHangs(e, u.Ex) {
			abandoned = len(u.Plans) - k
			break
		}
		mut := applyPlan(data, childPlans[pi])
		nontrivial := !bytes.Equal(mut, data)
		if u.Target != "" {
			if err := writeAt(root, u.Target, mut, false); err != nil {
				return err
			}
		} else if err := writeAt(root, u.Path, mut, u.Exec); err != nil {
			return err
		}
		ex, err := boundedExtractor(u.Ex)
		if err != nil {
			return err
		}
		m.begin(map[string]any{"u": u.U, "p": pi})
		o := evaluate(e, u.Ex, ex, sfs, root, u.Path, soft, hard, budget)
		class, res, peak, dur := o.class, o.res, o.peak, o.dur
		if o.wasSlow {
			slow = append(slow, pi)
		}
		if dur > maxDur {
			maxDur = dur
		}
		n++
		if nontrivial {
			changed++
		}
		switch class {
		case "Returned":
			if res.err != nil {
				errs++
			}
			if res.pkgs > 0 {
				withPkgs++
			}
		case "Panic":
			m.result(map[string]any{"u": u.U, "p": pi, "class": class, "detail": res.panic, "nontrivial": nontrivial, "ms": dur.Milliseconds()})
		case "BadInventory":
			m.result(map[string]any{"u": u.U, "p": pi, "class": class, "detail": res.bad + fmt.Sprintf(" (Extract returned err=%v)", res.err), "nontrivial": nontrivial, "ms": dur.Milliseconds()})
		default:
			// the evaluation is still running and cannot be stopped: report, then give up this process
			m.result(map[string]any{"u": u.U, "p": pi, "class": class, "nontrivial": nontrivial, "ms": dur.Milliseconds(), "peak_bytes": peak,
				"detail": fmt.Sprintf("%s after %s; live heap+stacks above baseline: %d MiB\n%s", class, dur.Round(time.Millisecond), peak>>20, extractGoroutine())})
			m.result(map[string]any{"u": u.U, "summary": true, "partial": true, "n": n, "changed": changed, "errs": errs, "with_pkgs": withPkgs, "max_ms": maxDur.Milliseconds(), "slow": slow})
			os.Exit(3)
		}
	}
	m.result(map[string]any{"u": u.U, "summary": true, "n": n, "changed": changed, "errs": errs, "with_pkgs": withPkgs, "max_ms": maxDur.Milliseconds(), "slow": slow, "abandoned": abandoned})
	return nil
}

// extractGoroutine returns the stack of the goroutine that is inside Extract (for Timeout/OOM reports).
func extractGoroutine() string {
	buf := make([]byte, 4<<20)
	buf = buf[:runtime.Stack(buf, true)]
	for _, g := range strings.Split(string(buf), "\n\n") {
		if strings.Contains(g, "main.callExtract") {
			if len(g) > 5000 {
				g = g[:2500] + "\n...\n" + g[len(g)-2500:]
			}
			return g
		}
	}
	return ""
}

// loadRegistryLight: name -> info (no fixtures walk needed by the child beyond what loadRegistry does)
func loadRegistryLight(e *Env) (map[string]*exInfo, error) {
	reg, err := loadRegistry(e)
	if err != nil {
		return nil, err
	}
	out := map[string]*exInfo{}
	for _, r := range reg {
		out[r.Name] = r
	}
	return out, nil
}

// ---- parent ----

// knownClass is an OPEN finding class listed in known_findings.json (passed in by the orchestrator):
// a predicate over scenarios. Scenarios in the class are expected to fail, so only the first
// `Witnesses` of them per extractor are evaluated (enough to report the finding); the others are
// counted as skipped. Classes that are not listed are never skipped.
type knownClass struct {
	ID         string   `json:"id"`
	Extractors []string `json:"extractors"`
	Ops        []struct {
		Op   string   `json:"op"`
		X    []string `json:"x"`
		MinI int      `json:"min_i"`
	} `json:"ops"` // empty: every plan
	Witnesses int `json:"witnesses"`
	// Prefer: plan strings (plan.String()) of recorded concrete witnesses; they are evaluated first
	Prefer []string `json:"prefer"`
}

func (k *knownClass) matches(ex string, p *plan) bool {
	ok := false
	for _, e := range k.Extractors {
		if e == ex {
			ok = true
		}
	}
	if !ok {
		return false
	}
	if len(k.Ops) == 0 {
		return true
	}
	for _, o := range p.Ops {
		for _, ko := range k.Ops {
			if ko.Op != o.Op || o.I < ko.MinI {
				continue
			}
			if len(ko.X) == 0 {
				return true
			}
			for _, x := range ko.X {
				if x == o.X {
					return true
				}
			}
		}
	}
	return false
}

// planSubset: all plans of depth <= 1 (or a stratified sample of n1 of them), plus a stratified
// sample of n2 plans of depth 2 (0 = all, < 0 = none).
func planSubset(plans []*plan, n1, n2 int, seed int64, key string) []int {
	d1, d2 := []*plan{}, []*plan{}
	i1, i2 := []int{}, []int{}
	for i, p := range plans {
		if len(p.Ops) <= 1 {
			d1 = append(d1, p)
			i1 = append(i1, i)
		} else {
			d2 = append(d2, p)
			i2 = append(i2, i)
		}
	}
	out := []int{}
	for _, j := range stratifiedPlans(d1, n1, seed, key+"|1") {
		out = append(out, i1[j])
	}
	if n2 >= 0 && len(d2) > 0 {
		for _, j := range stratifiedPlans(d2, n2, seed, key+"|2") {
			out = append(out, i2[j])
		}
	}
	sort.Ints(out)
	return out
}

func stratifiedPlans(plans []*plan, n int, seed int64, key string) []int {
	all := make([]int, len(plans))
	for i := range plans {
		all[i] = i
	}
	if n <= 0 || n >= len(plans) {
		return all
	}
	h := fnv.New64a()
	fmt.Fprintf(h, "%d|%s", seed, key)
	rng := rand.New(rand.NewSource(int64(h.Sum64())))
	strata := map[string][]int{}
	keys := []string{}
	for i, p := range plans {
		k := "0:Identity"
		if len(p.Ops) > 0 {
			k = fmt.Sprintf("%d:%s", len(p.Ops), p.Ops[0].Op)
			if p.Ops[0].Op == "ReplaceTokenClass" || p.Ops[0].Op == "Nest" || p.Ops[0].Op == "ZipEdit" {
				k += ":" + p.Ops[0].X
			}
		}
		if _, ok := strata[k]; !ok {
			keys = append(keys, k)
		}
		strata[k] = append(strata[k], i)
	}
	sort.Strings(keys)
	out := []int{}
	for _, k := range keys {
		s := strata[k]
		want := (n*len(s) + len(plans) - 1) / len(plans)
		if want < 1 {
			want = 1
		}
		if want > len(s) {
			want = len(s)
		}
		perm := rng.Perm(len(s))
		for _, j := range perm[:want] {
			out = append(out, s[j])
		}
	}
	sort.Ints(out)
	return out
}

func init() {
	workerKinds["mutate"] = mutateChild

	// `mutate`: -in plans.ndjson; -a sample=N (plans per unit, 0 = all) -a seed=S -a paths=K
	//           -a deadline_s=T (stop handing out units after T seconds; the rest is reported as not run)
	//           -a ex=.. -a fixture=.. -a path=..  (filters, used by --replay)
	Register("mutate", func(e *Env) error {
		plans, _, err := loadPlans(e.In)
		if err != nil {
			return err
		}
		if len(plans) == 0 {
			return fmt.Errorf("no plans in %s", e.In)
		}
		reg, err := loadRegistry(e)
		if err != nil {
			return err
		}
		n1, n2, seed, npaths := argInt(e, "sample1", 0), argInt(e, "sample2", 0), int64(argInt(e, "seed", 1)), argInt(e, "paths", 2)
		chunk := argInt(e, "chunk", 128)
		// caps: "extractor:n1:n2,..." smaller samples for extractors whose evaluations are slow by design
		caps := map[string][2]int{}
		for _, c := range strings.Split(e.Args["cap"], ",") {
			f := strings.Split(c, ":")
			if len(f) == 3 {
				a, _ := strconv.Atoi(f[1])
				b, _ := strconv.Atoi(f[2])
				caps[f[0]] = [2]int{a, b}
			}
		}
		known := []*knownClass{}
		if kf := e.Args["known"]; kf != "" {
			b, err := os.ReadFile(kf)
			if err != nil {
				return err
			}
			if err := json.Unmarshal(b, &known); err != nil {
				return err
			}
		}
		skippedKnown := map[string]int{}
		witness := map[[2]int]bool{} // (unit, plan) pairs evaluated only as witnesses of a listed class
		pick := func(un int, exName, fx, p string) []int {
			a, b := n1, n2
			if c, ok := caps[exName]; ok {
				a, b = c[0], c[1]
			}
			return planSubset(plans, a, b, seed, exName+"|"+fx+"|"+p)
		}
		deadline := time.Duration(argInt(e, "deadline_s", 0)) * time.Second
		repo := repoDir(e)
		units := []*unit{}
		sizes := map[int]int64{}
		meta := map[string]any{}
		skipped := []map[string]string{}
		covered := []map[string]any{}
		// probing the unmodified fixtures: natural path of each fixture, companions each extractor reads
		if err := computeFormats(e, reg, 8); err != nil {
			return err
		}
		companionUnits, memberSkipped := 0, 0
		noSeedNotes := []string{}
		zipCount := map[string]int{}
		members := func(fx string) int {
			if n, ok := zipCount[fx]; ok {
				return n
			}
			data, err := fixtureBytes(repo, fx)
			n := -1
			if err == nil {
				n = zipMemberCount(data)
			}
			zipCount[fx] = n
			return n
		}
		// plans that address an archive member make sense only for fixtures that are archives with such a member
		applicable := func(fx string, idx []int) []int {
			out := idx[:0:0]
			for _, pi := range idx {
				if k := plans[pi].member(); k >= 0 && k >= members(fx) {
					memberSkipped++
					continue
				}
				out = append(out, pi)
			}
			return out
		}
		for _, inf := range reg {
			if !inf.Offline {
				skipped = append(skipped, map[string]string{"extractor": inf.Name, "reason": inf.SkipReason})
				continue
			}
			paths := pickPaths(inf, npaths)
			if len(paths) == 0 {
				skipped = append(skipped, map[string]string{"extractor": inf.Name, "reason": "no production path found that FileRequired accepts"})
				continue
			}
			if e.Args["ex"] != "" && e.Args["ex"] != inf.Name {
				continue
			}
			if e.Args["skipex"] != "" && strings.Contains(","+e.Args["skipex"]+",", ","+inf.Name+",") {
				continue
			}
			nu := 0
			comps, noSeed := allCompanions(inf)
			for _, ns := range noSeed {
				noSeedNotes = append(noSeedNotes, inf.Name+": "+ns)
			}
			for _, fx := range inf.Fixtures {
				if e.Args["fixture"] != "" && e.Args["fixture"] != fx.Rel {
					continue
				}
				// the first path classes, plus the class on which this fixture is extracted best
				fpaths := append([]string(nil), paths...)
				if bp := inf.bestPath[fx.Rel]; bp != "" && inf.bestScore[fx.Rel] > 0 && !slices.Contains(fpaths, bp) {
					fpaths = append(fpaths, bp)
				}
				for _, p := range fpaths {
					if e.Args["path"] != "" && e.Args["path"] != p {
						continue
					}
					if e.Args["target"] != "" {
						continue
					}
					u := &unit{U: len(units), Ex: inf.Name, Fixture: fx.Rel, Path: p, Exec: inf.NeedExec[p], Companions: comps}
					u.Plans = applicable(fx.Rel, pick(u.U, inf.Name, fx.Rel, p))
					sizes[u.U] = fx.Size
					units = append(units, u)
					nu++
				}
			}
			// companion units: the required file stays valid, the depth-1 plans are applied to the companion
			for _, c := range comps {
				main := inf.openedBy[c.Path]
				if main[0] == "" && len(inf.Formats) > 0 {
					main = [2]string{inf.Formats[0].Fixture, inf.Formats[0].Path}
				}
				if main[0] == "" || main[0] == c.Fixture && main[1] == c.Path {
					continue
				}
				if e.Args["fixture"] != "" && e.Args["fixture"] != main[0] || e.Args["path"] != "" && e.Args["path"] != main[1] {
					continue
				}
				if e.Args["target"] != "" && e.Args["target"] != c.Path || e.Args["target"] == "" && e.Args["path"] != "" {
					continue
				}
				u := &unit{U: len(units), Ex: inf.Name, Fixture: main[0], Path: main[1], Exec: inf.NeedExec[main[1]], Companions: comps,
					Target: c.Path, Seed: c.Fixture}
				for _, pi := range pick(u.U, inf.Name, main[0], main[1]+"|"+c.Path) {
					if len(plans[pi].Ops) <= 1 && plans[pi].member() < 0 {
						u.Plans = append(u.Plans, pi)
					}
				}
				units = append(units, u)
				companionUnits++
				nu++
			}
			if e.Args["ex"] != "" && e.Args["path"] != "" && e.Args["target"] == "" && nu == 0 {
				// replay of a path outside today's pick: take it as given
				for _, fx := range inf.Fixtures {
					if e.Args["fixture"] == "" || e.Args["fixture"] == fx.Rel {
						u := &unit{U: len(units), Ex: inf.Name, Fixture: fx.Rel, Path: e.Args["path"], Exec: !acceptsMode(inf.Ex, e.Args["path"], 0o644), Companions: comps}
						u.Plans = pick(u.U, inf.Name, fx.Rel, u.Path)
						units = append(units, u)
						nu++
					}
				}
			}
			covered = append(covered, map[string]any{"extractor": inf.Name, "fixtures": len(inf.Fixtures), "fixtures_over_256k": inf.BigSkipped, "paths": paths, "units": nu})
		}
		_ = repo
		// scenarios inside a listed finding class: evaluate `Witnesses` of them per <class, extractor>
		// (recorded witnesses first, then a seeded choice), skip the others
		if len(known) > 0 {
			type cand struct{ u, pi int }
			cands := map[string][]cand{}
			order := []string{}
			for _, u := range units {
				for _, pi := range u.Plans {
					for _, k := range known {
						if k.matches(u.Ex, plans[pi]) {
							key := k.ID + "|" + u.Ex
							if _, ok := cands[key]; !ok {
								order = append(order, key)
							}
							cands[key] = append(cands[key], cand{u.U, pi})
							break
						}
					}
				}
			}
			drop := map[[2]int]bool{}
			for _, key := range order {
				var k *knownClass
				for _, kk := range known {
					if strings.HasPrefix(key, kk.ID+"|") {
						k = kk
					}
				}
				cs := cands[key]
				h := fnv.New64a()
				fmt.Fprintf(h, "%d|%s", seed, key)
				rng := rand.New(rand.NewSource(int64(h.Sum64())))
				rng.Shuffle(len(cs), func(i, j int) { cs[i], cs[j] = cs[j], cs[i] })
				pref := map[string]bool{}
				for _, p := range k.Prefer {
					pref[p] = true
				}
				sort.SliceStable(cs, func(i, j int) bool {
					return pref[plans[cs[i].pi].String()] && !pref[plans[cs[j].pi].String()]
				})
				for i, c := range cs {
					if i < k.Witnesses {
						witness[[2]int{c.u, c.pi}] = true
					} else {
						drop[[2]int{c.u, c.pi}] = true
						skippedKnown[k.ID]++
					}
				}
			}
			for _, u := range units {
				kept := u.Plans[:0:0]
				for _, pi := range u.Plans {
					if !drop[[2]int{u.U, pi}] {
						kept = append(kept, pi)
					}
				}
				u.Plans = kept
			}
		}
		// big fixtures first (long jobs early), deterministic
		order := make([]int, len(units))
		for i := range order {
			order[i] = i
		}
		sort.SliceStable(order, func(a, b int) bool { return sizes[order[a]] > sizes[order[b]] })
		jobs := make([][]byte, 0, len(units))
		jobUnit := []int{}
		for _, i := range order {
			u := *units[i]
			all := []int{}
			wit := []int{}
			for _, pi := range u.Plans {
				if witness[[2]int{u.U, pi}] {
					wit = append(wit, pi)
				} else {
					all = append(all, pi)
				}
			}
			for _, pi := range wit {
				// a witness of a listed finding is expected to fail: no 10x confirmation, one per job
				w := u
				w.Plans = []int{pi}
				w.HardMs = argInt(e, "soft_ms", 10000)
				b, _ := json.Marshal(w)
				jobs = append(jobs, b)
				jobUnit = append(jobUnit, i)
			}
			for a := 0; a < len(all); a += chunk {
				u.Plans = all[a:min(a+chunk, len(all))]
				b, _ := json.Marshal(u)
				jobs = append(jobs, b)
				jobUnit = append(jobUnit, i)
			}
		}
		outf, err := os.Create(e.Out)
		if err != nil {
			return err
		}
		defer outf.Close()
		w := bufio.NewWriterSize(outf, 1<<20)
		defer w.Flush()
		enc := func(v any) {
			b, _ := json.Marshal(v)
			w.Write(b)
			w.WriteByte('\n')
		}
		reported := map[[2]int]bool{}
		withBytes := map[string]int{}
		startFail := 0
		t0 := time.Now()
		notRun := 0
		finding := func(u *unit, pi int, class, detail string, extra map[string]any) {
			src := u.Fixture
			if u.Target != "" {
				src = u.Seed
			}
			data, _ := fixtureBytes(repoDir(e), src)
			mut := applyPlan(data, plans[pi])
			rec := map[string]any{"finding": true, "u": u.U, "ex": u.Ex, "fixture": u.Fixture, "path": u.Path, "exec": u.Exec, "p": pi, "target": u.Target, "seed": u.Seed,
				"plan": plans[pi], "plan_str": plans[pi].String(), "class": class, "detail": detail,
				"nontrivial": !bytes.Equal(mut, data), "size": len(mut), "sha256": fmt.Sprintf("%x", sha256.Sum256(mut))}
			// the reproducing bytes: always for small files, and for the first findings of each <extractor, class>
			withBytes[u.Ex+"|"+class]++
			if len(mut) <= 4096 || withBytes[u.Ex+"|"+class] <= 40 {
				rec["bytes_b64"] = base64.StdEncoding.EncodeToString(mut)
			}
			for k, v := range extra {
				rec[k] = v
			}
			enc(rec)
		}
		pc := &poolCfg{Kind: "mutate", Workers: e.Workers, Silence: 130 * time.Second,
			Args: []string{"plans=" + e.In},
			OnResult: func(job int, line []byte) {
				var r struct {
					U       int    `json:"u"`
					P       int    `json:"p"`
					Class   string `json:"class"`
					Detail  string `json:"detail"`
					Summary bool   `json:"summary"`
					Ms      int64  `json:"ms"`
					Peak    uint64 `json:"peak_bytes"`
				}
				if json.Unmarshal(line, &r) != nil {
					return
				}
				if r.Summary {
					w.Write(line)
					w.WriteByte('\n')
					return
				}
				reported[[2]int{r.U, r.P}] = true
				if r.Class == "Slow" {
					u := units[r.U]
					enc(map[string]any{"slow_unconfirmed": true, "ex": u.Ex, "fixture": u.Fixture, "path": u.Path, "plan_str": plans[r.P].String(), "ms": r.Ms})
					return
				}
				finding(units[r.U], r.P, r.Class, r.Detail, map[string]any{"ms": r.Ms, "peak_bytes": r.Peak})
			},
			OnDeath: func(job int, jobRaw []byte, d death) []byte {
				var u unit
				_ = json.Unmarshal(jobRaw, &u)
				var lb struct {
					U int `json:"u"`
					P int `json:"p"`
				}
				if d.LastBegin == nil || json.Unmarshal(d.LastBegin, &lb) != nil {
					startFail++
					if startFail > 5 {
						enc(map[string]any{"harness_fatal": "children keep dying before their first evaluation: " + d.Why + "\n" + d.Stderr})
						return nil
					}
					return jobRaw
				}
				if !reported[[2]int{lb.U, lb.P}] {
					class := "Panic"
					switch {
					case strings.HasPrefix(d.Why, "killed by the parent"):
						class = "Timeout"
					case strings.Contains(d.Stderr, "out of memory") || strings.Contains(d.Stderr, "cannot allocate memory"):
						class = "OOM"
					}
					reported[[2]int{lb.U, lb.P}] = true
					finding(units[lb.U], lb.P, class, "the process died (not recoverable): "+d.Why+"\n"+d.Stderr, map[string]any{"fatal": true})
				}
				rest := []int{}
				seen := false
				for _, pi := range u.Plans {
					if seen {
						rest = append(rest, pi)
					}
					if pi == lb.P {
						seen = true
					}
				}
				if len(rest) == 0 {
					return nil
				}
				u.Plans = rest
				b, _ := json.Marshal(u)
				return b
			}}
		perr := runPoolDeadline(e, pc, jobs, deadline, func(job int) { notRun++; enc(map[string]any{"not_run": true, "u": jobUnit[job]}) })
		meta["plans"] = len(plans)
		meta["units"] = len(units)
		meta["jobs_not_run"] = notRun
		meta["skipped_known_class"] = skippedKnown
		meta["companion_units"] = companionUnits
		meta["companions_without_seed"] = noSeedNotes
		meta["member_plans_not_applicable"] = memberSkipped
		meta["skipped"] = skipped
		meta["covered"] = covered
		meta["wall_s"] = time.Since(t0).Seconds()
		ul := []map[string]any{}
		for _, u := range units {
			ul = append(ul, map[string]any{"u": u.U, "ex": u.Ex, "fixture": u.Fixture, "path": u.Path, "target": u.Target, "plans": len(u.Plans)})
		}
		meta["unit_list"] = ul
		enc(map[string]any{"meta": meta})
		return perr
	})
}
