package main

// Byte-level meaning of the operators of spec/MutationPlan.tla. Deterministic: the same plan on
// the same fixture always yields the same bytes (findings are identified by <extractor, fixture, plan>).

import (
	"archive/zip"
	"bytes"
	"io"
	"encoding/binary"
	"strconv"
	"strings"
)

const maxOut = 1 << 20  // every mutated file is clamped to this size
const maxNest = 256 << 10 // bytes of nesting syntax a Nest operator may add

type mop struct {
	Op string `json:"op"`
	I  int    `json:"i"`
	J  int    `json:"j"`
	K  int    `json:"k"`
	X  string `json:"x"`
	Y  string `json:"y"`
	Z  string `json:"z"`
}

type plan struct {
	// Member >= 0: the operators are applied to the decompressed content of the Member-th entry
	// (archive order) of a zip/jar/egg/whl fixture, which is then re-packed; -1 / absent: the whole file
	Member  *int     `json:"member,omitempty"`
	Ops     []mop    `json:"ops"`
	Depth   int      `json:"depth"`
	Allowed []string `json:"allowed"`
}

func (p *plan) String() string {
	parts := []string{}
	for _, o := range p.Ops {
		switch o.Op {
		case "Truncate":
			parts = append(parts, "Truncate("+strconv.Itoa(o.I)+"/16)")
		case "DropSpan", "DupSpan":
			parts = append(parts, o.Op+"("+strconv.Itoa(o.I)+","+strconv.Itoa(o.J)+")/"+strconv.Itoa(o.K))
		case "SwapSpans":
			parts = append(parts, "SwapSpans("+strconv.Itoa(o.I)+","+strconv.Itoa(o.J)+","+strconv.Itoa(o.K)+")/"+o.Z)
		case "ReplaceTokenClass":
			if o.Z == "nth" {
				parts = append(parts, "Replace("+o.X+"->"+o.Y+",#"+strconv.Itoa(o.I)+")")
			} else {
				parts = append(parts, "Replace("+o.X+"->"+o.Y+","+o.Z+")")
			}
		case "Nest":
			parts = append(parts, "Nest("+o.X+","+strconv.Itoa(o.I)+","+o.Y+")")
		case "HeaderEdit":
			parts = append(parts, "HeaderEdit("+o.X+",word"+strconv.Itoa(o.I)+","+o.Y+")")
		case "ZipEdit":
			parts = append(parts, "ZipEdit("+o.X+"."+o.Y+","+o.Z+")")
		case "WhitespaceOnly":
			parts = append(parts, "WhitespaceOnly("+o.X+")")
		case "Literal":
			parts = append(parts, "Literal("+o.X+")")
		case "ValueLiteral":
			parts = append(parts, "ValueLiteral(#"+strconv.Itoa(o.I)+","+o.X+")")
		case "ShrinkToken":
			parts = append(parts, "ShrinkToken(#"+strconv.Itoa(o.I)+",head"+strconv.Itoa(o.J)+",tail"+strconv.Itoa(o.K)+")")
		default:
			parts = append(parts, o.Op)
		}
	}
	if len(parts) == 0 {
		parts = []string{"Identity"}
	}
	if p.member() >= 0 {
		return "InMember(" + strconv.Itoa(p.member()) + "):" + strings.Join(parts, ";")
	}
	return strings.Join(parts, ";")
}

func (p *plan) member() int {
	if p.Member == nil {
		return -1
	}
	return *p.Member
}

func clamp(b []byte) []byte {
	if len(b) > maxOut {
		return b[:maxOut]
	}
	return b
}

func pos(n, i, g int) int {
	if g <= 0 {
		return 0
	}
	p := n * i / g
	if p > n {
		p = n
	}
	return p
}

func applyPlan(data []byte, p *plan) []byte {
	if k := p.member(); k >= 0 {
		return applyInMember(data, k, p)
	}
	out := append([]byte(nil), data...)
	for _, o := range p.Ops {
		out = clamp(applyOp(out, o))
	}
	return out
}

func applyOp(d []byte, o mop) []byte {
	n := len(d)
	switch o.Op {
	case "Truncate":
		return d[:pos(n, o.I, o.J)]
	case "DropSpan":
		a, b := pos(n, o.I, o.K), pos(n, o.J, o.K)
		return append(append([]byte(nil), d[:a]...), d[b:]...)
	case "DupSpan":
		a, b := pos(n, o.I, o.K), pos(n, o.J, o.K)
		out := append([]byte(nil), d[:b]...)
		out = append(out, d[a:b]...)
		return append(out, d[b:]...)
	case "SwapSpans":
		g, _ := strconv.Atoi(o.Z)
		a, b, c := pos(n, o.I, g), pos(n, o.J, g), pos(n, o.K, g)
		out := append([]byte(nil), d[:a]...)
		out = append(out, d[b:c]...)
		out = append(out, d[a:b]...)
		return append(out, d[c:]...)
	case "Empty":
		return []byte{}
	case "Literal":
		return []byte(map[string]string{"null": "null", "array": "[]", "object": "{}", "quote": "\"", "zero": "0", "true": "true",
			"tilde": "~", "lt": "<", "dashes": "---\n", "string": "\"x\""}[o.X])
	case "ValueLiteral":
		// the value of the n-th line that has a key separator becomes a degenerate literal
		lit := map[string]string{"quote": "\"", "apos": "'", "null": "null", "empty": ""}[o.X]
		lines := bytes.SplitAfter(d, []byte("\n"))
		k := 0
		for li, ln := range lines {
			sep := bytes.IndexAny(ln, "=:")
			if sep <= 0 {
				continue
			}
			if k == o.I {
				nl := ""
				if bytes.HasSuffix(ln, []byte("\n")) {
					nl = "\n"
				}
				lines[li] = append(append(append([]byte(nil), ln[:sep+1]...), []byte(lit)...), []byte(nl)...)
				return bytes.Join(lines, nil)
			}
			k++
		}
		return d
	case "ShrinkToken":
		// the n-th word that is longer than head+tail keeps only its first `head` and last `tail` bytes
		k := 0
		for _, sp := range tokens(d, o.X) {
			if sp.b-sp.a <= o.J+o.K {
				continue
			}
			if k == o.I {
				out := append([]byte(nil), d[:sp.a+o.J]...)
				out = append(out, d[sp.b-o.K:sp.b]...)
				return append(out, d[sp.b:]...)
			}
			k++
		}
		return d
	case "WhitespaceOnly":
		switch o.X {
		case "spaces":
			return bytes.Repeat([]byte(" "), 64)
		case "newlines":
			return bytes.Repeat([]byte("\n"), 64)
		default:
			return bytes.Repeat([]byte("\r\n\t "), 16)
		}
	case "ReplaceTokenClass":
		return replaceTokens(d, o.X, o.Y, o.Z, o.I)
	case "Nest":
		return nest(d, o.X, o.I, o.Y)
	case "HeaderEdit":
		return headerEdit(d, o.X, o.I, o.Y)
	case "ZipEdit":
		return zipEdit(d, o.X, o.Y, o.Z)
	}
	return d
}

// ---- token classes ----

type span struct{ a, b int }

func tokens(d []byte, class string) []span {
	out := []span{}
	in := func(c byte, set string) bool { return strings.IndexByte(set, c) >= 0 }
	switch class {
	case "word":
		isw := func(c byte) bool {
			return c >= '0' && c <= '9' || c >= 'a' && c <= 'z' || c >= 'A' && c <= 'Z' || c == '_' || c == '-' || c == '.'
		}
		for i := 0; i < len(d); {
			if isw(d[i]) {
				j := i
				for j < len(d) && isw(d[j]) {
					j++
				}
				out = append(out, span{i, j})
				i = j
			} else {
				i++
			}
		}
	case "digits":
		for i := 0; i < len(d); {
			if d[i] >= '0' && d[i] <= '9' {
				j := i
				for j < len(d) && d[j] >= '0' && d[j] <= '9' {
					j++
				}
				out = append(out, span{i, j})
				i = j
			} else {
				i++
			}
		}
	case "qstring":
		// a double-quoted string, quotes included (no escapes inside, at most 200 bytes, on one line)
		for i := 0; i < len(d); i++ {
			if d[i] != '"' {
				continue
			}
			j := i + 1
			for j < len(d) && j-i <= 200 && d[j] != '"' && d[j] != '\\' && d[j] != '\n' {
				j++
			}
			if j < len(d) && d[j] == '"' {
				out = append(out, span{i, j + 1})
				i = j
			}
		}
	case "innerobj":
		// an innermost {...} group (no braces inside, at most 400 bytes)
		for i := 0; i < len(d); i++ {
			if d[i] != '{' {
				continue
			}
			j := i + 1
			for j < len(d) && j-i <= 400 && d[j] != '{' && d[j] != '}' {
				j++
			}
			if j < len(d) && d[j] == '}' {
				out = append(out, span{i, j + 1})
				i = j
			}
		}
	default:
		set := map[string]string{"quote": "\"'", "open": "{[<(", "close": "}]>)", "newline": "\n", "sep": ":=,", "slash": "/\\", "punct": "@#$%&*+;!?|~^"}[class]
		for i := 0; i < len(d); i++ {
			if in(d[i], set) {
				out = append(out, span{i, i + 1})
			}
		}
	}
	return out
}

var longLine = bytes.Repeat([]byte("A"), 4096)

func replacement(tok []byte, class, repl string) []byte {
	switch repl {
	case "none":
		return nil
	case "dup":
		return append(append([]byte(nil), tok...), tok...)
	case "nul":
		return []byte{0}
	case "digits20":
		return []byte("99999999999999999999")
	case "minus1":
		return []byte("-1")
	case "longline":
		return longLine
	case "null":
		return []byte("null")
	case "lower":
		return bytes.ToLower(tok)
	case "upper":
		return bytes.ToUpper(tok)
	case "cr":
		return []byte("\r")
	case "crlf":
		return []byte("\r\n")
	case "badutf8":
		return []byte{0xff, 0xfe}
	case "other":
		if tok[0] == '"' {
			return []byte("'")
		}
		return []byte("\"")
	case "flip":
		const opens, closes = "{[<(", "}]>)"
		if i := strings.IndexByte(opens, tok[0]); i >= 0 {
			return []byte{closes[i]}
		}
		if i := strings.IndexByte(closes, tok[0]); i >= 0 {
			return []byte{opens[i]}
		}
	}
	return tok
}

func replaceTokens(d []byte, class, repl, sel string, nth int) []byte {
	toks := tokens(d, class)
	if len(toks) == 0 {
		return d
	}
	switch sel {
	case "first":
		toks = toks[:1]
	case "last":
		toks = toks[len(toks)-1:]
	case "nth":
		if nth >= len(toks) {
			return d
		}
		toks = toks[nth : nth+1]
	}
	out := make([]byte, 0, len(d))
	prev := 0
	for _, t := range toks {
		out = append(out, d[prev:t.a]...)
		out = append(out, replacement(d[t.a:t.b], class, repl)...)
		prev = t.b
		if len(out) > maxOut {
			return out[:maxOut]
		}
	}
	return append(out, d[prev:]...)
}

// ---- nesting ----

func nest(d []byte, kind string, n int, mode string) []byte {
	open, cl, core := "[", "]", "1"
	switch kind {
	case "json-object":
		open, cl = `{"a":`, "}"
	case "xml":
		open, cl, core = "<a>", "</a>", "x"
	case "toml-inline":
		open, cl, core = "a={", "}", "a=1"
	case "paren":
		open, cl = "(", ")"
	case "toml-table":
		if n > maxNest/2 {
			n = maxNest / 2
		}
		hdr := "[" + strings.Repeat("a.", n) + "a]\nb = 1\n"
		if mode == "wrap" {
			return append([]byte(hdr), d...)
		}
		return []byte(hdr)
	case "yaml-indent":
		// n levels of block mappings, indentation grows by one space per level (size O(n^2): clamp)
		var b bytes.Buffer
		for i := 0; i < n && b.Len() < maxNest; i++ {
			b.WriteString(strings.Repeat(" ", i))
			b.WriteString("a:\n")
		}
		if mode == "wrap" {
			return append(b.Bytes(), d...)
		}
		return b.Bytes()
	}
	if n*(len(open)+len(cl)) > maxNest {
		n = maxNest / (len(open) + len(cl))
	}
	var b bytes.Buffer
	b.WriteString(strings.Repeat(open, n))
	if mode == "wrap" {
		b.Write(d)
	} else {
		b.WriteString(core)
	}
	b.WriteString(strings.Repeat(cl, n))
	return b.Bytes()
}

// ---- binary headers ----

func wordVal(v string) []byte {
	switch v {
	case "zero":
		return []byte{0, 0, 0, 0}
	case "ones":
		return []byte{0xff, 0xff, 0xff, 0xff}
	case "max31":
		return []byte{0xff, 0xff, 0xff, 0x7f} // little-endian 0x7fffffff
	default: // be31
		return []byte{0x7f, 0xff, 0xff, 0xff} // big-endian 0x7fffffff
	}
}

func headerEdit(d []byte, region string, word int, val string) []byte {
	off := 4 * word
	if region == "tail" {
		off = len(d) - 4*(word+1)
	}
	if off < 0 || off+4 > len(d) {
		return d
	}
	out := append([]byte(nil), d...)
	copy(out[off:], wordVal(val))
	return out
}

var zipLayout = map[string]map[string][2]int{ // field -> offset, size
	"lfh":  {"method": {8, 2}, "crc": {14, 4}, "csize": {18, 4}, "usize": {22, 4}, "namelen": {26, 2}, "extralen": {28, 2}},
	"cdh":  {"method": {10, 2}, "csize": {20, 4}, "usize": {24, 4}, "namelen": {28, 2}, "extralen": {30, 2}, "commentlen": {32, 2}, "offset": {42, 4}},
	"eocd": {"entries": {10, 2}, "cdsize": {12, 4}, "cdoffset": {16, 4}, "commentlen": {20, 2}},
}

func zipEdit(d []byte, st, field, val string) []byte {
	sig := map[string][]byte{"lfh": {'P', 'K', 3, 4}, "cdh": {'P', 'K', 1, 2}, "eocd": {'P', 'K', 5, 6}}[st]
	at := bytes.Index(d, sig)
	if st == "eocd" {
		at = bytes.LastIndex(d, sig)
	}
	if at < 0 {
		return d
	}
	f := zipLayout[st][field]
	off := at + f[0]
	if off+f[1] > len(d) {
		return d
	}
	out := append([]byte(nil), d...)
	w := wordVal(val)
	if f[1] == 2 {
		switch val {
		case "max31":
			w = []byte{0xff, 0x7f}
		case "be31":
			w = []byte{0x7f, 0xff}
		}
		copy(out[off:off+2], w[:2])
	} else {
		copy(out[off:off+4], w)
	}
	_ = binary.LittleEndian
	return out
}

// ---- archive members ----

// zipMemberCount returns the number of entries if data is a readable zip archive, else -1.
func zipMemberCount(data []byte) int {
	zr, err := zip.NewReader(bytes.NewReader(data), int64(len(data)))
	if err != nil {
		return -1
	}
	return len(zr.File)
}

// applyInMember applies the plan's operators to the decompressed content of the k-th entry and
// writes the archive anew (same entry names, order and compression methods). If data is not a zip
// archive, has no k-th entry or the entry cannot be read, the file is returned unchanged.
func applyInMember(data []byte, k int, p *plan) []byte {
	zr, err := zip.NewReader(bytes.NewReader(data), int64(len(data)))
	if err != nil || k >= len(zr.File) {
		return data
	}
	var buf bytes.Buffer
	zw := zip.NewWriter(&buf)
	for i, f := range zr.File {
		rc, err := f.Open()
		if err != nil {
			return data
		}
		content, err := io.ReadAll(io.LimitReader(rc, maxOut+1))
		rc.Close()
		if err != nil || len(content) > maxOut {
			return data
		}
		if i == k {
			for _, o := range p.Ops {
				content = clamp(applyOp(content, o))
			}
		}
		w, err := zw.CreateHeader(&zip.FileHeader{Name: f.Name, Method: f.Method, Modified: f.Modified})
		if err != nil {
			return data
		}
		if _, err := w.Write(content); err != nil {
			return data
		}
	}
	if err := zw.Close(); err != nil {
		return data
	}
	return clamp(buf.Bytes())
}
