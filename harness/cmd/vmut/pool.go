package main

// A pool of child processes (the same binary, sub-command `worker`). Every real Extract / Scan
// runs inside a child that works through its jobs sequentially, so that
//   - a fatal runtime error (stack overflow, out of memory, concurrent map write), which
//     recover() cannot catch, kills only the child and is attributed to the evaluation in flight,
//   - a hung evaluation is ended by killing the child (a goroutine cannot be killed),
//   - heap growth is attributable to exactly one evaluation,
//   - process-global state a case needs (working directory, TMPDIR) is private to the child.
//
// Protocol on the child's stdout, one line each:
//   B <json>   an evaluation begins (identifies it, for attribution if the child dies)
//   R <json>   a result line
//   E          the current job is finished
// The parent writes one JSON job per line to the child's stdin.

import (
	"bufio"
	"bytes"
	"encoding/json"
	"fmt"
	"io"
	"os"
	"os/exec"
	"strings"
	"sync"
	"time"

	. "verif/harness/hlib"
)

type death struct {
	LastBegin json.RawMessage // last B line of the job in flight (nil if none)
	Stderr    string          // tail of the child's stderr
	Why       string          // "exit status 2", "killed: no output for 140s", ...
}

type poolCfg struct {
	Kind     string        // handler kind passed to the worker
	Args     []string      // extra -a k=v
	Workers  int
	Silence  time.Duration // kill a child that prints nothing for this long
	OnResult func(job int, line []byte)
	// OnDeath gets the job in flight; it may return a replacement job (the rest of the work) or nil.
	OnDeath func(job int, jobRaw []byte, d death) []byte
	// Stop, if set, is asked before each job is started; true = do not start it (Skipped is called)
	Stop    func() bool
	Skipped func(job int)
}

type tailBuf struct {
	mu  sync.Mutex
	buf []byte
}

func (t *tailBuf) Write(p []byte) (int, error) {
	t.mu.Lock()
	t.buf = append(t.buf, p...)
	if len(t.buf) > 1<<20 {
		t.buf = append([]byte(nil), t.buf[len(t.buf)-(512<<10):]...)
	}
	t.mu.Unlock()
	return len(p), nil
}
func (t *tailBuf) String() string {
	t.mu.Lock()
	defer t.mu.Unlock()
	return crashHead(string(t.buf))
}

// crashHead cuts the child's stderr down to the part that says why it died: from the last
// "fatal error:" / "panic:" / signal line, at most 6 KiB; otherwise the last 4 KiB.
func crashHead(s string) string {
	best := -1
	for _, k := range []string{"fatal error:", "panic: ", "unexpected fault address", "SIGBUS", "SIGSEGV", "runtime: out of memory", "goroutine stack exceeds"} {
		if i := strings.LastIndex(s, k); i >= 0 && (best < 0 || i < best) {
			best = i
		}
	}
	if best >= 0 {
		if j := strings.LastIndex(s[:best], "\n"); j >= 0 {
			best = j + 1
		}
		s = s[best:]
		if len(s) > 6<<10 {
			s = s[:6<<10]
		}
		return s
	}
	if len(s) > 4<<10 {
		s = s[len(s)-(4<<10):]
	}
	return s
}

type child struct {
	cmd    *exec.Cmd
	in     io.WriteCloser
	out    *bufio.Reader
	lines  chan []byte
	stderr *tailBuf
}

func startChild(e *Env, pc *poolCfg, slot int) (*child, error) {
	self, err := os.Executable()
	if err != nil {
		return nil, err
	}
	args := []string{"worker", "-tmp", e.Tmp, "-a", "kind=" + pc.Kind, "-a", fmt.Sprintf("slot=%d", slot)}
	for k, v := range e.Args {
		args = append(args, "-a", k+"="+v)
	}
	for _, a := range pc.Args {
		args = append(args, "-a", a)
	}
	c := &child{cmd: exec.Command(self, args...), stderr: &tailBuf{}, lines: make(chan []byte, 256)}
	c.cmd.Stderr = c.stderr
	c.cmd.Env = append(os.Environ(), "GOMAXPROCS=2", "GOTRACEBACK=single")
	if c.in, err = c.cmd.StdinPipe(); err != nil {
		return nil, err
	}
	so, err := c.cmd.StdoutPipe()
	if err != nil {
		return nil, err
	}
	c.out = bufio.NewReaderSize(so, 1<<20)
	if err := c.cmd.Start(); err != nil {
		return nil, err
	}
	go func() {
		for {
			l, err := c.out.ReadBytes('\n')
			if len(l) > 0 {
				c.lines <- bytes.TrimRight(l, "\n")
			}
			if err != nil {
				close(c.lines)
				return
			}
		}
	}()
	return c, nil
}

func (c *child) kill() {
	_ = c.cmd.Process.Kill()
	_ = c.in.Close()
	for range c.lines {
	}
	_ = c.cmd.Wait()
}

// runPool feeds jobs to the children and returns when every job (and every replacement) is done.
func runPool(e *Env, pc *poolCfg, jobs [][]byte) error {
	return runPoolDeadline(e, pc, jobs, 0, nil)
}

// runPoolDeadline is runPool with a budget: once `deadline` has passed no further job is started;
// skipped(job) is called for each job that was not started.
func runPoolDeadline(e *Env, pc *poolCfg, jobs [][]byte, deadline time.Duration, skipped func(job int)) error {
	t0 := time.Now()
	type item struct {
		idx int
		raw []byte
	}
	queue := make(chan item, len(jobs))
	for i, j := range jobs {
		queue <- item{i, j}
	}
	close(queue)
	var wg sync.WaitGroup
	var mu sync.Mutex
	var firstErr error
	nw := pc.Workers
	if nw < 1 {
		nw = 1
	}
	if nw > len(jobs) {
		nw = len(jobs)
	}
	for w := 0; w < nw; w++ {
		wg.Add(1)
		go func(slot int) {
			defer wg.Done()
			var c *child
			defer func() {
				if c != nil {
					_ = c.in.Close()
					done := make(chan struct{})
					go func() { _ = c.cmd.Wait(); close(done) }()
					select {
					case <-done:
					case <-time.After(5 * time.Second):
						_ = c.cmd.Process.Kill()
					}
				}
			}()
			for it := range queue {
				if deadline > 0 && time.Since(t0) > deadline {
					mu.Lock()
					skipped(it.idx)
					mu.Unlock()
					continue
				}
				if pc.Stop != nil {
					mu.Lock()
					stop := pc.Stop()
					if stop && pc.Skipped != nil {
						pc.Skipped(it.idx)
					}
					mu.Unlock()
					if stop {
						continue
					}
				}
				cur := it.raw
				for cur != nil {
					if c == nil {
						var err error
						if c, err = startChild(e, pc, slot); err != nil {
							mu.Lock()
							if firstErr == nil {
								firstErr = err
							}
							mu.Unlock()
							return
						}
					}
					if _, err := c.in.Write(append(append([]byte(nil), cur...), '\n')); err != nil {
						// the child is already gone; handled below as a death with no begin marker
					}
					var lastBegin json.RawMessage
					finished := false
					killed := false
					why := ""
					timer := time.NewTimer(pc.Silence)
				loop:
					for {
						select {
						case l, ok := <-c.lines:
							if !ok {
								err := c.cmd.Wait()
								why = fmt.Sprint(err)
								break loop
							}
							if !timer.Stop() {
								select {
								case <-timer.C:
								default:
								}
							}
							timer.Reset(pc.Silence)
							switch {
							case len(l) >= 1 && l[0] == 'E':
								finished = true
								break loop
							case len(l) >= 2 && l[0] == 'B':
								lastBegin = append(json.RawMessage(nil), l[2:]...)
							case len(l) >= 2 && l[0] == 'R':
								mu.Lock()
								pc.OnResult(it.idx, l[2:])
								mu.Unlock()
							}
						case <-timer.C:
							why = fmt.Sprintf("killed by the parent: no output for %s", pc.Silence)
							c.kill()
							killed = true
							break loop
						}
					}
					timer.Stop()
					if finished {
						cur = nil
						continue
					}
					d := death{LastBegin: lastBegin, Stderr: c.stderr.String(), Why: why}
					if !killed {
						_ = c.in.Close()
					}
					c = nil
					mu.Lock()
					cur = pc.OnDeath(it.idx, cur, d)
					mu.Unlock()
				}
			}
		}(w)
	}
	wg.Wait()
	return firstErr
}

// ---- child side ----

type emitter struct {
	w *bufio.Writer
}

func (m *emitter) begin(v any) {
	b, _ := json.Marshal(v)
	m.w.WriteString("B ")
	m.w.Write(b)
	m.w.WriteByte('\n')
	m.w.Flush()
}
func (m *emitter) result(v any) {
	b, _ := json.Marshal(v)
	m.w.WriteString("R ")
	m.w.Write(b)
	m.w.WriteByte('\n')
	m.w.Flush()
}
func (m *emitter) end() {
	m.w.WriteString("E\n")
	m.w.Flush()
}

var workerKinds = map[string]func(e *Env, job []byte, m *emitter) error{}

func init() {
	Register("worker", func(e *Env) error {
		h := workerKinds[e.Args["kind"]]
		if h == nil {
			return fmt.Errorf("unknown worker kind %q", e.Args["kind"])
		}
		// stdout carries the protocol only; anything the libraries print goes to stderr
		proto := os.NewFile(uintptr(mustDup(1)), "proto")
		redirectFD(2, 1)
		os.Stdout = os.Stderr
		m := &emitter{w: bufio.NewWriterSize(proto, 1<<16)}
		sc := bufio.NewScanner(os.Stdin)
		sc.Buffer(make([]byte, 1<<20), 1<<28)
		for sc.Scan() {
			job := append([]byte(nil), sc.Bytes()...)
			if len(job) == 0 {
				continue
			}
			if err := h(e, job, m); err != nil {
				return err
			}
			m.end()
		}
		return sc.Err()
	})
}
