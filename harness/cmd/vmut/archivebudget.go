package main

// Binding (M) for ArchiveBudget.tla: real jars holding nested valid / invalid archives are extracted by the real
// java/archive extractor under budgets around every prefix sum of the nested sizes; one fact per (jar, budget)
// records the measured sizes and what the extractor reported. TLC judges the facts against the specification.

import (
	"archive/zip"
	"bytes"
	"context"
	"encoding/json"
	"errors"
	"fmt"
	"io/fs"
	"os"
	"sort"
	"strings"
	"time"

	"github.com/google/osv-scalibr/extractor/filesystem"
	"github.com/google/osv-scalibr/extractor/filesystem/language/java/archive"
	"github.com/google/osv-scalibr/inventory"
	"github.com/google/osv-scalibr/stats"
	. "verif/harness/hlib"
)

type abInfo struct {
	name string
	size int64
}

func (i abInfo) Name() string       { return i.name }
func (i abInfo) Size() int64        { return i.size }
func (i abInfo) Mode() fs.FileMode  { return 0644 }
func (i abInfo) ModTime() time.Time { return time.Unix(0, 0) }
func (i abInfo) IsDir() bool        { return false }
func (i abInfo) Sys() any           { return nil }

type abStats struct {
	stats.NoopCollector
	uncompressed int64
	calls        int
}

func (s *abStats) AfterFileExtracted(name string, st *stats.FileExtractedStats) {
	s.uncompressed = st.UncompressedBytes
	s.calls++
}

func abZip(files [][2]any) ([]byte, error) {
	var buf bytes.Buffer
	zw := zip.NewWriter(&buf)
	for _, f := range files {
		w, err := zw.Create(f[0].(string))
		if err != nil {
			return nil, err
		}
		if _, err := w.Write(f[1].([]byte)); err != nil {
			return nil, err
		}
	}
	if err := zw.Close(); err != nil {
		return nil, err
	}
	return buf.Bytes(), nil
}

func init() {
	Register("archivebudget", func(e *Env) error {
		Quiet()
		out, err := os.Create(e.Out)
		if err != nil {
			return err
		}
		defer out.Close()
		enc := json.NewEncoder(out)
		n := 0
		invalidSizes := []int{300, 700, 1500}
		// shapes: every sequence of 1..4 entries over {valid, invalid x 3 sizes}
		kinds := []int{-1, 0, 1, 2} // -1 valid, k>=0 invalid of invalidSizes[k]
		var shapes [][]int
		var rec func(cur []int)
		rec = func(cur []int) {
			if len(cur) > 0 {
				shapes = append(shapes, append([]int(nil), cur...))
			}
			if len(cur) == 4 {
				return
			}
			for _, k := range kinds {
				rec(append(cur, k))
			}
		}
		rec(nil)
		for si, shape := range shapes {
			var files [][2]any
			sizes := []int64{}
			valid := []bool{}
			for i, k := range shape {
				name := fmt.Sprintf("lib/n%d.jar", i+1)
				var data []byte
				if k < 0 {
					pad := bytes.Repeat([]byte("p"), 50*(1+(si+i)%5))
					data, err = abZip([][2]any{
						{fmt.Sprintf("META-INF/maven/org.verif/a%d/pom.properties", i+1), []byte(fmt.Sprintf("groupId=org.verif\nartifactId=a%d\nversion=1.%d\n", i+1, i))},
						{"pad.txt", pad}})
					if err != nil {
						return err
					}
				} else {
					data = make([]byte, invalidSizes[k]) // zeros: compress well, never a zip
				}
				files = append(files, [2]any{name, data})
				sizes = append(sizes, int64(len(data)))
				valid = append(valid, k < 0)
			}
			top, err := abZip(files)
			if err != nil {
				return err
			}
			T := int64(len(top))
			// budgets around the top-level size and every prefix sum
			bs := map[int64]bool{T - 1: true, T: true}
			var sum int64
			for _, s := range sizes {
				sum += s
				for _, d := range []int64{-1, 0, 1} {
					if sum+d >= T {
						bs[sum+d] = true
					}
				}
			}
			bs[sum+1000] = true
			var budgets []int64
			for b := range bs {
				if b >= 0 {
					budgets = append(budgets, b)
				}
			}
			sort.Slice(budgets, func(i, j int) bool { return budgets[i] < budgets[j] })
			for _, B := range budgets {
				st := &abStats{}
				ex := archive.New(archive.Config{MaxZipDepth: 16, MaxOpenedBytes: B, MinZipBytes: 0, Stats: st})
				var inv inventory.Inventory
				var xerr error
				pan := Safely(func() {
					inv, xerr = ex.Extract(context.Background(), &filesystem.ScanInput{Path: "top.jar", Info: abInfo{"top.jar", T}, Reader: bytes.NewReader(top)})
				})
				nested := 0
				for _, p := range inv.Packages {
					if p != nil && len(p.Locations) >= 2 && strings.Contains(p.Locations[1], "lib/n") {
						nested++
					}
				}
				n++
				errText := ""
				if xerr != nil {
					errText = xerr.Error()
					if len(errText) > 300 {
						errText = errText[:300]
					}
				}
				if err := enc.Encode(map[string]any{"n": n, "sizes": sizes, "valid": valid, "budget": B, "top": T,
					"memlim": errors.Is(xerr, filesystem.ErrExtractorMemoryLimitExceeded), "uncompressed": st.uncompressed,
					"nested_pkgs": nested, "panicked": pan != "", "panic": pan, "err": errText, "stats_calls": st.calls}); err != nil {
					return err
				}
			}
		}
		fmt.Fprintf(os.Stderr, "archivebudget: %d facts over %d jars\n", n, len(shapes))
		return nil
	})
}
