package main

// C02(a) multi-file scenarios: every include graph emitted by spec/IncludeGraph.tla is written as
// real files (file 1 = the scanned requirements.txt, `-r <name>` lines for the edges, one
// requirement line in the files that carry a package) and the REAL Extract of the requirements
// extractor is called on file 1 under the same recover + watchdog + allocation budget as `mutate`.

import (
	"encoding/json"
	"fmt"
	"os"
	"sort"
	"strings"
	"time"

	. "verif/harness/hlib"

	scalibrfs "github.com/google/osv-scalibr/fs"
)

type igCase struct {
	I     int    `json:"i"`
	Ex    string `json:"ex"`
	Files []struct {
		Includes []int `json:"includes"`
		Pkg      bool  `json:"pkg"`
	} `json:"files"`
}

var igNames = []string{"requirements.txt", "base.txt", "extra.txt", "more.txt", "other.txt"}

func igRender(c *igCase) map[string][]byte {
	out := map[string][]byte{}
	for i, f := range c.Files {
		var b strings.Builder
		fmt.Fprintf(&b, "# file %d of an include graph\n", i+1)
		for _, j := range f.Includes {
			fmt.Fprintf(&b, "-r %s\n", igNames[j-1])
		}
		if f.Pkg {
			fmt.Fprintf(&b, "pkg%d==1.0.%d\n", i+1, i+1)
		}
		out[igNames[i]] = []byte(b.String())
	}
	return out
}

func init() {
	workerKinds["incgraph"] = func(e *Env, job []byte, m *emitter) error {
		var c igCase
		if err := json.Unmarshal(job, &c); err != nil {
			return err
		}
		if len(c.Files) == 0 || len(c.Files) > len(igNames) {
			return fmt.Errorf("case %d: %d files", c.I, len(c.Files))
		}
		root, err := os.MkdirTemp(e.Tmp, "ig-")
		if err != nil {
			return err
		}
		defer os.RemoveAll(root)
		for name, data := range igRender(&c) {
			if err := writeAt(root, name, data, false); err != nil {
				return err
			}
		}
		ex, err := boundedExtractor(c.Ex)
		if err != nil {
			return err
		}
		soft := time.Duration(argInt(e, "soft_ms", 10000)) * time.Millisecond
		hard := time.Duration(argInt(e, "hard_ms", 100000)) * time.Millisecond
		budget := uint64(argInt(e, "budget_mib", 1024)) << 20
		m.begin(map[string]any{"i": c.I})
		o := evaluate(e, c.Ex+"-incgraph", ex, scalibrfs.DirFS(root), root, igNames[0], soft, hard, budget)
		res := map[string]any{"i": c.I, "class": o.class, "ms": o.dur.Milliseconds(), "pkgs": o.res.pkgs}
		switch o.class {
		case "Returned":
			if o.res.err != nil {
				res["err"] = o.res.err.Error()
			}
		case "Panic":
			res["detail"] = o.res.panic
		case "BadInventory":
			res["detail"] = o.res.bad
		default:
			res["detail"] = fmt.Sprintf("%s after %s; live heap+stacks above baseline: %d MiB\n%s", o.class, o.dur.Round(time.Millisecond), o.peak>>20, extractGoroutine())
			m.result(res)
			os.Exit(3)
		}
		m.result(res)
		return nil
	}

	// `incgraph`: -in cases.ndjson (from IncludeGraph.tla)
	Register("incgraph", func(e *Env) error {
		raw, err := os.ReadFile(e.In)
		if err != nil {
			return err
		}
		jobs := [][]byte{}
		cases := []*igCase{}
		for _, l := range strings.Split(string(raw), "\n") {
			l = strings.TrimSpace(l)
			if l == "" {
				continue
			}
			c := &igCase{}
			if err := json.Unmarshal([]byte(l), c); err != nil {
				return err
			}
			c.I = len(cases)
			cases = append(cases, c)
			b, _ := json.Marshal(c)
			jobs = append(jobs, b)
		}
		outf, err := os.Create(e.Out)
		if err != nil {
			return err
		}
		defer outf.Close()
		reported := map[int]bool{}
		files := func(i int) map[string]string {
			out := map[string]string{}
			for n, d := range igRender(cases[i]) {
				out[n] = string(d)
			}
			return out
		}
		write := func(v map[string]any) {
			if cl, _ := v["class"].(string); cl != "" && cl != "Returned" {
				if i, ok := v["i"].(float64); ok {
					v["files"] = files(int(i))
				} else if i, ok := v["i"].(int); ok {
					v["files"] = files(i)
				}
			}
			b, _ := json.Marshal(v)
			outf.Write(b)
			outf.Write([]byte("\n"))
		}
		startFail := 0
		// once the verdict is clear (8 graphs on which Extract did not return) the remaining graphs are
		// not started: every further hang would cost 10-100 s
		notReturned, notRun := 0, 0
		pc := &poolCfg{Kind: "incgraph", Workers: e.Workers, Silence: 130 * time.Second,
			Stop:    func() bool { return notReturned >= 8 },
			Skipped: func(job int) { notRun++; write(map[string]any{"i": job, "class": "NotRun"}) },
			OnResult: func(job int, line []byte) {
				var v map[string]any
				if json.Unmarshal(line, &v) != nil {
					return
				}
				reported[job] = true
				if cl, _ := v["class"].(string); cl != "Returned" {
					notReturned++
				}
				write(v)
			},
			OnDeath: func(job int, jobRaw []byte, d death) []byte {
				if reported[job] {
					return nil
				}
				if d.LastBegin == nil {
					startFail++
					if startFail > 5 {
						write(map[string]any{"harness_fatal": "children keep dying before their first evaluation: " + d.Why + "\n" + d.Stderr})
						return nil
					}
					return jobRaw
				}
				class := "Panic"
				if strings.HasPrefix(d.Why, "killed by the parent") {
					class = "Timeout"
				} else if strings.Contains(d.Stderr, "out of memory") {
					class = "OOM"
				}
				reported[job] = true
				notReturned++
				write(map[string]any{"i": job, "class": class, "detail": "the process died (not recoverable): " + d.Why + "\n" + d.Stderr, "fatal": true})
				return nil
			}}
		_ = sort.Strings
		return runPool(e, pc, jobs)
	})
}
