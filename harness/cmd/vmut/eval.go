package main

// One evaluation = one real Extract call under recover + watchdog + allocation budget, followed by
// the consumption of the returned inventory the way the engine consumes it.

import (
	"context"
	"fmt"
	"os"
	"path/filepath"
	"runtime"
	"runtime/debug"
	"strings"
	"time"

	. "verif/harness/hlib"

	"github.com/google/osv-scalibr/extractor/filesystem"
	scalibrfs "github.com/google/osv-scalibr/fs"
	"github.com/google/osv-scalibr/inventory"
)

type evalOut struct {
	class   string // Returned | Panic | BadInventory | Timeout | OOM | Slow
	res     evalRes
	peak    uint64
	dur     time.Duration
	wasSlow bool
}

// consume does with a returned inventory what the engine does with it: filesystem.runExtractor
// dereferences every package (`r.Extractor = ex`, r.Locations) - also when Extract returned an
// error, partial results are kept - and scalibr.Scan then builds the package index, which calls
// ToPURL of the producing extractor on every package. A nil entry or a panic here takes the whole
// scan down, outside any per-extractor error accounting.
func consume(ex filesystem.Extractor, inv inventory.Inventory) (bad string) {
	for i, p := range inv.Packages {
		if p == nil {
			return fmt.Sprintf("the returned inventory has a nil *extractor.Package at index %d of %d; filesystem.runExtractor dereferences every entry (r.Extractor = ex)", i, len(inv.Packages))
		}
	}
	for i, f := range inv.Findings {
		if f == nil {
			return fmt.Sprintf("the returned inventory has a nil *detector.Finding at index %d of %d", i, len(inv.Findings))
		}
	}
	for _, p := range inv.Packages {
		p.Extractor = ex
		_ = len(p.Locations)
		_ = ex.ToPURL(p)
	}
	return ""
}

// evaluate runs Extract(ex) on root/rel. confirmKey names the extractor for the bound on 100 s
// confirmations (at most maxConfirm per extractor and run).
func evaluate(e *Env, confirmKey string, ex filesystem.Extractor, sfs scalibrfs.FS, root, rel string, soft, hard time.Duration, budget uint64) evalOut {
	confirmFile := filepath.Join(e.Tmp, "confirmed-"+strings.ReplaceAll(confirmKey, "/", "_"))
	confirmed := func() int {
		if fi, err := os.Stat(confirmFile); err == nil {
			return int(fi.Size())
		}
		return 0
	}
	base := liveBytes()
	if base > 256<<20 {
		runtime.GC()
		debug.FreeOSMemory()
		base = liveBytes()
	}
	ch := make(chan evalRes, 1)
	ctx, cancel := context.WithCancel(context.Background())
	defer cancel()
	start := time.Now()
	go func() {
		var r evalRes
		defer func() {
			if rec := recover(); rec != nil {
				r.panic = fmt.Sprintf("%v\n%s", rec, debug.Stack())
			}
			ch <- r
		}()
		inv, err := callExtract(ctx, ex, sfs, root, rel)
		r.pkgs, r.err = len(inv.Packages), err
		r.bad = consume(ex, inv)
	}()
	tick := time.NewTicker(5 * time.Millisecond)
	defer tick.Stop()
	var out evalOut
	for {
		select {
		case out.res = <-ch:
			out.class = "Returned"
			if out.res.panic != "" {
				out.class = "Panic"
			} else if out.res.bad != "" {
				out.class = "BadInventory"
			}
			out.dur = time.Since(start)
			return out
		case <-tick.C:
			if lb := liveBytes(); lb > base && lb-base > out.peak {
				out.peak = lb - base
			}
			el := time.Since(start)
			out.dur = el
			if out.peak > budget {
				out.class = "OOM"
				return out
			}
			if el > soft && !out.wasSlow {
				out.wasSlow = true
				if hard > soft && confirmed() >= maxConfirm {
					out.class = "Slow"
					noteHang(e, confirmKey)
					return out
				}
			}
			if el > hard {
				out.class = "Timeout"
				noteHang(e, confirmKey)
				if f, err := os.OpenFile(confirmFile, os.O_APPEND|os.O_CREATE|os.O_WRONLY, 0o644); err == nil {
					f.Write([]byte{'x'})
					f.Close()
				}
				return out
			}
		}
	}
}

// hangs of one extractor in this run (confirmed or not): once there are maxHangs of them the verdict
// is clear and the remaining plans of that extractor are not evaluated (each would cost 10-100 s)
const maxHangs = 12

func hangFile(e *Env, key string) string {
	return filepath.Join(e.Tmp, "hangs-"+strings.ReplaceAll(key, "/", "_"))
}

func noteHang(e *Env, key string) {
	if f, err := os.OpenFile(hangFile(e, key), os.O_APPEND|os.O_CREATE|os.O_WRONLY, 0o644); err == nil {
		f.Write([]byte{'h'})
		f.Close()
	}
}

func tooManyHangs(e *Env, key string) bool {
	fi, err := os.Stat(hangFile(e, key))
	return err == nil && fi.Size() >= maxHangs
}

var _ = Safely
