package main

// C06(b) replay: every case of spec/Unpack.tla (layer archives with hostile entry names / link targets,
// one API mode) is materialised as real tar layers and run through the real unpacker / image loader
// inside a fresh sandbox whose "outside" is still inside e.Tmp:
//
//	<sb>/r/u4/u3/u2/u1/out        target directory (Base of the specification; <sb>/r is the model root)
//	<sb>/r/u4/u3/u2/u1/out-evil   prefix-confusable sibling (present or absent, per case)
//	<sb>/tmp                      TMPDIR of the image loader
//	<sb>/cwd/c1/c2/c3             working directory (relative link targets are read relative to it in symlink_ignore mode)
//	<sb>/in                       the input archives
//
// The whole sandbox is snapshotted before and after (and, for the image loader, between load and CleanUp).
// TMPDIR and the working directory are process-global, so the parent sub-command `unpack` splits the cases over
// child processes (`unpack-worker`), each of which runs its cases strictly one after the other.

import (
	"archive/tar"
	"bufio"
	"bytes"
	"encoding/json"
	"fmt"
	"io"
	"io/fs"
	"os"
	"os/exec"
	"path/filepath"
	"runtime"
	"strings"
	"sync"

	. "verif/harness/hlib"

	"github.com/google/go-containerregistry/pkg/name"
	v1 "github.com/google/go-containerregistry/pkg/v1"
	"github.com/google/go-containerregistry/pkg/v1/empty"
	"github.com/google/go-containerregistry/pkg/v1/mutate"
	"github.com/google/go-containerregistry/pkg/v1/tarball"
	"github.com/google/osv-scalibr/artifact/image/layerscanning/image"
	"github.com/google/osv-scalibr/artifact/image/require"
	"github.com/google/osv-scalibr/artifact/image/unpack"
)

type rawName struct {
	Abs  bool     `json:"abs"`
	Segs []string `json:"segs"`
}

func (n rawName) String() string {
	segs := make([]string, len(n.Segs))
	for i, s := range n.Segs {
		segs[i] = concreteSeg(s)
	}
	s := strings.Join(segs, "/")
	if n.Abs {
		s = "/" + s
	}
	return s
}

type entry struct {
	N   rawName `json:"n"`
	T   string  `json:"t"` // reg | dir | sym | hard
	L   rawName `json:"l"`
	Big bool    `json:"big"`
	C   int     `json:"c"`
}

type ucase struct {
	Mode    string    `json:"mode"`
	Sib     bool      `json:"sib"`
	Reqr    string    `json:"reqr"`
	MaxPass int       `json:"maxpass"`
	Layers  [][]entry `json:"layers"`
}

const maxFileBytes = 8

var modelBase = []string{"u4", "u3", "u2", "u1", "out"}

func content(e entry) []byte {
	s := fmt.Sprintf("c%d", e.C)
	if e.Big {
		s += strings.Repeat("B", 16-len(s))
	}
	return []byte(s)
}

func layerTar(es []entry) ([]byte, error) {
	var buf bytes.Buffer
	w := tar.NewWriter(&buf)
	for _, e := range es {
		h := &tar.Header{Name: e.N.String(), Mode: 0644}
		switch e.T {
		case "reg":
			h.Typeflag = tar.TypeReg
			h.Size = int64(len(content(e)))
		case "dir":
			h.Typeflag = tar.TypeDir
			h.Mode = 0755
		case "sym":
			h.Typeflag = tar.TypeSymlink
			h.Linkname = e.L.String()
			h.Mode = 0777
		case "hard":
			h.Typeflag = tar.TypeLink
			h.Linkname = e.L.String()
		default:
			return nil, fmt.Errorf("entry type %q", e.T)
		}
		if len(h.Name) > 100 || len(h.Linkname) > 100 {
			h.Format = tar.FormatPAX
		}
		if err := w.WriteHeader(h); err != nil {
			return nil, fmt.Errorf("tar header %q: %w", h.Name, err)
		}
		if e.T == "reg" {
			if _, err := w.Write(content(e)); err != nil {
				return nil, err
			}
		}
	}
	if err := w.Close(); err != nil {
		return nil, err
	}
	return buf.Bytes(), nil
}

func buildImage(layers [][]entry) (v1.Image, error) {
	var ls []v1.Layer
	for _, es := range layers {
		b, err := layerTar(es)
		if err != nil {
			return nil, err
		}
		l, err := tarball.LayerFromOpener(func() (io.ReadCloser, error) { return io.NopCloser(bytes.NewReader(b)), nil })
		if err != nil {
			return nil, err
		}
		ls = append(ls, l)
	}
	return mutate.AppendLayers(empty.Image, ls...)
}

// linksOnly requires link entries only; everything else is unpacked only as the target of a link.
type linksOnly struct{}

func (linksOnly) FileRequired(path string, fi fs.FileInfo) bool {
	if h, ok := fi.Sys().(*tar.Header); ok {
		return h.Typeflag == tar.TypeSymlink || h.Typeflag == tar.TypeLink
	}
	return fi.Mode()&fs.ModeSymlink != 0
}

type result struct {
	I       int                 `json:"i"`
	Err     string              `json:"err"`
	Panic   string              `json:"panic,omitempty"`
	Diff    []change            `json:"diff"`
	Mid     []change            `json:"mid,omitempty"`
	Esc     []map[string]string `json:"esc"`
	Loaded  bool                `json:"loaded,omitempty"`
	ExtDir  string              `json:"extdir,omitempty"`
	ExtLeft bool                `json:"extleft,omitempty"`
	Setup   string              `json:"setup,omitempty"` // the scenario could not be materialised (not a verdict)
}

func runCase(work string, idx int, c ucase) (res result) {
	res = result{I: idx, Diff: []change{}, Esc: []map[string]string{}}
	sb := filepath.Join(work, fmt.Sprintf("c%d", idx))
	defer os.RemoveAll(sb)
	mroot := filepath.Join(sb, "r")
	base := filepath.Join(append([]string{mroot}, modelBase...)...)
	tmp := filepath.Join(sb, "tmp")
	cwd := filepath.Join(sb, "cwd", "c1", "c2", "c3")
	in := filepath.Join(sb, "in")
	for _, d := range []string{base, tmp, cwd, in} {
		if err := os.MkdirAll(d, 0755); err != nil {
			res.Setup = err.Error()
			return
		}
	}
	if c.Sib {
		if err := os.Mkdir(filepath.Join(filepath.Dir(base), "out-evil"), 0755); err != nil {
			res.Setup = err.Error()
			return
		}
	}
	// process-global state: this worker runs its cases one after the other
	os.Setenv("TMPDIR", tmp)
	if err := os.Chdir(cwd); err != nil {
		res.Setup = err.Error()
		return
	}
	defer os.Chdir(work)

	kind := c.Mode[:2]
	var img v1.Image
	var err error
	rawPath := filepath.Join(in, "raw.tar")
	imgPath := filepath.Join(in, "image.tar")
	switch {
	case kind == "tb":
		var all []entry
		for _, l := range c.Layers {
			all = append(all, l...)
		}
		b, err := layerTar(all)
		if err != nil {
			res.Setup = err.Error()
			return
		}
		if err := os.WriteFile(rawPath, b, 0644); err != nil {
			res.Setup = err.Error()
			return
		}
	default:
		img, err = buildImage(c.Layers)
		if err != nil {
			res.Setup = err.Error()
			return
		}
		if c.Mode == "img-tb" {
			tag, _ := name.NewTag("verif/case:latest")
			if err := tarball.WriteToFile(imgPath, tag, img); err != nil {
				res.Setup = err.Error()
				return
			}
		}
	}

	before, err := snap(sb)
	if err != nil {
		res.Setup = "snapshot: " + err.Error()
		return
	}
	ident := func(p string) string { return p }

	if kind == "tb" || kind == "sq" {
		cfg := &unpack.UnpackerConfig{
			SymlinkResolution:  unpack.SymlinkRetain,
			SymlinkErrStrategy: unpack.SymlinkErrLog,
			MaxPass:            c.MaxPass,
			MaxFileBytes:       maxFileBytes,
			Requirer:           &require.FileRequirerAll{},
		}
		if strings.Contains(c.Mode, "ignore") {
			cfg.SymlinkResolution = unpack.SymlinkIgnore
		}
		if strings.HasSuffix(c.Mode, "ret") {
			cfg.SymlinkErrStrategy = unpack.SymlinkErrReturn
		}
		if c.Reqr == "links" {
			cfg.Requirer = linksOnly{}
		}
		res.Panic = Safely(func() {
			u, err := unpack.NewUnpacker(cfg)
			if err != nil {
				res.Err = "NewUnpacker: " + err.Error()
				return
			}
			if kind == "tb" {
				err = u.UnpackSquashedFromTarball(base, rawPath)
			} else {
				err = u.UnpackSquashed(base, img)
			}
			if err != nil {
				res.Err = err.Error()
			}
		})
	} else {
		cfg := &image.Config{MaxFileBytes: maxFileBytes, MaxSymlinkDepth: image.DefaultMaxSymlinkDepth, Requirer: &require.FileRequirerAll{}}
		var li *image.Image
		res.Panic = Safely(func() {
			var err error
			if c.Mode == "img-tb" {
				li, err = image.FromTarball(imgPath, cfg)
			} else {
				li, err = image.FromV1Image(img, cfg)
			}
			if err != nil {
				res.Err = err.Error()
			}
		})
		rename := ident
		if li != nil {
			res.Loaded = true
			rel, rerr := filepath.Rel(sb, li.ExtractDir)
			if rerr != nil || strings.HasPrefix(rel, "..") {
				res.ExtDir = li.ExtractDir // not even inside the sandbox
			} else {
				res.ExtDir = filepath.ToSlash(rel)
				rename = func(p string) string {
					if p == res.ExtDir || strings.HasPrefix(p, res.ExtDir+"/") {
						return "X" + p[len(res.ExtDir):]
					}
					return p
				}
			}
		}
		mid, err := snap(sb)
		if err != nil {
			res.Setup = "snapshot: " + err.Error()
			return
		}
		res.Mid = diff(before, mid, rename)
		if li != nil {
			if p := Safely(func() {
				if err := li.CleanUp(); err != nil {
					res.Err = "CleanUp: " + err.Error()
				}
			}); p != "" {
				res.Panic += p
			}
			if _, err := os.Lstat(li.ExtractDir); err == nil {
				res.ExtLeft = true
			}
		}
	}

	after, err := snap(sb)
	if err != nil {
		res.Setup = "snapshot: " + err.Error()
		return
	}
	res.Diff = diff(before, after, ident)
	res.Esc = escaping(mroot, modelBase)
	if len(res.Err) > 300 {
		res.Err = res.Err[:300]
	}
	return res
}

type wjob struct {
	I int             `json:"i"`
	C json.RawMessage `json:"c"`
}

func init() {
	// child: strictly sequential
	Register("unpack-worker", func(e *Env) error {
		Quiet()
		work, err := filepath.EvalSymlinks(e.Tmp)
		if err != nil {
			return err
		}
		inf, err := os.Open(e.In)
		if err != nil {
			return err
		}
		defer inf.Close()
		outf, err := os.Create(e.Out)
		if err != nil {
			return err
		}
		defer outf.Close()
		w := bufio.NewWriterSize(outf, 1<<20)
		defer w.Flush()
		sc := bufio.NewScanner(inf)
		sc.Buffer(make([]byte, 1<<20), 1<<26)
		for sc.Scan() {
			var j wjob
			if err := json.Unmarshal(sc.Bytes(), &j); err != nil {
				return err
			}
			var c ucase
			if err := json.Unmarshal(j.C, &c); err != nil {
				return fmt.Errorf("case %d: %w", j.I, err)
			}
			r := runCase(work, j.I, c)
			b, err := json.Marshal(r)
			if err != nil {
				return err
			}
			w.Write(b)
			w.WriteByte('\n')
		}
		return sc.Err()
	})

	// parent: splits the cases round-robin over e.Workers child processes
	Register("unpack", func(e *Env) error {
		nw := e.Workers
		if nw < 1 {
			nw = runtime.NumCPU()
		}
		inf, err := os.Open(e.In)
		if err != nil {
			return err
		}
		defer inf.Close()
		parts := make([]*bufio.Writer, nw)
		files := make([]*os.File, nw)
		for k := 0; k < nw; k++ {
			if err := os.MkdirAll(filepath.Join(e.Tmp, fmt.Sprintf("w%d", k)), 0755); err != nil {
				return err
			}
			f, err := os.Create(filepath.Join(e.Tmp, fmt.Sprintf("w%d.in", k)))
			if err != nil {
				return err
			}
			files[k], parts[k] = f, bufio.NewWriterSize(f, 1<<20)
		}
		sc := bufio.NewScanner(inf)
		sc.Buffer(make([]byte, 1<<20), 1<<26)
		idx := 0
		for sc.Scan() {
			if len(sc.Bytes()) == 0 {
				continue
			}
			b, _ := json.Marshal(wjob{I: idx, C: append([]byte(nil), sc.Bytes()...)})
			parts[idx%nw].Write(b)
			parts[idx%nw].WriteByte('\n')
			idx++
		}
		if sc.Err() != nil {
			return sc.Err()
		}
		for k := range parts {
			parts[k].Flush()
			files[k].Close()
		}
		var wg sync.WaitGroup
		errs := make([]error, nw)
		for k := 0; k < nw; k++ {
			wg.Add(1)
			go func(k int) {
				defer wg.Done()
				cmd := exec.Command(os.Args[0], "unpack-worker",
					"-in", filepath.Join(e.Tmp, fmt.Sprintf("w%d.in", k)),
					"-out", filepath.Join(e.Tmp, fmt.Sprintf("w%d.out", k)),
					"-tmp", filepath.Join(e.Tmp, fmt.Sprintf("w%d", k)))
				cmd.Env = append(os.Environ(), "GOMAXPROCS=2")
				var stderr bytes.Buffer
				cmd.Stderr = &stderr
				if err := cmd.Run(); err != nil {
					s := stderr.String()
					if len(s) > 3000 {
						s = s[len(s)-3000:]
					}
					errs[k] = fmt.Errorf("worker %d: %w: %s", k, err, s)
				}
			}(k)
		}
		wg.Wait()
		for _, err := range errs {
			if err != nil {
				return err
			}
		}
		outf, err := os.Create(e.Out)
		if err != nil {
			return err
		}
		defer outf.Close()
		for k := 0; k < nw; k++ {
			f, err := os.Open(filepath.Join(e.Tmp, fmt.Sprintf("w%d.out", k)))
			if err != nil {
				return err
			}
			if _, err := io.Copy(outf, f); err != nil {
				f.Close()
				return err
			}
			f.Close()
		}
		return nil
	})
}
