package main

// Sandbox bookkeeping for C06(b): whole-sandbox snapshots (path, type, link target, size, mode, SHA-256 /
// content), snapshot differences, and a component-by-component path walker over the REAL file system that
// mirrors the operator Walk of spec/Unpack.tla (used to decide where a symlink left in the target leads).

import (
	"crypto/sha256"
	"encoding/hex"
	"errors"
	"io/fs"
	"os"
	"path/filepath"
	"sort"
	"strings"
	"syscall"
)

// Abstract segment names of the specification and their concrete spelling on disk / in tar headers.
// "la/lb/lc" is a creatable 300-byte path (99+1+99+1+100); "lx" is one 300-byte component (ENAMETOOLONG).
var longSeg = map[string]string{
	"la": "la" + strings.Repeat("a", 97),
	"lb": "lb" + strings.Repeat("b", 97),
	"lc": "lc" + strings.Repeat("c", 98),
	"lx": "lx" + strings.Repeat("x", 298),
}
var shortSeg = func() map[string]string {
	m := map[string]string{}
	for k, v := range longSeg {
		m[v] = k
	}
	return m
}()

func concreteSeg(s string) string {
	if v, ok := longSeg[s]; ok {
		return v
	}
	return s
}

func abstractPath(p string) string {
	parts := strings.Split(p, "/")
	for i, s := range parts {
		if v, ok := shortSeg[s]; ok {
			parts[i] = v
		}
	}
	return strings.Join(parts, "/")
}

type node struct {
	Type string `json:"t"`           // dir | file | sym | other
	Mode uint32 `json:"m"`           // permission bits
	Size int64  `json:"s,omitempty"` // files only
	Link string `json:"l,omitempty"` // symlinks: target text (sandbox prefix replaced by "@")
	Sum  string `json:"h,omitempty"` // files: sha256
	Data string `json:"c,omitempty"` // files up to 64 bytes: the content itself
}

type snapshot map[string]node

// snap walks root without following symlinks. Paths are relative to root, long components abbreviated.
func snap(root string) (snapshot, error) {
	out := snapshot{}
	err := filepath.WalkDir(root, func(p string, d fs.DirEntry, err error) error {
		if err != nil {
			return err
		}
		rel, _ := filepath.Rel(root, p)
		if rel == "." {
			return nil
		}
		fi, err := os.Lstat(p)
		if err != nil {
			return err
		}
		n := node{Mode: uint32(fi.Mode().Perm())}
		switch {
		case fi.Mode()&fs.ModeSymlink != 0:
			n.Type = "sym"
			n.Mode = 0
			t, err := os.Readlink(p)
			if err != nil {
				return err
			}
			n.Link = abstractPath(strings.Replace(t, root, "@", 1))
		case fi.IsDir():
			n.Type = "dir"
		case fi.Mode().IsRegular():
			n.Type = "file"
			n.Size = fi.Size()
			b, err := os.ReadFile(p)
			if err != nil {
				return err
			}
			h := sha256.Sum256(b)
			n.Sum = hex.EncodeToString(h[:8])
			if len(b) <= 64 {
				n.Data = string(b)
			}
		default:
			n.Type = "other"
		}
		out[abstractPath(filepath.ToSlash(rel))] = n
		return nil
	})
	return out, err
}

type change struct {
	Path string `json:"p"`
	Kind string `json:"k"` // created | deleted | modified
	node
	Was *node `json:"was,omitempty"`
}

func diff(before, after snapshot, rename func(string) string) []change {
	out := []change{}
	for p, a := range after {
		b, ok := before[p]
		if !ok {
			out = append(out, change{Path: rename(p), Kind: "created", node: a})
		} else if a != b {
			bb := b
			out = append(out, change{Path: rename(p), Kind: "modified", node: a, Was: &bb})
		}
	}
	for p, b := range before {
		if _, ok := after[p]; !ok {
			out = append(out, change{Path: rename(p), Kind: "deleted", node: b})
		}
	}
	sort.Slice(out, func(i, j int) bool { return out[i].Path < out[j].Path })
	return out
}

// ---- the walker (spec/Unpack.tla: Walk, LRes) over the real file system, rooted at the model root ----

type walkRes struct {
	St   string // ok | missing | loop | notdir | toolong | aboveroot | foreign
	P    []string
	Rest []string
}

const walkFuel = 40

// walk resolves rest starting at cur (both relative to mroot), following symlinks like the kernel does.
func walk(mroot string, cur, rest []string, fuel int, followLast bool) walkRes {
	for len(rest) > 0 {
		c, r := rest[0], rest[1:]
		if c == "" || c == "." {
			rest = r
			continue
		}
		if c == ".." {
			if len(cur) == 0 {
				return walkRes{St: "aboveroot", P: cur, Rest: r}
			}
			cur, rest = cur[:len(cur)-1], r
			continue
		}
		nxt := append(append([]string{}, cur...), c)
		real := filepath.Join(append([]string{mroot}, nxt...)...)
		fi, err := os.Lstat(real)
		if err != nil {
			if errors.Is(err, syscall.ENAMETOOLONG) {
				return walkRes{St: "toolong", P: nxt, Rest: r}
			}
			return walkRes{St: "missing", P: nxt, Rest: r}
		}
		if fi.Mode()&fs.ModeSymlink != 0 && (len(r) > 0 || followLast) {
			if fuel == 0 {
				return walkRes{St: "loop", P: nxt, Rest: r}
			}
			fuel--
			t, err := os.Readlink(real)
			if err != nil {
				return walkRes{St: "missing", P: nxt, Rest: r}
			}
			segs := strings.Split(t, "/")
			if filepath.IsAbs(t) {
				if t != mroot && !strings.HasPrefix(t, mroot+"/") {
					return walkRes{St: "foreign", P: nxt, Rest: r}
				}
				segs = strings.Split(strings.TrimPrefix(t, mroot), "/")
				cur = nil
			}
			rest = append(append([]string{}, segs...), r...)
			continue
		}
		if !fi.IsDir() && fi.Mode()&fs.ModeSymlink == 0 && len(r) > 0 {
			return walkRes{St: "notdir", P: nxt, Rest: r}
		}
		cur, rest = nxt, r
	}
	return walkRes{St: "ok", P: cur}
}

func lexJoin(dir, segs []string) ([]string, bool) {
	out := append([]string{}, dir...)
	for _, c := range segs {
		switch c {
		case "", ".":
		case "..":
			if len(out) == 0 {
				return out, false
			}
			out = out[:len(out)-1]
		default:
			out = append(out, c)
		}
	}
	return out, true
}

// lres: where does path p (relative to mroot) lead when every symlink is followed; a missing component
// and everything after it is taken literally (operator LRes).
func lres(mroot string, p []string) (string, []string) {
	w := walk(mroot, nil, p, walkFuel, true)
	switch w.St {
	case "ok":
		return "ok", w.P
	case "missing":
		q, ok := lexJoin(w.P, w.Rest)
		if !ok {
			return "aboveroot", nil
		}
		return "ok", q
	}
	return w.St, nil
}

func hasPrefixSeq(base, p []string) bool {
	if len(p) < len(base) {
		return false
	}
	for i := range base {
		if p[i] != base[i] {
			return false
		}
	}
	return true
}

// escaping lists the symlinks physically inside target (relative to mroot) that lead outside it.
func escaping(mroot string, target []string) []map[string]string {
	out := []map[string]string{}
	troot := filepath.Join(append([]string{mroot}, target...)...)
	_ = filepath.WalkDir(troot, func(p string, d fs.DirEntry, err error) error {
		if err != nil || d.Type()&fs.ModeSymlink == 0 {
			return nil
		}
		rel, _ := filepath.Rel(mroot, p)
		segs := strings.Split(filepath.ToSlash(rel), "/")
		st, q := lres(mroot, segs)
		if st == "ok" && hasPrefixSeq(target, q) {
			return nil
		}
		if st == "loop" || st == "notdir" || st == "toolong" {
			return nil // leads nowhere
		}
		out = append(out, map[string]string{"p": abstractPath(strings.Join(segs, "/")), "to": abstractPath(strings.Join(q, "/")), "st": st})
		return nil
	})
	return out
}
