package main

// C18 replay: every TLC-generated vulnerability record is rendered as an osvschema.Vulnerability
// (abstract positions -> concrete version strings per ecosystem, two spellings) and every query
// position is asked of the real vulns.IsAffected.

import (
	"encoding/json"
	"fmt"
	. "verif/harness/hlib"

	"deps.dev/util/resolve"
	"github.com/google/osv-scalibr/guidedremediation/verifhooks"
	"github.com/ossf/osv-schema/bindings/go/osvschema"
)

type osvCase struct {
	Eco      string `json:"eco"`
	Affected []struct {
		Pkg      string `json:"pkg"`
		Versions []int  `json:"versions"`
		Ranges   []struct {
			Type   string `json:"type"`
			Events []struct {
				K string `json:"k"`
				V int    `json:"v"`
			} `json:"events"`
		} `json:"ranges"`
	} `json:"affected"`
	Expect []bool `json:"expect"`
}

// osvVersion renders abstract position p for an ecosystem; variant selects the spelling of the
// "between" (odd) positions.
func osvVersion(eco string, p int, variant string) string {
	if p == 0 {
		return "0"
	}
	if variant == "c" {
		// spelling c: the position just above the "0" sentinel is a version that sorts BELOW the ecosystem's
		// zero version (pre-release / dev release of 0): OSV's "0" still precedes it
		if p == 1 {
			switch eco {
			case "npm":
				return "0.0.0-alpha"
			case "Maven":
				return "0-alpha-1"
			default:
				return "0.dev1"
			}
		}
		variant = "a"
	}
	v := p / 2
	odd := p%2 == 1
	switch eco {
	case "npm":
		if !odd {
			return fmt.Sprintf("%d.0.0", v)
		}
		if variant == "a" {
			return fmt.Sprintf("%d.5.0", v)
		}
		return fmt.Sprintf("%d.0.0-rc.1", v+1)
	case "Maven":
		if !odd {
			return fmt.Sprintf("%d.0", v)
		}
		if variant == "a" {
			return fmt.Sprintf("%d.5", v)
		}
		return fmt.Sprintf("%d.0-rc1", v+1)
	default: // PyPI
		if !odd {
			return fmt.Sprintf("%d.0", v)
		}
		if variant == "a" {
			return fmt.Sprintf("%d.5", v)
		}
		return fmt.Sprintf("%d.0.post1", v)
	}
}

func osvSystem(eco string) resolve.System {
	switch eco {
	case "npm":
		return resolve.NPM
	case "Maven":
		return resolve.Maven
	default:
		return resolve.PyPI
	}
}

func init() {
	Register("osvrange", func(e *Env) error {
		return MapCases(e, func(idx int, raw []byte) (any, error) {
			var c osvCase
			if err := json.Unmarshal(raw, &c); err != nil {
				return nil, err
			}
			res := map[string]any{"i": idx}
			for _, variant := range []string{"a", "b", "c"} {
				vuln := &osvschema.Vulnerability{ID: "V-1"}
				for _, a := range c.Affected {
					af := osvschema.Affected{}
					af.Package.Name = "pkg"
					af.Package.Ecosystem = c.Eco
					switch a.Pkg {
					case "otherpkg":
						af.Package.Name = "pkg2"
					case "othereco":
						if c.Eco == "npm" {
							af.Package.Ecosystem = "PyPI"
						} else {
							af.Package.Ecosystem = "npm"
						}
					}
					for _, v := range a.Versions {
						af.Versions = append(af.Versions, osvVersion(c.Eco, v, variant))
					}
					for _, r := range a.Ranges {
						rg := osvschema.Range{Type: osvschema.RangeType(r.Type)}
						for _, ev := range r.Events {
							s := osvVersion(c.Eco, ev.V, variant)
							switch ev.K {
							case "introduced":
								rg.Events = append(rg.Events, osvschema.Event{Introduced: s})
							case "fixed":
								rg.Events = append(rg.Events, osvschema.Event{Fixed: s})
							default:
								rg.Events = append(rg.Events, osvschema.Event{LastAffected: s})
							}
						}
						af.Ranges = append(af.Ranges, rg)
					}
					vuln.Affected = append(vuln.Affected, af)
				}
				obs := make([]any, len(c.Expect))
				for q := 1; q <= len(c.Expect); q++ {
					pkg := verifhooks.VKToPackage(resolve.VersionKey{
						PackageKey:  resolve.PackageKey{System: osvSystem(c.Eco), Name: "pkg"},
						Version:     osvVersion(c.Eco, q, variant),
						VersionType: resolve.Concrete,
					})
					var got bool
					if p := Safely(func() { got = verifhooks.IsAffected(vuln, pkg) }); p != "" {
						obs[q-1] = "panic: " + p
					} else {
						obs[q-1] = got
					}
				}
				res[variant] = obs
			}
			return res, nil
		})
	})
}
