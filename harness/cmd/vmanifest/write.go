package main

// C13 replay: every TLC-generated (document, update set) of spec/ManifestWrite.tla is rendered to
// bytes, read with the real manifest reader, written with the real manifest writer and read again.
// The observation is (i) the requirements the real reader reports for the written file, projected to
// the entries of the abstract document, (ii) which of the recorded values changed and whether anything
// outside those values changed (bytes for package.json, decoded tokens for pom.xml), (iii) error/panic.

import (
	"encoding/json"
	"fmt"
	"os"
	"path/filepath"
	"runtime/pprof"
	. "verif/harness/hlib"
)

type layout struct {
	// shared
	Indent string `json:"indent"` // 2sp | tab | min | odd
	Order  string `json:"order"`  // fwd | rev
	NL     bool   `json:"nl"`     // trailing newline
	// npm
	Decoys bool `json:"decoys"` // other top-level objects mentioning the same names
	CRLF   bool `json:"crlf"`
	Empty  bool `json:"empty"` // absent sections rendered as {}
	// pom
	Comments string `json:"comments"` // none | some | leaf
	CDATA    bool   `json:"cdata"`
	NS       string `json:"ns"`      // none | std | prefixed
	Plugins  bool   `json:"plugins"` // inert build/plugins + pluginManagement
	Decl     bool   `json:"decl"`    // xml declaration + processing instruction
	Self     bool   `json:"self"`    // self-closing empty elements
	Entities bool   `json:"entities"`
}

type entry struct {
	ID  int    `json:"id"`
	Sec string `json:"sec"`
	K   string `json:"k"`
	// npm
	Al string `json:"al"` // no | plain | scoped
	V  string `json:"v"`  // version string (npm) / raw version text (pom)
	// pom
	Loc string `json:"loc"` // top | p1 | p2 | par
}

type pdef struct {
	Loc string `json:"loc"`
	N   string `json:"n"`
	V   string `json:"v"`
}

type update struct {
	K  string `json:"k"`  // npm: requirement key
	E  int    `json:"e"`  // pom: entry id
	To string `json:"to"` // new version
}

type wcase struct {
	Eco     string   `json:"eco"`
	Entries []entry  `json:"entries"`
	PDefs   []pdef   `json:"pdefs"`
	Par     bool     `json:"par"`
	Layout  layout   `json:"layout"`
	Ups     []update `json:"ups"`
	Add     string   `json:"add"` // pom: version of a new (transitive) override, "" = none
	Eff0    []kv     `json:"eff0"`
}

type kv struct {
	ID int    `json:"id"`
	K  string `json:"k,omitempty"`
	Al string `json:"al,omitempty"`
	V  string `json:"v"`
}

type wobs struct {
	I         int               `json:"i"`
	Sane      bool              `json:"sane"`
	Why       string            `json:"why,omitempty"` // why not sane (renderer problem, never a verdict)
	Err       string            `json:"err"`
	Panic     string            `json:"panic"`
	Reqs      []kv              `json:"reqs_after"`
	NReq      [2]int            `json:"nreq"`      // number of requirements before / after
	Changed   map[string]string `json:"changed"`   // recorded value id -> new text, for values whose text changed
	Preserved bool              `json:"preserved"` // nothing outside recorded values changed
	Diff      string            `json:"diff"`      // first difference outside recorded values
	Added     []kv              `json:"added"`     // pom: dependencies inserted by the writer
	Lost      []string          `json:"lost"`      // pom: recorded values that kept their text but lost inner tokens (comments)
	PlgWant   string            `json:"plg_want"` // pom: version the managed plugin's dependency was updated to ("" = not addressed)
	PlgText   string            `json:"plg_text"` // pom: new text of that dependency's <version>, if it changed
	PlgRead   string            `json:"plg_read"` // pom: its version when the output is read back (plugin block present)
	SameBytes bool              `json:"same_bytes"`
	Written   bool              `json:"written"`
	In        string            `json:"in,omitempty"`
	Out       string            `json:"out,omitempty"`
}

func init() {
	Register("write", func(e *Env) error {
		dump := e.Args["dump"] == "1"
		if pf := e.Args["cpuprofile"]; pf != "" { // development aid
			f, err := os.Create(pf)
			if err != nil {
				return err
			}
			defer f.Close()
			if err := pprof.StartCPUProfile(f); err != nil {
				return err
			}
			defer pprof.StopCPUProfile()
		}
		return MapCases(e, func(idx int, raw []byte) (any, error) {
			var c wcase
			if err := json.Unmarshal(raw, &c); err != nil {
				return nil, err
			}
			dir, err := os.MkdirTemp(e.Tmp, "c")
			if err != nil {
				return nil, err
			}
			defer os.RemoveAll(dir)
			o := &wobs{I: idx, Changed: map[string]string{}}
			switch c.Eco {
			case "npm":
				runNpm(&c, dir, o, dump)
			case "maven":
				runMaven(&c, dir, o, dump)
			default:
				return nil, fmt.Errorf("unknown eco %q", c.Eco)
			}
			return o, nil
		})
	})
}

func mustWrite(path string, b []byte) error {
	if err := os.MkdirAll(filepath.Dir(path), 0o755); err != nil {
		return err
	}
	return os.WriteFile(path, b, 0o644)
}
