package main

// Token-level comparison of two XML documents (the domain of C13 for pom.xml): the same sequence of
// elements, attributes (in order), character data, comments, processing instructions and directives.
// <a/> and <a></a> are the same, entity/CDATA spelling is ignored (adjacent character data is merged).
// Values the renderer recorded (by element path) may differ; their new text is reported.

import (
	"bytes"
	"encoding/xml"
	"fmt"
	"io"
	"strings"
)

const (
	tStart = iota
	tEnd
	tText
	tComment
	tProc
	tDir
)

type xattr struct{ name, val string }

type xtok struct {
	kind  int
	name  string
	attrs []xattr
	text  string
}

func (t xtok) String() string {
	switch t.kind {
	case tStart:
		s := "<" + t.name
		for _, a := range t.attrs {
			s += fmt.Sprintf(" %s=%q", a.name, a.val)
		}
		return s + ">"
	case tEnd:
		return "</" + t.name + ">"
	case tText:
		return fmt.Sprintf("text %q", t.text)
	case tComment:
		return fmt.Sprintf("<!--%s-->", t.text)
	case tProc:
		return fmt.Sprintf("<?%s %s?>", t.name, t.text)
	default:
		return fmt.Sprintf("<!%s>", t.text)
	}
}

func (t xtok) equal(u xtok) bool {
	if t.kind != u.kind || t.name != u.name || t.text != u.text || len(t.attrs) != len(u.attrs) {
		return false
	}
	for i := range t.attrs {
		if t.attrs[i] != u.attrs[i] {
			return false
		}
	}
	return true
}

func qname(n xml.Name) string {
	if n.Space != "" {
		return n.Space + ":" + n.Local
	}
	return n.Local
}

// xmlTokens decodes b syntactically (RawToken: no namespace translation) and also checks that it is
// well-formed (a second pass with Token, which verifies nesting).
func xmlTokens(b []byte) ([]xtok, error) {
	chk := xml.NewDecoder(bytes.NewReader(b))
	chk.Entity = xml.HTMLEntity
	for {
		_, err := chk.Token()
		if err == io.EOF {
			break
		}
		if err != nil {
			return nil, err
		}
	}
	d := xml.NewDecoder(bytes.NewReader(b))
	d.Entity = xml.HTMLEntity
	var out []xtok
	for {
		t, err := d.RawToken()
		if err == io.EOF {
			break
		}
		if err != nil {
			return nil, err
		}
		switch x := t.(type) {
		case xml.StartElement:
			k := xtok{kind: tStart, name: qname(x.Name)}
			for _, a := range x.Attr {
				k.attrs = append(k.attrs, xattr{qname(a.Name), a.Value})
			}
			out = append(out, k)
		case xml.EndElement:
			out = append(out, xtok{kind: tEnd, name: qname(x.Name)})
		case xml.CharData:
			if len(x) == 0 {
				continue
			}
			if n := len(out); n > 0 && out[n-1].kind == tText {
				out[n-1].text += string(x)
			} else {
				out = append(out, xtok{kind: tText, text: string(x)})
			}
		case xml.Comment:
			out = append(out, xtok{kind: tComment, text: string(x)})
		case xml.ProcInst:
			out = append(out, xtok{kind: tProc, name: x.Target, text: string(x.Inst)})
		case xml.Directive:
			out = append(out, xtok{kind: tDir, text: string(x)})
		}
	}
	return out, nil
}

func isWS(t xtok) bool { return t.kind == tText && strings.TrimSpace(t.text) == "" }

// subtree returns the index just after the end token matching the start token at ts[i].
func subtree(ts []xtok, i int) int {
	depth := 0
	for j := i; j < len(ts); j++ {
		switch ts[j].kind {
		case tStart:
			depth++
		case tEnd:
			depth--
			if depth == 0 {
				return j + 1
			}
		}
	}
	return len(ts)
}

func textOf(ts []xtok) (string, bool) {
	var s strings.Builder
	pure := true
	for _, t := range ts {
		if t.kind == tText {
			s.WriteString(t.text)
		} else {
			pure = false
		}
	}
	return s.String(), pure
}

type xmlCmp struct {
	changed map[string]string
	lost    []string // recorded values whose text is unchanged but whose inner tokens (comments) were dropped
	added   []kv
	diff    string
}

// depSig is the identity of a <dependency> subtree (ts[0] is its start token).
func depSig(ts []xtok) string {
	d := addedDeps(ts)
	if len(d) != 1 {
		return "?"
	}
	return d[0].K
}

// childSubtrees lists the [start,end) token ranges of the elements named name that are children of the
// element path ctx ("project", "project/dependencyManagement/dependencies").
func childSubtrees(ts []xtok, ctx, name string) [][2]int {
	var out [][2]int
	var stack []string
	for i := 0; i < len(ts); i++ {
		switch ts[i].kind {
		case tStart:
			if ts[i].name == name && strings.Join(stack, "/") == ctx {
				e := subtree(ts, i)
				out = append(out, [2]int{i, e})
				i = e - 1
				continue
			}
			stack = append(stack, ts[i].name)
		case tEnd:
			if len(stack) > 0 {
				stack = stack[:len(stack)-1]
			}
		}
	}
	return out
}

// stripInsertion removes from out the elements the writer inserted (a dependencyManagement child of
// project when the input has none, dependency children of project/dependencyManagement/dependencies
// that the input does not have), together with the whitespace next to them. It returns the remaining
// tokens, the inserted dependencies and the positions where whitespace was cut.
func stripInsertion(in, out []xtok) ([]xtok, []kv, map[int]bool) {
	var cut [][2]int
	var added []kv
	const dmCtx = "project/dependencyManagement/dependencies"
	if len(childSubtrees(in, "project", "dependencyManagement")) == 0 {
		for _, r := range childSubtrees(out, "project", "dependencyManagement") {
			cut = append(cut, r)
			added = append(added, addedDeps(out[r[0]:r[1]])...)
		}
	} else {
		have := map[string]int{}
		for _, r := range childSubtrees(in, dmCtx, "dependency") {
			have[depSig(in[r[0]:r[1]])]++
		}
		outs := childSubtrees(out, dmCtx, "dependency")
		total := map[string]int{}
		for _, r := range outs {
			total[depSig(out[r[0]:r[1]])]++
		}
		for _, r := range outs {
			sig := depSig(out[r[0]:r[1]])
			if total[sig] > have[sig] {
				total[sig]--
				cut = append(cut, r)
				added = append(added, addedDeps(out[r[0]:r[1]])...)
			}
		}
	}
	soft := map[int]bool{}
	if len(cut) == 0 {
		return out, nil, soft
	}
	var res []xtok
	pos := 0
	for _, r := range cut {
		a, b := r[0], r[1]
		for a > pos && isWS(out[a-1]) {
			a--
		}
		for b < len(out) && isWS(out[b]) {
			b++
		}
		res = append(res, out[pos:a]...)
		soft[len(res)] = true
		pos = b
	}
	res = append(res, out[pos:]...)
	return res, added, soft
}

// compareXML walks both token streams in lockstep. flags maps the path of a recorded value element
// (child-element ordinals from the root, e.g. "r/4/1/2") to its id. If allowAdd, inserted
// dependencyManagement / dependency elements are taken out of the output first and reported.
func compareXML(in, out []xtok, flags map[string]string, allowAdd bool) xmlCmp {
	res := xmlCmp{changed: map[string]string{}}
	soft := map[int]bool{}
	if allowAdd {
		out, res.added, soft = stripInsertion(in, out)
	}
	type frame struct {
		name, path string
		next       int // ordinal of the next child element
	}
	var stack []frame
	pathOf := func() string { // path of the element about to start
		if len(stack) == 0 {
			return "r"
		}
		top := stack[len(stack)-1]
		return fmt.Sprintf("%s/%d", top.path, top.next)
	}
	ctx := func() string {
		var n []string
		for _, f := range stack {
			n = append(n, f.name)
		}
		return strings.Join(n, "/")
	}
	fail := func(i, j int) xmlCmp {
		a, b := "<end of input document>", "<end of output document>"
		if i < len(in) {
			a = in[i].String()
		}
		if j < len(out) {
			b = out[j].String()
		}
		res.diff = fmt.Sprintf("token %d under %s: input %s, output %s", i, ctx(), a, b)
		return res
	}
	i, j := 0, 0
	for i < len(in) || j < len(out) {
		if soft[j] && i < len(in) && isWS(in[i]) && (j >= len(out) || !in[i].equal(out[j])) {
			// whitespace that stood where the insertion was made
			i++
			delete(soft, j)
			continue
		}
		if i < len(in) && j < len(out) && in[i].kind == tStart {
			p := pathOf()
			if id, ok := flags[p]; ok {
				if !in[i].equal(out[j]) {
					return fail(i, j)
				}
				ie, je := subtree(in, i), subtree(out, j)
				ci, cj := in[i+1:ie-1], out[j+1:je-1]
				same := len(ci) == len(cj)
				for k := 0; same && k < len(ci); k++ {
					same = ci[k].equal(cj[k])
				}
				if !same {
					ti, _ := textOf(ci)
					tj, pure := textOf(cj)
					if !pure {
						res.diff = fmt.Sprintf("value %s (%s) now contains non-text tokens", id, ctx())
						return res
					}
					if ti == tj {
						// the text is unchanged but tokens inside the value (a comment) are gone
						res.lost = append(res.lost, id)
					} else {
						res.changed[id] = tj
					}
				}
				if len(stack) > 0 {
					stack[len(stack)-1].next++
				}
				i, j = ie, je
				continue
			}
		}
		if i < len(in) && j < len(out) && in[i].equal(out[j]) {
			switch in[i].kind {
			case tStart:
				p := pathOf()
				if len(stack) > 0 {
					stack[len(stack)-1].next++
				}
				stack = append(stack, frame{name: in[i].name, path: p})
			case tEnd:
				if len(stack) > 0 {
					stack = stack[:len(stack)-1]
				}
			}
			i++
			j++
			continue
		}
		return fail(i, j)
	}
	return res
}

// addedDeps extracts the dependencies of an inserted dependencyManagement/dependency subtree.
func addedDeps(ts []xtok) []kv {
	var out []kv
	var cur map[string]string
	var leaf string
	for _, t := range ts {
		switch t.kind {
		case tStart:
			if t.name == "dependency" {
				cur = map[string]string{}
			}
			leaf = t.name
		case tText:
			if cur != nil && leaf != "" && strings.TrimSpace(t.text) != "" {
				cur[leaf] += t.text
			}
		case tEnd:
			leaf = ""
			if t.name == "dependency" && cur != nil {
				k := cur["groupId"] + ":" + cur["artifactId"]
				if cur["classifier"] != "" {
					k += ":" + cur["classifier"]
				}
				if cur["type"] != "" {
					k += "@" + cur["type"]
				}
				out = append(out, kv{K: k, V: cur["version"]})
				cur = nil
			}
		}
	}
	return out
}
