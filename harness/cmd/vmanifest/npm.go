package main

import (
	"bytes"
	"encoding/json"
	"fmt"
	"os"
	"path/filepath"
	"sort"
	"strings"

	"deps.dev/util/resolve/dep"
	scalibrfs "github.com/google/osv-scalibr/fs"
	"github.com/google/osv-scalibr/guidedremediation/result"
	"github.com/google/osv-scalibr/guidedremediation/verifhooks"
	. "verif/harness/hlib"
)

// concrete package names of the abstract name classes
var npmNames = map[string]string{
	"dash":      "a-b", // matches the wildcard readings of a*b and a?b
	"plain":     "lodash",
	"dotted":    "socket.io",
	"scoped":    "@types/node",
	"scopeddot": "@scope/pkg.js",
	"star":      "a*b",
	"quest":     "a?b",
	"pipe":      "a|b",
	"hash":      "a#b",
}

var npmReal = map[string]string{"plain": "string-width", "scoped": "@isaacs/cliui"}

func npmClassOf(name string) string {
	for k, v := range npmNames {
		if v == name {
			return k
		}
	}
	return "?" + name
}

func npmRealKind(real string) string {
	for k, v := range npmReal {
		// one real package per (alias kind, key): real names carry the key class as a suffix
		if strings.HasPrefix(real, v+"-") || real == v {
			return k
		}
	}
	return "?" + real
}

// npmRealName is the real package an alias entry of key class k points to.
func npmRealName(al, k string) string { return npmReal[al] + "-" + k }

func npmValue(en entry) string {
	if en.Al == "" || en.Al == "no" {
		return en.V
	}
	return "npm:" + npmRealName(en.Al, en.K) + "@" + en.V
}

type span struct {
	id   int
	s, e int
}

func jstr(s string) string {
	b, _ := json.Marshal(s)
	return string(b)
}

// renderNpm renders the document and records the byte span (quotes included) of every entry value.
func renderNpm(c *wcase) ([]byte, []span) {
	L := c.Layout
	nl, ind, colon, comma := "\n", "  ", ": ", ","
	switch L.Indent {
	case "tab":
		ind = "\t"
	case "min":
		nl, ind, colon = "", "", ":"
	case "odd":
		ind, colon, comma = "     ", " :  ", " ,"
	}
	if L.CRLF && nl != "" {
		nl = "\r\n"
	}
	secs := []string{"dependencies", "devDependencies", "optionalDependencies", "peerDependencies"}
	ents := append([]entry(nil), c.Entries...)
	if L.Order == "rev" {
		secs = []string{"peerDependencies", "optionalDependencies", "devDependencies", "dependencies"}
		for i, j := 0, len(ents)-1; i < j; i, j = i+1, j-1 {
			ents[i], ents[j] = ents[j], ents[i]
		}
	}
	type item struct {
		key string
		obj []entry // object of entries, or
		raw string  // a raw value
		isO bool
	}
	var items []item
	head := []item{{key: "name", raw: jstr("verif-app")}, {key: "version", raw: jstr("1.0.0")}}
	var names []string
	for _, en := range c.Entries {
		names = append(names, npmNames[en.K])
	}
	sort.Strings(names)
	decoy := func() string {
		// an object mentioning the same package names with other values, single line
		var b strings.Builder
		b.WriteString("{")
		seen := map[string]bool{}
		n := 0
		for _, nm := range names {
			if seen[nm] {
				continue
			}
			seen[nm] = true
			if n > 0 {
				b.WriteString(", ")
			}
			n++
			b.WriteString(jstr(nm) + ": " + jstr("0.0.1"))
		}
		b.WriteString("}")
		return b.String()
	}
	for _, s := range secs {
		var es []entry
		for _, en := range ents {
			if en.Sec == s {
				es = append(es, en)
			}
		}
		if len(es) == 0 && !L.Empty {
			continue
		}
		items = append(items, item{key: s, obj: es, isO: true})
	}
	if L.Order == "rev" {
		items = append(items, head...)
	} else {
		items = append(head, items...)
	}
	if L.Decoys {
		items = append([]item{{key: "scripts", raw: decoy()}}, items...)
		items = append(items, item{key: "overrides", raw: decoy()}, item{key: "resolutions", raw: decoy()},
			item{key: "peerDependenciesMeta", raw: `{"lodash": {"optional": true}}`})
	}
	var b bytes.Buffer
	var spans []span
	b.WriteString("{" + nl)
	for i, it := range items {
		b.WriteString(ind + jstr(it.key) + colon)
		if !it.isO {
			b.WriteString(it.raw)
		} else if len(it.obj) == 0 {
			b.WriteString("{}")
		} else {
			b.WriteString("{" + nl)
			for j, en := range it.obj {
				b.WriteString(ind + ind + jstr(npmNames[en.K]) + colon)
				s := b.Len()
				b.WriteString(jstr(npmValue(en)))
				spans = append(spans, span{en.ID, s, b.Len()})
				if j < len(it.obj)-1 {
					b.WriteString(comma)
				}
				b.WriteString(nl)
			}
			b.WriteString(ind + "}")
		}
		if i < len(items)-1 {
			b.WriteString(comma)
		}
		b.WriteString(nl)
	}
	b.WriteString("}")
	if L.NL {
		if nl == "" {
			b.WriteString("\n")
		} else {
			b.WriteString(nl)
		}
	}
	sort.Slice(spans, func(i, j int) bool { return spans[i].s < spans[j].s })
	return b.Bytes(), spans
}

// jsonStringEnd returns the index just after the JSON string literal starting at b[i] ('"'), or -1.
func jsonStringEnd(b []byte, i int) int {
	if i >= len(b) || b[i] != '"' {
		return -1
	}
	for j := i + 1; j < len(b); j++ {
		switch b[j] {
		case '\\':
			j++
		case '"':
			return j + 1
		}
	}
	return -1
}

// compareOutsideSpans checks that out equals in except inside the recorded value spans, where any JSON
// string literal may stand; it returns the decoded literals per span id.
func compareOutsideSpans(in, out []byte, spans []span) (vals map[int]string, diff string) {
	vals = map[int]string{}
	ip, op := 0, 0
	for _, sp := range spans {
		seg := in[ip:sp.s]
		if op+len(seg) > len(out) || !bytes.Equal(seg, out[op:op+len(seg)]) {
			return vals, firstDiff(in[ip:], out[min(op, len(out)):], ip)
		}
		op += len(seg)
		e := jsonStringEnd(out, op)
		if e < 0 {
			return vals, fmt.Sprintf("value of entry %d is not a JSON string at output offset %d", sp.id, op)
		}
		var s string
		if err := json.Unmarshal(out[op:e], &s); err != nil {
			return vals, fmt.Sprintf("value of entry %d is not a valid JSON string: %v", sp.id, err)
		}
		vals[sp.id] = s
		op = e
		ip = sp.e
	}
	if !bytes.Equal(in[ip:], out[op:]) {
		return vals, firstDiff(in[ip:], out[op:], ip)
	}
	return vals, ""
}

func firstDiff(a, b []byte, base int) string {
	n := 0
	for n < len(a) && n < len(b) && a[n] == b[n] {
		n++
	}
	ctx := func(x []byte) string {
		lo, hi := max(0, n-20), min(len(x), n+30)
		return string(x[lo:hi])
	}
	return fmt.Sprintf("first difference at input offset %d: input ...%q... output ...%q...", base+n, ctx(a), ctx(b))
}

// npmSplitAlias mirrors the npm alias syntax "npm:<pkg>@<version>" (independent of the code under test).
func npmSplitAlias(v string) (al, ver string) {
	if r, ok := strings.CutPrefix(v, "npm:"); ok {
		if i := strings.LastIndex(r, "@"); i > 0 {
			return npmRealKind(r[:i]), r[i+1:]
		}
		return npmRealKind(r), ""
	}
	return "no", v
}

func npmProject(m verifhooks.Manifest) []kv {
	var out []kv
	for _, r := range m.Requirements() {
		al := "no"
		key := r.Name
		if ka, ok := r.Type.GetAttr(dep.KnownAs); ok {
			key = ka
			al = npmRealKind(r.Name)
			if r.Name != npmRealName(al, npmClassOf(key)) {
				al = "?" + r.Name
			}
		}
		out = append(out, kv{K: npmClassOf(key), Al: al, V: r.Version})
	}
	sort.Slice(out, func(i, j int) bool { return out[i].K < out[j].K })
	return out
}

func sameKVs(a, b []kv) bool {
	if len(a) != len(b) {
		return false
	}
	for i := range a {
		if a[i] != b[i] {
			return false
		}
	}
	return true
}

func runNpm(c *wcase, dir string, o *wobs, dump bool) {
	in, spans := renderNpm(c)
	if dump {
		o.In = string(in)
	}
	if err := mustWrite(filepath.Join(dir, "in", "package.json"), in); err != nil {
		o.Why = err.Error()
		return
	}
	if !json.Valid(in) {
		o.Why = "renderer produced invalid JSON"
		return
	}
	rw, err := verifhooks.NpmReadWriter()
	if err != nil {
		o.Why = err.Error()
		return
	}
	fsys := scalibrfs.DirFS(filepath.Join(dir, "in"))
	var m verifhooks.Manifest
	if p := Safely(func() { m, err = rw.Read("package.json", fsys) }); p != "" || err != nil {
		o.Why = fmt.Sprintf("reading the rendered document failed: %v %s", err, p)
		return
	}
	before := npmProject(m)
	want := append([]kv(nil), c.Eff0...)
	for i := range want {
		want[i].ID = 0
	}
	sort.Slice(want, func(i, j int) bool { return want[i].K < want[j].K })
	if !sameKVs(before, want) {
		o.Why = fmt.Sprintf("requirements read from the rendered document %v differ from the abstract document %v", before, want)
		return
	}
	o.Sane = true
	o.NReq[0] = len(before)
	// build the patches the way production code does: from the requirement the reader reported
	var ups []result.PackageUpdate
	for _, u := range c.Ups {
		found := false
		for _, r := range m.Requirements() {
			key := r.Name
			if ka, ok := r.Type.GetAttr(dep.KnownAs); ok {
				key = ka
			}
			if key == npmNames[u.K] {
				ups = append(ups, result.PackageUpdate{Name: r.Name, VersionFrom: r.Version, VersionTo: u.To, Type: r.Type.Clone()})
				found = true
				break
			}
		}
		if !found {
			o.Sane = false
			o.Why = "update addressed to a requirement the reader did not report: " + u.K
			return
		}
	}
	var patches []result.Patch
	if len(ups) > 1 {
		patches = []result.Patch{{PackageUpdates: ups[:1]}, {PackageUpdates: ups[1:]}}
	} else if len(ups) == 1 {
		patches = []result.Patch{{PackageUpdates: ups}}
	}
	outPath := filepath.Join(dir, "out", "package.json")
	var werr error
	o.Panic = Safely(func() { werr = rw.Write(m, fsys, patches, outPath) })
	if werr != nil {
		o.Err = werr.Error()
	}
	out, rerr := os.ReadFile(outPath)
	if rerr != nil {
		return
	}
	o.Written = true
	if dump {
		o.Out = string(out)
	}
	o.SameBytes = bytes.Equal(in, out)
	vals, diff := compareOutsideSpans(in, out, spans)
	o.Diff = diff
	o.Preserved = diff == ""
	for _, en := range c.Entries {
		if v, ok := vals[en.ID]; ok && v != npmValue(en) {
			al, ver := npmSplitAlias(v)
			o.Changed[fmt.Sprint(en.ID)] = al + "|" + ver
		}
	}
	var m2 verifhooks.Manifest
	if p := Safely(func() { m2, err = rw.Read("package.json", scalibrfs.DirFS(filepath.Join(dir, "out"))) }); p != "" || err != nil {
		o.Reqs = []kv{{K: "!unreadable", V: fmt.Sprintf("%v %s", err, p)}}
		return
	}
	o.Reqs = npmProject(m2)
	o.NReq[1] = len(o.Reqs)
}
