package main

import (
	"bytes"
	"fmt"
	"os"
	"path/filepath"
	"sort"
	"strings"
	"sync"

	"deps.dev/util/resolve"
	"deps.dev/util/resolve/dep"
	scalibrfs "github.com/google/osv-scalibr/fs"
	"github.com/google/osv-scalibr/guidedremediation/result"
	"github.com/google/osv-scalibr/guidedremediation/verifhooks"
	. "verif/harness/hlib"
)

// ---- a small XML tree the renderer builds; serialisation depends on the layout atoms ----

type xnode struct {
	name    string
	attrs   []xattr
	kids    []*xnode
	text    string // text node (escaped on output) unless raw != ""
	raw     string // text node written verbatim (entity spellings)
	kind    int    // tStart (element) | tText | tComment | tProc
	cdata   bool
	flag    string // id of a recorded value (leaf elements)
	selfEnd bool   // write <a/> when empty
}

func el(name string, kids ...*xnode) *xnode { return &xnode{kind: tStart, name: name, kids: kids} }
func txt(s string) *xnode                   { return &xnode{kind: tText, text: s} }
func leaf(name, s string) *xnode            { return el(name, txt(s)) }
func cmt(s string) *xnode                   { return &xnode{kind: tComment, text: s} }

func xmlEsc(s string) string {
	return strings.NewReplacer("&", "&amp;", "<", "&lt;", ">", "&gt;").Replace(s)
}

func (n *xnode) isLeafLike() bool {
	for _, k := range n.kids {
		if k.kind == tStart {
			return false
		}
		if k.kind == tComment && len(n.kids) == 1 {
			return false
		}
	}
	for _, k := range n.kids {
		if k.kind == tText {
			return true
		}
	}
	return len(n.kids) == 0
}

func serialize(b *bytes.Buffer, n *xnode, L *layout, depth int) {
	ind, nl := "  ", "\n"
	switch L.Indent {
	case "tab":
		ind = "\t"
	case "min":
		ind, nl = "", ""
	case "odd":
		ind = "      "
	}
	pad := strings.Repeat(ind, depth)
	switch n.kind {
	case tText:
		if n.raw != "" {
			b.WriteString(n.raw)
		} else if n.cdata {
			b.WriteString("<![CDATA[" + n.text + "]]>")
		} else {
			b.WriteString(xmlEsc(n.text))
		}
		return
	case tComment:
		b.WriteString("<!--" + n.text + "-->")
		return
	case tProc:
		b.WriteString("<?" + n.name + " " + n.text + "?>")
		return
	}
	b.WriteString("<" + n.name)
	for _, a := range n.attrs {
		q := `"`
		if strings.Contains(a.val, `"`) {
			q = `'`
		}
		b.WriteString(" " + a.name + "=" + q + xmlEsc(a.val) + q)
	}
	if len(n.kids) == 0 && n.selfEnd {
		b.WriteString("/>")
		return
	}
	b.WriteString(">")
	if n.isLeafLike() {
		for _, k := range n.kids {
			serialize(b, k, L, depth+1)
		}
	} else {
		for _, k := range n.kids {
			b.WriteString(nl + pad + ind)
			serialize(b, k, L, depth+1)
		}
		b.WriteString(nl + pad)
	}
	b.WriteString("</" + n.name + ">")
}

// flagPaths returns path -> id for the recorded value elements of the tree rooted at n.
func flagPaths(n *xnode, path string, out map[string]string) {
	if n.flag != "" {
		out[path] = n.flag
	}
	ord := 0
	for _, k := range n.kids {
		if k.kind == tStart {
			flagPaths(k, fmt.Sprintf("%s/%d", path, ord), out)
			ord++
		}
	}
}

// ---- rendering of the abstract pom ----

type gav struct{ g, a, classifier string }

var mvnKeys = map[string]gav{
	"g1":  {"org.x", "g1", ""},
	"g1c": {"org.x", "g1", "tests"},
	"g2":  {"org.y-z", "g2.core_2.12", ""},
	"g3":  {"org.x", "g3", ""},
}

func (c *wcase) depNode(en entry, first bool) *xnode {
	L := &c.Layout
	k := mvnKeys[en.K]
	g := leaf("groupId", k.g)
	if L.CDATA && first {
		g.kids[0].cdata = true
	}
	d := el("dependency", g)
	if L.Comments != "none" && first {
		d.kids = append(d.kids, cmt(" the artifact "))
	}
	d.kids = append(d.kids, leaf("artifactId", k.a))
	if en.V != "" {
		v := leaf("version", en.V)
		v.flag = fmt.Sprintf("e%d", en.ID)
		if L.Comments == "leaf" {
			v.kids = append(v.kids, cmt("pinned"))
		}
		d.kids = append(d.kids, v)
	}
	if k.classifier != "" {
		d.kids = append(d.kids, leaf("classifier", k.classifier))
	}
	if en.K == "g2" {
		d.kids = append(d.kids, leaf("scope", "test"),
			el("exclusions", el("exclusion", leaf("groupId", "org.q"), leaf("artifactId", "r"))))
	}
	return d
}

func (c *wcase) sectionNodes(loc string) []*xnode {
	L := &c.Layout
	var out []*xnode
	// properties
	props := el("properties")
	for _, p := range c.PDefs {
		if p.Loc != loc {
			continue
		}
		n := leaf(p.N, p.V)
		n.flag = "p:" + p.Loc + ":" + p.N
		if L.CDATA {
			n.kids[0].cdata = true
		}
		if L.Comments == "leaf" {
			n.kids = append(n.kids, cmt("managed"))
		}
		props.kids = append(props.kids, n)
	}
	if loc == "top" || loc == "par" {
		if L.Comments != "none" {
			props.kids = append(props.kids, cmt(" build settings "))
		}
		props.kids = append(props.kids, leaf("project.build.sourceEncoding", "UTF-8"))
		if L.Self {
			props.kids = append(props.kids, &xnode{kind: tStart, name: "empty.prop", selfEnd: true})
		} else {
			props.kids = append(props.kids, el("empty.prop"))
		}
	}
	if len(props.kids) > 0 {
		out = append(out, props)
	}
	for _, sec := range []string{"deps", "dm"} {
		deps := el("dependencies")
		first := true
		for _, en := range c.Entries {
			if en.Loc != loc || en.Sec != sec {
				continue
			}
			if L.Comments != "none" && first {
				deps.kids = append(deps.kids, cmt(" "+sec+" of "+loc+" "))
			}
			deps.kids = append(deps.kids, c.depNode(en, first))
			first = false
		}
		if len(deps.kids) == 0 {
			continue
		}
		if sec == "dm" {
			out = append(out, el("dependencyManagement", deps))
		} else {
			out = append(out, deps)
		}
	}
	return out
}

func (c *wcase) hasLoc(loc string) bool {
	for _, en := range c.Entries {
		if en.Loc == loc {
			return true
		}
	}
	for _, p := range c.PDefs {
		if p.Loc == loc {
			return true
		}
	}
	return false
}

func (c *wcase) pluginNodes() *xnode {
	L := &c.Layout
	conf := el("configuration", leaf("source", "11"))
	conf.attrs = []xattr{{"combine.children", "append"}, {"combine.self", "override"}, {"a", `x"y`}}
	arg := leaf("arg", "-Xlint & more")
	if L.NS == "prefixed" {
		arg.attrs = []xattr{{"xml:space", "preserve"}}
	}
	conf.kids = append(conf.kids, el("compilerArgs", arg))
	if L.Entities {
		conf.kids = append(conf.kids, el("msg", &xnode{kind: tText, raw: `&quot;a&quot; &lt;b&gt; &amp; &#39;c&#39; &#x41;`}))
	}
	plug := el("plugin", leaf("groupId", "org.apache.maven.plugins"), leaf("artifactId", "maven-compiler-plugin"),
		leaf("version", "3.11.0"), conf)
	pdv := leaf("version", "1.0")
	pdv.flag = "plg"
	pdeps := el("dependencies", el("dependency", leaf("groupId", "org.plugdep"), leaf("artifactId", "pd"), pdv))
	pm := el("plugin", leaf("groupId", "org.plug"), leaf("artifactId", "managed"), leaf("version", "1.0"), pdeps)
	if c.pluginNoGroup() {
		// legal: a plugin without <groupId> belongs to org.apache.maven.plugins
		pm = el("plugin", leaf("artifactId", "managed"), leaf("version", "1.0"), pdeps)
	}
	return el("build", el("pluginManagement", el("plugins", pm)), el("plugins", plug))
}

// pluginNoGroup: the managed plugin omits its <groupId> (chosen by the shape of the case so that both spellings occur).
func (c *wcase) pluginNoGroup() bool { return len(c.Entries)%2 == 0 }

// pluginUpdate: with the plugin block present and at least one update requested, the dependency of the managed
// plugin is updated as well (1.0 -> 2.0); it shares no key or property with the abstract entries, so every other
// expectation is unaffected.
func (c *wcase) pluginUpdate() bool { return c.Layout.Plugins && (len(c.Ups) > 0 || c.Add != "") }

const plgName, plgTo = "org.plugdep:pd", "2.0"

func findPlg(rs []mreq) (mreq, int) {
	var got mreq
	n := 0
	for _, r := range rs {
		if r.name == plgName { // the reader reports it among the requirements for updates (with an empty origin attribute)
			got = r
			n++
		}
	}
	return got, n
}

// inheritsCoords: the local parent omits <groupId> and <version> and inherits them from a grandparent pom
// (chosen by a layout bit so that both arrangements are exercised).
func (c *wcase) inheritsCoords() bool { return c.Par && c.Layout.Entities }

// renderPom renders the child ("child") or the parent ("par") pom; returns bytes and recorded values.
func (c *wcase) renderPom(which string) ([]byte, map[string]string) {
	L := &c.Layout
	root := el("project")
	switch L.NS {
	case "std", "prefixed":
		root.attrs = []xattr{{"xmlns", "http://maven.apache.org/POM/4.0.0"}, {"xmlns:xsi", "http://www.w3.org/2001/XMLSchema-instance"},
			{"xsi:schemaLocation", "http://maven.apache.org/POM/4.0.0 http://maven.apache.org/xsd/maven-4.0.0.xsd"}}
	}
	var head, body []*xnode
	head = append(head, leaf("modelVersion", "4.0.0"))
	if which == "gp" {
		// the grandparent of the "inherit" arrangement: nothing but coordinates
		head = append(head, leaf("groupId", "org.par"), leaf("artifactId", "gp"), leaf("version", "1.0.0"), leaf("packaging", "pom"))
	} else if which == "par" {
		if c.inheritsCoords() {
			// the usual multi-module layout: the local parent takes groupId and version from its own parent
			head = append(head, el("parent", leaf("groupId", "org.par"), leaf("artifactId", "gp"), leaf("version", "1.0.0"), leaf("relativePath", "gp/pom.xml")),
				leaf("artifactId", "par"), leaf("packaging", "pom"))
		} else {
			head = append(head, leaf("groupId", "org.par"), leaf("artifactId", "par"), leaf("version", "1.0.0"), leaf("packaging", "pom"))
		}
		body = c.sectionNodes("par")
	} else {
		if c.Par {
			p := el("parent", leaf("groupId", "org.par"), leaf("artifactId", "par"), leaf("version", "1.0.0"))
			if L.Self {
				p.kids = append(p.kids, &xnode{kind: tStart, name: "relativePath", selfEnd: true})
			}
			head = append(head, p)
		}
		head = append(head, leaf("groupId", "org.me"), leaf("artifactId", "me"), leaf("version", "1.0.0"))
		if L.CDATA {
			d := el("description", &xnode{kind: tText, text: " uses <b>bold</b> & ${ver} ", cdata: true})
			head = append(head, d)
		}
		if L.Entities {
			head = append(head, el("url", &xnode{kind: tText, raw: `http://example.org/?a=1&amp;b=&quot;2&quot;&apos;`}))
		}
		body = c.sectionNodes("top")
		if c.hasLoc("p1") || c.hasLoc("p2") {
			profs := el("profiles")
			for _, id := range []string{"p1", "p2"} {
				if !c.hasLoc(id) {
					continue
				}
				p := el("profile", leaf("id", id))
				if id == "p1" {
					p.kids = append(p.kids, el("activation", leaf("activeByDefault", "true")))
				}
				p.kids = append(p.kids, c.sectionNodes(id)...)
				profs.kids = append(profs.kids, p)
			}
			body = append(body, profs)
		}
		if L.Plugins {
			body = append(body, c.pluginNodes())
		}
	}
	if L.Order == "rev" {
		for i, j := 0, len(body)-1; i < j; i, j = i+1, j-1 {
			body[i], body[j] = body[j], body[i]
		}
	}
	if L.Comments != "none" && len(body) > 0 {
		body = append([]*xnode{cmt(" sections ")}, body...)
	}
	root.kids = append(head, body...)
	var b bytes.Buffer
	nl := "\n"
	if L.Indent == "min" {
		nl = ""
	}
	if L.Decl {
		b.WriteString(`<?xml version="1.0" encoding="UTF-8"?>` + nl)
		b.WriteString(`<?verif keep="yes"?>` + nl)
	}
	if L.Comments != "none" {
		b.WriteString("<!-- Licensed under nothing & <nobody> -->" + nl)
	}
	serialize(&b, root, L, 0)
	if L.NL {
		b.WriteString("\n")
	}
	flags := map[string]string{}
	flagPaths(root, "r", flags)
	return b.Bytes(), flags
}

// ---- projection of what the real reader reports ----

type mreq struct {
	name, classifier, origin, version string
	typ                               dep.Type
}

func projectReqs(rs []resolve.RequirementVersion) []mreq {
	var out []mreq
	for _, r := range rs {
		o, _ := r.Type.GetAttr(dep.MavenDependencyOrigin)
		cl, _ := r.Type.GetAttr(dep.MavenClassifier)
		out = append(out, mreq{r.Name, cl, o, r.Version, r.Type})
	}
	return out
}

type mview struct {
	reqs, rfu []mreq
	props     map[string]map[string]string // loc -> name -> value
}

func readView(rw verifhooks.ManifestReadWriter, root string, par bool) (verifhooks.Manifest, *mview, error) {
	fsys := scalibrfs.DirFS(root)
	var m verifhooks.Manifest
	var err error
	if p := Safely(func() { m, err = rw.Read("child/pom.xml", fsys) }); p != "" {
		return nil, nil, fmt.Errorf("reader panicked: %s", p)
	}
	if err != nil {
		return nil, nil, err
	}
	sp, ok := m.EcosystemSpecific().(verifhooks.MavenManifestSpecific)
	if !ok {
		return nil, nil, fmt.Errorf("no maven ManifestSpecific")
	}
	v := &mview{reqs: projectReqs(m.Requirements()), rfu: projectReqs(sp.RequirementsForUpdates),
		props: map[string]map[string]string{"top": {}, "p1": {}, "p2": {}, "par": {}}}
	for _, p := range sp.Properties {
		loc := "top"
		if o, ok := strings.CutPrefix(p.Origin, "profile@"); ok {
			loc = o
		}
		if v.props[loc] == nil {
			v.props[loc] = map[string]string{}
		}
		v.props[loc][p.Name] = p.Value
	}
	if par {
		var pm verifhooks.Manifest
		if p := Safely(func() { pm, err = rw.Read("pom.xml", fsys) }); p != "" || err != nil {
			return nil, nil, fmt.Errorf("reading the parent: %v %s", err, p)
		}
		for _, p := range pm.EcosystemSpecific().(verifhooks.MavenManifestSpecific).Properties {
			if p.Origin == "" {
				v.props["par"][p.Name] = p.Value
			}
		}
	}
	return m, v, nil
}

func interp(s string, v *mview, order []string) string {
	for {
		i := strings.Index(s, "${")
		if i < 0 {
			return s
		}
		j := strings.Index(s[i:], "}")
		if j < 0 {
			return s
		}
		name := s[i+2 : i+j]
		val, ok := "", false
		for _, loc := range order {
			if x, has := v.props[loc][name]; has {
				val, ok = x, true
				break
			}
		}
		if !ok {
			return s[:i] + "$!{" + name + "}" + interp(s[i+j+1:], v, order)
		}
		s = s[:i] + val + s[i+j+1:]
	}
}

func find(rs []mreq, name, classifier, origin string) (mreq, int) {
	var got mreq
	n := 0
	for _, r := range rs {
		if r.name == name && r.classifier == classifier && r.origin == origin {
			if n == 0 {
				got = r
			}
			n++
		}
	}
	return got, n
}

// effOf finds the requirement the reader reports for an abstract entry and its effective version.
func effOf(en entry, v *mview) (mreq, string, error) {
	k := mvnKeys[en.K]
	origin := ""
	if en.Sec == "dm" {
		origin = "management"
	}
	name := k.g + ":" + k.a
	if en.Loc == "p2" {
		r, n := find(v.rfu, name, k.classifier, origin)
		if n != 1 {
			return r, "", fmt.Errorf("entry %d: %d requirements-for-updates match %s/%s/%s", en.ID, n, name, k.classifier, origin)
		}
		return r, interp(r.version, v, []string{"p2", "p1", "top", "par"}), nil
	}
	r, n := find(v.reqs, name, k.classifier, origin)
	if n != 1 {
		return r, "", fmt.Errorf("entry %d: %d requirements match %s/%s/%s", en.ID, n, name, k.classifier, origin)
	}
	return r, r.version, nil
}

const addedName = "org.new:added"

var (
	mvnOnce sync.Once
	mvnRW   verifhooks.ManifestReadWriter
	mvnErr  error
)

func runMaven(c *wcase, dir string, o *wobs, dump bool) {
	inRoot, outRoot := filepath.Join(dir, "in"), filepath.Join(dir, "out")
	child, cflags := c.renderPom("child")
	var parent []byte
	var pflags map[string]string
	if err := mustWrite(filepath.Join(inRoot, "child", "pom.xml"), child); err != nil {
		o.Why = err.Error()
		return
	}
	if c.Par {
		parent, pflags = c.renderPom("par")
		if err := mustWrite(filepath.Join(inRoot, "pom.xml"), parent); err != nil {
			o.Why = err.Error()
			return
		}
		if c.inheritsCoords() {
			gp, _ := c.renderPom("gp")
			if err := mustWrite(filepath.Join(inRoot, "gp", "pom.xml"), gp); err != nil {
				o.Why = err.Error()
				return
			}
		}
	}
	if dump {
		o.In = string(child)
		if c.Par {
			o.In += "\n======== parent ../pom.xml\n" + string(parent)
		}
	}
	inToks, err := xmlTokens(child)
	if err != nil {
		o.Why = "renderer produced ill-formed XML: " + err.Error()
		return
	}
	var pinToks []xtok
	if c.Par {
		if pinToks, err = xmlTokens(parent); err != nil {
			o.Why = "renderer produced ill-formed parent XML: " + err.Error()
			return
		}
	}
	// one reader/writer for all cases: the documents name no repositories and have only local parents, so
	// the registry client (unreachable address on purpose) is never used or modified
	mvnOnce.Do(func() { mvnRW, mvnErr = verifhooks.MavenReadWriter("http://127.0.0.1:1/") })
	rw, err := mvnRW, mvnErr
	if err != nil {
		o.Why = err.Error()
		return
	}
	m, v0, err := readView(rw, inRoot, c.Par)
	if err != nil {
		o.Why = "reading the rendered document failed: " + err.Error()
		return
	}
	want := map[int]string{}
	for _, e := range c.Eff0 {
		want[e.ID] = e.V
	}
	reqOf := map[int]mreq{}
	for _, en := range c.Entries {
		r, eff, err := effOf(en, v0)
		if err != nil {
			o.Why = err.Error()
			return
		}
		if eff != want[en.ID] {
			o.Why = fmt.Sprintf("entry %d reads as %q, the abstract document says %q", en.ID, eff, want[en.ID])
			return
		}
		reqOf[en.ID] = r
	}
	o.Sane = true
	o.NReq[0] = len(v0.reqs) + len(v0.rfu)
	// patches, addressed the way production code does: name, version and type of the reported requirement
	var ups []result.PackageUpdate
	for _, u := range c.Ups {
		r := reqOf[u.E]
		ups = append(ups, result.PackageUpdate{Name: r.name, VersionFrom: r.version, VersionTo: u.To, Type: r.typ.Clone()})
	}
	if c.pluginUpdate() {
		r, n := findPlg(v0.rfu)
		if n != 1 {
			o.Sane = false
			o.Why = fmt.Sprintf("%d requirements-for-updates for the managed plugin's dependency", n)
			return
		}
		o.PlgWant = plgTo
		ups = append(ups, result.PackageUpdate{Name: r.name, VersionFrom: r.version, VersionTo: plgTo, Type: r.typ.Clone()})
	}
	if c.Add != "" {
		t := dep.NewType()
		t.AddAttr(dep.MavenDependencyOrigin, "management")
		ups = append(ups, result.PackageUpdate{Name: addedName, VersionTo: c.Add, Type: t, Transitive: true})
	}
	var patches []result.Patch
	if len(ups) > 1 {
		patches = []result.Patch{{PackageUpdates: ups[:1]}, {PackageUpdates: ups[1:]}}
	} else if len(ups) == 1 {
		patches = []result.Patch{{PackageUpdates: ups}}
	}
	var werr error
	o.Panic = Safely(func() { werr = rw.Write(m, scalibrfs.DirFS(inRoot), patches, filepath.Join(outRoot, "child", "pom.xml")) })
	if werr != nil {
		o.Err = werr.Error()
	}
	out, rerr := os.ReadFile(filepath.Join(outRoot, "child", "pom.xml"))
	if rerr != nil {
		return
	}
	o.Written = true
	o.SameBytes = bytes.Equal(child, out)
	var pout []byte
	if c.Par {
		if pout, rerr = os.ReadFile(filepath.Join(outRoot, "pom.xml")); rerr != nil {
			o.Diff = "the local parent pom was not written next to the output"
			return
		}
		o.SameBytes = o.SameBytes && bytes.Equal(parent, pout)
	}
	if dump {
		o.Out = string(out)
		if c.Par {
			o.Out += "\n======== parent ../pom.xml\n" + string(pout)
		}
	}
	// (ii) preservation on decoded tokens
	o.Preserved = true
	cmpFile := func(name string, inT []xtok, outB []byte, flags map[string]string, allowAdd bool) {
		outT, err := xmlTokens(outB)
		if err != nil {
			o.Preserved = false
			o.Diff = name + ": output is not well-formed XML: " + err.Error()
			return
		}
		r := compareXML(inT, outT, flags, allowAdd)
		for k, val := range r.changed {
			o.Changed[k] = val
		}
		o.Added = append(o.Added, r.added...)
		o.Lost = append(o.Lost, r.lost...)
		if r.diff != "" && o.Diff == "" {
			o.Preserved = false
			o.Diff = name + ": " + r.diff
		}
	}
	cmpFile("child/pom.xml", inToks, out, cflags, c.Add != "")
	if c.Par {
		cmpFile("pom.xml", pinToks, pout, pflags, false)
	}
	if v, ok := o.Changed["plg"]; ok {
		o.PlgText = v
		delete(o.Changed, "plg")
	}
	sort.Slice(o.Added, func(i, j int) bool { return o.Added[i].K < o.Added[j].K })
	sort.Strings(o.Lost)
	// (i) re-read with the real reader
	_, v1, err := readView(rw, outRoot, c.Par)
	if err != nil {
		o.Reqs = []kv{{K: "!unreadable", V: err.Error()}}
		return
	}
	for _, en := range c.Entries {
		_, eff, err := effOf(en, v1)
		if err != nil {
			eff = "!" + err.Error()
		}
		o.Reqs = append(o.Reqs, kv{ID: en.ID, V: eff})
	}
	if r, n := find(v1.reqs, addedName, "", "management"); n > 0 {
		o.Reqs = append(o.Reqs, kv{ID: 0, K: "added", V: fmt.Sprintf("%s x%d", r.version, n)})
	}
	o.NReq[1] = len(v1.reqs) + len(v1.rfu)
	if c.Layout.Plugins {
		if r, n := findPlg(v1.rfu); n == 1 {
			o.PlgRead = r.version
		} else {
			o.PlgRead = fmt.Sprintf("!%d requirements", n)
		}
	}
}
