#!/usr/bin/env python3
"""C11 - guided remediation only upgrades, and only as far as the policy allows.
(also the shared runner of C12 - a reported fix is a real fix: re-analysis matches the report.)

TLC: Remediation.tla (via RemediationGen) model-checks the transcribed strategies (override candidate scan, npm
relax step, Maven suggest, choosePatches, write, re-analysis) against C11/C12 on a reference environment and
emits every terminal scenario; the harness (vremfix fix) runs the REAL FixVulns/Update on each sampled scenario
and on seeded random universes far outside TLC's bounds, judges C11/C12 with its own Cmp/Diff/Allows (so that a
violation carries the concrete universe) and records the pipeline; RemediationTrace.tla validates the recorded
traces with the C11/C12 invariants evaluated at every step."""
import json, os, random, shutil, sys, tempfile
sys.path.insert(0, os.path.dirname(os.path.abspath(__file__)))
import vf, args

VT = ["1.0.0", "1.0.1", "1.1.0", "2.0.0-rc", "2.0.0", "2.1.0", "3.0.0"]
MY_FINDINGS = ["C11-relax-prerelease-caret", "C12-explicit-introduced", "C11-update-nil-range",
               "C11-override-ineffective-pin-loop", "C11-override-unfixing-patch", "C11-update-maven-hard-range",
               "C11-override-maven-hard-range", "C11-override-combined-hard-range"]

GEN_QUICK = ["Remediation-relax-levels-quick.cfg", "Remediation-relax-options-quick.cfg",
             "Remediation-override-levels-quick.cfg", "Remediation-override-options-quick.cfg",
             "Remediation-override-diamond-quick.cfg", "Remediation-update-quick.cfg"]
GEN_THOROUGH = ["Remediation-relax-levels.cfg", "Remediation-relax-options.cfg",
                "Remediation-override-levels.cfg", "Remediation-override-options.cfg",
                "Remediation-override-diamond.cfg", "Remediation-relax-diamond.cfg", "Remediation-update.cfg"]
SANITY = [("Remediation-sanity-patch.cfg", "SanityPatch"), ("Remediation-sanity-introduced.cfg", "SanityIntroduced"),
          ("Remediation-sanity-iter.cfg", "SanityTwoIterations")]


# ------------------------------------------------------------------------------------------------
# abstract (TLC) scenario -> concrete case (DESIGN.md Appendix B.1, Remediation.scenario)

def vtuple(s):
    core, _, pre = s.partition("-")
    t = [int(x) for x in core.split(".")]
    if not pre:
        return t + [9]
    k = pre[2:].lstrip(".")
    return t + [int(k) if k else 0]


def vrender(t, eco):
    s = "%d.%d.%d" % tuple(t[:3])
    if t[3] == 9:
        return s
    if t[3] == 0:
        return s + "-rc"
    return s + ("-rc%d" if eco == "Maven" else "-rc.%d") % t[3]


def req_str(eco, kind, at):
    """at: a version tuple"""
    v = vrender(at, eco) if at else ""
    if kind == "pin":
        return v
    if eco == "npm":
        return {"caret": "^" + v, "tilde": "~" + v, "latest": "latest"}[kind]
    if kind == "caret":
        return "[%s,%d.0.0)" % (v, at[0] + 1)
    if kind == "tilde":
        return "[%s,%d.%d.0)" % (v, at[0], at[1] + 1)
    return "[0,)"


OPTS = {
    "plain": {}, "noIntroduce": {"noIntroduce": True}, "max0": {"maxUpgrades": 0}, "ignore1": {"ignore": ["V1"]},
    "explicit1": {"explicit": ["V1"]}, "nodev": {"devDeps": False}, "depth1": {"maxDepth": 1}, "sev7": {"minSeverity": 7.0},
}


def base_opts(family):
    mode, strat = {"npm-relax": ("fix", "relax"), "maven-override": ("fix", "override"), "maven-update": ("update", "")}[family]
    return {"mode": mode, "strategy": strat, "levels": {}, "maxUpgrades": 1, "noIntroduce": False, "ignore": [], "explicit": [],
            "devDeps": True, "maxDepth": 0, "minSeverity": 0, "ignoreDev": False}


def concretize(a, cfg):
    fam = a["family"]
    eco = "npm" if fam == "npm-relax" else "Maven"
    nm = (lambda p: p) if eco == "npm" else (lambda p: "pkg:" + p)
    vt = lambda i: vtuple(VT[i - 1])
    uni = []
    for p in a["universe"]:
        vs = []
        for v in p["versions"]:
            deps = [[nm(d[1]), req_str(eco, d[2], vt(d[3]) if d[3] else None)] for d in sorted(v["deps"])]
            vs.append({"v": VT[v["v"] - 1], "deps": deps, "latest": bool(v["latest"])})
        uni.append({"name": nm(p["name"]), "versions": vs})
    man = [{"name": nm(m[1]), "req": req_str(eco, m[2], vt(m[3]) if m[3] else None), "group": m[4]} for m in sorted(a["manifest"])]
    vulns = []
    for i, v in enumerate(a["vulns"]):
        evs = [["introduced", "0" if v["lo"] == 0 else VT[v["lo"] - 1]]]
        if v["end"] == "fixed":
            evs.append(["fixed", VT[v["hi"] - 1]])
        elif v["end"] == "last":
            evs.append(["last_affected", VT[v["hi"] - 1]])
        vulns.append({"id": "V%d" % (i + 1), "pkg": nm(v["pkg"]), "events": evs, "sev": v["sev"]})
    o = base_opts(fam)
    o.update(OPTS[a["opt"]])
    o["levels"] = {("" if p == "*" else nm(p)): l for p, l in a["levels"]}
    sc = {"eco": eco, "universe": uni, "manifest": man, "vulns": vulns, "opts": o}
    c = {"fam": "Remediation", "cfg": cfg, "scenario": sc, "devs": sorted(a["devs"]), "model": a["model"]}
    c["id"] = vf.case_id(sc)
    return c


# ------------------------------------------------------------------------------------------------
# seeded random universes far outside the TLC bounds (binding B): up to 4 packages, 1..12 versions each with
# pre-releases, arbitrary per-version edges (acyclic, diamonds), several vulnerabilities, random options

def random_case(rng, j):
    fam = rng.choice(["npm-relax", "npm-relax", "maven-override", "maven-override", "maven-update"])
    eco = "npm" if fam == "npm-relax" else "Maven"
    nm = (lambda p: p) if eco == "npm" else (lambda p: "pkg:" + p)
    names = ["a", "b", "c", "d"][: rng.randint(1, 4)]
    menus = {}
    for p in names:
        n = rng.randint(1, 12)
        vs = set()
        while len(vs) < n:
            t = (rng.randint(1, 3), rng.randint(0, 2), rng.randint(0, 2), rng.choice([9, 9, 9, 9, 0, 1, 2]))
            vs.add(t)
        menus[p] = sorted(vs)
    kinds = ["pin", "caret", "tilde", "latest"]

    def rreq(q):
        return req_str(eco, rng.choice(kinds), list(rng.choice(menus[q])))
    uni = []
    for i, p in enumerate(names):
        rel = [v for v in menus[p] if v[3] == 9]
        latest = (rel or menus[p])[-1]
        vs = []
        for v in menus[p]:
            deps = [[nm(q), rreq(q)] for q in names[i + 1:] if rng.random() < 0.55]
            vs.append({"v": vrender(list(v), eco), "deps": deps, "latest": v == latest})
        uni.append({"name": nm(p), "versions": vs})
    man = [{"name": nm(names[0]), "req": rreq(names[0]), "group": ""}]
    for p in names[1:]:
        if rng.random() < 0.4:
            man.append({"name": nm(p), "req": rreq(p), "group": rng.choice(["", "", "dev"])})
    vulns = []
    for k in range(rng.randint(0 if fam == "maven-update" else 1, 4)):
        p = rng.choice(names)
        lo = rng.choice([None] + menus[p][: max(1, len(menus[p]) // 2)])
        evs = [["introduced", "0" if lo is None else vrender(list(lo), eco)]]
        above = [v for v in menus[p] if lo is None or v > lo]
        r = rng.random()
        if above and r < 0.6:
            evs.append(["fixed", vrender(list(rng.choice(above)), eco)])
        elif above and r < 0.75:
            evs.append(["last_affected", vrender(list(rng.choice(above)), eco)])
        vulns.append({"id": "V%d" % (k + 1), "pkg": nm(p), "events": evs, "sev": rng.choice(["high", "high", "low", ""])})
    o = base_opts(fam)
    lv = ["major", "minor", "patch", "none"]
    if rng.random() < 0.8:
        o["levels"][""] = rng.choice(lv)
    for p in names:
        if rng.random() < 0.3:
            o["levels"][nm(p)] = rng.choice(lv)
    o["maxUpgrades"] = rng.choice([1, 1, 1, 0, 2])
    o["noIntroduce"] = rng.random() < 0.2
    ids = [v["id"] for v in vulns]
    if ids and rng.random() < 0.15:
        o["ignore"] = [rng.choice(ids)]
    if ids and rng.random() < 0.15:
        o["explicit"] = [rng.choice(ids)]
    o["devDeps"] = rng.random() < 0.8
    o["maxDepth"] = rng.choice([0, 0, 0, -1, 1, 2])
    o["minSeverity"] = rng.choice([0, 0, 0, 7.0])
    o["ignoreDev"] = rng.random() < 0.2
    sc = {"eco": eco, "universe": uni, "manifest": man, "vulns": vulns, "opts": o}
    if eco == "Maven" and rng.random() < 0.3:
        sc["layout"] = rng.choice(["profile-mgmt", "profile-mgmt-active", "profile-props"])
    # a package declared twice, plainly and through an npm: alias (the package.json reader used to keep only one of the two
    # when the later one sat in devDependencies / optionalDependencies: fixed finding C12-npm-alias-declaration-lost)
    if eco == "npm" and rng.random() < 0.25:
        m = rng.choice(man)
        man.append({"name": m["name"] + "-legacy", "req": "npm:%s@%s" % (m["name"], m["req"]), "group": rng.choice(["", "", "dev"])})
    return {"fam": "Remediation", "cfg": "random", "scenario": sc, "devs": [], "model": None, "id": vf.case_id(sc)}


# ------------------------------------------------------------------------------------------------
# class predicates of the findings this check knows about (attribution only; suppression needs an open entry)

def maven_range_matches_nothing(sc):
    menus = {p["name"]: [vtuple(v["v"]) for v in p["versions"]] for p in sc["universe"]}
    for m in sc["manifest"]:
        r = m["req"]
        if not r.startswith("["):
            continue
        lo, hi = r[1:-1].split(",")
        lo_t = vtuple(lo) if lo not in ("", "0") else [0, 0, 0, 0]
        hi_t = vtuple(hi) if hi else [99, 0, 0, 9]
        closed = r.endswith("]")
        if not any(lo_t <= v and (v < hi_t or (closed and v == hi_t)) for v in menus.get(m["name"], [])):
            return True
    return False


def hard_involved(sc, u):
    """a Maven hard requirement (range) constrains the updated package, or the rewritten requirement was one"""
    rng = lambda r: r.startswith("[") or r.startswith("(")
    if sc["eco"] != "Maven":
        return False
    return rng(u["From"]) or any(d[0] == u["Name"] and rng(d[1]) for p in sc["universe"] for v in p["versions"] for d in v["deps"])


def classify(case, f):
    """-> id of the known finding whose scenario class this finding belongs to, or None"""
    sc = case["scenario"]
    o = sc["opts"]
    d = f.get("data") or {}
    if f["kind"] == "level-exceeded" and o["strategy"] == "relax":
        b = vtuple(d["base"])
        if b[3] != 9 and d["update"]["To"] == "^%d.%d.%d" % tuple(b[:3]) and vtuple(d["after"])[0] == b[0]:
            return "C11-relax-prerelease-caret"
    if f["kind"] == "reanalysis-differs" and o["explicit"] and d.get("patch"):
        extra = set(d["patch"]["Introduced"]) - set(o["explicit"])
        if extra and set(d["expected"]) - set(d["second"]) <= extra and set(d["second"]) <= set(d["expected"]):
            return "C12-explicit-introduced"
    if f["kind"] == "panic" and o["mode"] == "update" and maven_range_matches_nothing(sc):
        return "C11-update-nil-range"
    if f["kind"] == "hang" and o["strategy"] == "override":
        return "C11-override-ineffective-pin-loop"
    if f["kind"] == "not-upward" and o["strategy"] == "override" and d.get("patch") and not d["patch"]["Fixed"]:
        return "C11-override-unfixing-patch"
    if f["kind"] in ("not-upward", "level-exceeded") and o["mode"] == "update" and d.get("update") and hard_involved(sc, d["update"]):
        return "C11-update-maven-hard-range"
    if (f["kind"] in ("not-upward", "level-exceeded") and o["strategy"] == "override" and d.get("update")
            and d["update"]["From"][:1] in ("[", "(") and hard_involved(sc, d["update"])):
        # judged over several applied patches together: a defect of the combination, not of the single override
        return "C11-override-combined-hard-range" if len(d.get("combination") or []) >= 2 else "C11-override-maven-hard-range"
    return None


# ------------------------------------------------------------------------------------------------

def generate(ck):
    """TLC: sanity cfgs, model checking + emission of the Gen cfgs (run concurrently); -> list of concrete cases"""
    from concurrent.futures import ThreadPoolExecutor
    cfgs = GEN_THOROUGH if ck.thorough() else GEN_QUICK
    par = 4 if ck.thorough() else 6
    wk = max(2, vf.NCPU // min(par, len(cfgs)))

    def one(job):
        kind, cfg, inv = job
        if kind == "sanity":
            return job, vf.tlc("RemediationGen", cfg, workers=2, collect=False, timeout=300)
        return job, vf.tlc("RemediationGen", cfg, workers=wk, timeout=2400, heap="6g" if ck.thorough() else "3g")
    jobs = [("gen", c, None) for c in cfgs] + [("sanity", c, inv) for c, inv in SANITY]
    cases = []
    with ThreadPoolExecutor(max_workers=par) as ex:
        for (kind, cfg, inv), r in ex.map(one, jobs):
            if kind == "sanity":
                if r.violated != inv:
                    raise vf.NotAVerdict("sanity invariant %s not violated (%s): vacuous model" % (inv, r.violated))
                continue
            vf.require_ok(r, cfg)
            ck.add_tlc(cfg, r, open(os.path.join(vf.SPEC, "cfg", cfg)).read().split("SPECIFICATION")[0].strip())
            cases += [concretize(a, cfg) for a in r.cases]
    return cases


def overlay(c, seed):
    """manifest-shape and option variants the model is neutral to, chosen per scenario from the seed:
    Maven/override: pom layouts with a <profile> (own dependencyManagement, inactive or activeByDefault; properties only),
    several applied patches (maxUpgrades 0 / 2); npm/relax: the first dependency declared a second time through an
    npm: alias with the same requirement (both declarations need the change), possibly in devDependencies"""
    sc = c["scenario"]
    o = sc["opts"]
    rng = random.Random("%s/%d" % (c["id"], seed))
    r = rng.random()
    if o["mode"] == "fix" and o["strategy"] == "override":
        if r < 0.45:
            sc["layout"] = rng.choice(["profile-mgmt", "profile-mgmt-active", "profile-props", "profile-mgmt"])
        elif r < 0.75 and r >= 0.6 and sc["eco"] == "Maven" and all(m["group"] in ("", "dev") for m in sc["manifest"]):
            # the requirements are declared in a local parent pom
            sc["layout"] = "local-parent"
        elif r < 0.6 and sc["eco"] == "Maven":
            # a vulnerable package that is not a direct requirement is managed (at its lowest version) in an
            # activeByDefault profile whose dependencyManagement takes the version from a property of that profile
            direct = {m["name"] for m in sc["manifest"]}
            cand = sorted({v["pkg"] for v in sc["vulns"]} - direct)
            byname = {u["name"]: u for u in sc["universe"]}
            cand = [p for p in cand if p in byname and byname[p]["versions"]]
            if cand:
                p = rng.choice(cand)
                sc["manifest"].append({"name": p, "req": byname[p]["versions"][0]["v"], "group": "mgmt"})
                sc["layout"] = "profile-mgmt-prop"
        if rng.random() < 0.3 and o["maxUpgrades"] == 1:
            o["maxUpgrades"] = rng.choice([0, 2])
    elif o["mode"] == "fix" and o["strategy"] == "relax":
        if r < 0.35 and sc["manifest"] and not sc["manifest"][0]["req"].startswith("npm:"):
            m = sc["manifest"][0]
            sc["manifest"].append({"name": m["name"] + "-legacy", "req": "npm:%s@%s" % (m["name"], m["req"]),
                                   "group": rng.choice(["", "", "dev"]) if not o["devDeps"] or rng.random() < 0.3 else ""})
        if rng.random() < 0.2 and o["maxUpgrades"] == 1:
            o["maxUpgrades"] = rng.choice([0, 2])
    elif o["mode"] == "update" and r < 0.3:
        sc["layout"] = rng.choice(["profile-mgmt", "profile-mgmt-active", "profile-props"])
    c["id"] = vf.case_id(sc)
    return c


def designed_cases():
    """hand-shaped universes for multi-patch interplay (several applied patches that share a fixed vulnerability):
    foo@lo -> bar@lo, foo@hi -> bar@hi; bar's vulnerabilities are fixed below bar@hi; foo's own vulnerability is fixed
    at foo@hi, which introduces n new vulnerabilities (so that 'upgrade foo' ranks after 'override bar')."""
    out = []
    for eco, strat in (("Maven", "override"), ("npm", "relax")):
        nm = (lambda p: "pkg:" + p) if eco == "Maven" else (lambda p: p)
        fam = "maven-override" if eco == "Maven" else "npm-relax"
        for nbar in (1, 2):
            for nnew in (0, 1, 2, 3):
                for maxup in (0, 1, 2):
                    for lvl in ({}, {"": "major", nm("bar"): "minor"}):
                        for layout in (("", "profile-mgmt") if eco == "Maven" else ("",)):
                            dep = (lambda v: v) if eco == "Maven" else (lambda v: "^" + v)
                            uni = [{"name": nm("foo"), "versions": [{"v": "1.0.0", "deps": [[nm("bar"), dep("1.0.0")]], "latest": False},
                                                                    {"v": "3.0.0", "deps": [[nm("bar"), dep("3.0.0")]], "latest": True}]},
                                   {"name": nm("bar"), "versions": [{"v": v, "deps": [], "latest": v == "3.0.0"} for v in ("1.0.0", "1.1.0", "2.0.0", "3.0.0")]}]
                            vulns = [{"id": "V1", "pkg": nm("foo"), "events": [["introduced", "0"], ["fixed", "3.0.0"]], "sev": "high"}]
                            for i in range(nnew):
                                vulns.append({"id": "V%d" % (len(vulns) + 1), "pkg": nm("foo"), "events": [["introduced", "3.0.0"]], "sev": "high"})
                            for i in range(nbar):
                                vulns.append({"id": "V%d" % (len(vulns) + 1), "pkg": nm("bar"), "events": [["introduced", "0"], ["fixed", "2.0.0" if i == 0 else "1.1.0"]], "sev": "high"})
                            o = base_opts(fam)
                            o["maxUpgrades"] = maxup
                            o["levels"] = dict(lvl)
                            man = [{"name": nm("foo"), "req": "1.0.0", "group": ""}]
                            sc = {"eco": eco, "universe": uni, "manifest": man, "vulns": vulns, "opts": o}
                            if layout:
                                sc["layout"] = layout
                            out.append({"fam": "Remediation", "cfg": "designed", "scenario": sc, "devs": [], "model": None, "id": vf.case_id(sc)})
    # Maven: the manifest's own hard range is rewritten to a soft version while another package holds a disjoint hard range
    for lvl in ("patch", "minor", "major"):
        sc = {"eco": "Maven",
              "universe": [{"name": "pkg:a", "versions": [{"v": "1.0.0", "deps": [["pkg:c", "[3.0.0,4.0.0)"]], "latest": True}]},
                           {"name": "pkg:c", "versions": [{"v": v, "deps": [], "latest": v == "3.0.0"} for v in ("1.0.0", "1.0.1", "1.0.2", "3.0.0")]}],
              "manifest": [{"name": "pkg:a", "req": "1.0.0", "group": ""}, {"name": "pkg:c", "req": "[1.0.0,1.0.2)", "group": ""}],
              "vulns": [{"id": "V1", "pkg": "pkg:c", "events": [["introduced", "0"], ["fixed", "1.0.2"]], "sev": "high"}],
              "opts": dict(base_opts("maven-override"), levels={"": lvl})}
        out.append({"fam": "Remediation", "cfg": "designed", "scenario": sc, "devs": [], "model": None, "id": vf.case_id(sc)})
    # Maven: two applied patches, one of which upgrades a direct dependency to a version that carries a hard range on the
    # package the other one overrides (witness of the open finding C11-override-combined-hard-range, found by a random universe)
    # Maven: one record affects two direct dependencies (both overridden in the first round); the fix of one brings in a
    # package with a record of its own, whose fix (second round) carries a hard range on the other: the override made in
    # the first round must still be checked after the second
    for lvl in ("patch", "minor", "major"):
        sc = {"eco": "Maven",
              "universe": [{"name": "pkg:c", "versions": [{"v": v, "deps": [], "latest": v == "3.0.0"} for v in ("1.0.0", "1.0.1", "3.0.0")]},
                           {"name": "pkg:d", "versions": [{"v": "1.0.0", "deps": [], "latest": False}, {"v": "1.0.1", "deps": [["pkg:c", "[3.0.0]"]], "latest": True}]},
                           {"name": "pkg:e", "versions": [{"v": "1.0.0", "deps": [], "latest": False}, {"v": "1.0.1", "deps": [["pkg:d", "1.0.0"]], "latest": True}]}],
              "manifest": [{"name": "pkg:c", "req": "1.0.0", "group": ""}, {"name": "pkg:e", "req": "1.0.0", "group": ""}],
              "vulns": [{"id": "V1", "pkg": "pkg:c", "events": [["introduced", "0"], ["fixed", "1.0.1"]], "sev": "high"},
                        {"id": "V1", "pkg": "pkg:e", "events": [["introduced", "0"], ["fixed", "1.0.1"]], "sev": "high"},
                        {"id": "V2", "pkg": "pkg:d", "events": [["introduced", "0"], ["fixed", "1.0.1"]], "sev": "high"}],
              "opts": dict(base_opts("maven-override"), levels={"": lvl})}
        out.append({"fam": "Remediation", "cfg": "designed", "scenario": sc, "devs": [], "model": None, "id": vf.case_id(sc)})
    # an explicit vulnerability list and a record that appears only after the patch and carries a listed ID as an alias:
    # the report and a fresh analysis must treat it alike (only a record's own ID counts)
    for eco, strat in (("Maven", "override"), ("npm", "relax")):
        nm = (lambda p: "pkg:" + p) if eco == "Maven" else (lambda p: p)
        fam = "maven-override" if eco == "Maven" else "npm-relax"
        dep = (lambda v: v) if eco == "Maven" else (lambda v: "^" + v)
        for listed in (["V1"], ["V1", "ALIAS-X"], ["ALIAS-X"]):
            uni = [{"name": nm("foo"), "versions": [{"v": "1.0.0", "deps": [], "latest": False}, {"v": "3.0.0", "deps": [], "latest": True}]}]
            vulns = [{"id": "V1", "pkg": nm("foo"), "events": [["introduced", "0"], ["fixed", "3.0.0"]], "sev": "high"},
                     {"id": "V2", "pkg": nm("foo"), "events": [["introduced", "3.0.0"]], "sev": "high", "aliases": ["ALIAS-X"]}]
            o = base_opts(fam)
            o["explicit"] = listed
            sc = {"eco": eco, "universe": uni, "manifest": [{"name": nm("foo"), "req": dep("1.0.0"), "group": ""}], "vulns": vulns, "opts": o}
            out.append({"fam": "Remediation", "cfg": "designed", "scenario": sc, "devs": [], "model": None, "id": vf.case_id(sc)})
    sc = json.loads(COMBINED_WITNESS)
    out.append({"fam": "Remediation", "cfg": "designed", "scenario": sc, "devs": [], "model": None, "id": vf.case_id(sc)})
    # Maven bulk update: one package required in <dependencies> and in <dependencyManagement> at different versions; each
    # declaration moves upward from its own version by at most the level (seeded change C11-H: a suggestion cached per
    # package handed the second declaration the version computed for the first)
    for lvl in ("patch", "minor", "major"):
        for first, second in (("2.1.0", "1.0.0"), ("1.0.0", "2.1.0"), ("1.0.0", "1.0.1")):
            for swap in (False, True):
                uni = [{"name": "pkg:lib", "versions": [{"v": v, "deps": [], "latest": v == "3.0.0"}
                                                         for v in ("1.0.0", "1.0.1", "1.0.2", "1.4.0", "2.1.0", "2.1.1", "2.3.0", "3.0.0")]},
                       {"name": "pkg:other", "versions": [{"v": "1.0.0", "deps": [], "latest": True}]}]
                man = [{"name": "pkg:lib", "req": first, "group": "mgmt" if swap else ""},
                       {"name": "pkg:lib", "req": second, "group": "" if swap else "mgmt"},
                       {"name": "pkg:other", "req": "1.0.0", "group": ""}]
                sc = {"eco": "Maven", "universe": uni, "manifest": man, "vulns": [], "opts": dict(base_opts("maven-update"), levels={"": lvl})}
                out.append({"fam": "Remediation", "cfg": "designed", "scenario": sc, "devs": [], "model": None, "id": vf.case_id(sc), "notrace": True})
    # npm: one package declared plainly and through an alias, both in devDependencies. Before the repair the reader kept
    # whichever declaration Go's map iteration visited last, so each witness is replayed several times (field "rep" is
    # ignored by the harness; it only makes the case ids differ)
    for w in DOUBLE_DECLARATION_WITNESSES:
        for rep in range(6):
            sc = json.loads(w)
            sc["rep"] = rep
            out.append({"fam": "Remediation", "cfg": "designed", "scenario": sc, "devs": [], "model": None, "id": vf.case_id(sc)})
    return out


COMBINED_WITNESS = '{"eco": "Maven", "manifest": [{"group": "", "name": "pkg:a", "req": "1.0.0"}, {"group": "", "name": "pkg:b", "req": "[3.0.1-rc1,3.1.0)"}], "opts": {"devDeps": true, "explicit": [], "ignore": [], "ignoreDev": false, "levels": {"": "major"}, "maxDepth": 1, "maxUpgrades": 2, "minSeverity": 0, "mode": "fix", "noIntroduce": false, "strategy": "override"}, "universe": [{"name": "pkg:a", "versions": [{"deps": [], "latest": true, "v": "1.0.0"}, {"deps": [["pkg:b", "[2.0.1-rc1,2.1.0)"]], "latest": false, "v": "1.1.2-rc2"}, {"deps": [["pkg:b", "[0,)"]], "latest": false, "v": "1.2.2-rc1"}]}, {"name": "pkg:b", "versions": [{"deps": [], "latest": false, "v": "2.0.0"}, {"deps": [], "latest": false, "v": "2.0.1-rc1"}, {"deps": [], "latest": false, "v": "3.0.0"}, {"deps": [], "latest": false, "v": "3.0.1-rc1"}, {"deps": [], "latest": false, "v": "3.1.2-rc2"}, {"deps": [], "latest": true, "v": "3.1.2"}]}], "vulns": [{"events": [["introduced", "1.0.0"], ["fixed", "1.1.2-rc2"]], "id": "V1", "pkg": "pkg:a", "sev": "high"}, {"events": [["introduced", "2.0.0"], ["fixed", "3.1.2"]], "id": "V2", "pkg": "pkg:b", "sev": "high"}, {"events": [["introduced", "2.0.0"], ["fixed", "3.1.2"]], "id": "V3", "pkg": "pkg:b", "sev": ""}, {"events": [["introduced", "2.0.1-rc1"], ["fixed", "3.1.2-rc2"]], "id": "V4", "pkg": "pkg:b", "sev": ""}]}'

DOUBLE_DECLARATION_WITNESSES = [
    '{"eco": "npm", "manifest": [{"group": "", "name": "a", "req": "latest"}, {"group": "dev", "name": "b", "req": "latest"}, {"group": "dev", "name": "b-legacy", "req": "npm:b@latest"}], "opts": {"devDeps": true, "explicit": [], "ignore": [], "ignoreDev": false, "levels": {"": "patch", "a": "none", "b": "major"}, "maxDepth": 0, "maxUpgrades": 1, "minSeverity": 7.0, "mode": "fix", "noIntroduce": false, "strategy": "relax"}, "universe": [{"name": "a", "versions": [{"deps": [["b", "latest"], ["c", "~1.1.1-rc.2"]], "latest": false, "v": "1.1.2-rc"}, {"deps": [["b", "latest"], ["c", "~1.0.2-rc.1"]], "latest": false, "v": "2.1.2"}, {"deps": [], "latest": true, "v": "3.0.1"}]}, {"name": "b", "versions": [{"deps": [], "latest": false, "v": "1.0.1"}, {"deps": [["c", "~1.2.0-rc"]], "latest": false, "v": "1.1.2-rc.2"}, {"deps": [], "latest": false, "v": "1.2.0-rc.1"}, {"deps": [["c", "latest"]], "latest": false, "v": "1.2.2"}, {"deps": [["c", "latest"]], "latest": false, "v": "2.0.2-rc"}, {"deps": [], "latest": false, "v": "2.1.0"}, {"deps": [], "latest": false, "v": "2.1.2-rc"}, {"deps": [], "latest": false, "v": "2.2.0-rc.2"}, {"deps": [], "latest": false, "v": "2.2.0"}, {"deps": [["c", "~1.2.1-rc.2"]], "latest": true, "v": "2.2.1"}, {"deps": [], "latest": false, "v": "3.0.1-rc"}, {"deps": [], "latest": false, "v": "3.0.2-rc.1"}]}, {"name": "c", "versions": [{"deps": [], "latest": false, "v": "1.0.2-rc.1"}, {"deps": [], "latest": false, "v": "1.1.1-rc.2"}, {"deps": [], "latest": false, "v": "1.2.0-rc"}, {"deps": [], "latest": false, "v": "1.2.0"}, {"deps": [], "latest": false, "v": "1.2.1-rc.2"}, {"deps": [], "latest": false, "v": "2.1.0-rc.2"}, {"deps": [], "latest": false, "v": "2.1.2-rc"}, {"deps": [], "latest": true, "v": "3.1.1"}]}], "vulns": [{"events": [["introduced", "1.2.0"], ["fixed", "2.1.2-rc"]], "id": "V1", "pkg": "c", "sev": ""}, {"events": [["introduced", "1.2.0"]], "id": "V2", "pkg": "c", "sev": "low"}]}',
    '{"eco": "npm", "manifest": [{"group": "", "name": "a", "req": "latest"}, {"group": "dev", "name": "c", "req": "2.0.0-rc.2"}, {"group": "dev", "name": "c-legacy", "req": "npm:c@2.0.0-rc.2"}], "opts": {"devDeps": true, "explicit": [], "ignore": [], "ignoreDev": true, "levels": {"": "patch", "c": "major"}, "maxDepth": 0, "maxUpgrades": 2, "minSeverity": 0, "mode": "fix", "noIntroduce": false, "strategy": "relax"}, "universe": [{"name": "a", "versions": [{"deps": [["b", "latest"], ["c", "~3.2.0-rc.1"]], "latest": false, "v": "1.0.0"}, {"deps": [["b", "^2.1.2"], ["d", "3.0.2-rc"]], "latest": false, "v": "1.0.1"}, {"deps": [["c", "~2.1.2-rc.2"]], "latest": false, "v": "1.1.2"}, {"deps": [["b", "2.2.2-rc.1"]], "latest": false, "v": "2.0.2-rc.1"}, {"deps": [], "latest": false, "v": "2.1.1"}, {"deps": [["b", "~2.2.1"], ["c", "~2.1.2-rc.2"], ["d", "3.0.2-rc"]], "latest": false, "v": "2.1.2-rc"}, {"deps": [["c", "1.0.2"], ["d", "latest"]], "latest": false, "v": "2.1.2"}, {"deps": [["b", "~2.2.1"], ["c", "^2.1.2-rc.2"]], "latest": false, "v": "2.2.0"}, {"deps": [["b", "^3.2.0"]], "latest": true, "v": "2.2.1"}, {"deps": [["c", "~2.1.2-rc.2"]], "latest": false, "v": "3.0.2-rc.1"}, {"deps": [["b", "latest"]], "latest": false, "v": "3.2.2-rc.2"}]}, {"name": "b", "versions": [{"deps": [], "latest": false, "v": "1.0.0-rc.2"}, {"deps": [["d", "latest"]], "latest": false, "v": "1.0.0"}, {"deps": [], "latest": false, "v": "2.1.1-rc.1"}, {"deps": [["d", "3.0.2-rc"]], "latest": false, "v": "2.1.2"}, {"deps": [["d", "^3.0.2-rc"]], "latest": false, "v": "2.2.0-rc.2"}, {"deps": [["d", "~3.0.2-rc"]], "latest": false, "v": "2.2.1"}, {"deps": [["c", "~2.1.2-rc.2"], ["d", "~3.0.2-rc"]], "latest": false, "v": "2.2.2-rc.1"}, {"deps": [], "latest": false, "v": "2.2.2"}, {"deps": [["c", "latest"], ["d", "3.0.2-rc"]], "latest": true, "v": "3.2.0"}, {"deps": [], "latest": false, "v": "3.2.1-rc.2"}]}, {"name": "c", "versions": [{"deps": [], "latest": true, "v": "1.0.2"}, {"deps": [], "latest": false, "v": "2.0.0-rc.2"}, {"deps": [["d", "^3.0.2-rc"]], "latest": false, "v": "2.1.2-rc.2"}, {"deps": [["d", "^3.0.2-rc"]], "latest": false, "v": "3.2.0-rc.1"}]}, {"name": "d", "versions": [{"deps": [], "latest": true, "v": "3.0.2-rc"}]}], "vulns": [{"events": [["introduced", "0"]], "id": "V1", "pkg": "c", "sev": "low"}, {"events": [["introduced", "2.0.0-rc.2"], ["fixed", "3.2.0-rc.1"]], "id": "V2", "pkg": "c", "sev": "low"}, {"events": [["introduced", "1.0.2"], ["fixed", "2.1.2-rc.2"]], "id": "V3", "pkg": "c", "sev": "high"}]}',
]


def select(ck, cases):
    """seeded stratified sample per cfg: scenarios where the model predicts a patch first, a slice of the rest"""
    rng = random.Random(ck.seed * 1000003 + 11)
    by = {}
    for c in sorted(cases, key=lambda c: c["id"]):      # TLC prints in worker order: make the sample depend on the seed only
        by.setdefault(c["cfg"], []).append(c)
    cap_nt, cap_tr = (12000, 2000) if ck.thorough() else (1500, 250)
    out = []
    for cfg in sorted(by):
        nt = [c for c in by[cfg] if c["model"]["patches"] > 0 or c["devs"] or c["model"]["error"]]
        tr = [c for c in by[cfg] if not (c["model"]["patches"] > 0 or c["devs"] or c["model"]["error"])]
        rng.shuffle(nt)
        rng.shuffle(tr)
        # keep the scenario classes of open-finding witnesses and multi-update / introducing patches represented
        nt.sort(key=lambda c: -(2 * bool(c["devs"]) + (c["model"]["updates"] > 1) + bool(c["model"]["intro"])))
        out += nt[:cap_nt] + tr[:cap_tr]
    seen = set()
    uniq = []
    for c in out:
        c = overlay(c, ck.seed)
        if c["id"] not in seen:
            seen.add(c["id"])
            uniq.append(c)
    return uniq


def run(prop):
    a = args.parse()
    ck = vf.Check(prop, "model_checking", tier=a.tier, seed=a.seed)
    if a.replay:
        rec = json.load(open(a.replay))["replay"]
        if rec["case"].get("fam") == "NpmRead":
            ck.count(part_npmread(ck, only=rec["case"]))
            return ck.finish()
        cases = [rec["case"]]
        emitted = 1
    else:
        cache = os.environ.get("VERIF_REM_CACHE")       # development aid for mutation runs only: reuse the emitted scenarios
        if cache and os.path.exists(cache):
            allc = [json.loads(l) for l in open(cache)]
            vf.log("[cache] %d scenarios from %s (TLC generation skipped)" % (len(allc), cache))
        else:
            allc = generate(ck)
            if cache:
                with open(cache, "w") as f:
                    for c in allc:
                        f.write(json.dumps(c) + "\n")
        emitted = len(allc)
        cases = select(ck, allc)
        rng = random.Random(ck.seed * 7919 + 5)
        cases += [random_case(rng, j) for j in range(12000 if ck.thorough() else 1500)]
        cases += designed_cases()
    outs = vf.run_harness("vremfix", "fix", cases, timeout=3000)
    if len(outs) != len(cases):
        raise vf.NotAVerdict("harness returned %d of %d cases" % (len(outs), len(cases)))
    outs.sort(key=lambda o: o["i"])
    nskipped = sum(1 for o in outs if o.get("skipped"))
    if nskipped:
        ck.cov["not_explored"].append("%d scenario(s) not run after 12 scenarios were confirmed as non-terminating" % nskipped)
        keep = [o for o in outs if not o.get("skipped")]
        if not any(f["kind"] == "hang" for o in keep for f in o["findings"]):
            raise vf.NotAVerdict("scenarios were skipped although no hang finding was reported")
        outs = keep
    for o in outs:
        if o.get("harness"):
            raise vf.NotAVerdict("harness inconsistency on case %s: %s" % (o["id"], o["harness"]))

    # ---- verdicts computed by the harness's own oracle; attribution to known findings by scenario class ----
    bad_traces, good_traces = [], []
    nontrivial = evals = undefined = 0
    per = {}
    nkind = {}
    for o in outs:
        c = cases[o["i"]]
        st = o["stats"]
        fam = c["scenario"]["opts"]["mode"] + "/" + c["scenario"]["opts"]["strategy"] + "/" + c["scenario"]["eco"]
        p = per.setdefault(fam, {"cases": 0, "with_patch": 0, "updates": 0, "applied": 0, "errors": 0})
        p["cases"] += 1
        p["updates"] += st["updates"]
        p["applied"] += 1 if st["applied"] else 0
        p["errors"] += 1 if st.get("err") else 0
        undefined += st["undefined_base"]
        if st["updates"] > 0:
            nontrivial += 1
            p["with_patch"] += 1
        evals += st["updates"] if prop == "C11" else (1 if any(e["ev"] == "Vulns" and e["run"] == 2 for e in o["trace"]) else 0)
        unexcused = False
        for f in o["findings"]:
            fid = classify(c, f)
            if f["prop"] != prop:
                # the other property's business; its traces still must not stop this TLC run
                if not (fid and fid in load_open()):
                    unexcused = True
                continue
            if fid and ck.known_finding(fid, f["what"]):
                continue
            unexcused = True
            nkind[f["kind"]] = nkind.get(f["kind"], 0) + 1
            if nkind[f["kind"]] > 40:           # every violation counts for the verdict; replay files are written for the first 40 of a kind
                ck.cov["violations_without_replay_file"] = ck.cov.get("violations_without_replay_file", 0) + 1
                continue
            ck.violation("%s [%s%s] %s" % (prop, f["kind"], (" = class of finding " + fid + " (not listed open)") if fid else "", f["what"]),
                         {"case": c, "finding": f, "stats": st})
        if c.get("notrace"):
            # manifests that require one package twice are outside the domain of RemediationTrace.tla (its manifests are
            # functions of the package name): judged by the harness oracle only
            ck.cov["cases_outside_trace_domain"] = ck.cov.get("cases_outside_trace_domain", 0) + 1
            continue
        (bad_traces if unexcused else good_traces).append(o)
        if st["updates"] > 0 and len(ck.cov["samples"]) < 4 and (o["i"] % 97 == 0 or not ck.cov["samples"]):
            ck.sample({"case_id": c["id"], "cfg": c["cfg"], "scenario": c["scenario"], "trace": o["trace"]})

    # ---- trace validation by TLC: every invariant at every step of every recorded pipeline ----
    validate_traces(ck, prop, good_traces, bad_traces)

    if prop == "C12" and not a.replay:
        evals += part_npmread(ck)
    ck.count(evals)
    ck.cov["distinct_nontrivial"] = nontrivial
    ck.cov["cases_emitted"] = emitted
    ck.cov["cases_replayed"] = len(cases)
    ck.cov["random_universes"] = sum(1 for c in cases if c["cfg"] == "random")
    ck.cov["per_family"] = per
    ck.cov["updates_with_undefined_base"] = undefined
    ck.cov["exhaustive"] = False
    ck.cov["rule"] = ("TLC: every scenario reachable in Remediation.tla under the cfg constants (universes of 2-3 packages with menus out of "
                      "{1.0.0,1.0.1,1.1.0,2.0.0-rc,2.0.0,2.1.0,3.0.0}, per-version edges pin/caret/tilde/latest in flat/rising/drop patterns, "
                      "OSV range shapes, manifests, default and per-package levels, option variants) is model-checked; the real FixVulns/Update "
                      "is run on a VERIF_SEED-stratified sample of them (all classes where the model predicts a patch first) plus seeded random "
                      "universes (<=4 packages, 1..12 versions with pre-releases); evaluations = "
                      + ("dependency changes (PackageUpdates of proposed and applied patches) judged against patch-minus-one re-resolutions"
                         if prop == "C11" else "pipelines whose written manifest was analysed afresh and compared with the report")
                      + "; non-trivial = universes where at least one patch was proposed (measured)")
    ck.cov["not_explored"] += [
        "in-place/lockfile strategies (not implemented in this tree: readWriterForLockfile returns unsupported)",
        "npm override and Maven relax (the manifests support only relax resp. override); npm Update (suggest: 'npm not yet supported')",
        "Maven parent POMs, properties, profiles, classifiers (C13 covers the writers); npm workspaces and aliases",
        "remote registries (datasource.MavenRegistryAPIClient is constructed but never contacted: no parents/imports)",
        "updates whose package is absent from the re-resolved graph are counted (updates_with_undefined_base) and only checked for level != none"]
    ck.assumptions += [
        "the harness renders version tuples to ecosystem strings whose real order equals the tuple order (checked against the resolver's sorted Versions())",
        "'the version u.name resolves to' = the node the root edge for u.name points to, else the unique node of that name in the real resolved graph",
        "the second analysis is FixVulns on a copy of the written manifest with the same filter options and every upgrade level None"]
    return ck.finish()


def part_npmread(ck, only=None):
    """NpmRead.tla: which direct requirements the package.json reader hands to resolution. TLC checks the transcription of the
    three section loops against the declarative result under every map-iteration order (and that the by-package lookup of
    the code before c419abf5 is refuted), emits every scenario, and the real reader is run on each of them several times."""
    if only is not None:
        cases = [only]
    else:
        dev = vf.tlc("NpmRead", "NpmRead-dev.cfg", timeout=600, collect=False)
        if dev.ok or dev.violated != "ReadIsWant":
            raise vf.NotAVerdict("NpmRead-dev.cfg: the by-package lookup must violate ReadIsWant (model sanity), got %r" % dev.violated)
        san = vf.tlc("NpmRead", "NpmRead-sanity.cfg", timeout=600, collect=False)
        if san.ok or san.violated != "Sanity":
            raise vf.NotAVerdict("NpmRead-sanity.cfg must be violated (vacuity guard), got %r" % san.violated)
        cfg = "NpmRead-gen5.cfg" if ck.thorough() else "NpmRead-gen4.cfg"
        res = vf.require_ok(vf.tlc("NpmRead", cfg, timeout=3000), "NpmRead/" + cfg)
        vf.log("[tlc] NpmRead/%s: %d generated / %d distinct, %d scenarios, %.1fs" % (cfg, res.generated, res.distinct, len(res.cases), res.wall))
        cases = []
        seen = set()
        for c in res.cases:
            c = {"fam": "NpmRead", "cfg": cfg, "decl": c["decl"], "want": c["want"], "reps": 12 if ck.thorough() else 8}
            c["id"] = vf.case_id({"decl": c["decl"]})
            if c["id"] not in seen:
                seen.add(c["id"])
                cases.append(c)
        ck.cov["npmread_model"] = {"cfg": cfg, "generated": res.generated, "distinct": res.distinct, "scenarios": len(cases)}
    outs = vf.run_harness("vremfix", "npmread", cases, timeout=1800)
    if len(outs) != len(cases):
        raise vf.NotAVerdict("npmread harness returned %d of %d cases" % (len(outs), len(cases)))
    outs.sort(key=lambda o: o["i"])
    key = lambda r: (r["pkg"], r["as"], r["ver"], bool(r["opt"]), r["group"])
    nrun = ndouble = nbad = 0
    for o in outs:
        c = cases[o["i"]]
        nrun += o["runs"]
        want = sorted(key(r) for r in c["want"])
        pk = [r["pkg"] for r in c["want"]]
        ndouble += 1 if len(pk) != len(set(pk)) else 0
        if o["errs"]:
            raise vf.NotAVerdict("npmread: the reader rejected a generated package.json: %s" % o["errs"][0])
        bad = [ob for ob in o["obs"] if sorted(key(r) for r in ob) != want]
        if bad or len(o["obs"]) != 1:
            nbad += 1
            if nbad > 40:           # every violation counts for the verdict; replay files are written for the first 40
                ck.cov["violations_without_replay_file"] = ck.cov.get("violations_without_replay_file", 0) + 1
                continue
            ck.violation("C12 [reader] package.json declaring %s: the requirements handed to resolution must be %s on every read; "
                         "%d reads gave %d different result(s), e.g. %s" % (json.dumps(c["decl"], sort_keys=True), want, o["runs"], len(o["obs"]),
                                                                               sorted(key(r) for r in (bad[0] if bad else o["obs"][-1]))),
                         {"case": c, "observed": o["obs"]})
    ck.cov["npmread"] = {"scenarios": len(cases), "reads": nrun, "scenarios_with_one_package_declared_under_two_keys": ndouble}
    return len(cases)


_open = None


def load_open():
    global _open
    if _open is None:
        _open = set()
        for p in ("C11", "C12"):
            _open |= {k["id"] for k in vf.load_known(p)}
    return _open


def write_trace(path, outs):
    n = 0
    with open(path, "w") as f:
        for o in outs:
            for e in o["trace"]:
                f.write(json.dumps(e) + "\n")
                n += 1
    return n


INV = {"C11": "TC11None TC11Upward TC11Level TC11ChangeOK TChooseOp TMaxUpgrades TNoIntroduce TWrittenIsPatch",
       "C12": "TC12Reanalysis TC12NoPatch TC12Actionable TChooseOp TMaxUpgrades TNoIntroduce TWrittenIsPatch"}


def validate_traces(ck, prop, good, bad):
    tmpd = tempfile.mkdtemp(prefix="vrt-")
    try:
        cfg = open(os.path.join(vf.SPEC, "cfg", "RemediationTrace.cfg")).read()
        devs = sorted(load_open() & set(MY_FINDINGS))
        cfg = cfg.replace("Devs = {}", "Devs = {%s}" % ", ".join('"%s"' % d for d in devs))
        allinv = cfg[cfg.index("INVARIANTS"):cfg.index("POSTCONDITION")]
        cfg = cfg.replace(allinv, "INVARIANTS " + INV[prop] + "\n")
        cfgp = os.path.join(tmpd, "RemediationTrace-%s.cfg" % prop)
        open(cfgp, "w").write(cfg)
        CHUNK = 12000                      # traces per TLC run (ndJsonDeserialize holds the whole file in memory)
        nev = 0
        for ci in range(0, max(1, len(good)), CHUNK):
            part = good[ci:ci + CHUNK]
            tr = os.path.join(tmpd, "trace%d.ndjson" % ci)
            n = write_trace(tr, part)
            nev += n
            os.environ["VERIF_TRACE"] = tr
            r = vf.tlc("RemediationTrace", cfgp, workers=1, collect=False, timeout=1500, heap="8g")
            ck.add_tlc("RemediationTrace (%d traces, %d events, Devs=%s)" % (len(part), n, devs), r)
            if not r.ok:
                keep = os.path.join(vf.VERIF, "replays", "%s-trace-rejected.ndjson" % prop)
                os.makedirs(os.path.dirname(keep), exist_ok=True)
                shutil.copyfile(tr, keep)
                msg = ("RemediationTrace rejects (%s) a recorded pipeline on which the harness oracle found no %s violation: "
                       "the code diverges from the transcribed pipeline without breaking the property, or spec and harness disagree "
                       "(trace kept at %s)" % (r.violated, prop, keep))
                if not ck.violations:
                    vf.log(r.output_tail[-3000:])
                    raise vf.NotAVerdict(msg)
                # the real code already violated the property elsewhere in this run: that verdict stands
                ck.cov["trace_divergence"] = msg
                vf.log("[trace] " + msg)
            else:
                ck.cov["traces_validated_against_impl"] += len(part)
            os.remove(tr)
        ck.cov["trace_events"] = nev
        # the pipelines the harness oracle rejected must be rejected by the specification too
        mine = [o for o in bad if any(f["prop"] == prop for f in o["findings"]) and
                any(e["ev"] == "Base" or (e["ev"] == "Vulns" and e["run"] == 2) for e in o["trace"]) and
                not any(f["kind"] in ("panic", "hang", "reanalysis-failed", "unreadable") for f in o["findings"])]
        for o in mine[:5]:
            tr1 = os.path.join(tmpd, "bad.ndjson")
            write_trace(tr1, [o])
            os.environ["VERIF_TRACE"] = tr1
            r1 = vf.tlc("RemediationTrace", cfgp, workers=1, collect=False, timeout=300)
            if r1.ok:
                raise vf.NotAVerdict("the harness oracle reports a %s violation on case %s but RemediationTrace accepts its trace" % (prop, o["id"]))
            ck.cov["violating_traces_confirmed_by_tlc"] = ck.cov.get("violating_traces_confirmed_by_tlc", 0) + 1
        for f in os.listdir(vf.SPEC):
            if "_TTrace_" in f:
                os.remove(os.path.join(vf.SPEC, f))
    finally:
        shutil.rmtree(tmpd, ignore_errors=True)


if __name__ == "__main__":
    vf.main_wrapper(lambda: run("C11"))
