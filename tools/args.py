import argparse, os
def parse():
    ap = argparse.ArgumentParser()
    ap.add_argument("--tier", default=os.environ.get("VERIF_TIER", "quick"))
    ap.add_argument("--seed", type=int, default=None)
    ap.add_argument("--replay", default=None)
    a = ap.parse_args()
    if a.tier not in ("quick", "thorough"):
        a.tier = "quick"
    return a
