#!/usr/bin/env python3
"""C18 - affected-version decisions follow the OSV range rules.
TLC: OSVRange.tla proves sort+binary-search == OSV linear evaluation on the bounded space and
emits every record with the declarative expectation; the harness replays every record x query
x ecosystem spelling through the real vulns.IsAffected."""
import json, sys, os
sys.path.insert(0, os.path.dirname(os.path.abspath(__file__)))
import vf, args


def main():
    a = args.parse()
    ck = vf.Check("C18", "model_checking", tier=a.tier, seed=a.seed)
    if a.replay:
        rec = json.load(open(a.replay))["replay"]
        cases = [rec["case"]]
    else:
        # sanity: the property's antecedent is reachable (TLC must violate Sanity)
        s = vf.tlc("OSVRange", "OSVRange-sanity.cfg", workers=2, collect=False, timeout=120)
        if s.violated != "Sanity":
            raise vf.NotAVerdict("sanity invariant not violated: vacuous model")
        cfgs = ["OSVRange-single-quick.cfg", "OSVRange-multi-quick.cfg", "OSVRange-nested-quick.cfg"]
        if ck.thorough():
            cfgs = ["OSVRange-single.cfg", "OSVRange-multi.cfg", "OSVRange-multi-quick.cfg", "OSVRange-nested-quick.cfg"]
        cases = []
        for c in cfgs:
            r = vf.require_ok(vf.tlc("OSVRange", c, timeout=1500), c)
            ck.add_tlc(c, r, open(os.path.join(vf.SPEC, "cfg", c)).read().split("SPECIFICATION")[0].strip())
            cases += r.cases
    obs = vf.run_harness("vremed", "osvrange", cases)
    nontrivial = 0
    seen = 0
    for o in obs:
        c = cases[o["i"]]
        seen += 1
        exp = c["expect"]
        if any(exp) and not all(exp):
            nontrivial += 1
        for variant in ("a", "b", "c"):
            if o[variant] != exp:
                qs = [q + 1 for q in range(len(exp)) if o[variant][q] != exp[q]]
                ck.violation("IsAffected differs from the OSV evaluation for %s record %s at query positions %s (spelling %s): expected %s observed %s"
                             % (c["eco"], json.dumps(c["affected"]), qs, variant, exp, o[variant]),
                             {"case": c, "variant": variant, "observed": o[variant]})
                break
    if seen != len(cases):
        raise vf.NotAVerdict("harness returned %d of %d cases" % (seen, len(cases)))
    ck.count(sum(3 * len(c["expect"]) for c in cases))
    ck.cov["distinct_nontrivial"] = nontrivial
    ck.cov["traces_validated_against_impl"] = len(cases)
    ck.cov["cases_replayed"] = len(cases)
    ck.cov["exhaustive"] = True
    ck.cov["rule"] = ("every complete record reachable in OSVRange.tla under the cfg constants (all listed orders of all well-formed "
                      "event lists; all range types; same/other package/ecosystem; explicit version lists) x every query position x 2 "
                      "version spellings; non-trivial = record affected at some query and unaffected at another")
    for c in cases[:: max(1, len(cases) // 4)][:4]:
        ck.sample(c)
    ck.assumptions += ["abstract positions are rendered to version strings whose real ordering (deps.dev semver) matches the position order",
                       "fixed X immediately followed by introduced X (equal versions in one range) is outside the explored domain"]
    return ck.finish()


vf.main_wrapper(main)
