"""C02 half (b): containment of extractor failures, decided by ScanWalk.tla (Containment invariant + replay)."""
import os, sys
sys.path.insert(0, os.path.dirname(os.path.abspath(__file__)))
import vf, scanwalk, swprop


def run(ck, replay=None):
    if replay is not None:
        if replay.get("family") == "scanwalk":
            scanwalk.replay_one(ck, replay)
        return
    fams = swprop.pick(["ScanWalk-F2b-contain.cfg", "ScanWalk-F9b-file.cfg"], ck.thorough())
    scanwalk.run_family(ck, fams, ["stream/plain", "fallback/nasty"])
    ck.cov["containment_rule"] = ("every tree (<= 4 nodes) x two extractors with arbitrary 'required' sets x every assignment of outcomes ok / error / error+packages / empty "
                                  "to the required <extractor,file> pairs: every other pair is extracted and reported exactly as if nothing failed, the failing extractor's status is "
                                  "failed or (iff it produced inventory) partially succeeded, the scan succeeds")
