#!/usr/bin/env python3
"""C09 - filesystem faults are contained, surfaced, and fatal only on request."""
import sys, os
sys.path.insert(0, os.path.dirname(os.path.abspath(__file__)))
import vf, swprop
vf.main_wrapper(lambda: swprop.run(
    "C09", ["ScanWalk-F9a-trav.cfg", "ScanWalk-F9b-file.cfg", "ScanWalk-F9c-gi.cfg", "ScanWalk-F9d-paths.cfg"], ["ScanWalk-F9-fault2-t.cfg", "ScanWalk-F9-fault1-t.cfg"], [],
    ["stream/plain", "fallback/nasty"],
    "every single fault (thorough: every pair) over the sites stat-root, stat of a requested path (a path that does not exist, before or after other requested paths), open-dir, k-th directory entry, open file, fstat, lazy stat, read, open .gitignore "
    "of every tree (<= 4 nodes) x fatal-on-error on/off x size limit on/off x gitignore on/off x two listing orders, permission and non-permission error kinds "
    "alternating; the in-memory FS injects the fault, scalibr.Scan runs under recover; non-trivial = a fault site that the walk actually reaches or an Extract expected",
    ["faults on explicitly requested paths' initial stat", "lazy-stat and .gitignore-open faults together with fatal-on-error (whether they count as traversal failures is unspecified)",
     "partial directory listings on file systems without ReadDirFile (the fallback lists in one call)"],
    ["a failing size lookup is surfaced in the status of every extractor that requires the file and the file is not extracted"],
    sanity=(("ScanWalk-sanity.cfg", "SanityExtract"), ("ScanWalk-sanity2.cfg", "SanityFailed")), level="fault_enumeration"))
