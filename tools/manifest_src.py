HOOK_COMMITS = ["3541ee03", "5c7bb04c"]

CHECKS = [
 {"property_id": "C18", "level": "model_checking",
  "text": "TLC proves, on every listed order of every well-formed event list (<=5 events over 5 versions + '0', several ranges/entries on smaller bounds), that the transcription of IsAffected (sort, Go binary search, neighbour decision) equals the OSV linear evaluation; every record TLC reaches is then replayed through the real vulns.IsAffected for npm, Maven and PyPI at every query position in two version spellings and compared with the declarative expectation.",
  "note": "Trusted: TLC, deps.dev semver ordering on the rendered version strings, the position->string rendering. Equal-version fixed/introduced pairs are outside the domain.",
  "technique": "TLA+ spec (OSVRange.tla) model-checked by TLC; exhaustive replay of TLC-generated cases into the real code"},
 {"property_id": "C16", "level": "model_checking",
  "text": "ReqCache.tla models RequestCache.Get as its critical sections; TLC explores every interleaving of 3-4 goroutines over 1-2 keys with ok/err fetch outcomes and SetMap, checking one-leader-per-key, no-fetch-after-success, cache/return soundness and termination under fairness. Every behaviour of the Gen cfgs is replayed through the real cache with hook-H1 gates (state compared after every step), and ungated 8-goroutine stress traces (sequence numbers taken under the cache mutex) are validated against the spec with all invariants evaluated at every step; thorough tier records the traces under the Go race detector.",
  "note": "Trusted: TLC, the Go scheduler/race detector, hook H1 placement, goroutine identity via runtime.Stack. Parts (a) patch fan-out and (c) status-ticker race are listed in evidence.not_explored until their modules are bound.",
  "technique": "TLA+ spec (ReqCache.tla) model-checked by TLC; deterministic schedule replay of TLC behaviours into the real code via gated hooks; TLC trace validation of recorded concurrent executions"},
]

_PENDING = "check not built yet in this round (planned, see DESIGN.md section 6); not claimed until its TLA+ spec and conformance harness exist"
NOT_APPLICABLE = [{"property_id": "C%02d" % i, "reason": _PENDING} for i in range(1, 21)
                  if "C%02d" % i not in {c["property_id"] for c in CHECKS}]
