HOOK_COMMITS = ["3541ee03"]

CHECKS = [
 {"property_id": "C18", "level": "model_checking",
  "text": "TLC proves, on every listed order of every well-formed event list (<=5 events over 5 versions + '0', several ranges/entries on smaller bounds), that the transcription of IsAffected (sort, Go binary search, neighbour decision) equals the OSV linear evaluation; every record TLC reaches is then replayed through the real vulns.IsAffected for npm, Maven and PyPI at every query position in two version spellings and compared with the declarative expectation.",
  "note": "Trusted: TLC, deps.dev semver ordering on the rendered version strings, the position->string rendering. Equal-version fixed/introduced pairs are outside the domain.",
  "technique": "TLA+ spec (OSVRange.tla) model-checked by TLC; exhaustive replay of TLC-generated cases into the real code"},
]

_PENDING = "check not built yet in this round (planned, see DESIGN.md section 6); not claimed until its TLA+ spec and conformance harness exist"
NOT_APPLICABLE = [{"property_id": "C%02d" % i, "reason": _PENDING} for i in range(1, 21)
                  if "C%02d" % i not in {c["property_id"] for c in CHECKS}]
