"""C16 part (c): the status-printing goroutine vs the walk (WalkStatus.tla + race-detector run of a whole scan)."""
import os, subprocess, sys
sys.path.insert(0, os.path.dirname(os.path.abspath(__file__)))
import vf


def run(ck, replay=None):
    # model: with the mutex no conflicting accesses overlap and both goroutines terminate; without it TLC finds the race
    r = vf.require_ok(vf.tlc("WalkStatus", "WalkStatus-guarded.cfg", workers=4, collect=False, timeout=300), "WalkStatus-guarded")
    ck.add_tlc("WalkStatus-guarded.cfg", r, "Guarded = TRUE NInodes = 3 NTicks = 3")
    s = vf.tlc("WalkStatus", "WalkStatus-unguarded.cfg", workers=4, collect=False, timeout=300)
    if s.violated != "NoDataRace":
        raise vf.NotAVerdict("WalkStatus: the unguarded model must exhibit the race (sanity)")
    # binding: whole scans lasting longer than the status interval, under the race detector
    binp = vf.build_harness("vscan", race=True)
    runs = 3 if ck.thorough() else 1
    for i in range(runs):
        secs = 5 + 2 * i
        p = subprocess.run([binp, "tickrace", "-a", "seconds=%d" % secs], env=vf.go_env(), capture_output=True, text=True, timeout=600)
        out = p.stdout + p.stderr
        if "DATA RACE" in out:
            ck.violation("data race between the walk and the status-printing goroutine during a %d s scan:\n%s" % (secs, out[:2500]),
                         {"part": "c", "seconds": secs, "race_report": out[:8000]})
        elif p.returncode != 0 or "tickrace: scan" not in out:
            vf.log(out[-2000:])
            raise vf.NotAVerdict("tickrace driver failed")
        ck.count(1)
        ck.cov["traces_validated_against_impl"] += 1
    ck.cov["ticker_race_runs"] = runs
    ck.sample({"part": "c", "scan_seconds": 5, "race_detector": True})
