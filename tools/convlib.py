"""Shared by c14.py and c15.py (Convert family): marker decoding and the application of the
specification's normalisation rule table (Convert.tla: LowerNsTypes, LowerNameTypes, DashNameTypes,
emitted by TLC as the "rules" case) to concrete package-URL records."""
import re

_MARK = re.compile(r"\{U\+([0-9A-Fa-f]{4,6})\}")


def decode(x):
    """Convert.tla writes non-ASCII / control characters as {U+XXXX} (TLC strings are ASCII)."""
    if isinstance(x, str):
        return _MARK.sub(lambda m: chr(int(m.group(1), 16)), x)
    if isinstance(x, list):
        return [decode(v) for v in x]
    if isinstance(x, dict):
        return {k: decode(v) for k, v in x.items()}
    return x


def split_rules(cases):
    """Separates the rules record from the emitted cases."""
    rules = None
    out = []
    for c in cases:
        if "rules" in c:
            rules = {k: set(v) for k, v in c["rules"].items()}
        else:
            out.append(c)
    return rules, out


def norm(p, rules):
    """Normal form of a package-URL record {type, ns, name, version, quals[[k,v]..], subpath}: the string
    primitives (lower-casing, '_' -> '-', '/' trimming) are applied where the specification's tables say so."""
    t = p["type"].lower()
    ns = "/".join(s for s in p["ns"].split("/") if s)
    if t in rules["lower_ns"]:
        ns = ns.lower()
    name = p["name"]
    if t in rules["dash_name"]:
        name = name.replace("_", "-")
    if t in rules["lower_name"]:
        name = name.lower()
    quals = tuple(sorted((k.lower(), v) for k, v in (p.get("quals") or []) if v != ""))
    sub = "/".join(s for s in p["subpath"].split("/") if s)
    return (t, ns, name, p["version"], quals, sub)


def bag(items):
    b = {}
    for x in items:
        b[x] = b.get(x, 0) + 1
    return b


def show(n):
    t, ns, name, ver, quals, sub = n
    s = "pkg:%s/%s%s@%s" % (t, (ns + "/") if ns else "", name, ver)
    if quals:
        s += "?" + "&".join("%s=%s" % q for q in quals)
    if sub:
        s += "#" + sub
    return s


def bag_diff(exp, got):
    missing = []
    extra = []
    for k in set(exp) | set(got):
        d = exp.get(k, 0) - got.get(k, 0)
        if d > 0:
            missing += [show(k)] * d
        elif d < 0:
            extra += [show(k)] * (-d)
    return sorted(missing), sorted(extra)
